import SigModel.Spec.Throttle

namespace SigModel.Throttle
open SigModel.Generated.Throttle

/-! ### the code's constants are the statement's -/

theorem consts_eq : maxBruteforceAttempts = stmtAttempts ∧ maxBruteforceDurationThreshold = stmtWindow ∧
    maxBruteforceAge = stmtAge ∧ maxThrottleDelay ≤ stmtMaxDelay := by decide

theorem inWindow_eq (now : Int) :
    inWindow now = fun t => decide (now - t ≤ (maxBruteforceDurationThreshold : Int)) := by
  funext t; simp [inWindow, consts_eq.2.1]

theorem inAge_eq (now : Int) : inAge now = fun t => decide (now - t ≤ (maxBruteforceAge : Int)) := by
  funext t; simp [inAge, consts_eq.2.2.1]

theorem specRefused_eq (now : Int) (F : List Int) :
    specRefused now F = decide (maxBruteforceAttempts ≤ windowCount now F) := by
  simp [specRefused, consts_eq.1]

theorem ageCmp_gt (a b : Int) : cmpInt ageCmp a b = decide (a > b) := by
  simp [cmpInt, ageCmp]

theorem windowCmp_le (a b : Int) : cmpInt windowCmp a b = decide (a ≤ b) := by
  simp [cmpInt, windowCmp]

theorem attemptsCmp_ge (a b : Nat) : cmpNat attemptsCmp a b = decide (a ≥ b) := by
  simp [cmpNat, cmpInt, attemptsCmp]

/-! ### delay -/

theorem getDelay_le_max (c : Nat) : getDelay c ≤ maxThrottleDelay := by
  unfold getDelay
  split
  · exact Nat.le_refl _
  · simp only []
    split <;> omega

theorem intPow_eq (n m : Nat) : intPow n m = n ^ m := by
  unfold intPow; split
  · subst_vars; simp
  · rfl

theorem getDelay_mono {c₁ c₂ : Nat} (h : c₁ ≤ c₂) : getDelay c₁ ≤ getDelay c₂ := by
  by_cases h2 : c₂ > overflowGuard
  · have : getDelay c₂ = maxThrottleDelay := by unfold getDelay; simp [h2]
    rw [this]; exact getDelay_le_max _
  · have h1 : ¬ c₁ > overflowGuard := by omega
    have hp : powBase ^ c₁ ≤ powBase ^ c₂ := Nat.pow_le_pow_right (by decide) h
    have hm : delayFactor * powBase ^ c₁ * delayUnit ≤ delayFactor * powBase ^ c₂ * delayUnit :=
      Nat.mul_le_mul_right _ (Nat.mul_le_mul_left _ hp)
    unfold getDelay
    simp only [h1, h2, if_false, intPow_eq]
    split <;> split <;> omega

/-! ### sorted lists and counting -/

/-- Entries in non-decreasing time order. -/
def Sorted (l : List Int) : Prop := l.Pairwise (· ≤ ·)

theorem Sorted.tail {a : Int} {l : List Int} (h : Sorted (a :: l)) : Sorted l :=
  (List.pairwise_cons.mp h).2

theorem Sorted.head_le {a : Int} {l : List Int} (h : Sorted (a :: l)) : ∀ t ∈ l, a ≤ t :=
  fun t ht => (List.pairwise_cons.mp h).1 t ht

theorem Sorted.append_one {l : List Int} {x : Int} (h : Sorted l) (hx : ∀ t ∈ l, t ≤ x) :
    Sorted (l ++ [x]) := by
  unfold Sorted at *
  rw [List.pairwise_append]
  refine ⟨h, List.pairwise_singleton _ _, ?_⟩
  intro a ha b hb
  simp at hb; subst hb; exact hx a ha

theorem Sorted.drop {l : List Int} (n : Nat) (h : Sorted l) : Sorted (l.drop n) :=
  List.Pairwise.sublist (List.drop_sublist n l) h

/-- `filterEntries` returns a suffix: it drops exactly the leading run of too-old entries. -/
theorem filterEntries_eq_drop (now : Int) (l : List Int) :
    ∃ n, filterEntries now l = l.drop n ∧ n ≤ l.length ∧
      (∀ t ∈ l.take n, now - t > (maxBruteforceAge : Int)) ∧
      (∀ t, (l.drop n).head? = some t → now - t ≤ (maxBruteforceAge : Int)) := by
  induction l with
  | nil => exact ⟨0, by simp [filterEntries]⟩
  | cons e es ih =>
    unfold filterEntries
    rw [ageCmp_gt]
    by_cases h : now - e > (maxBruteforceAge : Int)
    · obtain ⟨n, h1, h2, h3, h4⟩ := ih
      refine ⟨n+1, by simp [h, h1], by simp only [List.length_cons]; omega, ?_, by simpa using h4⟩
      intro t ht
      simp at ht
      rcases ht with rfl | ht
      · exact h
      · exact h3 t ht
    · refine ⟨0, by simp [h], by simp, by simp, ?_⟩
      intro t ht; simp at ht; subst ht; omega

/-- For a sorted list, everything after a young head is young. -/
theorem sorted_all_young {now : Int} {l : List Int} (hs : Sorted l) (bound : Int)
    (hh : ∀ t, l.head? = some t → now - t ≤ bound) : ∀ t ∈ l, now - t ≤ bound := by
  cases l with
  | nil => simp
  | cons a l =>
    intro t ht
    have ha : now - a ≤ bound := hh a rfl
    simp at ht
    rcases ht with rfl | ht
    · exact ha
    · have := hs.head_le t ht; omega

theorem filter_eq_self_of_all {p : Int → Bool} {l : List Int} (h : ∀ t ∈ l, p t = true) :
    l.filter p = l := List.filter_eq_self.mpr h

theorem filter_eq_nil_of_none {p : Int → Bool} {l : List Int} (h : ∀ t ∈ l, p t = false) :
    l.filter p = [] := by
  apply List.filter_eq_nil_iff.mpr
  intro t ht; simp [h t ht]

/-- Counting over a split list when the dropped part contributes nothing. -/
theorem filter_drop_of_old {p : Int → Bool} (l : List Int) (n : Nat)
    (h : ∀ t ∈ l.take n, p t = false) : (l.drop n).filter p = l.filter p := by
  conv => rhs; rw [← List.take_append_drop n l]
  rw [List.filter_append, filter_eq_nil_of_none h, List.nil_append]

/-- Core counting lemma, on the newest-first list: with entries in non-increasing
time order, at least `m+1` of them satisfy the (time-monotone) window predicate
iff the entry at index `m` exists and satisfies it. -/
theorem count_ge_iff_nth_desc (now bound : Int) :
    ∀ (rs : List Int) (m : Nat), rs.Pairwise (· ≥ ·) →
      (m + 1 ≤ (rs.filter (fun t => decide (now - t ≤ bound))).length ↔
        ∃ t, rs[m]? = some t ∧ now - t ≤ bound) := by
  intro rs
  induction rs with
  | nil => intro m _; simp
  | cons r rs ih =>
    intro m hp
    have hp' := List.pairwise_cons.mp hp
    by_cases hr : now - r ≤ bound
    · cases m with
      | zero => simp [List.filter, hr]
      | succ m =>
        have := ih m hp'.2
        simp only [List.filter, hr, decide_true, List.length_cons, List.getElem?_cons_succ]
        rw [← this]; omega
    · have hall : ∀ t ∈ rs, (fun t => decide (now - t ≤ bound)) t = false := by
        intro t ht; have : r ≥ t := hp'.1 t ht; simp; omega
      have hnil : (r :: rs).filter (fun t => decide (now - t ≤ bound)) = [] := by
        simp only [List.filter, hr, decide_false]
        exact filter_eq_nil_of_none hall
      rw [hnil]
      constructor
      · intro h; simp at h
      · rintro ⟨t, ht, hle⟩
        exfalso
        cases m with
        | zero => simp at ht; subst ht; exact hr hle
        | succ m =>
          simp at ht
          have hmem : t ∈ rs := List.mem_of_getElem? ht
          have : r ≥ t := hp'.1 t hmem; omega

theorem sorted_reverse {l : List Int} (h : Sorted l) : l.reverse.Pairwise (· ≥ ·) := by
  unfold Sorted at h
  rw [List.pairwise_reverse]
  exact h.imp (fun h => h)

/-- The refusal test of the code (`blocked`) on a sorted entry list is the
window count of the spec. -/
theorem blocked_iff_windowCount (now : Int) (es : List Int) (hs : Sorted es) :
    blocked now es = decide (maxBruteforceAttempts ≤ windowCount now es) := by
  have hpos : 0 < maxBruteforceAttempts := by decide
  have key := count_ge_iff_nth_desc now (maxBruteforceDurationThreshold : Int) es.reverse
    (maxBruteforceAttempts - 1) (sorted_reverse hs)
  have hcount : (es.reverse.filter (fun t => decide (now - t ≤ (maxBruteforceDurationThreshold : Int)))).length
      = windowCount now es := by
    unfold windowCount; simp only [inWindow_eq]
    rw [List.filter_reverse, List.length_reverse]
  rw [hcount] at key
  have hm : maxBruteforceAttempts - 1 + 1 = maxBruteforceAttempts := by omega
  rw [hm] at key
  unfold blocked
  simp only [attemptsCmp_ge, windowCmp_le, decide_eq_true_eq]
  by_cases hl : es.length ≥ maxBruteforceAttempts
  · simp only [hl, if_true]
    have hidx : es.reverse[maxBruteforceAttempts - 1]? = es[es.length - maxBruteforceAttempts]? := by
      rw [List.getElem?_reverse (by omega)]
      have : es.length - 1 - (maxBruteforceAttempts - 1) = es.length - maxBruteforceAttempts := by omega
      rw [this]
    rw [hidx] at key
    cases hget : es[es.length - maxBruteforceAttempts]? with
    | none =>
      rw [hget] at key
      simp only []
      have : ¬ maxBruteforceAttempts ≤ windowCount now es := by
        intro h; obtain ⟨t, ht, _⟩ := key.mp h; simp at ht
      simp [this]
    | some t =>
      rw [hget] at key
      simp only []
      by_cases hle : now - t ≤ (maxBruteforceDurationThreshold : Int)
      · have : maxBruteforceAttempts ≤ windowCount now es := key.mpr ⟨t, rfl, hle⟩
        simp [hle, this]
      · have : ¬ maxBruteforceAttempts ≤ windowCount now es := by
          intro h; obtain ⟨t', ht', hle'⟩ := key.mp h
          simp at ht'; subst ht'; exact hle hle'
        simp [hle, this]
  · simp only [hl, if_false]
    have : ¬ maxBruteforceAttempts ≤ windowCount now es := by
      intro h
      have : windowCount now es ≤ es.length := by
        unfold windowCount; exact List.length_filter_le _ _
      omega
    simp [this]

end SigModel.Throttle

namespace SigModel.Throttle
open SigModel.Generated.Throttle

/-! ### refinement relation between the code's pruned entry lists and the spec's full history -/

/-- `es` (what the code keeps for one key/action) is the full failure history `F`
minus a prefix of entries that were already older than `maxBruteforceAge` at
time `last`; `F` is in time order and nothing in it is later than `last`. -/
def RelL (es F : List Int) (last : Int) : Prop :=
  ∃ n, n ≤ F.length ∧ es = F.drop n ∧
    (∀ t ∈ F.take n, last - t > (maxBruteforceAge : Int)) ∧ Sorted F ∧ (∀ t ∈ F, t ≤ last)

theorem RelL.nil (last : Int) : RelL [] [] last :=
  ⟨0, by simp, by simp, by simp, List.Pairwise.nil, by simp⟩

theorem RelL.advance {es F : List Int} {last now : Int} (h : RelL es F last) (hl : last ≤ now) :
    RelL es F now := by
  obtain ⟨n, hn, heq, hold, hs, hle⟩ := h
  exact ⟨n, hn, heq, fun t ht => by have := hold t ht; omega, hs,
   fun t ht => by have := hle t ht; omega⟩

theorem RelL.es_sorted {es F : List Int} {last : Int} (h : RelL es F last) : Sorted es := by
  obtain ⟨n, hn, heq, hold, hs, hle⟩ := h
  rw [heq]; exact hs.drop _

theorem age_ge_window : (maxBruteforceDurationThreshold : Int) ≤ (maxBruteforceAge : Int) := by decide

theorem RelL.windowCount_eq {es F : List Int} {last now : Int} (h : RelL es F last) (hl : last ≤ now) :
    windowCount now es = windowCount now F := by
  obtain ⟨n, hn, heq, hold, hs, hle⟩ := h
  unfold windowCount
  rw [heq, filter_drop_of_old]
  intro t ht
  have := hold t ht
  have := age_ge_window
  simp [inWindow_eq]; omega

theorem RelL.ageCount_eq {es F : List Int} {last now : Int} (h : RelL es F last) (hl : last ≤ now) :
    ageCount now es = ageCount now F := by
  obtain ⟨n, hn, heq, hold, hs, hle⟩ := h
  unfold ageCount
  rw [heq, filter_drop_of_old]
  intro t ht
  have := hold t ht
  simp [inAge_eq]; omega

theorem RelL.blocked_eq {es F : List Int} {last now : Int} (h : RelL es F last) (hl : last ≤ now) :
    blocked now es = specRefused now F := by
  rw [blocked_iff_windowCount now es h.es_sorted, h.windowCount_eq hl, specRefused_eq]

/-- Pruning keeps the relation (at the new time) and leaves exactly the entries
the spec counts as "within 12 h". -/
theorem RelL.filter {es F : List Int} {last now : Int} (h : RelL es F last) (hl : last ≤ now) :
    RelL (filterEntries now es) F now ∧ (filterEntries now es).length = ageCount now F := by
  obtain ⟨m, hm1, hm2, hm3, hm4⟩ := filterEntries_eq_drop now es
  have hcount := h.ageCount_eq hl
  have hsorted := h.es_sorted
  obtain ⟨n, hn, heq, hold, hs, hle⟩ := h.advance hl
  have hes : es.drop m = F.drop (n + m) := by rw [heq, List.drop_drop]
  have hlen : es.length = F.length - n := by rw [heq]; simp
  constructor
  · refine ⟨n + m, by omega, by rw [hm1, hes], ?_, hs, hle⟩
    intro t ht
    rw [List.take_add] at ht
    simp only [List.mem_append] at ht
    rcases ht with ht | ht
    · exact hold t ht
    · rw [← heq] at ht; exact hm3 t ht
  · rw [← hcount]
    unfold ageCount
    have hyoung : ∀ t ∈ es.drop m, now - t ≤ (maxBruteforceAge : Int) :=
      sorted_all_young (hsorted.drop m) _ hm4
    have hold' : ∀ t ∈ es.take m, inAge now t = false := by
      intro t ht; have := hm3 t ht; simp [inAge_eq]; omega
    rw [← filter_drop_of_old es m hold', hm1]
    rw [filter_eq_self_of_all]
    intro t ht; simp [inAge_eq]; exact hyoung t ht

theorem RelL.append {es F : List Int} {now : Int} (h : RelL es F now) :
    RelL (es ++ [now]) (F ++ [now]) now := by
  obtain ⟨n, hn, heq, hold, hs, hle⟩ := h
  refine ⟨n, by simp; omega, ?_, ?_, hs.append_one hle, ?_⟩
  · rw [heq, List.drop_append_of_le_length hn]
  · intro t ht
    rw [List.take_append_of_le_length hn] at ht
    exact hold t ht
  · intro t ht
    simp at ht
    rcases ht with ht | rfl
    · exact hle t ht
    · exact Int.le_refl _

/-! ### one key/action: the code's attempt equals the spec's -/

/-- `check` then (maybe) `throttle` on one entry list: what `step (.attempt ..)` does to `st k a`. -/
def attemptL (now : Int) (es : List Int) (failed : Bool) : List Int × Out :=
  if es ≠ [] ∧ blocked now es then (es, .refused)
  else
    let es1 := filterEntries now es
    if failed then (es1 ++ [now], .delayed (getDelay ((es1 ++ [now]).length - 1)))
    else (es1, .passed)

theorem attemptL_refines {es F : List Int} {last now : Int} (h : RelL es F last) (hl : last ≤ now)
    (failed : Bool) :
    RelL (attemptL now es failed).1 (specAttempt now F failed).1 now ∧
    (attemptL now es failed).2 = (specAttempt now F failed).2 := by
  have hb := h.blocked_eq hl
  have hnil : es = [] → blocked now es = false := by
    intro h0; subst h0; simp [blocked]
  unfold attemptL specAttempt
  by_cases hr : specRefused now F = true
  · have hne : es ≠ [] := by
      intro h0; have := hnil h0; rw [hb, hr] at this; cases this
    simp [hr, hb, hne, h.advance hl]
  · have hr' : specRefused now F = false := by simpa using hr
    obtain ⟨hf, hlen⟩ := h.filter hl
    cases failed
    · simp [hr', hb, hf]
    · simp only [hr', hb, Bool.false_eq_true, and_false, if_false, if_true]
      refine ⟨hf.append, ?_⟩
      simp [hlen]

/-! ### `par`: n failures at once -/

theorem youngCount_eq (now : Int) (es : List Int) : youngCount now es = ageCount now es := by
  unfold youngCount ageCount
  congr 1
  apply List.filter_congr
  intro t _
  simp only [ageCmp_gt, inAge_eq]
  by_cases h : now - t ≤ (maxBruteforceAge : Int)
  · simp [h]
  · simp [h]; omega

theorem RelL.append_replicate {es F : List Int} {now : Int} (h : RelL es F now) (n : Nat) :
    RelL (es ++ List.replicate n now) (F ++ List.replicate n now) now := by
  induction n with
  | zero => simpa using h
  | succ n ih =>
    rw [List.replicate_succ', ← List.append_assoc, ← List.append_assoc]
    exact ih.append

/-- What `check` does to `st k a` and what it answers. -/
def checkL (now : Int) (es : List Int) : List Int × Bool :=
  if es = [] then ([], false) else if blocked now es then (es, true) else (filterEntries now es, false)

theorem checkL_refines {es F : List Int} {last now : Int} (h : RelL es F last) (hl : last ≤ now) :
    RelL (checkL now es).1 F now ∧ (checkL now es).2 = specRefused now F ∧
    ((checkL now es).2 = false → (checkL now es).1.length = ageCount now F) := by
  have hb := h.blocked_eq hl
  obtain ⟨hf, hlen⟩ := h.filter hl
  unfold checkL
  by_cases h0 : es = []
  · subst h0
    have : blocked now [] = false := by simp [blocked]
    refine ⟨by simpa using h.advance hl, by simp [← hb, this], ?_⟩
    intro _; simpa [filterEntries] using hlen
  · by_cases hbl : blocked now es = true
    · simp only [h0, hbl, if_false, if_true]
      exact ⟨h.advance hl, by rw [← hb, hbl], by simp⟩
    · have hbl' : blocked now es = false := by simpa using hbl
      simp only [h0, hbl', if_false, Bool.false_eq_true]
      exact ⟨hf, by rw [← hb, hbl'], fun _ => hlen⟩

/-- What `step (.par ..)` does to `st k a`. -/
def parL (now : Int) (es : List Int) (n dt : Nat) : List Int × Out :=
  let c1 := checkL now es
  let p := if c1.2 then 0 else n
  let c2 := checkL (now + dt) (c1.1 ++ List.replicate p now)
  (c2.1, .rest p (youngCount (now + dt) c2.1) c2.2 ((List.range p).map fun i => getDelay (c1.1.length + i)))

theorem parL_refines {es F : List Int} {last now : Int} (h : RelL es F last) (hl : last ≤ now)
    (n dt : Nat) :
    RelL (parL now es n dt).1 (specPar now F n dt).1 (now + dt) ∧
    (parL now es n dt).2 = (specPar now F n dt).2 := by
  obtain ⟨h1, h2, h3⟩ := checkL_refines h hl
  unfold parL specPar
  simp only [h2]
  have hrel := h1.append_replicate (if specRefused now F = true then 0 else n)
  have hle : now ≤ now + (dt : Int) := by omega
  obtain ⟨k1, k2, _⟩ := checkL_refines hrel hle
  refine ⟨k1, ?_⟩
  rw [youngCount_eq, k1.ageCount_eq (Int.le_refl _), k2]
  congr 1
  by_cases hr : specRefused now F = true
  · simp [hr]
  · have hr' : specRefused now F = false := by simpa using hr
    rw [h3 (by rw [h2, hr'])]

end SigModel.Throttle

namespace SigModel.Throttle
open SigModel.Generated.Throttle

/-! ### the whole table -/

theorem check_at (st : State) (now : Int) (k : Key) (a : Action) :
    (check st now k a).1 k a = (checkL now (st k a)).1 ∧ (check st now k a).2 = (checkL now (st k a)).2 := by
  unfold check checkL
  by_cases h0 : st k a = []
  · simp [h0]
  · by_cases hb : blocked now (st k a) = true
    · simp [h0, hb]
    · simp [h0, hb, State.set]

theorem check_frame (st : State) (now : Int) (k : Key) (a : Action) (k' : Key) (a' : Action)
    (hne : ¬ (k' = k ∧ a' = a)) : (check st now k a).1 k' a' = st k' a' := by
  unfold check
  by_cases h0 : st k a = []
  · simp [h0]
  · by_cases hb : blocked now (st k a) = true
    · simp [h0, hb]
    · simp [h0, hb, State.set, hne]

theorem step_par_at (st : State) (now : Int) (addr : Addr) (a : Action) (n dt : Nat) :
    (step st (.par now addr a n dt)).1 (throttleKey addr) a = (parL now (st (throttleKey addr) a) n dt).1 ∧
    (step st (.par now addr a n dt)).2 = (parL now (st (throttleKey addr) a) n dt).2 := by
  obtain ⟨c1, c2⟩ := check_at st now (throttleKey addr) a
  unfold step par parL
  simp only []
  generalize hst2 : ((check st now (throttleKey addr) a).1.set (throttleKey addr) a
    ((check st now (throttleKey addr) a).1 (throttleKey addr) a ++
      List.replicate (if (check st now (throttleKey addr) a).2 = true then 0 else n) now)) = st2
  obtain ⟨d1, d2⟩ := check_at st2 (now + dt) (throttleKey addr) a
  have hst2v : st2 (throttleKey addr) a = (checkL now (st (throttleKey addr) a)).1 ++
      List.replicate (if (checkL now (st (throttleKey addr) a)).2 = true then 0 else n) now := by
    rw [← hst2]; simp [State.set, c1, c2]
  rw [d1, d2, hst2v, c1, c2]
  exact ⟨rfl, rfl⟩

theorem step_par_frame (st : State) (now : Int) (addr : Addr) (a : Action) (n dt : Nat)
    (k' : Key) (a' : Action) (hne : ¬ (k' = throttleKey addr ∧ a' = a)) :
    (step st (.par now addr a n dt)).1 k' a' = st k' a' := by
  unfold step par
  simp only []
  rw [check_frame _ _ _ _ _ _ hne]
  simp only [State.set, hne, if_false]
  exact check_frame _ _ _ _ _ _ hne

theorem step_attempt_at (st : State) (now : Int) (addr : Addr) (a : Action) (failed : Bool) :
    (step st (.attempt now addr a failed)).1 (throttleKey addr) a
        = (attemptL now (st (throttleKey addr) a) failed).1 ∧
    (step st (.attempt now addr a failed)).2 = (attemptL now (st (throttleKey addr) a) failed).2 := by
  unfold step attemptL check throttle
  by_cases h0 : st (throttleKey addr) a = []
  · cases failed <;> simp [h0, State.set, filterEntries]
  · by_cases hb : blocked now (st (throttleKey addr) a) = true
    · simp [h0, hb]
    · cases failed <;> simp [h0, hb, State.set]

theorem step_attempt_frame (st : State) (now : Int) (addr : Addr) (a : Action) (failed : Bool)
    (k' : Key) (a' : Action) (hne : ¬ (k' = throttleKey addr ∧ a' = a)) :
    (step st (.attempt now addr a failed)).1 k' a' = st k' a' := by
  unfold step check throttle
  by_cases h0 : st (throttleKey addr) a = []
  · cases failed <;> simp [h0, State.set, hne]
  · by_cases hb : blocked now (st (throttleKey addr) a) = true
    · simp [h0, hb]
    · cases failed <;> simp [h0, hb, State.set, hne]

def Rel (st : State) (h : Hist) (last : Int) : Prop := ∀ k a, RelL (st k a) (h k a) last

theorem Rel.empty (t0 : Int) : Rel State.empty Hist.empty t0 := fun _ _ => RelL.nil t0

theorem step_refines {st : State} {h : Hist} {last : Int} (hr : Rel st h last) (op : Op)
    (hl : last ≤ op.time) (hat : op.atomic = true) :
    Rel (step st op).1 (specStep h op).1 op.endTime ∧ (step st op).2 = (specStep h op).2 := by
  cases op with
  | attempt now addr a failed =>
    simp only [Op.time, Op.endTime] at hl ⊢
    obtain ⟨h1, h2⟩ := step_attempt_at st now addr a failed
    obtain ⟨r1, r2⟩ := attemptL_refines (hr (throttleKey addr) a) hl failed
    constructor
    · intro k' a'
      by_cases hk : k' = throttleKey addr ∧ a' = a
      · obtain ⟨rfl, rfl⟩ := hk
        rw [h1]
        simpa [specStep, Hist.set] using r1
      · rw [step_attempt_frame st now addr a failed k' a' hk]
        simp only [specStep, Hist.set, hk, if_false]
        exact (hr k' a').advance hl
    · rw [h2, r2]; simp [specStep]
  | cleanup now =>
    simp only [Op.time, Op.endTime] at hl ⊢
    refine ⟨?_, rfl⟩
    intro k a
    exact ((hr k a).filter hl).1
  | checkOnly _ _ _ => simp [Op.atomic] at hat
  | throttleOnly _ _ _ => simp [Op.atomic] at hat
  | par now addr a n dt =>
    simp only [Op.time, Op.endTime] at hl ⊢
    obtain ⟨h1, h2⟩ := step_par_at st now addr a n dt
    obtain ⟨r1, r2⟩ := parL_refines (hr (throttleKey addr) a) hl n dt
    have hle : last ≤ now + (dt : Int) := by omega
    constructor
    · intro k' a'
      by_cases hk : k' = throttleKey addr ∧ a' = a
      · obtain ⟨rfl, rfl⟩ := hk
        rw [h1]
        simpa [specStep, Hist.set] using r1
      · rw [step_par_frame st now addr a n dt k' a' hk]
        simp only [specStep, Hist.set, hk, if_false]
        exact (hr k' a').advance hle
    · rw [h2, r2]; simp [specStep]

theorem run_refines : ∀ (ops : List Op) {st : State} {h : Hist} {last : Int},
    Rel st h last → Monotone last ops →
    (run st ops).2 = (specRun h ops).2 := by
  intro ops
  induction ops with
  | nil => intros; rfl
  | cons op ops ih =>
    intro st h last hr hm
    obtain ⟨hl, hat, hm'⟩ := hm
    obtain ⟨r1, r2⟩ := step_refines hr op hl hat
    simp only [run, specRun]
    rw [ih r1 hm', r2]

end SigModel.Throttle

namespace SigModel.Throttle
open SigModel.Generated.Throttle

/-! ### interleavings of concurrent failures and checks

Threads run the regenerated critical sections of `addEntry` (record a failure) and of
`CheckBruteforce` (read; on some paths a later section that reads again and writes the pruned list).
Whatever the scheduler does, the shared entry list is always the full history (initial list followed by
everything ever recorded, in recording order) minus a prefix of entries that some checking thread found
older than twelve hours. -/

/-- The regenerated facts, as the interleaving theorems use them (proved from the source's current
sections in `Props/C17.lean`, `C17_atomicity_facts`). -/
def AddEntryAtomic : Prop := addEntryPaths = [[("W", ["read", "write"])]]

/-- No function that touches the table is handed an entry list from outside, and every critical section
of `CheckBruteforce` that writes has read the list itself first. -/
def CheckSelfContained : Prop :=
  tableAccessorsWithListParam = [] ∧
  checkBruteforcePaths.all (fun p => p.all fun sec => sec.2 == ["read"] || sec.2 == ["read", "write"]) = true

def GoodSec (sec : List Acc) : Prop := sec = [Acc.read] ∨ sec = [Acc.read, Acc.write]

theorem addEntryProgs_eq (hf : AddEntryAtomic) : addEntryProgs = [[[Acc.read, Acc.write]]] := by
  unfold addEntryProgs; rw [hf]; decide

theorem checkProgs_good (hf : CheckSelfContained) : ∀ p ∈ checkProgs, ∀ sec ∈ p, GoodSec sec := by
  obtain ⟨h1, h2⟩ := hf
  intro p hp sec hsec
  unfold checkProgs at hp
  simp only [h1, List.isEmpty_nil, if_true, List.mem_map] at hp
  obtain ⟨path, hpath, rfl⟩ := hp
  simp only [progOf, List.mem_map] at hsec
  obtain ⟨s, hs, rfl⟩ := hsec
  have := List.all_eq_true.mp (List.all_eq_true.mp h2 path hpath) s hs
  simp only [Bool.or_eq_true, beq_iff_eq] at this
  rcases this with h | h
  · left; rw [h]; decide
  · right; rw [h]; decide

theorem Conc.sched_none {c : Conc} {i : Nat} (hi : c.thr[i]? = none) : c.sched i = c := by
  unfold Conc.sched; rw [hi]

theorem Conc.sched_done {c : Conc} {i : Nat} {t : Thr} (hi : c.thr[i]? = some t) (ht : t.todo = []) :
    c.sched i = c := by
  unfold Conc.sched; rw [hi]; simp only [ht]

theorem Conc.sched_section {c : Conc} {i : Nat} {t : Thr} {sec : List Acc} {rest : Prog}
    (hi : c.thr[i]? = some t) (ht : t.todo = sec :: rest) :
    c.sched i = ⟨(runSection t.job ⟨c.shared, c.log, t.loc⟩ sec).shared,
      (runSection t.job ⟨c.shared, c.log, t.loc⟩ sec).log,
      c.thr.set i ⟨t.job, rest, (runSection t.job ⟨c.shared, c.log, t.loc⟩ sec).loc⟩⟩ := by
  unfold Conc.sched; rw [hi]; simp only [ht]

theorem map_job_set (l : List Thr) (i : Nat) (t t' : Thr) (h : l[i]? = some t) (hj : t'.job = t.job) :
    (l.set i t').map (·.job) = l.map (·.job) := by
  induction l generalizing i with
  | nil => simp
  | cons x xs ih =>
    cases i with
    | zero => simp at h; subst h; simp [hj]
    | succ i => simp at h; simp [ih i h]

theorem pendingRec_set_other (l : List Thr) (i : Nat) (t t' : Thr) (h : l[i]? = some t)
    (hn : t.job.isRecord = false) (hj : t'.job = t.job) :
    (l.set i t').countP (fun t => t.job.isRecord && !t.todo.isEmpty) =
      l.countP (fun t => t.job.isRecord && !t.todo.isEmpty) := by
  have hilt : i < l.length := (List.getElem?_eq_some_iff.mp h).1
  have hget : l[i] = t := (List.getElem?_eq_some_iff.mp h).2
  rw [List.countP_set hilt, hget, hj, hn]; simp

theorem pendingRec_set_done (l : List Thr) (i : Nat) (t t' : Thr) (h : l[i]? = some t)
    (hr : t.job.isRecord = true) (hp : t.todo.isEmpty = false) (ht' : t'.todo = []) :
    (l.set i t').countP (fun t => t.job.isRecord && !t.todo.isEmpty) + 1 =
      l.countP (fun t => t.job.isRecord && !t.todo.isEmpty) := by
  have hilt : i < l.length := (List.getElem?_eq_some_iff.mp h).1
  have hget : l[i] = t := (List.getElem?_eq_some_iff.mp h).2
  have hmem : t ∈ l := List.mem_of_getElem? h
  have hpos : 0 < l.countP (fun t => t.job.isRecord && !t.todo.isEmpty) :=
    List.countP_pos_iff.mpr ⟨t, hmem, by simp [hr, hp]⟩
  rw [List.countP_set hilt, hget, ht', hr, hp]; simp; omega

/-- Invariant of every schedule (jobs `J`, `nRec` of them recording). -/
structure ConcInv (init : List Int) (J : List Job) (nRec : Nat) (c : Conc) : Prop where
  jobs : c.thr.map (·.job) = J
  good : ∀ t ∈ c.thr, ∀ sec ∈ t.todo, GoodSec sec
  rec1 : ∀ t ∈ c.thr, t.job.isRecord = true → t.todo = [[Acc.read, Acc.write]] ∨ t.todo = []
  cnt : c.log.length + c.pendingRec = nRec
  logmem : ∀ x ∈ c.log, Job.record x ∈ J
  sh : ∃ d, d ≤ (init ++ c.log).length ∧ c.shared = (init ++ c.log).drop d ∧
    ∀ x ∈ (init ++ c.log).take d, ∃ now, Job.prune now ∈ J ∧ now - x > (maxBruteforceAge : Int)

theorem ConcInv.sched {init : List Int} {J : List Job} {nRec : Nat} {c : Conc}
    (h : ConcInv init J nRec c) (i : Nat) : ConcInv init J nRec (c.sched i) := by
  cases hi : c.thr[i]? with
  | none => rw [Conc.sched_none hi]; exact h
  | some t =>
    have hmem : t ∈ c.thr := List.mem_of_getElem? hi
    have hjobJ : t.job ∈ J := by rw [← h.jobs]; exact List.mem_map.mpr ⟨t, hmem, rfl⟩
    cases htodo : t.todo with
    | nil => rw [Conc.sched_done hi htodo]; exact h
    | cons sec rest =>
      rw [Conc.sched_section hi htodo]
      have hgood := h.good t hmem
      have hsec : GoodSec sec := hgood sec (by rw [htodo]; simp)
      have hrest : ∀ s ∈ rest, GoodSec s := fun s hs => hgood s (by rw [htodo]; simp [hs])
      have hjobs : (c.thr.set i ⟨t.job, rest, (runSection t.job ⟨c.shared, c.log, t.loc⟩ sec).loc⟩).map (·.job) = J := by
        exact (map_job_set c.thr i t ⟨t.job, rest, _⟩ hi rfl).trans h.jobs
      have hgood' : ∀ t' ∈ c.thr.set i ⟨t.job, rest, (runSection t.job ⟨c.shared, c.log, t.loc⟩ sec).loc⟩,
          ∀ s ∈ t'.todo, GoodSec s := by
        intro t' ht'
        rcases List.mem_or_eq_of_mem_set ht' with h1 | h1
        · exact h.good t' h1
        · subst h1; exact hrest
      rcases hsec with hsec | hsec
      · -- a section that only reads: nothing shared changes
        subst hsec
        have hnr : t.job.isRecord = false := by
          cases hr : t.job.isRecord with
          | false => rfl
          | true =>
            rcases h.rec1 t hmem hr with h1 | h1
            · rw [htodo] at h1; simp at h1
            · rw [htodo] at h1; simp at h1
        have hrun : runSection t.job ⟨c.shared, c.log, t.loc⟩ [Acc.read] = ⟨c.shared, c.log, c.shared⟩ := by
          simp [runSection, runAcc]
        rw [hrun] at hjobs hgood' ⊢
        refine ⟨hjobs, hgood', ?_, ?_, h.logmem, h.sh⟩
        · intro t' ht' hr'
          rcases List.mem_or_eq_of_mem_set ht' with h1 | h1
          · exact h.rec1 t' h1 hr'
          · subst h1; simp [hnr] at hr'
        · have := pendingRec_set_other c.thr i t ⟨t.job, rest, c.shared⟩ hi hnr rfl
          unfold Conc.pendingRec
          simp only []
          rw [this]; exact h.cnt
      · subst hsec
        cases hjob : t.job with
        | record e =>
          have hr : t.job.isRecord = true := by rw [hjob]; rfl
          have hrest0 : rest = [] := by
            rcases h.rec1 t hmem hr with h1 | h1
            · rw [htodo] at h1; simpa using h1
            · rw [htodo] at h1; simp at h1
          subst hrest0
          have hrun : runSection (Job.record e) ⟨c.shared, c.log, t.loc⟩ [Acc.read, Acc.write]
              = ⟨c.shared ++ [e], c.log ++ [e], c.shared⟩ := by
            simp [runSection, runAcc]
          rw [hjob] at hjobs hgood'
          rw [hrun] at hjobs hgood' ⊢
          refine ⟨hjobs, hgood', ?_, ?_, ?_, ?_⟩
          · intro t' ht' hr'
            rcases List.mem_or_eq_of_mem_set ht' with h1 | h1
            · exact h.rec1 t' h1 hr'
            · subst h1; exact Or.inr rfl
          · have := pendingRec_set_done c.thr i t ⟨Job.record e, [], c.shared⟩ hi hr (by rw [htodo]; rfl) rfl
            have hc := h.cnt
            unfold Conc.pendingRec at hc ⊢
            simp only [List.length_append, List.length_singleton]
            omega
          · intro x hx
            simp only [List.mem_append, List.mem_singleton] at hx
            rcases hx with hx | rfl
            · exact h.logmem x hx
            · rw [← hjob]; exact hjobJ
          · obtain ⟨d, hd, hsh, hold⟩ := h.sh
            refine ⟨d, by simp only [List.length_append] at hd ⊢; simp; omega, ?_, ?_⟩
            · simp only []
              rw [hsh, ← List.append_assoc, List.drop_append_of_le_length hd]
            · intro x hx
              rw [← List.append_assoc, List.take_append_of_le_length hd] at hx
              exact hold x hx
        | prune now =>
          have hnr : t.job.isRecord = false := by rw [hjob]; rfl
          have hrun : runSection (Job.prune now) ⟨c.shared, c.log, t.loc⟩ [Acc.read, Acc.write]
              = ⟨filterEntries now c.shared, c.log, c.shared⟩ := by
            simp [runSection, runAcc]
          rw [hjob] at hjobs hgood'
          rw [hrun] at hjobs hgood' ⊢
          refine ⟨hjobs, hgood', ?_, ?_, h.logmem, ?_⟩
          · intro t' ht' hr'
            rcases List.mem_or_eq_of_mem_set ht' with h1 | h1
            · exact h.rec1 t' h1 hr'
            · subst h1; simp [Job.isRecord] at hr'
          · have := pendingRec_set_other c.thr i t ⟨Job.prune now, rest, c.shared⟩ hi hnr hjob.symm
            unfold Conc.pendingRec
            simp only []
            rw [this]; exact h.cnt
          · obtain ⟨d, hd, hsh, hold⟩ := h.sh
            obtain ⟨n, hn1, hn2, hn3, _⟩ := filterEntries_eq_drop now c.shared
            have hlen : c.shared.length = (init ++ c.log).length - d := by rw [hsh]; simp
            refine ⟨d + n, by simp only []; omega, ?_, ?_⟩
            · simp only []
              rw [hn1, hsh, List.drop_drop]
            · intro x hx
              rw [List.take_add] at hx
              simp only [List.mem_append] at hx
              rcases hx with hx | hx
              · exact hold x hx
              · refine ⟨now, by rw [← hjob]; exact hjobJ, ?_⟩
                rw [← hsh] at hx
                exact hn3 x hx

theorem ConcInv.run {init : List Int} {J : List Job} {nRec : Nat} (schedule : List Nat) :
    ∀ {c : Conc}, ConcInv init J nRec c → ConcInv init J nRec (c.run schedule) := by
  induction schedule with
  | nil => intro c h; exact h
  | cons i is ih => intro c h; exact ih (h.sched i)

/-- Threads whose programs are regenerated paths of the method they run. -/
def WellFormed (ts : List (Job × Prog)) : Prop :=
  ∀ jp ∈ ts, (jp.1.isRecord = true → jp.2 ∈ addEntryProgs) ∧ (jp.1.isRecord = false → jp.2 ∈ checkProgs)

instance (ts : List (Job × Prog)) : Decidable (WellFormed ts) := by
  unfold WellFormed; infer_instance

/-- The state after the threads `ts` have been scheduled as `schedule` says. -/
def Conc.after (init : List Int) (ts : List (Job × Prog)) (schedule : List Nat) : Conc :=
  (Conc.start init ts).run schedule

theorem ConcInv.start (ha : AddEntryAtomic) (hc : CheckSelfContained) (init : List Int)
    (ts : List (Job × Prog)) (hw : WellFormed ts) :
    ConcInv init (ts.map (·.1)) (ts.countP (·.1.isRecord)) (Conc.start init ts) := by
  have hrec : ∀ jp ∈ ts, jp.1.isRecord = true → jp.2 = [[Acc.read, Acc.write]] := by
    intro jp hjp hr
    have := (hw jp hjp).1 hr
    rw [addEntryProgs_eq ha] at this
    simpa using this
  refine ⟨by simp [Conc.start], ?_, ?_, ?_, by simp [Conc.start], ⟨0, by simp, by simp [Conc.start], by simp⟩⟩
  · intro t ht sec hsec
    simp only [Conc.start, List.mem_map] at ht
    obtain ⟨jp, hjp, rfl⟩ := ht
    simp only at hsec
    cases hr : jp.1.isRecord with
    | true => rw [hrec jp hjp hr] at hsec; simp at hsec; subst hsec; exact Or.inr rfl
    | false => exact checkProgs_good hc jp.2 ((hw jp hjp).2 hr) sec hsec
  · intro t ht hr
    simp only [Conc.start, List.mem_map] at ht
    obtain ⟨jp, hjp, rfl⟩ := ht
    exact Or.inl (hrec jp hjp hr)
  · unfold Conc.pendingRec Conc.start
    simp only [List.length_nil, Nat.zero_add, List.countP_map]
    apply List.countP_congr
    intro jp hjp
    simp only [Function.comp]
    cases hr : jp.1.isRecord with
    | true => simp [hrec jp hjp hr]
    | false => simp

/-- `n` sequential `throttle` calls with the same captured time. -/
def throttleN (st : State) (now : Int) (k : Key) (a : Action) : Nat → State
  | 0 => st
  | n + 1 => throttleN (throttle st now k a).1 now k a n

theorem throttleN_at (st : State) (now : Int) (k : Key) (a : Action) (n : Nat) :
    throttleN st now k a n k a = st k a ++ List.replicate n now := by
  induction n generalizing st with
  | zero => simp [throttleN]
  | succ n ih =>
    simp only [throttleN]
    rw [ih]
    simp [throttle, State.set, List.replicate_succ]

end SigModel.Throttle
