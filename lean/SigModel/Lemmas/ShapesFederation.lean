/-
Lemmas for C12: every function of the federation-client model only *extends* a
context — it never adds a fault and only appends contained effects — provided
the regenerated facts pass `Facts.sound`.
-/
import SigModel.Spec.ShapesFederation

namespace SigModel.ShapesFederation

/-! ### Extension of a context -/

/-- `c'` continues `c`: same fault, effects appended, all of them contained. -/
def Ext (b : Perm) (c c' : Ctx) : Prop :=
  c'.fault = c.fault ∧ ∃ es, c'.effs = c.effs ++ es ∧ ∀ e ∈ es, Eff.contained b e = true

theorem Ext.refl (b : Perm) (c : Ctx) : Ext b c c := ⟨rfl, [], by simp, by simp⟩

theorem Ext.trans {b : Perm} {c₁ c₂ c₃ : Ctx} (h₁ : Ext b c₁ c₂) (h₂ : Ext b c₂ c₃) : Ext b c₁ c₃ := by
  obtain ⟨f₁, es₁, e₁, a₁⟩ := h₁
  obtain ⟨f₂, es₂, e₂, a₂⟩ := h₂
  refine ⟨f₂.trans f₁, es₁ ++ es₂, by rw [e₂, e₁, List.append_assoc], ?_⟩
  intro e he
  rcases List.mem_append.mp he with h | h
  · exact a₁ e h
  · exact a₂ e h

theorem Ext.setSt (b : Perm) (c : Ctx) (s : Fed) : Ext b c { c with st := s } := ⟨rfl, [], by simp, by simp⟩

theorem Ext.upd (b : Perm) (c : Ctx) (f : Fed → Fed) : Ext b c (c.upd f) := Ext.setSt b c _

theorem Ext.emit {b : Perm} (c : Ctx) (e : Eff) (h : Eff.contained b e = true) : Ext b c (emit e c) :=
  ⟨rfl, [e], rfl, by simpa using h⟩

/-- From an equality of the two components. -/
theorem Ext.of_eq {b : Perm} {c c' : Ctx} (hf : c'.fault = c.fault) (he : c'.effs = c.effs) : Ext b c c' :=
  ⟨hf, [], by simp [he], by simp⟩

theorem ext_sendLocal {b : Perm} (k : LocalKind) (m : String) (c : Ctx) (h : k = .forwarded → b.fwd = true) :
    Ext b c (sendLocal k m c) := by
  unfold sendLocal
  split
  · exact Ext.refl b c
  · apply Ext.emit
    cases k <;> simp_all [Eff.contained]

theorem ext_lock {b : Perm} (held : List String) (l : String) (c : Ctx) (h : l ∉ held) :
    Ext b c (lock held l c) := by
  unfold lock
  simp [h, Ext.refl]

/-! ### Sending, deferring, closing -/

theorem ext_deferMessage {b : Perm} (F : Facts) (held : List String) (m : String) (c : Ctx)
    (h : F.deferMessageLock ∉ held) : Ext b c (deferMessage F held m c) := by
  unfold deferMessage
  have h1 := ext_lock (b := b) held F.deferMessageLock c h
  dsimp only
  split
  · exact h1
  · exact h1.trans (Ext.setSt b _ _)

theorem ext_closeConnNoBye {b : Perm} (c : Ctx) : Ext b c (closeConnNoBye c) := by
  unfold closeConnNoBye
  split
  · exact Ext.refl b c
  · exact (Ext.setSt b c _).trans (Ext.emit _ _ rfl)

theorem ext_scheduleReconnectLocked {b : Perm} (c : Ctx) : Ext b c (scheduleReconnectLocked c) := by
  unfold scheduleReconnectLocked
  dsimp only
  refine Ext.trans ?_ (Ext.setSt b _ _)
  refine Ext.trans ?_ (ext_closeConnNoBye _)
  split
  · exact (Ext.setSt b c _).trans ((Ext.setSt b _ _).trans (ext_sendLocal _ _ _ (by simp)))
  · exact Ext.setSt b c _

theorem ext_deliver {b : Perm} (m : String) (c : Ctx) : Ext b c (deliver m c) := by
  unfold deliver
  split
  · exact (Ext.upd b c _).trans (Ext.emit _ _ rfl)
  · exact Ext.emit _ _ rfl

theorem ext_sendMessageLocked {b : Perm} (F : Facts) (held : List String) (typ m : String) (c : Ctx)
    (h : F.deferMessageLock ∉ held) : Ext b c (sendMessageLocked F held typ m c) := by
  unfold sendMessageLocked
  split
  · split
    · exact ext_deferMessage F held m c h
    · exact Ext.refl b c
  · split
    · exact ext_deliver m c
    · dsimp only
      have h1 : Ext b c (if F.sendErrorDefers = true then deferMessage F held m c else c) := by
        split
        · exact ext_deferMessage F held m c h
        · exact Ext.refl b c
      split
      · exact h1.trans (ext_scheduleReconnectLocked _)
      · exact h1

/-- The side conditions on the three mutexes of the hello path. -/
structure Locks (F : Facts) : Prop where
  dh : F.deferMessageLock ≠ F.helloLock
  ds : F.deferMessageLock ≠ F.sendLock
  hs : F.helloLock ≠ F.sendLock

/-- `held` is what the read loop may hold when it sends: nothing, or the hello mutex. -/
def HeldOK (F : Facts) (held : List String) : Prop := held = [] ∨ held = [F.helloLock]

theorem HeldOK.send_notin {F : Facts} (L : Locks F) {held : List String} (h : HeldOK F held) : F.sendLock ∉ held := by
  rcases h with h | h <;> subst h <;> simp [Ne.symm L.hs]

theorem HeldOK.defer_notin {F : Facts} (L : Locks F) {held : List String} (h : HeldOK F held) :
    F.deferMessageLock ∉ F.sendLock :: held := by
  rcases h with h | h <;> subst h <;> simp [L.ds, L.dh]

theorem ext_sendMessage {b : Perm} (F : Facts) (L : Locks F) (held : List String) (hh : HeldOK F held)
    (typ m : String) (c : Ctx) : Ext b c (sendMessage F held typ m c) := by
  unfold sendMessage
  exact (ext_lock held F.sendLock c (hh.send_notin L)).trans (ext_sendMessageLocked F _ typ m _ (hh.defer_notin L))

theorem ext_closeConnBye {b : Perm} (F : Facts) (held : List String) (c : Ctx)
    (h : F.deferMessageLock ∉ held) (hr : F.closeRechecksConn = true) : Ext b c (closeConnBye F held c) := by
  unfold closeConnBye
  split
  · exact Ext.refl b c
  · dsimp only
    have h1 := ext_sendMessageLocked (b := b) F held "bye" "bye()" c h
    split
    · simpa [hr] using h1
    · exact h1.trans (ext_closeConnNoBye _)

theorem ext_close {b : Perm} (F : Facts) (L : Locks F) (hr : F.closeRechecksConn = true) (held : List String)
    (hh : HeldOK F held) (c : Ctx) : Ext b c (close F held c) := by
  unfold close
  dsimp only
  exact (Ext.setSt b c _).trans ((ext_lock held F.sendLock _ (hh.send_notin L)).trans
    (ext_closeConnBye F _ _ (hh.defer_notin L) hr))

theorem ext_closeWithError {b : Perm} (F : Facts) (L : Locks F) (hr : F.closeRechecksConn = true) (held : List String)
    (hh : HeldOK F held) (code droom : String) (c : Ctx) : Ext b c (closeWithError F held code droom c) := by
  unfold closeWithError
  dsimp only
  exact (ext_close F L hr held hh c).trans ((Ext.setSt b _ _).trans (ext_sendLocal _ _ _ (by simp)))

theorem ext_sendHelloLocked {b : Perm} (F : Facts) (L : Locks F) (held : List String) (hh : HeldOK F held) (c : Ctx) :
    Ext b c (sendHelloLocked F held c) := by
  unfold sendHelloLocked
  dsimp only
  exact (Ext.setSt b c _).trans (ext_sendMessage F L held hh _ _ _)

theorem ext_joinRoom {b : Perm} (F : Facts) (L : Locks F) (hr : F.closeRechecksConn = true) (held : List String)
    (hh : HeldOK F held) (c : Ctx) : Ext b c (joinRoom F held c) := by
  unfold joinRoom
  split
  · exact ext_closeWithError F L hr held hh _ _ c
  · exact ext_sendMessage F L held hh _ _ c

/-! ### What `Facts.sound` gives -/

theorem sound_mem {F : Facts} (h : F.sound = true) {x : Bool} (hx : x ∈ F.soundList) : x = true := by
  simp only [Facts.sound, List.all_eq_true, id] at h
  exact h x hx

theorem sound_locks {F : Facts} (h : F.sound = true) : Locks F := by
  have h1 := sound_mem h (x := F.deferMessageLock != F.helloLock) (by simp [Facts.soundList])
  have h2 := sound_mem h (x := F.deferMessageLock != F.sendLock) (by simp [Facts.soundList])
  have h3 := sound_mem h (x := F.helloLock != F.sendLock) (by simp [Facts.soundList])
  simp only [bne_iff_ne, ne_eq] at h1 h2 h3
  exact ⟨h1, h2, h3⟩

theorem sound_recheck {F : Facts} (h : F.sound = true) : F.closeRechecksConn = true :=
  sound_mem h (by simp [Facts.soundList])

theorem sound_undecodable {F : Facts} (h : F.sound = true) : F.readPumpSkipsUndecodable = true :=
  sound_mem h (by simp [Facts.soundList])

theorem sound_asserts {F : Facts} (h : F.sound = true) : F.filterUncheckedAsserts = 0 := by
  have h1 := sound_mem h (x := F.filterUncheckedAsserts == 0) (by simp [Facts.soundList])
  simpa using h1

theorem sound_snapshot {F : Facts} (h : F.sound = true) : F.flushOverSnapshot = true :=
  sound_mem h (by simp [Facts.soundList])

/-- A dereference the model does not list is not among the extracted ones. -/
theorem sound_not_deref {F : Facts} (h : F.sound = true) (d : String × String × String × String)
    (hd : modelDerefs.contains d = false) : F.derefs.contains d = false := by
  have h1 := sound_mem h (x := F.derefs.all (fun d => modelDerefs.contains d)) (by simp [Facts.soundList])
  cases hc : F.derefs.contains d with
  | false => rfl
  | true =>
    have hm : d ∈ F.derefs := List.contains_iff_mem.mp hc
    have := List.all_eq_true.mp h1 d hm
    rw [hd] at this
    exact absurd this (by simp)

theorem sound_details {F : Facts} (h : F.sound = true) : F.derefs.contains detailsRoomDeref = false :=
  sound_not_deref h _ (by decide)

/-- A message that passed `readPump`'s validation has every sub-object `requires` asks for. -/
theorem requires_present {F : Facts} {m : ServerMessage} {t f : String}
    (hr : F.requires t f = true) (hv : validate F m = true) (ht : m.type = t) : fieldPresent m f = true := by
  simp only [Facts.requires, Facts.validates, Bool.and_eq_true, List.contains_iff_mem] at hr
  obtain ⟨⟨h1, h2⟩, hmem⟩ := hr
  simp only [validate, h1, h2, Bool.and_self, if_true, checkValid, Bool.and_eq_true, List.all_eq_true] at hv
  exact hv.1.2 f (ht ▸ hmem)

theorem requires_validates {F : Facts} {t f : String} (hr : F.requires t f = true) : F.validates = true := by
  simp only [Facts.requires, Bool.and_eq_true] at hr
  exact hr.1

theorem validateEvent_of_valid {F : Facts} {m : ServerMessage} {e : Event}
    (hE : F.requires "event" "Event" = true) (hEv : F.eventValidated = true)
    (hv : validate F m = true) (ht : m.type = "event") (he : m.event = some e) : validateEvent F e = true := by
  have hval := requires_validates hE
  simp only [Facts.validates, Bool.and_eq_true] at hval
  simp only [validate, hval.1, hval.2, Bool.and_self, if_true, checkValid, Bool.and_eq_true] at hv
  have h3 := hv.2
  simp only [ht, hEv, decide_true, he] at h3
  exact h3

theorem requiresEv_present {F : Facts} {m : ServerMessage} {e : Event} {target type f : String}
    (hr : F.requiresEv target type f = true) (hv : validate F m = true) (ht : m.type = "event")
    (he : m.event = some e) (h1 : e.target = target) (h2 : e.type = type) : eventFieldPresent e f = true := by
  simp only [Facts.requiresEv, Bool.and_eq_true, List.contains_iff_mem] at hr
  obtain ⟨⟨hE, hEv⟩, hmem⟩ := hr
  have hve := validateEvent_of_valid hE hEv hv ht he
  simp only [validateEvent, Bool.and_eq_true, List.all_eq_true] at hve
  exact hve.1 f (by rw [h1, h2]; exact hmem)

theorem requiresEntries_ok {F : Facts} {m : ServerMessage} {e : Event} {target type f : String}
    (hr : F.requiresEntries target type f = true) (hv : validate F m = true) (ht : m.type = "event")
    (he : m.event = some e) (h1 : e.target = target) (h2 : e.type = type) : eventEntriesOk e f = true := by
  simp only [Facts.requiresEntries, Bool.and_eq_true, List.contains_iff_mem] at hr
  obtain ⟨⟨hE, hEv⟩, hmem⟩ := hr
  have hve := validateEvent_of_valid hE hEv hv ht he
  simp only [validateEvent, Bool.and_eq_true, List.all_eq_true] at hve
  exact hve.2 f (by rw [h1, h2]; exact hmem)

/-- The "validated ⇒ non-nil" table as a proposition about one event. -/
structure EvPresent (e : Event) : Prop where
  pUpdate : e.target = "participants" → e.type = "update" → e.update.isSome = true
  pFlags : e.target = "participants" → e.type = "flags" → e.flags.isSome = true
  pMessage : e.target = "participants" → e.type = "message" → e.message.isSome = true
  rMessage : e.target = "room" → e.type = "message" → e.message.isSome = true
  lInvite : e.target = "roomlist" → e.type = "invite" → e.invite.isSome = true
  lDisinvite : e.target = "roomlist" → e.type = "disinvite" → e.disinvite.isSome = true
  lUpdate : e.target = "roomlist" → e.type = "update" → e.update.isSome = true
  join : e.target = "room" → e.type = "join" → e.join.all Option.isSome = true

/-- … and about one message. -/
structure Present (F : Facts) (m : ServerMessage) : Prop where
  welcome : m.type = F.preHelloWelcomeType → m.welcome.isSome = true
  error : m.type = "error" → m.error.isSome = true
  hello : m.type = "hello" → m.hello.isSome = true
  control : m.type = "control" → m.control.isSome = true
  message : m.type = "message" → m.message.isSome = true
  room : m.type = "room" → m.room.isSome = true
  event : m.type = "event" → m.event.isSome = true
  ev : m.type = "event" → ∀ e, m.event = some e → EvPresent e

theorem present_of_valid {F : Facts} (hs : F.sound = true) {m : ServerMessage} (hv : validate F m = true) :
    Present F m := by
  have hW := sound_mem hs (x := F.requires F.preHelloWelcomeType "Welcome") (by simp [Facts.soundList])
  have hEr := sound_mem hs (x := F.requires "error" "Error") (by simp [Facts.soundList])
  have hH := sound_mem hs (x := F.requires "hello" "Hello") (by simp [Facts.soundList])
  have hC := sound_mem hs (x := F.requires "control" "Control") (by simp [Facts.soundList])
  have hM := sound_mem hs (x := F.requires "message" "Message") (by simp [Facts.soundList])
  have hR := sound_mem hs (x := F.requires "room" "Room") (by simp [Facts.soundList])
  have hE := sound_mem hs (x := F.requires "event" "Event") (by simp [Facts.soundList])
  have hpU := sound_mem hs (x := F.requiresEv "participants" "update" "Update") (by simp [Facts.soundList])
  have hpF := sound_mem hs (x := F.requiresEv "participants" "flags" "Flags") (by simp [Facts.soundList])
  have hpM := sound_mem hs (x := F.requiresEv "participants" "message" "Message") (by simp [Facts.soundList])
  have hrM := sound_mem hs (x := F.requiresEv "room" "message" "Message") (by simp [Facts.soundList])
  have hlI := sound_mem hs (x := F.requiresEv "roomlist" "invite" "Invite") (by simp [Facts.soundList])
  have hlD := sound_mem hs (x := F.requiresEv "roomlist" "disinvite" "Disinvite") (by simp [Facts.soundList])
  have hlU := sound_mem hs (x := F.requiresEv "roomlist" "update" "Update") (by simp [Facts.soundList])
  have hJ := sound_mem hs (x := F.requiresEntries "room" "join" "Join") (by simp [Facts.soundList])
  refine ⟨?_, ?_, ?_, ?_, ?_, ?_, ?_, ?_⟩
  · intro ht; simpa [fieldPresent] using requires_present hW hv ht
  · intro ht; simpa [fieldPresent] using requires_present hEr hv ht
  · intro ht; simpa [fieldPresent] using requires_present hH hv ht
  · intro ht; simpa [fieldPresent] using requires_present hC hv ht
  · intro ht; simpa [fieldPresent] using requires_present hM hv ht
  · intro ht; simpa [fieldPresent] using requires_present hR hv ht
  · intro ht; simpa [fieldPresent] using requires_present hE hv ht
  · intro ht e he
    refine ⟨?_, ?_, ?_, ?_, ?_, ?_, ?_, ?_⟩
    · intro h1 h2; simpa [eventFieldPresent] using requiresEv_present hpU hv ht he h1 h2
    · intro h1 h2; simpa [eventFieldPresent] using requiresEv_present hpF hv ht he h1 h2
    · intro h1 h2; simpa [eventFieldPresent] using requiresEv_present hpM hv ht he h1 h2
    · intro h1 h2; simpa [eventFieldPresent] using requiresEv_present hrM hv ht he h1 h2
    · intro h1 h2; simpa [eventFieldPresent] using requiresEv_present hlI hv ht he h1 h2
    · intro h1 h2; simpa [eventFieldPresent] using requiresEv_present hlD hv ht he h1 h2
    · intro h1 h2; simpa [eventFieldPresent] using requiresEv_present hlU hv ht he h1 h2
    · intro h1 h2; simpa [eventEntriesOk] using requiresEntries_ok hJ hv ht he h1 h2

/-! ### Peeling a goal `Ext b c (g₃ (g₂ { g₁ c with st := … }))` from the outside -/

theorem Ext.comp {b : Perm} {c c₁ : Ctx} {g : Ctx → Ctx} (hg : ∀ x, Ext b x (g x)) (h : Ext b c c₁) :
    Ext b c (g c₁) := h.trans (hg c₁)

theorem Ext.thenSetSt {b : Perm} {c c₁ : Ctx} (s : Fed) (h : Ext b c c₁) : Ext b c { c₁ with st := s } :=
  h.trans (Ext.setSt b c₁ s)

theorem heldOK_nil (F : Facts) : HeldOK F [] := Or.inl rfl
theorem heldOK_hello (F : Facts) : HeldOK F [F.helloLock] := Or.inr rfl

/-- Closes or simplifies `Ext` goals about compositions of the send/close/hello functions; expects
`Locks F` and `F.closeRechecksConn = true` among the hypotheses. -/
macro "ext_tac" : tactic => `(tactic| repeat (first
  | exact Ext.refl _ _
  | assumption
  | refine Ext.thenSetSt _ ?_
  | refine Ext.comp (fun x => Ext.upd _ x _) ?_
  | refine Ext.comp (fun x => Ext.emit x _ rfl) ?_
  | refine Ext.comp (fun x => ext_sendLocal _ _ x (by simp)) ?_
  | refine Ext.comp (fun x => ext_lock [] _ x (by simp)) ?_
  | refine Ext.comp (fun x => ext_closeConnNoBye x) ?_
  | refine Ext.comp (fun x => ext_scheduleReconnectLocked x) ?_
  | refine Ext.comp (fun x => ext_sendHelloLocked _ (by assumption) _ (by first | exact heldOK_nil _ | exact heldOK_hello _) x) ?_
  | refine Ext.comp (fun x => ext_closeWithError _ (by assumption) (by assumption) _ (by first | exact heldOK_nil _ | exact heldOK_hello _) _ _ x) ?_
  | refine Ext.comp (fun x => ext_joinRoom _ (by assumption) (by assumption) _ (by first | exact heldOK_nil _ | exact heldOK_hello _) x) ?_
  | refine Ext.comp (fun x => ext_close _ (by assumption) (by assumption) _ (by first | exact heldOK_nil _ | exact heldOK_hello _) x) ?_
  | refine Ext.comp (fun x => ext_sendMessage _ (by assumption) _ (by first | exact heldOK_nil _ | exact heldOK_hello _) _ _ x) ?_))

/-! ### Before the remote hello -/

theorem ext_processWelcome {b : Perm} (F : Facts) (L : Locks F) (hr : F.closeRechecksConn = true)
    (m : ServerMessage) (c : Ctx) (hw : m.welcome.isSome = true) : Ext b c (processWelcome F m c) := by
  unfold processWelcome
  split
  · rename_i hm; simp [hm] at hw
  · split
    · exact ext_closeWithError F L hr [] (heldOK_nil F) _ _ c
    · exact (ext_lock [] F.helloLock c (by simp)).trans (ext_sendHelloLocked F L _ (heldOK_hello F) _)

theorem ext_foldSend {b : Perm} (F : Facts) (L : Locks F) (msgs : List String) (c : Ctx) :
    Ext b c (msgs.foldl (fun c m => sendMessageLocked F [F.sendLock] "message" m c) c) := by
  induction msgs generalizing c with
  | nil => exact Ext.refl b c
  | cons x xs ih =>
    simp only [List.foldl_cons]
    exact (ext_sendMessageLocked F [F.sendLock] "message" x c (by simp [L.ds])).trans (ih _)

theorem ext_flushPending {b : Perm} (F : Facts) (L : Locks F) (hf : F.flushOverSnapshot = true) (c : Ctx) :
    Ext b c (flushPending F c) := by
  unfold flushPending
  dsimp only
  split
  · ext_tac
  · simp only [hf, Bool.not_true, Bool.false_and, Bool.false_eq_true, if_false]
    refine Ext.comp (fun x => ext_foldSend F L _ x) ?_
    ext_tac

theorem ext_processHello {b : Perm} (F : Facts) (L : Locks F) (hr : F.closeRechecksConn = true)
    (hf : F.flushOverSnapshot = true) (m : ServerMessage) (c : Ctx) (he : m.type = "error" → m.error.isSome = true)
    (hh : m.type = "hello" → m.hello.isSome = true) : Ext b c (processHello F m c) := by
  unfold processHello
  extract_lets c1 H c2 c3
  have h1 : Ext b c c1 := ext_lock [] F.helloLock c (by simp)
  have h2 : Ext b c c2 := h1.trans (Ext.upd b c1 _)
  have h3 : Ext b c c3 := h2.trans (Ext.upd b c2 _)
  have HH : HeldOK F H := heldOK_hello F
  split
  · exact h1.trans (ext_sendHelloLocked F L H HH c1)
  · split
    · rename_i hte
      split
      · rename_i hm; simp [hm] at he; exact absurd hte he
      · split
        · exact (h2.trans (Ext.upd b c2 _)).trans (ext_sendHelloLocked F L H HH _)
        · exact h2.trans (ext_closeWithError F L hr H HH _ _ c2)
    · split
      · exact h2.trans (ext_sendHelloLocked F L H HH c2)
      · rename_i hth
        have hth' : m.type = "hello" := by simpa using hth
        split
        · split
          · rename_i hm; simp [hm] at hh; exact absurd hth' hh
          · extract_lets c4 c5 c6
            have h4 : Ext b c c4 := h3.trans (Ext.upd b c3 _)
            have h6 : Ext b c c6 := by
              simp only [c6]
              split
              · exact (h4.trans (ext_sendLocal _ _ c4 (by simp))).trans (Ext.upd b _ _)
              · exact h4
            exact h6.trans (ext_joinRoom F L hr H HH c6)
        · exact (h3.trans (ext_sendLocal _ _ c3 (by simp))).trans (ext_flushPending F L hf _)

/-! ### After the remote hello -/

theorem entryIds_isSome : ∀ (l : List (Option Entry)), l.all Option.isSome = true → (entryIds l).isSome = true
  | [], _ => rfl
  | none :: _, h => by simp at h
  | some e :: r, h => by
    have hr : r.all Option.isSome = true := by simpa using h
    have ih := entryIds_isSome r hr
    unfold entryIds
    cases hx : entryIds r with
    | none => simp [hx] at ih
    | some l => simp

theorem assertCrash_false {F : Facts} (h : F.filterUncheckedAsserts = 0) (u : RoomEv) : assertCrash F u = false := by
  simp [assertCrash, h]

theorem forwardEvent_no_crash {F : Facts} (ha : F.filterUncheckedAsserts = 0) (st : Fed) (id : String) (e : Event)
    (rsid : String) (P : EvPresent e) : (forwardEvent F st id e rsid).crash = none := by
  unfold forwardEvent
  dsimp only
  split
  · rename_i ht
    split
    · rename_i hty
      have := P.pUpdate ht hty
      cases hu : e.update with
      | none => simp [hu] at this
      | some u =>
        dsimp only
        rw [assertCrash_false ha]
        simp
    · split
      · rename_i hty
        have := P.pFlags ht hty
        cases hu : e.flags with
        | none => simp [hu] at this
        | some f => rfl
      · split
        · rename_i hty
          have := P.pMessage ht hty
          cases hu : e.message with
          | none => simp [hu] at this
          | some f => rfl
        · rfl
  · split
    · rename_i ht
      split
      · rename_i hty
        have := entryIds_isSome _ (P.join ht hty)
        cases hu : entryIds e.join with
        | none => simp [hu] at this
        | some ids =>
          dsimp only
          split <;> first | rfl | (split <;> rfl)
      · split
        · rfl
        · split
          · rename_i hty
            have := P.rMessage ht hty
            cases hu : e.message with
            | none => simp [hu] at this
            | some f => rfl
          · split <;> rfl
    · split
      · rename_i ht
        split
        · rename_i hty
          have := P.lInvite ht hty
          cases hu : e.invite with
          | none => simp [hu] at this
          | some f => rfl
        · split
          · rename_i hty
            have := P.lDisinvite ht hty
            cases hu : e.disinvite with
            | none => simp [hu] at this
            | some f => rfl
          · split
            · rename_i hty
              have := P.lUpdate ht hty
              cases hu : e.update with
              | none => simp [hu] at this
              | some f => rfl
            · rfl
      · rfl

theorem forward_no_crash {F : Facts} (ha : F.filterUncheckedAsserts = 0)
    (hd : F.derefs.contains detailsRoomDeref = false) (st : Fed) (m : ServerMessage)
    (P : Present F m) : (forward F st m).crash = none := by
  unfold forward
  dsimp only
  split
  · rename_i ht
    have := P.control ht
    cases hu : m.control with
    | none => simp [hu] at this
    | some b => rfl
  · split
    · rename_i ht
      have := P.event ht
      cases hu : m.event with
      | none => simp [hu] at this
      | some e => exact forwardEvent_no_crash ha st m.id e _ (P.ev ht e hu)
    · split
      · rename_i ht
        have := P.error ht
        cases hu : m.error with
        | none => simp [hu] at this
        | some e =>
          simp only [hd, Bool.and_false, Bool.false_eq_true, if_false]
      · split
        · rename_i ht
          have := P.room ht
          cases hu : m.room with
          | none => simp [hu] at this
          | some r => rfl
        · split
          · rename_i ht
            have := P.message ht
            cases hu : m.message with
            | none => simp [hu] at this
            | some b =>
              dsimp only
              split <;> rfl
          · rfl

theorem ext_sessionEnds {b : Perm} (F : Facts) (L : Locks F) (c : Ctx) : Ext b c (sessionEnds F c) := by
  unfold sessionEnds
  extract_lets c1 c2 c3
  have h1 : Ext b c c1 := Ext.upd b c _
  have h2 : Ext b c c2 := h1.trans (Ext.upd b c1 _)
  have h3 : Ext b c c3 := h2.trans (ext_sendMessageLocked F [F.sendLock] _ _ c2 (by simp [L.ds]))
  split
  · exact h3.trans (Ext.upd b c3 _)
  · exact h1

theorem ext_processMessage (F : Facts) (L : Locks F) (hr : F.closeRechecksConn = true) (m : ServerMessage) (c : Ctx)
    (hc : (forward F c.st m).crash = none) : Ext ⟨true, decide (m.type = "bye")⟩ c (processMessage F m c) := by
  unfold processMessage
  extract_lets f c1 c2 c3 c4
  have hc' : f.crash = none := hc
  simp only [hc']
  have h1 : Ext ⟨true, decide (m.type = "bye")⟩ c c1 := by
    simp only [c1]
    split
    · exact Ext.upd _ c _
    · exact Ext.refl _ c
  have h2 : Ext ⟨true, decide (m.type = "bye")⟩ c c2 := by
    simp only [c2]
    split
    · exact h1.trans (Ext.upd _ c1 _)
    · exact h1
  have h3 : Ext ⟨true, decide (m.type = "bye")⟩ c c3 := by
    simp only [c3]
    split
    · exact h2.trans (ext_sendLocal _ _ c2 (by simp))
    · exact h2
  have h4 : Ext ⟨true, decide (m.type = "bye")⟩ c c4 := by
    simp only [c4]
    split
    · rename_i hb
      have hb' : decide (m.type = "bye") = true := by
        simp only [Bool.and_eq_true] at hb
        exact hb.1
      exact (h3.trans (Ext.emit c3 _ (by simp [Eff.contained, hb']))).trans (ext_sessionEnds F L _)
    · exact h3
  split
  · exact h4.trans (ext_close F L hr [] (heldOK_nil F) c4)
  · exact h4

/-! ### The read loop and the operations -/

theorem Ext.mono {p q : Perm} {c c' : Ctx} (h : Ext p c c') (hf : p.fwd = true → q.fwd = true)
    (hb : (p.fwd && p.bye) = true → (q.fwd && q.bye) = true) : Ext q c c' := by
  obtain ⟨f, es, e, a⟩ := h
  refine ⟨f, es, e, ?_⟩
  intro x hx
  have := a x hx
  cases x with
  | toLocal k m => cases k <;> simp_all [Eff.contained]
  | sessionClosed => simp only [Eff.contained] at this ⊢; exact hb this
  | _ => rfl

theorem ext_afterRead {b : Perm} (F : Facts) (c : Ctx) : Ext b c (afterRead F c) := by
  unfold afterRead
  extract_lets c1
  have h1 : Ext b c c1 := by
    simp only [c1]
    split
    · exact (ext_lock [] F.sendLock c (by simp)).trans (ext_scheduleReconnectLocked _)
    · exact Ext.refl b c
  split
  · split
    · exact h1
    · exact (h1.trans (Ext.upd b c1 _)).trans (Ext.emit _ _ rfl)
  · exact h1.trans (Ext.upd b c1 _)

/-- The permissions of a step: forwarding needs the completed hello, ending the session a "bye". -/
def permOf (st : Fed) (m : ServerMessage) : Perm := ⟨st.hello.isSome, decide (m.type = "bye")⟩

theorem ext_dispatch (F : Facts) (hs : F.sound = true) (m : ServerMessage) (c : Ctx) (hv : validate F m = true) :
    Ext (permOf c.st m) c (dispatch F m c) := by
  have L := sound_locks hs
  have hr := sound_recheck hs
  have P := present_of_valid hs hv
  unfold dispatch
  split
  · split
    · rename_i ht
      exact ext_processWelcome F L hr m c (P.welcome ht)
    · exact ext_processHello F L hr (sound_snapshot hs) m c P.error P.hello
  · rename_i hn
    have hsome : c.st.hello.isSome = true := by
      cases h : c.st.hello <;> simp_all
    have := ext_processMessage F L hr m c (forward_no_crash (sound_asserts hs) (sound_details hs) c.st m P)
    exact this.mono (by simp [permOf, hsome]) (by simp [permOf, hsome])

theorem ext_onFrame (F : Facts) (hs : F.sound = true) (d : Dec) (c : Ctx) :
    Ext (match d with
      | .msg m => permOf c.st m
      | .undecodable => ⟨false, false⟩) c (onFrame F d c) := by
  unfold onFrame
  cases d with
  | undecodable => simp [sound_undecodable hs, Ext.refl]
  | msg m =>
    dsimp only
    split
    · rename_i hv
      exact ext_dispatch F hs m c hv
    · exact Ext.refl _ c

end SigModel.ShapesFederation
