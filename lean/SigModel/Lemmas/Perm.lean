/-
Lemmas for C08: the permission decisions of `Model/Perm.lean` characterised by the statement's
conditions, what every step may emit (`step_ok`), and the invariant of reachable states
(`Inv`: publishers are unique per stream type, of stream types the media server has, covered by
the permissions once the revocation goroutines have run; in-call implies in a room).
-/
import SigModel.Spec.Perm
set_option linter.unusedSimpArgs false
set_option linter.unusedVariables false
namespace SigModel.Perm

def Permitted (cfg : Cfg) (ps : Option (List String)) (stream : String) (m : Media) : Bool :=
  if stream == cfg.streamScreen then hasPerm cfg ps cfg.permScreen
  else (!m.audio || hasPerm cfg ps cfg.permMedia || hasPerm cfg ps cfg.permAudio) &&
       (!m.video || hasPerm cfg ps cfg.permMedia || hasPerm cfg ps cfg.permVideo)

def MaySignal (cfg : Cfg) (ps : Option (List String)) (stream : String) : Bool :=
  if stream == cfg.streamScreen then hasPerm cfg ps cfg.permScreen
  else hasPerm cfg ps cfg.permMedia || hasPerm cfg ps cfg.permAudio || hasPerm cfg ps cfg.permVideo

def SdpOK (cfg : Cfg) (ps : Option (List String)) (ml : List MLine) : Bool :=
  (!ml.contains .audio || hasPerm cfg ps cfg.permMedia || hasPerm cfg ps cfg.permAudio) &&
  (!ml.contains .video || hasPerm cfg ps cfg.permMedia || hasPerm cfg ps cfg.permVideo)

def mlMedia (ml : List MLine) (acc : Media) : Media :=
  { acc with audio := acc.audio || ml.contains .audio, video := acc.video || ml.contains .video }

theorem sdpAllowed_spec (cfg : Cfg) (ps : Option (List String)) :
    ∀ (ml : List MLine) (acc : Media), sdpAllowed cfg ps ml acc = if SdpOK cfg ps ml then some (mlMedia ml acc) else none := by
  intro ml
  induction ml with
  | nil => intro acc; simp [sdpAllowed, SdpOK, mlMedia]
  | cons x r ih =>
    intro acc
    cases x <;> simp [sdpAllowed, ih, SdpOK, mlMedia] <;>
      cases hasPerm cfg ps cfg.permMedia <;> cases hasPerm cfg ps cfg.permAudio <;>
      cases hasPerm cfg ps cfg.permVideo <;> cases h1 : r.contains MLine.audio <;> cases h2 : r.contains MLine.video <;>
      simp_all [Bool.or_comm]

structure Sound (cfg : Cfg) : Prop where
  hasPermOk : cfg.hasPermOk = true
  sdpOk : cfg.sdpOk = true
  sendOk : cfg.sendOk = true
  offerTypeOk : cfg.offerTypeOk = true
  publisherOk : cfg.publisherOk = true
  dispatchOk : cfg.dispatchOk = true
  sendofferGuarded : cfg.sendofferGuarded = true
  sameCallOk : cfg.sameCallOk = true
  controlOk : cfg.controlOk = true
  transientOk : cfg.transientOk = true
  releaseOk : cfg.releaseOk = true
  incallOk : cfg.incallOk = true
  joinSweeps : cfg.joinSweeps = true
  bitsAV : cfg.bitAudio ≠ cfg.bitVideo
  bitsAS : cfg.bitAudio ≠ cfg.bitScreen
  bitsVS : cfg.bitVideo ≠ cfg.bitScreen
  streams : ∃ v, cfg.mcuStreams = [v, cfg.streamScreen] ∧ v ≠ cfg.streamScreen ∧ cfg.sweep = cfg.goodSweep v

theorem sound_of (cfg : Cfg) (h : cfg.sound = true) : Sound cfg := by
  unfold Cfg.sound at h
  simp only [Bool.and_eq_true, bne_iff_ne, ne_eq] at h
  obtain ⟨⟨⟨⟨⟨⟨⟨⟨⟨⟨⟨⟨⟨⟨⟨⟨h1, h2⟩, h3⟩, h4⟩, h5⟩, h6⟩, h7⟩, h8⟩, h9⟩, h10⟩, h11⟩, h12⟩, h13⟩, h14⟩, h15⟩, h16⟩, h17⟩ := h
  refine ⟨h1, h2, h3, h4, h5, h6, h7, h8, h9, h10, h11, h12, h13, h14, h15, h16, ?_⟩
  split at h17
  · rename_i v s hm
    simp only [Bool.and_eq_true, bne_iff_ne, ne_eq, beq_iff_eq] at h17
    obtain ⟨⟨hv, hs⟩, hsw⟩ := h17
    exact ⟨v, by rw [hm, hs], hv, hsw⟩
  · cases h17

/-- `checkOfferTypeLocked` accepts an offer exactly if the publisher it describes is permitted, and
the media types it reports are the audio / video m-lines (a screen share: the screen bit). -/
theorem checkOfferType_spec (cfg : Cfg) (hs : Sound cfg) (ps : Option (List String)) (stream : String) (ml : List MLine) :
    checkOfferType cfg ps stream ml =
      if stream == cfg.streamScreen then (if hasPerm cfg ps cfg.permScreen then some { screen := true } else none)
      else if SdpOK cfg ps ml then some (mlMedia ml {}) else none := by
  unfold checkOfferType
  simp only [hs.offerTypeOk, hs.hasPermOk, hs.sdpOk, hs.publisherOk, hs.dispatchOk, Bool.not_true, Bool.or_self, Bool.false_eq_true, ↓reduceIte]
  split
  · cases hasPerm cfg ps cfg.permScreen <;> simp
  · exact sdpAllowed_spec cfg ps ml {}

theorem checkOfferType_permitted (cfg : Cfg) (hs : Sound cfg) (ps : Option (List String)) (stream : String) (ml : List MLine) (m : Media)
    (h : checkOfferType cfg ps stream ml = some m) : Permitted cfg ps stream m = true := by
  rw [checkOfferType_spec cfg hs] at h
  unfold Permitted
  split at h
  · rename_i hsc
    simp only [hsc, ↓reduceIte]
    split at h <;> simp_all
  · rename_i hsc
    simp only [hsc]
    split at h
    · rename_i hok
      injection h with h
      subst h
      simp only [SdpOK, Bool.and_eq_true] at hok
      simpa [mlMedia] using hok
    · cases h

theorem allowedToSend_maySignal (cfg : Cfg) (hs : Sound cfg) (ps : Option (List String)) (stream : String) (k : Kind) (hk : k ≠ .offer) :
    allowedToSend cfg ps stream k [] = MaySignal cfg ps stream := by
  unfold allowedToSend MaySignal
  simp only [hs.sendOk, hs.hasPermOk, Bool.not_true, Bool.or_self, Bool.false_eq_true, ↓reduceIte]
  split
  · rfl
  · have : (k == Kind.offer) = false := by simpa using hk
    simp only [this, Bool.false_eq_true, ↓reduceIte]
    cases hasPerm cfg ps cfg.permMedia <;> simp


/-- `s` may subscribe a stream of `p`: the statement's condition on the state of the model. -/
def SameCallSpec (st : St) (s p : Nat) : Prop :=
  st.allowAny = true ∨ (st.sess s).internal = true ∨
    ∃ r, (st.sess s).room = some r ∧ (st.sess p).room = some r ∧ (st.sess s).inCall = true ∧
         (st.sess p).live = true ∧ ((st.sess p).inCall = true ∨ (st.sess p).internal = true)

theorem sameCall_spec (cfg : Cfg) (hs : Sound cfg) (st : St) (s p : Nat) (h : sameCall cfg st s p = true) :
    (st.sess s).internal = true ∨
    ∃ r, (st.sess s).room = some r ∧ (st.sess p).room = some r ∧ (st.sess s).inCall = true ∧
         (st.sess p).live = true ∧ ((st.sess p).inCall = true ∨ (st.sess p).internal = true) := by
  unfold sameCall at h
  simp only [hs.sameCallOk, hs.incallOk, hs.releaseOk, Bool.not_true, Bool.or_self, Bool.false_eq_true, ↓reduceIte] at h
  cases hi : (st.sess s).internal
  · simp only [hi, Bool.false_eq_true, ↓reduceIte] at h
    right
    cases hr : (st.sess s).room with
    | none => simp [hr] at h
    | some r =>
      simp only [hr] at h
      cases hc : (st.sess s).inCall
      · simp [hc] at h
      · cases hl : (st.sess p).live
        · simp [hc, hl] at h
        · cases hr' : (st.sess p).room with
          | none => simp [hc, hl, hr'] at h
          | some r' =>
            simp only [hc, hl, hr', Bool.not_true, Bool.false_eq_true, ↓reduceIte] at h
            by_cases hne : r = r'
            · subst hne
              refine ⟨r, rfl, rfl, rfl, rfl, ?_⟩
              cases hpi : (st.sess p).internal <;> cases hpc : (st.sess p).inCall <;> simp_all
            · simp [hne] at h
  · left; rfl

/-- `x` may send control messages / write transient data (names of `cfg`). -/
def MayControl (cfg : Cfg) (x : Sess) : Prop := x.internal = true ∨ hasPerm cfg x.perms cfg.permControl = true
def MayTransient (cfg : Cfg) (x : Sess) : Prop := x.internal = true ∨ hasPerm cfg x.perms cfg.permTransient = true

/-- What the property says about one emitted event, in the state before the step. -/
def EvOK (cfg : Cfg) (st : St) : Ev → Prop
  | .pubNew s T m => (st.sess s).live = true ∧ Permitted cfg (st.sess s).perms T m = true
  | .pubSet s T m => (st.sess s).live = true ∧ Permitted cfg (st.sess s).perms T m = true
  | .pubMsg s T k => (st.sess s).live = true ∧
      (k = .offer ∨ (MaySignal cfg (st.sess s).perms T = true ∧ (findPub (st.sess s) T).isSome = true))
  | .sendofferOk s _ T => (st.sess s).live = true ∧ MaySignal cfg (st.sess s).perms T = true
  | .requestOk s p _ => (st.sess s).live = true ∧ SameCallSpec st s p
  | .subNew s src T => ((st.sess s).live = true ∧ SameCallSpec st s src) ∨
      ((st.sess src).live = true ∧ MaySignal cfg (st.sess src).perms T = true)
  | .deliver _ what frm => what = "ctl" → ((st.sess frm).live = true ∧ MayControl cfg (st.sess frm))
  | .tev _ _ frm => (st.sess frm).live = true ∧ MayTransient cfg (st.sess frm)
  | _ => True

def Ev.isClose : Ev → Bool
  | .pubClose .. => true
  | .subClose .. => true
  | _ => false

theorem EvOK_of_isClose (cfg : Cfg) (st : St) (ev : Ev) (h : ev.isClose = true) : EvOK cfg st ev := by
  cases ev <;> simp_all [Ev.isClose, EvOK]

theorem closeEvs_isClose (s : Nat) (x : Sess) : ∀ ev ∈ closeEvs s x, ev.isClose = true := by
  intro ev h
  simp only [closeEvs, List.mem_append, List.mem_map] at h
  rcases h with ⟨_, _, rfl⟩ | ⟨_, _, rfl⟩ <;> rfl

theorem offerStep_ok (cfg : Cfg) (hs : Sound cfg) (st : St) (s : Nat) (T : String) (ml : List MLine) :
    ∀ ev ∈ (offerStep cfg st s T ml).2, EvOK cfg st ev := by
  intro ev h
  unfold offerStep at h
  simp only [] at h
  cases hl : (st.sess s).live
  · simp [hl] at h
  · simp only [hl, Bool.not_true, Bool.false_eq_true, ↓reduceIte] at h
    cases hc : checkOfferType cfg (st.sess s).perms T ml with
    | none => simp only [hc, List.mem_singleton] at h; subst h; trivial
    | some m =>
      have hp := checkOfferType_permitted cfg hs _ _ _ _ hc
      simp only [hc] at h
      split at h
      · simp only [List.mem_cons, List.not_mem_nil, or_false] at h
        rcases h with rfl | rfl | rfl <;> simp [EvOK, hl, hp]
      · split at h
        · simp only [List.mem_cons, List.not_mem_nil, or_false] at h
          rcases h with rfl | rfl | rfl <;> simp [EvOK, hl, hp]
        · simp only [List.mem_singleton] at h; subst h; trivial

theorem msgStep_ok (cfg : Cfg) (hs : Sound cfg) (st : St) (s r : Nat) (k : Kind) (T : String) :
    ∀ ev ∈ (msgStep cfg st s r k T).2, EvOK cfg st ev := by
  unfold msgStep
  simp only [hs.dispatchOk, Bool.true_and]
  cases hl : (st.sess s).live
  · simp
  · cases k <;> simp only [Bool.not_true, Bool.false_eq_true, ↓reduceIte]
    all_goals (repeat' split)
    all_goals simp only [List.not_mem_nil, List.mem_singleton, forall_eq, false_imp_iff, implies_true, EvOK, hl, true_and,
      reduceCtorEq, false_or]
    case other.isFalse => intro h; exact absurd h (by decide)
    all_goals
      rename_i ha _ _ hf
      rw [allowedToSend_maySignal cfg hs _ _ _ (by decide)] at ha
      simp_all

theorem getOrCreateSub_events (cfg : Cfg) (st : St) (s src : Nat) (T : String) :
    ∀ ev ∈ (getOrCreateSub cfg st s src T).2.1, ev = .subNew s src T := by
  unfold getOrCreateSub
  simp only []
  repeat' split
  all_goals simp

theorem requestStep_ok (cfg : Cfg) (hs : Sound cfg) (st : St) (s p : Nat) (T : String) :
    ∀ ev ∈ (requestStep cfg st s p T).2, EvOK cfg st ev := by
  unfold requestStep
  simp only [hs.dispatchOk, Bool.true_and]
  cases hl : (st.sess s).live
  · simp
  · simp only [Bool.not_true, Bool.false_eq_true, ↓reduceIte]
    split
    · simp
    · split
      · simp [EvOK]
      · rename_i hne hg
        have hsc : SameCallSpec st s p := by
          unfold SameCallSpec
          cases ha : st.allowAny
          · simp only [ha, Bool.not_false, Bool.true_and, Bool.not_eq_true', Bool.not_eq_false] at hg
            right
            exact sameCall_spec cfg hs st s p (by simpa using hg)
          · left; rfl
        have hsub := getOrCreateSub_events cfg st s p T
        generalize getOrCreateSub cfg st s p T = res at hsub
        obtain ⟨st1, ev1, ok⟩ := res
        simp only [] at hsub ⊢
        split
        · intro ev hev
          simp only [List.mem_cons, List.mem_append, List.not_mem_nil, or_false] at hev
          rcases hev with (rfl | hev) | rfl | rfl
          · exact ⟨hl, hsc⟩
          · rw [hsub ev hev]; exact Or.inl ⟨hl, hsc⟩
          · trivial
          · trivial
        · intro ev hev
          simp only [List.mem_cons, List.not_mem_nil, or_false] at hev
          rcases hev with rfl | rfl
          · exact ⟨hl, hsc⟩
          · trivial

theorem sendofferStep_ok (cfg : Cfg) (hs : Sound cfg) (st : St) (s r : Nat) (T : String) :
    ∀ ev ∈ (sendofferStep cfg st s r T).2, EvOK cfg st ev := by
  unfold sendofferStep
  simp only [hs.sendofferGuarded, Bool.true_and]
  cases hl : (st.sess s).live
  · simp
  · simp only [Bool.not_true, Bool.false_eq_true, ↓reduceIte]
    split
    · simp
    · split
      · simp [EvOK]
      · rename_i hne hg
        have hm : MaySignal cfg (st.sess s).perms T = true := by
          rw [allowedToSend_maySignal cfg hs _ _ _ (by decide)] at hg
          simpa using hg
        split
        · simp [EvOK, hl, hm]
        · have hsub := getOrCreateSub_events cfg st r s T
          generalize getOrCreateSub cfg st r s T = res at hsub
          obtain ⟨st1, ev1, ok⟩ := res
          simp only [] at hsub ⊢
          split
          · intro ev hev
            simp only [List.mem_cons, List.mem_append, List.not_mem_nil, or_false] at hev
            rcases hev with (rfl | hev) | rfl | rfl
            · exact ⟨hl, hm⟩
            · rw [hsub ev hev]; exact Or.inr ⟨hl, hm⟩
            · trivial
            · intro h; exact absurd h (by decide)
          · intro ev hev
            simp only [List.mem_cons, List.not_mem_nil, or_false] at hev
            rcases hev with rfl | rfl
            · exact ⟨hl, hm⟩
            · trivial

/-- Events of actions that only close objects. -/
theorem leaveRoom_isClose (st : St) (s : Nat) : ∀ ev ∈ (leaveRoom st s).2, ev.isClose = true := by
  unfold leaveRoom
  split
  · simp
  · exact closeEvs_isClose _ _

theorem joinRoom_isClose (cfg : Cfg) (st : St) (s r : Nat) (p : Option (List String)) :
    ∀ ev ∈ (joinRoom cfg st s r p).2, ev.isClose = true := by
  unfold joinRoom
  split
  · simp
  · exact leaveRoom_isClose st s

theorem sweepStep_isClose (cfg : Cfg) (st : St) (s : Nat) : ∀ ev ∈ (sweepStep cfg st s).2, ev.isClose = true := by
  unfold sweepStep
  simp only []
  split
  · simp
  · intro ev h
    simp only [List.mem_map] at h
    obtain ⟨_, _, rfl⟩ := h
    rfl

theorem incallStep_isClose (cfg : Cfg) (st : St) (s r : Nat) (f : Bool) :
    ∀ ev ∈ (incallStep cfg st s r f).2, ev.isClose = true := by
  unfold incallStep
  simp only []
  repeat' split
  · simp
  · simp
  · exact closeEvs_isClose _ _

theorem incallAllStep_isClose (st : St) (r : Nat) (f : Bool) :
    ∀ ev ∈ (incallAllStep st r f).2, ev.isClose = true := by
  unfold incallAllStep
  split
  · simp
  · intro ev h
    simp only [List.mem_flatMap] at h
    obtain ⟨i, _, hi⟩ := h
    split at hi
    · exact closeEvs_isClose _ _ ev hi
    · cases hi

theorem closeStep_isClose (st : St) (s : Nat) : ∀ ev ∈ (closeStep st s).2, ev.isClose = true := by
  unfold closeStep
  split
  · simp
  · intro ev h
    have h1 := leaveRoom_isClose st s
    generalize leaveRoom st s = res at h h1
    obtain ⟨st1, ev1⟩ := res
    simp only [List.mem_append] at h
    rcases h with h | h
    · exact h1 ev h
    · exact closeEvs_isClose _ _ ev h

theorem mayControl_spec (cfg : Cfg) (hs : Sound cfg) (x : Sess) : mayControl cfg x = true ↔ MayControl cfg x := by
  simp [mayControl, MayControl, hs.controlOk, hs.hasPermOk]

theorem mayTransient_spec (cfg : Cfg) (hs : Sound cfg) (x : Sess) : mayTransient cfg x = true ↔ MayTransient cfg x := by
  simp [mayTransient, MayTransient, hs.transientOk, hs.hasPermOk]

theorem controlStep_ok (cfg : Cfg) (hs : Sound cfg) (st : St) (s : Nat) (rc : Rcpt) :
    ∀ ev ∈ (controlStep cfg st s rc).2, EvOK cfg st ev := by
  unfold controlStep
  simp only []
  cases hl : (st.sess s).live
  · simp
  · cases hm : mayControl cfg (st.sess s)
    · simp
    · have hc := (mayControl_spec cfg hs _).1 hm
      simp only [Bool.not_true, Bool.false_eq_true, ↓reduceIte]
      repeat' split
      all_goals (intro ev h; simp only [List.not_mem_nil, List.mem_singleton, List.mem_map] at h)
      all_goals first
        | (subst h; exact fun _ => ⟨hl, hc⟩)
        | (obtain ⟨_, _, rfl⟩ := h; exact fun _ => ⟨hl, hc⟩)

theorem transientStep_ok (cfg : Cfg) (hs : Sound cfg) (st : St) (s : Nat) (a : TAct) :
    ∀ ev ∈ (transientStep cfg st s a).2, EvOK cfg st ev := by
  unfold transientStep
  simp only []
  cases hl : (st.sess s).live
  · simp
  · simp only [Bool.not_true, Bool.false_eq_true, ↓reduceIte]
    cases hm : mayTransient cfg (st.sess s)
    · simp only [Bool.not_false, ↓reduceIte]
      repeat' split
      all_goals (intro ev h; simp only [List.not_mem_nil, List.mem_singleton, List.mem_map] at h)
      all_goals (subst h; trivial)
    · have hc := (mayTransient_spec cfg hs _).1 hm
      repeat' split
      all_goals (intro ev h; simp only [List.not_mem_nil, List.mem_singleton, List.mem_map] at h)
      all_goals first
        | (subst h; trivial)
        | (obtain ⟨_, _, rfl⟩ := h; exact ⟨hl, hc⟩)

/-- **Every** event of **every** step from **every** state satisfies the property's condition on it. -/
theorem step_ok (cfg : Cfg) (hs : Sound cfg) (st : St) (a : Act) : ∀ ev ∈ (step cfg st a).2, EvOK cfg st ev := by
  cases a <;> simp only [step]
  case join s r p => exact fun ev h => EvOK_of_isClose _ _ _ (joinRoom_isClose cfg st s r p ev h)
  case leave s => exact fun ev h => EvOK_of_isClose _ _ _ (leaveRoom_isClose st s ev h)
  case setPerms s p => split <;> simp
  case sweep s => exact fun ev h => EvOK_of_isClose _ _ _ (sweepStep_isClose cfg st s ev h)
  case incall s r f => exact fun ev h => EvOK_of_isClose _ _ _ (incallStep_isClose cfg st s r f ev h)
  case incallAll r f => exact fun ev h => EvOK_of_isClose _ _ _ (incallAllStep_isClose st r f ev h)
  case close s => exact fun ev h => EvOK_of_isClose _ _ _ (closeStep_isClose st s ev h)
  case setAllowAny b => simp
  case offer s T ml => exact offerStep_ok cfg hs st s T ml
  case msg s r k T => exact msgStep_ok cfg hs st s r k T
  case request s p T => exact requestStep_ok cfg hs st s p T
  case sendoffer s r T => exact sendofferStep_ok cfg hs st s r T
  case control s rc => exact controlStep_ok cfg hs st s rc
  case transient s a => exact transientStep_ok cfg hs st s a


/-! ### the invariant of reachable states -/

/-- Invariant of one session. -/
structure SessOK (cfg : Cfg) (x : Sess) : Prop where
  /-- at most one publisher per stream type -/
  nodup : (x.pubs.map (·.stream)).Nodup
  /-- publishers only of stream types the media server has -/
  streams : ∀ p ∈ x.pubs, p.stream ∈ cfg.mcuStreams
  /-- once every revocation goroutine has run, no publisher exceeds the permissions -/
  settled : x.sweeps = 0 → ∀ p ∈ x.pubs, Permitted cfg x.perms p.stream p.media = true
  /-- in the call only while in a room -/
  incallRoom : x.inCall = true → x.room.isSome = true

def Inv (cfg : Cfg) (st : St) : Prop := ∀ i, SessOK cfg (st.sess i)

theorem SessOK.of_no_pubs (cfg : Cfg) (x : Sess) (hp : x.pubs = []) (hr : x.inCall = true → x.room.isSome = true) :
    SessOK cfg x :=
  ⟨by simp [hp], by simp [hp], by simp [hp], hr⟩

theorem upd_sess (st : St) (s : Nat) (f : Sess → Sess) (i : Nat) :
    (st.upd s f).sess i = if i = s then f (st.sess i) else st.sess i := rfl

theorem dropStore_sess (st : St) (r : Nat) : (dropStoreIfEmpty st r).sess = st.sess := by
  unfold dropStoreIfEmpty; split <;> rfl

theorem Inv_upd (cfg : Cfg) (st : St) (s : Nat) (f : Sess → Sess) (h : Inv cfg st) (hf : SessOK cfg (f (st.sess s))) :
    Inv cfg (st.upd s f) := by
  intro i
  rw [upd_sess]
  split
  · rename_i h'; subst h'; exact hf
  · exact h i

theorem leaveRoom_inv (cfg : Cfg) (st : St) (s : Nat) (h : Inv cfg st) : Inv cfg (leaveRoom st s).1 := by
  unfold leaveRoom
  split
  · exact h
  · intro i
    simp only [dropStore_sess, upd_sess]
    split
    · exact SessOK.of_no_pubs _ _ rfl (by simp)
    · exact h i

/-- what `leaveRoom` does to the session itself -/
theorem leaveRoom_self (st : St) (s : Nat) :
    ((leaveRoom st s).1.sess s).perms = (st.sess s).perms ∧ ((leaveRoom st s).1.sess s).sweeps = (st.sess s).sweeps ∧
    ((leaveRoom st s).1.sess s).live = (st.sess s).live ∧
    (((leaveRoom st s).1.sess s).pubs = [] ∨ ((leaveRoom st s).1.sess s).pubs = (st.sess s).pubs) := by
  unfold leaveRoom
  split
  · simp
  · simp [dropStore_sess, upd_sess, Sess.release]

theorem joinRoom_inv (cfg : Cfg) (hs : Sound cfg) (st : St) (s r : Nat) (p : Option (List String)) (h : Inv cfg st) :
    Inv cfg (joinRoom cfg st s r p).1 := by
  unfold joinRoom
  split
  · exact h
  · have h1 := leaveRoom_inv cfg st s h
    have h2 := leaveRoom_self st s
    generalize leaveRoom st s = res at h1 h2
    obtain ⟨st1, ev⟩ := res
    simp only [] at h1 h2 ⊢
    apply Inv_upd _ _ _ _ h1
    have hx := h1 s
    refine ⟨hx.nodup, hx.streams, ?_, by simp⟩
    cases p with
    | none => simpa using hx.settled
    | some q => simp [hs.joinSweeps]

/-! #### the revocation goroutine -/

theorem find_unique (pubs : List Pub) (T : String) (p q : Pub) (hnd : (pubs.map (·.stream)).Nodup)
    (hf : pubs.find? (fun p => p.stream == T) = some q) (hp : p ∈ pubs) (hT : p.stream = T) : p = q := by
  induction pubs with
  | nil => cases hp
  | cons a r ih =>
    simp only [List.map_cons, List.nodup_cons, List.mem_map, not_exists, not_and] at hnd
    simp only [List.find?_cons] at hf
    cases ha : (a.stream == T)
    · simp only [ha] at hf
      rcases List.mem_cons.1 hp with rfl | hp'
      · simp [hT] at ha
      · exact ih hnd.2 hf hp'
    · simp only [ha, Option.some.injEq] at hf
      subst hf
      rcases List.mem_cons.1 hp with rfl | hp'
      · rfl
      · have := hnd.1 p hp'
        simp only [beq_iff_eq] at ha
        exact absurd (hT.trans ha.symm) this

theorem find_none_of_mem (pubs : List Pub) (T : String) (p : Pub) (hp : p ∈ pubs) (hT : p.stream = T) :
    pubs.find? (fun p => p.stream == T) ≠ none := by
  intro h
  rw [List.find?_eq_none] at h
  have := h p hp
  simp [hT] at this

/-- After the (repaired) revocation goroutine every remaining publisher is covered by the permissions. -/
theorem runSweep_good (cfg : Cfg) (hs : Sound cfg) (v : String) (hv : v ≠ cfg.streamScreen)
    (ps : Option (List String)) (pubs : List Pub) (hnd : (pubs.map (·.stream)).Nodup)
    (hst : ∀ p ∈ pubs, p.stream = v ∨ p.stream = cfg.streamScreen) :
    (∀ p ∈ (runSweep cfg ps (cfg.goodSweep v) pubs).1, p ∈ pubs) ∧
    (∀ p ∈ (runSweep cfg ps (cfg.goodSweep v) pubs).1, Permitted cfg ps p.stream p.media = true) := by
  have hav := hs.bitsAV
  have has := hs.bitsAS
  have hvs := hs.bitsVS
  simp only [Cfg.goodSweep, runSweep, Bool.false_eq_true, ↓reduceIte]
  -- first block
  by_cases h1 : blockHits cfg ps { stream := v, guard := cfg.permMedia, conds := [(cfg.bitAudio, cfg.permAudio), (cfg.bitVideo, cfg.permVideo)], early := false } pubs = true
  · simp only [h1, ↓reduceIte]
    -- the camera publisher is gone; what remains are screen publishers
    have hrest : ∀ p ∈ pubs.filter (fun p => p.stream != v), p ∈ pubs ∧ p.stream = cfg.streamScreen := by
      intro p hp
      simp only [List.mem_filter, bne_iff_ne, ne_eq] at hp
      exact ⟨hp.1, (hst p hp.1).resolve_left hp.2⟩
    by_cases h2 : blockHits cfg ps { stream := cfg.streamScreen, guard := cfg.permScreen, conds := [], early := false } (pubs.filter (fun p => p.stream != v)) = true
    · simp only [h2, ↓reduceIte]
      constructor
      · intro p hp
        simp only [List.mem_filter] at hp
        exact hp.1.1
      · intro p hp
        simp only [List.mem_filter, bne_iff_ne, ne_eq] at hp
        exact absurd (hrest p (List.mem_filter.2 ⟨hp.1.1, by simpa using hp.1.2⟩)).2 hp.2
    · simp only [h2, Bool.false_eq_true, ↓reduceIte]
      constructor
      · exact fun p hp => (hrest p hp).1
      · intro p hp
        have hp' := hrest p hp
        simp only [blockHits, List.isEmpty_nil, Bool.true_or, Bool.and_eq_true, Bool.not_eq_true', Bool.not_eq_true] at h2
        unfold Permitted
        simp only [hp'.2, beq_self_eq_true, ↓reduceIte]
        cases hsc : hasPerm cfg ps cfg.permScreen
        · exfalso
          apply h2
          refine ⟨hsc, ?_⟩
          have := find_none_of_mem _ cfg.streamScreen p hp hp'.2
          split
          · rename_i hnone; exact absurd hnone this
          · rfl
        · rfl
  · simp only [h1, Bool.false_eq_true, ↓reduceIte]
    -- the camera publisher (if any) is permitted
    have hcam : ∀ p ∈ pubs, p.stream = v → Permitted cfg ps p.stream p.media = true := by
      intro p hp hT
      unfold Permitted
      have hne : (p.stream == cfg.streamScreen) = false := by simp [hT, hv]
      simp only [hne, Bool.false_eq_true, ↓reduceIte]
      cases hm : hasPerm cfg ps cfg.permMedia
      · simp only [blockHits, hm, Bool.not_false, Bool.true_and] at h1
        have hfind := find_none_of_mem pubs v p hp hT
        cases hf : pubs.find? (fun p => p.stream == v) with
        | none => exact absurd hf hfind
        | some q =>
          have hq := find_unique pubs v p q hnd hf hp hT
          subst hq
          simp only [hf, List.isEmpty_cons, Bool.false_or, List.any_cons, List.any_nil, Bool.or_false] at h1
          simp only [hasMedia, ↓reduceIte, hav.symm, Bool.or_eq_true, Bool.and_eq_true, Bool.not_eq_true', not_or, not_and,
            Bool.not_eq_false] at h1
          cases ha : p.media.audio <;> cases hvv : p.media.video <;> simp_all
      · simp
    by_cases h2 : blockHits cfg ps { stream := cfg.streamScreen, guard := cfg.permScreen, conds := [], early := false } pubs = true
    · simp only [h2, ↓reduceIte]
      constructor
      · intro p hp
        simp only [List.mem_filter] at hp
        exact hp.1
      · intro p hp
        simp only [List.mem_filter, bne_iff_ne, ne_eq] at hp
        exact hcam p hp.1 ((hst p hp.1).resolve_right hp.2)
    · simp only [h2, Bool.false_eq_true, ↓reduceIte]
      refine ⟨fun p hp => hp, ?_⟩
      intro p hp
      rcases hst p hp with hT | hT
      · exact hcam p hp hT
      · simp only [blockHits, List.isEmpty_nil, Bool.true_or, Bool.and_eq_true, Bool.not_eq_true', Bool.not_eq_true] at h2
        unfold Permitted
        simp only [hT, beq_self_eq_true, ↓reduceIte]
        cases hsc : hasPerm cfg ps cfg.permScreen
        · exfalso
          apply h2
          refine ⟨hsc, ?_⟩
          have := find_none_of_mem _ cfg.streamScreen p hp hT
          split
          · rename_i hnone; exact absurd hnone this
          · rfl
        · rfl


theorem streams_cases (cfg : Cfg) (v : String) (hm : cfg.mcuStreams = [v, cfg.streamScreen]) (x : Sess) (hx : SessOK cfg x) :
    ∀ p ∈ x.pubs, p.stream = v ∨ p.stream = cfg.streamScreen := by
  intro p hp
  have := hx.streams p hp
  simpa [hm] using this

theorem nodup_sublist_map {pubs qs : List Pub} (h : (pubs.map (·.stream)).Nodup) (hq : qs.Sublist pubs) :
    (qs.map (·.stream)).Nodup :=
  List.Nodup.sublist (List.Sublist.map _ hq) h

theorem runSweep_sublist (cfg : Cfg) (ps : Option (List String)) :
    ∀ (bs : List SweepBlock) (pubs : List Pub), (runSweep cfg ps bs pubs).1.Sublist pubs := by
  intro bs
  induction bs with
  | nil => intro pubs; exact List.Sublist.refl _
  | cons b r ih =>
    intro pubs
    simp only [runSweep]
    split
    · split
      · exact List.filter_sublist
      · exact (ih _).trans List.filter_sublist
    · exact ih pubs

theorem sweepStep_inv (cfg : Cfg) (hs : Sound cfg) (st : St) (s : Nat) (h : Inv cfg st) : Inv cfg (sweepStep cfg st s).1 := by
  unfold sweepStep
  simp only []
  split
  · exact h
  · dsimp only
    apply Inv_upd _ _ _ _ h
    obtain ⟨v, hm, hv, hsw⟩ := hs.streams
    have hx := h s
    have hgood := runSweep_good cfg hs v hv (st.sess s).perms (st.sess s).pubs hx.nodup (streams_cases cfg v hm _ hx)
    rw [← hsw] at hgood
    have hsub := runSweep_sublist cfg (st.sess s).perms cfg.sweep (st.sess s).pubs
    refine ⟨nodup_sublist_map hx.nodup hsub, ?_, ?_, hx.incallRoom⟩
    · intro p hp; exact hx.streams p (hgood.1 p hp)
    · intro _ p hp; exact hgood.2 p hp

/-- The revocation goroutine establishes the permission clause whatever else is pending. -/
theorem sweepStep_settles (cfg : Cfg) (hs : Sound cfg) (st : St) (s : Nat) (h : Inv cfg st) (hp : (st.sess s).sweeps ≠ 0) :
    ∀ p ∈ ((sweepStep cfg st s).1.sess s).pubs,
      Permitted cfg ((sweepStep cfg st s).1.sess s).perms p.stream p.media = true := by
  unfold sweepStep
  simp only [hp, ↓reduceIte, upd_sess]
  obtain ⟨v, hm, hv, hsw⟩ := hs.streams
  have hx := h s
  have hgood := runSweep_good cfg hs v hv (st.sess s).perms (st.sess s).pubs hx.nodup (streams_cases cfg v hm _ hx)
  rw [← hsw] at hgood
  exact hgood.2

theorem incallStep_inv (cfg : Cfg) (st : St) (s r : Nat) (f : Bool) (h : Inv cfg st) : Inv cfg (incallStep cfg st s r f).1 := by
  unfold incallStep
  simp only []
  split
  · exact h
  · rename_i hc
    simp only [Bool.or_eq_true, not_or, Bool.not_eq_true, Option.isNone_eq_false_iff] at hc
    split
    · dsimp only
      apply Inv_upd _ _ _ _ h
      have hx := h s
      exact ⟨hx.nodup, hx.streams, hx.settled, fun _ => by simpa using hc.2⟩
    · dsimp only
      apply Inv_upd _ _ _ _ h
      exact SessOK.of_no_pubs _ _ rfl (by simp)

theorem incallAllStep_inv (cfg : Cfg) (st : St) (r : Nat) (f : Bool) (h : Inv cfg st) : Inv cfg (incallAllStep st r f).1 := by
  unfold incallAllStep
  split
  · intro i
    simp only []
    split
    · rename_i hc
      have hx := h i
      refine ⟨hx.nodup, hx.streams, hx.settled, fun _ => ?_⟩
      simp only [Bool.and_eq_true, beq_iff_eq] at hc
      simp [hc.1.2]
    · exact h i
  · intro i
    simp only []
    split
    · exact SessOK.of_no_pubs _ _ rfl (by simp)
    · exact h i

theorem closeStep_inv (cfg : Cfg) (st : St) (s : Nat) (h : Inv cfg st) : Inv cfg (closeStep st s).1 := by
  unfold closeStep
  split
  · exact h
  · have h1 := leaveRoom_inv cfg st s h
    generalize leaveRoom st s = res at h1
    obtain ⟨st1, ev⟩ := res
    dsimp only at h1 ⊢
    apply Inv_upd _ _ _ _ h1
    have hx := h1 s
    exact SessOK.of_no_pubs _ _ rfl hx.incallRoom

theorem findPub_none_not_mem (x : Sess) (T : String) (hf : findPub x T = none) : T ∉ x.pubs.map (·.stream) := by
  intro hmem
  simp only [List.mem_map] at hmem
  obtain ⟨p, hp, hT⟩ := hmem
  exact find_none_of_mem x.pubs T p hp hT hf

theorem offerStep_inv (cfg : Cfg) (hs : Sound cfg) (st : St) (s : Nat) (T : String) (ml : List MLine) (h : Inv cfg st) :
    Inv cfg (offerStep cfg st s T ml).1 := by
  unfold offerStep
  simp only []
  split
  · exact h
  · cases hc : checkOfferType cfg (st.sess s).perms T ml with
    | none => exact h
    | some m =>
      have hp := checkOfferType_permitted cfg hs _ _ _ _ hc
      have hx := h s
      simp only []
      cases hf : findPub (st.sess s) T with
      | some q =>
        simp only []
        apply Inv_upd _ _ _ _ h
        refine ⟨?_, ?_, ?_, hx.incallRoom⟩
        · have : ((st.sess s).pubs.map fun p => if p.stream == T then { p with media := m } else p).map (·.stream)
              = (st.sess s).pubs.map (·.stream) := by
            rw [List.map_map]
            apply List.map_congr_left
            intro p _
            simp only [Function.comp]
            split <;> rfl
          rw [this]; exact hx.nodup
        · intro p hp'
          simp only [List.mem_map] at hp'
          obtain ⟨p0, hp0, rfl⟩ := hp'
          have := hx.streams p0 hp0
          split <;> simpa using this
        · intro hz p hp'
          simp only [List.mem_map] at hp'
          obtain ⟨p0, hp0, rfl⟩ := hp'
          split
          · rename_i hT
            simp only [beq_iff_eq] at hT
            simpa [hT] using hp
          · exact hx.settled hz p0 hp0
      | none =>
        simp only []
        split
        · rename_i hmem
          dsimp only
          apply Inv_upd _ _ _ _ h
          refine ⟨?_, ?_, ?_, hx.incallRoom⟩
          · simp only [List.map_append, List.map_cons, List.map_nil]
            rw [List.nodup_append]
            refine ⟨hx.nodup, by simp, ?_⟩
            intro a ha b hb
            simp only [List.mem_singleton] at hb
            subst hb
            intro hab
            subst hab
            exact findPub_none_not_mem _ _ hf ha
          · intro p hp'
            simp only [List.mem_append, List.mem_singleton] at hp'
            rcases hp' with hp' | rfl
            · exact hx.streams p hp'
            · simpa using hmem
          · intro hz p hp'
            simp only [List.mem_append, List.mem_singleton] at hp'
            rcases hp' with hp' | rfl
            · exact hx.settled hz p hp'
            · exact hp
        · exact h

/-- a step that changes only the subscribers of sessions keeps the invariant -/
theorem getOrCreateSub_inv (cfg : Cfg) (st : St) (s src : Nat) (T : String) (h : Inv cfg st) :
    Inv cfg (getOrCreateSub cfg st s src T).1 := by
  unfold getOrCreateSub
  simp only []
  repeat' split
  · exact h
  · dsimp only
    apply Inv_upd _ _ _ _ h
    have hx := h s
    exact ⟨hx.nodup, hx.streams, hx.settled, hx.incallRoom⟩
  · exact h

theorem requestStep_inv (cfg : Cfg) (st : St) (s p : Nat) (T : String) (h : Inv cfg st) : Inv cfg (requestStep cfg st s p T).1 := by
  unfold requestStep
  simp only []
  repeat' split
  all_goals first
    | exact h
    | (have := getOrCreateSub_inv cfg st s p T h; simp_all)

theorem sendofferStep_inv (cfg : Cfg) (st : St) (s r : Nat) (T : String) (h : Inv cfg st) : Inv cfg (sendofferStep cfg st s r T).1 := by
  unfold sendofferStep
  simp only []
  repeat' split
  all_goals first
    | exact h
    | (have := getOrCreateSub_inv cfg st r s T h; simp_all)

theorem msgStep_state (cfg : Cfg) (st : St) (s r : Nat) (k : Kind) (T : String) : (msgStep cfg st s r k T).1 = st := by
  unfold msgStep
  simp only []
  repeat' split
  all_goals rfl

theorem controlStep_state (cfg : Cfg) (st : St) (s : Nat) (rc : Rcpt) : (controlStep cfg st s rc).1 = st := by
  unfold controlStep
  simp only []
  repeat' split
  all_goals rfl

theorem transientStep_sess (cfg : Cfg) (st : St) (s : Nat) (a : TAct) : (transientStep cfg st s a).1.sess = st.sess := by
  unfold transientStep
  simp only []
  repeat' split
  all_goals rfl

theorem step_inv (cfg : Cfg) (hs : Sound cfg) (st : St) (a : Act) (h : Inv cfg st) : Inv cfg (step cfg st a).1 := by
  cases a <;> simp only [step]
  case join s r p => exact joinRoom_inv cfg hs st s r p h
  case leave s => exact leaveRoom_inv cfg st s h
  case setPerms s p =>
    split
    · exact h
    · dsimp only
      apply Inv_upd _ _ _ _ h
      have hx := h s
      exact ⟨hx.nodup, hx.streams, by simp, hx.incallRoom⟩
  case sweep s => exact sweepStep_inv cfg hs st s h
  case incall s r f => exact incallStep_inv cfg st s r f h
  case incallAll r f => exact incallAllStep_inv cfg st r f h
  case close s => exact closeStep_inv cfg st s h
  case setAllowAny b => exact h
  case offer s T ml => exact offerStep_inv cfg hs st s T ml h
  case msg s r k T => rw [msgStep_state]; exact h
  case request s p T => exact requestStep_inv cfg st s p T h
  case sendoffer s r T => exact sendofferStep_inv cfg st s r T h
  case control s rc => rw [controlStep_state]; exact h
  case transient s a => intro i; rw [transientStep_sess]; exact h i

theorem init_inv (cfg : Cfg) (n : Nat) (ints : List Nat) : Inv cfg (St.init n ints) := by
  intro i
  simp only [St.init]
  split <;> exact SessOK.of_no_pubs _ _ rfl (by simp [Sess.fresh, Sess.absent])

theorem run_inv (cfg : Cfg) (hs : Sound cfg) (acts : List Act) : ∀ st, Inv cfg st → Inv cfg (run cfg st acts) := by
  induction acts with
  | nil => intro st h; exact h
  | cons a r ih => intro st h; exact ih _ (step_inv cfg hs st a h)

theorem reachable_inv (cfg : Cfg) (hs : Sound cfg) (st : St) (h : Reachable cfg st) : Inv cfg st := by
  obtain ⟨n, ints, acts, rfl⟩ := h
  exact run_inv cfg hs acts _ (init_inv cfg n ints)


/-! ### the permission set a session holds is the one its backend set last -/

/-- What the backend said last about the permissions of each session, read off the history alone:
the permissions of a join reply that carries some, and every permissions update. -/
def lastSetStep (f : Nat → Option (List String)) : Act → Nat → Option (List String)
  | .join s _ (some p) => fun i => if i = s then some p else f i
  | .setPerms s p => fun i => if i = s then some p else f i
  | _ => f

def lastSet (acts : List Act) : Nat → Option (List String) := acts.foldl lastSetStep (fun _ => none)

/-- `live` never comes back, and the permissions of a live session change exactly as the backend says. -/
theorem leaveRoom_frame (st : St) (s i : Nat) :
    ((leaveRoom st s).1.sess i).perms = (st.sess i).perms ∧ ((leaveRoom st s).1.sess i).live = (st.sess i).live := by
  unfold leaveRoom
  split
  · simp
  · simp only [dropStore_sess, upd_sess]
    split <;> simp [Sess.release]

theorem getOrCreateSub_frame (cfg : Cfg) (st : St) (s src : Nat) (T : String) (i : Nat) :
    ((getOrCreateSub cfg st s src T).1.sess i).perms = (st.sess i).perms ∧
    ((getOrCreateSub cfg st s src T).1.sess i).live = (st.sess i).live := by
  unfold getOrCreateSub
  simp only []
  repeat' split
  all_goals simp only [upd_sess, and_self]
  split <;> simp

theorem step_frame (cfg : Cfg) (st : St) (a : Act) (i : Nat) :
    (((step cfg st a).1.sess i).live = true → (st.sess i).live = true) ∧
    (((step cfg st a).1.sess i).live = true →
      ((step cfg st a).1.sess i).perms = lastSetStep (fun j => (st.sess j).perms) a i) := by
  cases a <;> simp only [step, lastSetStep]
  case join s r p =>
    unfold joinRoom
    split
    · rename_i hl
      cases p with
      | none => simp
      | some q =>
        simp only [imp_self, true_and]
        intro hi
        split
        · rename_i h; subst h; simp_all
        · rfl
    · have h2 := leaveRoom_frame st s
      generalize leaveRoom st s = res at h2
      obtain ⟨st1, ev⟩ := res
      simp only [] at h2 ⊢
      simp only [upd_sess]
      split
      · rename_i h; subst h
        cases p <;> simp [(h2 i).1, (h2 i).2]
      · cases p <;> simp_all
  case leave s => simp [(leaveRoom_frame st s i).1, (leaveRoom_frame st s i).2]
  case setPerms s p =>
    split
    · rename_i hl
      simp only [true_and, imp_self]
      intro hi
      split
      · rename_i h; subst h; simp_all
      · rfl
    · simp only [upd_sess]
      split <;> simp
  case sweep s =>
    unfold sweepStep
    simp only []
    split
    · simp
    · simp only [upd_sess]; split <;> simp
  case incall s r f =>
    unfold incallStep
    simp only []
    repeat' split
    all_goals simp only [upd_sess, imp_self, true_and, and_self, implies_true]
    all_goals (split <;> simp [Sess.release])
  case incallAll r f =>
    unfold incallAllStep
    split
    · simp only []; split <;> simp
    · simp only []; split <;> simp [Sess.release]
  case close s =>
    unfold closeStep
    split
    · simp
    · have h2 := leaveRoom_frame st s
      generalize leaveRoom st s = res at h2
      obtain ⟨st1, ev⟩ := res
      simp only [] at h2 ⊢
      simp only [upd_sess]
      split
      · simp
      · simp [(h2 i).1, (h2 i).2]
  case setAllowAny b => simp
  case offer s T ml =>
    unfold offerStep
    simp only []
    repeat' split
    all_goals simp only [upd_sess, imp_self, true_and, and_self, implies_true]
    all_goals (split <;> simp)
  case msg s r k T => rw [msgStep_state]; simp
  case request s p T =>
    unfold requestStep
    simp only []
    repeat' split
    all_goals first
      | (have := getOrCreateSub_frame cfg st s p T i; rw [this.1, this.2]; simp; done)
      | (simp; done)
  case sendoffer s r T =>
    unfold sendofferStep
    simp only []
    repeat' split
    all_goals first
      | (have := getOrCreateSub_frame cfg st r s T i; rw [this.1, this.2]; simp; done)
      | (simp; done)
  case control s rc => rw [controlStep_state]; simp
  case transient s a => rw [transientStep_sess]; simp

theorem run_perms (cfg : Cfg) (acts : List Act) :
    ∀ (st : St) (f : Nat → Option (List String)),
      (∀ i, (st.sess i).live = true → (st.sess i).perms = f i) →
      ∀ i, ((run cfg st acts).sess i).live = true → ((run cfg st acts).sess i).perms = acts.foldl lastSetStep f i := by
  induction acts with
  | nil => intro st f h; exact h
  | cons a r ih =>
    intro st f h
    simp only [run, List.foldl_cons]
    apply ih
    intro i hi
    have hf := step_frame cfg st a i
    rw [hf.2 hi]
    -- `lastSetStep` only looks at the entry of a live session or overwrites it
    cases a <;> simp only [lastSetStep]
    case join s r p =>
      cases p <;> simp only []
      · exact h i (hf.1 hi)
      · split
        · rfl
        · exact h i (hf.1 hi)
    case setPerms s p =>
      split
      · rfl
      · exact h i (hf.1 hi)
    all_goals exact h i (hf.1 hi)

/-- For every history: the permission set a live session holds is what its backend set last. -/
theorem perms_last_set (cfg : Cfg) (n : Nat) (ints : List Nat) (acts : List Act) (i : Nat)
    (hl : ((run cfg (St.init n ints) acts).sess i).live = true) :
    ((run cfg (St.init n ints) acts).sess i).perms = lastSet acts i := by
  apply run_perms cfg acts (St.init n ints) (fun _ => none) _ i hl
  intro j _
  simp only [St.init]
  split <;> rfl

end SigModel.Perm
