import SigModel.Spec.Auth

namespace SigModel.Auth
open SigModel.Generated.Auth
open SigModel.Proto (hasPrefix)

/-! ### the generated facts the proofs rest on -/

theorem fact_dot : lookupRejectsDotSegments = true := by decide
theorem fact_v1 : HelloVersionV1 = "1.0" := by decide
theorem fact_v2 : HelloVersionV2 = "2.0" := by decide
theorem fact_client : HelloClientTypeClient = "client" := by decide
theorem fact_federation : HelloClientTypeFederation = "federation" := by decide
theorem fact_internal : HelloClientTypeInternal = "internal" := by decide
theorem fact_minRandom : minTokenRandomLength = stmtMinRandom := by decide
theorem fact_leeway : (tokenLeeway : Int) = stmtLeeway := by decide
theorem fact_libLeeway : libLeeway = stmtLeeway := by decide
theorem fact_withIat : jwtWithIssuedAt = true := by decide
theorem fact_preAuth : preAuthOnlyType = "hello" := by decide

/-- the algorithms the hub lets through (allow-list ∧ key-loader switch) are public-key algorithms
of the three families of the statement -/
theorem fact_algs (a : String) (h1 : validMethods.contains a = true) : a ∈ stmtAlgs := by
  have : validMethods = stmtAlgs := by decide
  rw [this] at h1
  simpa using h1

theorem errCode_ne_empty_helper : errCode "HelloExpected" = "hello_expected" := by decide

/-! ### lists -/

theorem lookup_some_mem {β : Type} (k : String) (l : List (String × β)) (v : β)
    (h : l.lookup k = some v) : (k, v) ∈ l := by
  induction l with
  | nil => simp [List.lookup] at h
  | cons p ps ih =>
    obtain ⟨k', v'⟩ := p
    by_cases hk : k = k'
    · subst hk
      simp [List.lookup] at h
      subst h
      exact List.mem_cons_self
    · have : (k == k') = false := by simpa using hk
      simp [List.lookup, this] at h
      exact List.mem_cons_of_mem _ (ih h)

theorem mem_lookup_isSome {β : Type} (k : String) (l : List (String × β)) (v : β)
    (h : (k, v) ∈ l) : (l.lookup k).isSome = true := by
  induction l with
  | nil => simp at h
  | cons p ps ih =>
    obtain ⟨k', v'⟩ := p
    by_cases hk : k = k'
    · subst hk; simp [List.lookup]
    · have hb : (k == k') = false := by simpa using hk
      simp [List.lookup, hb]
      have : (k, v) ∈ ps := by
        rcases List.mem_cons.mp h with h' | h'
        · exact absurd (Prod.mk.inj h').1 hk
        · exact h'
      simpa using ih this

/-! ### backend lookup -/

theorem getBackend_nodot {cfg : Cfg} {u : Url} {b : Backend} (h : getBackend cfg u = some b) :
    u.dotSeg = false := by
  unfold getBackend getBackendWith at h
  rw [fact_dot] at h
  cases hd : u.dotSeg with
  | false => rfl
  | true => simp [hd] at h

theorem getBackend_names {cfg : Cfg} {u : Url} {b : Backend} (hok : u.ok = true)
    (h : getBackend cfg u = some b) : Names cfg u b := by
  have hd := getBackend_nodot h
  unfold getBackend getBackendWith at h
  simp only [hd, Bool.and_false, Bool.false_eq_true, if_false] at h
  refine ⟨hok, ?_⟩
  cases hl : cfg.hosts.lookup u.norm.1 with
  | none =>
    simp only [hl] at h
    exact Or.inr h
  | some entries =>
    simp only [hl] at h
    left
    have hmem := List.mem_of_find?_eq_some h
    have hp := List.find?_some h
    unfold entryMatches at hp
    simp only [Bool.and_eq_true, Bool.or_eq_true, decide_eq_true_eq] at hp
    exact ⟨entries, lookup_some_mem _ _ _ hl, hmem, hp.1, hp.2⟩

/-- a URL no configured backend names is looked up in vain -/
theorem getBackend_none_of_not_configured {cfg : Cfg} {u : Url} (hok : u.ok = true)
    (h : ¬ Configured cfg u) : getBackend cfg u = none := by
  cases hg : getBackend cfg u with
  | none => rfl
  | some b => exact absurd ⟨b, getBackend_names hok hg⟩ h

/-! ### token checks -/

theorem jwtValidate_nil {now : Int} {t : Tok} (h : jwtValidate now t = []) :
    (∀ e, t.exp = some e → now < e + stmtLeeway) ∧
    (∀ n, t.nbf = some n → n - stmtLeeway ≤ now) ∧
    (∀ i, t.iat = some i → i - stmtLeeway ≤ now) := by
  unfold jwtValidate at h
  rw [fact_libLeeway, fact_withIat] at h
  simp only [List.append_eq_nil_iff] at h
  obtain ⟨⟨h1, h2⟩, h3⟩ := h
  refine ⟨?_, ?_, ?_⟩
  · intro e he
    rw [he] at h1
    by_cases hc : now < e + stmtLeeway
    · exact hc
    · simp [Option.any, hc] at h1
  · intro n hn
    rw [hn] at h2
    by_cases hc : now < n - stmtLeeway
    · simp [Option.any, hc] at h2
    · omega
  · intro i hi
    rw [hi] at h3
    by_cases hc : now < i - stmtLeeway
    · simp [Option.any, hc] at h3
    · omega

theorem hubTimeCheck_none {now : Int} {t : Tok} (h : hubTimeCheck now t = none) :
    ∃ i e, t.iat = some i ∧ t.exp = some e ∧ i ≤ e ∧ now - stmtLeeway ≤ e := by
  unfold hubTimeCheck at h
  rw [fact_leeway] at h
  cases hi : t.iat with
  | none => simp [hi] at h
  | some i =>
    cases he : t.exp with
    | none => simp [hi, he] at h
    | some e =>
      simp only [hi, he, Option.isNone_some, Bool.false_eq_true, if_false] at h
      by_cases h1 : e < i
      · simp [h1] at h
      · by_cases h2 : e < now - stmtLeeway
        · simp [h1, h2] at h
        · exact ⟨i, e, rfl, rfl, by omega, by omega⟩

/-- what a successful `jwt.ParseWithClaims` guarantees -/
theorem jwtParse_none {env : Env} {srv : String} {now : Int} {t : Tok} (h : jwtParse env srv now t = none) :
    (∃ a, t.alg = some a ∧ a ∈ stmtAlgs) ∧
    (∃ tn, env.tenant srv = some tn ∧ tn.key.isSome = true) ∧
    t.verifies srv = true ∧ jwtValidate now t = [] := by
  unfold jwtParse at h
  cases hw : t.wellFormed with
  | false => simp [hw] at h
  | true =>
  simp only [hw, Bool.not_true, Bool.false_eq_true, if_false] at h
  cases ha : t.alg with
  | none => simp [ha] at h
  | some a =>
  simp only [ha] at h
  cases h1 : (jwtMethodType a).isNone with
  | true => simp [h1] at h
  | false =>
  simp only [h1, Bool.false_eq_true, if_false] at h
  cases h2 : validMethods.contains a with
  | false => simp only [h2, Bool.not_false, if_true] at h; exact absurd h (by simp)
  | true =>
  simp only [h2, Bool.not_true, Bool.false_eq_true, if_false] at h
  cases h3 : t.sigDecodes with
  | false => simp only [h3, Bool.not_false, if_true] at h; exact absurd h (by simp)
  | true =>
  simp only [h3, Bool.not_true, Bool.false_eq_true, if_false] at h
  cases hk : keyFamilyFor a with
  | none => simp [hk] at h
  | some kf =>
  simp only [hk] at h
  by_cases h4 : ((env.tenant srv).bind (·.key)) = some kf
  · simp only [h4, ne_eq, not_true_eq_false, if_false] at h
    cases h5 : t.verifies srv with
    | false => simp only [h5, Bool.not_false, if_true] at h; exact absurd h (by simp)
    | true =>
    simp only [h5, Bool.not_true, Bool.false_eq_true, if_false] at h
    cases hv : jwtValidate now t with
    | cons x xs => simp [hv] at h
    | nil =>
      refine ⟨⟨a, rfl, fact_algs a h2⟩, ?_, rfl, rfl⟩
      cases ht : env.tenant srv with
      | none => simp [ht] at h4
      | some tn =>
        refine ⟨tn, rfl, ?_⟩
        simp [ht] at h4
        simp [h4]
  · simp only [ne_eq, h4, not_false_eq_true, if_true] at h
    exact absurd h (by simp)

theorem timeValid_of_checks {now : Int} {t : Tok} (h1 : jwtValidate now t = []) (h2 : hubTimeCheck now t = none) :
    TimeValid now t := by
  obtain ⟨hexp, hnbf, hiat⟩ := jwtValidate_nil h1
  obtain ⟨i, e, hi, he, _, _⟩ := hubTimeCheck_none h2
  refine ⟨⟨i, hi, ?_⟩, ⟨e, he, ?_⟩, ?_⟩
  · have := hiat i hi; omega
  · have := hexp e he; omega
  · intro n hn; have := hnbf n hn; omega

/-! ### registration -/

theorem register_hello {h : Hub} {c : Nat} {b : Backend} {kind user : String} {sid : Nat} {bid k u : String}
    (hr : (register h c b kind user).2 = .hello sid bid k u) :
    sid = h.nextSid ∧ bid = b.id ∧ k = kind ∧ u = user := by
  unfold register at hr
  split at hr
  · simp at hr
  · simp at hr
    obtain ⟨h1, h2, h3, h4⟩ := hr
    exact ⟨h1.symm, h2.symm, h3.symm, h4.symm⟩

theorem effType_clientish {m : Hello}
    (h : effType m = HelloClientTypeClient ∨ effType m = HelloClientTypeFederation) : clientish m := by
  unfold effType at h
  unfold clientish
  by_cases he : m.authType = ""
  · exact Or.inl he
  · simp only [he, if_false] at h
    rcases h with h | h
    · exact Or.inr (Or.inl (by rw [h, fact_client]))
    · exact Or.inr (Or.inr (by rw [h, fact_federation]))

theorem effType_internal {m : Hello} (h : effType m = HelloClientTypeInternal) : m.authType = "internal" := by
  unfold effType at h
  by_cases he : m.authType = ""
  · simp only [he, if_true] at h
    rw [fact_client, fact_internal] at h
    exact absurd h (by decide)
  · simp only [he, if_false] at h
    rw [h, fact_internal]

end SigModel.Auth
