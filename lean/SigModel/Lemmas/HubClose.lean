/-
Hub lemmas, part 4: closing sessions preserves the invariant and leaves no residue.
-/
import SigModel.Lemmas.HubLeave

namespace SigModel.Hub

/-- What `leaveRoom` does to the session records, core fields only. -/
theorem leaveRoom_sess (a : Acc) (s : Nat) {orph : List Nat} (hi : InvX orph a.h) (t : Nat) :
    (a.h.sess t = none ∧ (leaveRoom a s).1.h.sess t = none) ∨
    ∃ x x', a.h.sess t = some x ∧ (leaveRoom a s).1.h.sess t = some x' ∧
      x'.backend = x.backend ∧ x'.kind = x.kind ∧ x'.user = x.user ∧ x'.conn = x.conn ∧
      x'.parent = x.parent ∧ x'.vkey = x.vkey ∧ x'.children = x.children ∧
      (if t = s then x'.room = none else x'.room = x.room) := by
  have base : ∀ (h' : Hub), CoreEq a.h h' →
      (a.h.sess t = none ∧ h'.sess t = none) ∨
      ∃ x x', a.h.sess t = some x ∧ h'.sess t = some x' ∧
        x'.backend = x.backend ∧ x'.kind = x.kind ∧ x'.user = x.user ∧ x'.conn = x.conn ∧
        x'.parent = x.parent ∧ x'.vkey = x.vkey ∧ x'.children = x.children ∧
        x'.room = x.room := by
    intro h' e; have := e.sess_fields t; grind
  cases hx : a.h.sess s with
  | none =>
    have e : (leaveRoom a s).1.h = a.h := by unfold leaveRoom; simp only [hx]
    rw [e]; have := base a.h (CoreEq.refl _); grind
  | some x =>
    cases hr : x.room with
    | none =>
      have e : (leaveRoom a s).1.h = a.h := by unfold leaveRoom; simp only [hx, hr]
      rw [e]; have := base a.h (CoreEq.refl _); grind
    | some r =>
      obtain ⟨rm, hrm, hmem⟩ := hi.room_mem s x r hx hr
      have e := (leaveRoom_core a s hx hr hrm hmem).sess_fields t
      have hs : (leaveStruct a.h s x r rm).sess t =
          if t = s then some { x with room := none, roomSess := "", seenJoin := [] } else a.h.sess t := by
        unfold leaveStruct
        by_cases hk : x.kind = .virtual <;> by_cases he : removeL rm.members s = [] <;>
          simp only [hk, he, if_true, if_false, hubf]
      by_cases hts : t = s
      · subst hts; simp only [if_true] at hs ⊢; grind
      · simp only [hts, if_false] at hs ⊢; grind

theorem InvX.mono {orph : List Nat} {h : Hub} (hi : InvX orph h) (v : Nat)
    (hv : ∀ y, h.sess v = some y → y.kind = .virtual) : InvX (v :: orph) h := by
  obtain ⟨f1, f2, f3, f4, f5, f6, f7, f8, f9, f10, f11, f12, f13, f14, f15, f16, f17, f18, f19, f20, f21, f22, f23⟩ := hi
  constructor
  all_goals first | assumption | skip
  · intro w x hx hk; have := f14 w x hx hk; grind
  · intro w hw y hy; simp at hw; grind

theorem facts_vtable : Generated.Hub.vtableClearedOnClose = true := by decide


/-- Shrinking the orphan list by a session that is gone. -/
theorem InvX.shrink_dead {orph : List Nat} {h : Hub} (hi : InvX orph h) (v : Nat) (hv : h.sess v = none) :
    InvX (removeL orph v) h := by
  obtain ⟨f1, f2, f3, f4, f5, f6, f7, f8, f9, f10, f11, f12, f13, f14, f15, f16, f17, f18, f19, f20, f21, f22, f23⟩ := hi
  constructor
  all_goals first | assumption | skip
  · intro w x hx hk; have := f14 w x hx hk; grind [mem_removeL]
  · intro w hw y hy; have := f23 w; grind [mem_removeL]

/-- First step of closing virtual session `v`: its parent forgets it. -/
theorem dropChild_inv {orph : List Nat} {h : Hub} (hi : InvX orph h) {v : Nat} {x : Sess}
    (hx : h.sess v = some x) (hk : x.kind = .virtual) :
    InvX (v :: orph) (modSess h x.parent (fun p => { p with children := removeL p.children v })) := by
  have hm := hi.mono v (by intro y hy; rw [hx] at hy; cases hy; exact hk)
  unfold modSess
  cases hp : h.sess x.parent with
  | none => exact hm
  | some p =>
    simp only []
    obtain ⟨f1, f2, f3, f4, f5, f6, f7, f8, f9, f10, f11, f12, f13, f14, f15, f16, f17, f18, f19, f20, f21, f22, f23⟩ := hm
    have hne : x.parent ≠ v := (f14 v x hx hk).2.2.1
    constructor
    all_goals (intros; simp only [hubf] at *; grind [mem_removeL, removeL_nil])

/-- Last step of closing a virtual session that has left its room and that nobody lists as child. -/
theorem dropVirtual_inv {orph : List Nat} {h : Hub} {v : Nat} (hi : InvX (v :: orph) h) {x y : Sess}
    (hy : h.sess v = some y) (hk : y.kind = .virtual) (hr : y.room = none)
    (hpar : y.parent = x.parent) (hvk : y.vkey = x.vkey)
    (hc : ∀ p z, h.sess p = some z → v ∉ z.children) :
    InvX (removeL orph v) (dropVirtual h v x) := by
  unfold dropVirtual
  simp only [facts_vtable, if_true]
  obtain ⟨f1, f2, f3, f4, f5, f6, f7, f8, f9, f10, f11, f12, f13, f14, f15, f16, f17, f18, f19, f20, f21, f22, f23⟩ := hi
  constructor
  all_goals (intros; simp only [hubf] at *; grind [mem_removeL])

end SigModel.Hub

namespace SigModel.Hub

theorem closeVirtual_inv {orph : List Nat} (a : Acc) (v : Nat) (hi : InvX orph a.h)
    (hk : ∀ x, a.h.sess v = some x → x.kind = .virtual) :
    InvX (removeL orph v) (closeVirtual a v).h := by
  unfold closeVirtual
  cases hx : a.h.sess v with
  | none => exact hi.shrink_dead v hx
  | some x =>
    simp only []
    have hkx := hk x hx
    have h1 := dropChild_inv hi hx hkx
    -- the accumulator whose hub is the state after the parent forgot `v`
    generalize hp : modSess a.h x.parent (fun p => { p with children := removeL p.children v }) = hub1 at h1
    have hv1 : ∃ x1, hub1.sess v = some x1 ∧ x1.kind = .virtual ∧ x1.parent = x.parent ∧ x1.vkey = x.vkey := by
      rw [← hp]; unfold modSess
      have hne := (hi.virt v x hx hkx).2.2.1
      cases hpar : a.h.sess x.parent with
      | none => exact ⟨x, hx, hkx, rfl, rfl⟩
      | some p =>
        simp only [hubf]
        have : ¬ v = x.parent := fun e => hne e.symm
        simp only [this, if_false]
        exact ⟨x, hx, hkx, rfl, rfl⟩
    have hc1 : ∀ p z, hub1.sess p = some z → v ∉ z.children := by
      rw [← hp]; unfold modSess
      intro p z hz
      have hch := hi.children
      have hvirt := hi.virt v x hx hkx
      cases hpar : a.h.sess x.parent with
      | none =>
        simp only [hpar] at hz
        intro hmem
        obtain ⟨vx, h1', _, h3'⟩ := hch p z v hz hmem
        rw [hx] at h1'; cases h1'
        rw [h3', hz] at hpar; cases hpar
      | some pp =>
        simp only [hpar, hubf] at hz
        by_cases hpe : p = x.parent
        · simp only [hpe, if_true] at hz; cases hz
          simp [mem_removeL]
        · simp only [hpe, if_false] at hz
          intro hmem
          obtain ⟨vx, h1', _, h3'⟩ := hch p z v hz hmem
          rw [hx] at h1'; cases h1'
          exact hpe h3'.symm
    have h2 := leaveRoom_inv { a with h := hub1 } v h1
    have hs := leaveRoom_sess { a with h := hub1 } v h1
    obtain ⟨x1, hx1, hk1, hp1, hvk1⟩ := hv1
    have hsv := hs v
    simp only [hx1] at hsv
    rcases hsv with ⟨h0, _⟩ | ⟨y, y', hy, hy', e1, e2, e3, e4, e5, e6, e7, e8⟩
    · cases h0
    · cases hy
      simp only [if_true] at e8
      refine dropVirtual_inv h2 hy' (by rw [e2]; exact hk1) e8 (by rw [e5]; exact hp1) (by rw [e6]; exact hvk1) ?_
      intro p z hz
      have := hs p
      have := hc1 p
      grind

end SigModel.Hub

namespace SigModel.Hub

set_option maxHeartbeats 2000000 in
/-- Dropping a client/internal session that has left its room: its virtual sessions become orphans. -/
theorem dropClient_inv {h : Hub} (hi : Inv h) {s : Nat} {x : Sess} (hx : h.sess s = some x)
    (hk : x.kind ≠ .virtual) (hr : x.room = none) : InvX x.children (dropClient h s x) := by
  unfold dropClient
  obtain ⟨f1, f2, f3, f4, f5, f6, f7, f8, f9, f10, f11, f12, f13, f14, f15, f16, f17, f18, f19, f20, f21, f22, f23⟩ := hi
  have hch : ∀ v, v ∈ x.children → ∃ vx, h.sess v = some vx ∧ vx.kind = .virtual ∧ vx.parent = s :=
    fun v hv => f15 s x v hx hv
  have hcu : ∀ c s1 s2 x1 x2, h.sess s1 = some x1 → x1.conn = some c → h.sess s2 = some x2 → x2.conn = some c → s1 = s2 := by
    intro c s1 s2 x1 x2 h1 h2 h3 h4
    have a1 := (f17 c s1).mpr ⟨x1, h1, h2⟩
    have a2 := (f17 c s2).mpr ⟨x2, h3, h4⟩
    rw [a1] at a2; cases a2; rfl
  by_cases hu : x.user = "" <;> cases hc : x.conn <;>
    simp only [hu, ne_eq, not_true_eq_false, not_false_eq_true, if_true, if_false] <;> constructor
  all_goals (intros; simp only [hubf] at *; grind [mem_removeL, nodup_removeL])

end SigModel.Hub

namespace SigModel.Hub

theorem mem_foldl_removeL (l : List Nat) : ∀ (o : List Nat) (t : Nat), t ∈ l.foldl removeL o ↔ t ∈ o ∧ t ∉ l := by
  induction l with
  | nil => intro o t; simp
  | cons v l ih =>
    intro o t
    simp only [List.foldl_cons, ih, mem_removeL, List.mem_cons]
    constructor
    · rintro ⟨⟨h1, h2⟩, h3⟩; exact ⟨h1, fun h => h.elim h2 h3⟩
    · rintro ⟨h1, h2⟩; exact ⟨⟨h1, fun e => h2 (Or.inl e)⟩, fun e => h2 (Or.inr e)⟩

theorem foldl_removeL_self (l : List Nat) : l.foldl removeL l = [] := by
  apply List.eq_nil_iff_forall_not_mem.mpr
  intro t ht
  have := (mem_foldl_removeL l l t).mp ht
  exact this.2 this.1

/-- Closing a virtual session never changes the kind of any other session. -/
theorem closeVirtual_kind {orph : List Nat} (a : Acc) (v : Nat) (hi : InvX orph a.h)
    (hk : ∀ x, a.h.sess v = some x → x.kind = .virtual) (t : Nat) :
    ∀ x', (closeVirtual a v).h.sess t = some x' → ∃ x, a.h.sess t = some x ∧ x'.kind = x.kind := by
  unfold closeVirtual
  cases hx : a.h.sess v with
  | none => intro x' h; exact ⟨x', h, rfl⟩
  | some x =>
    simp only []
    have h1 := dropChild_inv hi hx (hk x hx)
    generalize hp : modSess a.h x.parent (fun p => { p with children := removeL p.children v }) = hub1 at h1
    have hm : ∀ y', hub1.sess t = some y' → ∃ y, a.h.sess t = some y ∧ y'.kind = y.kind := by
      rw [← hp]; unfold modSess
      cases hpar : a.h.sess x.parent with
      | none => intro y' h; exact ⟨y', h, rfl⟩
      | some p =>
        simp only [hubf]
        intro y' h
        by_cases e : t = x.parent
        · simp only [e, if_true] at h; cases h; rw [e]; exact ⟨p, hpar, rfl⟩
        · simp only [e, if_false] at h; exact ⟨y', h, rfl⟩
    have hs := leaveRoom_sess { a with h := hub1 } v h1 t
    intro x' hx'
    unfold dropVirtual at hx'
    simp only [facts_vtable, if_true, hubf] at hx'
    by_cases e : t = v
    · simp [e] at hx'
    · simp only [e, if_false] at hx'
      grind

theorem foldl_closeVirtual_inv : ∀ (l : List Nat) (orph : List Nat) (a : Acc), InvX orph a.h →
    (∀ v, v ∈ l → ∀ x, a.h.sess v = some x → x.kind = .virtual) →
    InvX (l.foldl removeL orph) (l.foldl closeVirtual a).h := by
  intro l
  induction l with
  | nil => intro orph a hi _; exact hi
  | cons v l ih =>
    intro orph a hi hk
    simp only [List.foldl_cons]
    have hkv := hk v (List.mem_cons_self)
    apply ih _ _ (closeVirtual_inv a v hi hkv)
    intro w hw x' hx'
    obtain ⟨x, hx, e⟩ := closeVirtual_kind a v hi hkv w x' hx'
    rw [e]; exact hk w (List.mem_cons_of_mem _ hw) x hx

theorem closeClient_inv (a : Acc) (s : Nat) (hi : Inv a.h)
    (hk : ∀ x, a.h.sess s = some x → x.kind ≠ .virtual) : Inv (closeClient a s).h := by
  unfold closeClient
  cases hx : a.h.sess s with
  | none => exact hi
  | some x0 =>
    simp only []
    have h1 := leaveRoom_inv a s hi
    have hs := leaveRoom_sess a s hi s
    simp only [hx, if_true] at hs
    rcases hs with ⟨h0, _⟩ | ⟨y, x, hy, hx1, e1, e2, e3, e4, e5, e6, e7, e8⟩
    · cases h0
    · cases hy
      simp only [hx1]
      have hd := dropClient_inv h1 hx1 (by rw [e2]; exact hk _ hx) e8
      have hf := foldl_closeVirtual_inv x.children x.children { (leaveRoom a s).1 with h := dropClient (leaveRoom a s).1.h s x } hd
        (by intro v hv y hy; exact hd.orph_virt v hv y hy)
      rw [foldl_removeL_self] at hf
      exact hf

theorem closeSession_inv (a : Acc) (s : Nat) (hi : Inv a.h) : Inv (closeSession a s).h := by
  unfold closeSession
  cases hx : a.h.sess s with
  | none => exact hi
  | some x =>
    simp only []
    by_cases hk : x.kind = .virtual
    · simp only [hk, if_true]
      have := closeVirtual_inv a s hi (by intro y hy; rw [hx] at hy; cases hy; exact hk)
      simpa using this
    · simp only [hk, if_false]
      exact closeClient_inv a s hi (by intro y hy; rw [hx] at hy; cases hy; exact hk)

theorem closeConn_inv {h : Hub} (hi : Inv h) (c : Nat) (hc : ∀ s x, h.sess s = some x → x.conn ≠ some c) :
    Inv (closeConn h c) := by
  obtain ⟨f1, f2, f3, f4, f5, f6, f7, f8, f9, f10, f11, f12, f13, f14, f15, f16, f17, f18, f19, f20, f21, f22, f23⟩ := hi
  constructor
  all_goals (intros; simp only [hubf] at *; grind [mem_removeL])

end SigModel.Hub
