/-
Hub lemmas, part 4: closing sessions preserves the invariant and leaves no residue.
-/
import SigModel.Lemmas.HubLeave

namespace SigModel.Hub

/-- What `leaveRoom` does to the session records, core fields only. -/
theorem leaveRoom_sess (a : Acc) (s : Nat) {orph : List Nat} (hi : InvX orph a.h) (t : Nat) :
    (a.h.sess t = none ∧ (leaveRoom a s).1.h.sess t = none) ∨
    ∃ x x', a.h.sess t = some x ∧ (leaveRoom a s).1.h.sess t = some x' ∧
      x'.backend = x.backend ∧ x'.kind = x.kind ∧ x'.user = x.user ∧ x'.conn = x.conn ∧
      x'.parent = x.parent ∧ x'.vkey = x.vkey ∧ x'.children = x.children ∧
      (if t = s then x'.room = none else x'.room = x.room) := by
  have base : ∀ (h' : Hub), CoreEq a.h h' →
      (a.h.sess t = none ∧ h'.sess t = none) ∨
      ∃ x x', a.h.sess t = some x ∧ h'.sess t = some x' ∧
        x'.backend = x.backend ∧ x'.kind = x.kind ∧ x'.user = x.user ∧ x'.conn = x.conn ∧
        x'.parent = x.parent ∧ x'.vkey = x.vkey ∧ x'.children = x.children ∧
        x'.room = x.room := by
    intro h' e; have := e.sess_fields t; grind
  cases hx : a.h.sess s with
  | none =>
    have e : (leaveRoom a s).1.h = a.h := by unfold leaveRoom; simp only [hx]
    rw [e]; have := base a.h (CoreEq.refl _); grind
  | some x =>
    cases hr : x.room with
    | none =>
      have e : (leaveRoom a s).1.h = a.h := by unfold leaveRoom; simp only [hx, hr]
      rw [e]; have := base a.h (CoreEq.refl _); grind
    | some r =>
      obtain ⟨rm, hrm, hmem⟩ := hi.room_mem' s x r hx hr
      have e := (leaveRoom_core a s hx hr hrm hmem).sess_fields t
      have hs : (leaveStruct a.h s x r rm).sess t =
          if t = s then some { x with room := none, roomSess := "", seenJoin := [] } else a.h.sess t := by
        unfold leaveStruct
        by_cases hk : x.kind = .virtual <;> by_cases he : removeL rm.members s = [] <;>
          simp only [hk, he, if_true, if_false, hubf]
      by_cases hts : t = s
      · subst hts; simp only [if_true] at hs ⊢; grind
      · simp only [hts, if_false] at hs ⊢; grind

theorem InvG.mono {orph : List Nat} {h : Hub} (hi : InvX orph h) (v : Nat)
    (hv : ∀ y, h.sess v = some y → y.kind = .virtual) : InvX (v :: orph) h := by
  obtain ⟨f1, f2, f3, f4, f5, f6, f7, f8, f9, f10, f11, f12, f13, f14, f15, f16, f17, f18, f19, f20, f21, f22, f23, f24, f25⟩ := hi
  constructor
  all_goals first | assumption | skip
  · intro w x hx hk; have := f13 w x hx hk; grind
  · intro w hw y hy; simp at hw; grind

theorem facts_vtable : Generated.Hub.vtableClearedOnClose = true := by decide


/-- Shrinking the orphan list by a session that is gone. -/
theorem InvG.shrink_dead {orph : List Nat} {h : Hub} (hi : InvX orph h) (v : Nat) (hv : h.sess v = none) :
    InvX (removeL orph v) h := by
  obtain ⟨f1, f2, f3, f4, f5, f6, f7, f8, f9, f10, f11, f12, f13, f14, f15, f16, f17, f18, f19, f20, f21, f22, f23, f24, f25⟩ := hi
  constructor
  all_goals first | assumption | skip
  · intro w x hx hk; have := f13 w x hx hk; grind [mem_removeL]
  · intro w hw y hy; have := f23 w; grind [mem_removeL]

/-- First step of closing virtual session `v`: its parent forgets it. -/
theorem dropChild_inv {orph : List Nat} {h : Hub} (hi : InvX orph h) {v : Nat} {x : Sess}
    (hx : h.sess v = some x) (hk : x.kind = .virtual) :
    InvX (v :: orph) (modSess h x.parent (fun p => { p with children := removeL p.children v })) := by
  have hm := hi.mono v (by intro y hy; rw [hx] at hy; cases hy; exact hk)
  unfold modSess
  cases hp : h.sess x.parent with
  | none => exact hm
  | some p =>
    simp only []
    obtain ⟨f1, f2, f3, f4, f5, f6, f7, f8, f9, f10, f11, f12, f13, f14, f15, f16, f17, f18, f19, f20, f21, f22, f23, f24, f25⟩ := hm
    have hne : x.parent ≠ v := (f13 v x hx hk).2.2.1
    constructor
    all_goals (intros; simp only [hubf] at *; grind [mem_removeL, removeL_nil, length_removeL_le])

/-- Last step of closing a virtual session that has left its room and that nobody lists as child. -/
theorem dropVirtual_inv {orph : List Nat} {h : Hub} {v : Nat} (hi : InvX (v :: orph) h) {x y : Sess}
    (hy : h.sess v = some y) (hk : y.kind = .virtual) (hr : y.room = none)
    (hpar : y.parent = x.parent) (hvk : y.vkey = x.vkey)
    (hc : ∀ p z, h.sess p = some z → v ∉ z.children) :
    InvX (removeL orph v) (dropVirtual h v x) := by
  unfold dropVirtual
  simp only [facts_vtable, if_true]
  obtain ⟨f1, f2, f3, f4, f5, f6, f7, f8, f9, f10, f11, f12, f13, f14, f15, f16, f17, f18, f19, f20, f21, f22, f23, f24, f25⟩ := hi
  constructor
  all_goals (intros; simp only [hubf] at *; grind [mem_removeL, length_removeL_le])

end SigModel.Hub

namespace SigModel.Hub

theorem closeVirtual_inv {orph : List Nat} (a : Acc) (v : Nat) (hi : InvX orph a.h)
    (hk : ∀ x, a.h.sess v = some x → x.kind = .virtual) :
    InvX (removeL orph v) (closeVirtual a v).h := by
  unfold closeVirtual
  cases hx : a.h.sess v with
  | none => exact hi.shrink_dead v hx
  | some x =>
    simp only []
    have hkx := hk x hx
    have h1 := dropChild_inv hi hx hkx
    -- the accumulator whose hub is the state after the parent forgot `v`
    generalize hp : modSess a.h x.parent (fun p => { p with children := removeL p.children v }) = hub1 at h1
    have hv1 : ∃ x1, hub1.sess v = some x1 ∧ x1.kind = .virtual ∧ x1.parent = x.parent ∧ x1.vkey = x.vkey := by
      rw [← hp]; unfold modSess
      have hne := (hi.virt v x hx hkx).2.2.1
      cases hpar : a.h.sess x.parent with
      | none => exact ⟨x, hx, hkx, rfl, rfl⟩
      | some p =>
        simp only [hubf]
        have : ¬ v = x.parent := fun e => hne e.symm
        simp only [this, if_false]
        exact ⟨x, hx, hkx, rfl, rfl⟩
    have hc1 : ∀ p z, hub1.sess p = some z → v ∉ z.children := by
      rw [← hp]; unfold modSess
      intro p z hz
      have hch := hi.children
      have hvirt := hi.virt v x hx hkx
      cases hpar : a.h.sess x.parent with
      | none =>
        simp only [hpar] at hz
        intro hmem
        obtain ⟨vx, h1', _, h3'⟩ := hch p z v hz hmem
        rw [hx] at h1'; cases h1'
        rw [h3', hz] at hpar; cases hpar
      | some pp =>
        simp only [hpar, hubf] at hz
        by_cases hpe : p = x.parent
        · simp only [hpe, if_true] at hz; cases hz
          simp [mem_removeL]
        · simp only [hpe, if_false] at hz
          intro hmem
          obtain ⟨vx, h1', _, h3'⟩ := hch p z v hz hmem
          rw [hx] at h1'; cases h1'
          exact hpe h3'.symm
    have h2 := leaveRoom_inv { a with h := hub1 } v h1
    have hs := leaveRoom_sess { a with h := hub1 } v h1
    obtain ⟨x1, hx1, hk1, hp1, hvk1⟩ := hv1
    have hsv := hs v
    simp only [hx1] at hsv
    rcases hsv with ⟨h0, _⟩ | ⟨y, y', hy, hy', e1, e2, e3, e4, e5, e6, e7, e8⟩
    · cases h0
    · cases hy
      simp only [if_true] at e8
      refine dropVirtual_inv h2 hy' (by rw [e2]; exact hk1) e8 (by rw [e5]; exact hp1) (by rw [e6]; exact hvk1) ?_
      intro p z hz
      have := hs p
      have := hc1 p
      grind

end SigModel.Hub

namespace SigModel.Hub

set_option maxHeartbeats 2000000 in
/-- Dropping a client/internal session that has left its room: its virtual sessions become orphans. -/
theorem dropClient_inv {h : Hub} (hi : Inv h) {s : Nat} {x : Sess} (hx : h.sess s = some x)
    (hk : x.kind ≠ .virtual) (hr : x.room = none) : InvX x.children (dropClient h s x) := by
  unfold dropClient
  obtain ⟨f1, f2, f3, f4, f5, f6, f7, f8, f9, f10, f11, f12, f13, f14, f15, f16, f17, f18, f19, f20, f21, f22, f23, f24, f25⟩ := hi
  have hch : ∀ v, v ∈ x.children → ∃ vx, h.sess v = some vx ∧ vx.kind = .virtual ∧ vx.parent = s :=
    fun v hv => f14 s x v hx hv
  have hcu : ∀ c s1 s2 x1 x2, h.sess s1 = some x1 → x1.conn = some c → h.sess s2 = some x2 → x2.conn = some c → s1 = s2 := by
    intro c s1 s2 x1 x2 h1 h2 h3 h4
    have a1 := (f16 c s1).mpr ⟨x1, h1, h2⟩
    have a2 := (f16 c s2).mpr ⟨x2, h3, h4⟩
    rw [a1] at a2; cases a2; rfl
  by_cases hu : x.user = "" <;> cases hc : x.conn <;>
    simp only [hu, ne_eq, not_true_eq_false, not_false_eq_true, if_true, if_false] <;> constructor
  all_goals (intros; simp only [hubf] at *; grind [mem_removeL, nodup_removeL, length_removeL_le])

end SigModel.Hub

namespace SigModel.Hub

theorem mem_foldl_removeL (l : List Nat) : ∀ (o : List Nat) (t : Nat), t ∈ l.foldl removeL o ↔ t ∈ o ∧ t ∉ l := by
  induction l with
  | nil => intro o t; simp
  | cons v l ih =>
    intro o t
    simp only [List.foldl_cons, ih, mem_removeL, List.mem_cons]
    constructor
    · rintro ⟨⟨h1, h2⟩, h3⟩; exact ⟨h1, fun h => h.elim h2 h3⟩
    · rintro ⟨h1, h2⟩; exact ⟨⟨h1, fun e => h2 (Or.inl e)⟩, fun e => h2 (Or.inr e)⟩

theorem foldl_removeL_self (l : List Nat) : l.foldl removeL l = [] := by
  apply List.eq_nil_iff_forall_not_mem.mpr
  intro t ht
  have := (mem_foldl_removeL l l t).mp ht
  exact this.2 this.1

/-- Closing a virtual session never changes kind or connection of any other session, and the
session itself is gone afterwards. -/
theorem closeVirtual_sess {orph : List Nat} (a : Acc) (v : Nat) (hi : InvX orph a.h)
    (hk : ∀ x, a.h.sess v = some x → x.kind = .virtual) (t : Nat) :
    ∀ x', (closeVirtual a v).h.sess t = some x' →
      ∃ x, a.h.sess t = some x ∧ x'.kind = x.kind ∧ x'.conn = x.conn ∧ x'.backend = x.backend ∧
        ((a.h.sess v).isSome = true → t ≠ v) := by
  unfold closeVirtual
  cases hx : a.h.sess v with
  | none => intro x' h; exact ⟨x', h, rfl, rfl, rfl, by simp⟩
  | some x =>
    simp only []
    have h1 := dropChild_inv hi hx (hk x hx)
    generalize hp : modSess a.h x.parent (fun p => { p with children := removeL p.children v }) = hub1 at h1
    have hm : ∀ y', hub1.sess t = some y' → ∃ y, a.h.sess t = some y ∧ y'.kind = y.kind ∧ y'.conn = y.conn ∧ y'.backend = y.backend := by
      rw [← hp]; unfold modSess
      cases hpar : a.h.sess x.parent with
      | none => intro y' h; exact ⟨y', h, rfl, rfl, rfl⟩
      | some p =>
        simp only [hubf]
        intro y' h
        by_cases e : t = x.parent
        · simp only [e, if_true] at h; cases h; rw [e]; exact ⟨p, hpar, rfl, rfl, rfl⟩
        · simp only [e, if_false] at h; exact ⟨y', h, rfl, rfl, rfl⟩
    have hs := leaveRoom_sess { a with h := hub1 } v h1 t
    intro x' hx'
    unfold dropVirtual at hx'
    simp only [facts_vtable, if_true, hubf] at hx'
    by_cases e : t = v
    · simp [e] at hx'
    · simp only [e, if_false] at hx'
      grind

theorem foldl_closeVirtual_inv : ∀ (l : List Nat) (orph : List Nat) (a : Acc), InvX orph a.h →
    (∀ v, v ∈ l → ∀ x, a.h.sess v = some x → x.kind = .virtual) →
    InvX (l.foldl removeL orph) (l.foldl closeVirtual a).h := by
  intro l
  induction l with
  | nil => intro orph a hi _; exact hi
  | cons v l ih =>
    intro orph a hi hk
    simp only [List.foldl_cons]
    have hkv := hk v (List.mem_cons_self)
    apply ih _ _ (closeVirtual_inv a v hi hkv)
    intro w hw x' hx'
    obtain ⟨x, hx, e, _⟩ := closeVirtual_sess a v hi hkv w x' hx'
    rw [e]; exact hk w (List.mem_cons_of_mem _ hw) x hx

theorem closeClient_inv (a : Acc) (s : Nat) (hi : Inv a.h)
    (hk : ∀ x, a.h.sess s = some x → x.kind ≠ .virtual) : Inv (closeClient a s).h := by
  unfold closeClient
  cases hx : a.h.sess s with
  | none => exact hi
  | some x0 =>
    simp only []
    have h1 := leaveRoom_inv a s hi
    have hs := leaveRoom_sess a s hi s
    simp only [hx, if_true] at hs
    rcases hs with ⟨h0, _⟩ | ⟨y, x, hy, hx1, e1, e2, e3, e4, e5, e6, e7, e8⟩
    · cases h0
    · cases hy
      simp only [hx1]
      have hd := dropClient_inv h1 hx1 (by rw [e2]; exact hk _ hx) e8
      have hf := foldl_closeVirtual_inv x.children x.children { (leaveRoom a s).1 with h := dropClient (leaveRoom a s).1.h s x } hd
        (by intro v hv y hy; exact hd.orph_virt v hv y hy)
      rw [foldl_removeL_self] at hf
      exact hf

theorem closeSession_inv (a : Acc) (s : Nat) (hi : Inv a.h) : Inv (closeSession a s).h := by
  unfold closeSession
  cases hx : a.h.sess s with
  | none => exact hi
  | some x =>
    simp only []
    by_cases hk : x.kind = .virtual
    · simp only [hk, if_true]
      have := closeVirtual_inv a s hi (by intro y hy; rw [hx] at hy; cases hy; exact hk)
      simpa using this
    · simp only [hk, if_false]
      exact closeClient_inv a s hi (by intro y hy; rw [hx] at hy; cases hy; exact hk)

theorem closeConn_inv {h : Hub} (hi : Inv h) (c : Nat) (hc : ∀ s x, h.sess s = some x → x.conn ≠ some c) :
    Inv (closeConn h c) := by
  obtain ⟨f1, f2, f3, f4, f5, f6, f7, f8, f9, f10, f11, f12, f13, f14, f15, f16, f17, f18, f19, f20, f21, f22, f23, f24, f25⟩ := hi
  constructor
  all_goals (intros; simp only [hubf] at *; grind [mem_removeL, length_removeL_le])

end SigModel.Hub

namespace SigModel.Hub

/-- `Rel a a'`: every session of `a'` existed in `a` with the same kind, connection and backend. -/
def SubSess (h h' : Hub) : Prop :=
  ∀ t x', h'.sess t = some x' → ∃ x, h.sess t = some x ∧ x'.kind = x.kind ∧ x'.conn = x.conn ∧ x'.backend = x.backend

theorem SubSess.refl (h : Hub) : SubSess h h := fun _ x' hx => ⟨x', hx, rfl, rfl, rfl⟩

theorem SubSess.trans {h1 h2 h3 : Hub} (a : SubSess h1 h2) (b : SubSess h2 h3) : SubSess h1 h3 := by
  intro t x3 h3'
  obtain ⟨x2, h2', e1, e2, e3⟩ := b t x3 h3'
  obtain ⟨x1, h1', f1, f2, f3⟩ := a t x2 h2'
  exact ⟨x1, h1', e1.trans f1, e2.trans f2, e3.trans f3⟩

theorem SubSess.of_core {h h' : Hub} (e : CoreEq h h') : SubSess h h' := by
  intro t x' hx'
  have := e.sess_fields t
  grind

theorem closeVirtual_sub {orph : List Nat} (a : Acc) (v : Nat) (hi : InvX orph a.h)
    (hk : ∀ x, a.h.sess v = some x → x.kind = .virtual) : SubSess a.h (closeVirtual a v).h := by
  intro t x' hx'
  obtain ⟨x, h1, h2, h3, h4, _⟩ := closeVirtual_sess a v hi hk t x' hx'
  exact ⟨x, h1, h2, h3, h4⟩

theorem closeVirtual_gone {orph : List Nat} (a : Acc) (v : Nat) (hi : InvX orph a.h)
    (hk : ∀ x, a.h.sess v = some x → x.kind = .virtual) : (closeVirtual a v).h.sess v = none := by
  cases h : (closeVirtual a v).h.sess v with
  | none => rfl
  | some x' =>
    obtain ⟨x, h1, _, _, _, h5⟩ := closeVirtual_sess a v hi hk v x' h
    exact absurd rfl (h5 (by simp [h1]))

theorem foldl_closeVirtual_sub : ∀ (l : List Nat) (orph : List Nat) (a : Acc), InvX orph a.h →
    (∀ v, v ∈ l → ∀ x, a.h.sess v = some x → x.kind = .virtual) →
    SubSess a.h (l.foldl closeVirtual a).h := by
  intro l
  induction l with
  | nil => intro orph a _ _; exact SubSess.refl _
  | cons v l ih =>
    intro orph a hi hk
    simp only [List.foldl_cons]
    have hkv := hk v (List.mem_cons_self)
    refine (closeVirtual_sub a v hi hkv).trans (ih _ _ (closeVirtual_inv a v hi hkv) ?_)
    intro w hw x' hx'
    obtain ⟨x, hx, e, _⟩ := closeVirtual_sess a v hi hkv w x' hx'
    rw [e]; exact hk w (List.mem_cons_of_mem _ hw) x hx

theorem leaveRoom_sub {orph : List Nat} (a : Acc) (s : Nat) (hi : InvX orph a.h) :
    SubSess a.h (leaveRoom a s).1.h := by
  intro t x' hx'
  have := leaveRoom_sess a s hi t
  grind

theorem closeClient_sub (a : Acc) (s : Nat) (hi : Inv a.h)
    (hk : ∀ x, a.h.sess s = some x → x.kind ≠ .virtual) :
    SubSess a.h (closeClient a s).h ∧ (closeClient a s).h.sess s = none := by
  unfold closeClient
  cases hx : a.h.sess s with
  | none => exact ⟨SubSess.refl _, hx⟩
  | some x0 =>
    simp only []
    have h1 := leaveRoom_inv a s hi
    have hsub1 := leaveRoom_sub a s hi
    have hs := leaveRoom_sess a s hi s
    simp only [hx, if_true] at hs
    rcases hs with ⟨h0, _⟩ | ⟨y, x, hy, hx1, e1, e2, e3, e4, e5, e6, e7, e8⟩
    · cases h0
    · cases hy
      simp only [hx1]
      have hd := dropClient_inv h1 hx1 (by rw [e2]; exact hk _ hx) e8
      have hdsess : ∀ t, (dropClient (leaveRoom a s).1.h s x).sess t = if t = s then none else (leaveRoom a s).1.h.sess t := by
        intro t; unfold dropClient
        by_cases hu : x.user = "" <;> cases hc : x.conn <;>
          simp only [hu, ne_eq, not_true_eq_false, not_false_eq_true, if_true, if_false, hubf]
      have hsub2 : SubSess (leaveRoom a s).1.h (dropClient (leaveRoom a s).1.h s x) := by
        intro t x' hx'; rw [hdsess] at hx'
        by_cases e : t = s
        · simp [e] at hx'
        · simp only [e, if_false] at hx'; exact ⟨x', hx', rfl, rfl, rfl⟩
      have hsub3 := foldl_closeVirtual_sub x.children x.children
        { (leaveRoom a s).1 with h := dropClient (leaveRoom a s).1.h s x } hd
        (by intro v hv y hy; exact hd.orph_virt v hv y hy)
      refine ⟨(hsub1.trans hsub2).trans hsub3, ?_⟩
      cases hfin : (List.foldl closeVirtual { (leaveRoom a s).1 with h := dropClient (leaveRoom a s).1.h s x } x.children).h.sess s with
      | none => rfl
      | some z =>
        obtain ⟨z', hz', _⟩ := hsub3 s z hfin
        simp only [hdsess, if_true] at hz'
        cases hz'

theorem closeSession_sub (a : Acc) (s : Nat) (hi : Inv a.h) :
    SubSess a.h (closeSession a s).h ∧ (closeSession a s).h.sess s = none := by
  unfold closeSession
  cases hx : a.h.sess s with
  | none => exact ⟨SubSess.refl _, hx⟩
  | some x =>
    simp only []
    by_cases hk : x.kind = .virtual
    · simp only [hk, if_true]
      have hkv : ∀ y, a.h.sess s = some y → y.kind = .virtual := by intro y hy; rw [hx] at hy; cases hy; exact hk
      exact ⟨closeVirtual_sub a s hi hkv, closeVirtual_gone a s hi hkv⟩
    · simp only [hk, if_false]
      exact closeClient_sub a s hi (by intro y hy; rw [hx] at hy; cases hy; exact hk)

end SigModel.Hub

namespace SigModel.Hub

theorem conn_unique {h : Hub} (hi : Inv h) {c s1 s2 : Nat} {x1 x2 : Sess}
    (h1 : h.sess s1 = some x1) (h2 : x1.conn = some c) (h3 : h.sess s2 = some x2) (h4 : x2.conn = some c) : s1 = s2 := by
  have a1 := (hi.conn_iff c s1).mpr ⟨x1, h1, h2⟩
  have a2 := (hi.conn_iff c s2).mpr ⟨x2, h3, h4⟩
  rw [a1] at a2; cases a2; rfl

/-- Closing a session and then its connection. -/
theorem closeSessionConn_inv (a : Acc) (s : Nat) (hi : Inv a.h) {x : Sess} {c : Nat}
    (hx : a.h.sess s = some x) (hc : x.conn = some c) : Inv (closeConn (closeSession a s).h c) := by
  obtain ⟨hsub, hgone⟩ := closeSession_sub a s hi
  apply closeConn_inv (closeSession_inv a s hi)
  intro t y hy hyc
  obtain ⟨y0, hy0, _, e2, _⟩ := hsub t y hy
  have := conn_unique hi hy0 (by rw [← e2]; exact hyc) hx hc
  subst this
  rw [hgone] at hy; cases hy

theorem flushCloses_inv (a : Acc) (hi : Inv a.h) : Inv (flushCloses a).h := by
  unfold flushCloses
  have gen : ∀ (l : List Nat) (a : Acc), Inv a.h →
      Inv (l.foldl (fun a s =>
        match a.h.sess s with
        | none => a
        | some x =>
          let a1 := closeSession a s
          match x.conn with
          | some c => { a1 with h := closeConn a1.h c }
          | none => a1) a).h := by
    intro l
    induction l with
    | nil => intro a hi; exact hi
    | cons s l ih =>
      intro a hi
      simp only [List.foldl_cons]
      apply ih
      cases hx : a.h.sess s with
      | none => exact hi
      | some x =>
        simp only []
        cases hc : x.conn with
        | none => exact closeSession_inv a s hi
        | some c => exact closeSessionConn_inv a s hi hx hc
  exact gen a.closes { a with closes := [] } hi

end SigModel.Hub
