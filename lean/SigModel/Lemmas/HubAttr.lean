import Lean
/-- Field projections of the hub model's setters (frame lemmas). -/
register_simp_attr hubf
