/-
Hub lemmas, part 8: who can be written to (for C03, output level).

`Own b h0 a`: every message written so far went to a connection whose session belongs to backend `b`
(the `bk` tag of an `Out` is the backend of the session that owned the connection when the message
was written; `none` for connections without a session).  The lemmas below show that each delivery
primitive keeps `Own b` as long as the sessions it is pointed at belong to `b`.
-/
import SigModel.Lemmas.HubRoute

namespace SigModel.Hub

/-- Session `s`, if it exists, belongs to backend `b`. -/
def BkOf (h : Hub) (s : Nat) (b : Nat) : Prop := ∀ x, h.sess s = some x → x.backend = b

/-- Everything written so far went to sessions of backend `b` (or to connections without a session), the
sessions marked for closing after the step belong to `b`, and the record of every session of another backend
is still what it was in `h0` (the hub before the step). -/
structure Own (b : Nat) (h0 : Hub) (a : Acc) : Prop where
  outs : ∀ o, o ∈ a.outs → ∀ b', o.bk = some b' → b' = b
  closes : ∀ s, s ∈ a.closes → BkOf a.h s b
  frame : ∀ t x, h0.sess t = some x → x.backend ≠ b → a.h.sess t = some x

/-- Going from `h` to `h'`, a session of `b` stays one (or goes away), and the records of the sessions of other
backends do not change. -/
structure BkKeep (b : Nat) (h h' : Hub) : Prop where
  keep : ∀ t, BkOf h t b → BkOf h' t b
  frame : ∀ t x, h.sess t = some x → x.backend ≠ b → h'.sess t = some x

theorem BkKeep.of_sess_eq {b : Nat} {h h' : Hub} (e : h'.sess = h.sess) : BkKeep b h h' :=
  ⟨fun t hb x hx => by rw [e] at hx; exact hb x hx, fun t x hx _ => by rw [e]; exact hx⟩

theorem BkKeep.refl {b : Nat} (h : Hub) : BkKeep b h h := ⟨fun _ hb => hb, fun _ _ hx _ => hx⟩

theorem BkKeep.trans {b : Nat} {h1 h2 h3 : Hub} (a : BkKeep b h1 h2) (c : BkKeep b h2 h3) : BkKeep b h1 h3 :=
  ⟨fun t hb => c.keep t (a.keep t hb), fun t x hx hn => c.frame t x (a.frame t x hx hn) hn⟩

/-- Only the record of session `s` — a session of `b`, before and after — differs. -/
theorem BkKeep.of_single {b : Nat} {h h' : Hub} (s : Nat) (hother : ∀ t, t ≠ s → h'.sess t = h.sess t)
    (hs : BkOf h s b) (hs' : BkOf h' s b) : BkKeep b h h' := by
  refine ⟨?_, ?_⟩
  · intro t hb x hx
    by_cases e : t = s
    · subst e; exact hs' x hx
    · rw [hother t e] at hx; exact hb x hx
  · intro t x hx hn
    by_cases e : t = s
    · subst e; exact absurd (hs x hx) hn
    · rw [hother t e]; exact hx

variable {h0 : Hub}

/-- Only the hub changes, and sessions keep their backend. -/
theorem Own.setH {b : Nat} {a : Acc} (o : Own b h0 a) (h' : Hub) (hk : BkKeep b a.h h') : Own b h0 { a with h := h' } :=
  ⟨o.outs, fun s hs => hk.keep s (o.closes s hs), fun t x h1 h2 => hk.frame t x (o.frame t x h1 h2) h2⟩

theorem Own.append {b : Nat} {a a' : Acc} (o : Own b h0 a) (l : List Out) (h : a'.outs = a.outs ++ l) (hh : a'.h = a.h)
    (hl : ∀ x, x ∈ l → ∀ b', x.bk = some b' → b' = b) (hc : ∀ s, s ∈ a'.closes → BkOf a'.h s b) : Own b h0 a' := by
  refine ⟨?_, hc, by rw [hh]; exact o.frame⟩
  intro x hx; rw [h] at hx
  rcases List.mem_append.mp hx with h1 | h1
  · exact o.outs x h1
  · exact hl x h1

theorem CoreEq.bkOf {h h' : Hub} (e : CoreEq h h') {s b : Nat} (hb : BkOf h s b) : BkOf h' s b := by
  intro x' hx'
  rcases e.sess_fields s with ⟨_, h0⟩ | ⟨x, y, hx, hy, f⟩
  · rw [h0] at hx'; cases hx'
  · rw [hy] at hx'; cases hx'; rw [f.1]; exact hb x hx

theorem CoreEq.bkOf' {h h' : Hub} (e : CoreEq h h') {s b : Nat} (hb : BkOf h' s b) : BkOf h s b :=
  e.symm.bkOf hb

/-- The session a message for `s` is written to (its internal client for a virtual session) belongs to `b`
when `s` does — in a state that satisfies the invariant. -/
theorem target_bk {orph : List Nat} {h : Hub} (hi : InvX orph h) {s b : Nat} (hb : BkOf h s b) (hs : (h.sess s).isSome = true)
    (hno : s ∉ orph) : BkOf h (target h s) b := by
  unfold target
  cases hx : h.sess s with
  | none => simp [hx] at hs
  | some x =>
    simp only []
    split
    · rename_i hk
      obtain ⟨_, _, _, hp⟩ := hi.virt s x hx hk
      rcases hp with h1 | ⟨p, hp, _, hpb, _⟩
      · exact (hno h1).elim
      · intro y hy; rw [hp] at hy; cases hy; rw [hpb]; exact hb x hx
    · exact hb

theorem BkKeep.setSess {b : Nat} {h : Hub} {s : Nat} {x y : Sess} (hx : h.sess s = some x) (hy : y.backend = x.backend)
    (hxb : x.backend = b) : BkKeep b h (setSess h s (some y)) := by
  refine BkKeep.of_single s ?_ ?_ ?_
  · intro t e; simp [SigModel.Hub.setSess, e]
  · intro z hz; rw [hx] at hz; cases hz; exact hxb
  · intro z hz; simp [SigModel.Hub.setSess] at hz; subst hz; rw [hy]; exact hxb

/-- `sendTo` writes to the target session only (and may mark it for closing). -/
theorem sendTo_own {b : Nat} (a : Acc) (s : Nat) (m : Msg) (o : Own b h0 a) (hb : BkOf a.h (target a.h s) b) :
    Own b h0 (sendTo a s m) := by
  have hcore := sendTo_core a s m
  unfold sendTo at hcore ⊢
  simp only [] at hcore ⊢
  cases hx : a.h.sess (target a.h s) with
  | none => exact o
  | some x =>
    simp only [hx] at hcore ⊢
    have hxb := hb x hx
    have hf := filterMessage_strip x m
    generalize (filterMessage x m).fst = x1 at hf hcore ⊢
    generalize (filterMessage x m).snd = om at hcore ⊢
    have hb1 : x1.backend = b := by rw [(strip_fields hf).1]; exact hxb
    have hk1 : BkKeep b a.h (setSess a.h (target a.h s) (some x1)) := BkKeep.setSess hx (strip_fields hf).1 hxb
    cases om with
    | none => exact o.setH _ hk1
    | some m1 =>
      simp only [] at hcore ⊢
      cases hc : x1.conn with
      | some c =>
        simp only [hc] at hcore ⊢
        refine (o.setH _ hk1).append [⟨c, m1, some x1.backend⟩] rfl rfl ?_ ?_
        · intro y hy b' hb'
          simp only [List.mem_singleton] at hy
          subst hy
          simp only [Option.some.injEq] at hb'
          omega
        · intro t ht
          split at ht
          · rcases List.mem_append.mp ht with h1 | h1
            · exact hk1.keep t (o.closes t h1)
            · simp only [List.mem_singleton] at h1; subst h1
              intro z hz; simp [SigModel.Hub.setSess] at hz; subst hz; exact hb1
          · exact hk1.keep t (o.closes t ht)
      | none =>
        simp only [hc] at hcore ⊢
        split
        · exact o.setH _ hk1
        · exact o.setH _ (BkKeep.setSess hx (by simp [(strip_fields hf).1]) hxb)

/-- `sendTo` changes the record of the target session only. -/
theorem sendTo_keep {b : Nat} (a : Acc) (s : Nat) (m : Msg) (hb : BkOf a.h (target a.h s) b) : BkKeep b a.h (sendTo a s m).h := by
  unfold sendTo
  simp only []
  cases hx : a.h.sess (target a.h s) with
  | none => exact BkKeep.refl _
  | some x =>
    simp only []
    have hxb := hb x hx
    have hf := filterMessage_strip x m
    generalize (filterMessage x m).fst = x1 at hf ⊢
    generalize (filterMessage x m).snd = om
    have hk1 : BkKeep b a.h (setSess a.h (target a.h s) (some x1)) := BkKeep.setSess hx (strip_fields hf).1 hxb
    cases om with
    | none => exact hk1
    | some m1 =>
      simp only []
      cases hc : x1.conn with
      | some c => exact hk1
      | none =>
        simp only []
        split
        · exact hk1
        · exact BkKeep.setSess hx (by simp [(strip_fields hf).1]) hxb

/-- Listener `l` and the session written to when `l` is addressed belong to `b`. -/
def TBk (h : Hub) (l : Nat) (b : Nat) : Prop := BkOf h (target h l) b ∧ BkOf h l b

theorem CoreEq.target_eq {h h' : Hub} (e : CoreEq h h') (l : Nat) : target h' l = target h l := by
  unfold target
  rcases e.sess_fields l with ⟨h0, h1⟩ | ⟨x, y, hx, hy, f⟩
  · rw [h0, h1]
  · rw [hx, hy]; simp only [f.2.1, f.2.2.2.2.2.2.1]

theorem CoreEq.tbk {h h' : Hub} (e : CoreEq h h') {l b : Nat} (hb : TBk h l b) : TBk h' l b := by
  unfold TBk at *; rw [e.target_eq]; exact ⟨e.bkOf hb.1, e.bkOf hb.2⟩

theorem procClient_own {b : Nat} (a : Acc) (l : Nat) (am : AMsg) (o : Own b h0 a) (hb : TBk a.h l b) :
    Own b h0 (procClient a l am) := by
  unfold procClient
  split
  · exact o
  · rename_i x hx
    split
    · exact o.setH _ (BkKeep.setSess hx rfl (hb.2 x hx))
    · split
      · exact sendTo_own a l _ o hb.1
      · exact o

theorem foldl_procClient_own {b : Nat} (am : AMsg) : ∀ (ls : List Nat) (a : Acc), Own b h0 a → (∀ l, l ∈ ls → TBk a.h l b) →
    Own b h0 (ls.foldl (fun a l => procClient a l am) a) := by
  intro ls
  induction ls with
  | nil => intro a o _; exact o
  | cons l ls ih =>
    intro a o hl
    simp only [List.foldl_cons]
    refine ih _ (procClient_own a l am o (hl l List.mem_cons_self)) ?_
    intro k hk
    exact (procClient_core a l am).tbk (hl k (List.mem_cons_of_mem _ hk))

/-- Listeners of the room subject `(b, r)` and of the user subject `(b, u)` are sessions of `b` that
write to their own connection. -/
theorem InvG.roomL_tbk {R : Nat → Sess → String → Prop} {orph : List Nat} {h : Hub} (hi : InvG R orph h) {b : Nat} {r : String} {l : Nat}
    (hl : l ∈ h.roomL b r) : TBk h l b := by
  obtain ⟨x, hx, hb, _, hk⟩ := (hi.roomL_iff b r l).mp hl
  have h1 : BkOf h l b := by intro y hy; rw [hx] at hy; cases hy; exact hb
  unfold TBk; rw [target_nonvirtual hx hk]
  exact ⟨h1, h1⟩

theorem InvG.userL_tbk {R : Nat → Sess → String → Prop} {orph : List Nat} {h : Hub} (hi : InvG R orph h) {b : Nat} {u : String} {l : Nat}
    (hl : l ∈ h.userL b u) : TBk h l b := by
  obtain ⟨x, hx, hb, _, _, hk⟩ := (hi.userL_iff b u l).mp hl
  have h1 : BkOf h l b := by intro y hy; rw [hx] at hy; cases hy; exact hb
  unfold TBk; rw [target_nonvirtual hx hk]
  exact ⟨h1, h1⟩

theorem pubRoom_own {R : Nat → Sess → String → Prop} {orph : List Nat} {b : Nat} (a : Acc) (r : String) (am : AMsg)
    (hi : InvG R orph a.h) (o : Own b h0 a) : Own b h0 (pubRoom a b r am) :=
  foldl_procClient_own am _ a o (fun _ hl => hi.roomL_tbk hl)

theorem pubUser_own {R : Nat → Sess → String → Prop} {orph : List Nat} {b : Nat} (a : Acc) (u : String) (am : AMsg)
    (hi : InvG R orph a.h) (o : Own b h0 a) : Own b h0 (pubUser a b u am) :=
  foldl_procClient_own am _ a o (fun _ hl => hi.userL_tbk hl)

/-- Delivery on the session subject of a session of `b`. -/
theorem procSession_own {b : Nat} (a : Acc) (s : Nat) (am : AMsg) (hi : Inv a.h) (o : Own b h0 a) (hb : BkOf a.h s b) :
    Own b h0 (procSession a s am) := by
  unfold procSession
  split
  · exact o
  · split
    · exact o
    · rename_i x hx
      have ht : TBk a.h s b := ⟨target_bk hi hb (by simp [hx]) (by simp), hb⟩
      split
      · rename_i hk
        split
        · split
          · refine procClient_own a x.parent _ o ?_
            -- the internal client of a virtual session writes to its own connection
            obtain ⟨_, _, _, hp⟩ := hi.virt s x hx hk
            rcases hp with h1 | ⟨p, hp, hpk, hpb, _⟩
            · simp at h1
            · have hpbk : BkOf a.h x.parent b := by intro y hy; rw [hp] at hy; cases hy; rw [hpb]; exact hb x hx
              unfold TBk
              rw [target_nonvirtual hp (by rw [hpk]; decide)]
              exact ⟨hpbk, hpbk⟩
          · exact o
        · exact o
      · exact procClient_own a s am o ht

theorem publishUsersChangedWithInternal_own {R : Nat → Sess → String → Prop} {orph : List Nat} {b : Nat} (a : Acc) (r : String)
    (hi : InvG R orph a.h) (o : Own b h0 a) : Own b h0 (publishUsersChangedWithInternal a b r) := by
  unfold publishUsersChangedWithInternal
  split
  · exact o
  · simp only []
    split
    · exact o
    · exact pubRoom_own a r _ hi o

/-! ### leaving and closing -/


theorem leaveStruct_sess (h : Hub) (s : Nat) (x : Sess) (r : String) (rm : Room) (t : Nat) :
    (leaveStruct h s x r rm).sess t = if t = s then some { x with room := none, roomSess := "", seenJoin := [] } else h.sess t := by
  unfold leaveStruct
  by_cases hk : x.kind = .virtual <;> by_cases he : removeL rm.members s = [] <;>
    simp only [hk, he, if_true, if_false, hubf]

theorem leaveStruct_keep {b : Nat} {h : Hub} {s : Nat} {x : Sess} (r : String) (rm : Room) (hx : h.sess s = some x)
    (hxb : x.backend = b) : BkKeep b h (leaveStruct h s x r rm) := by
  refine BkKeep.of_single s ?_ ?_ ?_
  · intro t e; rw [leaveStruct_sess]; simp [e]
  · intro z hz; rw [hx] at hz; cases hz; exact hxb
  · intro z hz; rw [leaveStruct_sess] at hz; simp at hz; subst hz; exact hxb

/-- Leaving a room tells the listeners of that room only; they belong to the leaver's backend. -/
theorem leaveRoom_own {orph : List Nat} {b : Nat} (a : Acc) (s : Nat) (hi : InvX orph a.h) (hb : BkOf a.h s b)
    (o : Own b h0 a) : Own b h0 (leaveRoom a s).1 := by
  cases hx : a.h.sess s with
  | none => unfold leaveRoom; simp only [hx]; exact o
  | some x =>
    cases hr : x.room with
    | none => unfold leaveRoom; simp only [hx, hr]; exact o
    | some r =>
      obtain ⟨rm, hrm, hmem⟩ := hi.room_mem' s x r hx hr
      have hxb : x.backend = b := hb x hx
      have hls := leaveStruct_inv hi hx hr hrm
      have hkp : BkKeep b a.h (leaveStruct a.h s x r rm) := leaveStruct_keep r rm hx hxb
      unfold leaveStruct at hls hkp
      unfold leaveRoom roomRemoveSession
      simp only [hx, hr]
      have hrooms : (setSess (rsDelete (if x.kind = .virtual then a.h else
          setRoomL a.h x.backend r (removeL (a.h.roomL x.backend r) s)) s) s
          (some { x with room := none, roomSess := "", seenJoin := [] })).rooms x.backend r = some rm := by
        simp only [hubf]; split <;> simp [hrm, hubf]
      simp only [hrooms]
      have hc : rm.members.contains s = true := by simpa using hmem
      simp only [hc, Bool.not_true, Bool.false_eq_true, if_false]
      subst hxb
      by_cases he : removeL rm.members s = [] <;> cases hkind : x.kind <;>
        simp only [he, hkind, reduceCtorEq, if_true, if_false] at hls hkp ⊢
      all_goals first
        | exact pubRoom_own _ r _ hls (o.setH _ hkp)
        | (refine publishUsersChangedWithInternal_own _ r (hls.congr (coreOf (pubRoom_core _ _ _ _) rfl)) ?_
           exact pubRoom_own _ r _ hls (o.setH _ hkp))

theorem SubSess.bkOf {h h' : Hub} (e : SubSess h h') {s b : Nat} (hb : BkOf h s b) : BkOf h' s b := by
  intro x' hx'
  obtain ⟨x, hx, _, _, e3⟩ := e s x' hx'
  rw [e3]; exact hb x hx

/-- Closing a virtual session keeps the parent and backend of every session that remains. -/
theorem closeVirtual_par {orph : List Nat} (a : Acc) (v : Nat) (hi : InvX orph a.h)
    (hk : ∀ x, a.h.sess v = some x → x.kind = .virtual) (t : Nat) :
    ∀ x', (closeVirtual a v).h.sess t = some x' →
      ∃ x, a.h.sess t = some x ∧ x'.parent = x.parent ∧ x'.backend = x.backend := by
  unfold closeVirtual
  cases hx : a.h.sess v with
  | none => intro x' h; exact ⟨x', h, rfl, rfl⟩
  | some x =>
    simp only []
    have h1 := dropChild_inv hi hx (hk x hx)
    generalize hp : modSess a.h x.parent (fun p => { p with children := removeL p.children v }) = hub1 at h1
    have hm : ∀ y', hub1.sess t = some y' → ∃ y, a.h.sess t = some y ∧ y'.parent = y.parent ∧ y'.backend = y.backend := by
      rw [← hp]; unfold modSess
      cases hpar : a.h.sess x.parent with
      | none => intro y' h; exact ⟨y', h, rfl, rfl⟩
      | some p =>
        simp only [hubf]
        intro y' h
        by_cases e : t = x.parent
        · simp only [e, if_true] at h; cases h; rw [e]; exact ⟨p, hpar, rfl, rfl⟩
        · simp only [e, if_false] at h; exact ⟨y', h, rfl, rfl⟩
    have hs := leaveRoom_sess { a with h := hub1 } v h1 t
    intro x' hx'
    unfold dropVirtual at hx'
    simp only [facts_vtable, if_true, hubf] at hx'
    by_cases e : t = v
    · simp [e] at hx'
    · simp only [e, if_false] at hx'
      rcases hs with ⟨_, h0⟩ | ⟨y, y', hy, hy', e1, e2, e3, e4, e5, e6, e7, e8⟩
      · rw [h0] at hx'; cases hx'
      · rw [hy'] at hx'; cases hx'
        obtain ⟨z, hz, f1, f2⟩ := hm y hy
        exact ⟨z, hz, by rw [e5, f1], by rw [e1, f2]⟩

theorem closeVirtual_own {orph : List Nat} {b : Nat} (a : Acc) (v : Nat) (hi : InvX orph a.h)
    (hk : ∀ x, a.h.sess v = some x → x.kind = .virtual) (hb : BkOf a.h v b)
    (hpb : ∀ x, a.h.sess v = some x → BkOf a.h x.parent b) (o : Own b h0 a) :
    Own b h0 (closeVirtual a v) := by
  unfold closeVirtual
  cases hx : a.h.sess v with
  | none => exact o
  | some x =>
    simp only []
    have hkx := hk x hx
    have h1 := dropChild_inv hi hx hkx
    have hne := (hi.virt v x hx hkx).2.2.1
    have hmod : ∀ t, t ≠ x.parent →
        (modSess a.h x.parent (fun p => { p with children := removeL p.children v })).sess t = a.h.sess t := by
      intro t e
      unfold modSess
      cases hpar : a.h.sess x.parent with
      | none => rfl
      | some p => simp only [hubf, e, if_false]
    have hv1 : (modSess a.h x.parent (fun p => { p with children := removeL p.children v })).sess v = some x := by
      rw [hmod v (fun e => hne e.symm)]; exact hx
    have hb1 : BkOf (modSess a.h x.parent (fun p => { p with children := removeL p.children v })) v b := by
      intro y hy; rw [hv1] at hy; cases hy; exact hb x hx
    have hkp : BkKeep b a.h (modSess a.h x.parent (fun p => { p with children := removeL p.children v })) := by
      refine BkKeep.of_single x.parent hmod (hpb x hx) ?_
      intro z hz
      unfold modSess at hz
      cases hpar : a.h.sess x.parent with
      | none => simp only [hpar] at hz; first | cases hz | (rw [hpar] at hz; cases hz)
      | some p => simp only [hpar, hubf, if_true] at hz; cases hz; exact hpb x hx p hpar
    have o1 := leaveRoom_own { a with h := modSess a.h x.parent (fun p => { p with children := removeL p.children v }) } v h1 hb1
      (o.setH _ hkp)
    refine o1.setH _ ?_
    -- the virtual session itself goes away
    have hb2 : BkOf (leaveRoom { a with h := modSess a.h x.parent (fun p => { p with children := removeL p.children v }) } v).1.h v b :=
      (leaveRoom_sub _ v h1).bkOf hb1
    refine BkKeep.of_single v ?_ hb2 ?_
    · intro t e
      unfold dropVirtual
      simp only [facts_vtable, if_true, hubf, e, if_false]
    · intro z hz
      unfold dropVirtual at hz
      simp [facts_vtable, hubf] at hz

theorem foldl_closeVirtual_own {b : Nat} : ∀ (l : List Nat) (orph : List Nat) (a : Acc), InvX orph a.h →
    (∀ v, v ∈ l → ∀ x, a.h.sess v = some x → x.kind = .virtual) → (∀ v, v ∈ l → BkOf a.h v b) →
    (∀ v, v ∈ l → ∀ x, a.h.sess v = some x → BkOf a.h x.parent b) → Own b h0 a →
    Own b h0 (l.foldl closeVirtual a) := by
  intro l
  induction l with
  | nil => intro orph a _ _ _ _ o; exact o
  | cons v l ih =>
    intro orph a hi hk hb hpb o
    simp only [List.foldl_cons]
    have hkv := hk v (List.mem_cons_self)
    refine ih _ _ (closeVirtual_inv a v hi hkv) ?_ ?_ ?_
      (closeVirtual_own a v hi hkv (hb v List.mem_cons_self) (hpb v List.mem_cons_self) o)
    · intro w hw x' hx'
      obtain ⟨x, hx, e, _⟩ := closeVirtual_sess a v hi hkv w x' hx'
      rw [e]; exact hk w (List.mem_cons_of_mem _ hw) x hx
    · intro w hw
      exact (closeVirtual_sub a v hi hkv).bkOf (hb w (List.mem_cons_of_mem _ hw))
    · intro w hw x' hx' p' hp'
      obtain ⟨x, hx, e1, _⟩ := closeVirtual_par a v hi hkv w x' hx'
      obtain ⟨p, hp, _, e2⟩ := closeVirtual_par a v hi hkv x'.parent p' hp'
      rw [e2]; rw [e1] at hp
      exact hpb w (List.mem_cons_of_mem _ hw) x hx p hp

theorem closeClient_own {b : Nat} (a : Acc) (s : Nat) (hi : Inv a.h)
    (hk : ∀ x, a.h.sess s = some x → x.kind ≠ .virtual) (hb : BkOf a.h s b) (o : Own b h0 a) :
    Own b h0 (closeClient a s) := by
  unfold closeClient
  cases hx : a.h.sess s with
  | none => exact o
  | some x0 =>
    simp only []
    have h1 := leaveRoom_inv a s hi
    have hsub1 := leaveRoom_sub a s hi
    have o1 := leaveRoom_own a s hi hb o
    have hs := leaveRoom_sess a s hi s
    simp only [hx, if_true] at hs
    rcases hs with ⟨h0', _⟩ | ⟨y, x, hy, hx1, e1, e2, e3, e4, e5, e6, e7, e8⟩
    · cases h0'
    · cases hy
      simp only [hx1]
      have hd := dropClient_inv h1 hx1 (by rw [e2]; exact hk _ hx) e8
      have hdsess : ∀ t, (dropClient (leaveRoom a s).1.h s x).sess t = if t = s then none else (leaveRoom a s).1.h.sess t := by
        intro t; unfold dropClient
        by_cases hu : x.user = "" <;> cases hc : x.conn <;>
          simp only [hu, ne_eq, not_true_eq_false, not_false_eq_true, if_true, if_false, hubf]
      -- the children belong to the backend of their internal client
      have hxb : x.backend = b := (hsub1.bkOf hb) x hx1
      have hchild : ∀ v, v ∈ x.children → ∀ z, (dropClient (leaveRoom a s).1.h s x).sess v = some z → z.backend = b ∧ z.parent = s := by
        intro v hv z hz
        rw [hdsess] at hz
        by_cases e : v = s
        · simp [e] at hz
        · simp only [e, if_false] at hz
          obtain ⟨vx, hvx, hvk, hvp⟩ := h1.children s x v hx1 hv
          have hzv : z = vx := by rw [hvx] at hz; exact (Option.some.inj hz).symm
          subst hzv
          obtain ⟨_, _, _, hp⟩ := h1.virt v z hvx hvk
          rcases hp with h0' | ⟨p, hp, _, hpb, _⟩
          · simp at h0'
          · rw [hvp, hx1] at hp; cases hp; exact ⟨by rw [← hpb]; exact hxb, hvp⟩
      refine foldl_closeVirtual_own x.children x.children
        { (leaveRoom a s).1 with h := dropClient (leaveRoom a s).1.h s x } hd
        (by intro v hv y hy; exact hd.orph_virt v hv y hy) (fun v hv z hz => (hchild v hv z hz).1) ?_
        (o1.setH _ ?_)
      · -- the parent of every child is the session that is gone
        intro v hv z hz p hp
        have hp' : (dropClient (leaveRoom a s).1.h s x).sess z.parent = some p := hp
        rw [(hchild v hv z hz).2, hdsess] at hp'
        simp at hp'
      · refine BkKeep.of_single s (fun t e => by rw [hdsess]; simp [e]) (hsub1.bkOf hb) ?_
        intro z hz; rw [hdsess] at hz; simp at hz

theorem closeSession_own {b : Nat} (a : Acc) (s : Nat) (hi : Inv a.h) (hb : BkOf a.h s b) (o : Own b h0 a) :
    Own b h0 (closeSession a s) := by
  unfold closeSession
  cases hx : a.h.sess s with
  | none => exact o
  | some x =>
    simp only []
    by_cases hk : x.kind = .virtual
    · simp only [hk, if_true]
      refine closeVirtual_own a s hi (by intro y hy; rw [hx] at hy; cases hy; exact hk) hb ?_ o
      intro y hy p hp
      rw [hx] at hy; cases hy
      obtain ⟨_, _, _, hpp⟩ := hi.virt s x hx hk
      rcases hpp with h1 | ⟨p', hp', _, hpb, _⟩
      · simp at h1
      · rw [hp'] at hp; cases hp; rw [hpb]; exact hb x hx
    · simp only [hk, if_false]
      exact closeClient_own a s hi (by intro y hy; rw [hx] at hy; cases hy; exact hk) hb o

/-- Closing the sessions that a step marked for closing (they all belong to `b`). -/
theorem flushCloses_own {b : Nat} (a : Acc) (hi : Inv a.h) (o : Own b h0 a) :
    Own b h0 (flushCloses a) := by
  unfold flushCloses
  have gen : ∀ (l : List Nat) (a : Acc), Inv a.h → (∀ s, s ∈ l → BkOf a.h s b) → Own b h0 a →
      Own b h0 (l.foldl (fun a s =>
        match a.h.sess s with
        | none => a
        | some x =>
          let a1 := closeSession a s
          match x.conn with
          | some c => { a1 with h := closeConn a1.h c }
          | none => a1) a) := by
    intro l
    induction l with
    | nil => intro a _ _ o; exact o
    | cons s l ih =>
      intro a hi hb o
      simp only [List.foldl_cons]
      cases hx : a.h.sess s with
      | none => exact ih a hi (fun t ht => hb t (List.mem_cons_of_mem _ ht)) o
      | some x =>
        simp only []
        have hsub := (closeSession_sub a s hi).1
        have o1 := closeSession_own a s hi (hb s List.mem_cons_self) o
        cases hc : x.conn with
        | none =>
          exact ih _ (closeSession_inv a s hi) (fun t ht => hsub.bkOf (hb t (List.mem_cons_of_mem _ ht))) o1
        | some c =>
          refine ih _ (closeSessionConn_inv a s hi hx hc) ?_ (o1.setH _ (BkKeep.of_sess_eq rfl))
          intro t ht
          have := hsub.bkOf (hb t (List.mem_cons_of_mem _ ht))
          intro y hy
          exact this y (by simpa [closeConn] using hy)
  exact gen a.closes { a with closes := [] } hi o.closes ⟨o.outs, (by intro s hs; cases hs), o.frame⟩

/-! ### joining -/

/-- Writing to a session of `b` itself (it is not virtual, or its internal client is of `b` too). -/
theorem sendTo_own_inv {orph : List Nat} {b : Nat} (a : Acc) (s : Nat) (m : Msg) (hi : InvX orph a.h) (hno : s ∉ orph)
    (hb : BkOf a.h s b) (o : Own b h0 a) : Own b h0 (sendTo a s m) := by
  cases hx : a.h.sess s with
  | none =>
    unfold sendTo target
    simp only [hx]
    exact o
  | some x => exact sendTo_own a s m o (target_bk hi hb (by simp [hx]) hno)

theorem notifySessionJoined_own {b : Nat} (a : Acc) (b' : Nat) (r : String) (s : Nat) (hi : Inv a.h) (hb : BkOf a.h s b)
    (o : Own b h0 a) : Own b h0 (notifySessionJoined a b' r s) := by
  unfold notifySessionJoined
  split
  · exact o
  · simp only []
    split
    · exact o
    · exact procSession_own a s _ hi o hb

/-- The tail of `Room.AddSession`: the joiner gets the member list, an internal joiner triggers a participants list. -/
theorem roomAddSession_tail_own {b : Nat} (h1 : Hub) (hi1 : Inv h1) (r : String) (s : Nat) (hb1 : BkOf h1 s b)
    (a2 : Acc) (c2 : CoreEq h1 a2.h) (o2 : Own b h0 a2) :
    Own b h0 (notifySessionJoined a2 b r s) ∧ Own b h0 (publishUsersChangedWithInternal (notifySessionJoined a2 b r s) b r) := by
  have hi2 := hi1.congr c2
  have o3 := notifySessionJoined_own a2 b r s hi2 (c2.bkOf hb1) o2
  exact ⟨o3, publishUsersChangedWithInternal_own _ r (hi2.congr (notifySessionJoined_core _ _ _ _)) o3⟩

theorem roomAddSession_own {b : Nat} (a : Acc) (r : String) (s : Nat) (kind : Kind) (su : String)
    (hi1 : Inv (addMember a.h b r s su)) (hb : BkOf a.h s b) (o : Own b h0 a) :
    Own b h0 (roomAddSession a b r s kind su) := by
  have hb1 : BkOf (addMember a.h b r s su) s b := by
    intro y hy; rw [addMember_sess] at hy; exact hb y hy
  have oj : Own b h0 (pubRoom { a with h := addMember a.h b r s su } b r (.msg (.join [s]))) :=
    pubRoom_own _ r _ hi1 (o.setH _ (BkKeep.of_sess_eq (addMember_sess _ _ _ _ _)))
  have cj : CoreEq (addMember a.h b r s su) (pubRoom { a with h := addMember a.h b r s su } b r (.msg (.join [s]))).h :=
    coreOf (pubRoom_core _ _ _ _) rfl
  have ojp := publishUsersChangedWithInternal_own _ r (hi1.congr cj) oj
  have cjp := cj.trans (publishUsersChangedWithInternal_core (pubRoom { a with h := addMember a.h b r s su } b r (.msg (.join [s]))) b r)
  unfold roomAddSession
  simp only []
  by_cases hf : ((a.h.rooms b r).getD {}).members.contains s = true <;> cases kind <;>
    simp only [hf, reduceCtorEq, if_true, if_false]
  all_goals first
    | exact (roomAddSession_tail_own _ hi1 r s hb1 _ (CoreEq.refl _) (o.setH _ (BkKeep.of_sess_eq (addMember_sess _ _ _ _ _)))).1
    | exact (roomAddSession_tail_own _ hi1 r s hb1 _ (CoreEq.refl _) (o.setH _ (BkKeep.of_sess_eq (addMember_sess _ _ _ _ _)))).2
    | exact (roomAddSession_tail_own _ hi1 r s hb1 _ cj oj).1
    | exact (roomAddSession_tail_own _ hi1 r s hb1 _ cj oj).2
    | exact (roomAddSession_tail_own _ hi1 r s hb1 _ cjp ojp).1
    | exact (roomAddSession_tail_own _ hi1 r s hb1 _ cjp ojp).2

theorem joinTables_sess_self (h : Hub) (s : Nat) (x : Sess) (r rsid : String) (perms : Option (List String)) :
    ∃ y, (joinTables h s x r rsid perms).sess s = some y ∧ y.backend = x.backend ∧ y.kind = x.kind := by
  unfold joinTables
  by_cases hrs : rsid = "" <;> simp [hrs, hubf]

theorem doJoin_own {b : Nat} (a : Acc) (s : Nat) (r rsid : String) (perms : Option (List String)) (su : String)
    (hi : Inv a.h) (hk : ∀ x, a.h.sess s = some x → x.kind ≠ .virtual) (hb : BkOf a.h s b) (o : Own b h0 a) :
    Own b h0 (doJoin a s r rsid perms su) := by
  unfold doJoin
  simp only []
  have h1 := leaveRoom_inv a s hi
  have o1 := leaveRoom_own a s hi hb o
  have hb1 := (leaveRoom_sub a s hi).bkOf hb
  have hs := leaveRoom_sess a s hi s
  cases hx1 : (leaveRoom a s).1.h.sess s with
  | none => exact o1
  | some x =>
    simp only []
    simp only [hx1, if_true] at hs
    rcases hs with ⟨_, h0⟩ | ⟨y, x', hy, hx', e1, e2, e3, e4, e5, e6, e7, e8⟩
    · cases h0
    · cases hx'
      have hxb : x.backend = b := hb1 x hx1
      have hxk : x.kind ≠ .virtual := by rw [e2]; exact hk y hy
      have hj := join_inv h1 hx1 e8 hxk r rsid perms su
      have c1 := sendTo_core { (leaveRoom a s).1 with h := joinTables (leaveRoom a s).1.h s x r rsid perms } s (.room r)
      have c2 := addMember_congr c1 x.backend r s su
      obtain ⟨yj, hyj, hyb, hyk⟩ := joinTables_sess_self (leaveRoom a s).1.h s x r rsid perms
      -- the room reply goes to the session itself
      have o5 : Own b h0 (sendTo { (leaveRoom a s).1 with h := joinTables (leaveRoom a s).1.h s x r rsid perms } s (.room r)) := by
        refine sendTo_own _ s _ (o1.setH _ ?_) ?_
        · have hjs : ∀ k, k ≠ s → (joinTables (leaveRoom a s).1.h s x r rsid perms).sess k = (leaveRoom a s).1.h.sess k := by
            intro k hk; unfold joinTables
            by_cases hrs : rsid = "" <;> simp [hrs, hubf, hk]
          refine BkKeep.of_single s hjs hb1 ?_
          intro z hz
          have hz' : (joinTables (leaveRoom a s).1.h s x r rsid perms).sess s = some z := hz
          rw [hyj] at hz'; cases hz'; rw [hyb]; exact hxb
        show BkOf (joinTables (leaveRoom a s).1.h s x r rsid perms) (target (joinTables (leaveRoom a s).1.h s x r rsid perms) s) b
        rw [target_nonvirtual hyj (by rw [hyk]; exact hxk)]
        intro z hz; rw [hyj] at hz; cases hz; rw [hyb]; exact hxb
      subst hxb
      refine roomAddSession_own _ r s x.kind su (hj.congr c2) ?_ o5
      refine c1.bkOf ?_
      intro z hz
      show z.backend = x.backend
      have hz' : (joinTables (leaveRoom a s).1.h s x r rsid perms).sess s = some z := hz
      rw [hyj] at hz'; cases hz'; exact hyb

theorem kickBye_own {b : Nat} (a : Acc) (v : Nat) (hi : Inv a.h) (hb : BkOf a.h v b) (o : Own b h0 a) : Own b h0 (kickBye a v) := by
  unfold kickBye
  split
  · exact sendTo_own_inv a v _ hi (by simp) hb o
  · exact o

theorem disconnectByRoomSessionId_own {b : Nat} (a : Acc) (rs : String) (req : Nat) (hi : Inv a.h) (o : Own b h0 a) :
    Own b h0 (disconnectByRoomSessionId a rs b req) := by
  unfold disconnectByRoomSessionId
  cases hv : a.h.rs2sid rs with
  | none => exact o
  | some v =>
    simp only []
    cases hx : a.h.sess v with
    | none => exact o
    | some x =>
      simp only []
      split
      · exact o
      · rename_i hguard
        split
        · exact o
        · have hxb : x.backend = b := by
            have f := facts_rs.1
            simp only [f, Bool.true_and] at hguard
            exact Decidable.byContradiction (fun hne => hguard (by simpa using hne))
          have hb : BkOf a.h v b := by intro y hy; rw [hx] at hy; cases hy; exact hxb
          have h1 := leaveRoom_inv a v hi
          have o1 := leaveRoom_own a v hi hb o
          have hb1 := (leaveRoom_sub a v hi).bkOf hb
          have hcore : CoreEq (leaveRoom a v).1.h (kickBye (leaveRoom a v).1 v).h := by
            unfold kickBye; split
            · exact sendTo_core _ _ _
            · exact CoreEq.refl _
          have o2 := kickBye_own (leaveRoom a v).1 v h1 hb1 o1
          have hb2 := hcore.bkOf hb1
          generalize kickBye (leaveRoom a v).1 v = a2 at hcore o2 hb2 ⊢
          have hi2 := h1.congr hcore
          have o3 := closeSession_own a2 v hi2 hb2 o2
          have o4 : Own b h0 { closeSession a2 v with closes := (closeSession a2 v).closes.filter (· ≠ v) } :=
            ⟨o3.outs, fun t ht => o3.closes t (List.mem_filter.mp ht).1, o3.frame⟩
          split
          · exact o4.setH _ (BkKeep.of_sess_eq rfl)
          · exact o4

theorem processLeave_own {b : Nat} (a : Acc) (s : Nat) (x : Sess) (hi : Inv a.h) (hb : BkOf a.h s b) (o : Own b h0 a) :
    Own b h0 (processLeave a s x) := by
  unfold processLeave
  simp only []
  have h1 := leaveRoom_inv a s hi
  have o1 := leaveRoom_own a s hi hb o
  have hb1 := (leaveRoom_sub a s hi).bkOf hb
  split
  · have o2 := sendTo_own_inv (leaveRoom a s).1 s (.room "") h1 (by simp) hb1 o1
    split
    · exact o2.setH _ (BkKeep.of_sess_eq rfl)
    · exact o2
  · exact o1

theorem processAlready_own {b : Nat} (a : Acc) (s : Nat) (x : Sess) (rsid : String) (hi : Inv a.h)
    (hx : a.h.sess s = some x) (hroom : x.room.isSome = true) (hb : BkOf a.h s b) (o : Own b h0 a) :
    Own b h0 (processAlready a s x rsid) := by
  unfold processAlready
  simp only []
  have hne : (if rsid = "" then pubRs s else rsid) ≠ "" := by
    split
    · exact pub_ne_empty s
    · assumption
  generalize (if rsid = "" then pubRs s else rsid) = rs at hne ⊢
  have hh : Inv (if x.roomSess = rs then a.h else setSess (rsSet a.h s rs) s (some { x with roomSess := rs })) := by
    by_cases he : x.roomSess = rs
    · simp only [he, if_true]; exact hi
    · simp only [he, if_false]; exact rsUpdate_inv hi hx hroom _ hne
  have hkp : BkKeep b a.h (if x.roomSess = rs then a.h else setSess (rsSet a.h s rs) s (some { x with roomSess := rs })) := by
    by_cases he : x.roomSess = rs
    · simp only [he, if_true]; exact BkKeep.refl _
    · simp only [he, if_false]
      refine BkKeep.of_single s ?_ hb ?_
      · intro t e; simp [hubf, e]
      · intro z hz; simp [hubf] at hz; subst hz; exact hb x hx
  refine sendTo_own_inv _ s _ hh (by simp) ?_ (o.setH _ hkp)
  intro z hz
  have hxb := hb x hx
  by_cases he : x.roomSess = rs
  · simp only [he, if_true] at hz; exact hb z hz
  · simp only [he, if_false, hubf] at hz; cases hz; exact hxb

theorem processJoinReply_own {b : Nat} (a : Acc) (s : Nat) (x : Sess) (r rsid : String) (reply : JoinReply) (hi : Inv a.h)
    (hkk : ∀ y, a.h.sess s = some y → y.kind ≠ .virtual) (hx : a.h.sess s = some x) (hb : BkOf a.h s b) (o : Own b h0 a) :
    Own b h0 (processJoinReply a s x r rsid reply) := by
  have hxb : x.backend = b := hb x hx
  subst hxb
  have hd : Inv (if rsid ≠ "" then disconnectByRoomSessionId a rsid x.backend s else a).h := by
    split
    · exact disconnectByRoomSessionId_inv a rsid x.backend s hi
    · exact hi
  have od : Own x.backend h0 (if rsid ≠ "" then disconnectByRoomSessionId a rsid x.backend s else a) := by
    split
    · exact disconnectByRoomSessionId_own a rsid s hi o
    · exact o
  have hbd : BkOf (if rsid ≠ "" then disconnectByRoomSessionId a rsid x.backend s else a).h s x.backend := by
    split
    · exact (disconnectByRoomSessionId_sub a rsid x.backend s hi).bkOf hb
    · exact hb
  cases reply with
  | fail => unfold processJoinReply; exact sendTo_own_inv a s _ hi (by simp) hb o
  | err code => unfold processJoinReply; exact sendTo_own_inv _ s _ hd (by simp) hbd od
  | ok perms su =>
    unfold processJoinReply
    refine doJoin_own _ s r rsid perms su hd ?_ hbd od
    intro y hy
    split at hy
    · obtain ⟨y0, hy0, e, _⟩ := disconnectByRoomSessionId_sub a rsid x.backend s hi s y hy
      rw [e]; exact hkk y0 hy0
    · exact hkk y hy

theorem processRoom_own {b : Nat} (a : Acc) (s : Nat) (r rsid : String) (reply : JoinReply) (hi : Inv a.h)
    (hb : BkOf a.h s b) (o : Own b h0 a) : Own b h0 (processRoom a s r rsid reply) := by
  unfold processRoom
  cases hx : a.h.sess s with
  | none => exact o
  | some x =>
    simp only []
    have hkk : x.kind ≠ .virtual → ∀ y, a.h.sess s = some y → y.kind ≠ .virtual := by
      intro hk y hy; rw [hx] at hy; cases hy; exact hk
    by_cases hk : x.kind = .virtual
    · simp only [hk, if_true]; exact o
    · simp only [hk, if_false]
      by_cases hr : r = ""
      · simp only [hr, if_true]; exact processLeave_own a s x hi hb o
      · simp only [hr, if_false]
        by_cases hal : alreadyIn a.h x s r = true
        · simp only [hal, if_true]
          refine processAlready_own a s x rsid hi hx ?_ hb o
          unfold alreadyIn at hal
          cases hrm : a.h.rooms x.backend r with
          | none => simp [hrm] at hal
          | some rm =>
            simp only [hrm] at hal
            have hm : s ∈ rm.members := by simpa using hal
            obtain ⟨y, hy, _, hyr⟩ := hi.mem_room _ _ _ _ hrm hm
            rw [hx] at hy; cases hy; simp [hyr]
        · simp only [hal]
          by_cases hin : x.kind = .internal
          · simp only [hin, if_true]; exact doJoin_own a s r rsid none "" hi (hkk hk) hb o
          · simp only [hin, if_false]; exact processJoinReply_own a s x r rsid reply hi (hkk hk) hx hb o

/-! ### hello, resume, disconnect, bye -/

/-- The hub and the outputs change: sessions keep their backend, the new outputs go to `b`. -/
theorem Own.step {b : Nat} {a : Acc} (o : Own b h0 a) (h' : Hub) (hk : BkKeep b a.h h') (l : List Out)
    (hl : ∀ x, x ∈ l → ∀ b', x.bk = some b' → b' = b) : Own b h0 { a with h := h', outs := a.outs ++ l } :=
  (o.setH h' hk).append l rfl rfl hl (o.setH h' hk).closes

theorem single_bk {b : Nat} (c : Nat) (m : Msg) (bk : Option Nat) (h : ∀ b', bk = some b' → b' = b) :
    ∀ x, x ∈ [(⟨c, m, bk⟩ : Out)] → ∀ b', x.bk = some b' → b' = b := by
  intro x hx b' hb'; simp only [List.mem_singleton] at hx; subst hx; exact h b' hb'

theorem helloTables_sess (h : Hub) (c b : Nat) (kind : Kind) (user : String) (d i : Bool) (t : Nat) :
    (helloTables h c b kind user d i).sess t = if t = h.nextSid then some (helloSess c b kind user d i) else h.sess t := by
  unfold helloTables
  by_cases hu : user = "" <;> simp [hu, hubf]

theorem processHello_own {b : Nat} (a : Acc) (c : Nat) (kind : Kind) (user : String) (d i : Bool) (hi : Inv a.h) (o : Own b h0 a) :
    Own b h0 (processHello a c b kind user d i) := by
  unfold processHello
  split
  · exact o
  · simp only []
    split
    · exact o.step { a.h with expectHello := removeL a.h.expectHello c ++ [c] } (BkKeep.of_sess_eq rfl) _
        (single_bk _ _ (some b) (by intro b' hb'; exact (Option.some.inj hb').symm))
    · refine o.step _ ?_ _ (single_bk _ _ (some b) (by intro b' hb'; exact (Option.some.inj hb').symm))
      have hnew : a.h.sess a.h.nextSid = none := hi.fresh _ (Nat.le_refl _)
      refine BkKeep.of_single a.h.nextSid ?_ ?_ ?_
      · intro t e; rw [helloTables_sess]; simp [e]
      · intro z hz; rw [hnew] at hz; cases hz
      · intro z hz; rw [helloTables_sess] at hz; simp at hz; subst hz; rfl

theorem closeConn_keep {b : Nat} (h : Hub) (c : Nat) : BkKeep b h (closeConn h c) := BkKeep.of_sess_eq rfl

theorem resumeTables_sess (h : Hub) (c s : Nat) (x : Sess) (t : Nat) :
    (resumeTables h c s x).sess t = if t = s then some { x with conn := some c, pending := [] } else h.sess t := by
  unfold resumeTables
  cases x.conn <;> simp [hubf]

theorem flushPending_own {b : Nat} (s : Nat) : ∀ (l : List Msg) (a : Acc), BkOf a.h s b → Own b h0 a → Own b h0 (flushPending a s l) := by
  intro l
  induction l with
  | nil => intro a _ o; exact o
  | cons m l ih =>
    intro a hb o
    unfold flushPending at *
    simp only [List.foldl_cons]
    refine ih _ ?_ ?_
    · split
      · split <;> exact hb
      · exact hb
    · split
      · rename_i y hy
        split
        · refine ⟨?_, ?_, o.frame⟩
          · intro x hx b' hb'
            rcases List.mem_append.mp hx with h1 | h1
            · exact o.outs x h1 b' hb'
            · simp only [List.mem_singleton] at h1; subst h1
              simp only [Option.some.injEq] at hb'; rw [← hb']; exact hb y hy
          · intro t ht
            split at ht
            · rcases List.mem_append.mp ht with h1 | h1
              · exact o.closes t h1
              · simp only [List.mem_singleton] at h1; subst h1; exact hb
            · exact o.closes t ht
        · exact o
      · exact o

theorem notifyResumed_own {b : Nat} (a : Acc) (s : Nat) (hi : Inv a.h) (hb : BkOf a.h s b) (o : Own b h0 a) :
    Own b h0 (notifyResumed a s) := by
  unfold notifyResumed
  split
  · exact o
  · split
    · exact o
    · split
      · exact o
      · simp only []
        split
        · exact o
        · exact sendTo_own_inv a s _ hi (by simp) hb o

theorem processResume_own {b : Nat} (a : Acc) (c : Nat) (os : Option Nat) (hi : Inv a.h)
    (hb : ∀ s, os = some s → BkOf a.h s b) (o : Own b h0 a) : Own b h0 (processResume a c os) := by
  unfold processResume
  by_cases hg : (!a.h.connOpen c || (a.h.connSess c).isSome) = true
  · simp only [hg, if_true]; exact o
  · simp only [hg]
    have hopen : a.h.connOpen c = true := by
      cases h : a.h.connOpen c <;> simp_all
    have hfree : a.h.connSess c = none := by
      cases h : a.h.connSess c <;> simp_all
    have onone : Own b h0 { a with outs := a.outs ++ [⟨c, .error "no_such_session", none⟩] } :=
      o.step _ (BkKeep.of_sess_eq rfl) _ (single_bk _ _ none (by intro b' hb'; cases hb'))
    cases os with
    | none => exact onone
    | some s =>
      simp only []
      cases hx : a.h.sess s with
      | none => exact onone
      | some x =>
        simp only []
        by_cases hk : x.kind = .virtual
        · simp only [hk, if_true]; exact onone
        · simp only [hk, if_false]
          have hxb : x.backend = b := hb s rfl x hx
          have hr := resumeTables_inv hi hx hk hopen hfree
          have hkp : BkKeep b a.h (resumeTables a.h c s x) := by
            refine BkKeep.of_single s ?_ (hb s rfl) ?_
            · intro t e; rw [resumeTables_sess]; simp [e]
            · intro z hz; rw [resumeTables_sess] at hz; simp at hz; subst hz; exact hxb
          have o1 : Own b h0 (resumeAcc a c s x) := by
            unfold resumeAcc
            simp only []
            refine ⟨?_, fun t ht => hkp.keep t (o.closes t ht), fun t z h1 h2 => hkp.frame t z (o.frame t z h1 h2) h2⟩
            intro y hy b' hb'
            rcases List.mem_append.mp hy with h1 | h1
            · rcases List.mem_append.mp h1 with h2 | h2
              · exact o.outs y h2 b' hb'
              · cases hc : x.conn with
                | none => simp [hc] at h2
                | some p =>
                  simp only [hc, List.mem_singleton] at h2; subst h2
                  simp only [Option.some.injEq] at hb'; omega
            · simp only [List.mem_singleton] at h1; subst h1
              simp only [Option.some.injEq] at hb'; omega
          have hbs : BkOf (resumeAcc a c s x).h s b := hkp.keep s (hb s rfl)
          have o2 := flushPending_own s x.pending (resumeAcc a c s x) hbs o1
          have hA : (flushPending (resumeAcc a c s x) s x.pending).h = resumeTables a.h c s x := by
            rw [flushPending_h]; rfl
          by_cases hn : needsParticipants x.pending = true
          · simp only [hn, if_true]
            refine notifyResumed_own _ s (by rw [hA]; exact hr) ?_ o2
            rw [hA]; exact hbs
          · simp only [hn, Bool.false_eq_true, if_false]; exact o2

theorem disconnectTables_sess_keep {b : Nat} (h : Hub) (c s : Nat) (hb : BkOf h s b) : BkKeep b h (disconnectTables h c s) := by
  have hsess : ∀ t, (disconnectTables h c s).sess t =
      if t = s then (h.sess s).map (fun x => if x.conn = some c then { x with conn := none } else x) else h.sess t := by
    intro t
    unfold disconnectTables modSess
    simp only [hubf]
    cases hs : h.sess s with
    | none => by_cases e : t = s <;> simp [hs, e, hubf]
    | some x => by_cases e : t = s <;> simp [hs, hubf, e]
  refine BkKeep.of_single s (fun t e => by rw [hsess]; simp [e]) hb ?_
  intro z hz
  rw [hsess] at hz
  simp only [if_true] at hz
  cases hs : h.sess s with
  | none => simp [hs] at hz
  | some x =>
    simp only [hs, Option.map_some, Option.some.injEq] at hz
    subst hz
    split <;> exact hb x hs

theorem processDisconnect_own {b : Nat} (a : Acc) (c : Nat) (hb : ∀ s, a.h.connSess c = some s → BkOf a.h s b)
    (o : Own b h0 a) : Own b h0 (processDisconnect a c) := by
  unfold processDisconnect
  split
  · exact o
  · split
    · exact o.setH _ (closeConn_keep _ _)
    · rename_i s hs
      exact o.setH _ (disconnectTables_sess_keep _ _ _ (hb s hs))

theorem processBye_own {b : Nat} (a : Acc) (c : Nat) (hi : Inv a.h)
    (hb : ∀ s, a.h.connSess c = some s → BkOf a.h s b) (o : Own b h0 a) : Own b h0 (processBye a c) := by
  unfold processBye
  cases hcs : a.h.connSess c with
  | none =>
    simp only []
    split
    · exact o.step _ (BkKeep.of_sess_eq rfl) _ (single_bk _ _ none (by intro b' hb'; cases hb'))
    · exact o
  | some s =>
    simp only []
    have hbs := hb s hcs
    have o1 : Own b h0 { a with outs := a.outs ++ [⟨c, .bye "", (a.h.sess s).map (·.backend)⟩] } := by
      refine o.step _ (BkKeep.of_sess_eq rfl) _ (single_bk _ _ _ ?_)
      intro b' hb'
      cases hx : a.h.sess s with
      | none => simp [hx] at hb'
      | some x => simp [hx] at hb'; rw [← hb']; exact hbs x hx
    have o2 := processDisconnect_own { a with outs := a.outs ++ [⟨c, .bye "", (a.h.sess s).map (·.backend)⟩] } c hb o1
    have hi2 := processDisconnect_inv { a with outs := a.outs ++ [⟨c, .bye "", (a.h.sess s).map (·.backend)⟩] } c hi
    refine closeSession_own _ s hi2 ?_ o2
    -- the session keeps its backend through the disconnect
    have : BkKeep b a.h (processDisconnect { a with outs := a.outs ++ [⟨c, .bye "", (a.h.sess s).map (·.backend)⟩] } c).h := by
      unfold processDisconnect
      split
      · exact BkKeep.refl _
      · simp only [hcs]; exact disconnectTables_sess_keep _ _ _ hbs
    exact this.keep s hbs

/-! ### messages, virtual sessions, in-call flags -/

theorem facts_guards : Generated.Hub.messageBackendChecked = true ∧ Generated.Hub.controlBackendChecked = true := by decide

theorem TBk.of_sess_eq {h h' : Hub} {l b : Nat} (e : h'.sess = h.sess) (t : TBk h l b) : TBk h' l b := by
  unfold TBk BkOf target at *; rw [e]; exact t

theorem pubRoom_own' {b : Nat} (a : Acc) (r : String) (am : AMsg) (hl : ∀ l, l ∈ a.h.roomL b r → TBk a.h l b) (o : Own b h0 a) :
    Own b h0 (pubRoom a b r am) :=
  foldl_procClient_own am _ a o hl

theorem publishUsersChangedWithInternal_own' {b : Nat} (a : Acc) (r : String)
    (hl : ∀ l, l ∈ a.h.roomL b r → TBk a.h l b) (o : Own b h0 a) : Own b h0 (publishUsersChangedWithInternal a b r) := by
  unfold publishUsersChangedWithInternal
  split
  · exact o
  · simp only []
    split
    · exact o
    · exact pubRoom_own' a r _ hl o

theorem processMessage_own {b : Nat} (a : Acc) (s : Nat) (ctl : Bool) (rc : Rcpt) (data : String) (hi : Inv a.h)
    (hb : BkOf a.h s b) (o : Own b h0 a) : Own b h0 (processMessage a s ctl rc data) := by
  unfold processMessage
  cases hx : a.h.sess s with
  | none => exact o
  | some x =>
    simp only []
    have hxb : x.backend = b := hb x hx
    subst hxb
    split
    · exact o
    · split
      · exact o
      · cases rc with
        | session ot =>
          cases ot with
          | none => exact o
          | some t =>
            simp only []
            cases hy : a.h.sess t with
            | none => exact o
            | some y =>
              simp only []
              by_cases hyb : y.backend = x.backend
              · have hg : ((if ctl then Generated.Hub.controlBackendChecked else Generated.Hub.messageBackendChecked) &&
                    decide (y.backend ≠ x.backend)) = false := by simp [hyb]
                simp only [hg, Bool.false_eq_true, if_false]
                have hbt : BkOf a.h t x.backend := by intro z hz; rw [hy] at hz; cases hz; exact hyb
                by_cases hts : t = s
                · simp only [hts, if_true]; exact o
                · simp only [hts, if_false]
                  by_cases hk : y.kind = .virtual
                  · simp only [hk, if_true]
                    -- the internal client of the virtual session
                    obtain ⟨_, _, _, hp⟩ := hi.virt t y hy hk
                    rcases hp with h1 | ⟨p, hp, hpk, hpb, _⟩
                    · simp at h1
                    · refine sendTo_own a y.parent _ o ?_
                      rw [target_nonvirtual hp (by rw [hpk]; decide)]
                      intro z hz; rw [hp] at hz; cases hz; rw [hpb]; exact hyb
                  · simp only [hk, if_false]
                    exact sendTo_own_inv a t _ hi (by simp) hbt o
              · have hg : ((if ctl then Generated.Hub.controlBackendChecked else Generated.Hub.messageBackendChecked) &&
                    decide (y.backend ≠ x.backend)) = true := by
                  cases ctl <;> simp [facts_guards.1, facts_guards.2, hyb]
                simp only [hg, if_true]; exact o
        | user u =>
          simp only []
          split
          · exact o
          · split
            · exact o
            · exact pubUser_own a u _ hi o
        | room =>
          simp only []
          split
          · exact o
          · exact pubRoom_own a _ _ hi o
        | call =>
          simp only []
          split
          · exact o
          · exact pubRoom_own a _ _ hi o

theorem virtualTables_sess (h : Hub) (s : Nat) (x : Sess) (r vkey user : String) (ic : Option Nat) (t : Nat) :
    (virtualTables h s x r vkey user ic).sess t =
      if t = h.nextSid then some (virtSess s x r vkey user ic)
      else if t = s then some { x with children := x.children ++ [h.nextSid] } else h.sess t := by
  unfold virtualTables
  simp only [hubf]

theorem addVirtual_own {b : Nat} (a : Acc) (s : Nat) (r vkey user : String) (ic : Option Nat) (ok : Bool) (hi : Inv a.h)
    (hb : BkOf a.h s b) (o : Own b h0 a) : Own b h0 (addVirtual a s r vkey user ic ok) := by
  unfold addVirtual
  cases hx : a.h.sess s with
  | none => exact o
  | some x =>
    simp only []
    have hxb : x.backend = b := hb x hx
    subst hxb
    by_cases hk : x.kind = .internal
    · simp only [hk, ne_eq, not_true_eq_false, if_false]
      cases hrm : a.h.rooms x.backend r with
      | none => exact o
      | some rm =>
        simp only []
        by_cases hok : ok = true
        · simp only [hok, Bool.not_true, Bool.false_eq_true, if_false]
          have hnew : a.h.sess a.h.nextSid = none := hi.fresh _ (Nat.le_refl _)
          have hsne : s ≠ a.h.nextSid := by intro e; rw [e, hnew] at hx; cases hx
          have hkp : BkKeep x.backend a.h (virtualTables a.h s x r vkey user ic) := by
            refine ⟨?_, ?_⟩
            · intro t hbt z hz
              rw [virtualTables_sess] at hz
              by_cases e1 : t = a.h.nextSid
              · simp only [e1, if_true] at hz; cases hz; rfl
              · by_cases e2 : t = s
                · subst e2; simp only [e1, if_true, if_false] at hz; cases hz; rfl
                · simp only [e1, e2, if_false] at hz; exact hbt z hz
            · intro t z hz hn
              rw [virtualTables_sess]
              by_cases e1 : t = a.h.nextSid
              · rw [e1, hnew] at hz; cases hz
              · by_cases e2 : t = s
                · subst e2; rw [hx] at hz; cases hz; exact absurd rfl hn
                · simp only [e1, e2, if_false]; exact hz
          refine roomAddSession_own _ r a.h.nextSid .virtual "" (virtual_inv hi hx hk r vkey user ic) ?_ (o.setH _ hkp)
          intro z hz
          have hz' : (virtualTables a.h s x r vkey user ic).sess a.h.nextSid = some z := hz
          rw [virtualTables_sess] at hz'
          simp only [if_true] at hz'; cases hz'; rfl
        · have hok' : ok = false := by cases ok <;> simp_all
          simp only [hok', Bool.not_false, if_true]
          exact sendTo_own_inv a s _ hi (by simp) hb o
    · simp only [hk, ne_eq, not_false_eq_true, if_true]; exact o

theorem vtableForget_inv {h : Hub} (hi : Inv h) (s : Nat) (vkey : String) :
    Inv ({ h with vtable := fun p k => if p = s ∧ k = vkey then none else h.vtable p k } : Hub) := by
  obtain ⟨f1, f2, f3, f4, f5, f6, f7, f8, f9, f10, f11, f12, f13, f14, f15, f16, f17, f18, f19, f20, f21, f22, f23, f24, f25⟩ := hi
  constructor
  all_goals first | assumption | skip
  · intro p k v' hv'
    simp only [] at hv'
    split at hv'
    · cases hv'
    · exact f15 p k v' hv'

theorem removeVirtual_own {b : Nat} (a : Acc) (s : Nat) (r vkey : String) (hi : Inv a.h)
    (hb : BkOf a.h s b) (o : Own b h0 a) : Own b h0 (removeVirtual a s r vkey) := by
  unfold removeVirtual
  cases hx : a.h.sess s with
  | none => exact o
  | some x =>
    simp only []
    by_cases hk : x.kind = .internal
    · simp only [hk, ne_eq, not_true_eq_false, if_false]
      cases hrm : a.h.rooms x.backend r with
      | none => exact o
      | some rm =>
        simp only []
        cases hv : a.h.vtable s vkey with
        | none => exact o
        | some v =>
          simp only []
          refine closeSession_own _ v (vtableForget_inv hi s vkey) ?_ (o.setH _ (BkKeep.of_sess_eq rfl))
          -- the virtual session belongs to the backend of its internal client
          intro z hz
          have hz' : a.h.sess v = some z := hz
          obtain ⟨vx, hvx, hvk, hvp, _⟩ := hi.vtable s vkey v hv
          have hzv : z = vx := by rw [hvx] at hz'; exact (Option.some.inj hz').symm
          subst hzv
          obtain ⟨_, _, _, hp⟩ := hi.virt v z hvx hvk
          rcases hp with h1 | ⟨p, hp, _, hpb, _⟩
          · simp at h1
          · rw [hvp, hx] at hp; cases hp; rw [← hpb]; exact hb x hx
    · simp only [hk, ne_eq, not_false_eq_true, if_true]; exact o

theorem roomInCallUpdate_own {b : Nat} (a : Acc) (room : Option String) (s ic : Nat) (hi : Inv a.h) (o : Own b h0 a) :
    Own b h0 (roomInCallUpdate a b room s ic) := by
  unfold roomInCallUpdate
  cases room with
  | none => exact o
  | some r =>
    simp only []
    cases hrm : a.h.rooms b r with
    | none => exact o
    | some rm =>
      simp only []
      refine publishUsersChangedWithInternal_own' _ r ?_ (o.setH _ (BkKeep.of_sess_eq rfl))
      intro l hl
      exact (hi.roomL_tbk (by simpa [hubf] using hl)).of_sess_eq rfl

theorem internalInCall_own {b : Nat} (a : Acc) (s : Nat) (ic : Nat) (hi : Inv a.h) (hb : BkOf a.h s b) (o : Own b h0 a) :
    Own b h0 (internalInCall a s ic) := by
  unfold internalInCall
  cases hx : a.h.sess s with
  | none => exact o
  | some x =>
    simp only []
    have hxb : x.backend = b := hb x hx
    subst hxb
    split
    · exact o
    · split
      · exact o
      · have h1 : Inv (setSess a.h s (some { x with inCall := ic })) :=
          hi.setSess_same hx rfl rfl rfl rfl rfl rfl rfl rfl
        exact roomInCallUpdate_own _ _ _ _ h1 (o.setH _ (BkKeep.setSess hx rfl rfl))

/-! ### room API -/

/-- A fold of deliveries (each keeps the core of the hub) keeps `Own`. -/
theorem foldl_own {b : Nat} {α : Type} (f : Acc → α → Acc) (hc : ∀ a x, CoreEq a.h (f a x).h)
    (hf : ∀ a x, Inv a.h → Own b h0 a → Own b h0 (f a x)) :
    ∀ (l : List α) (a : Acc), Inv a.h → Own b h0 a → Own b h0 (l.foldl f a) := by
  intro l
  induction l with
  | nil => intro a _ o; exact o
  | cons x l ih => intro a hi o; exact ih _ (hi.congr (hc a x)) (hf a x hi o)

theorem pubUsers_own {b : Nat} (a : Acc) (users : List String) (m : Msg) (hi : Inv a.h) (o : Own b h0 a) :
    Own b h0 (pubUsers a b users m) :=
  foldl_own _ (fun a u => pubUser_core a b u (.msg m)) (fun a u hi o => pubUser_own a u _ hi o) users a hi o

theorem lookupRs_bk {h : Hub} {b : Nat} {rs : String} {s : Nat} (hl : lookupRs h b rs = some s) : BkOf h s b := by
  unfold lookupRs at hl
  cases h1 : h.rs2sid rs with
  | none => simp [h1] at hl
  | some t =>
    simp only [h1] at hl
    cases h2 : h.sess t with
    | none => simp [h2] at hl
    | some x =>
      simp only [h2, facts_rs.1, Bool.true_and] at hl
      split at hl
      · cases hl
      · rename_i hg
        cases hl
        intro y hy; rw [h2] at hy; cases hy
        exact Decidable.byContradiction (fun hne => hg (by simpa using hne))

theorem sendToRs_own {b : Nat} (m : AMsg) (a : Acc) (rs : String) (hi : Inv a.h) (o : Own b h0 a) : Own b h0 (sendToRs b m a rs) := by
  unfold sendToRs
  split
  · rename_i s hs
    exact procSession_own a s m hi o (lookupRs_bk hs)
  · exact o

theorem apiInvite_own {b : Nat} (a : Acc) (r : String) (us all : List String) (hi : Inv a.h) (o : Own b h0 a) :
    Own b h0 (apiInvite a b r us all) := by
  unfold apiInvite
  exact pubUsers_own _ _ _ (hi.congr (pubUsers_core _ _ _ _)) (pubUsers_own a us _ hi o)

theorem apiDisinvite_own {b : Nat} (a : Acc) (r : String) (us rss all : List String) (hi : Inv a.h) (o : Own b h0 a) :
    Own b h0 (apiDisinvite a b r us rss all) := by
  unfold apiDisinvite
  have o1 := pubUsers_own a us (.roomlist "disinvite" r) hi o
  have hi1 := hi.congr (pubUsers_core a b us (.roomlist "disinvite" r))
  have o2 := foldl_own (sendToRs b (.msg (.roomlist "disinvite" r))) (sendToRs_core b _)
    (fun a rs hi o => sendToRs_own _ a rs hi o) rss _ hi1 o1
  have hi2 := hi1.congr (foldl_core _ (sendToRs_core b (.msg (.roomlist "disinvite" r))) rss _)
  exact pubUsers_own _ _ _ hi2 o2

theorem apiMessage_own {b : Nat} (a : Acc) (r data : String) (hi : Inv a.h) (o : Own b h0 a) : Own b h0 (apiMessage a b r data) := by
  unfold apiMessage
  split
  · exact o
  · split
    · exact o
    · exact pubRoom_own a r _ hi o

theorem apiSwitchto_own {b : Nat} (a : Acc) (r room : String) (rss : List String) (hi : Inv a.h) (o : Own b h0 a) :
    Own b h0 (apiSwitchto a b r room rss) := by
  unfold apiSwitchto
  simp only []
  split
  · exact o
  · split
    · exact o
    · -- every looked-up session belongs to `b`; deliveries keep that
      have gen : ∀ (l : List Nat) (a' : Acc), Inv a'.h → (∀ s, s ∈ l → BkOf a'.h s b) → Own b h0 a' →
          Own b h0 (l.foldl (fun a s => procSession a s (.msg (.switchto room))) a') := by
        intro l
        induction l with
        | nil => intro a' _ _ o'; exact o'
        | cons s l ih =>
          intro a' hi' hb' o'
          simp only [List.foldl_cons]
          have c := procSession_core a' s (.msg (.switchto room))
          exact ih _ (hi'.congr c) (fun t ht => c.bkOf (hb' t (List.mem_cons_of_mem _ ht)))
            (procSession_own a' s _ hi' o' (hb' s List.mem_cons_self))
      refine gen _ a hi ?_ o
      intro s hs
      obtain ⟨rs, _, hrs⟩ := List.mem_filterMap.mp hs
      exact lookupRs_bk hrs

theorem sendAll_own {b : Nat} (m : Msg) : ∀ (l : List Nat) (a : Acc), Inv a.h → (∀ s, s ∈ l → BkOf a.h s b) → Own b h0 a →
    Own b h0 (sendAll a l m) := by
  intro l
  unfold sendAll
  induction l with
  | nil => intro a _ _ o; exact o
  | cons s l ih =>
    intro a hi hb o
    simp only [List.foldl_cons]
    have c := sendTo_core a s m
    exact ih _ (hi.congr c) (fun t ht => c.bkOf (hb t (List.mem_cons_of_mem _ ht)))
      (sendTo_own_inv a s m hi (by simp) (hb s List.mem_cons_self) o)

theorem apiIncallAll_own {b : Nat} (a : Acc) (r : String) (ic : Nat) (hi : Inv a.h) (o : Own b h0 a) :
    Own b h0 (apiIncallAll a b r ic) := by
  unfold apiIncallAll
  cases hrm : a.h.rooms b r with
  | none => exact o
  | some rm =>
    simp only []
    have hin := hi.incall b r rm
    have hmem : ∀ s, s ∈ rm.members → BkOf a.h s b := by
      intro s hs y hy
      obtain ⟨z, hz, hzb, _⟩ := hi.mem_room b r rm s hrm hs
      rw [hy] at hz; cases hz; exact hzb
    split
    · split
      · exact o
      · refine sendAll_own _ _ _ (hi.setRoom_same hrm rfl ?_) ?_ (o.setH _ (BkKeep.of_sess_eq rfl))
        · intro t ht
          simp only [List.mem_append, List.mem_filter] at ht
          rcases ht with h1 | h1
          · exact hin t hrm h1
          · exact h1.1.1.1
        · intro s hs
          exact hmem s (List.mem_filter.mp (List.mem_filter.mp hs).1).1
    · split
      · refine sendAll_own _ _ _ (hi.setRoom_same hrm rfl (by intro t ht; cases ht)) ?_ (o.setH _ (BkKeep.of_sess_eq rfl))
        intro s hs
        exact hmem s (List.mem_filter.mp hs).1
      · exact o

theorem apiIncall_own {b : Nat} (a : Acc) (r : String) (ch us : List (String × Nat)) (hi : Inv a.h) (o : Own b h0 a) :
    Own b h0 (apiIncall a b r ch us) := by
  unfold apiIncall
  simp only []
  split
  · exact o
  · cases hrm : a.h.rooms b r with
    | none => exact o
    | some rm =>
      simp only [facts_incall, if_true]
      refine pubRoom_own' _ r _ ?_ (o.setH _ (BkKeep.of_sess_eq rfl))
      intro l hl
      exact (hi.roomL_tbk (by simpa [hubf] using hl)).of_sess_eq rfl

theorem sendPerms_own {b : Nat} (a : Acc) (e : Nat × Option (List String)) (hi : Inv a.h) (hb : BkOf a.h e.1 b) (o : Own b h0 a) :
    Own b h0 (sendPerms a e) := by
  unfold sendPerms
  split
  · exact procSession_own a e.1 _ hi o hb
  · exact o

theorem apiParticipants_own {b : Nat} (a : Acc) (r : String) (ch : List (String × Option (List String)))
    (us : List String) (hi : Inv a.h) (o : Own b h0 a) : Own b h0 (apiParticipants a b r ch us) := by
  unfold apiParticipants
  simp only []
  split
  · exact o
  · have gen : ∀ (l : List (Nat × Option (List String))) (a' : Acc), Inv a'.h → (∀ e, e ∈ l → BkOf a'.h e.1 b) → Own b h0 a' →
        Own b h0 (l.foldl sendPerms a') := by
      intro l
      induction l with
      | nil => intro a' _ _ o'; exact o'
      | cons e l ih =>
        intro a' hi' hb' o'
        simp only [List.foldl_cons]
        have c := sendPerms_core a' e
        exact ih _ (hi'.congr c) (fun t ht => c.bkOf (hb' t (List.mem_cons_of_mem _ ht)))
          (sendPerms_own a' e hi' (hb' e List.mem_cons_self) o')
    have c1 := foldl_core sendPerms sendPerms_core
      (ch.filterMap fun (rs, p) => (lookupRs a.h b rs).map fun s => (s, p)) a
    have o1 : Own b h0 ((ch.filterMap fun (rs, p) => (lookupRs a.h b rs).map fun s => (s, p)).foldl sendPerms a) := by
      refine gen _ a hi ?_ o
      intro e he
      obtain ⟨⟨rs, p⟩, _, hrs⟩ := List.mem_filterMap.mp he
      simp only [Option.map_eq_some_iff] at hrs
      obtain ⟨s, hs, rfl⟩ := hrs
      exact lookupRs_bk hs
    split
    · exact o1
    · exact pubRoom_own _ r _ (hi.congr c1) o1

/-! #### deleting a room -/

theorem leaveRoom_gone_acc (a : Acc) (s : Nat) {x : Sess} {r : String} (hx : a.h.sess s = some x) (hr : x.room = some r)
    (hrm : a.h.rooms x.backend r = none) : (leaveRoom a s).1 = { a with h := leaveGone a.h s x r } := by
  unfold leaveRoom leaveGone roomRemoveSession
  simp only [hx, hr]
  have hrooms : (setSess (rsDelete (if x.kind = .virtual then a.h else
      setRoomL a.h x.backend r (removeL (a.h.roomL x.backend r) s)) s) s
      (some { x with room := none, roomSess := "", seenJoin := [] })).rooms x.backend r = none := by
    simp only [hubf]; split <;> simp [hrm, hubf]
  simp only [hrooms]

theorem leaveGone_sess (h : Hub) (s : Nat) (x : Sess) (r : String) (t : Nat) :
    (leaveGone h s x r).sess t = if t = s then some { x with room := none, roomSess := "", seenJoin := [] } else h.sess t := by
  unfold leaveGone
  by_cases hk : x.kind = .virtual <;> simp only [hk, if_true, if_false, hubf]

/-- One former member of a deleted room: nobody else is told (the room is gone), the member itself gets
the room message. -/
theorem deleteLeave_own {b : Nat} (a : Acc) (s : Nat) (l : List Nat) {r : String} (hd : DelState b r (s :: l) a.h)
    (hbs : BkOf a.h s b) (o : Own b h0 a) : Own b h0 (deleteLeave a s) ∧ BkKeep b a.h (deleteLeave a s).h := by
  obtain ⟨hi, hgone, hQ⟩ := hd
  unfold deleteLeave
  cases hx : a.h.sess s with
  | none => exact ⟨o, BkKeep.refl _⟩
  | some x =>
    simp only []
    rcases hQ s x hx List.mem_cons_self with hr | ⟨hb, hr⟩
    · have e : (leaveRoom a s).1 = a := by unfold leaveRoom; simp only [hx, hr]
      rw [e]
      by_cases hc : (x.kind ≠ .virtual && x.conn.isSome) = true
      · simp only [hc, if_true]
        have hk : x.kind ≠ .virtual := by
          simp only [ne_eq, Bool.and_eq_true, decide_eq_true_eq] at hc; exact hc.1
        exact ⟨sendTo_own a s _ o (by rw [target_nonvirtual hx hk]; exact hbs),
          sendTo_keep a s _ (by rw [target_nonvirtual hx hk]; exact hbs)⟩
      · simp only [hc]; exact ⟨o, BkKeep.refl _⟩
    · have hrm : a.h.rooms x.backend r = none := by rw [hb]; exact hgone
      rw [leaveRoom_gone_acc a s hx hr hrm]
      have hkp : BkKeep b a.h (leaveGone a.h s x r) := by
        refine BkKeep.of_single s ?_ hbs ?_
        · intro t e; rw [leaveGone_sess]; simp [e]
        · intro z hz; rw [leaveGone_sess] at hz; simp at hz; subst hz; exact hb
      have o1 : Own b h0 { a with h := leaveGone a.h s x r } := o.setH _ hkp
      by_cases hc : (x.kind ≠ .virtual && x.conn.isSome) = true
      · simp only [hc, if_true]
        have hk : x.kind ≠ .virtual := by
          simp only [ne_eq, Bool.and_eq_true, decide_eq_true_eq] at hc; exact hc.1
        have hs' : (leaveGone a.h s x r).sess s = some { x with room := none, roomSess := "", seenJoin := [] } := by
          rw [leaveGone_sess]; simp
        have htb : BkOf (leaveGone a.h s x r) (target (leaveGone a.h s x r) s) b := by
          rw [target_nonvirtual hs' hk]
          intro z hz; rw [hs'] at hz; cases hz; exact hb
        exact ⟨sendTo_own _ s _ o1 htb, hkp.trans (sendTo_keep { a with h := leaveGone a.h s x r } s _ htb)⟩
      · simp only [hc]; exact ⟨o1, hkp⟩

theorem foldl_deleteLeave_own {b : Nat} {r : String} : ∀ (l : List Nat) (a : Acc), l.Nodup → DelState b r l a.h →
    (∀ t, t ∈ l → BkOf a.h t b) → Own b h0 a → Own b h0 (l.foldl deleteLeave a) := by
  intro l
  induction l with
  | nil => intro a _ _ _ o; exact o
  | cons s l ih =>
    intro a hnd hd hb o
    simp only [List.foldl_cons]
    obtain ⟨o1, hk1⟩ := deleteLeave_own a s l hd (hb s List.mem_cons_self) o
    exact ih _ (List.nodup_cons.mp hnd).2 (deleteLeave_step a s l hnd hd)
      (fun t ht => hk1.keep t (hb t (List.mem_cons_of_mem _ ht))) o1

theorem notifyRoomDeleted_own {b : Nat} (a : Acc) (s : Nat) (hi : Inv a.h) (hb : BkOf a.h s b) (o : Own b h0 a) :
    Own b h0 (notifyRoomDeleted a s) := by
  unfold notifyRoomDeleted
  split
  · split
    · exact sendTo_own_inv a s _ hi (by simp) hb o
    · exact o
  · exact o

theorem apiDelete_own {b : Nat} (a : Acc) (r : String) (hi : Inv a.h) (o : Own b h0 a) : Own b h0 (apiDelete a b r) := by
  unfold apiDelete
  cases hrm : a.h.rooms b r with
  | none => exact o
  | some rm =>
    simp only []
    have hmem : ∀ s, s ∈ rm.members → BkOf a.h s b := by
      intro s hs y hy
      obtain ⟨z, hz, hzb, _⟩ := hi.mem_room b r rm s hrm hs
      rw [hy] at hz; cases hz; exact hzb
    have ncore : ∀ a s, CoreEq a.h (notifyRoomDeleted a s).h := by
      intro a s; unfold notifyRoomDeleted; core_auto
    have c1 : CoreEq a.h (rm.members.foldl notifyRoomDeleted a).h := foldl_core _ ncore _ _
    have o1 : Own b h0 (rm.members.foldl notifyRoomDeleted a) := by
      have gen : ∀ (l : List Nat) (a' : Acc), Inv a'.h → (∀ s, s ∈ l → BkOf a'.h s b) → Own b h0 a' →
          Own b h0 (l.foldl notifyRoomDeleted a') := by
        intro l
        induction l with
        | nil => intro a' _ _ o'; exact o'
        | cons s l ih =>
          intro a' hi' hb' o'
          simp only [List.foldl_cons]
          have c := ncore a' s
          exact ih _ (hi'.congr c) (fun t ht => c.bkOf (hb' t (List.mem_cons_of_mem _ ht)))
            (notifyRoomDeleted_own a' s hi' (hb' s List.mem_cons_self) o')
      exact gen _ a hi hmem o
    have hi1 := hi.congr c1
    have hrm1 : (rm.members.foldl notifyRoomDeleted a).h.rooms b r = some rm := by rw [c1.rooms]; exact hrm
    have hmem1 : ∀ s, s ∈ rm.members → BkOf (rm.members.foldl notifyRoomDeleted a).h s b :=
      fun s hs => c1.bkOf (hmem s hs)
    generalize rm.members.foldl notifyRoomDeleted a = a1 at hi1 hrm1 o1 hmem1 ⊢
    have hd : DelState b r rm.members ({ a1 with h := setRoom a1.h b r none } : Acc).h := by
      refine ⟨deleteStart_inv hi1 hrm1, by simp [hubf], ?_⟩
      intro t x ht hm
      simp only [hubf] at ht
      obtain ⟨y, hy, e1, e2⟩ := hi1.mem_room b r rm t hrm1 hm
      rw [ht] at hy; cases hy
      exact Or.inr ⟨e1, e2⟩
    exact foldl_deleteLeave_own rm.members _ (hi1.nodup b r rm hrm1) hd
      (fun t ht => hmem1 t ht) (o1.setH _ (BkKeep.of_sess_eq rfl))

theorem processApi_own {b : Nat} (a : Acc) (r : String) (req : Api) (hi : Inv a.h) (o : Own b h0 a) :
    Own b h0 (processApi a b r req) := by
  cases req with
  | invite us all => exact apiInvite_own a r us all hi o
  | disinvite us rss all => exact apiDisinvite_own a r us rss all hi o
  | delete => exact apiDelete_own a r hi o
  | message d => exact apiMessage_own a r d hi o
  | incallAll ic => exact apiIncallAll_own a r ic hi o
  | incall ch us => exact apiIncall_own a r ch us hi o
  | participants ch us => exact apiParticipants_own a r ch us hi o
  | switchto room rss => exact apiSwitchto_own a r room rss hi o

/-! ### every operation -/

theorem bkOf_of_map {h : Hub} {s b : Nat} (ho : (h.sess s).map (·.backend) = some b) : BkOf h s b := by
  intro x hx; rw [hx] at ho; simpa using ho

/-- Whatever an operation that acts for backend `b` writes — before the follow-up closes — goes to sessions
of `b`, and the sessions it marks for closing belong to `b`. -/
theorem stepAcc_own {b : Nat} (a : Acc) (op : Op) (hi : Inv a.h) (ho : originOf a.h op = some b) (o : Own b h0 a) :
    Own b h0 (stepAcc a op) := by
  cases op with
  | connect c => simp [originOf] at ho
  | hello c b' kind user d i =>
    simp only [originOf, Option.some.injEq] at ho; subst ho
    simp only [stepAcc]
    split
    · exact o
    · exact processHello_own a c kind user d i hi o
  | resume c os =>
    simp only [stepAcc]
    cases os with
    | none => simp [originOf] at ho
    | some s =>
      simp only [originOf] at ho
      exact processResume_own a c (some s) hi (by intro t ht; cases ht; exact bkOf_of_map ho) o
  | disconnect c =>
    simp only [stepAcc, originOf] at ho ⊢
    refine processDisconnect_own a c ?_ o
    intro s hs
    rw [hs] at ho
    exact bkOf_of_map (by simpa using ho)
  | bye c =>
    simp only [stepAcc, originOf] at ho ⊢
    refine processBye_own a c hi ?_ o
    intro s hs
    rw [hs] at ho
    exact bkOf_of_map (by simpa using ho)
  | housekeeping l => simp [originOf] at ho
  | join s r rs rep =>
    simp only [stepAcc, originOf] at ho ⊢
    split
    · exact processRoom_own a s r rs rep hi (bkOf_of_map ho) o
    · exact o
  | message s ctl rc d =>
    simp only [stepAcc, originOf] at ho ⊢
    have hb := bkOf_of_map ho
    split
    · exact o
    · split
      · exact sendTo_own_inv a s _ hi (by simp) hb o
      · exact processMessage_own a s ctl rc d hi hb o
  | addVirtual s r vk u ic ok =>
    simp only [stepAcc, originOf] at ho ⊢
    split
    · exact addVirtual_own a s r vk u ic ok hi (bkOf_of_map ho) o
    · exact o
  | removeVirtual s r vk =>
    simp only [stepAcc, originOf] at ho ⊢
    split
    · exact removeVirtual_own a s r vk hi (bkOf_of_map ho) o
    · exact o
  | internalInCall s ic =>
    simp only [stepAcc, originOf] at ho ⊢
    split
    · exact internalInCall_own a s ic hi (bkOf_of_map ho) o
    · exact o
  | api b' r req =>
    simp only [originOf, Option.some.injEq] at ho; subst ho
    exact processApi_own a r req hi o
  | setLimit b' l => simp [originOf] at ho

/-- The same for a whole step, the closing of the sessions it marked included: everything written goes to
sessions of `b`, and the record of every session of another backend (room, permissions, queue, connection, …)
is untouched. -/
theorem step_own {b : Nat} (h : Hub) (op : Op) (hi : Inv h) (ho : originOf h op = some b) :
    (∀ o, o ∈ (step h op).2 → ∀ b', o.bk = some b' → b' = b) ∧
    (∀ t x, h.sess t = some x → x.backend ≠ b → (step h op).1.sess t = some x) := by
  unfold step
  have o0 : Own b h ({ h := h } : Acc) := ⟨fun o ho' => (by cases ho'), fun s hs => (by cases hs), fun t x hx _ => hx⟩
  have o1 := stepAcc_own { h := h } op hi ho o0
  have o2 := flushCloses_own _ (stepAcc_inv { h := h } op hi) o1
  exact ⟨o2.outs, o2.frame⟩

end SigModel.Hub
