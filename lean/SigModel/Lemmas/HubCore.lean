/-
Hub lemmas, part 1: deliveries never touch the structural part of the state.

`CoreEq h h'`: `h'` differs from `h` only in what a delivery may change in a
session record — `pending`, `seenJoin`, `perms`.  Every invariant used for
C03/C04/C07/C19 is stated over the remaining ("core") fields, so it transfers
along `CoreEq`.
-/
import SigModel.Spec.Hub

namespace SigModel.Hub

/-- A session record without the fields deliveries may change. -/
def Sess.strip (x : Sess) : Sess := { x with pending := [], seenJoin := [], perms := none }

structure CoreEq (h h' : Hub) : Prop where
  sess : ∀ s, (h'.sess s).map Sess.strip = (h.sess s).map Sess.strip
  nextSid : h'.nextSid = h.nextSid
  connSess : h'.connSess = h.connSess
  connOpen : h'.connOpen = h.connOpen
  expectHello : h'.expectHello = h.expectHello
  rooms : h'.rooms = h.rooms
  roomL : h'.roomL = h.roomL
  userL : h'.userL = h.userL
  sessL : h'.sessL = h.sessL
  rs2sid : h'.rs2sid = h.rs2sid
  sid2rs : h'.sid2rs = h.sid2rs
  vtable : h'.vtable = h.vtable
  expired : h'.expired = h.expired
  anon : h'.anon = h.anon
  dialout : h'.dialout = h.dialout
  count : h'.count = h.count
  limit : h'.limit = h.limit

theorem CoreEq.refl (h : Hub) : CoreEq h h :=
  ⟨fun _ => rfl, rfl, rfl, rfl, rfl, rfl, rfl, rfl, rfl, rfl, rfl, rfl, rfl, rfl, rfl, rfl, rfl⟩

theorem CoreEq.trans {h1 h2 h3 : Hub} (a : CoreEq h1 h2) (b : CoreEq h2 h3) : CoreEq h1 h3 :=
  ⟨fun s => (b.sess s).trans (a.sess s), b.nextSid.trans a.nextSid, b.connSess.trans a.connSess,
   b.connOpen.trans a.connOpen, b.expectHello.trans a.expectHello, b.rooms.trans a.rooms,
   b.roomL.trans a.roomL, b.userL.trans a.userL, b.sessL.trans a.sessL, b.rs2sid.trans a.rs2sid,
   b.sid2rs.trans a.sid2rs, b.vtable.trans a.vtable, b.expired.trans a.expired, b.anon.trans a.anon,
   b.dialout.trans a.dialout, b.count.trans a.count, b.limit.trans a.limit⟩

/-- Re-anchor a delivery lemma at a hub given as a record field (helps unification). -/
theorem coreOf {a : Acc} {h h' : Hub} (c : CoreEq a.h h') (e : a.h = h) : CoreEq h h' := e ▸ c

/-- Reading a core field through `CoreEq`. -/
theorem CoreEq.sess_some {h h' : Hub} (e : CoreEq h h') {s : Nat} {x : Sess} (hx : h.sess s = some x) :
    ∃ x', h'.sess s = some x' ∧ x'.strip = x.strip := by
  have := e.sess s
  rw [hx] at this
  cases h' : h'.sess s with
  | none => simp [h'] at this
  | some x' => exact ⟨x', rfl, by simpa [h'] using this⟩

theorem CoreEq.sess_none {h h' : Hub} (e : CoreEq h h') {s : Nat} (hx : h.sess s = none) : h'.sess s = none := by
  have := e.sess s
  rw [hx] at this
  cases h' : h'.sess s with
  | none => rfl
  | some x' => simp [h'] at this

theorem CoreEq.symm {h h' : Hub} (e : CoreEq h h') : CoreEq h' h :=
  ⟨fun s => (e.sess s).symm, e.nextSid.symm, e.connSess.symm, e.connOpen.symm, e.expectHello.symm, e.rooms.symm,
   e.roomL.symm, e.userL.symm, e.sessL.symm, e.rs2sid.symm, e.sid2rs.symm, e.vtable.symm, e.expired.symm,
   e.anon.symm, e.dialout.symm, e.count.symm, e.limit.symm⟩

/-- Core fields of equal-stripped records agree. -/
theorem strip_fields {x y : Sess} (h : x.strip = y.strip) :
    x.backend = y.backend ∧ x.kind = y.kind ∧ x.user = y.user ∧ x.room = y.room ∧ x.roomSess = y.roomSess ∧
    x.conn = y.conn ∧ x.parent = y.parent ∧ x.vkey = y.vkey ∧ x.children = y.children ∧ x.inCall = y.inCall ∧
    x.dialoutFeat = y.dialoutFeat ∧ x.inCallFeat = y.inCallFeat := by
  have h1 := congrArg Sess.backend h
  have h2 := congrArg Sess.kind h
  have h3 := congrArg Sess.user h
  have h4 := congrArg Sess.room h
  have h5 := congrArg Sess.roomSess h
  have h6 := congrArg Sess.conn h
  have h7 := congrArg Sess.parent h
  have h8 := congrArg Sess.vkey h
  have h9 := congrArg Sess.children h
  have h10 := congrArg Sess.inCall h
  have h11 := congrArg Sess.dialoutFeat h
  have h12 := congrArg Sess.inCallFeat h
  simp only [Sess.strip] at *
  exact ⟨h1, h2, h3, h4, h5, h6, h7, h8, h9, h10, h11, h12⟩

/-- Updating one session by a record with the same core is a `CoreEq` step. -/
theorem CoreEq.setSess {h : Hub} {s : Nat} {x y : Sess} (hx : h.sess s = some x) (hy : y.strip = x.strip) :
    CoreEq h (setSess h s (some y)) := by
  refine ⟨?_, rfl, rfl, rfl, rfl, rfl, rfl, rfl, rfl, rfl, rfl, rfl, rfl, rfl, rfl, rfl, rfl⟩
  intro k
  simp only [SigModel.Hub.setSess]
  by_cases hk : k = s
  · subst hk; simp [hx, hy]
  · simp [hk]

theorem filterMessage_strip (x : Sess) (m : Msg) : (filterMessage x m).1.strip = x.strip := by
  cases m <;> simp only [filterMessage]
  · split <;> simp [Sess.strip]
  · simp [Sess.strip]

/-! ### deliveries preserve the core -/

theorem sendTo_core (a : Acc) (s : Nat) (m : Msg) : CoreEq a.h (sendTo a s m).h := by
  unfold sendTo
  simp only []
  cases hx : a.h.sess (target a.h s) with
  | none => exact CoreEq.refl _
  | some x =>
    simp only []
    have hf := filterMessage_strip x m
    generalize (filterMessage x m).fst = x1 at hf ⊢
    generalize (filterMessage x m).snd = om
    cases om with
    | none => exact CoreEq.setSess hx hf
    | some m1 =>
      simp only []
      cases hc : x1.conn with
      | some c => exact CoreEq.setSess hx hf
      | none =>
        simp only []
        split
        · exact CoreEq.setSess hx hf
        · exact CoreEq.setSess hx (by rw [← hf]; simp [Sess.strip, hc])

theorem procClient_core (a : Acc) (l : Nat) (am : AMsg) : CoreEq a.h (procClient a l am).h := by
  unfold procClient
  split
  · exact CoreEq.refl _
  · rename_i x hx
    split
    · exact CoreEq.setSess hx (by simp [Sess.strip])
    · split
      · exact sendTo_core _ _ _
      · exact CoreEq.refl _

theorem procSession_core (a : Acc) (s : Nat) (am : AMsg) : CoreEq a.h (procSession a s am).h := by
  unfold procSession
  split
  · exact CoreEq.refl _
  · split
    · exact CoreEq.refl _
    · split
      · split
        · split
          · exact procClient_core _ _ _
          · exact CoreEq.refl _
        · exact CoreEq.refl _
      · exact procClient_core _ _ _

/-- Folding a core-preserving delivery over any list preserves the core. -/
theorem foldl_core {α : Type} (f : Acc → α → Acc) (hf : ∀ a x, CoreEq a.h (f a x).h) :
    ∀ (l : List α) (a : Acc), CoreEq a.h (l.foldl f a).h := by
  intro l
  induction l with
  | nil => intro a; exact CoreEq.refl _
  | cons x l ih => intro a; exact (hf a x).trans (ih (f a x))

theorem pubRoom_core (a : Acc) (b : Nat) (r : String) (am : AMsg) : CoreEq a.h (pubRoom a b r am).h :=
  foldl_core _ (fun a l => procClient_core a l am) _ _

theorem pubUser_core (a : Acc) (b : Nat) (u : String) (am : AMsg) : CoreEq a.h (pubUser a b u am).h :=
  foldl_core _ (fun a l => procClient_core a l am) _ _

theorem publishUsersChangedWithInternal_core (a : Acc) (b : Nat) (r : String) :
    CoreEq a.h (publishUsersChangedWithInternal a b r).h := by
  unfold publishUsersChangedWithInternal
  split
  · exact CoreEq.refl _
  · simp only []
    split
    · exact CoreEq.refl _
    · exact pubRoom_core _ _ _ _

theorem notifySessionJoined_core (a : Acc) (b : Nat) (r : String) (s : Nat) :
    CoreEq a.h (notifySessionJoined a b r s).h := by
  unfold notifySessionJoined
  split
  · exact CoreEq.refl _
  · simp only []
    split
    · exact CoreEq.refl _
    · exact procSession_core _ _ _

theorem notifyResumed_core (a : Acc) (s : Nat) : CoreEq a.h (notifyResumed a s).h := by
  unfold notifyResumed
  split
  · exact CoreEq.refl _
  · split
    · exact CoreEq.refl _
    · split
      · exact CoreEq.refl _
      · simp only []
        split
        · exact CoreEq.refl _
        · exact sendTo_core _ _ _

end SigModel.Hub
