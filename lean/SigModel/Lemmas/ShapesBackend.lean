/-
Helper lemmas for C11 (`Props/C11.lean`): what validation with the generated table guarantees, what
the handler then publishes, and that the consumers take all of it without failing.
-/
import SigModel.Spec.ShapesBackend

set_option linter.unusedSimpArgs false

namespace SigModel.ShapesBackend
open SigModel.Generated.ShapesBackend

/-! ### validation with the generated table -/

theorem genCfg_validate : genCfg.validate = true := by decide
theorem genCfg_validateStatus : genCfg.validateStatus = 400 := by decide
theorem genCfg_unsupportedStatus : genCfg.unsupportedStatus = 400 := by decide
theorem genCfg_sessionsChecked : genCfg.sessionsChecked = true := by decide

theorem valid_required {r : Request} (h : checkValid genCfg r = true) (t f : String)
    (ht : r.type = t) (hm : ((required.lookup t).getD []).contains f = true) : r.has f = true := by
  unfold checkValid at h
  simp only [Bool.and_eq_true] at h
  have h1 := h.1
  rw [List.all_eq_true] at h1
  apply h1
  have : genCfg.required = required := rfl
  rw [this, ht]
  simpa using hm

theorem valid_invite {r : Request} (h : checkValid genCfg r = true) (ht : r.type = "invite") :
    ∃ x, r.invite = some x := by
  have := valid_required h "invite" "Invite" ht (by decide)
  simp [Request.has] at this
  exact Option.isSome_iff_exists.mp this

theorem valid_disinvite {r : Request} (h : checkValid genCfg r = true) (ht : r.type = "disinvite") :
    ∃ x, r.disinvite = some x := by
  have := valid_required h "disinvite" "Disinvite" ht (by decide)
  simp [Request.has] at this
  exact Option.isSome_iff_exists.mp this

theorem valid_update {r : Request} (h : checkValid genCfg r = true) (ht : r.type = "update") :
    ∃ x, r.update = some x := by
  have := valid_required h "update" "Update" ht (by decide)
  simp [Request.has] at this
  exact Option.isSome_iff_exists.mp this

theorem valid_delete {r : Request} (h : checkValid genCfg r = true) (ht : r.type = "delete") :
    ∃ x, r.delete = some x := by
  have := valid_required h "delete" "Delete" ht (by decide)
  simp [Request.has] at this
  exact Option.isSome_iff_exists.mp this

theorem valid_incall {r : Request} (h : checkValid genCfg r = true) (ht : r.type = "incall") :
    ∃ x, r.inCall = some x := by
  have := valid_required h "incall" "InCall" ht (by decide)
  simp [Request.has] at this
  exact Option.isSome_iff_exists.mp this

theorem valid_participants {r : Request} (h : checkValid genCfg r = true) (ht : r.type = "participants") :
    ∃ x, r.participants = some x := by
  have := valid_required h "participants" "Participants" ht (by decide)
  simp [Request.has] at this
  exact Option.isSome_iff_exists.mp this

theorem valid_switchto {r : Request} (h : checkValid genCfg r = true) (ht : r.type = "switchto") :
    ∃ x, r.switchTo = some x ∧ x.sessions.decodable = true := by
  have := valid_required h "switchto" "SwitchTo" ht (by decide)
  simp [Request.has] at this
  obtain ⟨x, hx⟩ := Option.isSome_iff_exists.mp this
  refine ⟨x, hx, ?_⟩
  unfold checkValid at h
  simp only [Bool.and_eq_true] at h
  have h2 := h.2
  simp [genCfg_sessionsChecked, ht, hx] at h2
  exact h2

theorem valid_dialout {r : Request} (h : checkValid genCfg r = true) (ht : r.type = "dialout") :
    ∃ x, r.dialout = some x := by
  have := valid_required h "dialout" "Dialout" ht (by decide)
  simp [Request.has] at this
  exact Option.isSome_iff_exists.mp this

/-! ### fixupUserSessions establishes what the consumers assert -/

theorem entriesOk_append (a b : List Entry) : entriesOk (a ++ b) = (entriesOk a && entriesOk b) := by
  simp [entriesOk, List.all_append]

theorem fixup_ok (w : World) (es : List Entry) : entriesOk (fixup w es) = true := by
  induction es with
  | nil => rfl
  | cons e es ih =>
    unfold fixup
    simp only [List.filterMap_cons]
    cases hget : Entry.get e "sessionId" with
    | none => simpa [fixup] using ih
    | some v =>
      cases v with
      | str s =>
        simp only []
        by_cases hs : s = sessionIdNotInMeeting
        · simp only [hs, if_true]; simpa [fixup] using ih
        · simp only [hs, if_false]
          cases hl : w.lookup s with
          | none => simpa [fixup] using ih
          | some sid =>
            simp only []
            have : entriesOk (Entry.set e "sessionId" (.str sid) :: fixup w es) = true := by
              simp [entriesOk, entryOk, Entry.get, Entry.set, List.lookup] at ih ⊢
              exact ih
            simpa [fixup] using this
      | null => simpa [fixup] using ih
      | bool b => simpa [fixup] using ih
      | num n => simpa [fixup] using ih
      | list xs => simpa [fixup] using ih
      | other => simpa [fixup] using ih

/-! ### what is published is consumable -/

/-- A room message the consumers process without hitting a failure branch. -/
def roomMsgOk (m : Request) : Bool :=
  if m.type = "update" then m.update.isSome
  else if m.type = "incall" then
    (match m.inCall with
     | some ic => ic.all || entriesOk (ic.users ++ ic.changed)
     | none => false)
  else if m.type = "participants" then
    (match m.participants with
     | some p => entriesOk (p.users ++ p.changed)
     | none => false)
  else if m.type = "switchto" then m.switchTo.isSome
  else if m.type = "transient" then m.transient.isSome
  else true

def pubOk : Pub → Bool
  | .room _ m => roomMsgOk m
  | _ => true

theorem inCallAll_crash (w : World) (room : String) (n : Int) : (inCallAll w room n).crash = false := by
  unfold inCallAll; simp only []; split <;> (try split) <;> rfl

theorem inCallAll_dialout (w : World) (room : String) (n : Int) : (inCallAll w room n).world.dialout = w.dialout := by
  unfold inCallAll; simp only []; split <;> (try split) <;> rfl

theorem consumeRoom_ok (w : World) (room : String) (m : Request) (h : roomMsgOk m = true) :
    (consumeRoom w room m).crash = false := by
  unfold consumeRoom
  split
  · rfl
  · unfold roomMsgOk at h
    by_cases h1 : m.type = "update"
    · simp only [h1, if_true] at h ⊢
      obtain ⟨u, hu⟩ := Option.isSome_iff_exists.mp h
      simp only [hu]; split <;> rfl
    · simp only [h1, if_false] at h ⊢
      by_cases h2 : m.type = "delete"
      · simp only [h2, if_true]
      · simp only [h2, if_false]
        by_cases h3 : m.type = "incall"
        · simp only [h3, if_true] at h ⊢
          cases hic : m.inCall with
          | none => simp [hic] at h
          | some ic =>
            simp only [hic] at h ⊢
            by_cases ha : ic.all = true
            · simp only [ha, if_true]
              cases ic.inCall <;> simp [inCallAll_crash]
            · have ha' : ic.all = false := by simpa using ha
              simp only [ha', Bool.false_or] at h
              simp [ha', h]
        · simp only [h3, if_false] at h ⊢
          by_cases h4 : m.type = "participants"
          · simp only [h4, if_true] at h ⊢
            cases hp : m.participants with
            | none => simp [hp] at h
            | some p => simp only [hp] at h ⊢; simp [h]
          · simp only [h4, if_false] at h ⊢
            by_cases h5 : m.type = "message"
            · simp only [h5, if_true]
              cases m.message with
              | none => rfl
              | some msg => simp only []; split <;> rfl
            · simp only [h5, if_false]
              by_cases h6 : m.type = "switchto"
              · simp only [h6, if_true] at h ⊢
                obtain ⟨s, hs⟩ := Option.isSome_iff_exists.mp h
                simp only [hs]
              · simp only [h6, if_false] at h ⊢
                by_cases h7 : m.type = "transient"
                · simp only [h7, if_true] at h ⊢
                  obtain ⟨t, ht⟩ := Option.isSome_iff_exists.mp h
                  simp only [ht]
                · simp only [h7, if_false]

theorem sendTo_crash (w : World) (ts : List Sess) (ev : Ev) : (sendTo w ts ev).crash = false := rfl

theorem deliver_ok (w : World) (p : Pub) (h : pubOk p = true) : (deliver w p).crash = false := by
  cases p with
  | user uid ev =>
    simp only [deliver]
    split <;> rfl
  | session sid ev => cases ev <;> rfl
  | room room m => exact consumeRoom_ok w room m h

theorem deliverAll_ok (ps : List Pub) : ∀ (w : World), (∀ p ∈ ps, pubOk p = true) → (deliverAll w ps).crash = false := by
  induction ps with
  | nil => intro w _; rfl
  | cons p ps ih =>
    intro w h
    simp only [deliverAll, Bool.or_eq_false_iff]
    exact ⟨deliver_ok w p (h p (by simp)), ih _ (fun q hq => h q (by simp [hq]))⟩

theorem permsP_ok : ∀ (es : List Entry), entriesOk es = true →
    ∃ ps, permsP es = some ps ∧ ∀ p ∈ ps, pubOk p = true := by
  intro es
  induction es with
  | nil => intro _; exact ⟨[], rfl, by simp⟩
  | cons e es ih =>
    intro h
    have he : entryOk e = true ∧ entriesOk es = true := by
      simpa [entriesOk] using h
    obtain ⟨ps, hps, hok⟩ := ih he.2
    unfold permsP
    cases hperm : Entry.get e "permissions" with
    | none => exact ⟨ps, hps, hok⟩
    | some v =>
      simp only []
      cases hsid : Entry.get e "sessionId" with
      | none => simp [entryOk, hsid] at he
      | some sv =>
        cases sv with
        | str sid =>
          simp only [hps, Option.map_some]
          refine ⟨_, rfl, ?_⟩
          intro p hp
          rw [List.mem_append] at hp
          cases hp with
          | inl hl =>
            cases v <;> simp at hl
            obtain ⟨_, rfl⟩ := hl
            rfl
          | inr hr => exact hok p hr
        | null => simp [entryOk, hsid] at he
        | bool b => simp [entryOk, hsid] at he
        | num n => simp [entryOk, hsid] at he
        | list xs => simp [entryOk, hsid] at he
        | other => simp [entryOk, hsid] at he

/-! ### roomHandler on a request that passed validation -/

theorem pubOk_user (l : List String) (ev : Ev) : ∀ p ∈ l.map (fun u => Pub.user u ev), pubOk p = true := by
  intro p hp
  obtain ⟨u, _, rfl⟩ := List.mem_map.mp hp
  rfl

theorem pubOk_inviteP (l : List String) : ∀ p ∈ inviteP l, pubOk p = true := pubOk_user l _

theorem pubOk_updateP (a b : List String) : ∀ p ∈ updateP a b, pubOk p = true := pubOk_user _ _

theorem pubOk_disinviteP (w : World) (room : String) (a b : List String) : ∀ p ∈ disinviteP w room a b, pubOk p = true := by
  intro p hp
  unfold disinviteP at hp
  rw [List.mem_append] at hp
  cases hp with
  | inl h => exact pubOk_user _ _ p h
  | inr h =>
    obtain ⟨rs, _, hrs⟩ := List.mem_filterMap.mp h
    cases hl : w.lookup rs with
    | none => simp [hl] at hrs
    | some sid => simp [hl] at hrs; subst hrs; rfl

/-- The status of the dial-out branch: a client error, or whatever the dial-out client made of it. -/
def DialoutGateway (w : World) (room : String) (r : Request) (c : Nat) : Prop :=
  r.type = "dialout" ∧ c = w.dialout.status ∧
    ∃ d, r.dialout = some d ∧ isValidNumber d.number = true ∧ isNumeric room = true

theorem switchToH_ok (w : World) (room : String) (r : Request) (s : SwitchTo)
    (ht : r.type = "switchto") (hd : s.sessions.decodable = true) :
    (switchToH w room r s).http = .status 200 ∧ ∀ p ∈ (switchToH w room r s).pubs, pubOk p = true := by
  have hroom : ∀ (x : SwitchTo) (p : Pub), p ∈ [Pub.room room { r with switchTo := some x }] → pubOk p = true := by
    intro x p hp
    simp at hp; subst hp
    simp [pubOk, roomMsgOk, ht]
  unfold RawSessions.decodable at hd
  unfold switchToH
  cases hp : s.sessions.present with
  | false => simp only [Bool.false_eq_true, if_false]; exact ⟨by simp, hroom _⟩
  | true =>
    simp only [hp, Bool.not_true, Bool.false_or] at hd
    simp only [if_true]
    cases hb : s.sessions.bracket with
    | true =>
      simp only [hb, if_true] at hd
      obtain ⟨l, hl⟩ := Option.isSome_iff_exists.mp hd
      simp only [hl, if_true]
      by_cases h1 : l.isEmpty = true
      · simp only [h1, if_true]; exact ⟨by simp, by simp⟩
      · simp only [h1, if_false]
        by_cases h2 : ((l.filter (· != sessionIdNotInMeeting)).filterMap w.lookup).isEmpty = true
        · simp only [h2, if_true]; exact ⟨by simp, by simp⟩
        · simp only [h2, if_false]; exact ⟨by simp, hroom _⟩
    | false =>
      simp only [hb, Bool.false_eq_true, if_false] at hd
      obtain ⟨l, hl⟩ := Option.isSome_iff_exists.mp hd
      simp only [hl, Bool.false_eq_true, if_false]
      by_cases h1 : l.isEmpty = true
      · simp only [h1, if_true]; exact ⟨by simp, by simp⟩
      · simp only [h1, if_false]
        by_cases h2 : ((l.filter (· != sessionIdNotInMeeting)).filterMap w.lookup).isEmpty = true
        · simp only [h2, if_true]; exact ⟨by simp, by simp⟩
        · simp only [h2, if_false]; exact ⟨by simp, hroom _⟩

theorem mem_append_ok {a b : List Pub} (ha : ∀ p ∈ a, pubOk p = true) (hb : ∀ p ∈ b, pubOk p = true) :
    ∀ p ∈ a ++ b, pubOk p = true := by
  intro p hp
  rw [List.mem_append] at hp
  cases hp with
  | inl h => exact ha p h
  | inr h => exact hb p h

theorem mem_cons_ok {a : Pub} {b : List Pub} (ha : pubOk a = true) (hb : ∀ p ∈ b, pubOk p = true) :
    ∀ p ∈ a :: b, pubOk p = true := by
  intro p hp
  rw [List.mem_cons] at hp
  cases hp with
  | inl h => subst h; exact ha
  | inr h => exact hb p h

theorem dispatch_valid (w : World) (room : String) (r : Request) (h : checkValid genCfg r = true) :
    (∃ c, (dispatch genCfg w room r).http = .status c ∧ (okStatus c = true ∨ DialoutGateway w room r c)) ∧
    ∀ p ∈ (dispatch genCfg w room r).pubs, pubOk p = true := by
  by_cases h1 : r.type = "invite"
  · obtain ⟨x, hx⟩ := valid_invite h h1
    have hD : dispatch genCfg w room r = ⟨.status 200, inviteP x.userIds ++ updateP x.userIds x.allUserIds⟩ := by
      simp [dispatch, h1, hx]
    rw [hD]
    exact ⟨⟨200, rfl, Or.inl rfl⟩, mem_append_ok (pubOk_inviteP _) (pubOk_updateP _ _)⟩
  by_cases h2 : r.type = "disinvite"
  · obtain ⟨x, hx⟩ := valid_disinvite h h2
    have hD : dispatch genCfg w room r =
        ⟨.status 200, disinviteP w room x.userIds x.sessionIds ++ updateP x.userIds x.allUserIds⟩ := by
      simp [dispatch, h2, hx]
    rw [hD]
    exact ⟨⟨200, rfl, Or.inl rfl⟩, mem_append_ok (pubOk_disinviteP _ _ _ _) (pubOk_updateP _ _)⟩
  by_cases h3 : r.type = "update"
  · obtain ⟨x, hx⟩ := valid_update h h3
    have hD : dispatch genCfg w room r = ⟨.status 200, .room room r :: updateP [] x.userIds⟩ := by
      simp [dispatch, h3, hx]
    rw [hD]
    exact ⟨⟨200, rfl, Or.inl rfl⟩, mem_cons_ok (by simp [pubOk, roomMsgOk, h3, hx]) (pubOk_updateP _ _)⟩
  by_cases h4 : r.type = "delete"
  · obtain ⟨x, hx⟩ := valid_delete h h4
    have hD : dispatch genCfg w room r = ⟨.status 200, .room room r :: disinviteP w room x.userIds []⟩ := by
      simp [dispatch, h4, hx]
    rw [hD]
    exact ⟨⟨200, rfl, Or.inl rfl⟩, mem_cons_ok (by simp [pubOk, roomMsgOk, h4]) (pubOk_disinviteP _ _ _ _)⟩
  by_cases h5 : r.type = "incall"
  · obtain ⟨x, hx⟩ := valid_incall h h5
    rw [dispatch, if_neg h1, if_neg h2, if_neg h3, if_neg h4, if_pos h5, hx]
    simp only []
    cases ha : x.all with
    | true =>
      simp only [Bool.not_true, Bool.false_eq_true, if_false]
      exact ⟨⟨200, rfl, Or.inl rfl⟩, mem_cons_ok (by simp [pubOk, roomMsgOk, h5, hx, ha]) (by simp)⟩
    | false =>
      simp only [Bool.not_false, if_true]
      split
      · exact ⟨⟨200, rfl, Or.inl rfl⟩, by simp⟩
      · exact ⟨⟨200, rfl, Or.inl rfl⟩,
          mem_cons_ok (by simp [pubOk, roomMsgOk, h5, entriesOk_append, fixup_ok]) (by simp)⟩
  by_cases h6 : r.type = "participants"
  · obtain ⟨x, hx⟩ := valid_participants h h6
    rw [dispatch, if_neg h1, if_neg h2, if_neg h3, if_neg h4, if_neg h5, if_pos h6, hx]
    simp only []
    split
    · exact ⟨⟨200, rfl, Or.inl rfl⟩, by simp⟩
    · obtain ⟨ps, hps, hok⟩ := permsP_ok (fixup w x.changed) (fixup_ok w x.changed)
      simp only [hps]
      exact ⟨⟨200, rfl, Or.inl rfl⟩,
        mem_append_ok hok (mem_cons_ok (by simp [pubOk, roomMsgOk, h6, entriesOk_append, fixup_ok]) (by simp))⟩
  by_cases h7 : r.type = "message"
  · have hD : dispatch genCfg w room r = ⟨.status 200, [.room room r]⟩ := by
      simp [dispatch, h7]
    rw [hD]
    exact ⟨⟨200, rfl, Or.inl rfl⟩, mem_cons_ok (by simp [pubOk, roomMsgOk, h7]) (by simp)⟩
  by_cases h8 : r.type = "switchto"
  · obtain ⟨x, hx, hdec⟩ := valid_switchto h h8
    have hD : dispatch genCfg w room r = switchToH w room r x := by
      simp [dispatch, h8, hx]
    rw [hD]
    have := switchToH_ok w room r x h8 hdec
    exact ⟨⟨200, this.1, Or.inl rfl⟩, this.2⟩
  by_cases h9 : r.type = "dialout"
  · obtain ⟨x, hx⟩ := valid_dialout h h9
    have hD : dispatch genCfg w room r =
        (if x.number = "" || !isValidNumber x.number then ⟨.status 400, []⟩
         else if !isNumeric room then ⟨.status 400, []⟩
         else ⟨.status w.dialout.status, []⟩) := by
      simp [dispatch, h9, hx]
    rw [hD]
    by_cases hn : (x.number = "" || !isValidNumber x.number) = true
    · simp only [hn, if_true]; exact ⟨⟨400, rfl, Or.inl rfl⟩, by simp⟩
    · simp only [hn, if_false]
      by_cases hr : (!isNumeric room) = true
      · simp only [hr, if_true]; exact ⟨⟨400, rfl, Or.inl rfl⟩, by simp⟩
      · simp only [hr, if_false]
        refine ⟨⟨w.dialout.status, rfl, Or.inr ⟨h9, rfl, x, hx, ?_, ?_⟩⟩, by simp⟩
        · simp at hn; exact hn.2
        · simpa using hr
  · have hD : dispatch genCfg w room r = ⟨.status 400, []⟩ := by
      simp [dispatch, h1, h2, h3, h4, h5, h6, h7, h8, h9, genCfg_unsupportedStatus]
    rw [hD]
    exact ⟨⟨400, rfl, Or.inl rfl⟩, by simp⟩

end SigModel.ShapesBackend
