/-
Lemmas for C09: the ownership invariant of `Model/Mcu.lean` and its preservation
by every action (hence by every interleaving).
-/
import SigModel.Spec.Mcu

namespace SigModel.Mcu

/-! ### the invariant -/

/-- A session that is not closed, or whose `Close()` still has its release ahead. -/
def Live (x : Sess) : Prop := x.closed = true → 0 < x.needLeave + x.needRelease

/-- The owner still refers to the object, has not released since the creation
started, and is live or about to release. -/
def Tracked (st : State) (o : Obj) : Prop :=
  Live (st.sess o.owner) ∧ o.stamp = (st.sess o.owner).epoch ∧
  (st.sess o.owner).objs o.kind = some o.id

/-- The map part of `Tracked` (the first component is a placeholder so that both have the same shape). -/
def Mapped (st : State) (o : Obj) : Prop :=
  True ∧ o.stamp = (st.sess o.owner).epoch ∧ (st.sess o.owner).objs o.kind = some o.id

theorem Tracked.mapped {st : State} {o : Obj} (h : Tracked st o) : Mapped st o := ⟨trivial, h.2.1, h.2.2⟩

/-- Ids are handed out once. -/
structure IdsOk (st : State) : Prop where
  obj_lt : ∀ o ∈ st.objs, o.id < st.nextId
  pend_lt : ∀ p ∈ st.pend, p.id < st.nextId
  obj_nodup : (st.objs.map (·.id)).Nodup
  pend_nodup : (st.pend.map (·.id)).Nodup
  disjoint : ∀ o ∈ st.objs, ∀ p ∈ st.pend, o.id ≠ p.id
  /-- the maps of a session refer to objects of that session and kind -/
  map_ok : ∀ s kd k, (st.sess s).objs kd = some k → ∃ o ∈ st.objs, o.id = k ∧ o.owner = s ∧ o.kind = kd

/-- Every open object is on its way to be closed or tracked by its owner. -/
def Owned (st : State) : Prop :=
  ∀ o ∈ st.objs, o.isOpen = true → o.id ∈ st.closing ∨ Tracked st o

/-- A tracked open object (of a kind in the scope `sc`) is covered by the owner's
permissions unless a revocation goroutine is still to run. -/
def PermOk (sc : Kind → Bool) (st : State) : Prop :=
  ∀ o ∈ st.objs, o.isOpen = true → Mapped st o → (st.sess o.owner).sweeps = 0 →
    sc o.kind = true → permitted (st.sess o.owner).perms o.kind o.media = true

/-! ### basic facts about the helpers -/

@[simp] theorem upd_sess_same (st : State) (i : Nat) (f : Sess → Sess) :
    (st.upd i f).sess i = f (st.sess i) := by simp [State.upd]

theorem upd_sess_ne (st : State) (i j : Nat) (f : Sess → Sess) (h : j ≠ i) :
    (st.upd i f).sess j = st.sess j := by simp [State.upd, h]

@[simp] theorem upd_objs (st : State) (i : Nat) (f : Sess → Sess) : (st.upd i f).objs = st.objs := rfl
@[simp] theorem upd_pend (st : State) (i : Nat) (f : Sess → Sess) : (st.upd i f).pend = st.pend := rfl
@[simp] theorem upd_closing (st : State) (i : Nat) (f : Sess → Sess) : (st.upd i f).closing = st.closing := rfl
@[simp] theorem upd_nextId (st : State) (i : Nat) (f : Sess → Sess) : (st.upd i f).nextId = st.nextId := rfl

theorem mem_trackedIds (st : State) (i : Nat) (o : Obj) (ho : o ∈ st.objs) (hi : o.owner = i)
    (ht : (st.sess i).objs o.kind = some o.id) : o.id ∈ trackedIds st i := by
  unfold trackedIds
  apply List.mem_map.mpr
  refine ⟨o, ?_, rfl⟩
  apply List.mem_filter.mpr
  refine ⟨ho, ?_⟩
  simp [hi, ht]

@[simp] theorem release_objs (st : State) (i : Nat) : (release st i).objs = st.objs := rfl
@[simp] theorem release_pend (st : State) (i : Nat) : (release st i).pend = st.pend := rfl
@[simp] theorem release_nextId (st : State) (i : Nat) : (release st i).nextId = st.nextId := rfl
theorem release_closing (st : State) (i : Nat) :
    (release st i).closing = st.closing ++ trackedIds st i := rfl
theorem release_sess_same (st : State) (i : Nat) :
    (release st i).sess i = { st.sess i with objs := fun _ => none, epoch := (st.sess i).epoch + 1 } := by
  simp [release, State.upd]
theorem release_sess_ne (st : State) (i j : Nat) (h : j ≠ i) : (release st i).sess j = st.sess j := by
  simp [release, State.upd, h]

theorem setMedia_ids (objs : List Obj) (k : Nat) (m : Media) :
    (setMedia objs k m).map (·.id) = objs.map (·.id) := by
  unfold setMedia
  rw [List.map_map]
  apply List.map_congr_left
  intro o _
  simp only [Function.comp]
  split <;> rfl

theorem closeObj_ids (objs : List Obj) (k : Nat) :
    (closeObj objs k).map (·.id) = objs.map (·.id) := by
  unfold closeObj
  rw [List.map_map]
  apply List.map_congr_left
  intro o _
  simp only [Function.comp]
  split <;> rfl

theorem mem_setMedia {objs : List Obj} {k : Nat} {m : Media} {o : Obj} (h : o ∈ setMedia objs k m) :
    ∃ o' ∈ objs, o.id = o'.id ∧ o.owner = o'.owner ∧ o.kind = o'.kind ∧ o.stamp = o'.stamp ∧
      o.isOpen = o'.isOpen ∧ ((o'.id = k ∧ o.media = m) ∨ (o'.id ≠ k ∧ o = o')) := by
  unfold setMedia at h
  obtain ⟨o', ho', rfl⟩ := List.mem_map.mp h
  refine ⟨o', ho', ?_⟩
  by_cases hk : o'.id = k <;> simp [hk]

theorem mem_closeObj {objs : List Obj} {k : Nat} {o : Obj} (h : o ∈ closeObj objs k) :
    ∃ o' ∈ objs, o.id = o'.id ∧ o.owner = o'.owner ∧ o.kind = o'.kind ∧ o.stamp = o'.stamp ∧
      o.media = o'.media ∧ ((o'.id = k ∧ o.isOpen = false) ∨ (o'.id ≠ k ∧ o = o')) := by
  unfold closeObj at h
  obtain ⟨o', ho', rfl⟩ := List.mem_map.mp h
  refine ⟨o', ho', ?_⟩
  by_cases hk : o'.id = k <;> simp [hk]

theorem findObj_of_mem {objs : List Obj} (hn : (objs.map (·.id)).Nodup) {o : Obj} (ho : o ∈ objs) :
    findObj objs o.id = some o := by
  unfold findObj
  induction objs with
  | nil => cases ho
  | cons x xs ih =>
    simp only [List.map_cons, List.nodup_cons] at hn
    rcases List.mem_cons.mp ho with rfl | hx
    · simp [List.find?]
    · have hne : x.id ≠ o.id := by
        intro heq
        apply hn.1
        rw [heq]
        exact List.mem_map.mpr ⟨o, hx, rfl⟩
      simp only [List.find?]
      have : (x.id == o.id) = false := by simpa using hne
      rw [this]
      exact ih hn.2 hx

theorem findPend_some {pend : List Pending} {k : Nat} {p : Pending} (h : findPend pend k = some p) :
    p ∈ pend ∧ p.id = k := by
  unfold findPend at h
  have h1 := List.mem_of_find?_eq_some h
  have h2 := List.find?_some h
  exact ⟨h1, by simpa using h2⟩

/-! ### `Owned` -/

/-- Frame rule for `Owned`: same objects, nothing leaves `closing`, tracked objects stay tracked or are being closed. -/
theorem owned_frame {st st' : State} (ho : Owned st) (hobjs : st'.objs = st.objs)
    (hcl : ∀ k ∈ st.closing, k ∈ st'.closing)
    (htr : ∀ o ∈ st.objs, o.isOpen = true → Tracked st o → o.id ∈ st'.closing ∨ Tracked st' o) :
    Owned st' := by
  intro o hmem hopen
  rw [hobjs] at hmem
  rcases ho o hmem hopen with h | h
  · exact Or.inl (hcl _ h)
  · exact htr o hmem hopen h

/-- A session-local update that keeps the generation and the maps and keeps the session live. -/
theorem owned_upd {st : State} (ho : Owned st) (s : Nat) (f : Sess → Sess)
    (hpc : Live (st.sess s) → Live (f (st.sess s)))
    (hep : (f (st.sess s)).epoch = (st.sess s).epoch)
    (hob : (f (st.sess s)).objs = (st.sess s).objs) : Owned (st.upd s f) := by
  apply owned_frame (st' := st.upd s f) ho rfl (fun _ h => h)
  intro o _ _ ht
  right
  by_cases hs : o.owner = s
  · unfold Tracked at *
    rw [hs] at ht ⊢
    simp only [upd_sess_same]
    rw [hep, hob]
    exact ⟨hpc ht.1, ht.2.1, ht.2.2⟩
  · unfold Tracked at *
    rw [upd_sess_ne _ _ _ _ hs]; exact ht

theorem release_covers {st : State} (ho : Owned st) (i : Nat) :
    ∀ o ∈ st.objs, o.isOpen = true →
      o.id ∈ (release st i).closing ∨ (o.owner ≠ i ∧ Tracked (release st i) o) := by
  intro o hmem hopen
  rw [release_closing]
  rcases ho o hmem hopen with h | h
  · exact Or.inl (List.mem_append_left _ h)
  · by_cases hs : o.owner = i
    · left
      apply List.mem_append_right
      apply mem_trackedIds st i o hmem hs
      rw [← hs]; exact h.2.2
    · right
      refine ⟨hs, ?_⟩
      unfold Tracked at *
      rw [release_sess_ne _ _ _ hs]; exact h

theorem owned_release {st : State} (ho : Owned st) (i : Nat) : Owned (release st i) := by
  intro o hmem hopen
  rcases release_covers ho i o hmem hopen with h | h
  · exact Or.inl h
  · exact Or.inr h.2

theorem owned_leaveRoomStep {st : State} (ho : Owned st) (s : Nat) : Owned (leaveRoomStep st s) := by
  unfold leaveRoomStep
  split
  · exact ho
  · apply owned_release
    exact owned_upd ho s _ (fun h => h) rfl rfl

theorem owned_dropEntry {st : State} (ho : Owned st) (i : Nat) (kd : Kind) (k : Nat)
    (hk : (st.sess i).objs kd = some k) : Owned (dropEntry st i kd k) := by
  apply owned_frame (st' := dropEntry st i kd k) ho rfl
  · intro x hx; simp only [dropEntry]; exact List.mem_append_left _ hx
  · intro o _ _ ht
    by_cases hs : o.owner = i
    · by_cases hkd : o.kind = kd
      · left
        have : o.id = k := by
          have h3 := ht.2.2
          rw [hs, hkd, hk] at h3
          exact (Option.some.inj h3).symm
        simp [dropEntry, this]
      · right
        unfold Tracked at *
        simp only [dropEntry, hs, upd_sess_same] at ht ⊢
        refine ⟨ht.1, ht.2.1, ?_⟩
        simp [hkd]; exact ht.2.2
    · right
      unfold Tracked at *
      simp only [dropEntry]
      rw [upd_sess_ne _ _ _ _ hs]; exact ht

theorem videoToClose_some {st : State} {s k : Nat} (h : videoToClose st s = some k) :
    (st.sess s).objs (.pub .video) = some k ∧ (st.sess s).perms.media = false ∧
    (((objMedia st k).audio && !(st.sess s).perms.audio) || ((objMedia st k).video && !(st.sess s).perms.video)) = true := by
  unfold videoToClose at h
  simp only [] at h
  split at h
  · cases h
  · rename_i hm
    split at h
    · rename_i k' hk'
      split at h
      · rename_i hc
        cases h
        exact ⟨hk', by simpa using hm, hc⟩
      · cases h
    · cases h

theorem owned_sweepBody {st : State} (cfg : Cfg) (ho : Owned st) (s : Nat) : Owned (sweepBody cfg st s) := by
  unfold sweepBody
  simp only []
  have ho1 : Owned (match videoToClose st s with
      | some k => dropEntry st s (.pub .video) k
      | none => st) := by
    split
    · rename_i k hk
      exact owned_dropEntry ho s _ k (videoToClose_some hk).1
    · exact ho
  split
  · exact ho1
  · split
    · exact ho1
    · split
      · rename_i k hk
        exact owned_dropEntry ho1 s _ k hk
      · exact ho1

theorem tracked_of_same_sess {st st' : State} {o : Obj} (h : st'.sess = st.sess) : Tracked st' o ↔ Tracked st o := by
  unfold Tracked; rw [h]

theorem owned_setMedia {st : State} (ho : Owned st) (k : Nat) (m : Media) :
    Owned { st with objs := setMedia st.objs k m } := by
  intro o hmem hopen
  obtain ⟨o', ho', hid, hown, hkind, hst, hop, _⟩ := mem_setMedia hmem
  rw [hop] at hopen
  rcases ho o' ho' hopen with h | h
  · left; rw [hid]; exact h
  · right
    unfold Tracked at *
    simp only []
    rw [hown, hkind, hst, hid]; exact h

theorem owned_beginCreate {st : State} (ho : Owned st) (s : Nat) (kd : Kind) (m : Media) :
    Owned (beginCreate st s kd m) := by
  intro o hmem hopen
  exact ho o hmem hopen

theorem owned_doClose {st : State} (ho : Owned st) (k : Nat) :
    Owned { st with objs := closeObj st.objs k, closing := st.closing.filter (· != k) } := by
  intro o hmem hopen
  obtain ⟨o', ho', hid, hown, hkind, hst, _, hcase⟩ := mem_closeObj hmem
  rcases hcase with ⟨_, hcl⟩ | ⟨hne, heq⟩
  · rw [hcl] at hopen; cases hopen
  · subst heq
    rcases ho o ho' hopen with h | h
    · left
      simp only []
      apply List.mem_filter.mpr
      exact ⟨h, by simpa using hne⟩
    · right; exact h

theorem owned_createEndOk {st : State} (cfg : Cfg) (hp : cfg.recheckPub = true) (hs : cfg.recheckSub = true)
    (ho : Owned st) (p : Pending) : Owned (createEndOk cfg st p) := by
  unfold createEndOk
  simp only []
  split
  · -- accepted and stored
    rename_i hacc
    have hacc' := (Bool.and_eq_true _ _).mp hacc
    obtain ⟨hre, hnone⟩ := hacc'
    have hnone' : (st.sess p.owner).objs p.kind = none := by
      cases h : (st.sess p.owner).objs p.kind with
      | none => rfl
      | some _ => rw [h] at hnone; cases hnone
    have hlive : (st.sess p.owner).closed = false ∧ (st.sess p.owner).epoch = p.stamp := by
      unfold recheckOk at hre
      cases hk : p.kind with
      | pub t => simp [hk, hp] at hre; exact ⟨hre.1.1, hre.1.2⟩
      | sub q t => simp [hk, hs] at hre; exact ⟨hre.1, hre.2⟩
    intro o hmem hopen
    simp only [upd_objs, upd_closing] at hmem ⊢
    rcases List.mem_append.mp hmem with hold | hnew
    · rcases ho o hold hopen with h | h
      · exact Or.inl h
      · right
        by_cases hown : o.owner = p.owner
        · have hkd : o.kind ≠ p.kind := by
            intro hkd
            have h3 := h.2.2
            rw [hown, hkd, hnone'] at h3
            cases h3
          unfold Tracked at *
          rw [hown] at h ⊢
          simp only [upd_sess_same]
          refine ⟨h.1, h.2.1, ?_⟩
          simp [hkd]; exact h.2.2
        · unfold Tracked at *
          rw [upd_sess_ne _ _ _ _ hown]; exact h
    · right
      have : o = { id := p.id, owner := p.owner, kind := p.kind, media := p.media, stamp := p.stamp, isOpen := true } := by
        simpa using hnew
      subst this
      unfold Tracked
      simp only [upd_sess_same]
      refine ⟨?_, hlive.2.symm, by simp⟩
      intro hc
      simp only [] at hc
      rw [hlive.1] at hc; cases hc
  · -- refused or lost: handed to a closing goroutine
    intro o hmem hopen
    simp only [] at hmem ⊢
    rcases List.mem_append.mp hmem with hold | hnew
    · rcases ho o hold hopen with h | h
      · exact Or.inl (List.mem_append_left _ h)
      · exact Or.inr h
    · left
      have : o = { id := p.id, owner := p.owner, kind := p.kind, media := p.media, stamp := p.stamp, isOpen := true } := by
        simpa using hnew
      subst this
      simp

theorem owned_step (cfg : Cfg) (hp : cfg.recheckPub = true) (hs : cfg.recheckSub = true)
    {st : State} (ho : Owned st) (a : Action) : Owned (step cfg st a) := by
  cases a with
  | join s r => exact owned_upd ho s _ (fun h => h) rfl rfl
  | inCallSet s b => exact owned_upd ho s _ (fun h => h) rfl rfl
  | setMeta s m => exact owned_upd ho s _ (fun h => h) rfl rfl
  | leaveCall s =>
    simp only [step]
    split
    · exact ho
    · exact owned_release ho s
  | leaveRoom s => exact owned_leaveRoomStep ho s
  | closeCancel s =>
    simp only [step]
    exact owned_upd ho s _ (fun _ _ => by simp only []; omega) rfl rfl
  | closeLeave s =>
    simp only [step]
    split
    · exact ho
    · exact owned_upd (owned_leaveRoomStep ho s) s _ (fun _ _ => by simp only []; omega) rfl rfl
  | closeRelease s =>
    simp only [step]
    split
    · exact ho
    · intro o hmem hopen
      simp only [upd_objs, release_objs, upd_closing] at hmem ⊢
      rcases release_covers ho s o hmem hopen with h | ⟨hne, h⟩
      · exact Or.inl h
      · right
        unfold Tracked at *
        rw [upd_sess_ne _ _ _ _ hne]; exact h
  | setPerms s p => exact owned_upd ho s _ (fun h => h) rfl rfl
  | sweep s =>
    simp only [step]
    split
    · exact ho
    · exact owned_sweepBody cfg (owned_upd ho s _ (fun h => h) rfl rfl) s
  | offerBegin s t m =>
    simp only [step]
    split
    · exact ho
    · split
      · exact owned_setMedia ho _ m
      · exact owned_beginCreate ho _ _ _
  | subBegin s p t =>
    simp only [step]
    split
    · exact ho
    · exact owned_beginCreate ho _ _ _
  | createEnd k o =>
    simp only [step]
    split
    · exact ho
    · rename_i p _
      cases o with
      | ok => exact owned_createEndOk cfg hp hs ho p
      | fail => exact fun o hmem hopen => ho o hmem hopen
      | timeout => exact fun o hmem hopen => ho o hmem hopen
  | doClose k => exact owned_doClose ho k

/-! ### `IdsOk` -/

theorem idsOk_init : IdsOk State.init := by
  refine ⟨?_, ?_, ?_, ?_, ?_, ?_⟩ <;> simp [State.init, Sess.init]

theorem idsOk_upd {st : State} (hi : IdsOk st) (s : Nat) (f : Sess → Sess)
    (hob : ∀ kd k, (f (st.sess s)).objs kd = some k → (st.sess s).objs kd = some k) : IdsOk (st.upd s f) := by
  refine ⟨hi.obj_lt, hi.pend_lt, hi.obj_nodup, hi.pend_nodup, hi.disjoint, ?_⟩
  intro s' kd k h
  by_cases hs : s' = s
  · subst hs
    rw [upd_sess_same] at h
    exact hi.map_ok _ kd k (hob kd k h)
  · rw [upd_sess_ne _ _ _ _ hs] at h
    exact hi.map_ok s' kd k h

theorem idsOk_release {st : State} (hi : IdsOk st) (i : Nat) : IdsOk (release st i) := by
  refine ⟨hi.obj_lt, hi.pend_lt, hi.obj_nodup, hi.pend_nodup, hi.disjoint, ?_⟩
  intro s' kd k h
  by_cases hs : s' = i
  · subst hs
    rw [release_sess_same] at h
    cases h
  · rw [release_sess_ne _ _ _ hs] at h
    exact hi.map_ok s' kd k h

theorem idsOk_leaveRoomStep {st : State} (hi : IdsOk st) (s : Nat) : IdsOk (leaveRoomStep st s) := by
  unfold leaveRoomStep
  split
  · exact hi
  · exact idsOk_release (idsOk_upd hi s _ (fun _ _ h => h)) s

theorem idsOk_dropEntry {st : State} (hi : IdsOk st) (i : Nat) (kd : Kind) (k : Nat) :
    IdsOk (dropEntry st i kd k) := by
  refine ⟨hi.obj_lt, hi.pend_lt, hi.obj_nodup, hi.pend_nodup, hi.disjoint, ?_⟩
  intro s' kd' k' h
  simp only [dropEntry] at h ⊢
  by_cases hs : s' = i
  · subst hs
    rw [upd_sess_same] at h
    simp only [] at h
    split at h
    · cases h
    · exact hi.map_ok _ kd' k' h
  · rw [upd_sess_ne _ _ _ _ hs] at h
    exact hi.map_ok s' kd' k' h

theorem idsOk_sweepBody {st : State} (cfg : Cfg) (hi : IdsOk st) (s : Nat) : IdsOk (sweepBody cfg st s) := by
  unfold sweepBody
  simp only []
  have h1 : IdsOk (match videoToClose st s with
      | some k => dropEntry st s (.pub .video) k
      | none => st) := by
    split
    · exact idsOk_dropEntry hi _ _ _
    · exact hi
  split
  · exact h1
  · split
    · exact h1
    · split
      · exact idsOk_dropEntry h1 _ _ _
      · exact h1

theorem idsOk_setMedia {st : State} (hi : IdsOk st) (k : Nat) (m : Media) :
    IdsOk { st with objs := setMedia st.objs k m } := by
  refine ⟨?_, hi.pend_lt, ?_, hi.pend_nodup, ?_, ?_⟩
  · intro o hmem
    obtain ⟨o', ho', hid, _⟩ := mem_setMedia hmem
    rw [hid]; exact hi.obj_lt o' ho'
  · simp only []; rw [setMedia_ids]; exact hi.obj_nodup
  · intro o hmem p hp
    obtain ⟨o', ho', hid, _⟩ := mem_setMedia hmem
    rw [hid]; exact hi.disjoint o' ho' p hp
  · intro s kd k' h
    obtain ⟨o, ho, h1, h2, h3⟩ := hi.map_ok s kd k' h
    refine ⟨if o.id = k then { o with media := m } else o, ?_, ?_, ?_, ?_⟩
    · simp only [setMedia]
      exact List.mem_map.mpr ⟨o, ho, rfl⟩
    · split <;> exact h1
    · split <;> exact h2
    · split <;> exact h3

theorem idsOk_closeObj {st : State} (hi : IdsOk st) (k : Nat) :
    IdsOk { st with objs := closeObj st.objs k, closing := st.closing.filter (· != k) } := by
  refine ⟨?_, hi.pend_lt, ?_, hi.pend_nodup, ?_, ?_⟩
  · intro o hmem
    obtain ⟨o', ho', hid, _⟩ := mem_closeObj hmem
    rw [hid]; exact hi.obj_lt o' ho'
  · simp only []; rw [closeObj_ids]; exact hi.obj_nodup
  · intro o hmem p hp
    obtain ⟨o', ho', hid, _⟩ := mem_closeObj hmem
    rw [hid]; exact hi.disjoint o' ho' p hp
  · intro s kd k' h
    obtain ⟨o, ho, h1, h2, h3⟩ := hi.map_ok s kd k' h
    refine ⟨if o.id = k then { o with isOpen := false } else o, ?_, ?_, ?_, ?_⟩
    · simp only [closeObj]
      exact List.mem_map.mpr ⟨o, ho, rfl⟩
    · split <;> exact h1
    · split <;> exact h2
    · split <;> exact h3

theorem idsOk_beginCreate {st : State} (hi : IdsOk st) (s : Nat) (kd : Kind) (m : Media) :
    IdsOk (beginCreate st s kd m) := by
  refine ⟨?_, ?_, hi.obj_nodup, ?_, ?_, hi.map_ok⟩
  · intro o ho
    have := hi.obj_lt o ho
    simp only [beginCreate]; omega
  · intro p hp
    simp only [beginCreate] at hp ⊢
    rcases List.mem_append.mp hp with h | h
    · have := hi.pend_lt p h; omega
    · have : p.id = st.nextId := by
        have := List.mem_singleton.mp h
        rw [this]
      omega
  · simp only [beginCreate, List.map_append, List.map_cons, List.map_nil]
    apply List.nodup_append.mpr
    refine ⟨hi.pend_nodup, by simp, ?_⟩
    intro a ha b hb
    have hb' : b = st.nextId := by simpa using hb
    obtain ⟨p, hp, rfl⟩ := List.mem_map.mp ha
    have := hi.pend_lt p hp
    omega
  · intro o ho p hp
    simp only [beginCreate] at hp
    rcases List.mem_append.mp hp with h | h
    · exact hi.disjoint o ho p h
    · have : p.id = st.nextId := by
        have := List.mem_singleton.mp h
        rw [this]
      have := hi.obj_lt o ho
      omega

theorem pend_filter_sub {pend : List Pending} {k : Nat} {p : Pending}
    (h : p ∈ pend.filter (fun q => q.id != k)) : p ∈ pend ∧ p.id ≠ k := by
  have := List.mem_filter.mp h
  exact ⟨this.1, by simpa using this.2⟩

theorem idsOk_dropPend {st : State} (hi : IdsOk st) (k : Nat) :
    IdsOk { st with pend := st.pend.filter (fun q => q.id != k) } := by
  refine ⟨hi.obj_lt, ?_, hi.obj_nodup, ?_, ?_, hi.map_ok⟩
  · intro p hp; exact hi.pend_lt p (pend_filter_sub hp).1
  · simp only []
    exact List.Nodup.sublist (List.Sublist.map _ (List.filter_sublist)) hi.pend_nodup
  · intro o ho p hp; exact hi.disjoint o ho p (pend_filter_sub hp).1

theorem idsOk_createEndOk {st : State} (cfg : Cfg) (hi : IdsOk st) (p : Pending) (hp : p ∈ st.pend) :
    IdsOk (createEndOk cfg st p) := by
  -- the intermediate state: the call is answered, the object exists
  have hnew : ∀ o ∈ st.objs, o.id ≠ p.id := fun o ho => hi.disjoint o ho p hp
  have h1 : IdsOk { st with pend := st.pend.filter (fun q => q.id != p.id),
                            objs := st.objs ++ [{ id := p.id, owner := p.owner, kind := p.kind, media := p.media,
                                                  stamp := p.stamp, isOpen := true }] } := by
    refine ⟨?_, ?_, ?_, ?_, ?_, ?_⟩
    · intro o ho
      rcases List.mem_append.mp ho with h | h
      · exact hi.obj_lt o h
      · have : o.id = p.id := by
          have := List.mem_singleton.mp h
          rw [this]
        rw [this]; exact hi.pend_lt p hp
    · intro q hq; exact hi.pend_lt q (pend_filter_sub hq).1
    · simp only [List.map_append, List.map_cons, List.map_nil]
      apply List.nodup_append.mpr
      refine ⟨hi.obj_nodup, by simp, ?_⟩
      intro a ha b hb
      have hb' : b = p.id := by simpa using hb
      obtain ⟨o, ho, rfl⟩ := List.mem_map.mp ha
      rw [hb']; exact hnew o ho
    · simp only []
      exact List.Nodup.sublist (List.Sublist.map _ (List.filter_sublist)) hi.pend_nodup
    · intro o ho q hq
      have hq' := pend_filter_sub hq
      rcases List.mem_append.mp ho with h | h
      · exact hi.disjoint o h q hq'.1
      · have : o.id = p.id := by
          have := List.mem_singleton.mp h
          rw [this]
        rw [this]; exact fun e => hq'.2 e.symm
    · intro s kd k h
      obtain ⟨o, ho, h'⟩ := hi.map_ok s kd k h
      exact ⟨o, List.mem_append_left _ ho, h'⟩
  unfold createEndOk
  simp only []
  split
  · refine ⟨h1.obj_lt, h1.pend_lt, h1.obj_nodup, h1.pend_nodup, h1.disjoint, ?_⟩
    intro s kd k h
    by_cases hs : s = p.owner
    · subst hs
      rw [upd_sess_same] at h
      simp only [] at h
      split at h
      · rename_i hkd
        refine ⟨{ id := p.id, owner := p.owner, kind := p.kind, media := p.media, stamp := p.stamp, isOpen := true }, ?_, ?_, rfl, hkd.symm⟩
        · simp
        · exact Option.some.inj h
      · exact h1.map_ok _ kd k h
    · rw [upd_sess_ne _ _ _ _ hs] at h
      exact h1.map_ok s kd k h
  · exact ⟨h1.obj_lt, h1.pend_lt, h1.obj_nodup, h1.pend_nodup, h1.disjoint, h1.map_ok⟩

theorem idsOk_step (cfg : Cfg) {st : State} (hi : IdsOk st) (a : Action) : IdsOk (step cfg st a) := by
  cases a with
  | join s r => simp only [step]; exact idsOk_upd hi s _ (fun _ _ h => h)
  | inCallSet s b => simp only [step]; exact idsOk_upd hi s _ (fun _ _ h => h)
  | setMeta s m => simp only [step]; exact idsOk_upd hi s _ (fun _ _ h => h)
  | leaveCall s =>
    simp only [step]
    split
    · exact hi
    · exact idsOk_release hi s
  | leaveRoom s => exact idsOk_leaveRoomStep hi s
  | closeCancel s =>
    simp only [step]
    exact idsOk_upd hi s _ (fun _ _ h => h)
  | closeLeave s =>
    simp only [step]
    split
    · exact hi
    · exact idsOk_upd (idsOk_leaveRoomStep hi s) s _ (fun _ _ h => h)
  | closeRelease s =>
    simp only [step]
    split
    · exact hi
    · exact idsOk_upd (idsOk_release hi s) s _ (fun _ _ h => h)
  | setPerms s p => simp only [step]; exact idsOk_upd hi s _ (fun _ _ h => h)
  | sweep s =>
    simp only [step]
    split
    · exact hi
    · exact idsOk_sweepBody cfg (idsOk_upd hi s _ (fun _ _ h => h)) s
  | offerBegin s t m =>
    simp only [step]
    split
    · exact hi
    · split
      · exact idsOk_setMedia hi _ m
      · exact idsOk_beginCreate hi _ _ _
  | subBegin s p t =>
    simp only [step]
    split
    · exact hi
    · exact idsOk_beginCreate hi _ _ _
  | createEnd k o =>
    simp only [step]
    split
    · exact hi
    · rename_i p hp
      have hp' := findPend_some hp
      cases o with
      | ok => exact idsOk_createEndOk cfg hi p hp'.1
      | fail => exact idsOk_dropPend hi k
      | timeout => exact idsOk_dropPend hi k
  | doClose k => exact idsOk_closeObj hi k

/-! ### `PermOk` -/

variable {sc : Kind → Bool}


theorem eq_of_id_eq {objs : List Obj} (hn : (objs.map (·.id)).Nodup) {a b : Obj}
    (ha : a ∈ objs) (hb : b ∈ objs) (h : a.id = b.id) : a = b := by
  have h1 := findObj_of_mem hn ha
  have h2 := findObj_of_mem hn hb
  rw [h] at h1
  rw [h1] at h2
  exact Option.some.inj h2

theorem permOk_frame {st st' : State} (hp : PermOk sc st) (hobjs : st'.objs = st.objs)
    (h : ∀ o ∈ st.objs, o.isOpen = true → Mapped st' o → (st'.sess o.owner).sweeps = 0 →
      Mapped st o ∧ (st.sess o.owner).sweeps = 0 ∧ (st'.sess o.owner).perms = (st.sess o.owner).perms) :
    PermOk sc st' := by
  intro o hmem hopen ht hsw
  rw [hobjs] at hmem
  obtain ⟨h1, h2, h3⟩ := h o hmem hopen ht hsw
  rw [h3]
  exact hp o hmem hopen h1 h2

theorem permOk_upd {st : State} (hp : PermOk sc st) (s : Nat) (f : Sess → Sess)
    (hep : (f (st.sess s)).epoch = (st.sess s).epoch)
    (hob : (f (st.sess s)).objs = (st.sess s).objs)
    (hpe : (f (st.sess s)).perms = (st.sess s).perms)
    (hsw : (f (st.sess s)).sweeps = 0 → (st.sess s).sweeps = 0) : PermOk sc (st.upd s f) := by
  apply permOk_frame (st' := st.upd s f) hp rfl
  intro o _ _ ht hs0
  by_cases hs : o.owner = s
  · unfold Mapped at *
    rw [hs] at ht hs0 ⊢
    simp only [upd_sess_same] at ht hs0 ⊢
    rw [hep, hob] at ht
    exact ⟨⟨trivial, ht.2.1, ht.2.2⟩, hsw hs0, hpe⟩
  · unfold Mapped at *
    rw [upd_sess_ne _ _ _ _ hs] at ht hs0 ⊢
    exact ⟨ht, hs0, rfl⟩

theorem permOk_release {st : State} (hp : PermOk sc st) (i : Nat) : PermOk sc (release st i) := by
  apply permOk_frame (st' := release st i) hp rfl
  intro o _ _ ht hs0
  by_cases hs : o.owner = i
  · exfalso
    unfold Mapped at ht
    rw [hs, release_sess_same] at ht
    cases ht.2.2
  · unfold Mapped at *
    rw [release_sess_ne _ _ _ hs] at ht hs0 ⊢
    exact ⟨ht, hs0, rfl⟩

theorem permOk_leaveRoomStep {st : State} (hp : PermOk sc st) (s : Nat) : PermOk sc (leaveRoomStep st s) := by
  unfold leaveRoomStep
  split
  · exact hp
  · exact permOk_release (permOk_upd hp s _ rfl rfl rfl (fun h => h)) s

/-! the revocation goroutine -/

theorem dropEntry_sess_ne (st : State) (i j : Nat) (kd : Kind) (k : Nat) (h : j ≠ i) :
    (dropEntry st i kd k).sess j = st.sess j := by
  simp only [dropEntry]; exact upd_sess_ne _ _ _ _ h

theorem dropEntry_sess_same (st : State) (i : Nat) (kd : Kind) (k : Nat) :
    (dropEntry st i kd k).sess i =
      { st.sess i with objs := fun kd' => if kd' = kd then none else (st.sess i).objs kd' } := by
  simp only [dropEntry, upd_sess_same]

@[simp] theorem dropEntry_objs (st : State) (i : Nat) (kd : Kind) (k : Nat) : (dropEntry st i kd k).objs = st.objs := rfl

/-- What the sweep leaves of session `s`: the same session with some map entries removed. -/
structure SweepRel (st st' : State) (s : Nat) : Prop where
  objs : st'.objs = st.objs
  other : ∀ j, j ≠ s → st'.sess j = st.sess j
  epoch : (st'.sess s).epoch = (st.sess s).epoch
  perms : (st'.sess s).perms = (st.sess s).perms
  sweeps : (st'.sess s).sweeps = (st.sess s).sweeps
  sub : ∀ kd k, (st'.sess s).objs kd = some k → (st.sess s).objs kd = some k

theorem sweepRel_refl (st : State) (s : Nat) : SweepRel st st s :=
  ⟨rfl, fun _ _ => rfl, rfl, rfl, rfl, fun _ _ h => h⟩

theorem sweepRel_drop (st : State) (s : Nat) (kd : Kind) (k : Nat) : SweepRel st (dropEntry st s kd k) s := by
  refine ⟨rfl, fun j hj => dropEntry_sess_ne st s j kd k hj, ?_, ?_, ?_, ?_⟩
  all_goals rw [dropEntry_sess_same]
  intro kd' k' h
  simp only [] at h
  split at h
  · cases h
  · exact h

theorem sweepRel_trans {a b c : State} {s : Nat} (h1 : SweepRel a b s) (h2 : SweepRel b c s) : SweepRel a c s :=
  ⟨h2.objs.trans h1.objs, fun j hj => (h2.other j hj).trans (h1.other j hj),
   h2.epoch.trans h1.epoch, h2.perms.trans h1.perms, h2.sweeps.trans h1.sweeps,
   fun kd k h => h1.sub kd k (h2.sub kd k h)⟩

theorem sweepBody_rel (cfg : Cfg) (st : State) (s : Nat) : SweepRel st (sweepBody cfg st s) s := by
  unfold sweepBody
  simp only []
  have h1 : SweepRel st (match videoToClose st s with
      | some k => dropEntry st s (.pub .video) k
      | none => st) s := by
    split
    · exact sweepRel_drop st s _ _
    · exact sweepRel_refl st s
  split
  · exact h1
  · split
    · exact h1
    · split
      · exact sweepRel_trans h1 (sweepRel_drop _ s _ _)
      · exact h1

/-- The state after the first half of the sweep. -/
def afterVideo (st : State) (s : Nat) : State :=
  match videoToClose st s with
  | some k => dropEntry st s (.pub .video) k
  | none => st

theorem sweepBody_complete (cfg : Cfg) (hcfg : cfg.sweepEarly = false) (st : State) (s : Nat) :
    sweepBody cfg st s =
      if (st.sess s).perms.screen = true then afterVideo st s
      else match ((afterVideo st s).sess s).objs (.pub .screen) with
        | some k => dropEntry (afterVideo st s) s (.pub .screen) k
        | none => afterVideo st s := by
  unfold sweepBody afterVideo
  simp only [hcfg, Bool.and_false, Bool.false_eq_true, if_false]
  rfl

theorem afterVideo_rel (st : State) (s : Nat) : SweepRel st (afterVideo st s) s := by
  unfold afterVideo
  split
  · exact sweepRel_drop st s _ _
  · exact sweepRel_refl st s

theorem afterVideo_video {st : State} {s k : Nat} (h : videoToClose st s = some k) :
    ((afterVideo st s).sess s).objs (.pub .video) = none := by
  unfold afterVideo
  rw [h]
  simp only []
  rw [dropEntry_sess_same]
  simp

theorem sweepBody_eq (cfg : Cfg) (st : State) (s : Nat) :
    sweepBody cfg st s =
      if ((videoToClose st s).isSome && cfg.sweepEarly) = true then afterVideo st s
      else if (st.sess s).perms.screen = true then afterVideo st s
      else match ((afterVideo st s).sess s).objs (.pub .screen) with
        | some k => dropEntry (afterVideo st s) s (.pub .screen) k
        | none => afterVideo st s := rfl

theorem sweepBody_from_afterVideo (cfg : Cfg) (st : State) (s : Nat) :
    SweepRel (afterVideo st s) (sweepBody cfg st s) s := by
  rw [sweepBody_eq]
  generalize afterVideo st s = st1
  split
  · exact sweepRel_refl _ s
  · split
    · exact sweepRel_refl _ s
    · split
      · exact sweepRel_drop _ s _ _
      · exact sweepRel_refl _ s

/-- A camera publisher that is still in the map after the sweep was not to be closed (whatever the sweep
does afterwards). -/
theorem sweepBody_keeps_video (cfg : Cfg) (st : State) (s : Nat) :
    ∀ k, ((sweepBody cfg st s).sess s).objs (.pub .video) = some k → videoToClose st s = none := by
  intro k hk
  cases hv : videoToClose st s with
  | none => rfl
  | some k' =>
    exfalso
    have := (sweepBody_from_afterVideo cfg st s).sub _ _ hk
    rw [afterVideo_video hv] at this
    cases this

/-- With a complete sweep a screen publisher is still in the map only if the session may publish its screen. -/
theorem sweepBody_keeps_screen (cfg : Cfg) (hcfg : cfg.sweepEarly = false) (st : State) (s : Nat) :
    ∀ k, ((sweepBody cfg st s).sess s).objs (.pub .screen) = some k → (st.sess s).perms.screen = true := by
  rw [sweepBody_complete cfg hcfg]
  intro k hk
  by_cases hsc : (st.sess s).perms.screen = true
  · exact hsc
  · exfalso
    rw [if_neg hsc] at hk
    cases hm : ((afterVideo st s).sess s).objs (.pub .screen) with
    | none => rw [hm] at hk; simp only [] at hk; rw [hm] at hk; cases hk
    | some k2 =>
      rw [hm] at hk; simp only [] at hk
      rw [dropEntry_sess_same] at hk
      simp at hk

theorem permOk_sweepBody (cfg : Cfg) (hcfg : cfg.sweepEarly = false ∨ sc (.pub .screen) = false)
    {st : State} (hi : IdsOk st)
    (hp : ∀ o ∈ st.objs, o.isOpen = true → o.owner ≠ s → Mapped st o → (st.sess o.owner).sweeps = 0 →
      sc o.kind = true → permitted (st.sess o.owner).perms o.kind o.media = true) :
    PermOk sc (sweepBody cfg st s) := by
  have hrel := sweepBody_rel cfg st s
  have hkeepv := sweepBody_keeps_video cfg st s
  intro o hmem hopen ht hs0 hsc
  rw [hrel.objs] at hmem
  by_cases hs : o.owner = s
  · -- an object of the swept session that is still tracked
    unfold Mapped at ht
    rw [hs] at ht ⊢
    rw [hrel.perms]
    have hmap := ht.2.2
    cases hk : o.kind with
    | sub q t => simp [permitted]
    | pub t =>
      rw [hk] at hmap
      cases t with
      | screen =>
        simp only [permitted, permittedPub]
        rcases hcfg with hcfg | hcfg
        · exact sweepBody_keeps_screen cfg hcfg st s _ hmap
        · rw [hk, hcfg] at hsc; cases hsc
      | video =>
        have hnone := hkeepv _ hmap
        have hold := hrel.sub _ _ hmap
        -- `videoToClose = none` although there is a camera publisher: it is covered
        simp only [permitted, permittedPub]
        unfold videoToClose at hnone
        simp only [hold] at hnone
        have hmedia : objMedia st o.id = o.media := by
          unfold objMedia
          rw [findObj_of_mem hi.obj_nodup hmem]
        rw [hmedia] at hnone
        cases hm : (st.sess s).perms.media with
        | true => simp
        | false =>
          simp only [hm, Bool.false_eq_true, if_false] at hnone
          split at hnone
          · cases hnone
          · rename_i hcond
            cases ha : o.media.audio <;> cases hv : o.media.video <;>
              cases hpa : (st.sess s).perms.audio <;> cases hpv : (st.sess s).perms.video <;>
              simp [ha, hv, hpa, hpv] at hcond ⊢
  · have ht' : Mapped st o := by
      unfold Mapped at *
      rw [hrel.other _ hs] at ht; exact ht
    rw [hrel.other _ hs] at hs0 ⊢
    exact hp o hmem hopen hs ht' hs0 hsc

theorem permOk_setMedia {st : State} (hi : IdsOk st) (hp : PermOk sc st) (s : Nat) (t : Stream) (k : Nat) (m : Media)
    (hk : (st.sess s).objs (.pub t) = some k) (hperm : permittedPub (st.sess s).perms t m = true) :
    PermOk sc { st with objs := setMedia st.objs k m } := by
  intro o hmem hopen ht hs0
  obtain ⟨o', ho', hid, hown, hkind, hst, hop, hcase⟩ := mem_setMedia hmem
  have ht' : Mapped st o' := by
    unfold Mapped at *
    simp only [] at ht
    rw [hown, hkind, hst, hid] at ht; exact ht
  simp only [] at hs0 ⊢
  rcases hcase with ⟨hk', hm⟩ | ⟨_, heq⟩
  · -- the publisher whose media were replaced: it is the one of the offer
    obtain ⟨o2, ho2, h21, h22, h23⟩ := hi.map_ok s _ k hk
    have : o2 = o' := eq_of_id_eq hi.obj_nodup ho2 ho' (by rw [h21, hk'])
    subst this
    rw [hown, hkind, hm, h22, h23]
    exact fun _ => hperm
  · subst heq
    rw [hop] at hopen
    exact hp o ho' hopen ht' hs0

theorem permOk_createEndOk {st : State} (cfg : Cfg) (hrp : cfg.recheckPub = true) (hi : IdsOk st)
    (hp : PermOk sc st) (p : Pending) (hpend : p ∈ st.pend) : PermOk sc (createEndOk cfg st p) := by
  have hnew : ∀ o ∈ st.objs, o.id ≠ p.id := fun o ho => hi.disjoint o ho p hpend
  unfold createEndOk
  simp only []
  split
  · rename_i hacc
    obtain ⟨hre, _⟩ := (Bool.and_eq_true _ _).mp hacc
    intro o hmem hopen ht hs0
    simp only [upd_objs] at hmem
    rcases List.mem_append.mp hmem with hold | hnw
    · -- an older object: its entry is not the new one
      by_cases hown : o.owner = p.owner
      · have hkd : o.kind ≠ p.kind := by
          intro hkd
          unfold Mapped at ht
          rw [hown, upd_sess_same] at ht
          have h3 := ht.2.2
          simp only [hkd, if_true] at h3
          exact hnew o hold (Option.some.inj h3).symm
        have ht' : Mapped st o := by
          unfold Mapped at *
          rw [hown, upd_sess_same] at ht
          rw [hown]
          refine ⟨ht.1, ht.2.1, ?_⟩
          have h3 := ht.2.2
          simp only [hkd, if_false] at h3
          exact h3
        rw [hown, upd_sess_same] at hs0 ⊢
        rw [← hown] at hs0 ⊢
        exact hp o hold hopen ht' hs0
      · have ht' : Mapped st o := by
          unfold Mapped at *
          rw [upd_sess_ne _ _ _ _ hown] at ht; exact ht
        rw [upd_sess_ne _ _ _ _ hown] at hs0 ⊢
        exact hp o hold hopen ht' hs0
    · have : o = { id := p.id, owner := p.owner, kind := p.kind, media := p.media, stamp := p.stamp, isOpen := true } := by
        simpa using hnw
      subst this
      simp only [upd_sess_same]
      unfold recheckOk at hre
      cases hk : p.kind with
      | pub t => simp [hk, hrp] at hre; simp [permitted, hre.2]
      | sub q t => simp [permitted]
  · intro o hmem hopen ht hs0
    simp only [] at hmem ht hs0 ⊢
    rcases List.mem_append.mp hmem with hold | hnw
    · exact hp o hold hopen ht hs0
    · exfalso
      have : o = { id := p.id, owner := p.owner, kind := p.kind, media := p.media, stamp := p.stamp, isOpen := true } := by
        simpa using hnw
      subst this
      unfold Mapped at ht
      obtain ⟨o2, ho2, h21, _, _⟩ := hi.map_ok _ _ _ ht.2.2
      exact hnew o2 ho2 h21

theorem permOk_doClose {st : State} (hp : PermOk sc st) (k : Nat) :
    PermOk sc { st with objs := closeObj st.objs k, closing := st.closing.filter (· != k) } := by
  intro o hmem hopen ht hs0
  obtain ⟨o', ho', _, _, _, _, _, hcase⟩ := mem_closeObj hmem
  rcases hcase with ⟨_, hcl⟩ | ⟨_, heq⟩
  · rw [hcl] at hopen; cases hopen
  · subst heq
    exact hp o ho' hopen ht hs0

theorem permOk_step (cfg : Cfg) (hrp : cfg.recheckPub = true)
    (hcfg : cfg.sweepEarly = false ∨ sc (.pub .screen) = false)
    {st : State} (hi : IdsOk st) (hp : PermOk sc st) (a : Action) : PermOk sc (step cfg st a) := by
  cases a with
  | join s r => simp only [step]; exact permOk_upd hp s _ rfl rfl rfl (fun h => h)
  | inCallSet s b => simp only [step]; exact permOk_upd hp s _ rfl rfl rfl (fun h => h)
  | setMeta s m => simp only [step]; exact permOk_upd hp s _ rfl rfl rfl (fun h => h)
  | leaveCall s =>
    simp only [step]
    split
    · exact hp
    · exact permOk_release hp s
  | leaveRoom s => exact permOk_leaveRoomStep hp s
  | closeCancel s =>
    simp only [step]
    exact permOk_upd hp s _ rfl rfl rfl (fun h => h)
  | closeLeave s =>
    simp only [step]
    split
    · exact hp
    · exact permOk_upd (permOk_leaveRoomStep hp s) s _ rfl rfl rfl (fun h => h)
  | closeRelease s =>
    simp only [step]
    split
    · exact hp
    · exact permOk_upd (permOk_release hp s) s _ rfl rfl rfl (fun h => h)
  | setPerms s p =>
    simp only [step]
    intro o hmem hopen ht hs0
    simp only [upd_objs] at hmem
    by_cases hs : o.owner = s
    · rw [hs, upd_sess_same] at hs0
      simp at hs0
    · have ht' : Mapped st o := by
        unfold Mapped at *
        rw [upd_sess_ne _ _ _ _ hs] at ht; exact ht
      rw [upd_sess_ne _ _ _ _ hs] at hs0 ⊢
      exact hp o hmem hopen ht' hs0
  | sweep s =>
    simp only [step]
    split
    · exact hp
    · apply permOk_sweepBody cfg hcfg (idsOk_upd hi s _ (fun _ _ h => h))
      intro o hmem hopen hne ht hs0 hsc
      simp only [upd_objs] at hmem
      have ht' : Mapped st o := by
        unfold Mapped at *
        rw [upd_sess_ne _ _ _ _ hne] at ht; exact ht
      rw [upd_sess_ne _ _ _ _ hne] at hs0 ⊢
      exact hp o hmem hopen ht' hs0 hsc
  | offerBegin s t m =>
    simp only [step]
    split
    · exact hp
    · rename_i hperm
      split
      · rename_i k hk
        exact permOk_setMedia hi hp s t k m hk (by simpa using hperm)
      · exact fun o hmem hopen ht hs0 => hp o hmem hopen ht hs0
  | subBegin s p t =>
    simp only [step]
    split
    · exact hp
    · exact fun o hmem hopen ht hs0 => hp o hmem hopen ht hs0
  | createEnd k o =>
    simp only [step]
    split
    · exact hp
    · rename_i p hpd
      have hp' := findPend_some hpd
      cases o with
      | ok => exact permOk_createEndOk cfg hrp hi hp p hp'.1
      | fail => exact fun o hmem hopen ht hs0 => hp o hmem hopen ht hs0
      | timeout => exact fun o hmem hopen ht hs0 => hp o hmem hopen ht hs0
  | doClose k => exact permOk_doClose hp k

end SigModel.Mcu
