/-
Helper lemmas for C14 (`Model/Transient.lean`, `Spec/Transient.lean`).
-/
import SigModel.Spec.Transient

namespace SigModel.Transient

end SigModel.Transient
