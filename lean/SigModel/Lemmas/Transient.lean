/-
Helper lemmas for C14 (`Model/Transient.lean`, `Spec/Transient.lean`).
-/
import SigModel.Spec.Transient

namespace SigModel.Transient

/-! ### association lists -/

@[simp] theorem kvGet_nil {α : Type} (k : Key) : kvGet ([] : List (Key × α)) k = none := rfl

theorem kvGet_cons {α : Type} (k' : Key) (v : α) (r : List (Key × α)) (k : Key) :
    kvGet ((k', v) :: r) k = if k' = k then some v else kvGet r k := rfl

theorem kvGet_filter_key {α : Type} (g : Key → Bool) (m : List (Key × α)) (k : Key) :
    kvGet (m.filter (fun p => g p.1)) k = if g k then kvGet m k else none := by
  induction m with
  | nil => simp
  | cons p r ih =>
    obtain ⟨k', v⟩ := p
    by_cases hg : g k' = true
    · rw [List.filter_cons_of_pos (by simpa using hg), kvGet_cons, kvGet_cons, ih]
      by_cases hk : k' = k
      · subst hk; simp [hg]
      · simp [hk]
    · rw [List.filter_cons_of_neg (by simpa using hg), ih, kvGet_cons]
      by_cases hk : k' = k
      · subst hk; simp [hg]
      · simp [hk]

theorem kvGet_kvErase {α : Type} (m : List (Key × α)) (k k' : Key) :
    kvGet (kvErase m k) k' = if k' = k then none else kvGet m k' := by
  have := kvGet_filter_key (fun x => decide (x ≠ k)) m k'
  simp only [kvErase]
  rw [this]
  by_cases h : k' = k <;> simp [h]

theorem kvGet_kvSet {α : Type} (m : List (Key × α)) (k : Key) (v : α) (k' : Key) :
    kvGet (kvSet m k v) k' = if k' = k then some v else kvGet m k' := by
  simp only [kvSet, kvGet_cons, kvGet_kvErase]
  by_cases h : k' = k
  · subst h; simp
  · have : ¬ k = k' := fun e => h e.symm
    simp [h, this]

theorem kvErase_kvErase {α : Type} (m : List (Key × α)) (k : Key) :
    kvErase (kvErase m k) k = kvErase m k := by
  simp [kvErase, List.filter_filter]

theorem kvErase_kvSet {α : Type} (m : List (Key × α)) (k : Key) (v : α) :
    kvErase (kvSet m k v) k = kvErase m k := by
  simp [kvSet, kvErase, List.filter_filter]

theorem kvSet_kvSet {α : Type} (m : List (Key × α)) (k : Key) (v w : α) :
    kvSet (kvSet m k v) k w = kvSet m k w := by
  simp only [kvSet]
  congr 1
  simp [kvErase, List.filter_filter]

theorem not_mem_of_kvGet_none {α : Type} (m : List (Key × α)) (k : Key) (h : kvGet m k = none) :
    ∀ p ∈ m, p.1 ≠ k := by
  induction m with
  | nil => intro p hp; cases hp
  | cons q r ih =>
    obtain ⟨k', v⟩ := q
    rw [kvGet_cons] at h
    by_cases hk : k' = k
    · simp [hk] at h
    · simp only [hk, ite_false] at h
      intro p hp
      cases hp with
      | head => exact hk
      | tail _ hp => exact ih h p hp

theorem kvErase_eq_self_of_none {α : Type} (m : List (Key × α)) (k : Key) (h : kvGet m k = none) :
    kvErase m k = m := by
  simp only [kvErase]
  rw [List.filter_eq_self]
  intro p hp
  simpa using not_mem_of_kvGet_none m k h p hp

/-! ### replicas -/

theorem applyMsg_idem (r : Replica) (m : Msg) : applyMsg (applyMsg r m) m = applyMsg r m := by
  cases m with
  | initial d => rfl
  | set k v old => simp [applyMsg, kvSet_kvSet]
  | remove k old => simp [applyMsg, kvErase_kvErase]

theorem applyMsgs_append (r : Replica) (a b : List Msg) :
    applyMsgs r (a ++ b) = applyMsgs (applyMsgs r a) b := by
  simp [applyMsgs, List.foldl_append]

theorem applyMsgs_replicate_succ (r : Replica) (m : Msg) (n : Nat) :
    applyMsgs r (List.replicate (n + 1) m) = applyMsg r m := by
  induction n generalizing r with
  | zero => rfl
  | succ n ih =>
    have : List.replicate (n + 1 + 1) m = m :: List.replicate (n + 1) m := rfl
    rw [this]
    show applyMsgs (applyMsg r m) (List.replicate (n + 1) m) = applyMsg r m
    rw [ih, applyMsg_idem]

theorem msgsFor_append (l : Lid) (a b : Out) : msgsFor l (a ++ b) = msgsFor l a ++ msgsFor l b := by
  simp [msgsFor, List.filter_append]

@[simp] theorem msgsFor_nil (l : Lid) : msgsFor l [] = [] := rfl

theorem msgsFor_notify (st : State) (m : Msg) (l : Lid) :
    msgsFor l (notify st m) = List.replicate (st.listeners.count l) m := by
  simp only [notify, msgsFor]
  induction st.listeners with
  | nil => rfl
  | cons a r ih =>
    by_cases h : a = l
    · subst h
      simp [ih, List.replicate_succ]
    · have h' : (a == l) = false := by simpa using h
      simp only [List.map_cons, List.filter_cons, h', List.count_cons]
      simpa using ih

/-- The messages of a step turn the old data into the new data for every registered listener. -/
def Delta (st : State) (out : Out) (st' : State) : Prop :=
  st'.listeners = st.listeners ∧
  ∀ l ∈ st.listeners, applyMsgs st.data (msgsFor l out) = st'.data

theorem Delta.refl' (st st' : State) (hl : st'.listeners = st.listeners) (hd : st'.data = st.data) :
    Delta st [] st' := ⟨hl, fun _ _ => by simp [applyMsgs, hd]⟩

theorem Delta.trans {a b c : State} {o1 o2 : Out} (h1 : Delta a o1 b) (h2 : Delta b o2 c) :
    Delta a (o1 ++ o2) c := by
  refine ⟨h2.1.trans h1.1, fun l hl => ?_⟩
  rw [msgsFor_append, applyMsgs_append, h1.2 l hl]
  exact h2.2 l (h1.1 ▸ hl)

theorem Delta_notify (st st' : State) (m : Msg) (hl : st'.listeners = st.listeners)
    (hd : st'.data = applyMsg st.data m) : Delta st (notify st m) st' := by
  refine ⟨hl, fun l hmem => ?_⟩
  rw [msgsFor_notify]
  have hpos : 0 < st.listeners.count l := List.count_pos_iff.mpr hmem
  obtain ⟨n, hn⟩ : ∃ n, st.listeners.count l = n + 1 := ⟨_, (Nat.succ_pred_eq_of_pos hpos).symm⟩
  rw [hn, applyMsgs_replicate_succ, hd]

/-! #### the timer helpers do not touch data or listeners -/

@[simp] theorem stopTimer_data (st : State) (k : Key) : (stopTimer st k).data = st.data := by
  unfold stopTimer; split <;> rfl
@[simp] theorem stopTimer_listeners (st : State) (k : Key) : (stopTimer st k).listeners = st.listeners := by
  unfold stopTimer; split <;> rfl
@[simp] theorem stopTimer_now (st : State) (k : Key) : (stopTimer st k).now = st.now := by
  unfold stopTimer; split <;> rfl
@[simp] theorem stopTimer_nextId (st : State) (k : Key) : (stopTimer st k).nextId = st.nextId := by
  unfold stopTimer; split <;> rfl
@[simp] theorem arm_data (st : State) (k : Key) (v : Val) (ttl : Int) : (arm st k v ttl).data = st.data := rfl
@[simp] theorem arm_listeners (st : State) (k : Key) (v : Val) (ttl : Int) :
    (arm st k v ttl).listeners = st.listeners := rfl

@[simp] theorem removeAfterTTL_data (c : Cfg) (st : State) (k : Key) (v : Val) (ttl : Int) :
    (removeAfterTTL c st k v ttl).data = st.data := by
  unfold removeAfterTTL; split <;> (try split) <;> simp
@[simp] theorem removeAfterTTL_listeners (c : Cfg) (st : State) (k : Key) (v : Val) (ttl : Int) :
    (removeAfterTTL c st k v ttl).listeners = st.listeners := by
  unfold removeAfterTTL; split <;> (try split) <;> simp
@[simp] theorem updateTTL_data (c : Cfg) (st : State) (k : Key) (v : Val) (ttl : Int) :
    (updateTTL c st k v ttl).data = st.data := by
  unfold updateTTL; split <;> (try split) <;> simp [dropEntry]
@[simp] theorem updateTTL_listeners (c : Cfg) (st : State) (k : Key) (v : Val) (ttl : Int) :
    (updateTTL c st k v ttl).listeners = st.listeners := by
  unfold updateTTL; split <;> (try split) <;> simp [dropEntry]

theorem Delta_doSet (c : Cfg) (st : State) (k : Key) (v : Val) (prev : Option Val) (ttl : Int) :
    Delta st (doSet c st k v prev ttl).2 (doSet c st k v prev ttl).1 := by
  apply Delta_notify <;> simp [doSet, applyMsg]

theorem Delta_doRemove (st : State) (k : Key) (prev : Val) :
    Delta st (doRemove st k prev).2 (doRemove st k prev).1 := by
  apply Delta_notify <;> simp [doRemove, applyMsg]

theorem Delta_remove (st : State) (k : Key) : Delta st (remove st k).out (remove st k).st := by
  unfold remove
  split
  · exact Delta.refl' _ _ rfl rfl
  · exact Delta_doRemove st k _

theorem Delta_compareAndRemove (st : State) (k : Key) (old : Option Val) :
    Delta st (compareAndRemove st k old).out (compareAndRemove st k old).st := by
  unfold compareAndRemove
  split
  · exact Delta.refl' _ _ rfl rfl
  · split
    · exact Delta_doRemove st k _
    · exact Delta.refl' _ _ rfl rfl

theorem Delta_setTTL (c : Cfg) (st : State) (k : Key) (v : Option Val) (ttl : Int) :
    Delta st (setTTL c st k v ttl).out (setTTL c st k v ttl).st := by
  unfold setTTL
  split
  · exact Delta_remove st k
  · simp only
    split
    · exact Delta.refl' _ _ (by simp) (by simp)
    · exact Delta_doSet c st k _ _ ttl

theorem Delta_casTTL (c : Cfg) (st : State) (k : Key) (old v : Option Val) (ttl : Int) :
    Delta st (casTTL c st k old v ttl).out (casTTL c st k old v ttl).st := by
  unfold casTTL
  split
  · exact Delta_compareAndRemove st k old
  · simp only
    split
    · exact Delta.refl' _ _ rfl rfl
    · split
      · exact Delta.refl' _ _ (by simp) (by simp)
      · exact Delta_doSet c st k _ _ ttl

theorem Delta_runCb (c : Cfg) (st : State) (id : Nat) : Delta st (runCb c st id).out (runCb c st id).st := by
  unfold runCb
  split
  · exact Delta.refl' _ _ rfl rfl
  · simp only
    split
    · exact Delta.refl' _ _ rfl rfl
    · rename_i t _ _
      have := Delta_compareAndRemove
        { st with timers := st.timers.filter (fun t => !(t.id == id && t.fired)) } t.key (some t.val)
      exact this

theorem Delta_runCbs (c : Cfg) (st : State) (ids : List Nat) :
    Delta st (runCbs c st ids).2 (runCbs c st ids).1 := by
  induction ids generalizing st with
  | nil => exact Delta.refl' _ _ rfl rfl
  | cons id ids ih =>
    simp only [runCbs]
    exact Delta.trans (Delta_runCb c st id) (ih _)

theorem Delta_fire (st : State) (dt : Nat) : Delta st [] (fire st dt) := Delta.refl' _ _ rfl rfl

theorem Delta_advance (c : Cfg) (st : State) (dt : Nat) :
    Delta st (advance c st dt).2 (advance c st dt).1 := by
  simp only [advance]
  have h1 := Delta_runCbs c st (pendingIds st)
  have h2 := Delta_fire (runCbs c st (pendingIds st)).1 dt
  have h3 := Delta_runCbs c (fire (runCbs c st (pendingIds st)).1 dt)
    (pendingIds (fire (runCbs c st (pendingIds st)).1 dt))
  have := Delta.trans (Delta.trans h1 h2) h3
  simpa using this

/-! ### replica convergence -/

/-- Every registered listener's replica is the store. -/
def Conv (st : State) (view : Lid → Replica) : Prop := ∀ l ∈ st.listeners, view l = st.data

/-- The run of the model together with what every listener knows. -/
def runV (c : Cfg) : State → (Lid → Replica) → List Op → State × (Lid → Replica)
  | st, view, [] => (st, view)
  | st, view, op :: ops =>
    let r := stepC c st op
    runV c r.st (viewStep view op r.out) ops

theorem Conv_of_Delta {st st' : State} {out : Out} {view : Lid → Replica} {op : Op}
    (hop : ∀ l, op ≠ .addListener l) (hc : Conv st view) (hd : Delta st out st') :
    Conv st' (viewStep view op out) := by
  intro l hl
  rw [hd.1] at hl
  have hb : viewStep view op out l = applyMsgs (view l) (msgsFor l out) := by
    cases op <;> first | rfl | (exact absurd rfl (hop _))
  rw [hb, hc l hl]
  exact hd.2 l hl

theorem Conv_step (c : Cfg) (st : State) (view : Lid → Replica) (op : Op) (hc : Conv st view) :
    Conv (stepC c st op).st (viewStep view op (stepC c st op).out) := by
  cases op with
  | set k v ttl => exact Conv_of_Delta (by intro l h; cases h) hc (Delta_setTTL c st k v ttl)
  | cas k old v ttl => exact Conv_of_Delta (by intro l h; cases h) hc (Delta_casTTL c st k old v ttl)
  | remove k => exact Conv_of_Delta (by intro l h; cases h) hc (Delta_remove st k)
  | casRemove k old => exact Conv_of_Delta (by intro l h; cases h) hc (Delta_compareAndRemove st k old)
  | get => exact Conv_of_Delta (by intro l h; cases h) hc (Delta.refl' _ _ rfl rfl)
  | advance dt => exact Conv_of_Delta (by intro l h; cases h) hc (Delta_advance c st dt)
  | fire dt => exact Conv_of_Delta (by intro l h; cases h) hc (Delta_fire st dt)
  | runCb id => exact Conv_of_Delta (by intro l h; cases h) hc (Delta_runCb c st id)
  | removeListener l0 =>
    intro l hl
    have hl' : l ∈ st.listeners := by
      simp only [stepC, removeListener, List.mem_filter] at hl
      exact hl.1
    show applyMsgs (view l) (msgsFor l []) = st.data
    simpa [applyMsgs] using hc l hl'
  | addListener l0 =>
    intro l hl
    simp only [stepC, addListener] at hl ⊢
    by_cases hEq : l0 = l
    · subst hEq
      simp only [viewStep, ite_true]
      by_cases hd : (c.initialIfNonEmpty && decide (st.data = [])) = true
      · have hd' : st.data = [] := by
          simp only [Bool.and_eq_true, decide_eq_true_eq] at hd; exact hd.2
        rw [if_pos hd]
        simp [applyMsgs, hd']
      · rw [if_neg hd]
        simp [msgsFor, applyMsgs, applyMsg]
    · have hl' : l ∈ st.listeners := by
        by_cases hm : l0 ∈ st.listeners
        · simpa [hm] using hl
        · simp only [hm, ite_false, List.mem_cons] at hl
          rcases hl with h | h
          · exact absurd h.symm hEq
          · exact h
      have hne : (l0 == l) = false := by simpa using hEq
      simp only [viewStep, hEq, ite_false]
      have : msgsFor l (if (c.initialIfNonEmpty && decide (st.data = [])) = true then []
          else [(l0, Msg.initial st.data)]) = [] := by
        split <;> simp [msgsFor, hne]
      rw [this]
      simpa [applyMsgs] using hc l hl'

theorem Conv_runV (c : Cfg) (ops : List Op) (st : State) (view : Lid → Replica) (hc : Conv st view) :
    Conv (runV c st view ops).1 (runV c st view ops).2 := by
  induction ops generalizing st view with
  | nil => exact hc
  | cons op ops ih => exact ih _ _ (Conv_step c st view op hc)


/-! ### the repaired code, simplified -/

@[simp] theorem repaired_noTTL (ttl : Int) : Cfg.repaired.noTTL ttl = decide (ttl ≤ 0) := by
  simp [Cfg.noTTL, Cfg.repaired]

/-- What both `updateTTL` and `removeAfterTTL` do in the repaired code: the previous timer is
stopped and forgotten, a new one is armed iff a ttl was requested. -/
def retime (st : State) (k : Key) (v : Val) (ttl : Int) : State :=
  if ttl ≤ 0 then stopTimer st k else arm (stopTimer st k) k v ttl

theorem removeAfterTTL_repaired (st : State) (k : Key) (v : Val) (ttl : Int) :
    removeAfterTTL Cfg.repaired st k v ttl = retime st k v ttl := by
  unfold removeAfterTTL retime
  rw [repaired_noTTL]
  have hs : Cfg.repaired.setStopsFirst = true := rfl
  by_cases h : ttl ≤ 0 <;> simp [h, hs]

theorem updateTTL_repaired (st : State) (k : Key) (v : Val) (ttl : Int) :
    updateTTL Cfg.repaired st k v ttl = retime st k v ttl := by
  unfold updateTTL
  rw [repaired_noTTL, removeAfterTTL_repaired]
  have hs : Cfg.repaired.updateStops = true := rfl
  by_cases h : ttl ≤ 0 <;> simp [h, hs, retime]

theorem stopTimer_setData (st : State) (d : List (Key × Val)) (k : Key) :
    stopTimer { st with data := d } k = { stopTimer st k with data := d } := by
  unfold stopTimer
  cases kvGet st.tmap k <;> rfl

/-! ### the relation between the model's timers and the spec's deadlines -/

/-- The spec's entries as a function. -/
abbrev SF := Key → Option Entry

def upd (f : SF) (k : Key) (e : Option Entry) : SF := fun k' => if k' = k then e else f k'

theorem upd_upd (f : SF) (k : Key) (e e' : Option Entry) : upd (upd f k e) k e' = upd f k e' := by
  funext k'; simp only [upd]; split <;> rfl

theorem upd_self (f : SF) (k : Key) : upd f k (f k) = f := by
  funext k'; simp only [upd]; split
  · rename_i h; rw [h]
  · rfl

def clearDeadline (e : Option Entry) : Option Entry := e.map (fun e => { e with deadline := none })

structure Rel (st : State) (f : SF) : Prop where
  val_eq : ∀ k, (f k).map (·.val) = kvGet st.data k
  ids_lt : ∀ t ∈ st.timers, t.id < st.nextId
  uniq : ∀ t1 ∈ st.timers, ∀ t2 ∈ st.timers, t1.id = t2.id → t1 = t2
  cur : ∀ k id, kvGet st.tmap k = some id →
    ∃ t ∈ st.timers, t.id = id ∧ t.key = k ∧ f k = some ⟨t.val, some t.due⟩
  nocur : ∀ k, kvGet st.tmap k = none → ∀ e, f k = some e → e.deadline = none
  armed_cur : ∀ t ∈ st.timers, t.fired = false → kvGet st.tmap t.key = some t.id ∧ st.now < t.due
  fired_due : ∀ t ∈ st.timers, t.fired = true → t.due ≤ st.now

theorem Rel_init : Rel init (fun _ => none) := by
  constructor <;> simp [init]

theorem stopTimer_tmap_none (st : State) (k : Key) : kvGet (stopTimer st k).tmap k = none := by
  unfold stopTimer
  cases h : kvGet st.tmap k with
  | none => simpa using h
  | some id => simp [kvGet_kvErase]

theorem mem_stopTimer_timers (st : State) (k : Key) (t : Timer) (h : t ∈ (stopTimer st k).timers) :
    t ∈ st.timers := by
  unfold stopTimer at h
  cases hk : kvGet st.tmap k with
  | none => simpa [hk] using h
  | some id =>
    simp only [hk, List.mem_filter] at h
    exact h.1

theorem Rel_stop {st : State} {f : SF} (h : Rel st f) (k : Key) :
    Rel (stopTimer st k) (upd f k (clearDeadline (f k))) := by
  cases hk : kvGet st.tmap k with
  | none =>
    have hst : stopTimer st k = st := by unfold stopTimer; simp [hk]
    have hf : clearDeadline (f k) = f k := by
      cases hfk : f k with
      | none => rfl
      | some e =>
        have := h.nocur k hk e hfk
        cases e with
        | mk v d => simp only at this; subst this; rfl
    rw [hst, hf, upd_self]; exact h
  | some id =>
    obtain ⟨t0, ht0, hid0, hkey0, _⟩ := h.cur k id hk
    have hst : stopTimer st k =
        { st with timers := st.timers.filter (fun t => !(t.id == id && !t.fired))
                  tmap := kvErase st.tmap k } := by unfold stopTimer; simp [hk]
    rw [hst]
    constructor
    · intro k'
      simp only [upd]
      by_cases hkk : k' = k
      · subst hkk
        simp only [ite_true, clearDeadline, Option.map_map]
        rw [← h.val_eq k']; cases f k' <;> rfl
      · simp only [hkk, ite_false]; exact h.val_eq k'
    · intro t ht
      simp only [List.mem_filter] at ht
      exact h.ids_lt t ht.1
    · intro t1 h1 t2 h2
      simp only [List.mem_filter] at h1 h2
      exact h.uniq t1 h1.1 t2 h2.1
    · intro k' id' hk'
      simp only [kvGet_kvErase] at hk'
      by_cases hkk : k' = k
      · simp [hkk] at hk'
      · simp only [hkk, ite_false] at hk'
        obtain ⟨t, ht, hid, hkey, hf⟩ := h.cur k' id' hk'
        refine ⟨t, ?_, hid, hkey, by simp only [upd, hkk, ite_false]; exact hf⟩
        simp only [List.mem_filter, ht, true_and]
        by_cases hi : t.id = id
        · have : t = t0 := h.uniq t ht t0 ht0 (hi.trans hid0.symm)
          subst this
          exact absurd (hkey.symm.trans hkey0) hkk
        · simp [hi]
    · intro k' hk' e he
      simp only [kvGet_kvErase] at hk'
      by_cases hkk : k' = k
      · subst hkk
        simp only [upd, ite_true, clearDeadline] at he
        cases hfk : f k' with
        | none => simp [hfk] at he
        | some e0 => simp only [hfk, Option.map_some, Option.some.injEq] at he; subst he; rfl
      · simp only [hkk, ite_false] at hk'
        simp only [upd, hkk, ite_false] at he
        exact h.nocur k' hk' e he
    · intro t ht hfired
      simp only [List.mem_filter] at ht
      obtain ⟨hc, hn⟩ := h.armed_cur t ht.1 hfired
      refine ⟨?_, hn⟩
      simp only [kvGet_kvErase]
      by_cases hkk : t.key = k
      · exfalso
        rw [hkk, hk] at hc
        have hi : t.id = id := by injection hc with hc; exact hc.symm
        have := ht.2
        simp [hi, hfired] at this
      · simp only [hkk, ite_false]; exact hc
    · intro t ht hfired
      simp only [List.mem_filter] at ht
      exact h.fired_due t ht.1 hfired

theorem Rel_setData {st : State} {f : SF} (h : Rel st f) (k : Key) (v : Val)
    (hk : kvGet st.tmap k = none) :
    Rel { st with data := kvSet st.data k v } (upd f k (some ⟨v, none⟩)) := by
  constructor
  · intro k'
    simp only [upd, kvGet_kvSet]
    by_cases hkk : k' = k
    · simp [hkk]
    · simp only [hkk, ite_false]; exact h.val_eq k'
  · exact h.ids_lt
  · exact h.uniq
  · intro k' id hk'
    have hkk : k' ≠ k := by intro e; subst e; simp [hk] at hk'
    obtain ⟨t, ht, hid, hkey, hf⟩ := h.cur k' id hk'
    exact ⟨t, ht, hid, hkey, by simp only [upd, hkk, ite_false]; exact hf⟩
  · intro k' hk' e he
    simp only [upd] at he
    by_cases hkk : k' = k
    · simp only [hkk, ite_true, Option.some.injEq] at he; subst he; rfl
    · simp only [hkk, ite_false] at he; exact h.nocur k' hk' e he
  · exact h.armed_cur
  · exact h.fired_due

theorem Rel_eraseData {st : State} {f : SF} (h : Rel st f) (k : Key)
    (hk : kvGet st.tmap k = none) :
    Rel { st with data := kvErase st.data k } (upd f k none) := by
  constructor
  · intro k'
    simp only [upd, kvGet_kvErase]
    by_cases hkk : k' = k
    · simp [hkk]
    · simp only [hkk, ite_false]; exact h.val_eq k'
  · exact h.ids_lt
  · exact h.uniq
  · intro k' id hk'
    have hkk : k' ≠ k := by intro e; subst e; simp [hk] at hk'
    obtain ⟨t, ht, hid, hkey, hf⟩ := h.cur k' id hk'
    exact ⟨t, ht, hid, hkey, by simp only [upd, hkk, ite_false]; exact hf⟩
  · intro k' hk' e he
    simp only [upd] at he
    by_cases hkk : k' = k
    · simp [hkk] at he
    · simp only [hkk, ite_false] at he; exact h.nocur k' hk' e he
  · exact h.armed_cur
  · exact h.fired_due

theorem Rel_arm {st : State} {f : SF} (h : Rel st f) (k : Key) (v : Val) (ttl : Int)
    (hk : kvGet st.tmap k = none) (hv : kvGet st.data k = some v) (httl : 0 < ttl) :
    Rel (arm st k v ttl) (upd f k (some ⟨v, some (st.now + ttl.toNat)⟩)) := by
  constructor
  · intro k'
    simp only [upd, arm_data]
    by_cases hkk : k' = k
    · simp [hkk, hv]
    · simp only [hkk, ite_false]; exact h.val_eq k'
  · intro t ht
    simp only [arm, List.mem_append, List.mem_singleton] at ht ⊢
    rcases ht with ht | ht
    · have := h.ids_lt t ht; omega
    · subst ht; simp
  · intro t1 h1 t2 h2 hid
    simp only [arm, List.mem_append, List.mem_singleton] at h1 h2
    rcases h1 with h1 | h1 <;> rcases h2 with h2 | h2
    · exact h.uniq t1 h1 t2 h2 hid
    · have := h.ids_lt t1 h1; subst h2; simp at hid; omega
    · have := h.ids_lt t2 h2; subst h1; simp at hid; omega
    · rw [h1, h2]
  · intro k' id hk'
    simp only [arm, kvGet_kvSet] at hk'
    by_cases hkk : k' = k
    · subst hkk
      simp only [ite_true, Option.some.injEq] at hk'
      refine ⟨{ id := st.nextId, key := k', val := v, due := st.now + ttl.toNat, fired := false },
        ?_, hk', rfl, ?_⟩
      · simp [arm]
      · simp [upd]
    · simp only [hkk, ite_false] at hk'
      obtain ⟨t, ht, hid, hkey, hf⟩ := h.cur k' id hk'
      refine ⟨t, ?_, hid, hkey, by simp only [upd, hkk, ite_false]; exact hf⟩
      simp only [arm, List.mem_append]; exact Or.inl ht
  · intro k' hk' e he
    simp only [arm, kvGet_kvSet] at hk'
    by_cases hkk : k' = k
    · simp [hkk] at hk'
    · simp only [hkk, ite_false] at hk'
      simp only [upd, hkk, ite_false] at he
      exact h.nocur k' hk' e he
  · intro t ht hfired
    simp only [arm, List.mem_append, List.mem_singleton] at ht
    rcases ht with ht | ht
    · obtain ⟨hc, hn⟩ := h.armed_cur t ht hfired
      have hkk : t.key ≠ k := by intro e; rw [e, hk] at hc; cases hc
      refine ⟨?_, hn⟩
      simp only [arm, kvGet_kvSet, hkk, ite_false]; exact hc
    · subst ht
      refine ⟨by simp [arm, kvGet_kvSet], ?_⟩
      simp only [arm]
      omega
  · intro t ht hfired
    simp only [arm, List.mem_append, List.mem_singleton] at ht
    rcases ht with ht | ht
    · exact h.fired_due t ht hfired
    · subst ht; simp at hfired

/-! ### whole operations of the repaired code against the spec -/

theorem entry_of_val {st : State} {f : SF} (h : Rel st f) {k : Key} {v : Val}
    (hv : kvGet st.data k = some v) : ∃ d, f k = some ⟨v, d⟩ := by
  have := h.val_eq k
  rw [hv] at this
  cases hf : f k with
  | none => simp [hf] at this
  | some e =>
    obtain ⟨v', d⟩ := e
    simp only [hf, Option.map_some, Option.some.injEq] at this
    subst this
    exact ⟨d, rfl⟩

theorem none_of_val {st : State} {f : SF} (h : Rel st f) {k : Key}
    (hv : kvGet st.data k = none) : f k = none := by
  have := h.val_eq k
  rw [hv] at this
  cases hf : f k with
  | none => rfl
  | some e => simp [hf] at this

theorem deadlineOf_nonpos (now : Nat) (ttl : Int) (h : ttl ≤ 0) : deadlineOf now ttl = none := by
  unfold deadlineOf; split
  · omega
  · rfl

theorem deadlineOf_pos (now : Nat) (ttl : Int) (h : ¬ ttl ≤ 0) :
    deadlineOf now ttl = some (now + ttl.toNat) := by
  unfold deadlineOf; split
  · rfl
  · omega

theorem Rel_retime {st : State} {f : SF} (h : Rel st f) (k : Key) (v : Val) (ttl : Int)
    (hv : kvGet st.data k = some v) :
    Rel (retime st k v ttl) (upd f k (some ⟨v, deadlineOf st.now ttl⟩)) := by
  obtain ⟨d, hf⟩ := entry_of_val h hv
  have h1 := Rel_stop h k
  rw [hf] at h1
  simp only [clearDeadline, Option.map_some] at h1
  unfold retime
  by_cases ht : ttl ≤ 0
  · simp only [ht, ite_true, deadlineOf_nonpos _ _ ht]; exact h1
  · simp only [ht, ite_false, deadlineOf_pos _ _ ht]
    have h2 := Rel_arm h1 k v ttl (stopTimer_tmap_none st k) (by simpa using hv) (by omega)
    rw [upd_upd] at h2
    simpa using h2

theorem Rel_doSet {st : State} {f : SF} (h : Rel st f) (k : Key) (v : Val) (prev : Option Val)
    (ttl : Int) :
    Rel (doSet Cfg.repaired st k v prev ttl).1 (upd f k (some ⟨v, deadlineOf st.now ttl⟩)) := by
  simp only [doSet, removeAfterTTL_repaired]
  have h1 := Rel_setData (Rel_stop h k) k v (stopTimer_tmap_none st k)
  rw [upd_upd] at h1
  unfold retime
  rw [stopTimer_setData]
  simp only [stopTimer_data] at h1
  by_cases ht : ttl ≤ 0
  · simp only [ht, ite_true, deadlineOf_nonpos _ _ ht]; exact h1
  · simp only [ht, ite_false, deadlineOf_pos _ _ ht]
    have h2 := Rel_arm h1 k v ttl (stopTimer_tmap_none st k) (by simp [kvGet_kvSet]) (by omega)
    rw [upd_upd] at h2
    simpa using h2

theorem Rel_doRemove {st : State} {f : SF} (h : Rel st f) (k : Key) (prev : Val) :
    Rel (doRemove st k prev).1 (upd f k none) := by
  simp only [doRemove]
  rw [stopTimer_setData]
  have h1 := Rel_eraseData (Rel_stop h k) k (stopTimer_tmap_none st k)
  rw [upd_upd] at h1
  simpa using h1

/-- Model state and ideal store side by side. -/
structure RelS (st : State) (sp : Spec) : Prop where
  now_eq : sp.now = st.now
  rel : Rel st (kvGet sp.ents)

theorem specF_put (sp : Spec) (k : Key) (v : Val) (ttl : Int) :
    kvGet (sp.put k v ttl).ents = upd (kvGet sp.ents) k (some ⟨v, deadlineOf sp.now ttl⟩) := by
  funext k'; simp [Spec.put, kvGet_kvSet, upd]

theorem specF_del (sp : Spec) (k : Key) :
    kvGet (sp.del k).ents = upd (kvGet sp.ents) k none := by
  funext k'; simp [Spec.del, kvGet_kvErase, upd]

theorem RelS.value_eq {st : State} {sp : Spec} (h : RelS st sp) (k : Key) :
    sp.value k = kvGet st.data k := h.rel.val_eq k

theorem RelS_put_retime {st : State} {sp : Spec} (h : RelS st sp) (k : Key) (v : Val) (ttl : Int)
    (hv : kvGet st.data k = some v) : RelS (retime st k v ttl) (sp.put k v ttl) := by
  refine ⟨by simp [Spec.put, retime, h.now_eq]; split <;> simp [arm], ?_⟩
  rw [specF_put, h.now_eq]
  exact Rel_retime h.rel k v ttl hv

theorem doSet_now (c : Cfg) (st : State) (k : Key) (v : Val) (prev : Option Val) (ttl : Int) :
    (doSet c st k v prev ttl).1.now = st.now := by
  simp only [doSet, removeAfterTTL]
  split <;> (try split) <;> simp [arm]

theorem RelS_put_doSet {st : State} {sp : Spec} (h : RelS st sp) (k : Key) (v : Val)
    (prev : Option Val) (ttl : Int) :
    RelS (doSet Cfg.repaired st k v prev ttl).1 (sp.put k v ttl) := by
  refine ⟨by rw [doSet_now]; exact h.now_eq, ?_⟩
  rw [specF_put, h.now_eq]
  exact Rel_doSet h.rel k v prev ttl

theorem RelS_del_doRemove {st : State} {sp : Spec} (h : RelS st sp) (k : Key) (prev : Val) :
    RelS (doRemove st k prev).1 (sp.del k) := by
  refine ⟨by simp [doRemove, Spec.del, h.now_eq], ?_⟩
  rw [specF_del]
  exact Rel_doRemove h.rel k prev

theorem RelS_del_absent {st : State} {sp : Spec} (h : RelS st sp) (k : Key)
    (hk : kvGet st.data k = none) : RelS st (sp.del k) := by
  refine ⟨h.now_eq, ?_⟩
  rw [specF_del]
  have := none_of_val h.rel hk
  rw [← this, upd_self]
  exact h.rel

theorem RelS_remove {st : State} {sp : Spec} (h : RelS st sp) (k : Key) :
    RelS (remove st k).st (sp.del k) := by
  unfold remove
  cases hk : kvGet st.data k with
  | none => exact RelS_del_absent h k hk
  | some prev => exact RelS_del_doRemove h k prev

theorem RelS_compareAndRemove {st : State} {sp : Spec} (h : RelS st sp) (k : Key) (old : Option Val) :
    RelS (compareAndRemove st k old).st (if old.isSome ∧ old = sp.value k then sp.del k else sp) := by
  unfold compareAndRemove
  rw [h.value_eq]
  cases hk : kvGet st.data k with
  | none =>
    have : ¬ (old.isSome = true ∧ old = none) := by
      intro ⟨h1, h2⟩; subst h2; simp at h1
    rw [if_neg this]; exact h
  | some prev =>
    by_cases ho : old = some prev
    · subst ho
      simp only [Option.isSome_some, and_self, ite_true]
      exact RelS_del_doRemove h k prev
    · have : ¬ (old.isSome = true ∧ old = some prev) := fun ⟨_, h2⟩ => ho h2
      rw [if_neg this]
      simp only [if_neg ho]; exact h

theorem RelS_setTTL {st : State} {sp : Spec} (h : RelS st sp) (k : Key) (v : Option Val) (ttl : Int) :
    RelS (setTTL Cfg.repaired st k v ttl).st (sp.step (.set k v ttl)) := by
  cases v with
  | none => exact RelS_remove h k
  | some v =>
    simp only [setTTL, Spec.step]
    have hs : Cfg.repaired.setUnchangedSilent = true := rfl
    by_cases hp : kvGet st.data k = some v
    · simp only [hs, hp, Bool.true_and, decide_true, ite_true, updateTTL_repaired]
      exact RelS_put_retime h k v ttl hp
    · simp only [hs, hp, Bool.true_and, decide_false, Bool.false_eq_true, ite_false]
      exact RelS_put_doSet h k v _ ttl

theorem RelS_casTTL {st : State} {sp : Spec} (h : RelS st sp) (k : Key) (old v : Option Val) (ttl : Int) :
    RelS (casTTL Cfg.repaired st k old v ttl).st (sp.step (.cas k old v ttl)) := by
  cases v with
  | none => exact RelS_compareAndRemove h k old
  | some v =>
    simp only [casTTL, Spec.step]
    rw [h.value_eq]
    have hs : Cfg.repaired.casUnchangedSilent = true := rfl
    by_cases ho : old = kvGet st.data k
    · simp only [ho, ne_eq, not_true_eq_false, ite_false, ite_true, hs, Bool.true_and]
      by_cases hp : kvGet st.data k = some v
      · simp only [hp, decide_true, ite_true, updateTTL_repaired]
        exact RelS_put_retime h k v ttl hp
      · simp only [hp, decide_false, Bool.false_eq_true, ite_false]
        exact RelS_put_doSet h k v _ ttl
    · simp only [ne_eq, ho, not_false_eq_true, ite_true, ite_false]; exact h

theorem Rel_listeners {st : State} {f : SF} (h : Rel st f) (ls : List Lid) :
    Rel { st with listeners := ls } f :=
  ⟨h.val_eq, h.ids_lt, h.uniq, h.cur, h.nocur, h.armed_cur, h.fired_due⟩

theorem RelS_fire {st : State} {sp : Spec} (h : RelS st sp) (dt : Nat) :
    RelS (fire st dt) { sp with now := sp.now + dt } := by
  refine ⟨by simp [fire, h.now_eq], ?_⟩
  have hr := h.rel
  constructor
  · exact hr.val_eq
  · intro t ht
    simp only [fire, List.mem_map] at ht
    obtain ⟨t0, ht0, rfl⟩ := ht
    have := hr.ids_lt t0 ht0
    have e : (if t0.due ≤ st.now + dt then { t0 with fired := true } else t0).id = t0.id := by
      split <;> rfl
    rw [e]; exact this
  · intro t1 h1 t2 h2 hid
    simp only [fire, List.mem_map] at h1 h2
    obtain ⟨a, ha, rfl⟩ := h1
    obtain ⟨b, hb, rfl⟩ := h2
    have : a.id = b.id := by
      have e1 : (if a.due ≤ st.now + dt then { a with fired := true } else a).id = a.id := by split <;> rfl
      have e2 : (if b.due ≤ st.now + dt then { b with fired := true } else b).id = b.id := by split <;> rfl
      rw [e1, e2] at hid; exact hid
    rw [hr.uniq a ha b hb this]
  · intro k id hk
    obtain ⟨t, ht, hid, hkey, hf⟩ := hr.cur k id hk
    refine ⟨if t.due ≤ st.now + dt then { t with fired := true } else t, ?_, ?_, ?_, ?_⟩
    · simp only [fire, List.mem_map]; exact ⟨t, ht, rfl⟩
    · split <;> exact hid
    · split <;> exact hkey
    · split <;> exact hf
  · exact hr.nocur
  · intro t ht hfired
    simp only [fire, List.mem_map] at ht
    obtain ⟨t0, ht0, rfl⟩ := ht
    by_cases hd : t0.due ≤ st.now + dt
    · simp [hd] at hfired
    · simp only [hd, ite_false] at hfired ⊢
      obtain ⟨hc, _⟩ := hr.armed_cur t0 ht0 hfired
      exact ⟨hc, by simp only [fire]; omega⟩
  · intro t ht hfired
    simp only [fire, List.mem_map] at ht
    obtain ⟨t0, ht0, rfl⟩ := ht
    by_cases hd : t0.due ≤ st.now + dt
    · simp only [hd, ite_true, fire]
    · simp only [hd, ite_false] at hfired ⊢
      have := hr.fired_due t0 ht0 hfired
      simp only [fire]; omega

/-- What the callback of timer `id` means for the ideal store: if it is still the timer
governing its key, the expiry of that key takes place; otherwise nothing. -/
def specCb (st : State) (sp : Spec) (id : Nat) : Spec :=
  match st.timers.find? (fun t => t.id == id && t.fired) with
  | none => sp
  | some t => if kvGet st.tmap t.key = some id then sp.expire t.key else sp

theorem RelS_runCb {st : State} {sp : Spec} (h : RelS st sp) (id : Nat) :
    RelS (runCb Cfg.repaired st id).st (specCb st sp id) := by
  unfold runCb specCb
  cases hfind : st.timers.find? (fun t => t.id == id && t.fired) with
  | none => exact h
  | some t =>
    have htm : t ∈ st.timers := List.mem_of_find?_eq_some hfind
    have htp := List.find?_some hfind
    simp only [Bool.and_eq_true, beq_iff_eq] at htp
    obtain ⟨hid, hfired⟩ := htp
    have hr := h.rel
    -- the state in which the callback runs: its own timer object is gone
    have hr1 : ∀ f, Rel st f → (kvGet st.tmap t.key ≠ some id ∨ True) →
        (∀ k id', kvGet st.tmap k = some id' → id' ≠ id →
          ∃ t' ∈ st.timers.filter (fun t => !(t.id == id && t.fired)), t'.id = id' ∧ t'.key = k ∧
            f k = some ⟨t'.val, some t'.due⟩) := by
      intro f hf _ k id' hk hne
      obtain ⟨t', ht', hid', hkey', hf'⟩ := hf.cur k id' hk
      refine ⟨t', ?_, hid', hkey', hf'⟩
      simp only [List.mem_filter, ht', true_and]
      have : t'.id ≠ id := by rw [hid']; exact hne
      simp [this]
    have hs : Cfg.repaired.expiryChecksCurrent = true := rfl
    by_cases hcur : kvGet st.tmap t.key = some id
    · -- still the governing timer: the value is removed, the spec's expiry takes place
      simp only [hs, hcur, Bool.true_and, ne_eq, not_true_eq_false, decide_false,
        Bool.false_eq_true, ite_false, ite_true]
      obtain ⟨t0, ht0, hid0, hkey0, hf0⟩ := hr.cur t.key id hcur
      have ht0t : t0 = t := hr.uniq t0 ht0 t htm (hid0.trans hid.symm)
      subst ht0t
      have hdata : kvGet st.data t0.key = some t0.val := by
        rw [← hr.val_eq, hf0]; rfl
      have hover : (⟨t0.val, some t0.due⟩ : Entry).overdue sp.now = true := by
        simp only [Entry.overdue, decide_eq_true_eq]
        rw [h.now_eq]; exact hr.fired_due t0 htm hfired
      have hexp : sp.expire t0.key = sp.del t0.key := by
        unfold Spec.expire; rw [hf0]; simp [hover]
      rw [hexp]
      simp only [compareAndRemove, hdata, ite_true]
      -- Rel for the intermediate state (timer object removed, map entry still there) is not
      -- needed: doRemove's stopTimer erases the entry; go through the pieces directly.
      refine ⟨by simp [doRemove, Spec.del, h.now_eq], ?_⟩
      rw [specF_del]
      simp only [doRemove]
      have hstop : stopTimer { st with timers := st.timers.filter (fun t => !(t.id == id && t.fired))
                                       data := kvErase st.data t0.key } t0.key
          = { st with timers := (st.timers.filter (fun t => !(t.id == id && t.fired))).filter
                                  (fun t => !(t.id == id && !t.fired))
                      data := kvErase st.data t0.key
                      tmap := kvErase st.tmap t0.key } := by
        unfold stopTimer; simp [hcur]
      rw [hstop]
      constructor
      · intro k'
        simp only [upd, kvGet_kvErase]
        by_cases hkk : k' = t0.key
        · simp [hkk]
        · simp only [hkk, ite_false]; exact hr.val_eq k'
      · intro t' ht'
        simp only [List.mem_filter] at ht'
        exact hr.ids_lt t' ht'.1.1
      · intro t1 h1 t2 h2
        simp only [List.mem_filter] at h1 h2
        exact hr.uniq t1 h1.1.1 t2 h2.1.1
      · intro k' id' hk'
        simp only [kvGet_kvErase] at hk'
        by_cases hkk : k' = t0.key
        · simp [hkk] at hk'
        · simp only [hkk, ite_false] at hk'
          obtain ⟨t', ht', hid', hkey', hf'⟩ := hr.cur k' id' hk'
          have hne : t'.id ≠ id := by
            intro e
            have : t' = t0 := hr.uniq t' ht' t0 htm (e.trans hid.symm)
            subst this; exact hkk hkey'.symm
          refine ⟨t', ?_, hid', hkey', by simp only [upd, hkk, ite_false]; exact hf'⟩
          simp [List.mem_filter, ht', hne]
      · intro k' hk' e he
        simp only [kvGet_kvErase] at hk'
        by_cases hkk : k' = t0.key
        · simp [upd, hkk] at he
        · simp only [hkk, ite_false] at hk'
          simp only [upd, hkk, ite_false] at he
          exact hr.nocur k' hk' e he
      · intro t' ht' hf'
        simp only [List.mem_filter] at ht'
        obtain ⟨hc, hn⟩ := hr.armed_cur t' ht'.1.1 hf'
        refine ⟨?_, hn⟩
        simp only [kvGet_kvErase]
        by_cases hkk : t'.key = t0.key
        · exfalso
          rw [hkk, hcur] at hc
          have hi : t'.id = id := by injection hc with hc; exact hc.symm
          have : t' = t0 := hr.uniq t' ht'.1.1 t0 htm (hi.trans hid.symm)
          subst this
          rw [hfired] at hf'; cases hf'
        · simp only [hkk, ite_false]; exact hc
      · intro t' ht' hf'
        simp only [List.mem_filter] at ht'
        exact hr.fired_due t' ht'.1.1 hf'
    · -- superseded: nothing happens
      simp only [hs, hcur, Bool.true_and, ne_eq, not_false_eq_true, decide_true, ite_true, ite_false]
      refine ⟨h.now_eq, ?_⟩
      constructor
      · exact hr.val_eq
      · intro t' ht'
        simp only [List.mem_filter] at ht'
        exact hr.ids_lt t' ht'.1
      · intro t1 h1 t2 h2
        simp only [List.mem_filter] at h1 h2
        exact hr.uniq t1 h1.1 t2 h2.1
      · intro k id' hk
        have hne : id' ≠ id := by
          intro e; subst e
          obtain ⟨t', ht', hid', hkey', _⟩ := hr.cur k id' hk
          have : t' = t := hr.uniq t' ht' t htm (hid'.trans hid.symm)
          subst this
          rw [hkey'] at hcur; exact hcur hk
        exact hr1 _ hr (Or.inr trivial) k id' hk hne
      · exact hr.nocur
      · intro t' ht' hf'
        simp only [List.mem_filter] at ht'
        exact hr.armed_cur t' ht'.1 hf'
      · intro t' ht' hf'
        simp only [List.mem_filter] at ht'
        exact hr.fired_due t' ht'.1 hf'

/-! ### callbacks in sequence, quiescent passage of time -/

def NoFired (st : State) : Prop := ∀ t ∈ st.timers, t.fired = false

/-- Timers of `st'` are timers of `st` or freshly armed ones. -/
def TimersOK (st st' : State) : Prop := ∀ t ∈ st'.timers, t ∈ st.timers ∨ t.fired = false

theorem TimersOK.refl (st : State) : TimersOK st st := fun _ h => Or.inl h

theorem TimersOK.of_eq {st st' : State} (h : st'.timers = st.timers) : TimersOK st st' :=
  fun t ht => Or.inl (h ▸ ht)

theorem TimersOK.trans {a b c : State} (h1 : TimersOK a b) (h2 : TimersOK b c) : TimersOK a c := by
  intro t ht
  rcases h2 t ht with h | h
  · exact h1 t h
  · exact Or.inr h

theorem NoFired.of_ok {st st' : State} (h : NoFired st) (ok : TimersOK st st') : NoFired st' := by
  intro t ht
  rcases ok t ht with h' | h'
  · exact h t h'
  · exact h'

theorem TimersOK_stop (st : State) (k : Key) : TimersOK st (stopTimer st k) :=
  fun t ht => Or.inl (mem_stopTimer_timers st k t ht)

theorem TimersOK_arm (st : State) (k : Key) (v : Val) (ttl : Int) : TimersOK st (arm st k v ttl) := by
  intro t ht
  simp only [arm, List.mem_append, List.mem_singleton] at ht
  rcases ht with h | h
  · exact Or.inl h
  · subst h; exact Or.inr rfl

theorem TimersOK_removeAfterTTL (c : Cfg) (st : State) (k : Key) (v : Val) (ttl : Int) :
    TimersOK st (removeAfterTTL c st k v ttl) := by
  unfold removeAfterTTL
  split
  · split
    · exact TimersOK_stop st k
    · exact TimersOK.refl st
  · exact (TimersOK_stop st k).trans (TimersOK_arm _ k v ttl)

theorem TimersOK_updateTTL (c : Cfg) (st : State) (k : Key) (v : Val) (ttl : Int) :
    TimersOK st (updateTTL c st k v ttl) := by
  unfold updateTTL
  split
  · split
    · exact TimersOK_stop st k
    · exact TimersOK.of_eq rfl
  · exact TimersOK_removeAfterTTL c st k v ttl

theorem TimersOK_doSet (c : Cfg) (st : State) (k : Key) (v : Val) (prev : Option Val) (ttl : Int) :
    TimersOK st (doSet c st k v prev ttl).1 := by
  simp only [doSet]
  exact (TimersOK.of_eq (st := st) (st' := { st with data := kvSet st.data k v }) rfl).trans
    (TimersOK_removeAfterTTL c _ k v ttl)

theorem TimersOK_doRemove (st : State) (k : Key) (prev : Val) : TimersOK st (doRemove st k prev).1 := by
  simp only [doRemove]
  exact (TimersOK.of_eq (st := st) (st' := { st with data := kvErase st.data k }) rfl).trans
    (TimersOK_stop _ k)

theorem TimersOK_remove (st : State) (k : Key) : TimersOK st (remove st k).st := by
  unfold remove; split
  · exact TimersOK.refl st
  · exact TimersOK_doRemove st k ""

theorem TimersOK_compareAndRemove (st : State) (k : Key) (old : Option Val) :
    TimersOK st (compareAndRemove st k old).st := by
  unfold compareAndRemove; split
  · exact TimersOK.refl st
  · split
    · exact TimersOK_doRemove st k ""
    · exact TimersOK.refl st

theorem TimersOK_setTTL (c : Cfg) (st : State) (k : Key) (v : Option Val) (ttl : Int) :
    TimersOK st (setTTL c st k v ttl).st := by
  unfold setTTL; split
  · exact TimersOK_remove st k
  · simp only; split
    · apply TimersOK_updateTTL
    · exact TimersOK_doSet c st k _ none ttl

theorem TimersOK_casTTL (c : Cfg) (st : State) (k : Key) (old v : Option Val) (ttl : Int) :
    TimersOK st (casTTL c st k old v ttl).st := by
  unfold casTTL; split
  · exact TimersOK_compareAndRemove st k old
  · simp only; split
    · exact TimersOK.refl st
    · split
      · apply TimersOK_updateTTL
      · exact TimersOK_doSet c st k _ none ttl

/-- A callback removes its own timer object and never adds or fires one. -/
theorem mem_runCb_timers (c : Cfg) (st : State) (id : Nat) (t : Timer)
    (ht : t ∈ (runCb c st id).st.timers) : t ∈ st.timers ∧ ¬ (t.id = id ∧ t.fired = true) := by
  unfold runCb at ht
  cases hfind : st.timers.find? (fun t => t.id == id && t.fired) with
  | none =>
    simp only [hfind] at ht
    refine ⟨ht, ?_⟩
    have := List.find?_eq_none.mp hfind t ht
    simpa using this
  | some t0 =>
    simp only [hfind] at ht
    have key : t ∈ st.timers.filter (fun t => !(t.id == id && t.fired)) := by
      split at ht
      · exact ht
      · have hsub := TimersOK_compareAndRemove
          { st with timers := st.timers.filter (fun t => !(t.id == id && t.fired)) } t0.key (some t0.val)
        -- compareAndRemove only filters
        have : ∀ t, t ∈ (compareAndRemove
            { st with timers := st.timers.filter (fun t => !(t.id == id && t.fired)) } t0.key (some t0.val)).st.timers →
            t ∈ st.timers.filter (fun t => !(t.id == id && t.fired)) := by
          intro t ht
          unfold compareAndRemove at ht
          split at ht
          · exact ht
          · split at ht
            · exact mem_stopTimer_timers _ _ t ht
            · exact ht
        exact this t ht
    simp only [List.mem_filter] at key
    refine ⟨key.1, ?_⟩
    intro ⟨h1, h2⟩
    have := key.2
    simp [h1, h2] at this

theorem mem_runCbs_timers (c : Cfg) (ids : List Nat) (st : State) (t : Timer)
    (ht : t ∈ (runCbs c st ids).1.timers) : t ∈ st.timers ∧ ¬ (t.id ∈ ids ∧ t.fired = true) := by
  induction ids generalizing st with
  | nil => exact ⟨ht, by simp⟩
  | cons id ids ih =>
    simp only [runCbs] at ht
    obtain ⟨h1, h2⟩ := ih _ ht
    obtain ⟨h3, h4⟩ := mem_runCb_timers c st id t h1
    refine ⟨h3, ?_⟩
    intro ⟨hm, hf⟩
    rcases List.mem_cons.mp hm with h | h
    · exact h4 ⟨h, hf⟩
    · exact h2 ⟨h, hf⟩

theorem mem_insertTimer (t u : Timer) (l : List Timer) : u ∈ insertTimer t l ↔ u = t ∨ u ∈ l := by
  induction l with
  | nil => simp [insertTimer]
  | cons a r ih =>
    simp only [insertTimer]
    split
    · simp
    · simp only [List.mem_cons, ih]
      constructor
      · rintro (h | h | h)
        · exact Or.inr (Or.inl h)
        · exact Or.inl h
        · exact Or.inr (Or.inr h)
      · rintro (h | h | h)
        · exact Or.inr (Or.inl h)
        · exact Or.inl h
        · exact Or.inr (Or.inr h)

theorem mem_sortTimers (u : Timer) (l : List Timer) : u ∈ sortTimers l ↔ u ∈ l := by
  induction l with
  | nil => simp [sortTimers]
  | cons a r ih =>
    have : sortTimers (a :: r) = insertTimer a (sortTimers r) := rfl
    rw [this, mem_insertTimer, ih]
    simp

theorem mem_pendingIds {st : State} {t : Timer} (ht : t ∈ st.timers) (hf : t.fired = true) :
    t.id ∈ pendingIds st := by
  simp only [pendingIds, List.mem_map]
  exact ⟨t, (mem_sortTimers t _).mpr (by simp [List.mem_filter, ht, hf]), rfl⟩

theorem pendingIds_noFired {st : State} (h : NoFired st) : pendingIds st = [] := by
  have : st.timers.filter (·.fired) = [] := by
    rw [List.filter_eq_nil_iff]
    intro t ht; simp [h t ht]
  simp [pendingIds, this, sortTimers]

/-- After all waiting callbacks ran, none is waiting. -/
theorem noFired_runCbs_pending (c : Cfg) (st : State) : NoFired (runCbs c st (pendingIds st)).1 := by
  intro t ht
  obtain ⟨h1, h2⟩ := mem_runCbs_timers c _ st t ht
  cases hf : t.fired with
  | false => rfl
  | true => exact absurd ⟨mem_pendingIds h1 hf, hf⟩ h2

theorem noFired_advance (c : Cfg) (st : State) (dt : Nat) : NoFired (advance c st dt).1 := by
  simp only [advance]
  exact noFired_runCbs_pending c _

/-- The spec events of a sequence of callbacks. -/
def specCbs : State → Spec → List Nat → Spec
  | _, sp, [] => sp
  | st, sp, id :: ids => specCbs (runCb Cfg.repaired st id).st (specCb st sp id) ids

theorem RelS_runCbs (ids : List Nat) {st : State} {sp : Spec} (h : RelS st sp) :
    RelS (runCbs Cfg.repaired st ids).1 (specCbs st sp ids) := by
  induction ids generalizing st sp with
  | nil => exact h
  | cons id ids ih =>
    simp only [runCbs, specCbs]
    exact ih (RelS_runCb h id)

/-- The spec events of a quiescent passage of time as the model schedules them. -/
def specAdvance (st : State) (sp : Spec) (dt : Nat) : Spec :=
  let s1 := (runCbs Cfg.repaired st (pendingIds st)).1
  let sp1 := specCbs st sp (pendingIds st)
  specCbs (fire s1 dt) { sp1 with now := sp1.now + dt } (pendingIds (fire s1 dt))

theorem RelS_advance {st : State} {sp : Spec} (h : RelS st sp) (dt : Nat) :
    RelS (advance Cfg.repaired st dt).1 (specAdvance st sp dt) := by
  simp only [advance, specAdvance]
  exact RelS_runCbs _ (RelS_fire (RelS_runCbs _ h) dt)

/-- `cur` is `base` minus some keys that were overdue in `base`. -/
def Shrunk (base cur : Spec) : Prop :=
  cur.now = base.now ∧
  ∀ k, kvGet cur.ents k = kvGet base.ents k ∨ (kvGet cur.ents k = none ∧ base.overdue base.now k = true)

theorem Shrunk.refl (sp : Spec) : Shrunk sp sp := ⟨rfl, fun _ => Or.inl rfl⟩

theorem Shrunk_expire {base cur : Spec} (h : Shrunk base cur) (k0 : Key) : Shrunk base (cur.expire k0) := by
  unfold Spec.expire
  cases he : kvGet cur.ents k0 with
  | none => exact h
  | some e =>
    by_cases ho : e.overdue cur.now = true
    · simp only [ho, ite_true]
      refine ⟨h.1, fun k => ?_⟩
      simp only [Spec.del, kvGet_kvErase]
      by_cases hk : k = k0
      · subst hk
        simp only [ite_true]
        rcases h.2 k with h' | h'
        · refine Or.inr ⟨trivial, ?_⟩
          rw [he] at h'
          simp only [Spec.overdue, ← h', ← h.1, ho]
        · rw [he] at h'; exact absurd h'.1 (by simp)
      · simp only [hk, ite_false]; exact h.2 k
    · simp only [ho]; exact h

theorem Shrunk_specCb {base cur : Spec} (h : Shrunk base cur) (st : State) (id : Nat) :
    Shrunk base (specCb st cur id) := by
  unfold specCb
  split
  · exact h
  · split
    · exact Shrunk_expire h _
    · exact h

theorem Shrunk_specCbs (ids : List Nat) {base cur : Spec} (h : Shrunk base cur) (st : State) :
    Shrunk base (specCbs st cur ids) := by
  induction ids generalizing st cur with
  | nil => exact h
  | cons id ids ih => exact ih (Shrunk_specCb h st id) _

/-- In a state without waiting callbacks nothing in the ideal store is past its deadline. -/
theorem no_overdue_of_noFired {st : State} {sp : Spec} (h : RelS st sp) (hn : NoFired st) (k : Key) :
    sp.overdue sp.now k = false := by
  unfold Spec.overdue
  cases he : kvGet sp.ents k with
  | none => rfl
  | some e =>
    simp only [Entry.overdue]
    cases hd : e.deadline with
    | none => rfl
    | some d =>
      cases hk : kvGet st.tmap k with
      | none => have := h.rel.nocur k hk e he; rw [hd] at this; cases this
      | some id =>
        obtain ⟨t, ht, _, _, hf⟩ := h.rel.cur k id hk
        rw [he] at hf
        have hde : d = t.due := by
          injection hf with hf; rw [hf] at hd; injection hd with hd; exact hd.symm
        have := (h.rel.armed_cur t ht (hn t ht)).2
        simp only [decide_eq_false_iff_not]
        rw [hde, h.now_eq]; omega

theorem kvGet_settle (sp : Spec) (dt : Nat) (k : Key) :
    kvGet (sp.settle dt).ents k = if sp.overdue (sp.now + dt) k then none else kvGet sp.ents k := by
  simp only [Spec.settle]
  rw [kvGet_filter_key (fun x => !sp.overdue (sp.now + dt) x)]
  cases sp.overdue (sp.now + dt) k <;> simp

/-- Starting without waiting callbacks, the events the model schedules for a quiescent
passage of time amount to the ideal `settle`: exactly the keys past their deadline go. -/
theorem specAdvance_eq_settle {st : State} {sp : Spec} (h : RelS st sp) (hn : NoFired st) (dt : Nat) :
    (specAdvance st sp dt).now = (sp.settle dt).now ∧
    kvGet (specAdvance st sp dt).ents = kvGet (sp.settle dt).ents := by
  have hadv := RelS_advance h dt
  have hnf := noFired_advance Cfg.repaired st dt
  have hno := no_overdue_of_noFired hadv hnf
  -- the first round of callbacks is empty
  have hp : pendingIds st = [] := pendingIds_noFired hn
  have hsa : specAdvance st sp dt =
      specCbs (fire st dt) { sp with now := sp.now + dt } (pendingIds (fire st dt)) := by
    simp [specAdvance, hp, runCbs, specCbs]
  have hsh : Shrunk { sp with now := sp.now + dt } (specAdvance st sp dt) := by
    rw [hsa]; exact Shrunk_specCbs _ (Shrunk.refl _) _
  refine ⟨by rw [hsh.1]; rfl, ?_⟩
  funext k
  rw [kvGet_settle]
  have hbase : Spec.overdue { sp with now := sp.now + dt } (sp.now + dt) k = sp.overdue (sp.now + dt) k := rfl
  rcases hsh.2 k with h' | h'
  · -- untouched: then it is not overdue
    have h1 := hno k
    rw [hsh.1] at h1
    have : sp.overdue (sp.now + dt) k = false := by
      simp only [Spec.overdue] at h1 ⊢
      rw [h'] at h1; exact h1
    simp [this, h']
  · have : sp.overdue (sp.now + dt) k = true := h'.2
    simp [this, h'.1]

theorem RelS_congr {st : State} {sp sp' : Spec} (h : RelS st sp) (hn : sp'.now = sp.now)
    (he : kvGet sp'.ents = kvGet sp.ents) : RelS st sp' :=
  ⟨hn.trans h.now_eq, he ▸ h.rel⟩

/-! ### every operation -/

/-- The spec-level meaning of each model step, asynchronous events included. -/
def specStepA (st : State) (sp : Spec) : Op → Spec
  | .runCb id => specCb st sp id
  | .advance dt => specAdvance st sp dt
  | op => sp.step op

theorem RelS_stepA {st : State} {sp : Spec} (h : RelS st sp) (op : Op) :
    RelS (stepC Cfg.repaired st op).st (specStepA st sp op) := by
  cases op with
  | set k v ttl => exact RelS_setTTL h k v ttl
  | cas k old v ttl => exact RelS_casTTL h k old v ttl
  | remove k => exact RelS_remove h k
  | casRemove k old => exact RelS_compareAndRemove h k old
  | addListener l => exact ⟨h.now_eq, Rel_listeners h.rel _⟩
  | removeListener l => exact ⟨h.now_eq, Rel_listeners h.rel _⟩
  | get => exact h
  | advance dt => exact RelS_advance h dt
  | fire dt => exact RelS_fire h dt
  | runCb id => exact RelS_runCb h id

/-- On quiescent operations the model follows the ideal store. -/
theorem RelS_step_quiescent {st : State} {sp : Spec} (h : RelS st sp) (hn : NoFired st) (op : Op)
    (hq : op.quiescent = true) :
    RelS (stepC Cfg.repaired st op).st (sp.step op) ∧ NoFired (stepC Cfg.repaired st op).st := by
  cases op with
  | set k v ttl => exact ⟨RelS_setTTL h k v ttl, hn.of_ok (TimersOK_setTTL _ st k v ttl)⟩
  | cas k old v ttl => exact ⟨RelS_casTTL h k old v ttl, hn.of_ok (TimersOK_casTTL _ st k old v ttl)⟩
  | remove k => exact ⟨RelS_remove h k, hn.of_ok (TimersOK_remove st k)⟩
  | casRemove k old => exact ⟨RelS_compareAndRemove h k old, hn.of_ok (TimersOK_compareAndRemove st k old)⟩
  | addListener l => exact ⟨⟨h.now_eq, Rel_listeners h.rel _⟩, hn⟩
  | removeListener l => exact ⟨⟨h.now_eq, Rel_listeners h.rel _⟩, hn⟩
  | get => exact ⟨h, hn⟩
  | advance dt =>
    obtain ⟨e1, e2⟩ := specAdvance_eq_settle h hn dt
    exact ⟨RelS_congr (RelS_advance h dt) e1.symm e2.symm, noFired_advance _ st dt⟩
  | fire dt => cases hq
  | runCb id => cases hq

theorem RelS_init : RelS init {} := ⟨rfl, Rel_init⟩

theorem noFired_init : NoFired init := by intro t ht; cases ht

end SigModel.Transient
