/-
Helper lemmas for C15 (Props/C15.lean).
-/
import SigModel.Spec.SessionId

namespace SigModel.SessionId
open SigModel.Generated.SessionId SigModel.Hmac SigModel

/-! ### base64 output never contains the separator -/

theorem encChar_ne_sep (n : Nat) : Base64.encChar Base64.url n ≠ sep := by
  by_cases h : n < 64
  · have : ∀ n, n < 64 → Base64.encChar Base64.url n ≠ sep := by decide
    exact this n h
  · unfold Base64.encChar
    have h1 : ¬ n < 26 := by omega
    have h2 : ¬ n < 52 := by omega
    have h3 : ¬ n < 62 := by omega
    have h4 : ¬ n = 62 := by omega
    simp only [h1, h2, h3, h4, if_false]
    decide

theorem sep_not_mem_b64 (bs : Bytes) : sep ∉ b64 bs := by
  unfold b64
  induction bs using Base64.encode.induct with
  | case1 a b c rest ih =>
    simp only [Base64.encode, List.mem_cons, not_or]
    exact ⟨(encChar_ne_sep _).symm, (encChar_ne_sep _).symm, (encChar_ne_sep _).symm, (encChar_ne_sep _).symm, ih⟩
  | case2 a b =>
    simp only [Base64.encode, List.mem_cons, not_or, List.not_mem_nil, not_false_eq_true, and_true]
    exact ⟨(encChar_ne_sep _).symm, (encChar_ne_sep _).symm, (encChar_ne_sep _).symm, by decide⟩
  | case3 a =>
    simp only [Base64.encode, List.mem_cons, not_or, List.not_mem_nil, not_false_eq_true, and_true]
    exact ⟨(encChar_ne_sep _).symm, (encChar_ne_sep _).symm, by decide, by decide⟩
  | case4 => simp [Base64.encode]

/-! ### decimal timestamps -/

theorem decRev_digits (n : Nat) : ∀ c ∈ decRev n, isDigit c = true := by
  induction n using decRev.induct with
  | case1 n h =>
    rw [decRev]; simp only [h, dite_true, List.mem_singleton]
    intro c hc; subst hc
    have : ∀ n, n < 10 → isDigit (UInt8.ofNat (48 + n)) = true := by decide
    exact this n h
  | case2 n h ih =>
    rw [decRev]; simp only [h, dite_false, List.mem_cons]
    intro c hc
    rcases hc with rfl | hc
    · have : ∀ n, n < 10 → isDigit (UInt8.ofNat (48 + n)) = true := by decide
      exact this (n % 10) (Nat.mod_lt _ (by omega))
    · exact ih c hc

theorem decRev_ne_nil (n : Nat) : decRev n ≠ [] := by
  rw [decRev]; split <;> simp

theorem valRev_decRev (n : Nat) : valRev (decRev n) = n := by
  induction n using decRev.induct with
  | case1 n h =>
    rw [decRev]; simp only [h, dite_true, valRev]
    have : ∀ n, n < 10 → (UInt8.ofNat (48 + n)).toNat - 48 = n := by decide
    rw [this n h]; omega
  | case2 n h ih =>
    rw [decRev]; simp only [h, dite_false, valRev, ih]
    have : ∀ n, n < 10 → (UInt8.ofNat (48 + n)).toNat - 48 = n := by decide
    rw [this (n % 10) (Nat.mod_lt _ (by omega))]; omega

theorem isDigit_ne_sep {c : UInt8} (h : isDigit c = true) : c ≠ sep := by
  intro e; subst e; revert h; decide

theorem sep_not_mem_decDigits (n : Nat) : sep ∉ decDigits n := by
  unfold decDigits
  intro h
  rw [List.mem_reverse] at h
  exact isDigit_ne_sep (decRev_digits n _ h) rfl

theorem decDigits_head (n : Nat) : ∃ c r, decDigits n = c :: r ∧ isDigit c = true := by
  unfold decDigits
  cases h : (decRev n).reverse with
  | nil => simp at h; exact absurd h (decRev_ne_nil n)
  | cons c r =>
    refine ⟨c, r, rfl, ?_⟩
    apply decRev_digits n
    rw [← List.mem_reverse, h]; simp

theorem isNeg_cons {c : UInt8} (r : Bytes) (h : c ≠ 45) : isNeg (c :: r) = false := by
  unfold isNeg; split
  · rename_i heq; simp at heq; exact absurd heq.1 h
  · rfl

theorem unsigned_cons {c : UInt8} (r : Bytes) (h43 : c ≠ 43) (h45 : c ≠ 45) : unsigned (c :: r) = c :: r := by
  unfold unsigned; split
  · rename_i heq; simp at heq; exact absurd heq.1 h43
  · rename_i heq; simp at heq; exact absurd heq.1 h45
  · rfl

theorem parseInt64_decDigits {n : Nat} (h : n < 2 ^ 63) : parseInt64 (decDigits n) = some (n : Int) := by
  obtain ⟨c, r, hcr, hc⟩ := decDigits_head n
  have hall : (decDigits n).all isDigit = true := by
    rw [List.all_eq_true]; intro x hx
    unfold decDigits at hx; rw [List.mem_reverse] at hx
    exact decRev_digits n x hx
  have h43 : c ≠ 43 := by intro e; subst e; revert hc; decide
  have h45 : c ≠ 45 := by intro e; subst e; revert hc; decide
  have hv : valRev (decDigits n).reverse = n := by
    unfold decDigits; rw [List.reverse_reverse]; exact valRev_decRev n
  unfold parseInt64
  rw [hcr] at hall hv ⊢
  simp only [isNeg_cons r h45, unsigned_cons r h43 h45, hall, hv]
  simp [h]

/-- `ParseInt` only accepts texts that start with a sign or a digit. -/
theorem parseInt64_head {c : UInt8} {r : Bytes} {t : Int} (h : parseInt64 (c :: r) = some t) :
    c = 43 ∨ c = 45 ∨ isDigit c = true := by
  by_cases h43 : c = 43
  · exact Or.inl h43
  by_cases h45 : c = 45
  · exact Or.inr (Or.inl h45)
  refine Or.inr (Or.inr ?_)
  unfold parseInt64 at h
  simp only [unsigned_cons r h43 h45] at h
  by_cases hall : (c :: r).all isDigit = true
  · simp only [List.all_cons, Bool.and_eq_true] at hall
    exact hall.1
  · simp [hall] at h

theorem parseInt64_nil : parseInt64 [] = none := by decide

/-! ### the names: constants from the source, plus the block-key binding -/

theorem sep_not_mem_toHex (b : Bytes) : sep ∉ Bytes.toHex b := by
  intro h
  have := Bytes.mem_toHex h
  have hs : sep.toNat = 124 := by decide
  omega

theorem sep_not_mem_suffix (mac : Mac) (hk bk : Bytes) : sep ∉ nameSuffix mac hk bk := by
  unfold nameSuffix
  split
  · intro h
    rcases List.mem_append.mp h with h | h
    · revert h; decide
    · exact sep_not_mem_toHex _ h
  · simp

theorem sep_not_mem_bases : sep ∉ Kind.decodeBase .priv ∧ sep ∉ Kind.decodeBase .pub ∧
    sep ∉ Kind.encodeBase .priv ∧ sep ∉ Kind.encodeBase .pub := by decide

theorem names_agree (k : Kind) (mac : Mac) (hk bk : Bytes) : k.encodeName mac hk bk = k.decodeName mac hk bk := by
  unfold Kind.encodeName Kind.decodeName
  have : k.encodeBase = k.decodeBase := by cases k <;> decide
  rw [this]

theorem sep_not_mem_name (k : Kind) (mac : Mac) (hk bk : Bytes) : sep ∉ k.decodeName mac hk bk := by
  unfold Kind.decodeName
  intro h
  rcases List.mem_append.mp h with h | h
  · cases k
    · exact sep_not_mem_bases.1 h
    · exact sep_not_mem_bases.2.1 h
  · exact sep_not_mem_suffix mac hk bk h

/-- The two roles have different names under every key set: the constants differ in their
second character, whatever is appended. -/
theorem names_distinct (mac : Mac) (hk bk : Bytes) :
    Kind.decodeName .priv mac hk bk ≠ Kind.decodeName .pub mac hk bk := by
  unfold Kind.decodeName
  intro h
  have h2 := congrArg (List.take 2) h
  rw [List.take_append_of_le_length (by decide), List.take_append_of_le_length (by decide)] at h2
  revert h2; decide

theorem decodeName_injective {k₁ k₂ : Kind} {mac : Mac} {hk bk : Bytes}
    (h : k₁.decodeName mac hk bk = k₂.decodeName mac hk bk) : k₁ = k₂ := by
  cases k₁ <;> cases k₂
  · rfl
  · exact absurd h (names_distinct mac hk bk)
  · exact absurd h.symm (names_distinct mac hk bk)
  · rfl

theorem bound_flag : blockKeyBoundToNames = true := by decide

/-- Under an ideal MAC the name suffix determines the block key (none = `[]`). -/
theorem nameSuffix_injective {mac : Mac} (hideal : IdealMac mac) {hk bk bk' : Bytes}
    (h : nameSuffix mac hk bk = nameSuffix mac hk bk') : bk = bk' := by
  unfold nameSuffix at h
  have hsep : Bytes.ascii blockKeyNameSep = [47] := by decide
  simp only [bound_flag, true_and, hsep] at h
  cases bk with
  | nil =>
    cases bk' with
    | nil => rfl
    | cons b r => simp at h
  | cons a q =>
    cases bk' with
    | nil => simp at h
    | cons b r =>
      simp only [List.isEmpty_cons, Bool.false_eq_true, not_false_eq_true, if_true, List.cons_append,
        List.nil_append, List.cons.injEq, true_and] at h
      have := (hideal _ _ _ _ (Bytes.toHex_injective h)).2
      exact List.append_cancel_left this

/-- …and so does the full name. -/
theorem decodeName_block_injective {mac : Mac} (hideal : IdealMac mac) {k : Kind} {hk bk bk' : Bytes}
    (h : k.decodeName mac hk bk = k.decodeName mac hk bk') : bk = bk' := by
  unfold Kind.decodeName at h
  exact nameSuffix_injective hideal (List.append_cancel_left h)

end SigModel.SessionId

namespace SigModel.SessionId
open SigModel.Generated.SessionId SigModel.Hmac SigModel

/-! ### base64 facts used below -/

theorem b64_length (bs : Bytes) : (b64 bs).length = (bs.length + 2) / 3 * 4 := by
  unfold b64
  induction bs using Base64.encode.induct with
  | case1 a b c rest ih => simp only [Base64.encode, List.length_cons, ih]; omega
  | case2 a b => simp [Base64.encode]
  | case3 a => simp [Base64.encode]
  | case4 => simp [Base64.encode]

theorem b64_length_reverse (bs : Bytes) : (b64 bs.reverse).length = (b64 bs).length := by
  rw [b64_length, b64_length, List.length_reverse]

theorem unb64_b64 (bs : Bytes) : unb64 (b64 bs) = some bs := Base64.decode_encode Base64.url_good bs

theorem b64_injective {x y : Bytes} (h : b64 x = b64 y) : x = y := Base64.encode_injective Base64.url_good h

theorem canonical_b64 (bs : Bytes) : Base64.canonical Base64.url (b64 bs) = true :=
  Base64.canonical_encode Base64.url_good bs

theorem canonical_elim {s : Bytes} (h : Base64.canonical Base64.url s = true) : ∃ b, unb64 s = some b ∧ b64 b = s :=
  Base64.canonical_iff.mp h

/-! ### the cookie bytes parse in exactly one way -/

theorem cookieBytes_split {date vb tag : Bytes} (hd : sep ∉ date) (hv : sep ∉ vb) :
    Bytes.splitFirst sep (cookieBytes date vb tag) = some (date, vb ++ sep :: tag) ∧
    Bytes.splitFirst sep (vb ++ sep :: tag) = some (vb, tag) :=
  ⟨Bytes.splitFirst_append _ hd, Bytes.splitFirst_append _ hv⟩

theorem cookieBytes_injective {d₁ v₁ t₁ d₂ v₂ t₂ : Bytes} (hd₁ : sep ∉ d₁) (hv₁ : sep ∉ v₁)
    (hd₂ : sep ∉ d₂) (hv₂ : sep ∉ v₂) (h : cookieBytes d₁ v₁ t₁ = cookieBytes d₂ v₂ t₂) :
    d₁ = d₂ ∧ v₁ = v₂ ∧ t₁ = t₂ := by
  have a := (cookieBytes_split (tag := t₁) hd₁ hv₁).1
  rw [h, (cookieBytes_split (tag := t₂) hd₂ hv₂).1] at a
  simp only [Option.some.injEq, Prod.mk.injEq] at a
  obtain ⟨a1, a2⟩ := a
  have b := (cookieBytes_split (date := d₁) (tag := t₁) hd₁ hv₁).2
  rw [← a2, (cookieBytes_split (date := d₁) (tag := t₂) hd₁ hv₂).2] at b
  simp only [Option.some.injEq, Prod.mk.injEq] at b
  exact ⟨a1.symm, b.1.symm, b.2.symm⟩

theorem maxAge_zero : maxAge = 0 := by decide

/-- What `securecookie.Decode` accepts, spelled out. -/
theorem cookieDecode_some_iff (mac : Mac) (hk name : Bytes) (now : Int) (s v : Bytes) :
    cookieDecode mac hk name now s = some v ↔
      hk ≠ [] ∧ s.length ≤ maxLength ∧ ∃ date vb tag, unb64 s = some (cookieBytes date vb tag) ∧
        sep ∉ date ∧ sep ∉ vb ∧ tag = mac hk (macMsg name date vb) ∧
        (parseInt64 date).isSome = true ∧ unb64 vb = some v := by
  constructor
  · intro h
    unfold cookieDecode at h
    by_cases hk0 : hk.isEmpty = true
    · simp [hk0] at h
    simp only [hk0, Bool.false_eq_true, if_false] at h
    by_cases hl : s.length > maxLength
    · simp [hl] at h
    simp only [hl, if_false] at h
    cases hb : unb64 s with
    | none => simp [hb] at h
    | some b =>
      simp only [hb] at h
      cases h1 : Bytes.splitFirst sep b with
      | none => simp [h1] at h
      | some p1 =>
        obtain ⟨date, r1⟩ := p1
        simp only [h1] at h
        cases h2 : Bytes.splitFirst sep r1 with
        | none => simp [h2] at h
        | some p2 =>
          obtain ⟨vb, tag⟩ := p2
          simp only [h2] at h
          by_cases ht : tag = mac hk (macMsg name date vb)
          · simp only [ht, ne_eq, not_true_eq_false, if_false] at h
            cases hp : parseInt64 date with
            | none => simp [hp] at h
            | some t1 =>
              simp only [hp, maxAge_zero] at h
              obtain ⟨e1, n1⟩ := Bytes.splitFirst_spec h1
              obtain ⟨e2, n2⟩ := Bytes.splitFirst_spec h2
              refine ⟨by simpa using hk0, by omega, date, vb, tag, ?_, n1, n2, ht, by rw [hp]; rfl, by simpa using h⟩
              rw [e1, e2]; rfl
          · simp [ht] at h
  · rintro ⟨hk0, hl, date, vb, tag, hb, n1, n2, ht, hp, hv⟩
    subst ht
    unfold cookieDecode
    have hk0' : hk.isEmpty = false := by cases hk with | nil => exact absurd rfl hk0 | cons _ _ => rfl
    have hl' : ¬ s.length > maxLength := by omega
    obtain ⟨s1, s2⟩ := cookieBytes_split (tag := mac hk (macMsg name date vb)) n1 n2
    cases hpd : parseInt64 date with
    | none => simp [hpd] at hp
    | some t1 => simp [hk0', hl', hb, s1, s2, hpd, maxAge_zero, hv]

/-- The id string that carries the cookie bytes `cb` in role `k`. -/
def wire (k : Kind) (cb : Bytes) : Bytes :=
  match k with
  | .priv => b64 cb
  | .pub => b64 cb.reverse

theorem wire_injective {k : Kind} {x y : Bytes} (h : wire k x = wire k y) : x = y := by
  cases k with
  | priv => exact b64_injective h
  | pub =>
    have := congrArg List.reverse (b64_injective h)
    simpa using this

theorem wire_length (k : Kind) (cb : Bytes) : (wire k cb).length = (b64 cb).length := by
  cases k with
  | priv => rfl
  | pub => exact b64_length_reverse cb

theorem flags : Kind.checksCanonical .priv = true ∧ Kind.checksCanonical .pub = true ∧
    Kind.reversesOnDecode .pub = true ∧ Kind.reversesOnEncode .pub = true := by decide

/-- What `DecodePrivate` / `DecodePublic` accept, spelled out. -/
theorem decodeValue_some_iff (mac : Mac) (hk bk : Bytes) (k : Kind) (now : Int) (s v : Bytes) :
    decodeValue mac hk bk k now s = some v ↔
      hk ≠ [] ∧ s.length ≤ maxLength ∧ ∃ date vb tag, s = wire k (cookieBytes date vb tag) ∧
        sep ∉ date ∧ sep ∉ vb ∧ tag = mac hk (macMsg (k.decodeName mac hk bk) date vb) ∧
        (parseInt64 date).isSome = true ∧ unb64 vb = some v := by
  constructor
  · intro h
    unfold decodeValue at h
    have hc : k.checksCanonical = true := by cases k; exact flags.1; exact flags.2.1
    by_cases hcan : Base64.canonical Base64.url s = true
    · obtain ⟨b0, hb0, hs⟩ := canonical_elim hcan
      have hne : ¬ (k.checksCanonical = true ∧ Base64.canonical Base64.url s = false) := by simp [hcan]
      simp only [hne, if_false] at h
      cases k with
      | priv =>
        have : Kind.reversesOnDecode .priv = false := rfl
        simp only [this, Bool.false_eq_true, if_false] at h
        obtain ⟨h1, h2, date, vb, tag, hb, r⟩ := (cookieDecode_some_iff _ _ _ _ _ _).mp h
        refine ⟨h1, h2, date, vb, tag, ?_, r⟩
        rw [hb0] at hb
        rw [← hs, Option.some.inj hb]; rfl
      | pub =>
        simp only [flags.2.2.1, if_true] at h
        unfold reverseId at h
        simp only [hb0] at h
        obtain ⟨h1, h2, date, vb, tag, hb, r⟩ := (cookieDecode_some_iff _ _ _ _ _ _).mp h
        rw [unb64_b64] at hb
        have hb0' : b0 = (cookieBytes date vb tag).reverse := by
          rw [← Option.some.inj hb, List.reverse_reverse]
        refine ⟨h1, ?_, date, vb, tag, ?_, r⟩
        · rw [← hs, ← b64_length_reverse]; exact h2
        · rw [← hs, hb0']; rfl
    · have : k.checksCanonical = true ∧ Base64.canonical Base64.url s = false := ⟨hc, by simpa using hcan⟩
      simp [this] at h
  · rintro ⟨hk0, hl, date, vb, tag, hs, r⟩
    unfold decodeValue
    subst hs
    cases k with
    | priv =>
      have hne : ¬ (Kind.checksCanonical .priv = true ∧ Base64.canonical Base64.url (wire .priv (cookieBytes date vb tag)) = false) := by
        simp [wire, canonical_b64]
      have : Kind.reversesOnDecode .priv = false := rfl
      simp only [hne, this, Bool.false_eq_true, if_false]
      exact (cookieDecode_some_iff _ _ _ _ _ _).mpr ⟨hk0, hl, date, vb, tag, unb64_b64 _, r⟩
    | pub =>
      have hne : ¬ (Kind.checksCanonical .pub = true ∧ Base64.canonical Base64.url (wire .pub (cookieBytes date vb tag)) = false) := by
        simp [wire, canonical_b64]
      simp only [hne, flags.2.2.1, if_false, if_true]
      unfold reverseId wire
      simp only [unb64_b64, List.reverse_reverse]
      refine (cookieDecode_some_iff _ _ _ _ _ _).mpr ⟨hk0, ?_, date, vb, tag, unb64_b64 _, r⟩
      rw [← b64_length_reverse]; exact hl

end SigModel.SessionId

namespace SigModel.SessionId
open SigModel.Generated.SessionId SigModel.Hmac SigModel

/-! ### decode cache -/

theorem Cache.get_remove (c : Cache) (key key' : Bytes) :
    (Cache.remove c key).get key' = if key' = key then none else c.get key' := by
  induction c with
  | nil => simp [Cache.remove, Cache.get]
  | cons e r ih =>
    obtain ⟨k, v⟩ := e
    unfold Cache.remove at ih ⊢
    by_cases hk : k = key
    · subst hk
      simp only [List.filter, ne_eq, not_true_eq_false, decide_false]
      rw [ih]
      by_cases h2 : key' = k
      · simp [h2]
      · have : ¬ k = key' := fun e => h2 e.symm
        simp [h2, Cache.get, this]
    · have hd : decide ((k, v).1 ≠ key) = true := by simpa using hk
      simp only [List.filter, hd]
      by_cases h2 : key' = key
      · subst h2
        have : ¬ k = key' := hk
        simp only [Cache.get, this, if_false, ih, if_true]
      · simp only [Cache.get, ih, h2, if_false]

theorem Cache.get_set (c : Cache) (key v key' : Bytes) :
    (Cache.set c key v).get key' = if key' = key then some v else c.get key' := by
  unfold Cache.set
  by_cases h : key' = key
  · subst h; simp [Cache.get]
  · have : ¬ key = key' := fun e => h e.symm
    simp only [Cache.get, this, if_false, Cache.get_remove, h]

/-- The part of the cache key after the id. -/
def Kind.sfx (k : Kind) : Bytes := Bytes.ascii cacheKeySep ++ k.cacheName

theorem cacheKey_eq (k : Kind) (id : Bytes) : cacheKey k id = id ++ k.sfx := by
  unfold cacheKey Kind.sfx; rw [List.append_assoc]

/-- Keys of the two roles never collide, whatever the id strings are (they may
themselves contain the separator and the other role's name). -/
theorem sfx_no_collision (a b : Bytes) : a ++ Kind.sfx .priv ≠ b ++ Kind.sfx .pub := by
  intro h
  have h2 := congrArg List.reverse h
  rw [List.reverse_append, List.reverse_append] at h2
  have h3 := congrArg (List.take 9) h2
  rw [List.take_append_of_le_length (by decide), List.take_append_of_le_length (by decide)] at h3
  revert h3; decide

theorem cacheKey_injective {k k' : Kind} {id id' : Bytes} (h : cacheKey k id = cacheKey k' id') :
    k = k' ∧ id = id' := by
  rw [cacheKey_eq, cacheKey_eq] at h
  cases k <;> cases k'
  · exact ⟨rfl, List.append_cancel_right h⟩
  · exact absurd h (sfx_no_collision _ _)
  · exact absurd h.symm (sfx_no_collision _ _)
  · exact ⟨rfl, List.append_cancel_right h⟩

theorem cacheFill_flag : cacheFilledOnlyAfterSuccessfulDecode = true := by decide

/-- With `MaxAge(0)` the clock plays no role in decoding. -/
theorem decodeValue_clock (mac : Mac) (hk bk : Bytes) (k : Kind) (t t' : Int) (s : Bytes) :
    decodeValue mac hk bk k t s = decodeValue mac hk bk k t' s := by
  cases h : decodeValue mac hk bk k t s with
  | some v => exact ((decodeValue_some_iff _ _ _ _ t' _ _).mpr ((decodeValue_some_iff _ _ _ _ t _ _).mp h)).symm
  | none =>
    cases h' : decodeValue mac hk bk k t' s with
    | none => rfl
    | some v =>
      rw [(decodeValue_some_iff _ _ _ _ t _ _).mpr ((decodeValue_some_iff _ _ _ _ t' _ _).mp h')] at h
      cases h

theorem decodeId_clock (mac : Mac) (hk bk : Bytes) (open_ : Bytes → Option Bytes) (k : Kind) (t t' : Int) (s : Bytes) :
    decodeId mac hk bk open_ k t s = decodeId mac hk bk open_ k t' s := by
  unfold decodeId; rw [decodeValue_clock mac hk bk k t t' s]

end SigModel.SessionId
