/-
Helper lemmas for C15 (Props/C15.lean).
-/
import SigModel.Spec.SessionId

namespace SigModel.SessionId
open SigModel.Generated.SessionId SigModel.Hmac SigModel

/-! ### base64 output never contains the separator -/

theorem encChar_ne_sep (n : Nat) : Base64.encChar Base64.url n ≠ sep := by
  by_cases h : n < 64
  · have : ∀ n, n < 64 → Base64.encChar Base64.url n ≠ sep := by decide
    exact this n h
  · unfold Base64.encChar
    have h1 : ¬ n < 26 := by omega
    have h2 : ¬ n < 52 := by omega
    have h3 : ¬ n < 62 := by omega
    have h4 : ¬ n = 62 := by omega
    simp only [h1, h2, h3, h4, if_false]
    decide

theorem sep_not_mem_b64 (bs : Bytes) : sep ∉ b64 bs := by
  unfold b64
  induction bs using Base64.encode.induct with
  | case1 a b c rest ih =>
    simp only [Base64.encode, List.mem_cons, not_or]
    exact ⟨(encChar_ne_sep _).symm, (encChar_ne_sep _).symm, (encChar_ne_sep _).symm, (encChar_ne_sep _).symm, ih⟩
  | case2 a b =>
    simp only [Base64.encode, List.mem_cons, not_or, List.not_mem_nil, not_false_eq_true, and_true]
    exact ⟨(encChar_ne_sep _).symm, (encChar_ne_sep _).symm, (encChar_ne_sep _).symm, by decide⟩
  | case3 a =>
    simp only [Base64.encode, List.mem_cons, not_or, List.not_mem_nil, not_false_eq_true, and_true]
    exact ⟨(encChar_ne_sep _).symm, (encChar_ne_sep _).symm, by decide, by decide⟩
  | case4 => simp [Base64.encode]

/-! ### decimal timestamps -/

theorem decRev_digits (n : Nat) : ∀ c ∈ decRev n, isDigit c = true := by
  induction n using decRev.induct with
  | case1 n h =>
    rw [decRev]; simp only [h, dite_true, List.mem_singleton]
    intro c hc; subst hc
    have : ∀ n, n < 10 → isDigit (UInt8.ofNat (48 + n)) = true := by decide
    exact this n h
  | case2 n h ih =>
    rw [decRev]; simp only [h, dite_false, List.mem_cons]
    intro c hc
    rcases hc with rfl | hc
    · have : ∀ n, n < 10 → isDigit (UInt8.ofNat (48 + n)) = true := by decide
      exact this (n % 10) (Nat.mod_lt _ (by omega))
    · exact ih c hc

theorem decRev_ne_nil (n : Nat) : decRev n ≠ [] := by
  rw [decRev]; split <;> simp

theorem valRev_decRev (n : Nat) : valRev (decRev n) = n := by
  induction n using decRev.induct with
  | case1 n h =>
    rw [decRev]; simp only [h, dite_true, valRev]
    have : ∀ n, n < 10 → (UInt8.ofNat (48 + n)).toNat - 48 = n := by decide
    rw [this n h]; omega
  | case2 n h ih =>
    rw [decRev]; simp only [h, dite_false, valRev, ih]
    have : ∀ n, n < 10 → (UInt8.ofNat (48 + n)).toNat - 48 = n := by decide
    rw [this (n % 10) (Nat.mod_lt _ (by omega))]; omega

theorem isDigit_ne_sep {c : UInt8} (h : isDigit c = true) : c ≠ sep := by
  intro e; subst e; revert h; decide

theorem sep_not_mem_decDigits (n : Nat) : sep ∉ decDigits n := by
  unfold decDigits
  intro h
  rw [List.mem_reverse] at h
  exact isDigit_ne_sep (decRev_digits n _ h) rfl

theorem decDigits_head (n : Nat) : ∃ c r, decDigits n = c :: r ∧ isDigit c = true := by
  unfold decDigits
  cases h : (decRev n).reverse with
  | nil => simp at h; exact absurd h (decRev_ne_nil n)
  | cons c r =>
    refine ⟨c, r, rfl, ?_⟩
    apply decRev_digits n
    rw [← List.mem_reverse, h]; simp

theorem isNeg_cons {c : UInt8} (r : Bytes) (h : c ≠ 45) : isNeg (c :: r) = false := by
  unfold isNeg; split
  · rename_i heq; simp at heq; exact absurd heq.1 h
  · rfl

theorem unsigned_cons {c : UInt8} (r : Bytes) (h43 : c ≠ 43) (h45 : c ≠ 45) : unsigned (c :: r) = c :: r := by
  unfold unsigned; split
  · rename_i heq; simp at heq; exact absurd heq.1 h43
  · rename_i heq; simp at heq; exact absurd heq.1 h45
  · rfl

theorem parseInt64_decDigits {n : Nat} (h : n < 2 ^ 63) : parseInt64 (decDigits n) = some (n : Int) := by
  obtain ⟨c, r, hcr, hc⟩ := decDigits_head n
  have hall : (decDigits n).all isDigit = true := by
    rw [List.all_eq_true]; intro x hx
    unfold decDigits at hx; rw [List.mem_reverse] at hx
    exact decRev_digits n x hx
  have h43 : c ≠ 43 := by intro e; subst e; revert hc; decide
  have h45 : c ≠ 45 := by intro e; subst e; revert hc; decide
  have hv : valRev (decDigits n).reverse = n := by
    unfold decDigits; rw [List.reverse_reverse]; exact valRev_decRev n
  unfold parseInt64
  rw [hcr] at hall hv ⊢
  simp only [isNeg_cons r h45, unsigned_cons r h43 h45, hall, hv]
  simp [h]

/-- `ParseInt` only accepts texts that start with a sign or a digit. -/
theorem parseInt64_head {c : UInt8} {r : Bytes} {t : Int} (h : parseInt64 (c :: r) = some t) :
    c = 43 ∨ c = 45 ∨ isDigit c = true := by
  by_cases h43 : c = 43
  · exact Or.inl h43
  by_cases h45 : c = 45
  · exact Or.inr (Or.inl h45)
  refine Or.inr (Or.inr ?_)
  unfold parseInt64 at h
  simp only [unsigned_cons r h43 h45] at h
  by_cases hall : (c :: r).all isDigit = true
  · simp only [List.all_cons, Bool.and_eq_true] at hall
    exact hall.1
  · simp [hall] at h

theorem parseInt64_nil : parseInt64 [] = none := by decide

/-! ### the names extracted from the source -/

theorem sep_not_mem_names : sep ∉ Kind.decodeName .priv ∧ sep ∉ Kind.decodeName .pub ∧
    sep ∉ Kind.encodeName .priv ∧ sep ∉ Kind.encodeName .pub := by decide

theorem names_agree (k : Kind) : k.encodeName = k.decodeName := by
  cases k <;> decide

theorem names_distinct : Kind.decodeName .priv ≠ Kind.decodeName .pub := by decide

theorem sep_not_mem_name (k : Kind) : sep ∉ k.decodeName := by
  cases k
  · exact sep_not_mem_names.1
  · exact sep_not_mem_names.2.1

theorem decodeName_injective {k₁ k₂ : Kind} (h : k₁.decodeName = k₂.decodeName) : k₁ = k₂ := by
  cases k₁ <;> cases k₂ <;> first | rfl | (exfalso; revert h; decide)

end SigModel.SessionId
