/-
Lemmas for C20: inversion lemmas of the actions of `Model/Bus.lean` and the inductive invariants the
property theorems of `Props/C20.lean` are derived from.
-/
import SigModel.Model.Bus
import SigModel.Spec.Bus

namespace SigModel.Bus
open SigModel.Generated.Bus

/-! ### facts -/

theorem snapshotIteration_true : snapshotIteration = true := by decide
theorem closeOnLast_true : closeOnLast = true := by decide
theorem sendNonBlocking_true : sendNonBlocking = true := by decide
theorem chanCap_pos : 0 < chanCap := by decide
theorem waitsForPrevious_true : waitsForPrevious = true := by decide

theorem earlierDone_iff (st : State) (k : Nat) :
    earlierDone st k = true ↔ ∀ k', k' < k → (st.sub k').subj = (st.sub k).subj → (st.sub k').attached = false := by
  simp only [earlierDone, List.all_eq_true, List.mem_range, Bool.or_eq_true, bne_iff_ne, ne_eq,
    Bool.not_eq_true']
  constructor
  · intro h k' hk' hs
    rcases h k' hk' with g | g
    · exact absurd hs g
    · exact g
  · intro h k' hk'
    by_cases hs : (st.sub k').subj = (st.sub k).subj
    · right; exact h k' hk' hs
    · left; exact hs

/-! ### `upd` -/

@[simp, grind =] theorem upd_sub (st : State) (k : Nat) (f : Sub → Sub) (k' : Nat) :
    (st.upd k f).sub k' = if k' = k then f (st.sub k') else st.sub k' := rfl
@[simp, grind =] theorem upd_nsubs (st : State) (k : Nat) (f : Sub → Sub) : (st.upd k f).nsubs = st.nsubs := rfl
@[simp, grind =] theorem upd_active (st : State) (k : Nat) (f : Sub → Sub) : (st.upd k f).active = st.active := rfl
@[simp, grind =] theorem upd_log (st : State) (k : Nat) (f : Sub → Sub) : (st.upd k f).log = st.log := rfl
@[simp, grind =] theorem upd_disp (st : State) (k : Nat) (f : Sub → Sub) : (st.upd k f).disp = st.disp := rfl
@[simp, grind =] theorem upd_sending (st : State) (k : Nat) (f : Sub → Sub) : (st.upd k f).sending = st.sending := rfl
@[simp, grind =] theorem upd_clk (st : State) (k : Nat) (f : Sub → Sub) : (st.upd k f).clk = st.clk := rfl
@[simp, grind =] theorem upd_regs (st : State) (k : Nat) (f : Sub → Sub) : (st.upd k f).regs = st.regs := rfl
@[simp, grind =] theorem upd_unregs (st : State) (k : Nat) (f : Sub → Sub) : (st.upd k f).unregs = st.unregs := rfl
@[simp, grind =] theorem upd_recvs (st : State) (k : Nat) (f : Sub → Sub) : (st.upd k f).recvs = st.recvs := rfl
@[simp, grind =] theorem upd_dropped (st : State) (k : Nat) (f : Sub → Sub) : (st.upd k f).dropped = st.dropped := rfl
@[simp, grind =] theorem upd_stale (st : State) (k : Nat) (f : Sub → Sub) : (st.upd k f).stale = st.stale := rfl
@[simp, grind =] theorem upd_subjOf (st : State) (k : Nat) (f : Sub → Sub) (i : Nat) :
    (st.upd k f).subjOf i = st.subjOf i := rfl

/-! ### inversion lemmas: what an enabled action does -/

theorem dispatch_inv {st st' : State} (e : dispatch st = some st') :
    ∃ p, st.sending = [] ∧ st.log[st.disp]? = some p ∧
      st' = { st with
        disp := st.disp + 1
        sending := (List.range st.nsubs).filter fun k => (st.sub k).attached && (st.sub k).subj == p.s } := by
  simp only [Bus.dispatch] at e
  split at e
  · rename_i h
    split at e
    · rename_i p hp
      cases e
      exact ⟨p, h, hp, rfl⟩
    · cases e
  · cases e

theorem send_inv {st st' : State} (e : send st = some st') :
    ∃ k rest, st.sending = k :: rest ∧
      (((st.sub k).chan.length < chanCap ∧
          st' = ({ st with sending := rest } : State).upd k fun b => { b with chan := b.chan ++ [st.disp - 1] }) ∨
        (¬ (st.sub k).chan.length < chanCap ∧ st' = { st with sending := rest, dropped := true })) := by
  simp only [Bus.send] at e
  split at e
  · cases e
  · rename_i k rest hs
    split at e
    · rename_i hlt
      cases e
      exact ⟨k, rest, hs, Or.inl ⟨hlt, rfl⟩⟩
    · rename_i hlt
      rw [sendNonBlocking_true] at e
      simp at e
      exact ⟨k, rest, hs, Or.inr ⟨hlt, e.symm⟩⟩

theorem take_inv {st st' : State} {k : Nat} (e : take st k = some st') :
    ∃ i rest, k < st.nsubs ∧ (st.sub k).attached = true ∧ (st.sub k).cur = none ∧ (st.sub k).chan = i :: rest ∧
      (∀ k', k' < k → (st.sub k').subj = (st.sub k).subj → (st.sub k').attached = false) ∧
      st' = st.upd k fun b => { b with chan := rest, cur := some i, snapped := false, tovisit := [], pending := none } := by
  simp only [Bus.take, waitsForPrevious_true, Bool.true_eq_false, false_or] at e
  split at e
  · rename_i h
    split at e
    · rename_i i rest hc
      cases e
      exact ⟨i, rest, h.1, h.2.1, h.2.2.1, hc, (earlierDone_iff st k).mp h.2.2.2, rfl⟩
    · cases e
  · cases e

theorem snap_inv {st st' : State} {k : Nat} (e : snap st k = some st') :
    ∃ i, k < st.nsubs ∧ (st.sub k).cur = some i ∧ (st.sub k).snapped = false ∧
      st' = st.upd k fun b => { b with snapped := true, tovisit := b.listeners } := by
  simp only [Bus.snap] at e
  split at e
  · rename_i h
    cases e
    obtain ⟨h1, h2, h3⟩ := h
    cases hc : (st.sub k).cur with
    | none => simp [hc] at h2
    | some i => exact ⟨i, h1, rfl, h3, rfl⟩
  · cases e

theorem pick_inv {st st' : State} {k l : Nat} (e : pick st k l = some st') :
    k < st.nsubs ∧ (st.sub k).snapped = true ∧ (st.sub k).pending = none ∧ l ∈ (st.sub k).tovisit ∧
      st' = st.upd k fun b =>
        { b with tovisit := b.tovisit.erase l, pending := if l ∈ b.listeners then some l else none } := by
  simp only [Bus.pick] at e
  split at e
  · rename_i h
    cases e
    exact ⟨h.1, h.2.1, h.2.2.1, h.2.2.2, rfl⟩
  · cases e

theorem call_inv {st st' : State} {k : Nat} (e : call st k = some st') :
    ∃ l i, k < st.nsubs ∧ (st.sub k).pending = some l ∧ (st.sub k).cur = some i ∧
      st' = ({ st with
        recvs := st.recvs ++ [{ l := l, i := i, t := st.clk, k := k }]
        clk := st.clk + 1
        stale := if l ∈ (st.sub k).listeners then st.stale else st.stale + 1 } : State).upd k
          fun b => { b with pending := none } := by
  simp only [Bus.call] at e
  split at e
  · rename_i h
    split at e
    · rename_i l i hp hc
      cases e
      exact ⟨l, i, h, hp, hc, rfl⟩
    · cases e
  · cases e

theorem finish_inv {st st' : State} {k : Nat} (e : finish st k = some st') :
    ∃ i, k < st.nsubs ∧ (st.sub k).cur = some i ∧ (st.sub k).snapped = true ∧ (st.sub k).tovisit = [] ∧
      (st.sub k).pending = none ∧ st' = st.upd k fun b => { b with cur := none, snapped := false } := by
  simp only [Bus.finish] at e
  split at e
  · rename_i h
    cases e
    obtain ⟨h1, h2, h3, h4, h5⟩ := h
    cases hc : (st.sub k).cur with
    | none => simp [hc] at h2
    | some i => exact ⟨i, h1, rfl, h3, h4, h5, rfl⟩
  · cases e

theorem exit_inv {st st' : State} {k : Nat} (e : Bus.exit st k = some st') :
    k < st.nsubs ∧ (st.sub k).attached = true ∧ (st.sub k).closed = true ∧ (st.sub k).cur = none ∧
      st' = st.upd k fun b => { b with attached := false } := by
  simp only [Bus.exit] at e
  split at e
  · rename_i h
    cases e
    exact ⟨h.1, h.2.1, h.2.2.1, h.2.2.2, rfl⟩
  · cases e

/-- `register` on a subject that has a subscriber. -/
def regOld (st : State) (l k : Nat) : State :=
  st.upd k fun b => if l ∈ b.listeners then b else { b with listeners := b.listeners ++ [l] }

/-- `register` on a subject without subscriber: a new one is made. -/
def regNew (st : State) (l s : Nat) : State :=
  { st with
    nsubs := st.nsubs + 1
    sub := fun k' => if k' = st.nsubs then { subj := s, listeners := [l], born := st.disp } else st.sub k'
    active := fun s' => if s' = s then some st.nsubs else st.active s' }

def stampReg (st : State) (l s : Nat) : State :=
  { st with regs := st.regs ++ [{ l := l, s := s, t := st.clk }], clk := st.clk + 1 }

theorem register_eq (st : State) (l s : Nat) :
    register st l s = stampReg (match st.active s with
      | some k => regOld st l k
      | none => regNew st l s) l s := by
  unfold register stampReg regOld regNew
  cases h : st.active s with
  | none => rfl
  | some k =>
    simp only [snapshotIteration_true]
    congr 1

/-- `unregister` of the last listener: the subscriber is closed and forgotten. -/
def unregLast (st : State) (s k : Nat) : State :=
  { (st.upd k fun b => { b with listeners := [], closed := true, closedAt := st.disp }) with
    active := fun s' => if s' = s then none else st.active s' }

/-- `unregister` while other listeners remain. -/
def unregSome (st : State) (l k : Nat) : State :=
  st.upd k fun b => { b with listeners := b.listeners.erase l }

def stampUnreg (st : State) (l s : Nat) : State :=
  { st with unregs := st.unregs ++ [{ l := l, s := s, t := st.clk }], clk := st.clk + 1 }

theorem unregister_eq (st : State) (l s : Nat) :
    unregister st l s = stampUnreg (match st.active s with
      | none => st
      | some k => if (st.sub k).listeners.erase l = [] then unregLast st s k else unregSome st l k) l s := by
  unfold unregister stampUnreg unregLast unregSome
  cases h : st.active s with
  | none => rfl
  | some k =>
    simp only [snapshotIteration_true, closeOnLast_true, and_true]
    by_cases he : (st.sub k).listeners.erase l = []
    · simp only [he, if_true]
    · simp only [he, if_false]
      congr 1
      funext k'
      by_cases hk : k' = k
      · subst hk; simp
      · simp [hk]

end SigModel.Bus

namespace SigModel.Bus
open SigModel.Generated.Bus

/-! ### primitive transitions -/

/-- The state transformers the actions consist of, with their enabling conditions. -/
inductive Prim : State → State → Prop where
  | publish (st : State) (s : Nat) : Prim st (publish st s)
  | dispatch (st : State) (p : PubEv) : st.sending = [] → st.log[st.disp]? = some p →
      Prim st { st with
        disp := st.disp + 1
        sending := (List.range st.nsubs).filter fun k => (st.sub k).attached && (st.sub k).subj == p.s }
  | sendOk (st : State) (k : Nat) (rest : List Nat) : st.sending = k :: rest → (st.sub k).chan.length < chanCap →
      Prim st (({ st with sending := rest } : State).upd k fun b => { b with chan := b.chan ++ [st.disp - 1] })
  | sendDrop (st : State) (k : Nat) (rest : List Nat) : st.sending = k :: rest →
      Prim st { st with sending := rest, dropped := true }
  | take (st : State) (k i : Nat) (rest : List Nat) : k < st.nsubs → (st.sub k).attached = true →
      (st.sub k).cur = none → (st.sub k).chan = i :: rest →
      (∀ k', k' < k → (st.sub k').subj = (st.sub k).subj → (st.sub k').attached = false) →
      Prim st (st.upd k fun b => { b with chan := rest, cur := some i, snapped := false, tovisit := [], pending := none })
  | snap (st : State) (k i : Nat) : k < st.nsubs → (st.sub k).cur = some i → (st.sub k).snapped = false →
      Prim st (st.upd k fun b => { b with snapped := true, tovisit := b.listeners })
  | pick (st : State) (k l : Nat) : k < st.nsubs → (st.sub k).snapped = true → (st.sub k).pending = none →
      l ∈ (st.sub k).tovisit →
      Prim st (st.upd k fun b =>
        { b with tovisit := b.tovisit.erase l, pending := if l ∈ b.listeners then some l else none })
  | call (st : State) (k l i : Nat) : k < st.nsubs → (st.sub k).pending = some l → (st.sub k).cur = some i →
      Prim st (({ st with
        recvs := st.recvs ++ [{ l := l, i := i, t := st.clk, k := k }]
        clk := st.clk + 1
        stale := if l ∈ (st.sub k).listeners then st.stale else st.stale + 1 } : State).upd k
          fun b => { b with pending := none })
  | finish (st : State) (k i : Nat) : k < st.nsubs → (st.sub k).cur = some i → (st.sub k).snapped = true →
      (st.sub k).tovisit = [] → (st.sub k).pending = none →
      Prim st (st.upd k fun b => { b with cur := none, snapped := false })
  | exit (st : State) (k : Nat) : k < st.nsubs → (st.sub k).attached = true → (st.sub k).closed = true →
      (st.sub k).cur = none → Prim st (st.upd k fun b => { b with attached := false })
  | regOld (st : State) (l s k : Nat) : st.active s = some k → Prim st (stampReg (regOld st l k) l s)
  | regNew (st : State) (l s : Nat) : st.active s = none → Prim st (stampReg (regNew st l s) l s)
  | unregNone (st : State) (l s : Nat) : st.active s = none → Prim st (stampUnreg st l s)
  | unregLast (st : State) (l s k : Nat) : st.active s = some k → (st.sub k).listeners.erase l = [] →
      Prim st (stampUnreg (unregLast st s k) l s)
  | unregSome (st : State) (l s k : Nat) : st.active s = some k → (st.sub k).listeners.erase l ≠ [] →
      Prim st (stampUnreg (unregSome st l k) l s)

theorem step_prim {st st' : State} {a : Act} (e : step st a = some st') : Prim st st' := by
  cases a with
  | publish s => simp only [step, Option.some.injEq] at e; subst e; exact .publish st s
  | dispatch =>
    obtain ⟨p, h1, h2, rfl⟩ := dispatch_inv e
    exact .dispatch st p h1 h2
  | send =>
    obtain ⟨k, rest, hs, h⟩ := send_inv e
    rcases h with ⟨hlt, rfl⟩ | ⟨_, rfl⟩
    · exact .sendOk st k rest hs hlt
    · exact .sendDrop st k rest hs
  | take k =>
    obtain ⟨i, rest, h1, h2, h3, h4, h5, rfl⟩ := take_inv e
    exact .take st k i rest h1 h2 h3 h4 h5
  | snap k =>
    obtain ⟨i, h1, h2, h3, rfl⟩ := snap_inv e
    exact .snap st k i h1 h2 h3
  | pick k l =>
    obtain ⟨h1, h2, h3, h4, rfl⟩ := pick_inv e
    exact .pick st k l h1 h2 h3 h4
  | call k =>
    obtain ⟨l, i, h1, h2, h3, rfl⟩ := call_inv e
    exact .call st k l i h1 h2 h3
  | finish k =>
    obtain ⟨i, h1, h2, h3, h4, h5, rfl⟩ := finish_inv e
    exact .finish st k i h1 h2 h3 h4 h5
  | exit k =>
    obtain ⟨h1, h2, h3, h4, rfl⟩ := exit_inv e
    exact .exit st k h1 h2 h3 h4
  | register l s =>
    simp only [step, Option.some.injEq] at e
    subst e
    rw [register_eq]
    cases h : st.active s with
    | none => exact .regNew st l s h
    | some k => exact .regOld st l s k h
  | unregister l s =>
    simp only [step, Option.some.injEq] at e
    subst e
    rw [unregister_eq]
    cases h : st.active s with
    | none => exact .unregNone st l s h
    | some k =>
      by_cases he : (st.sub k).listeners.erase l = []
      · simp only [he, if_true]; exact .unregLast st l s k h he
      · simp only [he, if_false]; exact .unregSome st l s k h he

/-- Induction over reachable states through the primitive transitions. -/
theorem Reach.induct {P : State → Prop} (h0 : P State.init)
    (hs : ∀ st st', Reach st → P st → Prim st st' → P st') : ∀ st, Reach st → P st := by
  intro st h
  induction h with
  | init => exact h0
  | next a hr e ih => exact hs _ _ hr ih (step_prim e)

end SigModel.Bus

namespace SigModel.Bus
open SigModel.Generated.Bus

/-! ### well-formedness -/

structure SubOK (b : Sub) : Prop where
  closed_ls : b.closed = true → b.listeners = []
  detached_closed : b.attached = false → b.closed = true
  ls_nodup : b.listeners.Nodup
  tv_nodup : b.tovisit.Nodup
  snapped_cur : b.snapped = true → b.cur.isSome = true
  unsnapped : b.snapped = false → b.tovisit = [] ∧ b.pending = none
  pending_notin : ∀ l, b.pending = some l → l ∉ b.tovisit
  pending_cur : ∀ l, b.pending = some l → b.cur.isSome = true

structure WF (st : State) : Prop where
  act_lt : ∀ s k, st.active s = some k → k < st.nsubs
  act_subj : ∀ s k, st.active s = some k →
    (st.sub k).subj = s ∧ (st.sub k).closed = false ∧ (st.sub k).listeners ≠ []
  open_act : ∀ k, k < st.nsubs → (st.sub k).closed = false → st.active (st.sub k).subj = some k
  subok : ∀ k, k < st.nsubs → SubOK (st.sub k)
  disp_le : st.disp ≤ st.log.length
  sending_lt : ∀ k, k ∈ st.sending → k < st.nsubs
  sending_pos : st.sending ≠ [] → 0 < st.disp
  sending_nodup : st.sending.Nodup
  sending_subj : ∀ k, k ∈ st.sending → st.subjOf (st.disp - 1) = some (st.sub k).subj

theorem WF.init : WF State.init := by
  constructor <;> simp [State.init]

/-- WF only looks at these components. -/
theorem WF.of_eq {st st' : State} (h : WF st) (e1 : st'.nsubs = st.nsubs) (e2 : st'.sub = st.sub)
    (e3 : st'.active = st.active) (e4 : st'.log = st.log) (e5 : st'.disp = st.disp)
    (e6 : st'.sending = st.sending) : WF st' := by
  obtain ⟨h1, h2, h3, h4, h5, h6, h7, h8, h9⟩ := h
  constructor
  all_goals simp only [State.subjOf, e1, e2, e3, e4, e5, e6]
  all_goals assumption

/-- A change local to subscriber `k` that keeps its subject and `closed`, and does not empty a listener set. -/
theorem WF.upd {st : State} (h : WF st) {k : Nat} {f : Sub → Sub} (hk : k < st.nsubs)
    (hsubj : (f (st.sub k)).subj = (st.sub k).subj) (hclosed : (f (st.sub k)).closed = (st.sub k).closed)
    (hls : (st.sub k).listeners ≠ [] → (f (st.sub k)).listeners ≠ [])
    (hok : SubOK (f (st.sub k))) : WF (st.upd k f) := by
  obtain ⟨h1, h2, h3, h4, h5, h6, h7, h8, h9⟩ := h
  constructor
  · intro s k' hk'; exact h1 s k' hk'
  · intro s k' hk'
    have := h2 s k' hk'
    simp only [upd_active] at hk'
    simp only [upd_sub]
    split
    · rename_i e; subst e
      exact ⟨hsubj ▸ this.1, hclosed ▸ this.2.1, hls this.2.2⟩
    · exact this
  · intro k' hk' hc
    simp only [upd_sub, upd_nsubs, upd_active] at *
    split at hc
    · rename_i e; subst e
      rw [if_pos rfl, hsubj]; exact h3 _ hk' (hclosed ▸ hc)
    · rename_i e; rw [if_neg e]; exact h3 _ hk' hc
  · intro k' hk'
    simp only [upd_sub]
    split
    · rename_i e; subst e; exact hok
    · exact h4 k' hk'
  · exact h5
  · exact h6
  · exact h7
  · exact h8
  · intro k' hk'
    have := h9 k' hk'
    simp only [upd_sub, upd_subjOf, upd_disp]
    split
    · rename_i e; subst e; rw [hsubj]; exact this
    · exact this


theorem subjOf_append_lt (st : State) (x : PubEv) (i : Nat) (h : i < st.log.length) :
    (({ st with log := st.log ++ [x], clk := st.clk + 1 } : State).subjOf i) = st.subjOf i := by
  simp [State.subjOf, List.getElem?_append_left h]

theorem WF.prim {st st' : State} (h : WF st) (p : Prim st st') : WF st' := by
  cases p with
  | publish s =>
    obtain ⟨h1, h2, h3, h4, h5, h6, h7, h8, h9⟩ := h
    constructor
    · exact h1
    · exact h2
    · exact h3
    · exact h4
    · simp [publish]; omega
    · exact h6
    · exact h7
    · exact h8
    · intro k hk
      have hpos := h7 (List.ne_nil_of_mem hk)
      show State.subjOf _ (st.disp - 1) = _
      have : st.disp - 1 < st.log.length := by omega
      simp only [publish]
      rw [subjOf_append_lt st _ _ this]
      exact h9 k hk
  | dispatch p hs hp =>
    obtain ⟨h1, h2, h3, h4, h5, h6, h7, h8, h9⟩ := h
    have hlt : st.disp < st.log.length := by
      rcases Nat.lt_or_ge st.disp st.log.length with h | h
      · exact h
      · rw [List.getElem?_eq_none h] at hp; cases hp
    constructor
    · exact h1
    · exact h2
    · exact h3
    · exact h4
    · exact hlt
    · intro k hk
      simp only [List.mem_filter, List.mem_range] at hk
      exact hk.1
    · intro _; simp
    · exact List.Nodup.sublist List.filter_sublist List.nodup_range
    · intro k hk
      simp only [List.mem_filter, List.mem_range, Bool.and_eq_true, beq_iff_eq] at hk
      simp [State.subjOf, hp, hk.2.2]
  | sendOk k rest hs hlt =>
    have hk : k < st.nsubs := h.sending_lt k (by simp [hs])
    have h' : WF ({ st with sending := rest } : State) := by
      obtain ⟨h1, h2, h3, h4, h5, h6, h7, h8, h9⟩ := h
      constructor
      · exact h1
      · exact h2
      · exact h3
      · exact h4
      · exact h5
      · intro k' hk'; exact h6 k' (by simp [hs, hk'])
      · intro _; exact h7 (by simp [hs])
      · rw [hs] at h8; exact (List.nodup_cons.mp h8).2
      · intro k' hk'; exact h9 k' (by simp [hs, hk'])
    refine h'.upd hk rfl rfl (fun x => x) ?_
    have := h.subok k hk
    exact ⟨this.1, this.2, this.3, this.4, this.5, this.6, this.7, this.8⟩
  | sendDrop k rest hs =>
    obtain ⟨h1, h2, h3, h4, h5, h6, h7, h8, h9⟩ := h
    constructor
    · exact h1
    · exact h2
    · exact h3
    · exact h4
    · exact h5
    · intro k' hk'; exact h6 k' (by simp [hs, hk'])
    · intro _; exact h7 (by simp [hs])
    · rw [hs] at h8; exact (List.nodup_cons.mp h8).2
    · intro k' hk'; exact h9 k' (by simp [hs, hk'])
  | take k i rest hk ha hc hch hwt =>
    have := h.subok k hk
    refine h.upd hk rfl rfl (fun x => x) ⟨this.1, this.2, this.3, ?_, ?_, ?_, ?_, ?_⟩ <;> simp
  | snap k i hk hc hs =>
    have := h.subok k hk
    refine h.upd hk rfl rfl (fun x => x) ⟨this.1, this.2, this.3, this.3, ?_, ?_, ?_, ?_⟩
    · intro _; simp [hc]
    · simp
    · intro l hl; simp [(this.unsnapped hs).2] at hl
    · intro l hl; simp [hc]
  | pick k l hk hs hp hl =>
    have := h.subok k hk
    refine h.upd hk rfl rfl (fun x => x) ⟨this.1, this.2, this.3, ?_, ?_, ?_, ?_, ?_⟩
    · exact this.tv_nodup.erase l
    · intro _; exact this.snapped_cur hs
    · intro hf; simp [hs] at hf
    · intro l' hl'
      simp only at hl'
      split at hl'
      · cases hl'; exact List.Nodup.not_mem_erase this.tv_nodup
      · cases hl'
    · intro _ _; exact this.snapped_cur hs
  | call k l i hk hp hc =>
    have := h.subok k hk
    have h' : WF ({ st with
        recvs := st.recvs ++ [{ l := l, i := i, t := st.clk, k := k }]
        clk := st.clk + 1
        stale := if l ∈ (st.sub k).listeners then st.stale else st.stale + 1 } : State) :=
      h.of_eq rfl rfl rfl rfl rfl rfl
    refine h'.upd hk rfl rfl (fun x => x) ⟨this.1, this.2, this.3, this.4, this.5, ?_, ?_, ?_⟩
    · intro hf; exact ⟨(this.unsnapped hf).1, rfl⟩
    · intro l' hl'; cases hl'
    · intro l' hl'; cases hl'
  | finish k i hk hc hs ht hp =>
    have := h.subok k hk
    refine h.upd hk rfl rfl (fun x => x) ⟨this.1, this.2, this.3, this.4, ?_, ?_, ?_, ?_⟩
    · intro hf; cases hf
    · intro _; exact ⟨ht, hp⟩
    · exact this.pending_notin
    · intro l' hl'; simp only at hl'; rw [hp] at hl'; cases hl'
  | exit k hk ha hcl hc =>
    have := h.subok k hk
    refine h.upd hk rfl rfl (fun x => x) ⟨this.1, ?_, this.3, this.4, this.5, this.6, this.7, this.8⟩
    intro _; exact hcl
  | regOld l s k ha =>
    have hk := h.act_lt s k ha
    have hact := h.act_subj s k ha
    have := h.subok k hk
    have h' : WF (regOld st l k) := by
      unfold regOld
      by_cases hl : l ∈ (st.sub k).listeners
      · refine h.upd hk ?_ ?_ ?_ ?_ <;> simp [hl]
        exact this
      · refine h.upd hk ?_ ?_ ?_ ?_ <;> simp [hl]
        refine ⟨?_, this.2, ?_, this.4, this.5, this.6, this.7, this.8⟩
        · intro hc; rw [hact.2.1] at hc; cases hc
        · exact List.nodup_append.mpr ⟨this.ls_nodup, by simp, by intro a ha b hb; simp at hb; subst hb; intro e; subst e; exact hl ha⟩
    exact h'.of_eq rfl rfl rfl rfl rfl rfl
  | regNew l s ha =>
    refine WF.of_eq (st := regNew st l s) ?_ rfl rfl rfl rfl rfl rfl
    obtain ⟨h1, h2, h3, h4, h5, h6, h7, h8, h9⟩ := h
    have fresh : ∀ s' k', st.active s' = some k' → k' ≠ st.nsubs := fun s' k' e => Nat.ne_of_lt (h1 s' k' e)
    constructor
    · intro s' k' hk'
      simp only [regNew] at hk' ⊢
      split at hk'
      · cases hk'; omega
      · have := h1 s' k' hk'; omega
    · intro s' k' hk'
      simp only [regNew] at hk' ⊢
      split at hk'
      · rename_i e; cases hk'; simp [e]
      · rw [if_neg (fresh s' k' hk')]; exact h2 s' k' hk'
    · intro k' hk' hc
      simp only [regNew] at hk' hc ⊢
      by_cases e : k' = st.nsubs
      · simp [e]
      · rw [if_neg e] at hc ⊢
        have hlt : k' < st.nsubs := by omega
        have := h3 k' hlt hc
        split
        · rename_i e2; rw [e2, ha] at this; cases this
        · exact this
    · intro k' hk'
      simp only [regNew] at hk' ⊢
      by_cases e : k' = st.nsubs
      · simp only [e, if_true]
        constructor <;> simp
      · rw [if_neg e]; exact h4 k' (by omega)
    · exact h5
    · intro k' hk'; have := h6 k' hk'; simp only [regNew]; omega
    · exact h7
    · exact h8
    · intro k' hk'
      have hlt := h6 k' hk'
      have := h9 k' hk'
      simp only [regNew, State.subjOf] at this ⊢
      rw [if_neg (Nat.ne_of_lt hlt)]; exact this
  | unregNone l s ha => exact h.of_eq rfl rfl rfl rfl rfl rfl
  | unregLast l s k ha he =>
    refine WF.of_eq (st := unregLast st s k) ?_ rfl rfl rfl rfl rfl rfl
    have hk := h.act_lt s k ha
    have hact := h.act_subj s k ha
    have hsk := h.subok k hk
    obtain ⟨h1, h2, h3, h4, h5, h6, h7, h8, h9⟩ := h
    constructor
    · intro s' k' hk'
      simp only [unregLast, upd_nsubs] at hk' ⊢
      split at hk'
      · cases hk'
      · exact h1 s' k' hk'
    · intro s' k' hk'
      simp only [unregLast, upd_sub] at hk' ⊢
      split at hk'
      · cases hk'
      · rename_i hne
        have hk2 := h2 s' k' hk'
        have : k' ≠ k := by
          intro e; subst e; exact hne (hk2.1.symm.trans hact.1)
        rw [if_neg this]; exact hk2
    · intro k' hk' hc
      simp only [unregLast, upd_sub, upd_nsubs] at hk' hc ⊢
      by_cases e : k' = k
      · simp [e] at hc
      · rw [if_neg e] at hc ⊢
        have := h3 k' hk' hc
        split
        · rename_i e2
          rw [e2, ha] at this
          exact absurd (Option.some.inj this).symm e
        · exact this
    · intro k' hk'
      simp only [unregLast, upd_sub, upd_nsubs] at hk' ⊢
      by_cases e : k' = k
      · simp only [e, if_true]
        exact ⟨fun _ => rfl, fun _ => rfl, by simp, hsk.4, hsk.5, hsk.6, hsk.7, hsk.8⟩
      · rw [if_neg e]; exact h4 k' hk'
    · exact h5
    · exact h6
    · exact h7
    · exact h8
    · intro k' hk'
      have := h9 k' hk'
      simp only [unregLast, upd_sub, State.subjOf, upd_log, upd_disp] at this ⊢
      split
      · rename_i e; subst e; exact this
      · exact this
  | unregSome l s k ha he =>
    refine WF.of_eq (st := unregSome st l k) ?_ rfl rfl rfl rfl rfl rfl
    have hk := h.act_lt s k ha
    have hsk := h.subok k hk
    have hact := h.act_subj s k ha
    refine h.upd hk rfl rfl (fun _ => he) ⟨?_, hsk.2, hsk.ls_nodup.erase l, hsk.4, hsk.5, hsk.6, hsk.7, hsk.8⟩
    intro hc; rw [hact.2.1] at hc; cases hc


end SigModel.Bus

namespace SigModel.Bus
open SigModel.Generated.Bus

/-! ### ghost times -/

structure TM (st : State) : Prop where
  log_lt : ∀ p, p ∈ st.log → p.t < st.clk
  log_sorted : st.log.Pairwise (fun a b => a.t < b.t)
  regs_lt : ∀ e, e ∈ st.regs → e.t < st.clk
  unregs_lt : ∀ e, e ∈ st.unregs → e.t < st.clk
  recvs_lt : ∀ r, r ∈ st.recvs → r.t < st.clk
  recvs_sorted : st.recvs.Pairwise (fun a b => a.t < b.t)

theorem TM.init : TM State.init := by
  constructor <;> simp [State.init]

theorem TM.of_eq {st st' : State} (h : TM st) (e1 : st'.clk = st.clk) (e2 : st'.log = st.log)
    (e3 : st'.regs = st.regs) (e4 : st'.unregs = st.unregs) (e5 : st'.recvs = st.recvs) : TM st' := by
  obtain ⟨h1, h2, h3, h4, h5, h6⟩ := h
  constructor
  all_goals simp only [e1, e2, e3, e4, e5]
  all_goals assumption

theorem TM.tick {st st' : State} (h : TM st) (e1 : st'.clk = st.clk + 1) (e2 : st'.log = st.log)
    (e3 : st'.regs = st.regs) (e4 : st'.unregs = st.unregs) (e5 : st'.recvs = st.recvs) : TM st' := by
  obtain ⟨h1, h2, h3, h4, h5, h6⟩ := h
  constructor
  all_goals simp only [e1, e2, e3, e4, e5]
  · intro p hp; have := h1 p hp; omega
  · exact h2
  · intro p hp; have := h3 p hp; omega
  · intro p hp; have := h4 p hp; omega
  · intro p hp; have := h5 p hp; omega
  · exact h6

theorem TM.stampReg {st : State} (h : TM st) (l s : Nat) : TM (stampReg st l s) := by
  obtain ⟨h1, h2, h3, h4, h5, h6⟩ := h
  constructor
  · intro p hp; have := h1 p hp; simp only [Bus.stampReg]; omega
  · exact h2
  · intro e he
    simp only [Bus.stampReg, List.mem_append, List.mem_singleton] at he ⊢
    rcases he with he | rfl
    · have := h3 e he; omega
    · simp
  · intro e he; have := h4 e he; simp only [Bus.stampReg]; omega
  · intro e he; have := h5 e he; simp only [Bus.stampReg]; omega
  · exact h6

theorem TM.stampUnreg {st : State} (h : TM st) (l s : Nat) : TM (stampUnreg st l s) := by
  obtain ⟨h1, h2, h3, h4, h5, h6⟩ := h
  constructor
  · intro p hp; have := h1 p hp; simp only [Bus.stampUnreg]; omega
  · exact h2
  · intro e he; have := h3 e he; simp only [Bus.stampUnreg]; omega
  · intro e he
    simp only [Bus.stampUnreg, List.mem_append, List.mem_singleton] at he ⊢
    rcases he with he | rfl
    · have := h4 e he; omega
    · simp
  · intro e he; have := h5 e he; simp only [Bus.stampUnreg]; omega
  · exact h6

theorem TM.prim {st st' : State} (h : TM st) (p : Prim st st') : TM st' := by
  cases p with
  | publish s =>
    have h' := h
    obtain ⟨h1, h2, h3, h4, h5, h6⟩ := h
    constructor
    · intro p hp
      simp only [publish, List.mem_append, List.mem_singleton] at hp ⊢
      rcases hp with hp | rfl
      · have := h1 p hp; omega
      · simp
    · simp only [publish]
      rw [List.pairwise_append]
      refine ⟨h2, by simp, ?_⟩
      intro a ha b hb
      simp only [List.mem_singleton] at hb
      subst hb
      exact h1 a ha
    · intro e he; have := h3 e he; simp only [publish]; omega
    · intro e he; have := h4 e he; simp only [publish]; omega
    · intro e he; have := h5 e he; simp only [publish]; omega
    · exact h6
  | dispatch p hs hp => exact h.of_eq rfl rfl rfl rfl rfl
  | sendOk k rest hs hlt => exact h.of_eq rfl rfl rfl rfl rfl
  | sendDrop k rest hs => exact h.of_eq rfl rfl rfl rfl rfl
  | take k i rest hk ha hc hch hwt => exact h.of_eq rfl rfl rfl rfl rfl
  | snap k i hk hc hs => exact h.of_eq rfl rfl rfl rfl rfl
  | pick k l hk hs hp hl => exact h.of_eq rfl rfl rfl rfl rfl
  | call k l i hk hp hc =>
    obtain ⟨h1, h2, h3, h4, h5, h6⟩ := h
    constructor
    · intro p hp; have := h1 p hp; simp only [upd_clk]; omega
    · exact h2
    · intro e he; have := h3 e he; simp only [upd_clk]; omega
    · intro e he; have := h4 e he; simp only [upd_clk]; omega
    · intro r hr
      simp only [upd_recvs, upd_clk, List.mem_append, List.mem_singleton] at hr ⊢
      rcases hr with hr | rfl
      · have := h5 r hr; omega
      · simp
    · simp only [upd_recvs]
      rw [List.pairwise_append]
      refine ⟨h6, by simp, ?_⟩
      intro a ha b hb
      simp only [List.mem_singleton] at hb
      subst hb
      exact h5 a ha
  | finish k i hk hc hs ht hp => exact h.of_eq rfl rfl rfl rfl rfl
  | exit k hk ha hcl hc => exact h.of_eq rfl rfl rfl rfl rfl
  | regOld l s k ha => exact TM.stampReg (st := regOld st l k) (h.of_eq rfl rfl rfl rfl rfl) l s
  | regNew l s ha => exact TM.stampReg (st := regNew st l s) (h.of_eq rfl rfl rfl rfl rfl) l s
  | unregNone l s ha => exact TM.stampUnreg h l s
  | unregLast l s k ha he => exact TM.stampUnreg (st := unregLast st s k) (h.of_eq rfl rfl rfl rfl rfl) l s
  | unregSome l s k ha he => exact TM.stampUnreg (st := unregSome st l k) (h.of_eq rfl rfl rfl rfl rfl) l s

end SigModel.Bus

namespace SigModel.Bus
open SigModel.Generated.Bus

/-! ### message indices -/

/-- What holds for the message pipeline of one subscriber; `snd`: the dispatcher still has to serve it
with message `disp - 1`. -/
structure SubIX (log : List PubEv) (disp : Nat) (snd : Prop) (b : Sub) : Prop where
  chan_sorted : b.chan.Pairwise (· < ·)
  chan_bd : ∀ x, x ∈ b.chan → b.born ≤ x ∧ x < disp ∧ (snd → x + 1 < disp) ∧ (log[x]?).map (·.s) = some b.subj
  cur_bd : ∀ i, b.cur = some i → b.born ≤ i ∧ i < disp ∧ (snd → i + 1 < disp) ∧
    (log[i]?).map (·.s) = some b.subj ∧ ∀ x, x ∈ b.chan → i < x
  born_le : b.born ≤ disp
  born_snd : snd → b.born + 1 ≤ disp
  closedAt_le : b.closed = true → b.closedAt ≤ disp
  closed_pending : b.closed = true → ∀ l i, b.pending = some l → b.cur = some i → i < b.closedAt

/-- A delivered message relative to the subscriber it came through. -/
structure RecvSub (r : RecvEv) (b : Sub) : Prop where
  born_le : b.born ≤ r.i
  lt_chan : ∀ x, x ∈ b.chan → r.i < x
  le_cur : ∀ c, b.cur = some c →
    r.i ≤ c ∧ (r.i = c → b.snapped = true ∧ r.l ∉ b.tovisit ∧ b.pending ≠ some r.l)
  closed : b.closed = true → r.i < b.closedAt

structure IX (st : State) : Prop where
  subs : ∀ k, k < st.nsubs → SubIX st.log st.disp (k ∈ st.sending) (st.sub k)
  recvs : ∀ r, r ∈ st.recvs → r.k < st.nsubs ∧ r.i < st.disp ∧ (r.k ∈ st.sending → r.i + 1 < st.disp) ∧
    st.subjOf r.i = some (st.sub r.k).subj ∧ RecvSub r (st.sub r.k)
  born_order : ∀ k1 k2, k1 < k2 → k2 < st.nsubs → (st.sub k1).subj = (st.sub k2).subj →
    (st.sub k1).closed = true ∧ (st.sub k1).closedAt ≤ (st.sub k2).born

theorem IX.init : IX State.init := by
  constructor <;> simp [State.init]

/-- A change local to subscriber `k` (subject, `born`, `closed`, `closedAt` kept). -/
theorem IX.upd {st : State} (h : IX st) {k : Nat} {f : Sub → Sub}
    (hsubj : (f (st.sub k)).subj = (st.sub k).subj) (hborn : (f (st.sub k)).born = (st.sub k).born)
    (hclosed : (f (st.sub k)).closed = (st.sub k).closed)
    (hclosedAt : (f (st.sub k)).closedAt = (st.sub k).closedAt)
    (hsub : k < st.nsubs → SubIX st.log st.disp (k ∈ st.sending) (f (st.sub k)))
    (hrecv : ∀ r, r ∈ st.recvs → r.k = k → RecvSub r (st.sub k) → RecvSub r (f (st.sub k))) :
    IX (st.upd k f) := by
  obtain ⟨h1, h2, h3⟩ := h
  constructor
  · intro k' hk'
    simp only [upd_sub, upd_log, upd_disp, upd_sending]
    split
    · rename_i e; subst e; exact hsub hk'
    · exact h1 k' hk'
  · intro r hr
    obtain ⟨a, b, c, d, e⟩ := h2 r hr
    simp only [upd_sub, upd_nsubs, upd_disp, upd_sending, upd_subjOf]
    refine ⟨a, b, c, ?_, ?_⟩
    · split
      · rename_i e'; rw [e'] at d ⊢; rw [hsubj]; exact d
      · exact d
    · split
      · rename_i e'; rw [e'] at e ⊢; exact hrecv r hr e' e
      · exact e
  · intro k1 k2 h12 hk2 hs
    simp only [upd_sub, upd_nsubs] at *
    have := h3 k1 k2 h12 hk2
    by_cases e1 : k1 = k <;> by_cases e2 : k2 = k
    · omega
    · subst e1
      simp only [if_true, if_neg e2, hsubj, hclosed, hclosedAt] at hs ⊢
      exact this hs
    · subst e2
      simp only [if_true, if_neg e1, hsubj, hborn] at hs ⊢
      exact this hs
    · simp only [if_neg e1, if_neg e2] at hs ⊢
      exact this hs

theorem IX.of_eq {st st' : State} (h : IX st) (e1 : st'.nsubs = st.nsubs) (e2 : st'.sub = st.sub)
    (e4 : st'.log = st.log) (e5 : st'.disp = st.disp) (e6 : st'.sending = st.sending)
    (e7 : st'.recvs = st.recvs) : IX st' := by
  obtain ⟨h1, h2, h3⟩ := h
  constructor
  all_goals simp only [State.subjOf, e1, e2, e4, e5, e6, e7]
  all_goals assumption


theorem SubIX.log_append {log : List PubEv} {disp : Nat} {snd : Prop} {b : Sub} (h : SubIX log disp snd b)
    (hd : disp ≤ log.length) (p : PubEv) : SubIX (log ++ [p]) disp snd b := by
  obtain ⟨h1, h2, h3, h4, h5, h6, h7⟩ := h
  refine ⟨h1, ?_, ?_, h4, h5, h6, h7⟩
  · intro x hx
    obtain ⟨a, b', c, d⟩ := h2 x hx
    refine ⟨a, b', c, ?_⟩
    rw [List.getElem?_append_left (by omega)]; exact d
  · intro i hi
    obtain ⟨a, b', c, d, e⟩ := h3 i hi
    refine ⟨a, b', c, ?_, e⟩
    rw [List.getElem?_append_left (by omega)]; exact d

theorem SubIX.disp_succ {log : List PubEv} {disp : Nat} {snd snd' : Prop} {b : Sub} (h : SubIX log disp snd b) :
    SubIX log (disp + 1) snd' b := by
  obtain ⟨h1, h2, h3, h4, h5, h6, h7⟩ := h
  refine ⟨h1, ?_, ?_, by omega, by intro _; omega, ?_, h7⟩
  · intro x hx
    obtain ⟨a, b', c, d⟩ := h2 x hx
    exact ⟨a, by omega, by intro _; omega, d⟩
  · intro i hi
    obtain ⟨a, b', c, d, e⟩ := h3 i hi
    exact ⟨a, by omega, by intro _; omega, d, e⟩
  · intro hc; have := h6 hc; omega

theorem SubIX.mono_snd {log : List PubEv} {disp : Nat} {snd snd' : Prop} {b : Sub} (h : SubIX log disp snd b)
    (hs : snd' → snd) : SubIX log disp snd' b := by
  obtain ⟨h1, h2, h3, h4, h5, h6, h7⟩ := h
  refine ⟨h1, ?_, ?_, h4, fun x => h5 (hs x), h6, h7⟩
  · intro x hx
    obtain ⟨a, b', c, d⟩ := h2 x hx
    exact ⟨a, b', fun y => c (hs y), d⟩
  · intro i hi
    obtain ⟨a, b', c, d, e⟩ := h3 i hi
    exact ⟨a, b', fun y => c (hs y), d, e⟩

theorem IX.prim {st st' : State} (w : WF st) (h : IX st) (p : Prim st st') : IX st' := by
  cases p with
  | publish s =>
    obtain ⟨h1, h2, h3⟩ := h
    refine ⟨fun k hk => (h1 k hk).log_append w.disp_le _, ?_, h3⟩
    intro r hr
    obtain ⟨a, b, c, d, e⟩ := h2 r hr
    refine ⟨a, b, c, ?_, e⟩
    have : r.i < st.log.length := by have := w.disp_le; omega
    simp only [publish]
    rw [subjOf_append_lt st _ _ this]; exact d
  | dispatch p hs hp =>
    obtain ⟨h1, h2, h3⟩ := h
    refine ⟨fun k hk => (h1 k hk).disp_succ, ?_, h3⟩
    intro r hr
    obtain ⟨a, b, c, d, e⟩ := h2 r hr
    exact ⟨a, by simp only; omega, by intro _; simp only; omega, d, e⟩
  | sendDrop k rest hs =>
    obtain ⟨h1, h2, h3⟩ := h
    refine ⟨fun k' hk' => (h1 k' hk').mono_snd (by intro hm; simp [hs, hm]), ?_, h3⟩
    intro r hr
    obtain ⟨a, b, c, d, e⟩ := h2 r hr
    exact ⟨a, b, fun hm => c (by simp [hs, hm]), d, e⟩
  | sendOk k rest hs hlt =>
    have hkmem : k ∈ st.sending := by simp [hs]
    have hk : k < st.nsubs := w.sending_lt k hkmem
    have hnd : k ∉ rest := by have := w.sending_nodup; rw [hs] at this; exact (List.nodup_cons.mp this).1
    have hpos : 0 < st.disp := w.sending_pos (by simp [hs])
    have hsubj := w.sending_subj k hkmem
    have h' : IX ({ st with sending := rest } : State) := by
      obtain ⟨h1, h2, h3⟩ := h
      refine ⟨fun k' hk' => (h1 k' hk').mono_snd (by intro hm; simp [hs, hm]), ?_, h3⟩
      intro r hr
      obtain ⟨a, b, c, d, e⟩ := h2 r hr
      exact ⟨a, b, fun hm => c (by simp [hs, hm]), d, e⟩
    have hsk := h.subs k hk
    refine h'.upd rfl rfl rfl rfl ?_ ?_
    · intro _
      obtain ⟨h1, h2, h3, h4, h5, h6, h7⟩ := hsk
      dsimp only
      refine ⟨?_, ?_, ?_, h4, fun hm => absurd hm hnd, h6, h7⟩
      · simp only
        rw [List.pairwise_append]
        refine ⟨h1, by simp, ?_⟩
        intro a ha b hb
        simp only [List.mem_singleton] at hb
        have := (h2 a ha).2.2.1 hkmem
        omega
      · intro x hx
        simp only [List.mem_append, List.mem_singleton] at hx
        rcases hx with hx | rfl
        · obtain ⟨a, b, c, d⟩ := h2 x hx
          exact ⟨a, b, fun hm => absurd hm hnd, d⟩
        · refine ⟨?_, (show st.disp - 1 < st.disp by omega), fun hm => absurd hm hnd, ?_⟩
          · have := h5 hkmem; show (st.sub k).born ≤ st.disp - 1; omega
          · simpa [State.subjOf] using hsubj
      · intro i hi
        obtain ⟨a, b, c, d, e⟩ := h3 i hi
        refine ⟨a, b, fun hm => absurd hm hnd, d, ?_⟩
        intro x hx
        simp only [List.mem_append, List.mem_singleton] at hx
        rcases hx with hx | rfl
        · exact e x hx
        · have := c hkmem; omega
    · intro r hr hrk hrs
      obtain ⟨a, b, c, d⟩ := hrs
      refine ⟨a, ?_, c, d⟩
      intro x hx
      dsimp only at hx
      simp only [List.mem_append, List.mem_singleton] at hx
      rcases hx with hx | rfl
      · exact b x hx
      · have := (h.recvs r hr).2.2.1 (hrk ▸ hkmem); omega
  | take k i rest hk ha hc hch hwt =>
    have hsk := h.subs k hk
    refine h.upd rfl rfl rfl rfl ?_ ?_
    · intro _
      obtain ⟨h1, h2, h3, h4, h5, h6, h7⟩ := hsk
      rw [hch] at h1 h2
      have hi := h2 i (by simp)
      refine ⟨(List.pairwise_cons.mp h1).2, fun x hx => h2 x (by simp [hx]), ?_, h4, h5, h6, ?_⟩
      · intro i' hi'
        simp only [Option.some.injEq] at hi'
        subst hi'
        exact ⟨hi.1, hi.2.1, hi.2.2.1, hi.2.2.2, fun x hx => (List.pairwise_cons.mp h1).1 x hx⟩
      · intro _ l i' hl; cases hl
    · intro r hr hrk hrs
      obtain ⟨a, b, c, d⟩ := hrs
      rw [hch] at b
      refine ⟨a, fun x hx => b x (by simp [hx]), ?_, d⟩
      intro c' hc'
      simp only [Option.some.injEq] at hc'
      subst hc'
      have := b i (by simp)
      exact ⟨by omega, by intro e; omega⟩
  | snap k i hk hc hs =>
    have hsk := h.subs k hk
    refine h.upd rfl rfl rfl rfl ?_ ?_
    · intro _
      obtain ⟨h1, h2, h3, h4, h5, h6, h7⟩ := hsk
      exact ⟨h1, h2, h3, h4, h5, h6, h7⟩
    · intro r hr hrk hrs
      obtain ⟨a, b, c, d⟩ := hrs
      refine ⟨a, b, ?_, d⟩
      intro c' hc'
      have := c c' hc'
      refine ⟨this.1, ?_⟩
      intro e
      have := (this.2 e).1
      rw [hs] at this; cases this
  | pick k l hk hs hp hl =>
    have hsk := h.subs k hk
    have hok := w.subok k hk
    refine h.upd rfl rfl rfl rfl ?_ ?_
    · intro _
      obtain ⟨h1, h2, h3, h4, h5, h6, h7⟩ := hsk
      refine ⟨h1, h2, h3, h4, h5, h6, ?_⟩
      intro hcl l' i' hl'
      simp only [hok.closed_ls hcl, List.not_mem_nil, if_false] at hl'
      cases hl'
    · intro r hr hrk hrs
      obtain ⟨a, b, c, d⟩ := hrs
      refine ⟨a, b, ?_, d⟩
      intro c' hc'
      have := c c' hc'
      refine ⟨this.1, ?_⟩
      intro e
      obtain ⟨x, y, z⟩ := this.2 e
      refine ⟨x, fun hm => y (List.mem_of_mem_erase hm), ?_⟩
      simp only
      split
      · intro e'; cases e'; exact y hl
      · intro e'; cases e'
  | call k l i hk hp hc =>
    have hsk := h.subs k hk
    have hok := w.subok k hk
    have hsn : (st.sub k).snapped = true := by
      cases hsn : (st.sub k).snapped with
      | true => rfl
      | false => have := (hok.unsnapped hsn).2; rw [hp] at this; cases this
    -- first clear `pending`, then append the record
    have h1 : IX (st.upd k fun b => { b with pending := none }) := by
      refine h.upd rfl rfl rfl rfl ?_ ?_
      · intro _
        obtain ⟨h1, h2, h3, h4, h5, h6, h7⟩ := hsk
        exact ⟨h1, h2, h3, h4, h5, h6, fun _ l' i' hl' => by cases hl'⟩
      · intro r hr hrk hrs
        obtain ⟨a, b, c, d⟩ := hrs
        refine ⟨a, b, ?_, d⟩
        intro c' hc'
        have := c c' hc'
        exact ⟨this.1, fun e => ⟨(this.2 e).1, (this.2 e).2.1, by simp⟩⟩
    obtain ⟨g1, g2, g3⟩ := h1
    refine ⟨g1, ?_, g3⟩
    intro r hr
    simp only [upd_recvs, List.mem_append, List.mem_singleton] at hr
    rcases hr with hr | rfl
    · exact g2 r hr
    · obtain ⟨a, b, c, d, e⟩ := hsk.cur_bd i hc
      refine ⟨hk, b, c, ?_, ?_⟩
      · simpa [State.subjOf] using d
      · simp only [upd_sub, if_true]
        refine ⟨a, e, ?_, ?_⟩
        · intro c' hc'
          simp only at hc'
          rw [hc] at hc'
          cases hc'
          exact ⟨Nat.le_refl _, fun _ => ⟨hsn, hok.pending_notin l hp, by simp⟩⟩
        · intro hcl; exact hsk.closed_pending hcl l i hp hc
  | finish k i hk hc hs ht hp =>
    have hsk := h.subs k hk
    refine h.upd rfl rfl rfl rfl ?_ ?_
    · intro _
      obtain ⟨h1, h2, h3, h4, h5, h6, h7⟩ := hsk
      refine ⟨h1, h2, ?_, h4, h5, h6, ?_⟩
      · intro i' hi'; cases hi'
      · intro _ l' i' _ hi'; cases hi'
    · intro r hr hrk hrs
      obtain ⟨a, b, c, d⟩ := hrs
      exact ⟨a, b, fun c' hc' => (by cases hc'), d⟩
  | exit k hk ha hcl hc =>
    have hsk := h.subs k hk
    refine h.upd rfl rfl rfl rfl ?_ ?_
    · intro _
      obtain ⟨h1, h2, h3, h4, h5, h6, h7⟩ := hsk
      exact ⟨h1, h2, h3, h4, h5, h6, h7⟩
    · intro r hr hrk hrs
      obtain ⟨a, b, c, d⟩ := hrs
      exact ⟨a, b, c, d⟩
  | regOld l s k ha =>
    have hk := w.act_lt s k ha
    have hsk := h.subs k hk
    have h' : IX (regOld st l k) := by
      unfold regOld
      by_cases hl : l ∈ (st.sub k).listeners
      · refine h.upd ?_ ?_ ?_ ?_ ?_ ?_ <;> simp only [hl, if_true]
        · intro _; exact hsk
        · intro r _ _ hrs; exact hrs
      · refine h.upd ?_ ?_ ?_ ?_ ?_ ?_ <;> simp only [hl, if_false]
        · intro _
          obtain ⟨h1, h2, h3, h4, h5, h6, h7⟩ := hsk
          exact ⟨h1, h2, h3, h4, h5, h6, h7⟩
        · intro r _ _ hrs
          obtain ⟨a, b, c, d⟩ := hrs
          exact ⟨a, b, c, d⟩
    exact h'.of_eq rfl rfl rfl rfl rfl rfl
  | regNew l s ha =>
    refine IX.of_eq (st := regNew st l s) ?_ rfl rfl rfl rfl rfl rfl
    obtain ⟨h1, h2, h3⟩ := h
    constructor
    · intro k' hk'
      simp only [regNew] at hk' ⊢
      by_cases e : k' = st.nsubs
      · simp only [e, if_true]
        have : st.nsubs ∉ st.sending := fun hm => by have := w.sending_lt _ hm; omega
        refine ⟨by simp, by simp, by simp, by simp, fun hm => absurd hm this, by simp, by simp⟩
      · rw [if_neg e]; exact h1 k' (by omega)
    · intro r hr
      obtain ⟨a, b, c, d, e⟩ := h2 r hr
      simp only [regNew] at hr ⊢
      have : r.k ≠ st.nsubs := by omega
      rw [if_neg this]
      exact ⟨by omega, b, c, d, e⟩
    · intro k1 k2 h12 hk2 hs
      simp only [regNew] at hk2 hs ⊢
      have e1 : k1 ≠ st.nsubs := by omega
      rw [if_neg e1] at hs ⊢
      by_cases e2 : k2 = st.nsubs
      · simp only [e2, if_true] at hs ⊢
        have hk1 : k1 < st.nsubs := by omega
        have hcl : (st.sub k1).closed = true := by
          cases hcl : (st.sub k1).closed with
          | true => rfl
          | false => have := w.open_act k1 hk1 hcl; rw [hs, ha] at this; cases this
        exact ⟨hcl, (h1 k1 hk1).closedAt_le hcl⟩
      · rw [if_neg e2] at hs ⊢
        exact h3 k1 k2 h12 (by omega) hs
  | unregNone l s ha => exact h.of_eq rfl rfl rfl rfl rfl rfl
  | unregLast l s k ha he =>
    refine IX.of_eq (st := unregLast st s k) ?_ rfl rfl rfl rfl rfl rfl
    have hk := w.act_lt s k ha
    have hact := w.act_subj s k ha
    have hsk := h.subs k hk
    obtain ⟨h1, h2, h3⟩ := h
    constructor
    · intro k' hk'
      simp only [unregLast, upd_sub, upd_nsubs, upd_log, upd_disp, upd_sending] at hk' ⊢
      split
      · rename_i e; subst e
        obtain ⟨g1, g2, g3, g4, g5, g6, g7⟩ := hsk
        refine ⟨g1, g2, g3, g4, g5, fun _ => Nat.le_refl _, ?_⟩
        intro _ l' i' _ hi'
        exact (g3 i' hi').2.1
      · exact h1 k' hk'
    · intro r hr
      obtain ⟨a, b, c, d, e⟩ := h2 r hr
      simp only [unregLast, upd_sub, upd_nsubs, upd_disp, upd_sending, upd_log, State.subjOf] at hr d ⊢
      refine ⟨a, b, c, ?_, ?_⟩
      · split
        · exact d
        · exact d
      · split
        · obtain ⟨x, y, z, _⟩ := e
          exact ⟨x, y, z, fun _ => b⟩
        · exact e
    · intro k1 k2 h12 hk2 hs
      simp only [unregLast, upd_sub, upd_nsubs] at hk2 hs ⊢
      by_cases e1 : k1 = k
      · -- a later subscriber on the subject of an open one does not exist
        subst e1
        exfalso
        by_cases e2 : k2 = k1
        · omega
        · rw [if_pos rfl, if_neg e2] at hs
          have := (h3 k1 k2 h12 hk2 hs).1
          rw [hact.2.1] at this; cases this
      · rw [if_neg e1] at hs ⊢
        by_cases e2 : k2 = k
        · subst e2; rw [if_pos rfl] at hs ⊢; exact h3 k1 k2 h12 hk2 hs
        · rw [if_neg e2] at hs ⊢; exact h3 k1 k2 h12 hk2 hs
  | unregSome l s k ha he =>
    refine IX.of_eq (st := unregSome st l k) ?_ rfl rfl rfl rfl rfl rfl
    have hk := w.act_lt s k ha
    have hsk := h.subs k hk
    unfold unregSome
    refine h.upd rfl rfl rfl rfl ?_ ?_
    · intro _
      obtain ⟨h1, h2, h3, h4, h5, h6, h7⟩ := hsk
      exact ⟨h1, h2, h3, h4, h5, h6, h7⟩
    · intro r _ _ hrs
      obtain ⟨a, b, c, d⟩ := hrs
      exact ⟨a, b, c, d⟩


end SigModel.Bus

namespace SigModel.Bus
open SigModel.Generated.Bus

/-! ### a new subscriber waits for the closed one -/

structure WO (st : State) : Prop where
  det_idle : ∀ k, k < st.nsubs → (st.sub k).attached = false → (st.sub k).cur = none
  wait : ∀ k1 k2, k1 < k2 → k2 < st.nsubs → (st.sub k1).subj = (st.sub k2).subj →
    (st.sub k1).attached = true → (st.sub k2).cur = none ∧ ∀ r, r ∈ st.recvs → r.k ≠ k2

theorem WO.init : WO State.init := by
  constructor <;> simp [State.init]

theorem WO.of_eq {st st' : State} (h : WO st) (e1 : st'.nsubs = st.nsubs) (e2 : st'.sub = st.sub)
    (e3 : st'.recvs = st.recvs) : WO st' := by
  obtain ⟨h1, h2⟩ := h
  constructor
  all_goals simp only [e1, e2, e3]
  all_goals assumption

/-- a change local to subscriber `k` that keeps the subject -/
theorem WO.upd' {st : State} (h : WO st) {k : Nat} {f : Sub → Sub}
    (hsubj : (f (st.sub k)).subj = (st.sub k).subj)
    (hatt : (f (st.sub k)).attached = true → (st.sub k).attached = true)
    (hidle : k < st.nsubs → (f (st.sub k)).attached = false → (f (st.sub k)).cur = none)
    (hcur : (∃ k1, k1 < k ∧ (st.sub k1).subj = (st.sub k).subj ∧ (st.sub k1).attached = true) →
      (st.sub k).cur = none → (f (st.sub k)).cur = none) : WO (st.upd k f) := by
  obtain ⟨h1, h2⟩ := h
  have sj : ∀ k', ((st.upd k f).sub k').subj = (st.sub k').subj := by
    intro k'; simp only [upd_sub]; split
    · rename_i e; subst e; exact hsubj
    · rfl
  constructor
  · intro k' hk' ha
    simp only [upd_sub, upd_nsubs] at hk' ha ⊢
    split
    · rename_i e; subst e; rw [if_pos rfl] at ha; exact hidle hk' ha
    · rename_i e; rw [if_neg e] at ha; exact h1 k' hk' ha
  · intro k1 k2 h12 hk2 hs ha
    rw [sj k1, sj k2] at hs
    simp only [upd_sub, upd_nsubs, upd_recvs] at hk2 ha ⊢
    have ha1 : (st.sub k1).attached = true := by
      split at ha
      · rename_i e; subst e; exact hatt ha
      · exact ha
    obtain ⟨a, b⟩ := h2 k1 k2 h12 hk2 hs ha1
    refine ⟨?_, b⟩
    split
    · rename_i e; subst e
      exact hcur ⟨k1, h12, hs, ha1⟩ a
    · exact a

/-- a change local to subscriber `k` that keeps subject, `attached` and `cur` -/
theorem WO.upd {st : State} (h : WO st) {k : Nat} {f : Sub → Sub}
    (hsubj : (f (st.sub k)).subj = (st.sub k).subj) (hatt : (f (st.sub k)).attached = (st.sub k).attached)
    (hcur : (f (st.sub k)).cur = (st.sub k).cur) : WO (st.upd k f) :=
  h.upd' hsubj (fun g => hatt ▸ g) (fun hk g => by rw [hcur]; exact h.det_idle k hk (hatt ▸ g))
    (fun _ g => by rw [hcur]; exact g)

theorem WO.prim {st st' : State} (x : IX st) (h : WO st) (p : Prim st st') : WO st' := by
  cases p with
  | publish s => exact h.of_eq rfl rfl rfl
  | dispatch p hs hp => exact h.of_eq rfl rfl rfl
  | sendDrop k rest hs => exact h.of_eq rfl rfl rfl
  | sendOk k rest hs hlt =>
    exact WO.upd (st := ({ st with sending := rest } : State)) (h.of_eq rfl rfl rfl) rfl rfl rfl
  | take k i rest hk ha hc hch hwt =>
    refine h.upd' rfl (fun g => g) (fun _ g => ?_) (fun g _ => ?_)
    · simp only at g; rw [ha] at g; cases g
    · obtain ⟨k1, a, b, c⟩ := g
      have := hwt k1 a b
      rw [this] at c; cases c
  | snap k i hk hc hs => exact h.upd rfl rfl rfl
  | pick k l hk hs hp hl => exact h.upd rfl rfl rfl
  | call k l i hk hp hc =>
    have h' : WO (st.upd k fun b => { b with pending := none }) := h.upd rfl rfl rfl
    obtain ⟨h1, h2⟩ := h'
    refine ⟨h1, ?_⟩
    intro k1 k2 h12 hk2 hs hatt
    obtain ⟨a, b⟩ := h2 k1 k2 h12 hk2 hs hatt
    refine ⟨a, ?_⟩
    intro r hr
    simp only [upd_recvs, List.mem_append, List.mem_singleton] at hr
    rcases hr with hr | rfl
    · exact b r hr
    · simp only
      intro e
      subst e
      simp only [upd_sub, if_true] at a
      rw [hc] at a; cases a
  | finish k i hk hc hs ht hp =>
    exact h.upd' rfl (fun g => g) (fun _ _ => rfl) (fun _ _ => rfl)
  | exit k hk ha hcl hc =>
    exact h.upd' rfl (fun g => by cases g) (fun _ _ => hc) (fun _ g => g)
  | regOld l s k ha =>
    refine WO.of_eq (st := regOld st l k) ?_ rfl rfl rfl
    unfold regOld
    refine h.upd ?_ ?_ ?_ <;> (split <;> rfl)
  | regNew l s ha =>
    refine WO.of_eq (st := regNew st l s) ?_ rfl rfl rfl
    obtain ⟨h1, h2⟩ := h
    constructor
    · intro k' hk' hatt
      simp only [regNew] at hk' hatt ⊢
      by_cases e : k' = st.nsubs
      · rw [if_pos e]
      · rw [if_neg e] at hatt ⊢; exact h1 k' (by omega) hatt
    · intro k1 k2 h12 hk2 hs hatt
      simp only [regNew] at hk2 hs hatt ⊢
      have e1 : k1 ≠ st.nsubs := by omega
      rw [if_neg e1] at hs hatt
      by_cases e2 : k2 = st.nsubs
      · rw [if_pos e2]
        refine ⟨rfl, ?_⟩
        intro r hr
        have := (x.recvs r hr).1
        omega
      · rw [if_neg e2] at hs ⊢
        exact h2 k1 k2 h12 (by omega) hs hatt
  | unregNone l s ha => exact h.of_eq rfl rfl rfl
  | unregLast l s k ha he =>
    refine WO.of_eq (st := st.upd k fun b => { b with listeners := [], closed := true, closedAt := st.disp })
      ?_ rfl rfl rfl
    exact h.upd rfl rfl rfl
  | unregSome l s k ha he =>
    refine WO.of_eq (st := unregSome st l k) ?_ rfl rfl rfl
    exact h.upd rfl rfl rfl

/-! ### no duplicates, order -/

/-- An earlier delivery `r` to listener `l` on the subject of the message `i` that subscriber `k` is about
to hand to `l` is older than `i`: through `k` itself by the order of its channel; through an earlier
subscriber because that one was closed before `k` was made; and a later subscriber has not delivered
anything while `k` is still running. -/
theorem recv_lt_pending {st : State} (h : IX st) (o : WO st) {k l i : Nat} (hk : k < st.nsubs)
    (hp : (st.sub k).pending = some l) (hc : (st.sub k).cur = some i) {r : RecvEv} (hr : r ∈ st.recvs)
    (hl : r.l = l) (hs : st.subjOf r.i = st.subjOf i) : r.i < i := by
  obtain ⟨a, b, c, d, e⟩ := h.recvs r hr
  have hsk := h.subs k hk
  obtain ⟨c1, c2, c3, c4, c5⟩ := hsk.cur_bd i hc
  have hsubj : (st.sub r.k).subj = (st.sub k).subj := by
    have : st.subjOf i = some (st.sub k).subj := by simpa [State.subjOf] using c4
    rw [d, this] at hs
    exact Option.some.inj hs
  rcases Nat.lt_trichotomy r.k k with hlt | heq | hgt
  · have := h.born_order r.k k hlt hk hsubj
    have := e.closed this.1
    omega
  · rw [heq] at e
    have := e.le_cur i hc
    rcases Nat.lt_or_ge r.i i with g | g
    · exact g
    · have heq : r.i = i := by omega
      have := (this.2 heq).2.2
      rw [hl] at this
      exact absurd hp this
  · exfalso
    have hatt : (st.sub k).attached = true := by
      cases hatt : (st.sub k).attached with
      | true => rfl
      | false => have := o.det_idle k hk hatt; rw [hc] at this; cases this
    exact (o.wait k r.k hgt a hsubj.symm hatt).2 r hr rfl

def ND (st : State) : Prop := st.recvs.Pairwise fun r r' => ¬(r.l = r'.l ∧ r.i = r'.i)

theorem ND.init : ND State.init := by simp [ND, State.init]

theorem ND.prim {st st' : State} (h : IX st) (o : WO st) (n : ND st) (p : Prim st st') : ND st' := by
  cases p with
  | call k l i hk hp hc =>
    unfold ND at n ⊢
    simp only [upd_recvs]
    rw [List.pairwise_append]
    refine ⟨n, by simp, ?_⟩
    intro r hr r' hr'
    simp only [List.mem_singleton] at hr'
    subst hr'
    rintro ⟨e1, e2⟩
    simp only at e1 e2
    have := recv_lt_pending h o hk hp hc hr e1 (by rw [e2])
    omega
  | _ => exact n

/-- per listener and subject, deliveries are in publication order -/
def OD (st : State) : Prop :=
  st.recvs.Pairwise fun r r' => r.l = r'.l → st.subjOf r.i = st.subjOf r'.i → r.i < r'.i

theorem OD.init : OD State.init := by simp [OD, State.init]

theorem OD.prim {st st' : State} (w : WF st) (h : IX st) (wo : WO st) (o : OD st) (p : Prim st st') : OD st' := by
  cases p with
  | publish s =>
    refine List.Pairwise.imp_of_mem ?_ o
    intro r r' hr hr' hrel e1 e2
    have b := (h.recvs r hr).2.1
    have b' := (h.recvs r' hr').2.1
    have hd := w.disp_le
    simp only [publish] at e2
    rw [subjOf_append_lt st _ _ (by omega), subjOf_append_lt st _ _ (by omega)] at e2
    exact hrel e1 e2
  | call k l i hk hp hc =>
    unfold OD at o ⊢
    simp only [upd_recvs]
    rw [List.pairwise_append]
    refine ⟨o, by simp, ?_⟩
    intro r hr r' hr'
    simp only [List.mem_singleton] at hr'
    subst hr'
    intro e1 e2
    exact recv_lt_pending h wo hk hp hc hr e1 e2
  | dispatch p hs hp => exact o
  | sendOk k rest hs hlt => exact o
  | sendDrop k rest hs => exact o
  | take k i rest hk ha hc hch hwt => exact o
  | snap k i hk hc hs => exact o
  | pick k l hk hs hp hl => exact o
  | finish k i hk hc hs ht hp => exact o
  | exit k hk ha hcl hc => exact o
  | regOld l s k ha => exact o
  | regNew l s ha => exact o
  | unregNone l s ha => exact o
  | unregLast l s k ha he => exact o
  | unregSome l s k ha he => exact o

end SigModel.Bus

namespace SigModel.Bus
open SigModel.Generated.Bus

/-! ### registrations behind every delivery -/

/-- `R` has not been followed by an unregistration of the same listener and subject. -/
def Stays (st : State) (R : CallEv) : Prop := ∀ U, U ∈ st.unregs → U.l = R.l → U.s = R.s → U.t < R.t

/-- message `p` was published before every unregistration of `(l, R.s)` that came after `R` -/
def Covers (st : State) (R : CallEv) (p : PubEv) : Prop :=
  ∀ U, U ∈ st.unregs → U.l = R.l → U.s = R.s → R.t < U.t → p.t < U.t

structure RG (st : State) : Prop where
  ls_reg : ∀ k, k < st.nsubs → ∀ l, l ∈ (st.sub k).listeners →
    ∃ R, R ∈ st.regs ∧ R.l = l ∧ R.s = (st.sub k).subj ∧ Stays st R
  pend_reg : ∀ k, k < st.nsubs → ∀ l i, (st.sub k).pending = some l → (st.sub k).cur = some i →
    ∃ p R, st.log[i]? = some p ∧ R ∈ st.regs ∧ R.l = l ∧ R.s = (st.sub k).subj ∧ Covers st R p
  recv_reg : ∀ r, r ∈ st.recvs →
    ∃ p R, st.log[r.i]? = some p ∧ p.t < r.t ∧ R ∈ st.regs ∧ R.l = r.l ∧ R.s = p.s ∧ R.t < r.t ∧ Covers st R p

theorem RG.init : RG State.init := by
  constructor <;> simp [State.init]

theorem RG.of_eq {st st' : State} (h : RG st) (e1 : st'.nsubs = st.nsubs) (e2 : st'.sub = st.sub)
    (e4 : st'.log = st.log) (e5 : st'.regs = st.regs) (e6 : st'.unregs = st.unregs)
    (e7 : st'.recvs = st.recvs) : RG st' := by
  obtain ⟨h1, h2, h3⟩ := h
  constructor
  all_goals simp only [Stays, Covers, e1, e2, e4, e5, e6, e7]
  all_goals assumption

/-- A change local to subscriber `k` that keeps the subject, does not add listeners and does not produce
a new pending callback. -/
theorem RG.upd {st : State} (h : RG st) {k : Nat} {f : Sub → Sub}
    (hsubj : (f (st.sub k)).subj = (st.sub k).subj)
    (hls : ∀ l, l ∈ (f (st.sub k)).listeners → l ∈ (st.sub k).listeners)
    (hpend : ∀ l i, (f (st.sub k)).pending = some l → (f (st.sub k)).cur = some i →
      (st.sub k).pending = some l ∧ (st.sub k).cur = some i) : RG (st.upd k f) := by
  obtain ⟨h1, h2, h3⟩ := h
  refine ⟨?_, ?_, h3⟩
  · intro k' hk' l hl
    simp only [upd_sub, upd_nsubs] at hk' hl ⊢
    split at hl
    · rename_i e; subst e
      rw [if_pos rfl, hsubj]; exact h1 k' hk' l (hls l hl)
    · rename_i e; rw [if_neg e]; exact h1 k' hk' l hl
  · intro k' hk' l i hl hi
    simp only [upd_sub, upd_nsubs] at hk' hl hi ⊢
    split at hl
    · rename_i e; subst e
      rw [if_pos rfl] at hi ⊢
      rw [hsubj]
      obtain ⟨a, b⟩ := hpend l i hl hi
      exact h2 k' hk' l i a b
    · rename_i e; rw [if_neg e] at hi ⊢; exact h2 k' hk' l i hl hi

/-- appending a registration record -/
theorem RG.addReg {st : State} (h : RG st) (l s : Nat) : RG (stampReg st l s) := by
  obtain ⟨h1, h2, h3⟩ := h
  refine ⟨?_, ?_, ?_⟩
  · intro k hk l' hl'
    obtain ⟨R, a, b, c, d⟩ := h1 k hk l' hl'
    exact ⟨R, by simp [stampReg, a], b, c, d⟩
  · intro k hk l' i hl' hi
    obtain ⟨p, R, a, b, c, d, e⟩ := h2 k hk l' i hl' hi
    exact ⟨p, R, a, by simp [stampReg, b], c, d, e⟩
  · intro r hr
    obtain ⟨p, R, a, b, c, d, e, f, g⟩ := h3 r hr
    exact ⟨p, R, a, b, by simp [stampReg, c], d, e, f, g⟩

/-- appending an unregistration record for `(l, s)` when no listener set of subject `s` contains `l` -/
theorem RG.addUnreg {st : State} (t : TM st) (h : RG st) (l s : Nat)
    (hno : ∀ k, k < st.nsubs → (st.sub k).subj = s → l ∉ (st.sub k).listeners) : RG (stampUnreg st l s) := by
  obtain ⟨h1, h2, h3⟩ := h
  have cov : ∀ R p, p ∈ st.log → Covers st R p → Covers (stampUnreg st l s) R p := by
    intro R p hp hc U hU e1 e2 e3
    simp only [stampUnreg, List.mem_append, List.mem_singleton] at hU
    rcases hU with hU | rfl
    · exact hc U hU e1 e2 e3
    · exact t.log_lt p hp
  refine ⟨?_, ?_, ?_⟩
  · intro k hk l' hl'
    obtain ⟨R, a, b, c, d⟩ := h1 k hk l' hl'
    refine ⟨R, a, b, c, ?_⟩
    intro U hU e1 e2
    simp only [stampUnreg, List.mem_append, List.mem_singleton] at hU
    rcases hU with hU | rfl
    · exact d U hU e1 e2
    · simp only at e1 e2
      exfalso
      apply hno k hk (by rw [← c, e2])
      rw [e1, b]; exact hl'
  · intro k hk l' i hl' hi
    obtain ⟨p, R, a, b, c, d, e⟩ := h2 k hk l' i hl' hi
    exact ⟨p, R, a, b, c, d, cov R p (List.mem_of_getElem? a) e⟩
  · intro r hr
    obtain ⟨p, R, a, b, c, d, e, f, g⟩ := h3 r hr
    exact ⟨p, R, a, b, c, d, e, f, cov R p (List.mem_of_getElem? a) g⟩


/-- subscribers of a subject other than the active one have no listeners -/
theorem WF.no_listeners {st : State} (w : WF st) {k : Nat} (hk : k < st.nsubs)
    (hna : st.active (st.sub k).subj ≠ some k) : (st.sub k).listeners = [] := by
  cases hc : (st.sub k).closed with
  | true => exact (w.subok k hk).closed_ls hc
  | false => exact absurd (w.open_act k hk hc) hna

theorem RG.prim {st st' : State} (w : WF st) (t : TM st) (x : IX st) (h : RG st) (p : Prim st st') : RG st' := by
  cases p with
  | publish s =>
    obtain ⟨h1, h2, h3⟩ := h
    have look : ∀ (i : Nat) (p : PubEv), st.log[i]? = some p → (publish st s).log[i]? = some p := by
      intro i p hp
      have : i < st.log.length := by
        rcases Nat.lt_or_ge i st.log.length with g | g
        · exact g
        · rw [List.getElem?_eq_none g] at hp; cases hp
      simp only [publish]
      rw [List.getElem?_append_left this]; exact hp
    refine ⟨h1, ?_, ?_⟩
    · intro k hk l i hl hi
      obtain ⟨p, R, a, b, c, d, e⟩ := h2 k hk l i hl hi
      exact ⟨p, R, look i p a, b, c, d, e⟩
    · intro r hr
      obtain ⟨p, R, a, b, c, d, e, f, g⟩ := h3 r hr
      exact ⟨p, R, look _ p a, b, c, d, e, f, g⟩
  | dispatch p hs hp => exact h.of_eq rfl rfl rfl rfl rfl rfl
  | sendDrop k rest hs => exact h.of_eq rfl rfl rfl rfl rfl rfl
  | sendOk k rest hs hlt =>
    have h' : RG ({ st with sending := rest } : State) := h.of_eq rfl rfl rfl rfl rfl rfl
    exact h'.upd rfl (fun l hl => hl) (fun l i hl hi => ⟨hl, hi⟩)
  | take k i rest hk ha hc hch hwt =>
    exact h.upd rfl (fun l hl => hl) (fun l i hl hi => by cases hl)
  | snap k i hk hc hs =>
    exact h.upd rfl (fun l hl => hl) (fun l i hl hi => ⟨hl, hi⟩)
  | pick k l hk hs hp hl =>
    obtain ⟨h1, h2, h3⟩ := h
    refine ⟨?_, ?_, h3⟩
    · intro k' hk' l' hl'
      simp only [upd_sub, upd_nsubs] at hk' hl' ⊢
      split at hl'
      · rename_i e; subst e; rw [if_pos rfl]; exact h1 k' hk' l' hl'
      · rename_i e; rw [if_neg e]; exact h1 k' hk' l' hl'
    · intro k' hk' l' i hl' hi
      simp only [upd_sub, upd_nsubs] at hk' hl' hi ⊢
      split at hl'
      · rename_i e; subst e
        rw [if_pos rfl] at hi ⊢
        simp only at hl' hi ⊢
        split at hl'
        · rename_i hmem
          cases hl'
          obtain ⟨R, a, b, c, d⟩ := h1 k' hk' l hmem
          obtain ⟨_, _, _, c4, _⟩ := (x.subs k' hk').cur_bd i hi
          cases hp' : st.log[i]? with
          | none => simp [hp'] at c4
          | some p =>
            refine ⟨p, R, hp', a, b, c, ?_⟩
            intro U hU e1 e2 e3
            have := d U hU e1 e2
            omega
        · cases hl'
      · rename_i e; rw [if_neg e] at hi ⊢; exact h2 k' hk' l' i hl' hi
  | call k l i hk hp hc =>
    obtain ⟨p, R, a, b, c, d, e⟩ := h.pend_reg k hk l i hp hc
    obtain ⟨_, _, _, c4, _⟩ := (x.subs k hk).cur_bd i hc
    have h' : RG ({ st with
        recvs := st.recvs ++ [{ l := l, i := i, t := st.clk, k := k }]
        clk := st.clk + 1
        stale := if l ∈ (st.sub k).listeners then st.stale else st.stale + 1 } : State) := by
      obtain ⟨h1, h2, h3⟩ := h
      refine ⟨h1, h2, ?_⟩
      intro r hr
      simp only [List.mem_append, List.mem_singleton] at hr
      rcases hr with hr | rfl
      · exact h3 r hr
      · refine ⟨p, R, a, t.log_lt p (List.mem_of_getElem? a), b, c, ?_, t.regs_lt R b, e⟩
        rw [a] at c4
        simp only [Option.map_some, Option.some.injEq] at c4
        rw [d, c4]
    exact h'.upd rfl (fun l hl => hl) (fun l i hl hi => by cases hl)
  | finish k i hk hc hs ht hp =>
    exact h.upd rfl (fun l hl => hl) (fun l i hl hi => by cases hi)
  | exit k hk ha hcl hc =>
    exact h.upd rfl (fun l hl => hl) (fun l i hl hi => ⟨hl, hi⟩)
  | regOld l s k ha =>
    have hk := w.act_lt s k ha
    have hact := w.act_subj s k ha
    obtain ⟨h1, h2, h3⟩ := h
    have hnew : Stays (stampReg (regOld st l k) l s) { l := l, s := s, t := st.clk } := by
      intro U hU _ _; exact t.unregs_lt U hU
    refine ⟨?_, ?_, ?_⟩
    · intro k' hk' l' hl'
      simp only [stampReg, regOld, upd_sub, upd_nsubs] at hk' hl' ⊢
      by_cases e : k' = k
      · subst e
        rw [if_pos rfl] at hl' ⊢
        have hsub : (if l ∈ (st.sub k').listeners then st.sub k'
            else { st.sub k' with listeners := (st.sub k').listeners ++ [l] }).subj = (st.sub k').subj := by
          split <;> rfl
        rw [hsub]
        by_cases hm : l' ∈ (st.sub k').listeners
        · obtain ⟨R, a, b, c, d⟩ := h1 k' hk' l' hm
          exact ⟨R, by simp [a], b, c, d⟩
        · have : l' = l := by
            split at hl'
            · exact absurd hl' hm
            · simp only [List.mem_append, List.mem_singleton] at hl'
              rcases hl' with g | g
              · exact absurd g hm
              · exact g
          subst this
          exact ⟨{ l := l', s := s, t := st.clk }, by simp, rfl, hact.1.symm, hnew⟩
      · rw [if_neg e] at hl' ⊢
        obtain ⟨R, a, b, c, d⟩ := h1 k' hk' l' hl'
        exact ⟨R, by simp [a], b, c, d⟩
    · intro k' hk' l' i hl' hi
      simp only [stampReg, regOld, upd_sub, upd_nsubs] at hk' hl' hi ⊢
      have key : ∃ p R, st.log[i]? = some p ∧ R ∈ st.regs ∧ R.l = l' ∧ R.s = (st.sub k').subj ∧ Covers st R p := by
        by_cases e : k' = k
        · subst e
          rw [if_pos rfl] at hl' hi
          split at hl'
          · rename_i hm; rw [if_pos hm] at hi; exact h2 k' hk' l' i hl' hi
          · rename_i hm; rw [if_neg hm] at hi; exact h2 k' hk' l' i hl' hi
        · rw [if_neg e] at hl' hi; exact h2 k' hk' l' i hl' hi
      obtain ⟨p, R, a, b, c, d, e⟩ := key
      refine ⟨p, R, a, by simp [b], c, ?_, e⟩
      rw [d]
      split
      · split <;> rfl
      · rfl
    · intro r hr
      obtain ⟨p, R, a, b, c, d, e, f, g⟩ := h3 r hr
      exact ⟨p, R, a, b, by simp [stampReg, regOld, c], d, e, f, g⟩
  | regNew l s ha =>
    obtain ⟨h1, h2, h3⟩ := h
    have hnew : Stays (stampReg (regNew st l s) l s) { l := l, s := s, t := st.clk } := by
      intro U hU _ _; exact t.unregs_lt U hU
    refine ⟨?_, ?_, ?_⟩
    · intro k' hk' l' hl'
      simp only [stampReg, regNew] at hk' hl' ⊢
      by_cases e : k' = st.nsubs
      · subst e
        rw [if_pos rfl] at hl' ⊢
        simp only [List.mem_singleton] at hl'
        subst hl'
        exact ⟨{ l := l', s := s, t := st.clk }, by simp, rfl, rfl, hnew⟩
      · rw [if_neg e] at hl' ⊢
        obtain ⟨R, a, b, c, d⟩ := h1 k' (by omega) l' hl'
        exact ⟨R, by simp [a], b, c, d⟩
    · intro k' hk' l' i hl' hi
      simp only [stampReg, regNew] at hk' hl' hi ⊢
      by_cases e : k' = st.nsubs
      · subst e; rw [if_pos rfl] at hl'; cases hl'
      · rw [if_neg e] at hl' hi ⊢
        obtain ⟨p, R, a, b, c, d, e⟩ := h2 k' (by omega) l' i hl' hi
        exact ⟨p, R, a, by simp [b], c, d, e⟩
    · intro r hr
      obtain ⟨p, R, a, b, c, d, e, f, g⟩ := h3 r hr
      exact ⟨p, R, a, b, by simp [stampReg, regNew, c], d, e, f, g⟩
  | unregNone l s ha =>
    refine h.addUnreg t l s ?_
    intro k hk hs
    rw [w.no_listeners hk (by rw [hs, ha]; simp)]
    simp
  | unregLast l s k ha he =>
    have hk := w.act_lt s k ha
    have hact := w.act_subj s k ha
    have h' : RG (unregLast st s k) := by
      refine RG.of_eq (st := st.upd k fun b => { b with listeners := [], closed := true, closedAt := st.disp })
        ?_ rfl rfl rfl rfl rfl rfl
      exact h.upd rfl (fun l hl => by cases hl) (fun l i hl hi => ⟨hl, hi⟩)
    refine RG.addUnreg (st := unregLast st s k) (t.of_eq rfl rfl rfl rfl rfl) h' l s ?_
    intro k' hk' hs
    simp only [unregLast, upd_sub, upd_nsubs] at hk' hs ⊢
    by_cases e : k' = k
    · rw [if_pos e]; simp
    · rw [if_neg e] at hs ⊢
      rw [w.no_listeners hk' (by rw [hs, ha]; simp; exact fun g => e g.symm)]
      simp
  | unregSome l s k ha he =>
    have hk := w.act_lt s k ha
    have hact := w.act_subj s k ha
    have h' : RG (unregSome st l k) :=
      h.upd rfl (fun l' hl' => List.mem_of_mem_erase hl') (fun l i hl hi => ⟨hl, hi⟩)
    refine RG.addUnreg (st := unregSome st l k) (t.of_eq rfl rfl rfl rfl rfl) h' l s ?_
    intro k' hk' hs
    simp only [unregSome, upd_sub, upd_nsubs] at hk' hs ⊢
    by_cases e : k' = k
    · rw [if_pos e]
      subst e
      exact List.Nodup.not_mem_erase (w.subok k' hk').ls_nodup
    · rw [if_neg e] at hs ⊢
      rw [w.no_listeners hk' (by rw [hs, ha]; simp; exact fun g => e g.symm)]
      simp


end SigModel.Bus

namespace SigModel.Bus
open SigModel.Generated.Bus

/-! ### conservation -/

/-- Where message `i` is on its way to listener `l` of subscriber `k`: still in `incoming`, being sent,
in the channel, being processed with `l` still to be served, or delivered. -/
def Where (st : State) (k l i : Nat) : Prop :=
  st.disp ≤ i ∨ (i + 1 = st.disp ∧ k ∈ st.sending) ∨ i ∈ (st.sub k).chan ∨
  ((st.sub k).cur = some i ∧
    ((st.sub k).snapped = false ∨ l ∈ (st.sub k).tovisit ∨ (st.sub k).pending = some l)) ∨
  (∃ r, r ∈ st.recvs ∧ r.l = l ∧ r.i = i)

structure CV (st : State) : Prop where
  stays_active : ∀ R, R ∈ st.regs → Stays st R → ∃ k, st.active R.s = some k ∧ R.l ∈ (st.sub k).listeners
  cons : st.dropped = false → ∀ R, R ∈ st.regs → Stays st R → ∀ (i : Nat) (p : PubEv), st.log[i]? = some p →
    p.s = R.s → R.t < p.t → ∀ k, st.active R.s = some k → Where st k R.l i

theorem CV.init : CV State.init := by
  constructor <;> simp [State.init]

/-- a change of subscriber `k0` that leaves its pipeline alone -/
theorem Where.upd_same {st : State} {k0 : Nat} {f : Sub → Sub} {k l i : Nat}
    (h : Where st k l i) (e1 : (f (st.sub k0)).chan = (st.sub k0).chan) (e2 : (f (st.sub k0)).cur = (st.sub k0).cur)
    (e3 : (f (st.sub k0)).snapped = (st.sub k0).snapped) (e4 : (f (st.sub k0)).tovisit = (st.sub k0).tovisit)
    (e5 : (f (st.sub k0)).pending = (st.sub k0).pending) : Where (st.upd k0 f) k l i := by
  unfold Where at h ⊢
  simp only [upd_sub, upd_disp, upd_sending, upd_recvs]
  split
  · rename_i e; subst e; rw [e1, e2, e3, e4, e5]; exact h
  · exact h

theorem Where.other {st : State} {k0 : Nat} {f : Sub → Sub} {k l i : Nat}
    (h : Where st k l i) (hne : k ≠ k0) : Where (st.upd k0 f) k l i := by
  unfold Where at h ⊢
  simp only [upd_sub, upd_disp, upd_sending, upd_recvs, if_neg hne]
  exact h


theorem Where.stampReg {st : State} {k l i : Nat} (h : Where st k l i) (l' s' : Nat) :
    Where (stampReg st l' s') k l i := h

theorem Where.stampUnreg {st : State} {k l i : Nat} (h : Where st k l i) (l' s' : Nat) :
    Where (stampUnreg st l' s') k l i := h

/-- Transitions that leave the call records, the log and the subscription table alone. -/
theorem CV.internal {st st' : State} (w : WF st) (h : CV st) (e1 : st'.regs = st.regs) (e2 : st'.unregs = st.unregs)
    (e3 : st'.active = st.active) (e4 : st'.log = st.log) (e5 : st'.dropped = false → st.dropped = false)
    (e6 : ∀ k, (st'.sub k).listeners = (st.sub k).listeners)
    (hW : ∀ (k l i : Nat) (p : PubEv), st'.dropped = false → st.active ((st.sub k).subj) = some k →
      l ∈ (st.sub k).listeners → st.log[i]? = some p → p.s = (st.sub k).subj → Where st k l i → Where st' k l i) :
    CV st' := by
  obtain ⟨h1, h2⟩ := h
  have hst : ∀ R, Stays st' R ↔ Stays st R := by intro R; simp only [Stays, e2]
  refine ⟨?_, ?_⟩
  · intro R hR hS
    rw [e1] at hR
    obtain ⟨k, a, b⟩ := h1 R hR ((hst R).mp hS)
    exact ⟨k, by rw [e3]; exact a, by rw [e6]; exact b⟩
  · intro hd R hR hS i p hp hps ht k ha
    rw [e1] at hR; rw [e4] at hp; rw [e3] at ha
    have hS' := (hst R).mp hS
    obtain ⟨k', a, b⟩ := h1 R hR hS'
    rw [ha] at a; cases a
    have hsubj := (w.act_subj R.s k ha).1
    exact hW k R.l i p hd (by rw [hsubj]; exact ha) b hp (by rw [hsubj]; exact hps)
      (h2 (e5 hd) R hR hS' i p hp hps ht k ha)

theorem CV.prim {st st' : State} (w : WF st) (t : TM st) (x : IX st) (h : CV st) (p : Prim st st') : CV st' := by
  cases p with
  | dispatch p0 hs hp0 =>
    refine h.internal w rfl rfl rfl rfl (fun g => g) (fun _ => rfl) ?_
    intro k l i p _ hact hl hp hps hw
    have hk := w.act_lt _ k hact
    have hopen := (w.act_subj _ k hact).2.1
    unfold Where at hw ⊢
    simp only
    rcases hw with a | a | a | a | a
    · by_cases e : i = st.disp
      · subst e
        right; left
        refine ⟨rfl, ?_⟩
        rw [hp0] at hp; cases hp
        simp only [List.mem_filter, List.mem_range, Bool.and_eq_true, beq_iff_eq]
        refine ⟨hk, ?_, hps.symm⟩
        cases hatt : (st.sub k).attached with
        | true => rfl
        | false => have := (w.subok k hk).detached_closed hatt; rw [hopen] at this; cases this
      · left; omega
    · rw [hs] at a; cases a.2
    · right; right; left; exact a
    · right; right; right; left; exact a
    · right; right; right; right; exact a
  | sendDrop k0 rest hs =>
    refine ⟨?_, ?_⟩
    · exact h.stays_active
    · intro hd; cases hd
  | sendOk k0 rest hs hlt =>
    refine h.internal w rfl rfl rfl rfl (fun g => g) ?_ ?_
    · intro k; simp only [upd_sub]; split <;> rfl
    · intro k l i p _ hact hl hp hps hw
      unfold Where at hw ⊢
      simp only [upd_sub, upd_disp, upd_sending, upd_recvs]
      rcases hw with a | a | a | a | a
      · left; exact a
      · rw [hs] at a
        by_cases e : k = k0
        · right; right; left
          rw [if_pos e]
          simp only [List.mem_append, List.mem_singleton]
          right; omega
        · right; left
          refine ⟨a.1, ?_⟩
          have := a.2
          simp only [List.mem_cons] at this
          rcases this with g | g
          · exact absurd g e
          · exact g
      · right; right; left
        split
        · rename_i e; subst e; simp only [List.mem_append]; left; exact a
        · exact a
      · right; right; right; left
        split
        · rename_i e; subst e; exact a
        · exact a
      · right; right; right; right; exact a
  | take k0 i0 rest hk0 ha0 hc0 hch hwt =>
    refine h.internal w rfl rfl rfl rfl (fun g => g) ?_ ?_
    · intro k; simp only [upd_sub]; split <;> rfl
    · intro k l i p _ hact hl hp hps hw
      by_cases e : k = k0
      · subst e
        unfold Where at hw ⊢
        simp only [upd_sub, upd_disp, upd_sending, upd_recvs, if_true]
        rcases hw with a | a | a | a | a
        · left; exact a
        · right; left; exact a
        · rw [hch] at a
          simp only [List.mem_cons] at a
          rcases a with g | g
          · right; right; right; left
            exact ⟨by rw [g], Or.inl trivial⟩
          · right; right; left; exact g
        · rw [hc0] at a; cases a.1
        · right; right; right; right; exact a
      · exact hw.other e
  | snap k0 i0 hk0 hc0 hs0 =>
    refine h.internal w rfl rfl rfl rfl (fun g => g) ?_ ?_
    · intro k; simp only [upd_sub]; split <;> rfl
    · intro k l i p _ hact hl hp hps hw
      by_cases e : k = k0
      · subst e
        unfold Where at hw ⊢
        simp only [upd_sub, upd_disp, upd_sending, upd_recvs, if_true]
        rcases hw with a | a | a | a | a
        · left; exact a
        · right; left; exact a
        · right; right; left; exact a
        · right; right; right; left
          exact ⟨a.1, Or.inr (Or.inl hl)⟩
        · right; right; right; right; exact a
      · exact hw.other e
  | pick k0 l0 hk0 hs0 hp0 hl0 =>
    refine h.internal w rfl rfl rfl rfl (fun g => g) ?_ ?_
    · intro k; simp only [upd_sub]; split <;> rfl
    · intro k l i p _ hact hl hp hps hw
      by_cases e : k = k0
      · subst e
        unfold Where at hw ⊢
        simp only [upd_sub, upd_disp, upd_sending, upd_recvs, if_true]
        rcases hw with a | a | a | a | a
        · left; exact a
        · right; left; exact a
        · right; right; left; exact a
        · right; right; right; left
          refine ⟨a.1, ?_⟩
          rcases a.2 with g | g | g
          · rw [hs0] at g; cases g
          · by_cases e2 : l = l0
            · subst e2; right; right; simp [hl]
            · right; left; exact (List.mem_erase_of_ne e2).mpr g
          · rw [hp0] at g; cases g
        · right; right; right; right; exact a
      · exact hw.other e
  | call k0 l0 i0 hk0 hp0 hc0 =>
    refine h.internal w rfl rfl rfl rfl (fun g => g) ?_ ?_
    · intro k; simp only [upd_sub]; split <;> rfl
    · intro k l i p _ hact hl hp hps hw
      unfold Where at hw ⊢
      simp only [upd_sub, upd_disp, upd_sending, upd_recvs]
      rcases hw with a | a | a | a | a
      · left; exact a
      · right; left; exact a
      · right; right; left
        split
        · rename_i e; subst e; exact a
        · exact a
      · by_cases e : k = k0
        · subst e
          rcases a.2 with g | g | g
          · right; right; right; left
            rw [if_pos rfl]; exact ⟨a.1, Or.inl g⟩
          · right; right; right; left
            rw [if_pos rfl]; exact ⟨a.1, Or.inr (Or.inl g)⟩
          · right; right; right; right
            rw [hp0] at g; cases g
            have := a.1; rw [hc0] at this; cases this
            exact ⟨{ l := l0, i := i0, t := st.clk, k := k }, by simp, rfl, rfl⟩
        · right; right; right; left
          rw [if_neg e]; exact a
      · right; right; right; right
        obtain ⟨r, hr, b, c⟩ := a
        exact ⟨r, by simp [hr], b, c⟩
  | finish k0 i0 hk0 hc0 hs0 ht0 hp0 =>
    refine h.internal w rfl rfl rfl rfl (fun g => g) ?_ ?_
    · intro k; simp only [upd_sub]; split <;> rfl
    · intro k l i p _ hact hl hp hps hw
      by_cases e : k = k0
      · subst e
        unfold Where at hw ⊢
        simp only [upd_sub, upd_disp, upd_sending, upd_recvs, if_true]
        rcases hw with a | a | a | a | a
        · left; exact a
        · right; left; exact a
        · right; right; left; exact a
        · exfalso
          rcases a.2 with g | g | g
          · rw [hs0] at g; cases g
          · rw [ht0] at g; cases g
          · rw [hp0] at g; cases g
        · right; right; right; right; exact a
      · exact hw.other e
  | exit k0 hk0 ha0 hcl0 hc0 =>
    refine h.internal w rfl rfl rfl rfl (fun g => g) ?_ ?_
    · intro k; simp only [upd_sub]; split <;> rfl
    · intro k l i p _ hact hl hp hps hw
      exact hw.upd_same rfl rfl rfl rfl rfl
  | publish s0 =>
    obtain ⟨h1, h2⟩ := h
    refine ⟨h1, ?_⟩
    intro hd R hR hS i p hp hps ht k ha
    simp only [publish] at hp
    rcases Nat.lt_or_ge i st.log.length with g | g
    · rw [List.getElem?_append_left g] at hp
      exact h2 hd R hR hS i p hp hps ht k ha
    · left
      have := w.disp_le
      show st.disp ≤ i
      omega
  | regOld l s k0 ha0 =>
    have hk0 := w.act_lt s k0 ha0
    obtain ⟨h1, h2⟩ := h
    have hls : ∀ k l', l' ∈ (st.sub k).listeners → l' ∈ ((regOld st l k0).sub k).listeners := by
      intro k l' hl'
      simp only [regOld, upd_sub]
      split
      · rename_i e; subst e
        split
        · exact hl'
        · simp only [List.mem_append]; left; exact hl'
      · exact hl'
    refine ⟨?_, ?_⟩
    · intro R hR hS
      simp only [stampReg, regOld, upd_regs, List.mem_append, List.mem_singleton] at hR
      rcases hR with hR | rfl
      · obtain ⟨k, a, b⟩ := h1 R hR hS
        exact ⟨k, a, hls k R.l b⟩
      · refine ⟨k0, ha0, ?_⟩
        simp only [stampReg, regOld, upd_sub, if_true]
        split
        · assumption
        · simp
    · intro hd R hR hS i p hp hps ht k ha
      simp only [stampReg, regOld, upd_regs, List.mem_append, List.mem_singleton] at hR
      rcases hR with hR | rfl
      · have hw := h2 hd R hR hS i p hp hps ht k ha
        refine Where.stampReg ?_ l s
        unfold regOld
        refine (Where.upd_same hw ?_ ?_ ?_ ?_ ?_) <;> (split <;> rfl)
      · have := t.log_lt p (List.mem_of_getElem? hp)
        simp only [regOld, upd_clk] at ht
        omega
  | regNew l s ha0 =>
    obtain ⟨h1, h2⟩ := h
    refine ⟨?_, ?_⟩
    · intro R hR hS
      simp only [stampReg, regNew, List.mem_append, List.mem_singleton] at hR ⊢
      rcases hR with hR | rfl
      · obtain ⟨k, a, b⟩ := h1 R hR hS
        have hne : R.s ≠ s := by intro e; rw [e, ha0] at a; cases a
        have hk := w.act_lt _ k a
        refine ⟨k, by rw [if_neg hne]; exact a, ?_⟩
        rw [if_neg (Nat.ne_of_lt hk)]; exact b
      · exact ⟨st.nsubs, by simp, by simp⟩
    · intro hd R hR hS i p hp hps ht k ha
      simp only [stampReg, regNew, List.mem_append, List.mem_singleton] at hR ha
      rcases hR with hR | rfl
      · obtain ⟨k', a, b⟩ := h1 R hR hS
        have hne : R.s ≠ s := by intro e; rw [e, ha0] at a; cases a
        rw [if_neg hne] at ha
        have hk := w.act_lt _ k ha
        have hw := h2 hd R hR hS i p hp hps ht k ha
        unfold Where at hw ⊢
        simp only [stampReg, regNew, if_neg (Nat.ne_of_lt hk)]
        exact hw
      · have := t.log_lt p (List.mem_of_getElem? hp)
        simp only [regNew] at ht
        omega
  | unregNone l s ha0 =>
    obtain ⟨h1, h2⟩ := h
    have hst : ∀ R, Stays (stampUnreg st l s) R → Stays st R := by
      intro R hS U hU; exact hS U (by simp [stampUnreg, hU])
    exact ⟨fun R hR hS => h1 R hR (hst R hS), fun hd R hR hS => h2 hd R hR (hst R hS)⟩
  | unregLast l s k0 ha0 he =>
    have hk0 := w.act_lt s k0 ha0
    have hact0 := w.act_subj s k0 ha0
    obtain ⟨h1, h2⟩ := h
    have hst : ∀ R, Stays (stampUnreg (unregLast st s k0) l s) R → Stays st R := by
      intro R hS U hU; exact hS U (by simp [stampUnreg, unregLast, hU])
    -- a registration that stays is on another subject
    have hother : ∀ R, R ∈ st.regs → Stays (stampUnreg (unregLast st s k0) l s) R → R.s ≠ s := by
      intro R hR hS e
      obtain ⟨k, a, b⟩ := h1 R hR (hst R hS)
      rw [e, ha0] at a; cases a
      have hne : R.l ≠ l := by
        intro e2
        have h3 := hS { l := l, s := s, t := st.clk } (by simp [stampUnreg, unregLast]) e2.symm e.symm
        have := t.regs_lt R hR
        simp only at h3
        omega
      have : R.l ∈ (st.sub k0).listeners.erase l := (List.mem_erase_of_ne hne).mpr b
      rw [he] at this; cases this
    refine ⟨?_, ?_⟩
    · intro R hR hS
      have hne := hother R hR hS
      obtain ⟨k, a, b⟩ := h1 R hR (hst R hS)
      have hkne : k ≠ k0 := by
        intro e; subst e
        exact hne ((w.act_subj _ k a).1.symm.trans hact0.1)
      refine ⟨k, ?_, ?_⟩
      · simp only [stampUnreg, unregLast, if_neg hne]; exact a
      · simp only [stampUnreg, unregLast, upd_sub, if_neg hkne]; exact b
    · intro hd R hR hS i p hp hps ht k ha
      have hne := hother R hR hS
      simp only [stampUnreg, unregLast, if_neg hne] at ha
      have hkne : k ≠ k0 := by
        intro e; subst e
        exact hne ((w.act_subj _ k ha).1.symm.trans hact0.1)
      have hw := h2 hd R hR (hst R hS) i p hp hps ht k ha
      unfold Where at hw ⊢
      simp only [stampUnreg, unregLast, upd_sub, upd_disp, upd_sending, upd_recvs, if_neg hkne]
      exact hw
  | unregSome l s k0 ha0 he =>
    have hk0 := w.act_lt s k0 ha0
    have hact0 := w.act_subj s k0 ha0
    obtain ⟨h1, h2⟩ := h
    have hst : ∀ R, Stays (stampUnreg (unregSome st l k0) l s) R → Stays st R := by
      intro R hS U hU; exact hS U (by simp [stampUnreg, unregSome, hU])
    refine ⟨?_, ?_⟩
    · intro R hR hS
      obtain ⟨k, a, b⟩ := h1 R hR (hst R hS)
      refine ⟨k, a, ?_⟩
      simp only [stampUnreg, unregSome, upd_sub]
      split
      · rename_i e; subst e
        have es : R.s = s := (w.act_subj _ k a).1.symm.trans hact0.1
        have hne : R.l ≠ l := by
          intro e2
          have h3 := hS { l := l, s := s, t := st.clk } (by simp [stampUnreg, unregSome]) e2.symm es.symm
          have := t.regs_lt R hR
          simp only at h3
          omega
        exact (List.mem_erase_of_ne hne).mpr b
      · exact b
    · intro hd R hR hS i p hp hps ht k ha
      have hw := h2 hd R hR (hst R hS) i p hp hps ht k ha
      refine Where.stampUnreg ?_ l s
      exact hw.upd_same rfl rfl rfl rfl rfl


end SigModel.Bus

namespace SigModel.Bus
open SigModel.Generated.Bus

/-! ### all invariants together -/

structure Inv (st : State) : Prop where
  wf : WF st
  tm : TM st
  ix : IX st
  wo : WO st
  nd : ND st
  od : OD st
  rg : RG st
  cv : CV st

theorem Reach.inv {st : State} (h : Reach st) : Inv st := by
  refine Reach.induct (P := Inv) ⟨WF.init, TM.init, IX.init, WO.init, ND.init, OD.init, RG.init, CV.init⟩ ?_ st h
  intro st st' _ i p
  exact ⟨i.wf.prim p, i.tm.prim p, i.ix.prim i.wf p, i.wo.prim i.ix p, i.nd.prim i.ix i.wo p,
    i.od.prim i.wf i.ix i.wo p, i.rg.prim i.wf i.tm i.ix p, i.cv.prim i.wf i.tm i.ix p⟩

end SigModel.Bus
