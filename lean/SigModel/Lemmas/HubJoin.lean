/-
Hub lemmas, part 5: joining a room (and the kick of another connection that uses the same
room-session id) preserves the invariant.
-/
import SigModel.Lemmas.HubClose

namespace SigModel.Hub

theorem newRoom_members (h : Hub) (b : Nat) (r : String) (s : Nat) (su : String) (t : Nat) :
    t ∈ (newRoom h b r s su).members ↔ t = s ∨ ∃ rm, h.rooms b r = some rm ∧ t ∈ rm.members := by
  unfold newRoom
  cases hrm : h.rooms b r with
  | none => simp
  | some rm =>
    simp only [Option.getD_some]
    by_cases hc : rm.members.contains s = true
    · simp only [hc, if_true]
      have : s ∈ rm.members := by simpa using hc
      constructor
      · intro ht; exact Or.inr ⟨rm, rfl, ht⟩
      · rintro (rfl | ⟨rm', e, ht⟩)
        · exact this
        · cases e; exact ht
    · simp only [hc]
      simp only [Bool.false_eq_true, if_false, List.mem_append, List.mem_singleton]
      constructor
      · rintro (ht | rfl)
        · exact Or.inr ⟨rm, rfl, ht⟩
        · exact Or.inl rfl
      · rintro (rfl | ⟨rm', e, ht⟩)
        · exact Or.inr rfl
        · cases e; exact Or.inl ht

theorem newRoom_inCall (h : Hub) (b : Nat) (r : String) (s : Nat) (su : String) (t : Nat) :
    t ∈ (newRoom h b r s su).inCall ↔ ∃ rm, h.rooms b r = some rm ∧ t ∈ rm.inCall := by
  unfold newRoom
  cases hrm : h.rooms b r with
  | none => simp
  | some rm => simp

theorem newRoom_nodup (h : Hub) (b : Nat) (r : String) (s : Nat) (su : String)
    (hn : ∀ rm, h.rooms b r = some rm → rm.members.Nodup) : (newRoom h b r s su).members.Nodup := by
  unfold newRoom
  cases hrm : h.rooms b r with
  | none => simp
  | some rm =>
    simp only [Option.getD_some]
    have hnd := hn rm hrm
    by_cases hc : rm.members.contains s = true
    · simp only [hc, if_true]; exact hnd
    · simp only [hc, Bool.false_eq_true, if_false]
      have : s ∉ rm.members := by simpa using hc
      exact List.nodup_append.mpr ⟨hnd, List.pairwise_singleton _ _, by
        intro a ha b' hb'; simp at hb'; subst hb'; intro e; subst e; exact this ha⟩

@[hubf] theorem addMember_rooms (h : Hub) (b : Nat) (r : String) (s : Nat) (su : String) (b' : Nat) (r' : String) :
    (addMember h b r s su).rooms b' r' = if b' = b ∧ r' = r then some (newRoom h b r s su) else h.rooms b' r' := rfl

@[hubf] theorem addMember_sess (h : Hub) (b : Nat) (r : String) (s : Nat) (su : String) : (addMember h b r s su).sess = h.sess := rfl
@[hubf] theorem addMember_nextSid (h : Hub) (b : Nat) (r : String) (s : Nat) (su : String) : (addMember h b r s su).nextSid = h.nextSid := rfl
@[hubf] theorem addMember_connSess (h : Hub) (b : Nat) (r : String) (s : Nat) (su : String) : (addMember h b r s su).connSess = h.connSess := rfl
@[hubf] theorem addMember_connOpen (h : Hub) (b : Nat) (r : String) (s : Nat) (su : String) : (addMember h b r s su).connOpen = h.connOpen := rfl
@[hubf] theorem addMember_expectHello (h : Hub) (b : Nat) (r : String) (s : Nat) (su : String) : (addMember h b r s su).expectHello = h.expectHello := rfl
@[hubf] theorem addMember_roomL (h : Hub) (b : Nat) (r : String) (s : Nat) (su : String) : (addMember h b r s su).roomL = h.roomL := rfl
@[hubf] theorem addMember_userL (h : Hub) (b : Nat) (r : String) (s : Nat) (su : String) : (addMember h b r s su).userL = h.userL := rfl
@[hubf] theorem addMember_sessL (h : Hub) (b : Nat) (r : String) (s : Nat) (su : String) : (addMember h b r s su).sessL = h.sessL := rfl
@[hubf] theorem addMember_rs2sid (h : Hub) (b : Nat) (r : String) (s : Nat) (su : String) : (addMember h b r s su).rs2sid = h.rs2sid := rfl
@[hubf] theorem addMember_sid2rs (h : Hub) (b : Nat) (r : String) (s : Nat) (su : String) : (addMember h b r s su).sid2rs = h.sid2rs := rfl
@[hubf] theorem addMember_vtable (h : Hub) (b : Nat) (r : String) (s : Nat) (su : String) : (addMember h b r s su).vtable = h.vtable := rfl
@[hubf] theorem addMember_expired (h : Hub) (b : Nat) (r : String) (s : Nat) (su : String) : (addMember h b r s su).expired = h.expired := rfl
@[hubf] theorem addMember_anon (h : Hub) (b : Nat) (r : String) (s : Nat) (su : String) : (addMember h b r s su).anon = h.anon := rfl
@[hubf] theorem addMember_dialout (h : Hub) (b : Nat) (r : String) (s : Nat) (su : String) : (addMember h b r s su).dialout = h.dialout := rfl
@[hubf] theorem addMember_count (h : Hub) (b : Nat) (r : String) (s : Nat) (su : String) : (addMember h b r s su).count = h.count := rfl
@[hubf] theorem addMember_limit (h : Hub) (b : Nat) (r : String) (s : Nat) (su : String) : (addMember h b r s su).limit = h.limit := rfl

theorem addMember_congr {h h' : Hub} (e : CoreEq h h') (b : Nat) (r : String) (s : Nat) (su : String) :
    CoreEq (addMember h b r s su) (addMember h' b r s su) := by
  have es := e.sess
  obtain ⟨_, e1, e2, e3, e4, e5, e6, e7, e8, e9, e10, e11, e12, e13, e14, e15, e16⟩ := e
  unfold addMember newRoom
  rw [e5]
  constructor <;> simp only [hubf] <;> first | assumption | skip
  · funext b' r'; simp only [hubf, e5]

theorem roomAddSession_core (a : Acc) (b : Nat) (r : String) (s : Nat) (kind : Kind) (su : String) :
    CoreEq (addMember a.h b r s su) (roomAddSession a b r s kind su).h := by
  unfold roomAddSession
  simp only []
  have c0 : CoreEq (addMember a.h b r s su)
      (if ((a.h.rooms b r).getD {}).members.contains s = true then ({ a with h := addMember a.h b r s su } : Acc)
       else if kind = .virtual then
         publishUsersChangedWithInternal (pubRoom { a with h := addMember a.h b r s su } b r (.msg (.join [s]))) b r
       else pubRoom { a with h := addMember a.h b r s su } b r (.msg (.join [s]))).h := by
    split
    · exact CoreEq.refl _
    · split
      · exact coreOf ((pubRoom_core _ _ _ _).trans (publishUsersChangedWithInternal_core _ _ _)) rfl
      · exact coreOf (pubRoom_core _ _ _ _) rfl
  split
  · exact (c0.trans (notifySessionJoined_core _ _ _ _)).trans (publishUsersChangedWithInternal_core _ _ _)
  · exact c0.trans (notifySessionJoined_core _ _ _ _)

set_option maxHeartbeats 4000000 in
/-- Joining: the tables after `joinTables` + `addMember` satisfy the invariant again. -/
theorem join_inv {h : Hub} (hi : Inv h) {s : Nat} {x : Sess} (hx : h.sess s = some x) (hr : x.room = none)
    (hk : x.kind ≠ .virtual) (r rsid : String) (perms : Option (List String)) (su : String) :
    Inv (addMember (joinTables h s x r rsid perms) x.backend r s su) := by
  have hnm : ∀ rm, h.rooms x.backend r = some rm → s ∉ rm.members := by
    intro rm hrm hm
    obtain ⟨y, hy, _, hyr⟩ := hi.mem_room _ _ _ _ hrm hm
    rw [hx] at hy; cases hy; rw [hr] at hyr; cases hyr
  obtain ⟨f1, f2, f3, f4, f5, f6, f7, f8, f9, f10, f11, f12, f13, f14, f15, f16, f17, f18, f19, f20, f21, f22, f23, f24, f25⟩ := hi
  have nm := newRoom_members (joinTables h s x r rsid perms) x.backend r s su
  have nic := newRoom_inCall (joinTables h s x r rsid perms) x.backend r s su
  have nnd := newRoom_nodup (joinTables h s x r rsid perms) x.backend r s su
  generalize hnr : newRoom (joinTables h s x r rsid perms) x.backend r s su = nr at nm nic nnd
  have hjr : (joinTables h s x r rsid perms).rooms = h.rooms := by
    unfold joinTables; by_cases hrs : rsid = "" <;> simp only [hrs, ne_eq, not_true_eq_false, not_false_eq_true, if_true, if_false, hubf]
  rw [hjr] at nm nic nnd
  have nnd' := nnd (fun rm hrm => f5 _ _ rm hrm)
  unfold addMember
  rw [hnr]
  clear hnr nnd
  unfold joinTables
  by_cases hrs : rsid = ""
  · simp only [hrs, ne_eq, not_true_eq_false, if_false]
    constructor
    all_goals (intros; simp only [hubf] at *; grind [mem_removeL, nodup_removeL, length_removeL_le])
  · simp only [hrs, ne_eq, not_false_eq_true, if_true]
    constructor
    all_goals (intros; simp only [hubf, rsSet_sid2rs _ _ _ hrs, rsSet_rs2sid _ _ _ hrs] at *;
               grind [mem_removeL, nodup_removeL, length_removeL_le])

end SigModel.Hub

namespace SigModel.Hub

theorem doJoin_inv (a : Acc) (s : Nat) (r rsid : String) (perms : Option (List String)) (su : String)
    (hi : Inv a.h) (hk : ∀ x, a.h.sess s = some x → x.kind ≠ .virtual) :
    Inv (doJoin a s r rsid perms su).h := by
  unfold doJoin
  simp only []
  have h1 := leaveRoom_inv a s hi
  have hs := leaveRoom_sess a s hi s
  cases hx1 : (leaveRoom a s).1.h.sess s with
  | none => exact h1
  | some x =>
    simp only []
    simp only [hx1, if_true] at hs
    rcases hs with ⟨_, h0⟩ | ⟨y, x', hy, hx', e1, e2, e3, e4, e5, e6, e7, e8⟩
    · cases h0
    · cases hx'
      have hj := join_inv h1 hx1 e8 (by rw [e2]; exact hk y hy) r rsid perms su
      have c1 := sendTo_core { (leaveRoom a s).1 with h := joinTables (leaveRoom a s).1.h s x r rsid perms } s (.room r)
      have c2 := addMember_congr c1 x.backend r s su
      have c3 := roomAddSession_core (sendTo { (leaveRoom a s).1 with h := joinTables (leaveRoom a s).1.h s x r rsid perms } s (.room r))
        x.backend r s x.kind su
      exact hj.congr (c2.trans c3)

theorem facts_rs : Generated.Hub.roomSessionBackendChecked = true ∧ Generated.Hub.selfKickGuarded = true := by decide

theorem disconnectByRoomSessionId_inv (a : Acc) (rs : String) (b req : Nat) (hi : Inv a.h) :
    Inv (disconnectByRoomSessionId a rs b req).h := by
  unfold disconnectByRoomSessionId
  cases hv : a.h.rs2sid rs with
  | none => exact hi
  | some v =>
    simp only []
    cases hx : a.h.sess v with
    | none => exact hi
    | some x =>
      simp only []
      split
      · exact hi
      · split
        · exact hi
        · -- leave, bye, close, connection closed
          have h1 := leaveRoom_inv a v hi
          have hs1 := leaveRoom_sess a v hi v
          simp only [hx, if_true] at hs1
          rcases hs1 with ⟨h0, _⟩ | ⟨y, x1, hy, hx1, e1, e2, e3, e4, e5, e6, e7, e8⟩
          · cases h0
          · cases hy
            -- the optional bye only changes non-core fields
            have hcore : CoreEq (leaveRoom a v).1.h (kickBye (leaveRoom a v).1 v).h := by
              unfold kickBye; split
              · exact sendTo_core _ _ _
              · exact CoreEq.refl _
            generalize kickBye (leaveRoom a v).1 v = a2 at hcore ⊢
            have hi2 := h1.congr hcore
            have hf := hcore.sess_fields v
            simp only [hx1] at hf
            rcases hf with ⟨h0, _⟩ | ⟨z, x2, hz, hx2, g1, g2, g3, g4, g5, g6, g7, g8, g9⟩
            · cases h0
            · cases hz
              simp only [hx2, Option.bind_some]
              cases hc : x2.conn with
              | none =>
                simp only []
                exact closeSession_inv a2 v hi2
              | some c =>
                simp only []
                exact closeSessionConn_inv a2 v hi2 hx2 hc

end SigModel.Hub

namespace SigModel.Hub

theorem disconnectByRoomSessionId_sub (a : Acc) (rs : String) (b req : Nat) (hi : Inv a.h) :
    SubSess a.h (disconnectByRoomSessionId a rs b req).h := by
  unfold disconnectByRoomSessionId
  cases hv : a.h.rs2sid rs with
  | none => exact SubSess.refl _
  | some v =>
    simp only []
    cases hx : a.h.sess v with
    | none => exact SubSess.refl _
    | some x =>
      simp only []
      split
      · exact SubSess.refl _
      · split
        · exact SubSess.refl _
        · have h1 := leaveRoom_inv a v hi
          have s1 := leaveRoom_sub a v hi
          have hcore : CoreEq (leaveRoom a v).1.h (kickBye (leaveRoom a v).1 v).h := by
            unfold kickBye; split
            · exact sendTo_core _ _ _
            · exact CoreEq.refl _
          have s2 := SubSess.of_core hcore
          have hi2 := h1.congr hcore
          generalize kickBye (leaveRoom a v).1 v = a2 at hcore s2 hi2 ⊢
          have s3 := (closeSession_sub a2 v hi2).1
          split
          · exact (s1.trans s2).trans (by intro t x' hx'; simp only [hubf] at hx'; exact s3 t x' hx')
          · exact (s1.trans s2).trans s3

theorem pub_ne_empty (s : Nat) : pubRs s ≠ "" := by
  unfold pubRs
  intro h
  have := congrArg String.length h
  simp [String.length_append] at this

theorem anonAdd_inv {h : Hub} (hi : Inv h) (s : Nat) (hs : (h.sess s).isSome = true) :
    Inv { h with anon := removeL h.anon s ++ [s] } := by
  obtain ⟨f1, f2, f3, f4, f5, f6, f7, f8, f9, f10, f11, f12, f13, f14, f15, f16, f17, f18, f19, f20, f21, f22, f23, f24, f25⟩ := hi
  constructor
  all_goals first | assumption | skip
  · intro t ht; simp at ht; grind [mem_removeL]

theorem rsUpdate_inv {h : Hub} (hi : Inv h) {s : Nat} {x : Sess} (hx : h.sess s = some x)
    (hr : x.room.isSome = true) (rs : String) (hrs : rs ≠ "") :
    Inv (setSess (rsSet h s rs) s (some { x with roomSess := rs })) := by
  obtain ⟨f1, f2, f3, f4, f5, f6, f7, f8, f9, f10, f11, f12, f13, f14, f15, f16, f17, f18, f19, f20, f21, f22, f23, f24, f25⟩ := hi
  constructor
  all_goals (intros; simp only [hubf, rsSet_sid2rs _ _ _ hrs, rsSet_rs2sid _ _ _ hrs] at *; grind)

theorem processLeave_inv (a : Acc) (s : Nat) (x : Sess) (hi : Inv a.h) (hx : a.h.sess s = some x) :
    Inv (processLeave a s x).h := by
  unfold processLeave
  simp only []
  have h1 := leaveRoom_inv a s hi
  have hs := leaveRoom_sess a s hi s
  by_cases hw : (leaveRoom a s).2 = true
  · simp only [hw, if_true]
    have hc := sendTo_core (leaveRoom a s).1 s (.room "")
    have h2 := h1.congr hc
    by_cases ha : (x.user = "" && x.kind ≠ .internal) = true
    · simp only [ha, if_true]
      apply anonAdd_inv h2
      have := hc.sess_fields s
      grind
    · simp only [ha]; exact h2
  · simp only [hw]; exact h1

theorem processAlready_inv (a : Acc) (s : Nat) (x : Sess) (rsid : String) (hi : Inv a.h)
    (hx : a.h.sess s = some x) (hroom : x.room.isSome = true) : Inv (processAlready a s x rsid).h := by
  unfold processAlready
  simp only []
  have hne : (if rsid = "" then pubRs s else rsid) ≠ "" := by
    split
    · exact pub_ne_empty s
    · assumption
  generalize (if rsid = "" then pubRs s else rsid) = rs at hne ⊢
  have hh : Inv (if x.roomSess = rs then a.h else setSess (rsSet a.h s rs) s (some { x with roomSess := rs })) := by
    by_cases he : x.roomSess = rs
    · simp only [he, if_true]; exact hi
    · simp only [he, if_false]; exact rsUpdate_inv hi hx hroom _ hne
  exact hh.congr (coreOf (sendTo_core _ _ _) rfl)

theorem processJoinReply_inv (a : Acc) (s : Nat) (x : Sess) (r rsid : String) (reply : JoinReply) (hi : Inv a.h)
    (hkk : ∀ y, a.h.sess s = some y → y.kind ≠ .virtual) : Inv (processJoinReply a s x r rsid reply).h := by
  have hd : Inv (if rsid ≠ "" then disconnectByRoomSessionId a rsid x.backend s else a).h := by
    split
    · exact disconnectByRoomSessionId_inv a rsid x.backend s hi
    · exact hi
  cases reply with
  | fail => exact hi.congr (sendTo_core _ _ _)
  | err code => exact hd.congr (sendTo_core _ _ _)
  | ok perms su =>
    apply doJoin_inv _ s r rsid perms su hd
    intro y hy
    split at hy
    · obtain ⟨y0, hy0, e, _⟩ := disconnectByRoomSessionId_sub a rsid x.backend s hi s y hy
      rw [e]; exact hkk y0 hy0
    · exact hkk y hy

theorem processRoom_inv (a : Acc) (s : Nat) (r rsid : String) (reply : JoinReply) (hi : Inv a.h) :
    Inv (processRoom a s r rsid reply).h := by
  unfold processRoom
  cases hx : a.h.sess s with
  | none => exact hi
  | some x =>
    simp only []
    have hkk : x.kind ≠ .virtual → ∀ y, a.h.sess s = some y → y.kind ≠ .virtual := by
      intro hk y hy; rw [hx] at hy; cases hy; exact hk
    by_cases hk : x.kind = .virtual
    · simp only [hk, if_true]; exact hi
    · simp only [hk, if_false]
      by_cases hr : r = ""
      · simp only [hr, if_true]; exact processLeave_inv a s x hi hx
      · simp only [hr, if_false]
        by_cases hal : alreadyIn a.h x s r = true
        · simp only [hal, if_true]
          apply processAlready_inv a s x rsid hi hx
          unfold alreadyIn at hal
          cases hrm : a.h.rooms x.backend r with
          | none => simp [hrm] at hal
          | some rm =>
            simp only [hrm] at hal
            have hm : s ∈ rm.members := by simpa using hal
            obtain ⟨y, hy, _, hyr⟩ := hi.mem_room _ _ _ _ hrm hm
            rw [hx] at hy; cases hy; simp [hyr]
        · simp only [hal]
          by_cases hin : x.kind = .internal
          · simp only [hin, if_true]; exact doJoin_inv a s r rsid none "" hi (hkk hk)
          · simp only [hin, if_false]; exact processJoinReply_inv a s x r rsid reply hi (hkk hk)

end SigModel.Hub
