/-
C04, observer side: lemmas on the duplicate-join filter and on what a listener of a room holds after a
join / leave event was published to the room (`Model/HubView.lean`).
-/
import SigModel.Model.HubView

namespace SigModel.Hub

/-- The replay of what is written to a session is, literally, its `seenJoin` list: the filter lets through
exactly what it adds, and removes what a leave event names. -/
theorem replay_filter (x : Sess) (m : Msg) :
    (filterMessage x m).1.seenJoin = replay x.seenJoin (filterMessage x m).2 := by
  cases m <;> simp only [filterMessage, replay]
  case join ss =>
    split
    · rfl
    · rfl

/-- The filter changes nothing but `seenJoin`. -/
theorem filter_frame (x : Sess) (m : Msg) :
    let x1 := (filterMessage x m).1
    x1.backend = x.backend ∧ x1.kind = x.kind ∧ x1.room = x.room ∧ x1.conn = x.conn ∧ x1.parent = x.parent := by
  cases m <;> simp only [filterMessage] <;> try (split <;> simp)
  all_goals simp

/-- After a join event for `ss` a session has seen exactly what it had seen before, and `ss`. -/
theorem seen_after_join (x : Sess) (ss : List Nat) (t : Nat) :
    t ∈ (filterMessage x (.join ss)).1.seenJoin ↔ t ∈ x.seenJoin ∨ t ∈ ss := by
  simp only [filterMessage]
  split
  · rename_i h
    constructor
    · exact Or.inl
    · rintro (h1 | h1)
      · exact h1
      · -- nothing of `ss` is fresh
        have : t ∉ (ss.filter (fun s => !x.seenJoin.contains s)) := by
          intro hm
          have : t ∈ (ss.filter (fun s => !x.seenJoin.contains s)).eraseDups := List.mem_eraseDups.mpr hm
          rw [h] at this; cases this
        simp only [List.mem_filter, h1, true_and, Bool.not_eq_true', List.contains_eq_mem, decide_eq_false_iff_not, Classical.not_not] at this
        exact this
  · simp only [List.mem_append, List.mem_eraseDups, List.mem_filter, Bool.not_eq_true', List.contains_eq_mem,
      decide_eq_false_iff_not]
    constructor
    · rintro (h1 | ⟨h1, _⟩)
      · exact Or.inl h1
      · exact Or.inr h1
    · rintro (h1 | h1)
      · exact Or.inl h1
      · by_cases h2 : t ∈ x.seenJoin
        · exact Or.inl h2
        · exact Or.inr ⟨h1, h2⟩

/-- What passes the filter of a join event is new to the observer: replaying never adds an id it holds. -/
theorem join_passes_fresh (x : Sess) (ss fresh : List Nat) (h : (filterMessage x (.join ss)).2 = some (.join fresh)) :
    ∀ t, t ∈ fresh → t ∉ x.seenJoin ∧ t ∈ ss := by
  simp only [filterMessage] at h
  split at h
  · cases h
  · simp only [Option.some.injEq, Msg.join.injEq] at h
    subst h
    intro t ht
    have := List.mem_eraseDups.mp ht
    simp only [List.mem_filter, Bool.not_eq_true', List.contains_eq_mem, decide_eq_false_iff_not] at this
    exact ⟨this.2, this.1⟩

/-- After a leave event for `ss` a session has seen what it had seen before, without `ss`. -/
theorem seen_after_leave (x : Sess) (ss : List Nat) (t : Nat) :
    t ∈ (filterMessage x (.leave ss)).1.seenJoin ↔ t ∈ x.seenJoin ∧ t ∉ ss := by
  simp [filterMessage]

/-- A leave event is never held back. -/
theorem leave_passes (x : Sess) (ss : List Nat) : (filterMessage x (.leave ss)).2 = some (.leave ss) := rfl

/-- Messages other than join / leave events leave the view alone. -/
theorem seen_other (x : Sess) (m : Msg) (hj : ∀ ss, m ≠ .join ss) (hl : ∀ ss, m ≠ .leave ss) :
    (filterMessage x m).1.seenJoin = x.seenJoin := by
  cases m <;> simp_all [filterMessage]

end SigModel.Hub

namespace SigModel.Hub

/-! ### publication of a join / leave event to the listeners of a room -/

/-- What `sendTo` does to the tables when the addressee is not a virtual session: only its own record changes,
and of that only the view (`seenJoin`) and the queue. -/
theorem sendTo_self (a : Acc) (l : Nat) (m : Msg) (x : Sess) (hx : a.h.sess l = some x) (hk : x.kind ≠ .virtual) :
    (∃ y, (sendTo a l m).h.sess l = some y ∧ y.seenJoin = (filterMessage x m).1.seenJoin ∧ y.kind = x.kind ∧
        y.room = x.room ∧ y.backend = x.backend) ∧
    (∀ l', l' ≠ l → (sendTo a l m).h.sess l' = a.h.sess l') ∧
    (sendTo a l m).h.rooms = a.h.rooms ∧ (sendTo a l m).h.roomL = a.h.roomL := by
  have ff := filter_frame x m
  have ht : target a.h l = l := by simp [target, hx, hk]
  unfold sendTo
  simp only [ht, hx]
  generalize hf : filterMessage x m = f at ff
  obtain ⟨x1, om⟩ := f
  simp only at ff ⊢
  cases om with
  | none => simp_all [setSess]
  | some m1 =>
    simp only
    cases hc : x1.conn with
    | some c => simp_all [setSess]
    | none =>
      simp only
      split <;> simp_all [setSess]

end SigModel.Hub

namespace SigModel.Hub

/-- A session that may receive room events: an ordinary or internal session that is in a room. -/
def Listens (h : Hub) (l : Nat) : Prop := ∃ x, h.sess l = some x ∧ x.kind ≠ .virtual ∧ x.room.isSome = true

def seenOf (h : Hub) (l : Nat) : List Nat := match h.sess l with | some x => x.seenJoin | none => []

/-- The effect of an event on a view, as a predicate on ids. -/
def viewAfter (m : Msg) (before : List Nat) (t : Nat) : Prop :=
  match m with
  | .join ss => t ∈ before ∨ t ∈ ss
  | .leave ss => t ∈ before ∧ t ∉ ss
  | _ => t ∈ before

theorem procClient_event (a : Acc) (l : Nat) (m : Msg) (hm : (∃ ss, m = .join ss) ∨ (∃ ss, m = .leave ss))
    (hl : Listens a.h l) :
    Listens (procClient a l (.msg m)).h l ∧
    (∀ t, t ∈ seenOf (procClient a l (.msg m)).h l ↔ viewAfter m (seenOf a.h l) t) ∧
    (∀ l', l' ≠ l → (procClient a l (.msg m)).h.sess l' = a.h.sess l') ∧
    (procClient a l (.msg m)).h.rooms = a.h.rooms ∧ (procClient a l (.msg m)).h.roomL = a.h.roomL := by
  obtain ⟨x, hx, hk, hr⟩ := hl
  have hp : passesAsyncFilter a.h l x m = true := by
    rcases hm with ⟨ss, rfl⟩ | ⟨ss, rfl⟩ <;> simp [passesAsyncFilter, hr]
  obtain ⟨⟨y, hy, hs, hyk, hyr, _⟩, ho, hrm, hrl⟩ := sendTo_self a l m x hx hk
  have e : procClient a l (.msg m) = sendTo a l m := by simp [procClient, hx, hp]
  rw [e]
  refine ⟨⟨y, hy, hyk ▸ hk, hyr ▸ hr⟩, ?_, ho, hrm, hrl⟩
  intro t
  simp only [seenOf, hy, hx, hs]
  rcases hm with ⟨ss, rfl⟩ | ⟨ss, rfl⟩
  · exact seen_after_join x ss t
  · exact seen_after_leave x ss t

/-- **Publication lemma.** A join or leave event published to a list of distinct listening sessions changes the
view of each of them by exactly that event, and nothing of any other session, of the rooms or of the
listener lists. -/
theorem foldl_event (m : Msg) (hm : (∃ ss, m = .join ss) ∨ (∃ ss, m = .leave ss)) (ls : List Nat) :
    ∀ (a : Acc), ls.Nodup → (∀ l ∈ ls, Listens a.h l) →
    let a' := ls.foldl (fun a l => procClient a l (.msg m)) a
    (∀ l ∈ ls, Listens a'.h l ∧ ∀ t, t ∈ seenOf a'.h l ↔ viewAfter m (seenOf a.h l) t) ∧
    (∀ l', l' ∉ ls → a'.h.sess l' = a.h.sess l') ∧ a'.h.rooms = a.h.rooms ∧ a'.h.roomL = a.h.roomL := by
  induction ls with
  | nil => intro a _ _; simp
  | cons l ls ih =>
    intro a hn hl
    have hn' := List.nodup_cons.mp hn
    obtain ⟨h1, h2, h3, h4, h5⟩ := procClient_event a l m hm (hl l (List.mem_cons_self))
    have hl' : ∀ k ∈ ls, Listens (procClient a l (.msg m)).h k := by
      intro k hk
      have hne : k ≠ l := fun e => hn'.1 (e ▸ hk)
      obtain ⟨x, hx, r⟩ := hl k (List.mem_cons_of_mem _ hk)
      exact ⟨x, (h3 k hne).trans hx, r⟩
    obtain ⟨i1, i2, i3, i4⟩ := ih (procClient a l (.msg m)) hn'.2 hl'
    simp only [List.foldl_cons]
    refine ⟨?_, ?_, i3.trans h4, i4.trans h5⟩
    · intro k hk
      rcases List.mem_cons.mp hk with rfl | hk
      · -- the head: untouched by the rest of the fold
        have e := i2 k hn'.1
        refine ⟨?_, ?_⟩
        · obtain ⟨y, hy, r⟩ := h1; exact ⟨y, e.trans hy, r⟩
        · intro t; simp only [seenOf, e]; exact h2 t
      · have hne : k ≠ l := fun e => hn'.1 (e ▸ hk)
        obtain ⟨j1, j2⟩ := i1 k hk
        refine ⟨j1, ?_⟩
        intro t
        rw [j2 t]
        simp only [seenOf, h3 k hne]
    · intro k hk
      have hk1 : k ≠ l := fun e => hk (e ▸ List.mem_cons_self)
      have hk2 : k ∉ ls := fun e => hk (List.mem_cons_of_mem _ e)
      exact (i2 k hk2).trans (h3 k hk1)

/-- `pubRoom` of a join / leave event, given that the listeners of the room are distinct listening sessions (clauses
`roomL_iff`, `roomL_nodup` of the invariant, which hold in every reachable state). -/
theorem pubRoom_event (a : Acc) (b : Nat) (r : String) (m : Msg) (hm : (∃ ss, m = .join ss) ∨ (∃ ss, m = .leave ss))
    (hn : (a.h.roomL b r).Nodup) (hl : ∀ l ∈ a.h.roomL b r, Listens a.h l) :
    let a' := pubRoom a b r (.msg m)
    (∀ l ∈ a.h.roomL b r, ∀ t, t ∈ seenOf a'.h l ↔ viewAfter m (seenOf a.h l) t) ∧
    (∀ l', l' ∉ a.h.roomL b r → a'.h.sess l' = a.h.sess l') ∧ a'.h.rooms = a.h.rooms ∧ a'.h.roomL = a.h.roomL := by
  obtain ⟨h1, h2, h3, h4⟩ := foldl_event m hm (a.h.roomL b r) a hn hl
  exact ⟨fun l hl' => (h1 l hl').2, h2, h3, h4⟩

end SigModel.Hub
