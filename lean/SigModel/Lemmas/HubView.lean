/-
C04, observer side: lemmas on the duplicate-join filter and on what a listener of a room holds after a
join / leave event was published to the room (`Model/HubView.lean`).
-/
import SigModel.Model.HubView
import SigModel.Lemmas.HubFields

namespace SigModel.Hub

/-- The replay of what is written to a session is, literally, its `seenJoin` list: the filter lets through
exactly what it adds, and removes what a leave event names. -/
theorem replay_filter (x : Sess) (m : Msg) :
    (filterMessage x m).1.seenJoin = replay x.seenJoin (filterMessage x m).2 := by
  cases m <;> simp only [filterMessage, replay]
  case join ss =>
    split
    · rfl
    · rfl

/-- The filter changes nothing but `seenJoin`. -/
theorem filter_frame (x : Sess) (m : Msg) :
    let x1 := (filterMessage x m).1
    x1.backend = x.backend ∧ x1.kind = x.kind ∧ x1.room = x.room ∧ x1.conn = x.conn ∧ x1.parent = x.parent := by
  cases m <;> simp only [filterMessage] <;> try (split <;> simp)
  all_goals simp

/-- After a join event for `ss` a session has seen exactly what it had seen before, and `ss`. -/
theorem seen_after_join (x : Sess) (ss : List Nat) (t : Nat) :
    t ∈ (filterMessage x (.join ss)).1.seenJoin ↔ t ∈ x.seenJoin ∨ t ∈ ss := by
  simp only [filterMessage]
  split
  · rename_i h
    constructor
    · exact Or.inl
    · rintro (h1 | h1)
      · exact h1
      · -- nothing of `ss` is fresh
        have : t ∉ (ss.filter (fun s => !x.seenJoin.contains s)) := by
          intro hm
          have : t ∈ (ss.filter (fun s => !x.seenJoin.contains s)).eraseDups := List.mem_eraseDups.mpr hm
          rw [h] at this; cases this
        simp only [List.mem_filter, h1, true_and, Bool.not_eq_true', List.contains_eq_mem, decide_eq_false_iff_not, Classical.not_not] at this
        exact this
  · simp only [List.mem_append, List.mem_eraseDups, List.mem_filter, Bool.not_eq_true', List.contains_eq_mem,
      decide_eq_false_iff_not]
    constructor
    · rintro (h1 | ⟨h1, _⟩)
      · exact Or.inl h1
      · exact Or.inr h1
    · rintro (h1 | h1)
      · exact Or.inl h1
      · by_cases h2 : t ∈ x.seenJoin
        · exact Or.inl h2
        · exact Or.inr ⟨h1, h2⟩

/-- What passes the filter of a join event is new to the observer: replaying never adds an id it holds. -/
theorem join_passes_fresh (x : Sess) (ss fresh : List Nat) (h : (filterMessage x (.join ss)).2 = some (.join fresh)) :
    ∀ t, t ∈ fresh → t ∉ x.seenJoin ∧ t ∈ ss := by
  simp only [filterMessage] at h
  split at h
  · cases h
  · simp only [Option.some.injEq, Msg.join.injEq] at h
    subst h
    intro t ht
    have := List.mem_eraseDups.mp ht
    simp only [List.mem_filter, Bool.not_eq_true', List.contains_eq_mem, decide_eq_false_iff_not] at this
    exact ⟨this.2, this.1⟩

/-- After a leave event for `ss` a session has seen what it had seen before, without `ss`. -/
theorem seen_after_leave (x : Sess) (ss : List Nat) (t : Nat) :
    t ∈ (filterMessage x (.leave ss)).1.seenJoin ↔ t ∈ x.seenJoin ∧ t ∉ ss := by
  simp [filterMessage]

/-- A leave event is never held back. -/
theorem leave_passes (x : Sess) (ss : List Nat) : (filterMessage x (.leave ss)).2 = some (.leave ss) := rfl

/-- Messages other than join / leave events leave the view alone. -/
theorem seen_other (x : Sess) (m : Msg) (hj : ∀ ss, m ≠ .join ss) (hl : ∀ ss, m ≠ .leave ss) :
    (filterMessage x m).1.seenJoin = x.seenJoin := by
  cases m <;> simp_all [filterMessage]

end SigModel.Hub

namespace SigModel.Hub

/-! ### publication of a join / leave event to the listeners of a room -/

/-- What `sendTo` does to the tables when the addressee is not a virtual session: only its own record changes,
and of that only the view (`seenJoin`) and the queue. -/
theorem sendTo_self (a : Acc) (l : Nat) (m : Msg) (x : Sess) (hx : a.h.sess l = some x) (hk : x.kind ≠ .virtual) :
    (∃ y, (sendTo a l m).h.sess l = some y ∧ y.seenJoin = (filterMessage x m).1.seenJoin ∧ y.kind = x.kind ∧
        y.room = x.room ∧ y.backend = x.backend) ∧
    (∀ l', l' ≠ l → (sendTo a l m).h.sess l' = a.h.sess l') ∧
    (sendTo a l m).h.rooms = a.h.rooms ∧ (sendTo a l m).h.roomL = a.h.roomL ∧ (sendTo a l m).h.sessL = a.h.sessL := by
  have ff := filter_frame x m
  have ht : target a.h l = l := by simp [target, hx, hk]
  unfold sendTo
  simp only [ht, hx]
  generalize hf : filterMessage x m = f at ff
  obtain ⟨x1, om⟩ := f
  simp only at ff ⊢
  cases om with
  | none => simp_all [setSess]
  | some m1 =>
    simp only
    cases hc : x1.conn with
    | some c => simp_all [setSess]
    | none =>
      simp only
      split <;> simp_all [setSess]

end SigModel.Hub

namespace SigModel.Hub

/-- A session that may receive room events: an ordinary or internal session that is in a room. -/
def Listens (h : Hub) (l : Nat) : Prop := ∃ x, h.sess l = some x ∧ x.kind ≠ .virtual ∧ x.room.isSome = true

def seenOf (h : Hub) (l : Nat) : List Nat := match h.sess l with | some x => x.seenJoin | none => []

/-- The effect of an event on a view, as a predicate on ids. -/
def viewAfter (m : Msg) (before : List Nat) (t : Nat) : Prop :=
  match m with
  | .join ss => t ∈ before ∨ t ∈ ss
  | .leave ss => t ∈ before ∧ t ∉ ss
  | _ => t ∈ before

theorem procClient_event (a : Acc) (l : Nat) (m : Msg) (hm : (∃ ss, m = .join ss) ∨ (∃ ss, m = .leave ss))
    (hl : Listens a.h l) :
    Listens (procClient a l (.msg m)).h l ∧
    (∀ t, t ∈ seenOf (procClient a l (.msg m)).h l ↔ viewAfter m (seenOf a.h l) t) ∧
    (∀ l', l' ≠ l → (procClient a l (.msg m)).h.sess l' = a.h.sess l') ∧
    (procClient a l (.msg m)).h.rooms = a.h.rooms ∧ (procClient a l (.msg m)).h.roomL = a.h.roomL ∧
    (procClient a l (.msg m)).h.sessL = a.h.sessL := by
  obtain ⟨x, hx, hk, hr⟩ := hl
  have hp : passesAsyncFilter a.h l x m = true := by
    rcases hm with ⟨ss, rfl⟩ | ⟨ss, rfl⟩ <;> simp [passesAsyncFilter, hr]
  obtain ⟨⟨y, hy, hs, hyk, hyr, _⟩, ho, hrm, hrl, hsl⟩ := sendTo_self a l m x hx hk
  have e : procClient a l (.msg m) = sendTo a l m := by simp [procClient, hx, hp]
  rw [e]
  refine ⟨⟨y, hy, hyk ▸ hk, hyr ▸ hr⟩, ?_, ho, hrm, hrl, hsl⟩
  intro t
  simp only [seenOf, hy, hx, hs]
  rcases hm with ⟨ss, rfl⟩ | ⟨ss, rfl⟩
  · exact seen_after_join x ss t
  · exact seen_after_leave x ss t

/-- **Publication lemma.** A join or leave event published to a list of distinct listening sessions changes the
view of each of them by exactly that event, and nothing of any other session, of the rooms or of the
listener lists. -/
theorem foldl_event (m : Msg) (hm : (∃ ss, m = .join ss) ∨ (∃ ss, m = .leave ss)) (ls : List Nat) :
    ∀ (a : Acc), ls.Nodup → (∀ l ∈ ls, Listens a.h l) →
    let a' := ls.foldl (fun a l => procClient a l (.msg m)) a
    (∀ l ∈ ls, Listens a'.h l ∧ ∀ t, t ∈ seenOf a'.h l ↔ viewAfter m (seenOf a.h l) t) ∧
    (∀ l', l' ∉ ls → a'.h.sess l' = a.h.sess l') ∧ a'.h.rooms = a.h.rooms ∧ a'.h.roomL = a.h.roomL ∧
    a'.h.sessL = a.h.sessL := by
  induction ls with
  | nil => intro a _ _; simp
  | cons l ls ih =>
    intro a hn hl
    have hn' := List.nodup_cons.mp hn
    obtain ⟨h1, h2, h3, h4, h5, h6⟩ := procClient_event a l m hm (hl l (List.mem_cons_self))
    have hl' : ∀ k ∈ ls, Listens (procClient a l (.msg m)).h k := by
      intro k hk
      have hne : k ≠ l := fun e => hn'.1 (e ▸ hk)
      obtain ⟨x, hx, r⟩ := hl k (List.mem_cons_of_mem _ hk)
      exact ⟨x, (h3 k hne).trans hx, r⟩
    obtain ⟨i1, i2, i3, i4, i5⟩ := ih (procClient a l (.msg m)) hn'.2 hl'
    simp only [List.foldl_cons]
    refine ⟨?_, ?_, i3.trans h4, i4.trans h5, i5.trans h6⟩
    · intro k hk
      rcases List.mem_cons.mp hk with rfl | hk
      · -- the head: untouched by the rest of the fold
        have e := i2 k hn'.1
        refine ⟨?_, ?_⟩
        · obtain ⟨y, hy, r⟩ := h1; exact ⟨y, e.trans hy, r⟩
        · intro t; simp only [seenOf, e]; exact h2 t
      · have hne : k ≠ l := fun e => hn'.1 (e ▸ hk)
        obtain ⟨j1, j2⟩ := i1 k hk
        refine ⟨j1, ?_⟩
        intro t
        rw [j2 t]
        simp only [seenOf, h3 k hne]
    · intro k hk
      have hk1 : k ≠ l := fun e => hk (e ▸ List.mem_cons_self)
      have hk2 : k ∉ ls := fun e => hk (List.mem_cons_of_mem _ e)
      exact (i2 k hk2).trans (h3 k hk1)

/-- `pubRoom` of a join / leave event, given that the listeners of the room are distinct listening sessions (clauses
`roomL_iff`, `roomL_nodup` of the invariant, which hold in every reachable state). -/
theorem pubRoom_event (a : Acc) (b : Nat) (r : String) (m : Msg) (hm : (∃ ss, m = .join ss) ∨ (∃ ss, m = .leave ss))
    (hn : (a.h.roomL b r).Nodup) (hl : ∀ l ∈ a.h.roomL b r, Listens a.h l) :
    let a' := pubRoom a b r (.msg m)
    (∀ l ∈ a.h.roomL b r, ∀ t, t ∈ seenOf a'.h l ↔ viewAfter m (seenOf a.h l) t) ∧
    (∀ l', l' ∉ a.h.roomL b r → a'.h.sess l' = a.h.sess l') ∧ a'.h.rooms = a.h.rooms ∧ a'.h.roomL = a.h.roomL ∧
    a'.h.sessL = a.h.sessL ∧ (∀ l ∈ a.h.roomL b r, Listens a'.h l) := by
  obtain ⟨h1, h2, h3, h4, h5⟩ := foldl_event m hm (a.h.roomL b r) a hn hl
  exact ⟨fun l hl' => (h1 l hl').2, h2, h3, h4, h5, fun l hl' => (h1 l hl').1⟩

end SigModel.Hub

namespace SigModel.Hub


/-- **Leaving keeps the observers right.** If the listeners of room `(b, r)` all hold the room's member set, then after
`Room.RemoveSession` of an ordinary member `s` (table update + publication of `leave [s]`) they all hold the new
member set.  (`leaveRoom` has taken `s` off the listener list before, so `s` itself is not among them.) -/
theorem roomRemoveSession_views (a : Acc) (b : Nat) (r : String) (s : Nat) (rm : Room)
    (hrm : a.h.rooms b r = some rm) (hs : s ∈ rm.members)
    (hn : (a.h.roomL b r).Nodup) (hl : ∀ l ∈ a.h.roomL b r, Listens a.h l)
    (hv : ∀ l ∈ a.h.roomL b r, ∀ t, t ∈ seenOf a.h l ↔ t ∈ rm.members) :
    ∀ l ∈ a.h.roomL b r, ∀ t, t ∈ seenOf (roomRemoveSession a b r s .client).h l ↔ t ∈ removeL rm.members s := by
  intro l hl' t
  have hc : rm.members.contains s = true := by simpa using hs
  -- the table update changes the room record only
  have key : ∀ (h1 : Hub), h1.sess = a.h.sess → h1.roomL = a.h.roomL →
      (t ∈ seenOf (pubRoom { a with h := h1 } b r (.msg (.leave [s]))).h l ↔ t ∈ removeL rm.members s) := by
    intro h1 e1 e2
    have hn1 : (h1.roomL b r).Nodup := by rw [e2]; exact hn
    have hl1 : ∀ k ∈ h1.roomL b r, Listens h1 k := by
      intro k hk; rw [e2] at hk
      obtain ⟨x, hx, r'⟩ := hl k hk
      exact ⟨x, by rw [e1]; exact hx, r'⟩
    obtain ⟨p1, -⟩ := pubRoom_event { a with h := h1 } b r (.leave [s]) (Or.inr ⟨[s], rfl⟩) hn1 hl1
    have := p1 l (by rw [e2]; exact hl') t
    rw [this]
    simp only [viewAfter, seenOf, e1, List.mem_singleton]
    have := hv l hl' t
    simp only [seenOf] at this
    rw [this, mem_removeL]
  unfold roomRemoveSession
  simp only [hrm, hc, Bool.not_true, Bool.false_eq_true, ↓reduceIte]
  have hk : (Kind.client = Kind.internal) = False := by simp
  simp only [hk, ↓reduceIte]
  split
  · exact key _ rfl rfl
  · exact key _ rfl rfl

end SigModel.Hub

namespace SigModel.Hub

/-- **Joining keeps the observers right, and gives the joiner the whole set.**  `Room.AddSession` for an ordinary
session `s` that is new to room `(b, r)`, from a state in which `s` is already on the room's listener list with an
empty view (`joinTables` did that) and the other listeners hold the member set: afterwards every listener, the
joiner included, holds the new member set (table update, `join [s]` to the room, the list of the other members
to `s` on its session subject). -/
theorem roomAddSession_views (a : Acc) (b : Nat) (r : String) (s : Nat) (su : String)
    (hnew : s ∉ ((a.h.rooms b r).getD {}).members)
    (hn : (a.h.roomL b r).Nodup) (hl : ∀ l ∈ a.h.roomL b r, Listens a.h l)
    (hs : s ∈ a.h.roomL b r) (hs0 : seenOf a.h s = []) (hsl : a.h.sessL s = true)
    (hv : ∀ l ∈ a.h.roomL b r, l ≠ s → ∀ t, t ∈ seenOf a.h l ↔ t ∈ ((a.h.rooms b r).getD {}).members) :
    ∀ l ∈ a.h.roomL b r, ∀ t, t ∈ seenOf (roomAddSession a b r s .client su).h l ↔
      t ∈ ((a.h.rooms b r).getD {}).members ∨ t = s := by
  intro l hl' t
  generalize hold : ((a.h.rooms b r).getD {}).members = old at *
  have hc : old.contains s = false := by simpa using hnew
  -- 1. the table update
  let a1 : Acc := { a with h := addMember a.h b r s su }
  have e1s : a1.h.sess = a.h.sess := rfl
  have e1l : a1.h.roomL = a.h.roomL := rfl
  have e1m : ∃ rm1, a1.h.rooms b r = some rm1 ∧ rm1.members = old ++ [s] := by
    refine ⟨newRoom a.h b r s su, by simp [a1, addMember, setRoom], ?_⟩
    simp only [newRoom, hold, hc, Bool.false_eq_true, ↓reduceIte]
  -- 2. `join [s]` to the room
  obtain ⟨p1, p2, p3, p4, p5, p6⟩ := pubRoom_event a1 b r (.join [s]) (Or.inl ⟨[s], rfl⟩) hn hl
  let a2 := pubRoom a1 b r (.msg (.join [s]))
  have v2 : ∀ k ∈ a.h.roomL b r, ∀ u, u ∈ seenOf a2.h k ↔ (u ∈ seenOf a.h k ∨ u = s) := by
    intro k hk u
    have := p1 k hk u
    simp only [viewAfter, List.mem_singleton] at this
    exact this
  -- 3. the list of the others to the joiner
  obtain ⟨rm1, hrm1, hm1⟩ := e1m
  have hrm2 : a2.h.rooms b r = some rm1 := by show (pubRoom a1 b r _).h.rooms b r = _; rw [p3]; exact hrm1
  have hothers : removeL rm1.members s = old := by
    rw [hm1]; simp only [removeL, List.filter_append]
    have : old.filter (· ≠ s) = old := by
      apply List.filter_eq_self.mpr
      intro u hu
      have : u ≠ s := fun e => hnew (e ▸ hu)
      simp [this]
    rw [this]; simp
  have e3 : roomAddSession a b r s .client su = notifySessionJoined a2 b r s := by
    simp only [roomAddSession, hold, hc, Bool.false_eq_true, ↓reduceIte, reduceCtorEq]
    rfl
  rw [e3]
  unfold notifySessionJoined
  simp only [hrm2, hothers]
  split
  · -- nobody else in the room
    rename_i hnil
    rw [v2 l hl' t]
    by_cases hls : l = s
    · subst hls; simp [hs0, hnil]
    · rw [hv l hl' hls t]
  · -- `procSession` hands the list to `s`
    have hL2 : Listens a2.h s := p6 s hs
    obtain ⟨x2, hx2, hk2, hr2⟩ := hL2
    have hsl2 : a2.h.sessL s = true := by show (pubRoom a1 b r _).h.sessL s = _; rw [p5]; exact hsl
    have e4 : procSession a2 s (.msg (.join old)) = procClient a2 s (.msg (.join old)) := by
      simp [procSession, hsl2, hx2, hk2]
    rw [e4]
    obtain ⟨-, q2, q3, -⟩ := procClient_event a2 s (.join old) (Or.inl ⟨old, rfl⟩) ⟨x2, hx2, hk2, hr2⟩
    by_cases hls : l = s
    · subst hls
      rw [q2 t]
      simp only [viewAfter]
      rw [v2 l hl' t, hs0]
      simp [or_comm]
    · simp only [seenOf, q3 l hls]
      have := v2 l hl' t
      simp only [seenOf] at this
      rw [this]
      have := hv l hl' hls t
      simp only [seenOf] at this
      rw [this]

end SigModel.Hub

namespace SigModel.Hub

theorem joinTables_frame (h : Hub) (s : Nat) (x : Sess) (r rsid : String) (perms : Option (List String)) :
    (∃ y, (joinTables h s x r rsid perms).sess s = some y ∧ y.kind = x.kind ∧ y.room = some r ∧ y.seenJoin = [] ∧
        y.backend = x.backend) ∧
    (∀ k, k ≠ s → (joinTables h s x r rsid perms).sess k = h.sess k) ∧
    (joinTables h s x r rsid perms).rooms = h.rooms ∧
    (joinTables h s x r rsid perms).roomL x.backend r = removeL (h.roomL x.backend r) s ++ [s] ∧
    (joinTables h s x r rsid perms).sessL = h.sessL := by
  unfold joinTables
  refine ⟨⟨{ x with roomSess := rsid, room := some r, seenJoin := [],
                     perms := match perms with | some p => some p | none => x.perms },
    by simp only [setSess, ↓reduceIte] <;> rfl, rfl, rfl, rfl, rfl⟩, ?_, ?_, ?_, ?_⟩
  · intro k hk
    simp only [setSess, hk, ↓reduceIte]
    split <;> simp [rsSet_sess, setRoomL]
  · simp only [setSess]
    split <;> simp [rsSet_rooms, setRoomL]
  · simp only [setSess]
    split <;> simp [rsSet_roomL, setRoomL]
  · simp only [setSess]
    split <;> simp [rsSet_sessL, setRoomL]

end SigModel.Hub

namespace SigModel.Hub

/-- **A join from outside any room.**  `Hub.processJoinRoom` after a positive backend answer, for an ordinary session `s`
that is in no room: if the listeners of the target room are distinct listening sessions that hold its member set
(and `s` has its session-subject listener), then afterwards every one of them *and the joiner* hold the new
member set. -/
theorem doJoin_views (a : Acc) (s : Nat) (x : Sess) (r rsid : String) (perms : Option (List String)) (su : String)
    (hx : a.h.sess s = some x) (hk : x.kind = .client) (hr : x.room = none)
    (hnew : s ∉ ((a.h.rooms x.backend r).getD {}).members)
    (hn : (a.h.roomL x.backend r).Nodup) (hl : ∀ l ∈ a.h.roomL x.backend r, Listens a.h l)
    (hsl : a.h.sessL s = true)
    (hv : ∀ l ∈ a.h.roomL x.backend r, l ≠ s → ∀ t, t ∈ seenOf a.h l ↔ t ∈ ((a.h.rooms x.backend r).getD {}).members) :
    ∀ l, (l ∈ a.h.roomL x.backend r ∨ l = s) → ∀ t, t ∈ seenOf (doJoin a s r rsid perms su).h l ↔
      t ∈ ((a.h.rooms x.backend r).getD {}).members ∨ t = s := by
  obtain ⟨⟨y, hy, hyk, hyr, hys, hyb⟩, j2, j3, j4, j5⟩ := joinTables_frame a.h s x r rsid perms
  have hkv : y.kind ≠ .virtual := by rw [hyk, hk]; simp
  let aJ : Acc := { a with h := joinTables a.h s x r rsid perms }
  obtain ⟨⟨z, hz, hzs, hzk, hzr, hzb⟩, s2, s3, s4, s5⟩ := sendTo_self aJ s (.room r) y hy hkv
  let a5 := sendTo aJ s (.room r)
  have e : doJoin a s r rsid perms su = roomAddSession a5 x.backend r s .client su := by
    simp only [doJoin, leaveRoom, hx, hr]
    simp only [hx, hk]
    rfl
  have hz0 : z.seenJoin = [] := by rw [hzs]; simpa [filterMessage] using hys
  have hsess : ∀ k, k ≠ s → a5.h.sess k = a.h.sess k := fun k hk' => (s2 k hk').trans (j2 k hk')
  have hrooms : a5.h.rooms = a.h.rooms := s3.trans j3
  have hroomL : a5.h.roomL x.backend r = removeL (a.h.roomL x.backend r) s ++ [s] := by
    show (sendTo aJ s (.room r)).h.roomL x.backend r = _
    rw [s4]; exact j4
  have hmem : ∀ k, k ∈ a5.h.roomL x.backend r ↔ (k ∈ a.h.roomL x.backend r ∨ k = s) := by
    intro k; rw [hroomL]; simp only [List.mem_append, mem_removeL, List.mem_singleton]
    by_cases hks : k = s <;> simp [hks]
  rw [e]
  intro l hl' t
  have := roomAddSession_views a5 x.backend r s su (by rw [hrooms]; exact hnew)
    (by
      rw [hroomL]
      refine List.nodup_append.mpr ⟨hn.filter _, by simp, ?_⟩
      intro u hu v hv'; simp only [List.mem_singleton] at hv'; subst hv'
      exact (mem_removeL.mp hu).2)
    (by
      intro k hk'
      rcases (hmem k).mp hk' with h1 | h1
      · by_cases hks : k = s
        · subst hks; exact ⟨z, hz, hzk ▸ hkv, by rw [hzr, hyr]; rfl⟩
        · obtain ⟨w, hw, r'⟩ := hl k h1; exact ⟨w, (hsess k hks).trans hw, r'⟩
      · subst h1; exact ⟨z, hz, hzk ▸ hkv, by rw [hzr, hyr]; rfl⟩)
    ((hmem s).mpr (Or.inr rfl))
    (by simp only [seenOf]; rw [show a5.h.sess s = some z from hz]; exact hz0)
    (by show (sendTo aJ s (.room r)).h.sessL s = true; rw [s5]; show (joinTables a.h s x r rsid perms).sessL s = true; rw [j5]; exact hsl)
    (by
      intro k hk' hks u
      rw [hrooms]
      rcases (hmem k).mp hk' with h1 | h1
      · have := hv k h1 hks u
        simp only [seenOf, hsess k hks] at this ⊢
        exact this
      · exact absurd h1 hks)
    l ((hmem l).mpr hl') t
  rw [hrooms] at this
  exact this

end SigModel.Hub

namespace SigModel.Hub

/-- What leaving room `(x.backend, r0)` does outside that room: only the leaver's own record and the records of
the room's (other) listeners change; other rooms, their listener lists and the session-subject listeners stay. -/
theorem leaveRoom_frame (a : Acc) (s : Nat) (x : Sess) (r0 : String) (rm0 : Room)
    (hx : a.h.sess s = some x) (hk : x.kind = .client) (hr : x.room = some r0)
    (hrm : a.h.rooms x.backend r0 = some rm0) (hs : s ∈ rm0.members)
    (hn : (a.h.roomL x.backend r0).Nodup) (hl : ∀ l ∈ a.h.roomL x.backend r0, Listens a.h l) :
    let a' := (leaveRoom a s).1
    (∃ y, a'.h.sess s = some y ∧ y.kind = .client ∧ y.room = none ∧ y.backend = x.backend ∧ y.children = x.children) ∧
    (∀ k, k ≠ s → k ∉ a.h.roomL x.backend r0 → a'.h.sess k = a.h.sess k) ∧
    (∀ b' r', ¬ (b' = x.backend ∧ r' = r0) → a'.h.rooms b' r' = a.h.rooms b' r' ∧ a'.h.roomL b' r' = a.h.roomL b' r') ∧
    a'.h.sessL = a.h.sessL := by
  intro a'
  let h3 := setSess (rsDelete (setRoomL a.h x.backend r0 (removeL (a.h.roomL x.backend r0) s)) s) s
    (some { x with kind := .client, room := none, roomSess := "", seenJoin := [] })
  have e : a' = roomRemoveSession { a with h := h3 } x.backend r0 s .client := by
    simp only [a', leaveRoom, hx, hr, hk, reduceCtorEq, ↓reduceIte]
    rfl
  have hsess : ∀ k, k ≠ s → h3.sess k = a.h.sess k := by
    intro k hk'; simp only [h3, hubf, hk', ↓reduceIte]
  have hsessS : h3.sess s = some { x with kind := .client, room := none, roomSess := "", seenJoin := [] } := by
    simp only [h3, hubf, ↓reduceIte]
  have hrooms : h3.rooms = a.h.rooms := by simp only [h3, hubf]
  have hroomL0 : h3.roomL x.backend r0 = removeL (a.h.roomL x.backend r0) s := by simp [h3, hubf]
  have hroomL' : ∀ b' r', ¬ (b' = x.backend ∧ r' = r0) → h3.roomL b' r' = a.h.roomL b' r' := by
    intro b' r' hne; simp [h3, hubf, hne]
  have hsessL : h3.sessL = a.h.sessL := by simp only [h3, hubf]
  have hc : rm0.members.contains s = true := by simpa using hs
  -- the publication of `leave [s]`
  have key : ∀ (h1 : Hub), h1.sess = h3.sess → h1.roomL = h3.roomL → h1.sessL = h3.sessL →
      (∀ b' r', ¬ (b' = x.backend ∧ r' = r0) → h1.rooms b' r' = a.h.rooms b' r') →
      let p := pubRoom { a with h := h1 } x.backend r0 (.msg (.leave [s]))
      (∃ y, p.h.sess s = some y ∧ y.kind = .client ∧ y.room = none ∧ y.backend = x.backend ∧ y.children = x.children) ∧
      (∀ k, k ≠ s → k ∉ a.h.roomL x.backend r0 → p.h.sess k = a.h.sess k) ∧
      (∀ b' r', ¬ (b' = x.backend ∧ r' = r0) → p.h.rooms b' r' = a.h.rooms b' r' ∧ p.h.roomL b' r' = a.h.roomL b' r') ∧
      p.h.sessL = a.h.sessL := by
    intro h1 e1 e2 e3 e4 p
    have hn1 : (h1.roomL x.backend r0).Nodup := by rw [e2, hroomL0]; exact hn.filter _
    have hl1 : ∀ k ∈ h1.roomL x.backend r0, Listens h1 k := by
      intro k hk'; rw [e2, hroomL0] at hk'
      obtain ⟨h1', h2'⟩ := mem_removeL.mp hk'
      obtain ⟨w, hw, r'⟩ := hl k h1'
      exact ⟨w, by rw [e1, hsess k h2']; exact hw, r'⟩
    obtain ⟨-, q2, q3, q4, q5, -⟩ := pubRoom_event { a with h := h1 } x.backend r0 (.leave [s]) (Or.inr ⟨[s], rfl⟩) hn1 hl1
    have hsn : s ∉ h1.roomL x.backend r0 := by
      rw [e2, hroomL0]; intro hm; exact (mem_removeL.mp hm).2 rfl
    refine ⟨⟨{ x with kind := .client, room := none, roomSess := "", seenJoin := [] },
      (q2 s hsn).trans (by rw [e1]; exact hsessS), rfl, rfl, rfl, rfl⟩, ?_, ?_, ?_⟩
    · intro k hks hkn
      have : k ∉ h1.roomL x.backend r0 := by
        rw [e2, hroomL0]; intro hm; exact hkn (mem_removeL.mp hm).1
      exact (q2 k this).trans (by rw [e1]; exact hsess k hks)
    · intro b' r' hne
      refine ⟨?_, ?_⟩
      · show (pubRoom _ _ _ _).h.rooms b' r' = _; rw [q3]; exact e4 b' r' hne
      · show (pubRoom _ _ _ _).h.roomL b' r' = _; rw [q4]; show h1.roomL b' r' = _; rw [e2]; exact hroomL' b' r' hne
    · show (pubRoom _ _ _ _).h.sessL = _; rw [q5]; show h1.sessL = _; rw [e3]; exact hsessL
  rw [e]
  unfold roomRemoveSession
  have hrm3 : h3.rooms x.backend r0 = some rm0 := by rw [hrooms]; exact hrm
  simp only [hrm3, hc, Bool.not_true, Bool.false_eq_true, ↓reduceIte, reduceCtorEq]
  split
  · exact key _ rfl rfl rfl (by intro b' r' hne; simp [setRoom, hne, hrooms])
  · exact key _ rfl rfl rfl (by intro b' r' hne; simp [setRoom, hne, hrooms])

end SigModel.Hub

namespace SigModel.Hub

/-- `doJoin` leaves the previous room first; what follows starts from the state after that leave. -/
theorem doJoin_after_leave (a : Acc) (s : Nat) (r rsid : String) (perms : Option (List String)) (su : String)
    (y : Sess) (hy : (leaveRoom a s).1.h.sess s = some y) (hyr : y.room = none) :
    doJoin a s r rsid perms su = doJoin (leaveRoom a s).1 s r rsid perms su := by
  have h2 : leaveRoom (leaveRoom a s).1 s = ((leaveRoom a s).1, false) := by
    generalize (leaveRoom a s).1 = a1 at *
    simp only [leaveRoom, hy, hyr]
  unfold doJoin
  rw [h2]

end SigModel.Hub

namespace SigModel.Hub

/-- Dropping a closed session from the tables touches no other session's record. -/
theorem dropClient_sess (h : Hub) (s : Nat) (y : Sess) (k : Nat) (hk : k ≠ s) : (dropClient h s y).sess k = h.sess k := by
  unfold dropClient dropFromTables
  cases y.conn <;> simp only [] <;> split <;> simp [setUserL, hk]

theorem dropClient_sess_self (h : Hub) (s : Nat) (y : Sess) : (dropClient h s y).sess s = none := by
  unfold dropClient dropFromTables
  cases y.conn <;> simp only [] <;> split <;> simp [setUserL]

end SigModel.Hub

namespace SigModel.Hub

/-- Views change through join / leave events only: writing any other message to a session leaves every view alone. -/
theorem sendTo_seenOf_other (a : Acc) (l : Nat) (m : Msg) (hj : ∀ ss, m ≠ .join ss) (hl : ∀ ss, m ≠ .leave ss) (k : Nat) :
    seenOf (sendTo a l m).h k = seenOf a.h k := by
  unfold sendTo
  dsimp only
  generalize target a.h l = s
  have key : ∀ (x y : Sess), a.h.sess s = some x → y.seenJoin = x.seenJoin →
      seenOf (setSess a.h s (some y)) k = seenOf a.h k := by
    intro x y hx hy
    unfold seenOf setSess
    by_cases hk : k = s
    · subst hk; simp [hx, hy]
    · simp [hk]
  cases hx : a.h.sess s with
  | none => rfl
  | some x =>
    have hs := seen_other x m hj hl
    dsimp only
    generalize filterMessage x m = f at hs
    obtain ⟨x1, om⟩ := f
    dsimp only at hs ⊢
    cases om with
    | none => exact key x x1 hx hs
    | some m1 =>
      dsimp only
      cases hc : x1.conn with
      | some c => exact key x x1 hx hs
      | none =>
        dsimp only
        split
        · exact key x x1 hx hs
        · exact key x _ hx hs

theorem procClient_seenOf_other (a : Acc) (l : Nat) (am : AMsg)
    (hj : ∀ ss, am ≠ .msg (.join ss)) (hl : ∀ ss, am ≠ .msg (.leave ss)) (k : Nat) :
    seenOf (procClient a l am).h k = seenOf a.h k := by
  unfold procClient
  cases hx : a.h.sess l with
  | none => rfl
  | some x =>
    cases am with
    | perms ps =>
      simp only
      unfold seenOf setSess
      by_cases hk : k = l
      · subst hk; simp [hx]
      · simp [hk]
    | msg m =>
      simp only
      split
      · exact sendTo_seenOf_other a l m (fun ss e => hj ss (e ▸ rfl)) (fun ss e => hl ss (e ▸ rfl)) k
      · rfl

/-- Publishing anything but a join / leave event to a room changes no session's view. -/
theorem pubRoom_seenOf_other (a : Acc) (b : Nat) (r : String) (am : AMsg)
    (hj : ∀ ss, am ≠ .msg (.join ss)) (hl : ∀ ss, am ≠ .msg (.leave ss)) (k : Nat) :
    seenOf (pubRoom a b r am).h k = seenOf a.h k := by
  unfold pubRoom
  generalize a.h.roomL b r = ls
  induction ls generalizing a with
  | nil => rfl
  | cons l ls ih =>
    simp only [List.foldl_cons]
    rw [ih (procClient a l am)]
    exact procClient_seenOf_other a l am hj hl k

end SigModel.Hub

namespace SigModel.Hub

/-- The participants list sent after an internal / virtual session came or went changes no view. -/
theorem publishUsers_seenOf (a : Acc) (b : Nat) (r : String) (k : Nat) :
    seenOf (publishUsersChangedWithInternal a b r).h k = seenOf a.h k := by
  unfold publishUsersChangedWithInternal
  cases a.h.rooms b r with
  | none => rfl
  | some rm =>
    dsimp only
    split
    · rfl
    · exact pubRoom_seenOf_other a b r _ (fun ss e => by cases e) (fun ss e => by cases e) k

/-- `roomRemoveSession_views` for every kind of leaving member (an internal client's leave is followed by a
participants list, a virtual session's by an update of the room's user list: neither touches a view). -/
theorem roomRemoveSession_views_any (a : Acc) (b : Nat) (r : String) (s : Nat) (kind : Kind) (rm : Room)
    (hrm : a.h.rooms b r = some rm) (hs : s ∈ rm.members)
    (hn : (a.h.roomL b r).Nodup) (hl : ∀ l ∈ a.h.roomL b r, Listens a.h l)
    (hv : ∀ l ∈ a.h.roomL b r, ∀ t, t ∈ seenOf a.h l ↔ t ∈ rm.members) :
    ∀ l ∈ a.h.roomL b r, ∀ t, t ∈ seenOf (roomRemoveSession a b r s kind).h l ↔ t ∈ removeL rm.members s := by
  intro l hl' t
  have hc : rm.members.contains s = true := by simpa using hs
  have key : ∀ (h1 : Hub), h1.sess = a.h.sess → h1.roomL = a.h.roomL →
      (t ∈ seenOf (pubRoom { a with h := h1 } b r (.msg (.leave [s]))).h l ↔ t ∈ removeL rm.members s) := by
    intro h1 e1 e2
    have hn1 : (h1.roomL b r).Nodup := by rw [e2]; exact hn
    have hl1 : ∀ k ∈ h1.roomL b r, Listens h1 k := by
      intro k hk; rw [e2] at hk
      obtain ⟨x, hx, r'⟩ := hl k hk
      exact ⟨x, by rw [e1]; exact hx, r'⟩
    obtain ⟨p1, -⟩ := pubRoom_event { a with h := h1 } b r (.leave [s]) (Or.inr ⟨[s], rfl⟩) hn1 hl1
    have := p1 l (by rw [e2]; exact hl') t
    rw [this]
    simp only [viewAfter, seenOf, e1, List.mem_singleton]
    have := hv l hl' t
    simp only [seenOf] at this
    rw [this, mem_removeL]
  unfold roomRemoveSession
  simp only [hrm, hc, Bool.not_true, Bool.false_eq_true, ↓reduceIte]
  split <;> split <;> first
    | (rw [publishUsers_seenOf]; exact key _ rfl rfl)
    | exact key _ rfl rfl

end SigModel.Hub
