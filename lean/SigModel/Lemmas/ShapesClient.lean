import SigModel.Spec.ShapesClient

/-! Helper lemmas for C10: what the regenerated validation table guarantees. -/
namespace SigModel.ShapesClient

/-- The facts of the current working tree. -/
abbrev Fc : Facts := Facts.current

@[simp] theorem andThen_eq_ok (a b : V) : a.andThen b = .ok ↔ a = .ok ∧ b = .ok := by
  cases a <;> simp [V.andThen]

theorem andThen_crash {a b : V} {site : String} (h : a.andThen b = .crash site) :
    a = .crash site ∨ b = .crash site := by
  cases a <;> simp_all [V.andThen]

theorem andThen_err {a b : V} {c : String} (h : a.andThen b = .err c) :
    a = .err c ∨ (a = .ok ∧ b = .err c) := by
  cases a <;> simp_all [V.andThen]

/-! ### the table -/

/-- In the current table every pointer member that is validated is first compared with nil. -/
theorem sub_nil_all : Fc.validation.all (fun r =>
    !(r.2.2.2 == "sub" && (r.1 == "ClientMessage" || r.1 == "InternalClientMessage" || r.1 == "DialoutInternalClientMessage")) ||
      Fc.validation.contains (r.1, r.2.1, r.2.2.1, "nil")) = true := by decide

theorem sub_nil (recv tag field : String)
    (hr : recv = "ClientMessage" ∨ recv = "InternalClientMessage" ∨ recv = "DialoutInternalClientMessage")
    (h : tbl Fc recv tag field "sub" = true) : tbl Fc recv tag field "nil" = true := by
  unfold tbl at *
  have hall := sub_nil_all
  rw [List.all_eq_true] at hall
  have hm : (recv, tag, field, "sub") ∈ Fc.validation := by
    simpa [List.contains_iff_mem] using h
  have := hall _ hm
  rcases hr with rfl | rfl | rfl <;> simpa using this

/-! ### checkField -/

theorem checkField_no_crash {α : Type} (recv tag field : String) (x : Option α) (sub : α → V) (site : String)
    (hr : recv = "ClientMessage" ∨ recv = "InternalClientMessage" ∨ recv = "DialoutInternalClientMessage")
    (hsub : ∀ a site, sub a ≠ .crash site) : checkField Fc recv tag field x sub ≠ .crash site := by
  unfold checkField
  cases x with
  | none =>
    simp only []
    split
    · simp [invalid]
    · split
      · rename_i h1 h2
        exact absurd (sub_nil recv tag field hr h2) h1
      · simp
  | some a =>
    simp only []
    split
    · exact hsub a site
    · simp

theorem checkField_ok_some {α : Type} {recv tag field : String} {x : Option α} {sub : α → V}
    (hg : tbl Fc recv tag field "nil" = true) (h : checkField Fc recv tag field x sub = .ok) : x.isSome = true := by
  cases x with
  | some a => rfl
  | none => simp [checkField, hg, invalid] at h

theorem checkField_ok_sub {α : Type} {recv tag field : String} {a : α} {sub : α → V}
    (hs : tbl Fc recv tag field "sub" = true) (h : checkField Fc recv tag field (some a) sub = .ok) : sub a = .ok := by
  simpa [checkField, hs] using h

/-- A failing `checkField` fails with a proper error code, never empty. -/
theorem checkField_err {α : Type} {recv tag field : String} {x : Option α} {sub : α → V} {c : String}
    (h : checkField Fc recv tag field x sub = .err c) :
    c = "invalid_format" ∨ ∃ a, x = some a ∧ sub a = .err c := by
  unfold checkField at h
  cases x with
  | none =>
    simp only [] at h
    split at h
    · left; simp [invalid] at h; exact h.symm
    · split at h <;> simp at h
  | some a =>
    simp only [] at h
    split at h
    · right; exact ⟨a, rfl, h⟩
    · simp at h

/-! ### sub-validators never crash (current table) -/

theorem checkHello_no_crash (h : Hello) (site : String) : checkHello Fc h ≠ .crash site := by
  unfold checkHello
  have hg : tbl Fc "HelloClientMessage" "ResumeId=" "Auth" "nil" = true := by decide
  split
  · simp
  · split
    · simp
    · split
      · simp [hg, invalid]
      · rename_i a _
        split
        · simp [invalid]
        · split
          · split <;> (try simp [invalid])
            split <;> simp [invalid]
          · split
            · split
              · simp [invalid]
              · split <;> simp [invalid]
            · simp [invalid]

theorem checkFederation_no_crash (f : Federation) (site : String) : checkFederation f ≠ .crash site := by
  unfold checkFederation; repeat (first | split | simp [invalid])

theorem checkRoom_no_crash (r : RoomMsg) (site : String) : checkRoom Fc r ≠ .crash site := by
  unfold checkRoom
  split
  · simp
  · split
    · exact checkFederation_no_crash _ _
    · simp

theorem checkMessageMsg_no_crash (m : MessageMsg) (site : String) : checkMessageMsg Fc m ≠ .crash site := by
  unfold checkMessageMsg; repeat (first | split | simp [invalid])

theorem checkControl_no_crash (m : MessageMsg) (site : String) : checkControl Fc m ≠ .crash site := by
  unfold checkControl; split
  · exact checkMessageMsg_no_crash _ _
  · simp

theorem checkCommon_no_crash (c : Common) (site : String) : checkCommon c ≠ .crash site := by
  unfold checkCommon; repeat (first | split | simp [invalid])

theorem checkAdd_no_crash (a : AddSession) (site : String) : checkAdd Fc a ≠ .crash site := by
  unfold checkAdd; split
  · simp [invalid]
  · split
    · exact checkCommon_no_crash _ _
    · simp

theorem checkUpd_no_crash (a : UpdateSession) (site : String) : checkUpd Fc a ≠ .crash site := by
  unfold checkUpd; split
  · exact checkCommon_no_crash _ _
  · simp

theorem checkRem_no_crash (a : Common) (site : String) : checkRem Fc a ≠ .crash site := by
  unfold checkRem; split
  · exact checkCommon_no_crash _ _
  · simp

theorem checkDialout_no_crash (d : Dialout) (site : String) : checkDialout Fc d ≠ .crash site := by
  unfold checkDialout
  split
  · simp [invalid]
  · intro h
    rcases andThen_crash h with h | h
    · exact checkField_no_crash _ _ _ _ _ _ (Or.inr (Or.inr rfl)) (by simp) h
    · exact checkField_no_crash _ _ _ _ _ _ (Or.inr (Or.inr rfl)) (by simp) h

theorem checkInternal_no_crash (i : Internal) (site : String) : checkInternal Fc i ≠ .crash site := by
  unfold checkInternal
  split
  · simp [invalid]
  · intro h
    have hr : "InternalClientMessage" = "ClientMessage" ∨ "InternalClientMessage" = "InternalClientMessage" ∨
        "InternalClientMessage" = "DialoutInternalClientMessage" := Or.inr (Or.inl rfl)
    rcases andThen_crash h with h | h
    · exact checkField_no_crash _ _ _ _ _ _ hr (fun a s => checkAdd_no_crash a s) h
    rcases andThen_crash h with h | h
    · exact checkField_no_crash _ _ _ _ _ _ hr (fun a s => checkUpd_no_crash a s) h
    rcases andThen_crash h with h | h
    · exact checkField_no_crash _ _ _ _ _ _ hr (fun a s => checkRem_no_crash a s) h
    rcases andThen_crash h with h | h
    · exact checkField_no_crash _ _ _ _ _ _ hr (by simp) h
    · exact checkField_no_crash _ _ _ _ _ _ hr (fun a s => checkDialout_no_crash a s) h

theorem checkTransient_no_crash (t : Transient) (site : String) : checkTransient Fc t ≠ .crash site := by
  unfold checkTransient; repeat (first | split | simp [invalid])

/-- `CheckValid` itself never panics: every sub-object it validates is first compared with nil. -/
theorem checkValid_no_crash (m : ClientMessage) (site : String) : checkValid Fc m ≠ .crash site := by
  unfold checkValid
  split
  · simp [invalid]
  · intro h
    have hr : "ClientMessage" = "ClientMessage" ∨ "ClientMessage" = "InternalClientMessage" ∨
        "ClientMessage" = "DialoutInternalClientMessage" := Or.inl rfl
    rcases andThen_crash h with h | h
    · exact checkField_no_crash _ _ _ _ _ _ hr (fun a s => checkHello_no_crash a s) h
    rcases andThen_crash h with h | h
    · exact checkField_no_crash _ _ _ _ _ _ hr (fun a s => checkRoom_no_crash a s) h
    rcases andThen_crash h with h | h
    · exact checkField_no_crash _ _ _ _ _ _ hr (fun a s => checkMessageMsg_no_crash a s) h
    rcases andThen_crash h with h | h
    · exact checkField_no_crash _ _ _ _ _ _ hr (fun a s => checkControl_no_crash a s) h
    rcases andThen_crash h with h | h
    · exact checkField_no_crash _ _ _ _ _ _ hr (fun a s => checkInternal_no_crash a s) h
    · exact checkField_no_crash _ _ _ _ _ _ hr (fun a s => checkTransient_no_crash a s) h

/-! ### validated ⇒ the sub-object of the type is there (and valid) -/

/-- the chain of `checkValid`, taken apart -/
theorem checkValid_ok_fields {m : ClientMessage} (h : checkValid Fc m = .ok) :
    checkField Fc "ClientMessage" m.mtype "Hello" m.hello (checkHello Fc) = .ok ∧
    checkField Fc "ClientMessage" m.mtype "Room" m.room (checkRoom Fc) = .ok ∧
    checkField Fc "ClientMessage" m.mtype "Message" m.message (checkMessageMsg Fc) = .ok ∧
    checkField Fc "ClientMessage" m.mtype "Control" m.control (checkControl Fc) = .ok ∧
    checkField Fc "ClientMessage" m.mtype "Internal" m.internal (checkInternal Fc) = .ok ∧
    checkField Fc "ClientMessage" m.mtype "TransientData" m.transient (checkTransient Fc) = .ok := by
  unfold checkValid at h
  split at h
  · simp [invalid] at h
  · simpa [and_assoc] using h

theorem valid_hello {m : ClientMessage} (h : checkValid Fc m = .ok) (ht : m.mtype = "hello") :
    ∃ x, m.hello = some x ∧ checkHello Fc x = .ok := by
  have h2 := (checkValid_ok_fields h).1
  rw [ht] at h2
  obtain ⟨r, hr⟩ := Option.isSome_iff_exists.mp (checkField_ok_some (by decide) h2)
  rw [hr] at h2
  exact ⟨r, hr, checkField_ok_sub (by decide) h2⟩

theorem valid_room {m : ClientMessage} (h : checkValid Fc m = .ok) (ht : m.mtype = "room") :
    ∃ r, m.room = some r ∧ checkRoom Fc r = .ok := by
  have h2 := (checkValid_ok_fields h).2.1
  rw [ht] at h2
  obtain ⟨r, hr⟩ := Option.isSome_iff_exists.mp (checkField_ok_some (by decide) h2)
  rw [hr] at h2
  exact ⟨r, hr, checkField_ok_sub (by decide) h2⟩

theorem valid_message {m : ClientMessage} (h : checkValid Fc m = .ok) (ht : m.mtype = "message") :
    ∃ r, m.message = some r ∧ checkMessageMsg Fc r = .ok := by
  have h2 := (checkValid_ok_fields h).2.2.1
  rw [ht] at h2
  obtain ⟨r, hr⟩ := Option.isSome_iff_exists.mp (checkField_ok_some (by decide) h2)
  rw [hr] at h2
  exact ⟨r, hr, checkField_ok_sub (by decide) h2⟩

theorem valid_control {m : ClientMessage} (h : checkValid Fc m = .ok) (ht : m.mtype = "control") :
    ∃ r, m.control = some r ∧ checkControl Fc r = .ok := by
  have h2 := (checkValid_ok_fields h).2.2.2.1
  rw [ht] at h2
  obtain ⟨r, hr⟩ := Option.isSome_iff_exists.mp (checkField_ok_some (by decide) h2)
  rw [hr] at h2
  exact ⟨r, hr, checkField_ok_sub (by decide) h2⟩

theorem valid_internal {m : ClientMessage} (h : checkValid Fc m = .ok) (ht : m.mtype = "internal") :
    ∃ r, m.internal = some r ∧ checkInternal Fc r = .ok := by
  have h2 := (checkValid_ok_fields h).2.2.2.2.1
  rw [ht] at h2
  obtain ⟨r, hr⟩ := Option.isSome_iff_exists.mp (checkField_ok_some (by decide) h2)
  rw [hr] at h2
  exact ⟨r, hr, checkField_ok_sub (by decide) h2⟩

theorem valid_transient {m : ClientMessage} (h : checkValid Fc m = .ok) (ht : m.mtype = "transient") :
    ∃ r, m.transient = some r ∧ checkTransient Fc r = .ok := by
  have h2 := (checkValid_ok_fields h).2.2.2.2.2
  rw [ht] at h2
  obtain ⟨r, hr⟩ := Option.isSome_iff_exists.mp (checkField_ok_some (by decide) h2)
  rw [hr] at h2
  exact ⟨r, hr, checkField_ok_sub (by decide) h2⟩

theorem checkInternal_ok_fields {i : Internal} (h : checkInternal Fc i = .ok) :
    checkField Fc "InternalClientMessage" i.itype "AddSession" i.add (checkAdd Fc) = .ok ∧
    checkField Fc "InternalClientMessage" i.itype "UpdateSession" i.upd (checkUpd Fc) = .ok ∧
    checkField Fc "InternalClientMessage" i.itype "RemoveSession" i.rem (checkRem Fc) = .ok ∧
    checkField Fc "InternalClientMessage" i.itype "InCall" i.incall (fun _ => .ok) = .ok ∧
    checkField Fc "InternalClientMessage" i.itype "Dialout" i.dialout (checkDialout Fc) = .ok := by
  unfold checkInternal at h
  split at h
  · simp [invalid] at h
  · simpa [and_assoc] using h

theorem internal_add {i : Internal} (h : checkInternal Fc i = .ok) (ht : i.itype = "addsession") : i.add.isSome = true := by
  have h2 := (checkInternal_ok_fields h).1
  rw [ht] at h2
  exact checkField_ok_some (by decide) h2

theorem internal_upd {i : Internal} (h : checkInternal Fc i = .ok) (ht : i.itype = "updatesession") : i.upd.isSome = true := by
  have h2 := (checkInternal_ok_fields h).2.1
  rw [ht] at h2
  exact checkField_ok_some (by decide) h2

theorem internal_rem {i : Internal} (h : checkInternal Fc i = .ok) (ht : i.itype = "removesession") : i.rem.isSome = true := by
  have h2 := (checkInternal_ok_fields h).2.2.1
  rw [ht] at h2
  exact checkField_ok_some (by decide) h2

theorem internal_incall {i : Internal} (h : checkInternal Fc i = .ok) (ht : i.itype = "incall") : i.incall.isSome = true := by
  have h2 := (checkInternal_ok_fields h).2.2.2.1
  rw [ht] at h2
  exact checkField_ok_some (by decide) h2

theorem internal_dialout {i : Internal} (h : checkInternal Fc i = .ok) (ht : i.itype = "dialout") :
    ∃ d, i.dialout = some d ∧ checkDialout Fc d = .ok := by
  have h2 := (checkInternal_ok_fields h).2.2.2.2
  rw [ht] at h2
  obtain ⟨r, hr⟩ := Option.isSome_iff_exists.mp (checkField_ok_some (by decide) h2)
  rw [hr] at h2
  exact ⟨r, hr, checkField_ok_sub (by decide) h2⟩

theorem dialout_status {d : Dialout} (h : checkDialout Fc d = .ok) (ht : d.dtype = "status") : d.status.isSome = true := by
  unfold checkDialout at h
  split at h
  · simp [invalid] at h
  · simp only [andThen_eq_ok] at h
    have h2 := h.2
    rw [ht] at h2
    exact checkField_ok_some (by decide) h2

theorem dialout_error {d : Dialout} (h : checkDialout Fc d = .ok) (ht : d.dtype = "error") : d.error.isSome = true := by
  unfold checkDialout at h
  split at h
  · simp [invalid] at h
  · simp only [andThen_eq_ok] at h
    have h2 := h.1
    rw [ht] at h2
    exact checkField_ok_some (by decide) h2

/-- What a validated hello without resume id guarantees about its `auth`. -/
theorem hello_auth {h : Hello} (hv : checkHello Fc h = .ok) (hr : h.resume = .empty) :
    ∃ a, h.auth = some a ∧
      ((effType a = "client" ∨ effType a = "federation") → (a.url = .known ∨ a.url = .unknown)) := by
  unfold checkHello at hv
  split at hv
  · simp at hv
  · rw [hr] at hv
    simp only [] at hv
    cases ha : h.auth with
    | none =>
      rw [ha] at hv
      simp only [] at hv
      split at hv <;> simp [invalid] at hv
    | some a =>
      rw [ha] at hv
      simp only [] at hv
      refine ⟨a, rfl, ?_⟩
      intro ht
      cases hp : a.paramsNonEmpty with
      | false => simp [hp, invalid] at hv
      | true =>
        simp only [hp, Bool.not_true, Bool.false_eq_true, if_false, if_pos ht] at hv
        cases hu : a.url <;> simp [hu, invalid] at hv <;> simp

theorem room_federation {r : RoomMsg} {f : Federation} (h : checkRoom Fc r = .ok) (hf : r.federation = some f) : f.sig = .ok := by
  unfold checkRoom at h
  rw [hf] at h
  simp only [] at h
  have ht : tbl Fc "RoomClientMessage" "*" "Federation" "optsub" = true := by decide
  rw [if_pos ht] at h
  unfold checkFederation at h
  split at h
  · simp [invalid] at h
  · rename_i hs; simpa using hs

/-! ### raw members that are sent on are valid JSON -/

theorem message_data_valid {mm : MessageMsg} (h : checkMessageMsg Fc mm = .ok) : mm.dataValid = true := by
  unfold checkMessageMsg at h
  have hr : rawChecked Fc "MessageClientMessage" "Data" = true := by decide
  split at h
  · simp [invalid] at h
  · split at h
    · simp [invalid] at h
    · rename_i h2
      cases hd : mm.dataValid with
      | true => rfl
      | false => exact absurd ⟨hr, by simp [hd]⟩ h2

theorem control_data_valid {mm : MessageMsg} (h : checkControl Fc mm = .ok) : mm.dataValid = true := by
  unfold checkControl at h
  have ht : tbl Fc "ControlClientMessage" "*" "MessageClientMessage" "sub" = true := by decide
  rw [if_pos ht] at h
  exact message_data_valid h

theorem transient_value_valid {t : Transient} (h : checkTransient Fc t = .ok) : t.valueValid = true := by
  unfold checkTransient at h
  have hr : rawChecked Fc "TransientDataClientMessage" "Value" = true := by decide
  split at h
  · simp [invalid] at h
  · rename_i h2
    cases hd : t.valueValid with
    | true => rfl
    | false => exact absurd ⟨hr, by simp [hd]⟩ h2

/-! ### the recipient's side of a forwarded message -/

/-- No pointer member of a payload that is decoded again on the recipient's side is dereferenced
without a nil check (the regenerated table is empty). -/
theorem payloadDerefs_none : Fc.payloadDerefs = [] := by decide

theorem payloadUnguarded_current (fn path dtype : String) : payloadUnguarded Fc fn path dtype = false := by
  simp [payloadUnguarded, payloadDerefs_none]

theorem isChatRefresh_ok (d : ServerData) : ∃ b, isChatRefresh Fc d = .ok b := by
  unfold isChatRefresh
  split
  · exact ⟨_, rfl⟩
  · cases d.chat with
    | some r => exact ⟨_, rfl⟩
    | none => simp [payloadUnguarded_current]

theorem deliverRcpt_no_crash (r : Rcpt) (kind : String) (d : ServerData) (site : String) :
    deliverRcpt Fc r kind d ≠ .crash site := by
  have hrev : Fc.deferredTablesReviewed = true := by decide
  obtain ⟨b, hb⟩ := isChatRefresh_ok d
  unfold deliverRcpt
  simp only [hrev, payloadUnguarded_current, hb, Bool.not_true, Bool.false_eq_true, if_false, and_false]
  cases b <;> (repeat' split) <;> simp_all

theorem deliver_no_crash (st : St) (kind : String) (d : ServerData) (o : Obs) (site : String) :
    deliver Fc st kind d o ≠ .crash site := by
  unfold deliver
  split
  · simp
  · cases h : deliverRcpt Fc st.world.rcpt kind d with
    | crash s2 => exact absurd h (deliverRcpt_no_crash _ _ _ _)
    | dropped => simp
    | sent r => simp

theorem amb_crash {s : Sess} {x : Outcome} {site : String} (h : x.amb s = .crash site) : x = .crash site := by
  cases x with
  | crash s2 => simpa [Outcome.amb] using h
  | ok o n => simp [Outcome.amb] at h

/-- Whatever `deliver` leaves for the bystander was addressed to it by `route`. -/
theorem deliver_ok_inv {st : St} {kind : String} {d : ServerData} {o o' : Obs} {next : St}
    (h : deliver Fc st kind d o = .ok o' next) :
    (o'.bMust = o.bMust ∨ o'.bMust = []) ∧ o'.bMay = o.bMay := by
  unfold deliver at h
  split at h
  · injection h with ho hn; subst ho; simp
  · cases hd : deliverRcpt Fc st.world.rcpt kind d with
    | crash s2 => exact absurd hd (deliverRcpt_no_crash _ _ _ _)
    | dropped => rw [hd] at h; simp only [] at h; injection h with ho hn; subst ho; simp
    | sent r =>
      rw [hd] at h; simp only [] at h; injection h with ho hn; subst ho
      split <;> simp

theorem amb_ok_inv {s : Sess} {x : Outcome} {o : Obs} {next : St} (h : x.amb s = .ok o next) :
    ∃ o', x = .ok o' next ∧ o.bMust = o'.bMust ∧ o.bMay = o'.bMay := by
  cases x with
  | crash s2 => simp [Outcome.amb] at h
  | ok o' n =>
    simp only [Outcome.amb] at h
    injection h with ho hn; subst ho hn
    refine ⟨o', rfl, ?_, ?_⟩ <;> split <;> rfl

end SigModel.ShapesClient
