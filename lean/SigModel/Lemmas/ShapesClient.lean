import SigModel.Spec.ShapesClient

namespace SigModel.ShapesClient
open SigModel.Generated.ShapesClient

end SigModel.ShapesClient
