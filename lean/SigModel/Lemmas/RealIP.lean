import SigModel.Spec.RealIP

namespace SigModel.RealIP
open SigModel.Generated.RealIP

/-! ### facts regenerated from the source, as the proofs use them -/

theorem gate_first : peerGateFirst = true := by decide
theorem order_eq : headerOrder = ["X-Real-IP", "X-Forwarded-For"] := by decide
theorem reversed : hopsReversed = true := by decide

end SigModel.RealIP
