import SigModel.Spec.RealIP

namespace SigModel.RealIP
open SigModel.Generated.RealIP

/-! ### facts regenerated from the source, as the proofs use them -/

theorem gate_first : peerGateFirst = true := by decide
theorem order_eq : headerOrder = ["X-Real-IP", "X-Forwarded-For"] := by decide
theorem reversed : hopsReversed = true := by decide

/-! ### the loop over the hops -/

/-- `if lastTrusted != "" { return lastTrusted }`. -/
def finish : Option Tok → Option Tok
  | some t => if t.text ≠ "" then some t else none
  | none => none

/-- What the loop computes: the first hop (in visiting order) that is an address and not
trusted; if there is none, the last hop that is an address (all of those are trusted),
falling back to the incoming `last`. -/
theorem scan_eq (l : List Cidr) (hs : List Tok) (last : Option Tok) :
    scan l hs last =
      match hs.find? (fun h => h.valid && !allowed l h.bytes) with
      | some h => some h
      | none => finish ((hs.reverse.find? (fun h => h.valid)).or last) := by
  induction hs generalizing last with
  | nil => cases last <;> simp [scan, finish]
  | cons h rest ih =>
    by_cases hv : h.valid = true
    · by_cases ht : allowed l h.bytes = true
      · have : scan l (h :: rest) last = scan l rest (some h) := by simp [scan, hv, ht]
        rw [this, ih]
        simp only [List.find?_cons, hv, ht, Bool.not_true, Bool.and_false, List.reverse_cons,
          List.find?_append]
        cases rest.find? (fun h => h.valid && !allowed l h.bytes) <;> simp
      · have ht' : allowed l h.bytes = false := by simpa using ht
        simp [scan, hv, ht']
    · have hv' : h.valid = false := by simpa using hv
      have : scan l (h :: rest) last = scan l rest last := by simp [scan, hv']
      rw [this, ih]
      simp only [List.find?_cons, hv', Bool.false_and, List.reverse_cons, List.find?_append,
        List.find?_nil]
      cases rest.find? (fun h => h.valid && !allowed l h.bytes) <;> simp

theorem finish_of_wf {hs : List Tok} (hw : hs.all Tok.wf = true) :
    finish (hs.find? (fun h => h.valid)) = hs.find? (fun h => h.valid) := by
  cases hf : hs.find? (fun h => h.valid) with
  | none => rfl
  | some t =>
    have hv : t.valid = true := by simpa using List.find?_some hf
    have hm : t ∈ hs := List.mem_of_find?_eq_some hf
    have hwf : t.wf = true := (List.all_eq_true.mp hw) t hm
    have : t.text ≠ "" := by simpa [Tok.wf, hv] using hwf
    simp [finish, this]

/-- `fromForwarded` in the words of the statement. -/
theorem fromForwarded_eq (l : List Cidr) (r : Req) (hw : r.hops.all Tok.wf = true) :
    fromForwarded l r =
      match r.hops.reverse.find? (fun h => h.valid && !allowed l h.bytes) with
      | some h => some h
      | none => r.hops.find? (fun h => h.valid) := by
  unfold fromForwarded
  rw [reversed, if_pos rfl, scan_eq]
  cases r.hops.reverse.find? (fun h => h.valid && !allowed l h.bytes) with
  | some h => rfl
  | none => simp [finish_of_wf hw]

theorem fromXReal_eq (r : Req) (hw : r.xreal.all Tok.wf = true) :
    fromXReal r = match r.xreal.head? with
      | some t => if t.valid then some t else none
      | none => none := by
  unfold fromXReal
  cases hx : r.xreal with
  | nil => rfl
  | cons t rest =>
    have hwf : t.wf = true := by
      have := List.all_eq_true.mp hw t (by simp [hx])
      exact this
    by_cases hv : t.valid = true
    · have : t.text ≠ "" := by simpa [Tok.wf, hv] using hwf
      simp [hv, this]
    · simp [hv]

theorem consult_eq (l : List Cidr) (r : Req) :
    consult l r headerOrder = (fromXReal r).or (fromForwarded l r) := by
  rw [order_eq]
  simp only [consult]
  cases fromXReal r <;> cases fromForwarded l r <;> simp

/-! ### networks -/

theorem to4_getD_eq_unmap (ip : List Nat) : (to4 ip).getD ip = unmap ip := by
  unfold to4 unmap v4InV6Prefix
  by_cases h4 : ip.length = 4
  · have : ¬ ip.length = 16 := by omega
    simp [h4]
  · by_cases h16 : ip.length = 16 ∧ ip.take 12 = [0, 0, 0, 0, 0, 0, 0, 0, 0, 0, 255, 255]
    · simp [h16]
    · simp [h4, h16]

/-! ### Go's byte-and-mask loop is prefix matching on bits -/

def fromBits : List Bool → Nat
  | [] => 0
  | b :: bs => (if b then 2 ^ bs.length else 0) + fromBits bs

theorem byte_and_255 : ∀ a < 256, a &&& 255 = a := by decide +kernel
theorem byte_fromBits : ∀ a < 256, fromBits (bits8 a) = a := by decide +kernel
theorem byte_and_partial : ∀ j < 8, ∀ a < 256,
    a &&& partialByte j = fromBits ((bits8 a).take j ++ List.replicate (8 - j) false) := by decide +kernel
theorem byte_bits_and_partial : ∀ j < 8, ∀ a < 256,
    (bits8 (a &&& partialByte j)).take j = (bits8 a).take j := by decide +kernel
theorem partial_not_full : ∀ j < 8, (bits8 (partialByte j)).all id = false := by decide
theorem partial_ones : ∀ j < 8, leadingOnes (bits8 (partialByte j)) = j := by decide

theorem bits8_length (a : Nat) : (bits8 a).length = 8 := rfl

theorem bits8_inj {a b : Nat} (ha : a < 256) (hb : b < 256) (h : bits8 a = bits8 b) : a = b := by
  rw [← byte_fromBits a ha, ← byte_fromBits b hb, h]

theorem byte_masked_full {a b : Nat} (ha : a < 256) (hb : b < 256) :
    (a &&& 255 = b &&& 255) ↔ bits8 b = bits8 a := by
  rw [byte_and_255 a ha, byte_and_255 b hb]
  constructor
  · intro h; rw [h]
  · intro h; exact (bits8_inj hb ha h).symm

theorem byte_masked_partial {j a b : Nat} (hj : j < 8) (ha : a < 256) (hb : b < 256) :
    (a &&& partialByte j = b &&& partialByte j) ↔ (bits8 b).take j = (bits8 a).take j := by
  constructor
  · intro h
    rw [← byte_bits_and_partial j hj a ha, ← byte_bits_and_partial j hj b hb, h]
  · intro h
    rw [byte_and_partial j hj a ha, byte_and_partial j hj b hb, h]

theorem bitsOf_length (l : List Nat) : (bitsOf l).length = 8 * l.length := by
  induction l with
  | nil => rfl
  | cons a l ih => simp [bitsOf, bits8_length, ih]; omega

theorem leadingOnes_le (bs : List Bool) : leadingOnes bs ≤ bs.length := by
  induction bs with
  | nil => simp [leadingOnes]
  | cons b bs ih => cases b <;> simp [leadingOnes]; omega

theorem leadingOnes_append (x rest : List Bool) :
    leadingOnes (x ++ rest) = if x.all id then x.length + leadingOnes rest else leadingOnes x := by
  induction x with
  | nil => simp
  | cons b x ih =>
    cases b
    · simp [leadingOnes]
    · simp only [List.cons_append, leadingOnes, ih, List.all_cons, id, Bool.true_and, List.length_cons]
      split <;> omega

/-- `leadingOnes` recovers the prefix length of a `CIDRMask`. -/
theorem leadingOnes_cidrMask (len p : Nat) (hp : p ≤ 8 * len) :
    leadingOnes (bitsOf (cidrMask p len)) = p := by
  induction len generalizing p with
  | zero =>
    have : p = 0 := by omega
    subst this; rfl
  | succ l ih =>
    unfold cidrMask
    by_cases h8 : 8 ≤ p
    · rw [if_pos h8]
      simp only [bitsOf]
      rw [leadingOnes_append]
      have : (bits8 255).all id = true := by decide
      rw [this, if_pos rfl, ih (p - 8) (by omega), bits8_length]; omega
    · rw [if_neg h8]
      simp only [bitsOf]
      rw [leadingOnes_append, partial_not_full p (by omega)]
      simp [partial_ones p (by omega)]

theorem cidrMask_succ (p l : Nat) :
    cidrMask p (l + 1) = if 8 ≤ p then 255 :: cidrMask (p - 8) l else partialByte p :: cidrMask 0 l := by
  rw [cidrMask]

/-- Dropping whole bytes from a `CIDRMask` leaves a `CIDRMask`. -/
theorem cidrMask_drop (k l p : Nat) : (cidrMask p (k + l)).drop k = cidrMask (p - 8 * k) l := by
  induction k generalizing p with
  | zero => simp
  | succ k ih =>
    have : k + 1 + l = (k + l) + 1 := by omega
    rw [this, cidrMask_succ]
    by_cases h8 : 8 ≤ p
    · rw [if_pos h8, List.drop_succ_cons, ih]
      have : p - 8 - 8 * k = p - 8 * (k + 1) := by omega
      rw [this]
    · rw [if_neg h8, List.drop_succ_cons, ih]
      have : 0 - 8 * k = p - 8 * (k + 1) := by omega
      rw [this]

theorem bytesOk_cons {a : Nat} {l : List Nat} : bytesOk (a :: l) = true ↔ a < 256 ∧ bytesOk l = true := by
  simp [bytesOk]

/-- The loop of `IPNet.Contains` with a `CIDRMask` compares the first `p` bits. -/
theorem maskedEq_cidrMask (len p : Nat) (nn a : List Nat) (hn : nn.length = len) (ha : a.length = len)
    (bn : bytesOk nn = true) (ba : bytesOk a = true) (hp : p ≤ 8 * len) :
    maskedEq nn (cidrMask p len) a = true ↔ (bitsOf a).take p = (bitsOf nn).take p := by
  induction len generalizing p nn a with
  | zero =>
    have h1 : nn = [] := List.length_eq_zero_iff.mp hn
    have h2 : a = [] := List.length_eq_zero_iff.mp ha
    subst h1 h2
    simp [maskedEq, bitsOf]
  | succ l ih =>
    match nn, a, hn, ha with
    | x :: nn', y :: a', hn, ha =>
      have hn' : nn'.length = l := by simpa using hn
      have ha' : a'.length = l := by simpa using ha
      obtain ⟨hx, bn'⟩ := bytesOk_cons.mp bn
      obtain ⟨hy, ba'⟩ := bytesOk_cons.mp ba
      unfold cidrMask
      by_cases h8 : 8 ≤ p
      · rw [if_pos h8]
        simp only [maskedEq, bitsOf, Bool.and_eq_true, beq_iff_eq]
        rw [ih (p - 8) nn' a' hn' ha' bn' ba' (by omega), byte_masked_full hx hy]
        have e1 : (bits8 y ++ bitsOf a').take p = bits8 y ++ (bitsOf a').take (p - 8) := by
          rw [List.take_append, bits8_length, List.take_of_length_le (by rw [bits8_length]; exact h8)]
        have e2 : (bits8 x ++ bitsOf nn').take p = bits8 x ++ (bitsOf nn').take (p - 8) := by
          rw [List.take_append, bits8_length, List.take_of_length_le (by rw [bits8_length]; exact h8)]
        rw [e1, e2]
        constructor
        · rintro ⟨h1, h2⟩; rw [h1, h2]
        · intro h
          exact List.append_inj h (by simp [bits8_length])
      · rw [if_neg h8]
        have hj : p < 8 := by omega
        simp only [maskedEq, bitsOf, Bool.and_eq_true, beq_iff_eq]
        have hrest : maskedEq nn' (cidrMask 0 l) a' = true :=
          (ih 0 nn' a' hn' ha' bn' ba' (by omega)).mpr (by simp)
        rw [byte_masked_partial hj hx hy]
        have e1 : (bits8 y ++ bitsOf a').take p = (bits8 y).take p := by
          rw [List.take_append_of_le_length (by rw [bits8_length]; omega)]
        have e2 : (bits8 x ++ bitsOf nn').take p = (bits8 x).take p := by
          rw [List.take_append_of_le_length (by rw [bits8_length]; omega)]
        rw [e1, e2]
        constructor
        · rintro ⟨h1, _⟩; exact h1
        · intro h; exact ⟨h, hrest⟩

theorem cidrMask_length (p len : Nat) : (cidrMask p len).length = len := by
  induction len generalizing p with
  | zero => rfl
  | succ l ih => rw [cidrMask_succ]; split <;> simp [ih]

theorem bytesOk_drop {l : List Nat} (k : Nat) (h : bytesOk l = true) : bytesOk (l.drop k) = true := by
  unfold bytesOk at *
  rw [List.all_eq_true] at *
  intro x hx
  exact h x (List.mem_of_mem_drop hx)

theorem bytesOk_unmap {l : List Nat} (h : bytesOk l = true) : bytesOk (unmap l) = true := by
  unfold unmap; split
  · exact bytesOk_drop 12 h
  · exact h

theorem unmap_length {l : List Nat} (h : l.length = 4 ∨ l.length = 16) :
    (unmap l).length = 4 ∨ (unmap l).length = 16 := by
  unfold unmap; split
  · rename_i h16; left; simp [h16.1]
  · exact h

/-- `networkNumberAndMask` in terms of the un-mapped network address. -/
theorem nnm_eq (n : Cidr) (hl : n.ip.length = 4 ∨ n.ip.length = 16) :
    networkNumberAndMask n =
      if n.mask.length = 4 then (if (unmap n.ip).length = 4 then (unmap n.ip, n.mask) else ([], []))
      else if n.mask.length = 16 then
        (if (unmap n.ip).length = 4 then (unmap n.ip, n.mask.drop 12) else (unmap n.ip, n.mask))
      else ([], []) := by
  unfold networkNumberAndMask to4 unmap v4InV6Prefix
  rcases hl with h4 | h16
  · have : ¬ n.ip.length = 16 := by omega
    simp [h4]
  · have h4 : ¬ n.ip.length = 4 := by omega
    by_cases hp : n.ip.take 12 = [0, 0, 0, 0, 0, 0, 0, 0, 0, 0, 255, 255]
    · simp [h16, hp]
    · simp [h16, hp]

/-- The comparison both sides end with, once network number and mask are fixed. -/
theorem contains_core (nn m a : List Nat) (len p : Nat) (hm : m = cidrMask p len) (hp : p ≤ 8 * len)
    (hnl : nn.length = len) (bn : bytesOk nn = true) (ba : bytesOk a = true)
    (hal : a.length = 4 ∨ a.length = 16) :
    (if a.length ≠ nn.length then false else maskedEq nn m a) =
      ((a.length == 4 || a.length == 16) && a.length == nn.length && m.length == nn.length &&
        (bitsOf a).take (leadingOnes (bitsOf m)) == (bitsOf nn).take (leadingOnes (bitsOf m))) := by
  have hml : m.length = len := by rw [hm, cidrMask_length]
  have hlo : leadingOnes (bitsOf m) = p := by rw [hm, leadingOnes_cidrMask len p hp]
  have h1 : (a.length == 4 || a.length == 16) = true := by
    rcases hal with h | h <;> simp [h]
  rw [hlo, h1, hml, hnl]
  by_cases hlen : a.length = len
  · have := maskedEq_cidrMask len p nn a hnl hlen bn ba hp
    rw [← hm] at this
    simp only [hlen, ne_eq, not_true_eq_false, if_false, beq_self_eq_true, Bool.true_and]
    rw [Bool.eq_iff_iff, this, beq_iff_eq]
  · simp [hlen]

/-- **`IPNet.Contains` is prefix matching.**  For every network as the parsers build them
(address of 4 or 16 bytes, `CIDRMask` of 4 or 16 bytes) and every address of 4 or 16 bytes,
Go's loop — with its IPv4-in-IPv6 conversions on both sides — says exactly: same family
(after un-mapping) and the first `n` bits agree. -/
theorem contains_eq_specContains (n : Cidr) (ip : List Nat) (hn : n.wf = true)
    (hb : bytesOk ip = true) (hl : ip.length = 4 ∨ ip.length = 16) :
    contains n ip = specContains n ip := by
  simp only [Cidr.wf, Bool.and_eq_true, Bool.or_eq_true, beq_iff_eq] at hn
  obtain ⟨⟨⟨⟨bip, bmask⟩, hcan⟩, hipl⟩, hml⟩ := hn
  have hcan' : n.mask = cidrMask (leadingOnes (bitsOf n.mask)) n.mask.length := by
    simpa [canonicalMask] using hcan
  have hq : leadingOnes (bitsOf n.mask) ≤ 8 * n.mask.length := by
    have := leadingOnes_le (bitsOf n.mask); rwa [bitsOf_length] at this
  have ba := bytesOk_unmap hb
  have bn := bytesOk_unmap bip
  have hal := unmap_length hl
  have hnl := unmap_length hipl
  have hane : (unmap ip).length ≠ 0 := by rcases hal with h | h <;> omega
  have hcontains : ∀ nn m, networkNumberAndMask n = (nn, m) →
      contains n ip = (if (unmap ip).length ≠ nn.length then false else maskedEq nn m (unmap ip)) := by
    intro nn m h
    unfold contains
    rw [h, to4_getD_eq_unmap]
  have hspec : specContains n ip =
      (((unmap ip).length == 4 || (unmap ip).length == 16) && (unmap ip).length == (unmap n.ip).length &&
        (specMask n).length == (unmap n.ip).length &&
        (bitsOf (unmap ip)).take (leadingOnes (bitsOf (specMask n))) ==
          (bitsOf (unmap n.ip)).take (leadingOnes (bitsOf (specMask n)))) := rfl
  rw [hspec]
  rcases hml with hm4 | hm16
  · -- 4-byte mask
    have hm16 : ¬ n.mask.length = 16 := by omega
    have hsm : specMask n = n.mask := by simp [specMask, hm16]
    rcases hnl with hn4 | hn16
    · have hnnm : networkNumberAndMask n = (unmap n.ip, n.mask) := by
        rw [nnm_eq n hipl]; simp [hm4, hn4]
      rw [hcontains _ _ hnnm, hsm]
      exact contains_core (unmap n.ip) n.mask (unmap ip) 4 _ (by rw [hm4] at hcan'; exact hcan')
        (by omega) hn4 bn ba hal
    · have hnnm : networkNumberAndMask n = ([], []) := by
        rw [nnm_eq n hipl]; simp [hm4, hn16]
      rw [hcontains _ _ hnnm, hsm]
      simp [hm4, hn16, hane]
  · -- 16-byte mask
    have hm4 : ¬ n.mask.length = 4 := by omega
    rcases hnl with hn4 | hn16
    · have hsm : specMask n = n.mask.drop 12 := by simp [specMask, hm16, hn4]
      have hdrop : n.mask.drop 12 = cidrMask (leadingOnes (bitsOf n.mask) - 8 * 12) 4 := by
        conv => lhs; rw [hcan', hm16]
        exact cidrMask_drop 12 4 _
      have hnnm : networkNumberAndMask n = (unmap n.ip, n.mask.drop 12) := by
        rw [nnm_eq n hipl]; simp [hm16, hn4]
      rw [hcontains _ _ hnnm, hsm]
      exact contains_core (unmap n.ip) (n.mask.drop 12) (unmap ip) 4 _ hdrop (by omega) hn4 bn ba hal
    · have hsm : specMask n = n.mask := by simp [specMask, hn16]
      have hnnm : networkNumberAndMask n = (unmap n.ip, n.mask) := by
        rw [nnm_eq n hipl]; simp [hm16, hn16]
      rw [hcontains _ _ hnnm, hsm]
      exact contains_core (unmap n.ip) n.mask (unmap ip) 16 _ (by rw [hm16] at hcan'; exact hcan')
        (by omega) hn16 bn ba hal

theorem allowed_eq_specAllowed (l : List Cidr) (ip : List Nat) (hw : l.all Cidr.wf = true)
    (hb : bytesOk ip = true) (hl : ip.length = 4 ∨ ip.length = 16) :
    allowed l ip = specAllowed l ip := by
  unfold allowed specAllowed
  induction l with
  | nil => rfl
  | cons n l ih =>
    have h := List.all_cons ▸ hw
    simp only [Bool.and_eq_true] at h
    simp only [List.any_cons, contains_eq_specContains n ip h.1 hb hl, ih h.2]

/-! ### a single-address entry is that address and nothing else -/

theorem hostNet_eq (h : List Nat) : hostNet h = { ip := h, mask := List.replicate h.length 255 } := rfl

/-- With every mask bit set the loop of `IPNet.Contains` is equality. -/
theorem maskedEq_full : ∀ (nn a : List Nat), bytesOk nn = true → bytesOk a = true → nn.length = a.length →
    maskedEq nn (List.replicate nn.length 255) a = (a == nn)
  | [], [], _, _, _ => by simp [maskedEq]
  | x :: nn, y :: a, bn, ba, hl => by
    obtain ⟨hx, bn'⟩ := bytesOk_cons.mp bn
    obtain ⟨hy, ba'⟩ := bytesOk_cons.mp ba
    have ih := maskedEq_full nn a bn' ba' (by simpa using hl)
    simp only [List.length_cons, List.replicate_succ, maskedEq, ih, byte_and_255 x hx, byte_and_255 y hy]
    rw [Bool.eq_iff_iff]
    simp only [Bool.and_eq_true, beq_iff_eq, List.cons.injEq]
    constructor
    · rintro ⟨h1, h2⟩; exact ⟨h1.symm, h2⟩
    · rintro ⟨h1, h2⟩; exact ⟨h1.symm, h2⟩
  | [], _ :: _, _, _, hl => by simp at hl
  | _ :: _, [], _, _, hl => by simp at hl

theorem contains_of_full (n : Cidr) (nn ip : List Nat)
    (hn : networkNumberAndMask n = (nn, List.replicate nn.length 255))
    (bn : bytesOk nn = true) (bi : bytesOk ip = true) (il : ip.length = 4 ∨ ip.length = 16) :
    contains n ip = (((unmap ip).length == 4 || (unmap ip).length == 16) && unmap ip == nn) := by
  unfold contains
  rw [hn, to4_getD_eq_unmap]
  have hal := unmap_length il
  have h1 : ((unmap ip).length == 4 || (unmap ip).length == 16) = true := by
    rcases hal with h | h <;> simp [h]
  by_cases hlen : (unmap ip).length = nn.length
  · simp only [hlen, ne_eq, not_true_eq_false, if_false]
    rw [maskedEq_full nn (unmap ip) bn (bytesOk_unmap bi) hlen.symm, ← hlen, h1, Bool.true_and]
  · have hne : (unmap ip == nn) = false := by
      rw [beq_eq_false_iff_ne]; intro e; exact hlen (by rw [e])
    simp [hlen, hne]

theorem nnm_hostNet (h : List Nat) (hl : h.length = 4 ∨ h.length = 16) :
    networkNumberAndMask (hostNet h) = (unmap h, List.replicate (unmap h).length 255) := by
  rw [hostNet_eq, nnm_eq _ hl]
  simp only [List.length_replicate]
  rcases hl with h4 | h16
  · have hu : unmap h = h := by
      unfold unmap; have : ¬ h.length = 16 := by omega
      simp [this]
    simp [hu, h4]
  · have h4 : ¬ h.length = 4 := by omega
    rcases unmap_length (Or.inr h16 : h.length = 4 ∨ h.length = 16) with hu | hu
    · simp [h16, hu]
    · have : ¬ (unmap h).length = 4 := by omega
      simp [h16, hu]

/-- **An entry without prefix length matches its own address only** — in either spelling of an IPv4
address, and no address of the other family. -/
theorem contains_hostNet (h ip : List Nat) (bh : bytesOk h = true) (hl : h.length = 4 ∨ h.length = 16)
    (bi : bytesOk ip = true) (il : ip.length = 4 ∨ ip.length = 16) :
    contains (hostNet h) ip = specHostMatches h ip :=
  contains_of_full (hostNet h) (unmap h) ip (nnm_hostNet h hl) (bytesOk_unmap bh) bi il

theorem parse_isNone (es : List Entry) : (parseAllowed es).isNone = es.any Entry.isBad := by
  induction es with
  | nil => rfl
  | cons e es ih =>
    cases e with
    | skip => simpa [parseAllowed, Entry.isBad] using ih
    | bad => simp [parseAllowed, Entry.isBad]
    | host h => simpa [parseAllowed, Entry.isBad] using ih
    | net c => simpa [parseAllowed, Entry.isBad] using ih

/-- What `ParseAllowedIps` makes of a list is what the operator wrote: the same addresses are on it, and
it is empty exactly when nothing was written. -/
theorem parse_as_written : ∀ (es : List Entry) (l : List Cidr), es.all Entry.wf = true →
    parseAllowed es = some l → ∀ ip, bytesOk ip = true → (ip.length = 4 ∨ ip.length = 16) →
    allowed l ip = specListed (es.filter (fun e => !e.isSkip)) ip ∧
      l.isEmpty = (es.filter (fun e => !e.isSkip)).isEmpty
  | [], l, _, hp, ip, _, _ => by
    simp only [parseAllowed, Option.some.injEq] at hp
    subst hp; simp [allowed, specListed]
  | .skip :: es, l, hw, hp, ip, hb, hl => by
    have hw' : es.all Entry.wf = true := by simpa [Entry.wf] using hw
    have hf : (Entry.skip :: es).filter (fun e => !e.isSkip) = es.filter (fun e => !e.isSkip) :=
      List.filter_cons_of_neg (by simp [Entry.isSkip])
    rw [hf]
    exact parse_as_written es l hw' (by simpa [parseAllowed] using hp) ip hb hl
  | .bad :: es, l, _, hp, _, _, _ => by simp [parseAllowed] at hp
  | .host h :: es, l, hw, hp, ip, hb, hl => by
    simp only [List.all_cons, Bool.and_eq_true, Entry.wf, Bool.or_eq_true, beq_iff_eq] at hw
    obtain ⟨⟨bh, hhl⟩, hw'⟩ := hw
    cases hq : parseAllowed es with
    | none => simp [parseAllowed, hq] at hp
    | some l' =>
      simp only [parseAllowed, hq, Option.map_some, Option.some.injEq] at hp
      subst hp
      obtain ⟨ih1, _⟩ := parse_as_written es l' hw' hq ip hb hl
      have hf : (Entry.host h :: es).filter (fun e => !e.isSkip) =
          Entry.host h :: es.filter (fun e => !e.isSkip) := List.filter_cons_of_pos (by rfl)
      have e1 : specEntryMatches (.host h) ip = specHostMatches h ip := rfl
      rw [hf]
      refine ⟨?_, by simp⟩
      simp only [allowed, specListed, List.any_cons] at ih1 ⊢
      rw [contains_hostNet h ip bh hhl hb hl, ih1, e1]
  | .net c :: es, l, hw, hp, ip, hb, hl => by
    simp only [List.all_cons, Bool.and_eq_true, Entry.wf] at hw
    obtain ⟨hc, hw'⟩ := hw
    cases hq : parseAllowed es with
    | none => simp [parseAllowed, hq] at hp
    | some l' =>
      simp only [parseAllowed, hq, Option.map_some, Option.some.injEq] at hp
      subst hp
      obtain ⟨ih1, _⟩ := parse_as_written es l' hw' hq ip hb hl
      have hf : (Entry.net c :: es).filter (fun e => !e.isSkip) =
          Entry.net c :: es.filter (fun e => !e.isSkip) := List.filter_cons_of_pos (by rfl)
      have e1 : specEntryMatches (.net c) ip = specContains c ip := rfl
      rw [hf]
      refine ⟨?_, by simp⟩
      simp only [allowed, specListed, List.any_cons] at ih1 ⊢
      rw [contains_eq_specContains c ip hc hb hl, ih1, e1]

theorem default_trusted_as_written (ip : List Nat) (hb : bytesOk ip = true) (hl : ip.length = 4 ∨ ip.length = 16) :
    allowed defaultTrusted ip = specListed stmtDefaultTrusted ip := by
  rw [allowed_eq_specAllowed _ _ (by decide) hb hl]
  have : defaultTrusted = [⟨[127,0,0,0],[255,0,0,0]⟩, ⟨[10,0,0,0],[255,0,0,0]⟩,
      ⟨[172,16,0,0],[255,240,0,0]⟩, ⟨[192,168,0,0],[255,255,0,0]⟩] := by decide
  rw [this]; rfl

theorem default_allow_as_written (ip : List Nat) (hb : bytesOk ip = true) (hl : ip.length = 4 ∨ ip.length = 16) :
    allowed defaultAllow ip = specListed stmtDefaultAllow ip := by
  have hA : defaultAllow = [⟨[0,0,0,0,0,0,0,0,0,0,255,255,127,0,0,1], [255,255,255,255]⟩] := by decide
  rw [hA]
  simp only [allowed, specListed, stmtDefaultAllow, List.any_cons, List.any_nil, Bool.or_false, specEntryMatches]
  rw [contains_of_full _ [127, 0, 0, 1] ip (by decide) (by decide) hb hl]
  rfl

theorem effective_as_written (es : List Entry) (l dflt : List Cidr) (sd : List Entry)
    (hw : es.all Entry.wf = true) (hp : parseAllowed es = some l)
    (hd : ∀ ip, bytesOk ip = true → (ip.length = 4 ∨ ip.length = 16) → allowed dflt ip = specListed sd ip)
    (ip : List Nat) (hb : bytesOk ip = true) (hl : ip.length = 4 ∨ ip.length = 16) :
    allowed (effective l dflt) ip = specListed (stmtList es sd) ip := by
  obtain ⟨h1, h2⟩ := parse_as_written es l hw hp ip hb hl
  have hf : emptyFallsBackToDefault = true := by decide
  unfold effective stmtList
  simp only [hf, Bool.and_true, h2]
  cases (es.filter (fun e => !e.isSkip)).isEmpty with
  | true => simpa using hd ip hb hl
  | false => simpa using h1

/-! ### the spec depends on the trust predicate only at the addresses of the request -/

theorem Tok.bytes_ok {t : Tok} (hv : t.valid = true) (hw : t.ipwf = true) :
    bytesOk t.bytes = true ∧ (t.bytes.length = 4 ∨ t.bytes.length = 16) := by
  unfold Tok.valid at hv
  unfold Tok.ipwf at hw
  unfold Tok.bytes
  cases hip : t.ip with
  | none => simp [hip] at hv
  | some b =>
    simp only [hip, Bool.and_eq_true, Bool.or_eq_true, beq_iff_eq] at hw
    simpa using hw

theorem find?_congr' {α : Type} {p q : α → Bool} : ∀ (l : List α), (∀ x ∈ l, p x = q x) →
    l.find? p = l.find? q
  | [], _ => rfl
  | a :: l, h => by
    have ha : p a = q a := h a (by simp)
    have ih := find?_congr' l (fun x hx => h x (by simp [hx]))
    simp only [List.find?_cons, ha, ih]

theorem specRealIP_congr (f g : List Nat → Bool) (r : Req)
    (hp : r.peer.valid = true → f r.peer.bytes = g r.peer.bytes)
    (hh : ∀ t ∈ r.hops, t.valid = true → f t.bytes = g t.bytes) :
    specRealIP f r = specRealIP g r := by
  have hfind : r.hops.reverse.find? (fun h => h.valid && !f h.bytes) =
      r.hops.reverse.find? (fun h => h.valid && !g h.bytes) := by
    apply find?_congr'
    intro t ht
    by_cases hv : t.valid = true
    · rw [hh t (List.mem_reverse.mp ht) hv]
    · simp [hv]
  have hfwd : specRealIP.fwd f r = specRealIP.fwd g r := by
    unfold specRealIP.fwd; rw [hfind]
  unfold specRealIP
  rw [hfwd]
  by_cases hv : r.peer.valid = true
  · rw [hp hv]
  · simp [hv]

end SigModel.RealIP
