/-
C08 — media actions need the matching permission or call membership: property theorems.

The model (`Model/Perm.lean`) is parametrised by a configuration; `codeCfg` is the one read from the
source tree.  The general theorems hold for every configuration with `cfg.sound` (every decision
function is the program the model stands for, the revocation goroutine runs both blocks, join replies
install their permissions like a permissions update, the media server accepts the camera and the
screen stream type); `C08_code_sound` shows that the current tree is such a configuration, the
`…_code` theorems restate the results with the statement's own names (`Spec/Perm.lean`).

Quantification: every permission set (any list of permission names, or none at all), every list of
m-lines, every stream type and message kind are universally quantified arguments of the actions;
"every order of permission updates, in-call changes and requests" is "every list of actions"
(`run … acts`), where a permission update (`setPerms`) and its revocation goroutine (`sweep`) are
separate actions that anything may come between.
-/
import SigModel.Lemmas.Perm

namespace SigModel.Perm

/-! ### the tie to the source -/

/-- The current source tree is a configuration the theorems apply to. -/
theorem C08_code_sound : codeCfg.sound = true := by decide +kernel

/-- The permission and stream names in the source are the ones of the statement. -/
theorem C08_code_names :
    codeCfg.permMedia = Spec.publishMedia ∧ codeCfg.permAudio = Spec.publishAudio ∧ codeCfg.permVideo = Spec.publishVideo ∧
    codeCfg.permScreen = Spec.publishScreen ∧ codeCfg.permControl = Spec.control ∧ codeCfg.permTransient = Spec.transientData ∧
    codeCfg.streamScreen = Spec.screen ∧ codeCfg.overrides = [(Spec.hideDisplaynames, false)] := by decide +kernel

theorem codeSound : Sound codeCfg := sound_of codeCfg C08_code_sound

/-- `hasPermissionLocked` is the statement's "holds", for every permission name and every permission set. -/
theorem hasPerm_code (ps : Option (List String)) (p : String) : hasPerm codeCfg ps p = Spec.holds ps p := by
  have h := C08_code_names.2.2.2.2.2.2.2
  unfold hasPerm Spec.holds
  cases ps with
  | some l => rfl
  | none =>
    simp only [h, List.lookup]
    cases hp : (p == Spec.hideDisplaynames) <;> simp [hp, bne]

theorem Permitted_code (ps : Option (List String)) (T : String) (m : Media) :
    Permitted codeCfg ps T m = Spec.mayPublish ps T m := by
  obtain ⟨h1, h2, h3, h4, _, _, h7, _⟩ := C08_code_names
  unfold Permitted Spec.mayPublish
  simp only [hasPerm_code, h1, h2, h3, h4, h7]

theorem MaySignal_code (ps : Option (List String)) (T : String) : MaySignal codeCfg ps T = Spec.maySignal ps T := by
  obtain ⟨h1, h2, h3, h4, _, _, h7, _⟩ := C08_code_names
  unfold MaySignal Spec.maySignal
  simp only [hasPerm_code, h1, h2, h3, h4, h7]

/-! ### C08_publish_needs_permission -/

/-- The decision for an offer is exactly the statement's condition on the m-lines: for every permission
set, stream type and m-line list, `checkOfferTypeLocked` accepts iff a screen share has `publish-screen`,
resp. every audio / video m-line is covered by `publish-media` or `publish-audio` / `publish-video`;
the media types it reports are the kinds of m-lines present. -/
theorem C08_offer_decision (cfg : Cfg) (h : cfg.sound = true) (ps : Option (List String)) (T : String) (ml : List MLine) :
    checkOfferType cfg ps T ml =
      if T == cfg.streamScreen then (if hasPerm cfg ps cfg.permScreen then some { screen := true } else none)
      else if SdpOK cfg ps ml then some (mlMedia ml {}) else none :=
  checkOfferType_spec cfg (sound_of cfg h) ps T ml

/-- What the property demands of an event, with the permission set *as last set by the backend*
(`lastSet`, a function of the history alone). -/
def PublishOK (cfg : Cfg) (acts : List Act) (st : St) : Ev → Prop
  | .pubNew s T m => Permitted cfg (lastSet acts s) T m = true
  | .pubSet s T m => Permitted cfg (lastSet acts s) T m = true
  | .pubMsg s T k => k = .offer ∨
      (MaySignal cfg (lastSet acts s) T = true ∧
       ∃ p ∈ (st.sess s).pubs, p.stream = T ∧ ((st.sess s).sweeps = 0 → Permitted cfg (lastSet acts s) T p.media = true))
  | .sendofferOk s _ T => MaySignal cfg (lastSet acts s) T = true
  | _ => True

theorem findPub_some_mem (x : Sess) (T : String) (h : (findPub x T).isSome = true) : ∃ p ∈ x.pubs, p.stream = T := by
  unfold findPub at h
  cases hf : x.pubs.find? (fun p => p.stream == T) with
  | none => simp [hf] at h
  | some p =>
    refine ⟨p, List.mem_of_find?_eq_some hf, ?_⟩
    simpa using List.find?_some hf

/-- **Every created or updated publisher, every message accepted for an own publisher (candidates,
answers, …) and every `sendoffer` the hub acts on happens in a state where the matching permission
holds as last set by the backend** — for every history of actions (permission updates, join replies,
in-call changes, requests, revocation goroutines in any order), every permission set, m-line list,
stream type and message kind.  An accepted candidate moreover goes to an existing publisher, which
itself is covered by the permissions unless a revocation goroutine is still to run. -/
theorem C08_publish_needs_permission (cfg : Cfg) (h : cfg.sound = true) (n : Nat) (ints : List Nat)
    (acts : List Act) (a : Act) (ev : Ev)
    (hev : ev ∈ (step cfg (run cfg (St.init n ints) acts) a).2) :
    PublishOK cfg acts (run cfg (St.init n ints) acts) ev := by
  have hs := sound_of cfg h
  have hok := step_ok cfg hs _ a ev hev
  have hinv := reachable_inv cfg hs _ ⟨n, ints, acts, rfl⟩
  cases ev <;> simp only [PublishOK]
  case pubNew s T m =>
    obtain ⟨hl, hp⟩ := hok
    rwa [← perms_last_set cfg n ints acts s hl]
  case pubSet s T m =>
    obtain ⟨hl, hp⟩ := hok
    rwa [← perms_last_set cfg n ints acts s hl]
  case pubMsg s T k =>
    obtain ⟨hl, hp⟩ := hok
    rcases hp with hk | ⟨hm, hf⟩
    · exact Or.inl hk
    · right
      rw [← perms_last_set cfg n ints acts s hl]
      refine ⟨hm, ?_⟩
      obtain ⟨p, hp, hT⟩ := findPub_some_mem _ _ hf
      exact ⟨p, hp, hT, fun hz => hT ▸ (hinv s).settled hz p hp⟩
  case sendofferOk s r T =>
    obtain ⟨hl, hp⟩ := hok
    rwa [← perms_last_set cfg n ints acts s hl]

/-- The same for the current source tree, in the statement's own terms. -/
theorem C08_publish_needs_permission_code (n : Nat) (ints : List Nat) (acts : List Act) (a : Act) (ev : Ev)
    (hev : ev ∈ (step codeCfg (run codeCfg (St.init n ints) acts) a).2) :
    match ev with
    | .pubNew s T m => Spec.mayPublish (lastSet acts s) T m = true
    | .pubSet s T m => Spec.mayPublish (lastSet acts s) T m = true
    | .pubMsg s T k => k = .offer ∨ Spec.maySignal (lastSet acts s) T = true
    | .sendofferOk s _ T => Spec.maySignal (lastSet acts s) T = true
    | _ => True := by
  have := C08_publish_needs_permission codeCfg C08_code_sound n ints acts a ev hev
  cases ev <;> simp only [PublishOK, Permitted_code, MaySignal_code] at this ⊢
  · exact this
  · exact this
  · exact this.imp id (·.1)
  · exact this

/-- Without the permission the request is refused and nothing changes: an offer whose stream or m-lines
are not covered gets `not_allowed`, no publisher is created or touched. -/
theorem C08_offer_refused (cfg : Cfg) (h : cfg.sound = true) (st : St) (s : Nat) (T : String) (ml : List MLine)
    (hl : (st.sess s).live = true)
    (hno : (if T == cfg.streamScreen then hasPerm cfg (st.sess s).perms cfg.permScreen else SdpOK cfg (st.sess s).perms ml) = false) :
    step cfg st (.offer s T ml) = (st, [.reply s "not_allowed"]) := by
  have hc := C08_offer_decision cfg h (st.sess s).perms T ml
  simp only [step, offerStep, hl, Bool.not_true, Bool.false_eq_true, ↓reduceIte]
  split at hno
  · rename_i hT
    simp only [hT, ↓reduceIte, hno, Bool.false_eq_true] at hc
    simp [hc]
  · rename_i hT
    simp only [hT, Bool.false_eq_true, ↓reduceIte, hno] at hc
    simp [hc]

/-- … and a candidate / answer / endOfCandidates for an own stream without a publish permission of its
class gets `not_allowed` and reaches no publisher. -/
theorem C08_candidate_refused (cfg : Cfg) (h : cfg.sound = true) (st : St) (s : Nat) (k : Kind) (T : String)
    (hk : k = .answer ∨ k = .candidate ∨ k = .endOfCandidates) (hl : (st.sess s).live = true)
    (hno : MaySignal cfg (st.sess s).perms T = false) :
    step cfg st (.msg s s k T) = (st, [.reply s "not_allowed"]) := by
  have hs := sound_of cfg h
  have hne : k ≠ .offer := by rcases hk with rfl | rfl | rfl <;> decide
  have ha := allowedToSend_maySignal cfg hs (st.sess s).perms T k hne
  rcases hk with rfl | rfl | rfl <;>
    simp [step, msgStep, hl, hs.dispatchOk, ha, hno]

/-! ### C08_revocation_closes -/

/-- **After a permissions update no publisher remains whose media exceed the new permissions**: in every
state reachable by any sequence of actions, a session whose revocation goroutines have all run has only
publishers covered by its current permissions (which are the ones last set by the backend,
`C08_perms_last_set`), at most one per stream type. -/
theorem C08_revocation_closes (cfg : Cfg) (h : cfg.sound = true) (st : St) (hr : Reachable cfg st) (s : Nat)
    (hq : (st.sess s).sweeps = 0) :
    (∀ p ∈ (st.sess s).pubs, Permitted cfg (st.sess s).perms p.stream p.media = true) ∧
    ((st.sess s).pubs.map (·.stream)).Nodup :=
  ⟨(reachable_inv cfg (sound_of cfg h) st hr s).settled hq, (reachable_inv cfg (sound_of cfg h) st hr s).nodup⟩

/-- The permission set consulted by every check is the one the backend set last (join reply with
permissions or permissions update, whichever came later) — for every history. -/
theorem C08_perms_last_set (cfg : Cfg) (n : Nat) (ints : List Nat) (acts : List Act) (s : Nat)
    (hl : ((run cfg (St.init n ints) acts).sess s).live = true) :
    ((run cfg (St.init n ints) acts).sess s).perms = lastSet acts s :=
  perms_last_set cfg n ints acts s hl

/-- The step itself: a permissions update followed by its revocation goroutine leaves only publishers the
*new* permission set covers — whatever was published before, whatever else is pending. -/
theorem C08_update_then_sweep (cfg : Cfg) (h : cfg.sound = true) (st : St) (hr : Reachable cfg st) (s : Nat)
    (p : List String) (hl : (st.sess s).live = true) :
    let st1 := (step cfg st (.setPerms s p)).1
    let st2 := (step cfg st1 (.sweep s)).1
    ∀ q ∈ (st2.sess s).pubs, Permitted cfg (some p) q.stream q.media = true := by
  intro st1 st2
  have hs := sound_of cfg h
  have hinv1 : Inv cfg st1 := step_inv cfg hs st _ (reachable_inv cfg hs st hr)
  have hsw : (st1.sess s).sweeps ≠ 0 := by
    simp [st1, step, hl, upd_sess]
  have hperm : (st2.sess s).perms = some p := by
    simp [st2, st1, step, sweepStep, hl, upd_sess]
  have := sweepStep_settles cfg hs st1 s hinv1 hsw
  intro q hq
  have h2 := this q hq
  rwa [show ((sweepStep cfg st1 s).1.sess s).perms = some p from hperm] at h2

/-- The same for the permissions of a join reply (the repaired `processJoinRoom`). -/
theorem C08_join_then_sweep (cfg : Cfg) (h : cfg.sound = true) (st : St) (hr : Reachable cfg st) (s r : Nat)
    (p : List String) (hl : (st.sess s).live = true) :
    let st1 := (step cfg st (.join s r (some p))).1
    let st2 := (step cfg st1 (.sweep s)).1
    ∀ q ∈ (st2.sess s).pubs, Permitted cfg (some p) q.stream q.media = true := by
  intro st1 st2
  have hs := sound_of cfg h
  have hinv1 : Inv cfg st1 := step_inv cfg hs st _ (reachable_inv cfg hs st hr)
  have hfr := step_frame cfg st (.join s r (some p)) s
  have hst1 : (st1.sess s).sweeps ≠ 0 ∧ (st1.sess s).perms = some p := by
    simp only [st1, step, joinRoom, hl, Bool.not_true, Bool.false_eq_true, ↓reduceIte]
    generalize leaveRoom st s = res
    obtain ⟨st0, ev⟩ := res
    simp [upd_sess, hs.joinSweeps]
  have hperm : (st2.sess s).perms = some p := by
    simp only [st2, step, sweepStep]
    split
    · exact hst1.2
    · simp [upd_sess, hst1.2]
  have := sweepStep_settles cfg hs st1 s hinv1 hst1.1
  intro q hq
  have h2 := this q hq
  rwa [show ((sweepStep cfg st1 s).1.sess s).perms = some p from hperm] at h2

/-- For the current source tree, in the statement's terms. -/
theorem C08_revocation_closes_code (st : St) (hr : Reachable codeCfg st) (s : Nat) (hq : (st.sess s).sweeps = 0) :
    ∀ p ∈ (st.sess s).pubs, Spec.mayPublish (st.sess s).perms p.stream p.media = true := by
  intro p hp
  rw [← Permitted_code]
  exact (C08_revocation_closes codeCfg C08_code_sound st hr s hq).1 p hp

/-! ### C08_subscribe_same_call -/

/-- **`requestoffer` is honoured (the hub asks the media server for a subscriber, existing or new) only if
the requester is an internal client, or both sessions are in the same room, the requester is in the call
and the other session exists and is in the call or is an internal client** (or the administrator
switched the requirement off with `allowsubscribeany`) — in every state. -/
theorem C08_subscribe_same_call (cfg : Cfg) (h : cfg.sound = true) (st : St) (a : Act) (s p : Nat) (T : String)
    (hev : Ev.requestOk s p T ∈ (step cfg st a).2) :
    (st.sess s).live = true ∧ SameCallSpec st s p :=
  step_ok cfg (sound_of cfg h) st a _ hev

/-- A subscriber is only ever created through an accepted `requestoffer` of its owner or a permitted
`sendoffer` of the publishing session. -/
theorem C08_subscriber_origin (cfg : Cfg) (h : cfg.sound = true) (st : St) (a : Act) (s src : Nat) (T : String)
    (hev : Ev.subNew s src T ∈ (step cfg st a).2) :
    ((st.sess s).live = true ∧ SameCallSpec st s src) ∨
    ((st.sess src).live = true ∧ MaySignal cfg (st.sess src).perms T = true) :=
  step_ok cfg (sound_of cfg h) st a _ hev

/-- Otherwise the request is refused with `not_allowed` and nothing changes. -/
theorem C08_request_refused (cfg : Cfg) (h : cfg.sound = true) (st : St) (s p : Nat) (T : String)
    (hl : (st.sess s).live = true) (hne : s ≠ p) (hany : st.allowAny = false) (hno : sameCall cfg st s p = false) :
    step cfg st (.request s p T) = (st, [.reply s "not_allowed"]) := by
  have hs := sound_of cfg h
  simp [step, requestStep, hl, hne, hs.dispatchOk, hany, hno]

/-- `isInSameCall` is exactly the statement's condition. -/
theorem C08_sameCall_iff (cfg : Cfg) (h : cfg.sound = true) (st : St) (s p : Nat) :
    sameCall cfg st s p = true ↔
      ((st.sess s).internal = true ∨
       ∃ r, (st.sess s).room = some r ∧ (st.sess p).room = some r ∧ (st.sess s).inCall = true ∧
            (st.sess p).live = true ∧ ((st.sess p).inCall = true ∨ (st.sess p).internal = true)) := by
  have hs := sound_of cfg h
  constructor
  · exact sameCall_spec cfg hs st s p
  · intro hc
    unfold sameCall
    simp only [hs.sameCallOk, hs.incallOk, hs.releaseOk, Bool.not_true, Bool.or_self, Bool.false_eq_true, ↓reduceIte]
    rcases hc with hi | ⟨r, h1, h2, h3, h4, h5⟩
    · simp [hi]
    · cases hi : (st.sess s).internal
      · simp only [Bool.false_eq_true, ↓reduceIte, h1, h3, h4, h2, Bool.not_true, bne_self_eq_false]
        rcases h5 with h5 | h5 <;> simp [h5]
      · simp

/-- "In the call" is meaningful: in every reachable state a session that is in the call is in a room
(the flag is dropped on leaving, joining another room and closing). -/
theorem C08_incall_needs_room (cfg : Cfg) (h : cfg.sound = true) (st : St) (hr : Reachable cfg st) (s : Nat)
    (hc : (st.sess s).inCall = true) : (st.sess s).room.isSome = true :=
  (reachable_inv cfg (sound_of cfg h) st hr s).incallRoom hc

/-! ### C08_control_transient_gates -/

/-- **Control messages are delivered only for internal clients and sessions with `control`; transient
data changes (and their events) only come from internal clients and sessions with `transient-data`.** -/
theorem C08_control_transient_gates (cfg : Cfg) (h : cfg.sound = true) (st : St) (a : Act) :
    (∀ to frm, Ev.deliver to "ctl" frm ∈ (step cfg st a).2 → (st.sess frm).live = true ∧ MayControl cfg (st.sess frm)) ∧
    (∀ to what frm, Ev.tev to what frm ∈ (step cfg st a).2 → (st.sess frm).live = true ∧ MayTransient cfg (st.sess frm)) :=
  ⟨fun _ _ hev => step_ok cfg (sound_of cfg h) st a _ hev rfl, fun _ _ _ hev => step_ok cfg (sound_of cfg h) st a _ hev⟩

/-- Without the permission a control message is dropped: no reply, no delivery, no change. -/
theorem C08_control_dropped (cfg : Cfg) (h : cfg.sound = true) (st : St) (s : Nat) (rc : Rcpt)
    (hno : ¬ MayControl cfg (st.sess s)) : step cfg st (.control s rc) = (st, []) := by
  have hs := sound_of cfg h
  have : mayControl cfg (st.sess s) = false := by
    cases hm : mayControl cfg (st.sess s)
    · rfl
    · exact absurd ((mayControl_spec cfg hs _).1 hm) hno
  simp only [step, controlStep, this]
  split <;> simp

/-- Without the permission a transient `set` / `remove` is refused with `not_allowed` and changes nothing. -/
theorem C08_transient_refused (cfg : Cfg) (h : cfg.sound = true) (st : St) (s r : Nat) (ta : TAct)
    (hl : (st.sess s).live = true) (hroom : (st.sess s).room = some r) (hta : ta ≠ .other)
    (hno : ¬ MayTransient cfg (st.sess s)) : step cfg st (.transient s ta) = (st, [.reply s "not_allowed"]) := by
  have hs := sound_of cfg h
  have : mayTransient cfg (st.sess s) = false := by
    cases hm : mayTransient cfg (st.sess s)
    · rfl
    · exact absurd ((mayTransient_spec cfg hs _).1 hm) hno
  cases ta <;> simp_all [step, transientStep]

/-- The transient data of a room only changes through a permitted write (or is dropped with the room). -/
theorem C08_store_changes (cfg : Cfg) (h : cfg.sound = true) (st : St) (a : Act) (r : Nat)
    (hch : (step cfg st a).1.store r ≠ st.store r) :
    (∃ s ta, a = .transient s ta ∧ (st.sess s).live = true ∧ MayTransient cfg (st.sess s)) ∨
    (step cfg st a).1.store r = [] := by
  have hs := sound_of cfg h
  have hleave : ∀ s, (leaveRoom st s).1.store r ≠ st.store r → (leaveRoom st s).1.store r = [] := by
    intro s
    unfold leaveRoom
    split
    · simp
    · unfold dropStoreIfEmpty
      split
      · simp only [St.upd]
        split <;> simp
      · simp [St.upd]
  cases a <;> simp only [step] at hch ⊢
  case join s r' p =>
    right
    unfold joinRoom at hch ⊢
    split at hch
    · exact absurd rfl hch
    · rename_i hl
      simp only [hl, ↓reduceIte]
      have := hleave s
      generalize leaveRoom st s = res at this hch
      obtain ⟨st0, ev⟩ := res
      exact this hch
  case leave s => exact Or.inr (hleave s hch)
  case setPerms s p => split at hch <;> exact absurd rfl hch
  case sweep s =>
    unfold sweepStep at hch
    simp only [] at hch
    split at hch <;> exact absurd rfl hch
  case incall s r' f =>
    unfold incallStep at hch
    simp only [] at hch
    repeat' split at hch
    all_goals exact absurd rfl hch
  case incallAll r' f =>
    unfold incallAllStep at hch
    split at hch <;> exact absurd rfl hch
  case close s =>
    right
    unfold closeStep at hch ⊢
    split at hch
    · exact absurd rfl hch
    · rename_i hl
      simp only [hl, ↓reduceIte]
      have := hleave s
      generalize leaveRoom st s = res at this hch
      obtain ⟨st0, ev⟩ := res
      exact this hch
  case setAllowAny b => exact absurd rfl hch
  case offer s T ml =>
    unfold offerStep at hch
    simp only [] at hch
    repeat' split at hch
    all_goals exact absurd rfl hch
  case msg s r' k T => rw [msgStep_state] at hch; exact absurd rfl hch
  case request s p T =>
    unfold requestStep getOrCreateSub at hch
    simp only [] at hch
    repeat' split at hch
    all_goals first
      | exact absurd rfl hch
      | (simp_all; done)
  case sendoffer s r' T =>
    unfold sendofferStep getOrCreateSub at hch
    simp only [] at hch
    repeat' split at hch
    all_goals first
      | exact absurd rfl hch
      | (simp_all; done)
  case control s rc => rw [controlStep_state] at hch; exact absurd rfl hch
  case transient s ta =>
    left
    refine ⟨s, ta, rfl, ?_⟩
    unfold transientStep at hch
    simp only [] at hch
    cases hl : (st.sess s).live
    · simp [hl] at hch
    · simp only [hl, Bool.not_true, Bool.false_eq_true, ↓reduceIte] at hch
      cases hm : mayTransient cfg (st.sess s)
      · exfalso
        simp only [hm, Bool.not_false, ↓reduceIte] at hch
        repeat' split at hch
        all_goals exact absurd rfl hch
      · exact ⟨rfl, (mayTransient_spec cfg hs _).1 hm⟩

/-- For the current source tree, in the statement's terms. -/
theorem C08_control_transient_gates_code (st : St) (a : Act) :
    (∀ to frm, Ev.deliver to "ctl" frm ∈ (step codeCfg st a).2 →
        (st.sess frm).internal = true ∨ Spec.holds (st.sess frm).perms Spec.control = true) ∧
    (∀ to what frm, Ev.tev to what frm ∈ (step codeCfg st a).2 →
        (st.sess frm).internal = true ∨ Spec.holds (st.sess frm).perms Spec.transientData = true) := by
  obtain ⟨h1, h2⟩ := C08_control_transient_gates codeCfg C08_code_sound st a
  obtain ⟨_, _, _, _, h5, h6, _, _⟩ := C08_code_names
  refine ⟨fun to frm hev => ?_, fun to what frm hev => ?_⟩
  · have := (h1 to frm hev).2
    simpa [MayControl, hasPerm_code, h5] using this
  · have := (h2 to what frm hev).2
    simpa [MayTransient, hasPerm_code, h6] using this


/-! ### the two defects (repaired in /repo) as proved witnesses, and non-vacuity

`Cfg.repaired` spells out the configuration of the repaired tree; `Cfg.pinned` is the tree as it was
pinned: both blocks of the revocation goroutine `return` after closing their publisher, and
`processJoinRoom` only stores the permissions of the join reply. -/

def Cfg.repaired : Cfg :=
  { permMedia := "publish-media", permAudio := "publish-audio", permVideo := "publish-video", permScreen := "publish-screen"
    permControl := "control", permTransient := "transient-data", overrides := [("hide-displaynames", false)]
    streamScreen := "screen", mcuStreams := ["video", "screen"], bitAudio := 1, bitVideo := 2, bitScreen := 4
    sweep := [{ stream := "video", guard := "publish-media", conds := [(1, "publish-audio"), (2, "publish-video")], early := false },
              { stream := "screen", guard := "publish-screen", conds := [], early := false }]
    joinSweeps := true
    hasPermOk := true, sdpOk := true, sendOk := true, offerTypeOk := true, publisherOk := true, dispatchOk := true
    sendofferGuarded := true, sameCallOk := true, controlOk := true, transientOk := true, releaseOk := true, incallOk := true }

def Cfg.pinned : Cfg :=
  { Cfg.repaired with
    sweep := [{ stream := "video", guard := "publish-media", conds := [(1, "publish-audio"), (2, "publish-video")], early := true },
              { stream := "screen", guard := "publish-screen", conds := [], early := true }]
    joinSweeps := false }

/-- The configuration read from the current tree is the repaired one, field by field. -/
theorem C08_code_is_repaired : codeCfg = Cfg.repaired := by decide +kernel

theorem repaired_sound : Cfg.repaired.sound = true := by decide
theorem pinned_not_sound : Cfg.pinned.sound = false := by decide

def allPublish : List String := ["publish-media", "publish-audio", "publish-video", "publish-screen"]

/-- DESIGN §6 #5: camera and screen published, all permissions withdrawn, the revocation goroutine has run. -/
def witnessEarlyReturn : List Act :=
  [.join 0 1 (some allPublish), .offer 0 "video" [.audio, .video], .offer 0 "screen" [.video], .setPerms 0 [], .sweep 0]

/-- On the pinned tree the screen publisher survives the withdrawal of every permission … -/
theorem C08_early_return_leaves_screen :
    ((run Cfg.pinned (St.init 4 [3]) witnessEarlyReturn).sess 0).sweeps = 0 ∧
    ((run Cfg.pinned (St.init 4 [3]) witnessEarlyReturn).sess 0).perms = some [] ∧
    ((run Cfg.pinned (St.init 4 [3]) witnessEarlyReturn).sess 0).pubs = [{ stream := "screen", media := { screen := true } }] ∧
    Permitted Cfg.pinned (some []) "screen" { screen := true } = false := by decide

/-- … on the repaired one nothing is left. -/
example : ((run Cfg.repaired (St.init 4 [3]) witnessEarlyReturn).sess 0).pubs = [] := by decide

/-- A publisher created before the session joins (it holds every permission until the backend says
otherwise), then a join reply granting `publish-audio` only. -/
def witnessJoinReply : List Act :=
  [.offer 0 "video" [.audio, .video], .join 0 1 (some ["publish-audio"]), .sweep 0]

/-- On the pinned tree the audio + video publisher stays although the room grants audio only … -/
theorem C08_join_without_sweep_leaves_publisher :
    ((run Cfg.pinned (St.init 4 [3]) witnessJoinReply).sess 0).sweeps = 0 ∧
    ((run Cfg.pinned (St.init 4 [3]) witnessJoinReply).sess 0).pubs = [{ stream := "video", media := { audio := true, video := true } }] ∧
    Permitted Cfg.pinned (some ["publish-audio"]) "video" { audio := true, video := true } = false := by decide

/-- … on the repaired one it is closed. -/
example : ((run Cfg.repaired (St.init 4 [3]) witnessJoinReply).sess 0).pubs = [] := by decide

/-! Non-vacuity of the general theorems (hypotheses met by concrete, non-trivial states). -/

/-- `C08_publish_needs_permission`: a publisher is created, updated, gets a candidate, is announced by `sendoffer`. -/
example :
    let hist : List Act := [.join 0 1 (some ["publish-audio", "publish-screen"]), .join 1 1 (some [])]
    Ev.pubNew 0 "video" { audio := true } ∈ (step Cfg.repaired (run Cfg.repaired (St.init 4 [3]) hist) (.offer 0 "video" [.audio, .other])).2 ∧
    lastSet hist 0 = some ["publish-audio", "publish-screen"] ∧
    Ev.pubSet 0 "video" {} ∈
      (step Cfg.repaired (run Cfg.repaired (St.init 4 [3]) (hist ++ [.offer 0 "video" [.audio]])) (.offer 0 "video" [])).2 ∧
    Ev.pubMsg 0 "video" .candidate ∈
      (step Cfg.repaired (run Cfg.repaired (St.init 4 [3]) (hist ++ [.offer 0 "video" [.audio]])) (.msg 0 0 .candidate "video")).2 ∧
    Ev.sendofferOk 0 1 "video" ∈
      (step Cfg.repaired (run Cfg.repaired (St.init 4 [3]) (hist ++ [.offer 0 "video" [.audio]])) (.sendoffer 0 1 "video")).2 := by
  decide

/-- … and the refusals are real: video without `publish-video`, a candidate for a screen share without `publish-screen`. -/
example :
    let st := run Cfg.repaired (St.init 4 [3]) [.join 0 1 (some ["publish-audio"])]
    step Cfg.repaired st (.offer 0 "video" [.audio, .video]) = (st, [.reply 0 "not_allowed"]) ∧
    step Cfg.repaired st (.msg 0 0 .candidate "screen") = (st, [.reply 0 "not_allowed"]) :=
  ⟨C08_offer_refused _ repaired_sound _ _ _ _ (by decide) (by decide),
   C08_candidate_refused _ repaired_sound _ _ _ _ (by decide) (by decide) (by decide)⟩

/-- `C08_revocation_closes` / `C08_update_then_sweep`: a reachable state with both publishers, a live session. -/
example :
    let st := run Cfg.repaired (St.init 4 [3])
      [.join 0 1 (some allPublish), .sweep 0, .offer 0 "video" [.audio, .video], .offer 0 "screen" [.video]]
    Reachable Cfg.repaired st ∧ (st.sess 0).live = true ∧ (st.sess 0).sweeps = 0 ∧ (st.sess 0).pubs.length = 2 :=
  ⟨⟨4, [3], _, rfl⟩, by decide, by decide, by decide⟩

/-- `C08_subscribe_same_call`: accepted in the same call, refused when the publisher is not in the call. -/
example :
    let hist : List Act := [.join 0 1 none, .join 1 1 none, .offer 0 "video" [.audio], .incall 1 1 true]
    Ev.requestOk 1 0 "video" ∈
      (step Cfg.repaired (run Cfg.repaired (St.init 4 [3]) (hist ++ [.incall 0 1 true])) (.request 1 0 "video")).2 ∧
    (step Cfg.repaired (run Cfg.repaired (St.init 4 [3]) hist) (.request 1 0 "video")).2 = [.reply 1 "not_allowed"] ∧
    -- an internal client may subscribe without being in a call
    Ev.requestOk 3 0 "video" ∈ (step Cfg.repaired (run Cfg.repaired (St.init 4 [3]) hist) (.request 3 0 "video")).2 := by
  decide

/-- `C08_control_transient_gates`: delivered / stored with the permission, dropped / refused without. -/
example :
    let st := run Cfg.repaired (St.init 4 [3]) [.join 0 1 (some ["control", "transient-data"]), .join 1 1 (some [])]
    Ev.deliver 1 "ctl" 0 ∈ (step Cfg.repaired st (.control 0 .room)).2 ∧
    Ev.tev 1 "tset.k.v" 0 ∈ (step Cfg.repaired st (.transient 0 (.set "k" "v"))).2 ∧
    (step Cfg.repaired st (.control 1 .room)).2 = [] ∧
    (step Cfg.repaired st (.transient 1 (.set "k" "v"))).2 = [.reply 1 "not_allowed"] := by
  decide

end SigModel.Perm
