/-
C08 — media actions need the matching permission or call membership: property theorems.
-/
import SigModel.Spec.Perm

namespace SigModel.Perm

/-- The current source tree is a configuration the theorems apply to: every decision function is the
program the model stands for, the revocation goroutine runs both blocks without an early `return`,
join replies install their permissions like a permissions update, the media server accepts exactly the
camera and the screen stream type. -/
theorem C08_code_sound : codeCfg.sound = true := by decide +kernel

/-- The permission and stream names in the source are the ones of the statement. -/
theorem C08_code_names :
    codeCfg.permMedia = Spec.publishMedia ∧ codeCfg.permAudio = Spec.publishAudio ∧ codeCfg.permVideo = Spec.publishVideo ∧
    codeCfg.permScreen = Spec.publishScreen ∧ codeCfg.permControl = Spec.control ∧ codeCfg.permTransient = Spec.transientData ∧
    codeCfg.streamScreen = Spec.screen ∧ codeCfg.overrides = [(Spec.hideDisplaynames, false)] := by decide +kernel

end SigModel.Perm
