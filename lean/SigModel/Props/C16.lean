/-
C16 — Forwarding headers are trusted only from trusted proxies.
-/
import SigModel.Lemmas.RealIP

namespace SigModel.RealIP
open SigModel.Generated.RealIP

/-- A peer that is not a configured trusted proxy (or does not even parse, or no list is
configured at all) is reported as it is, whatever the headers say. -/
theorem C16_untrusted_peer_ignores_headers (trusted : Option (List Cidr)) (r : Req)
    (h : r.peer.valid = false ∨ trusted = none ∨ ∃ l, trusted = some l ∧ allowed l r.peer.bytes = false) :
    realIP trusted r = r.peer := by
  unfold realIP
  rcases h with h | h | ⟨l, rfl, h⟩
  · simp [h]
  · subst h; simp [gate_first]
  · simp [h, gate_first]

end SigModel.RealIP
