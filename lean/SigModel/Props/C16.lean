/-
C16 — Forwarding headers are trusted only from trusted proxies.

Property theorems about the model of `GetRealUserIP`, `AllowedIps` and the statistics
gate (`Model/RealIP.lean`), which is defined over the facts regenerated from the source
(`Generated/RealIP.lean`: header names, order of consultation, peer check before any
header, reversal of the hop list, default lists, gated routes, refusal status), stated
against the declarative spec of `Spec/RealIP.lean`.

All theorems quantify over every tokenised request: any peer text (parsable or not), any
number of `X-Real-IP` values and `X-Forwarded-For` hops, each with arbitrary text and
arbitrary parse result, and over every list of networks with arbitrary `IP` / `Mask`
bytes.  `Req.wf` only says what `net.ParseIP` guarantees: the empty string is not an
address.
-/
import SigModel.Lemmas.RealIP

namespace SigModel.RealIP
open SigModel.Generated.RealIP

/-! ## 1. An untrusted peer is reported as it is -/

/-- A peer that is not a configured trusted proxy (or is not an IP address at all, or no
list is configured) is the client address, whatever the headers say. -/
theorem C16_untrusted_peer_ignores_headers (trusted : Option (List Cidr)) (r : Req)
    (h : r.peer.valid = false ∨ trusted = none ∨
      ∃ l, trusted = some l ∧ allowed l r.peer.bytes = false) :
    realIP trusted r = r.peer := by
  unfold realIP
  rcases h with h | h | ⟨l, rfl, h⟩
  · simp [h]
  · subst h; simp [gate_first]
  · simp [h, gate_first]

example : realIP (some defaultTrusted)
    { peer := ⟨"203.0.113.9", some [0,0,0,0,0,0,0,0,0,0,255,255,203,0,113,9]⟩,
      xreal := [⟨"127.0.0.1", some [0,0,0,0,0,0,0,0,0,0,255,255,127,0,0,1]⟩],
      hops := [⟨"127.0.0.1", some [0,0,0,0,0,0,0,0,0,0,255,255,127,0,0,1]⟩] }
    = ⟨"203.0.113.9", some [0,0,0,0,0,0,0,0,0,0,255,255,203,0,113,9]⟩ := by decide

/-! ## 2. Behind a trusted proxy: X-Real-IP, else the right-most untrusted hop -/

/-- For every request and every trusted list the code's answer is the statement's:
the peer unless it is a trusted proxy; then the (first) `X-Real-IP` value if it is an
address; else the right-most `X-Forwarded-For` hop that is an address and not a trusted
proxy; else — all hops trusted — the left-most hop that is an address; else the peer. -/
theorem C16_trusted_result_shape (l : List Cidr) (r : Req) (hw : r.wf = true) :
    realIP (some l) r = specRealIP (allowed l) r := by
  have hw' : (r.peer.wf = true ∧ r.xreal.all Tok.wf = true) ∧ r.hops.all Tok.wf = true := by
    simpa [Req.wf] using hw
  obtain ⟨⟨_, hwx⟩, hwh⟩ := hw'
  by_cases hv : r.peer.valid = true
  · by_cases ht : allowed l r.peer.bytes = true
    · unfold realIP specRealIP specRealIP.fwd
      simp only [hv, ht, gate_first, Bool.not_true, Bool.and_false, Bool.and_self, Bool.false_eq_true,
        if_false, Option.getD_some, consult_eq, fromXReal_eq r hwx, fromForwarded_eq l r hwh]
      cases hx : r.xreal.head? with
      | none =>
        simp only [Option.none_or]
        cases r.hops.reverse.find? (fun h => h.valid && !allowed l h.bytes) with
        | some h => rfl
        | none => cases r.hops.find? (fun h => h.valid) <;> rfl
      | some t =>
        by_cases htv : t.valid = true
        · simp [htv]
        · simp only [htv, Bool.false_eq_true, if_false, Option.none_or]
          cases r.hops.reverse.find? (fun h => h.valid && !allowed l h.bytes) with
          | some h => rfl
          | none => cases r.hops.find? (fun h => h.valid) <;> rfl
    · have ht' : allowed l r.peer.bytes = false := by simpa using ht
      rw [C16_untrusted_peer_ignores_headers _ _ (Or.inr (Or.inr ⟨l, rfl, ht'⟩))]
      simp [specRealIP, ht']
  · have hv' : r.peer.valid = false := by simpa using hv
    rw [C16_untrusted_peer_ignores_headers _ _ (Or.inl hv')]
    simp [specRealIP, hv']

/-- Non-vacuity: a trusted proxy forwards a chain; the right-most untrusted hop wins over the
forged left-most one, with ports stripped by the tokeniser. -/
example : (realIP (some defaultTrusted)
    { peer := ⟨"10.0.0.7", some [0,0,0,0,0,0,0,0,0,0,255,255,10,0,0,7]⟩, xreal := [],
      hops := [⟨"127.0.0.1", some [0,0,0,0,0,0,0,0,0,0,255,255,127,0,0,1]⟩,
               ⟨"198.51.100.4", some [0,0,0,0,0,0,0,0,0,0,255,255,198,51,100,4]⟩,
               ⟨"unknown", none⟩,
               ⟨"192.168.3.3", some [0,0,0,0,0,0,0,0,0,0,255,255,192,168,3,3]⟩] }).text
    = "198.51.100.4" := by decide

/-- The proxy chain appended on the right decides: if some hop is an address outside the
trusted list and every hop to its right is a trusted proxy (or no address at all), that
hop is the client address — whatever the client itself put to the left of it. -/
theorem C16_appended_hop_wins (l : List Cidr) (peer c : Tok) (x pre post : List Tok)
    (hw : ({ peer := peer, xreal := x, hops := pre ++ c :: post } : Req).wf = true)
    (hp : peer.valid = true ∧ allowed l peer.bytes = true)
    (hx : ∀ t, x.head? = some t → t.valid = false)
    (hc : c.valid = true ∧ allowed l c.bytes = false)
    (hpost : ∀ h ∈ post, h.valid = false ∨ allowed l h.bytes = true) :
    realIP (some l) { peer := peer, xreal := x, hops := pre ++ c :: post } = c := by
  rw [C16_trusted_result_shape l _ hw]
  unfold specRealIP specRealIP.fwd
  have hfind : (pre ++ c :: post).reverse.find? (fun h => h.valid && !allowed l h.bytes) = some c := by
    rw [List.reverse_append, List.reverse_cons, List.append_assoc, List.find?_append]
    have hnone : post.reverse.find? (fun h => h.valid && !allowed l h.bytes) = none := by
      rw [List.find?_eq_none]
      intro h hm
      rcases hpost h (List.mem_reverse.mp hm) with h1 | h1 <;> simp [h1]
    simp [hnone, hc.1, hc.2]
  simp only [hp.1, hp.2, Bool.and_self, Bool.not_true, Bool.false_eq_true, if_false, hfind]
  cases hh : x.head? with
  | none => rfl
  | some t => simp [hx t hh]

/-! ## 3. A client that connects directly cannot change its apparent address -/

/-- Two requests from the same socket peer that is not a trusted proxy get the same client
address — the peer — and the same answer from the gate, whatever headers either carries. -/
theorem C16_direct_client_cannot_spoof (c : Config) (peer : Tok) (x x' h h' : List Tok)
    (hu : peer.valid = false ∨ allowed c.trusted peer.bytes = false) :
    realIP (some c.trusted) { peer := peer, xreal := x, hops := h } = peer ∧
    realIP (some c.trusted) { peer := peer, xreal := x', hops := h' } = peer ∧
    allowStats c { peer := peer, xreal := x, hops := h } =
      allowStats c { peer := peer, xreal := x', hops := h' } ∧
    ∀ s route, endpointStatus s route c { peer := peer, xreal := x, hops := h } =
      endpointStatus s route c { peer := peer, xreal := x', hops := h' } := by
  have key : ∀ x h, realIP (some c.trusted) { peer := peer, xreal := x, hops := h } = peer := by
    intro x h
    apply C16_untrusted_peer_ignores_headers
    rcases hu with hu | hu
    · exact Or.inl hu
    · exact Or.inr (Or.inr ⟨_, rfl, hu⟩)
  have ha : ∀ x h, allowStats c { peer := peer, xreal := x, hops := h } =
      (peer.valid && allowed c.allow peer.bytes) := by
    intro x h; simp [allowStats, key]
  refine ⟨key x h, key x' h', by rw [ha, ha], ?_⟩
  intro s route
  simp [endpointStatus, ha]

/-- With no trusted list at all (`nil`) nobody can. -/
theorem C16_no_trusted_list (r : Req) : realIP none r = r.peer :=
  C16_untrusted_peer_ignores_headers none r (Or.inr (Or.inl rfl))

/-! ## 4. The statistics endpoints answer only to addresses on the allow-list -/

theorem stmtGated_sub (s : Server) : ∀ route ∈ stmtGated s, route ∈ gatedRoutes s := by
  cases s <;> decide

/-- For each endpoint named in the statement, on both servers: the request is answered
(status 200) iff the client address determined as in part 2 is an IP address on the
allow-list; otherwise the status is 403. -/
theorem C16_endpoints_gated (s : Server) (route : String) (hr : route ∈ stmtGated s)
    (c : Config) (r : Req) (hw : r.wf = true) :
    (endpointStatus s route c r = 200 ↔ specAnswer (allowed c.trusted) (allowed c.allow) r = true) ∧
    (endpointStatus s route c r ≠ 200 → endpointStatus s route c r = 403) := by
  have hg : route ∈ gatedRoutes s := stmtGated_sub s route hr
  have hs : allowStats c r = specAnswer (allowed c.trusted) (allowed c.allow) r := by
    simp [allowStats, specAnswer, C16_trusted_result_shape c.trusted r hw]
  have hd : deniedStatus s = 403 := by cases s <;> decide
  unfold endpointStatus
  rw [if_pos hg, hs, hd]
  cases specAnswer (allowed c.trusted) (allowed c.allow) r <;> simp

/-- Consequence for a direct client: forged headers never open the gate. -/
theorem C16_direct_client_gate (s : Server) (route : String) (hr : route ∈ stmtGated s)
    (c : Config) (r : Req)
    (hu : r.peer.valid = false ∨ allowed c.trusted r.peer.bytes = false)
    (hn : r.peer.valid = false ∨ allowed c.allow r.peer.bytes = false) :
    endpointStatus s route c r = 403 := by
  have hg : route ∈ gatedRoutes s := stmtGated_sub s route hr
  have hd : deniedStatus s = 403 := by cases s <;> decide
  have hp : realIP (some c.trusted) r = r.peer := by
    apply C16_untrusted_peer_ignores_headers
    rcases hu with hu | hu
    · exact Or.inl hu
    · exact Or.inr (Or.inr ⟨_, rfl, hu⟩)
  unfold endpointStatus allowStats
  rw [if_pos hg, hp, hd]
  rcases hn with hn | hn <;> simp [hn]

example : endpointStatus .main "/api/v1/stats" Config.default
    { peer := ⟨"127.0.0.1", some [0,0,0,0,0,0,0,0,0,0,255,255,127,0,0,1]⟩, xreal := [], hops := [] } = 200 := by
  decide

example : endpointStatus .proxy "/metrics" Config.default
    { peer := ⟨"203.0.113.9", some [0,0,0,0,0,0,0,0,0,0,255,255,203,0,113,9]⟩,
      xreal := [⟨"127.0.0.1", some [0,0,0,0,0,0,0,0,0,0,255,255,127,0,0,1]⟩], hops := [] } = 403 := by
  decide

/-! ## 5. The facts the statement names -/

/-- Header names, order of consultation, the peer check before any header, right-to-left
scan, gated routes and refusal status as found in the source now. -/
theorem C16_facts :
    realIPHeader = "X-Real-IP" ∧ forwardedHeader = "X-Forwarded-For" ∧
    headerOrder = [realIPHeader, forwardedHeader] ∧
    peerGateFirst = true ∧ hopsReversed = true ∧
    defaultAllowedIps = ["127.0.0.1/32"] ∧
    privateIpNets = ["127.0.0.0/8", "10.0.0.0/8", "172.16.0.0/12", "192.168.0.0/16"] ∧
    defaultTrustedIsPrivate = true ∧ emptyFallsBackToDefault = true ∧
    gatedRoutes .main = stmtGated .main ∧ gatedRoutes .proxy = stmtGated .proxy ∧
    deniedStatus .main = 403 ∧ deniedStatus .proxy = 403 ∧
    -- the socket address and the forwarding headers are read in `GetRealUserIP` and nowhere else;
    -- websocket clients (logging, throttling, geo lookup), the room API throttle and both gates call it
    soleAddressSource = true ∧
    realIPCallers = ["backend_server.go:allowStatsAccess", "backend_server.go:roomHandler",
      "hub.go:getRealUserIP", "hub.go:serveWs",
      "proxy/proxy_server.go:allowStatsAccess", "proxy/proxy_server.go:proxyHandler"] := by decide

/-! ## 6. "On the list" means prefix match -/

/-- Go's `IPNet.Contains` (byte-and-mask loop with IPv4-in-IPv6 conversion of both the
network and the address) is the textbook reading of `a.b.c.d/n`: same family after
un-mapping and the first `n` bits agree — for every network the parsers can build and every
address `net.ParseIP` can return. -/
theorem C16_contains_is_prefix_match (n : Cidr) (ip : List Nat) (hn : n.wf = true)
    (hb : bytesOk ip = true) (hl : ip.length = 4 ∨ ip.length = 16) :
    contains n ip = specContains n ip :=
  contains_eq_specContains n ip hn hb hl

example : Cidr.wf ⟨[10, 0, 0, 0], [255, 0, 0, 0]⟩ = true ∧
    contains ⟨[10, 0, 0, 0], [255, 0, 0, 0]⟩ [0,0,0,0,0,0,0,0,0,0,255,255,10,9,8,7] = true ∧
    contains ⟨[0,0,0,0,0,0,0,0,0,0,255,255,10,0,0,0], [255,255,255,255,255,255,255,255,255,255,255,255,255,0,0,0]⟩
      [10, 9, 8, 7] = true ∧
    contains ⟨[10, 0, 0, 0], [255, 0, 0, 0]⟩ [11, 0, 0, 0] = false := by decide

/-- Parts 2 and 4 for any reading `fT` / `fA` of "is a configured trusted proxy" / "is on the allow-list"
that agrees with the code's lists on addresses: the statement in that reading. -/
theorem statement_pointwise (c : Config) (fT fA : List Nat → Bool) (r : Req)
    (hT : ∀ ip, bytesOk ip = true → (ip.length = 4 ∨ ip.length = 16) → allowed c.trusted ip = fT ip)
    (hA : ∀ ip, bytesOk ip = true → (ip.length = 4 ∨ ip.length = 16) → allowed c.allow ip = fA ip)
    (hw : r.wf = true) (hi : r.ipwf = true) :
    realIP (some c.trusted) r = specRealIP fT r ∧ allowStats c r = specAnswer fT fA r := by
  have hi' : (r.peer.ipwf = true ∧ r.xreal.all Tok.ipwf = true) ∧ r.hops.all Tok.ipwf = true := by
    simpa [Req.ipwf] using hi
  obtain ⟨⟨hip, hix⟩, hih⟩ := hi'
  have hpeer : r.peer.valid = true → allowed c.trusted r.peer.bytes = fT r.peer.bytes := by
    intro hv
    obtain ⟨h1, h2⟩ := Tok.bytes_ok hv hip
    exact hT _ h1 h2
  have hhops : ∀ t ∈ r.hops, t.valid = true → allowed c.trusted t.bytes = fT t.bytes := by
    intro t ht hv
    obtain ⟨h1, h2⟩ := Tok.bytes_ok hv (List.all_eq_true.mp hih t ht)
    exact hT _ h1 h2
  have h1 : realIP (some c.trusted) r = specRealIP fT r := by
    rw [C16_trusted_result_shape c.trusted r hw]
    exact specRealIP_congr _ _ r hpeer hhops
  refine ⟨h1, ?_⟩
  unfold allowStats specAnswer
  rw [h1]
  -- the chosen token is the peer, an X-Real-IP value or a hop: all have well-formed addresses
  by_cases hv : (specRealIP fT r).valid = true
  · have hmem : (specRealIP fT r).ipwf = true := by
      generalize fT = f
      unfold specRealIP specRealIP.fwd
      have hfwd : (match r.hops.reverse.find? (fun (h : Tok) => h.valid && !f h.bytes) with
          | some h => h
          | none => match r.hops.find? (fun (h : Tok) => h.valid) with
            | some h => h
            | none => r.peer).ipwf = true := by
        cases h1 : r.hops.reverse.find? (fun h => h.valid && !f h.bytes) with
        | some t =>
          exact List.all_eq_true.mp hih t (List.mem_reverse.mp (List.mem_of_find?_eq_some h1))
        | none =>
          cases h2 : r.hops.find? (fun h => h.valid) with
          | some t => exact List.all_eq_true.mp hih t (List.mem_of_find?_eq_some h2)
          | none => exact hip
      split
      · exact hip
      · cases hx : r.xreal.head? with
        | none => exact hfwd
        | some t =>
          simp only []
          split
          · exact List.all_eq_true.mp hix t (List.mem_of_mem_head? hx)
          · exact hfwd
    obtain ⟨hb1, hb2⟩ := Tok.bytes_ok hv hmem
    show ((specRealIP fT r).valid && allowed c.allow (specRealIP fT r).bytes) =
      ((specRealIP fT r).valid && fA (specRealIP fT r).bytes)
    rw [hA _ hb1 hb2]
  · show ((specRealIP fT r).valid && allowed c.allow (specRealIP fT r).bytes) =
      ((specRealIP fT r).valid && fA (specRealIP fT r).bytes)
    simp [hv]

/-- Parts 2 and 4 with membership read on bits. -/
theorem C16_statement_on_bits (c : Config) (r : Req)
    (hwt : c.trusted.all Cidr.wf = true) (hwa : c.allow.all Cidr.wf = true)
    (hw : r.wf = true) (hi : r.ipwf = true) :
    realIP (some c.trusted) r = specRealIP (specAllowed c.trusted) r ∧
    allowStats c r = specAnswer (specAllowed c.trusted) (specAllowed c.allow) r :=
  statement_pointwise c _ _ r (fun _ hb hl => allowed_eq_specAllowed _ _ hwt hb hl)
    (fun _ hb hl => allowed_eq_specAllowed _ _ hwa hb hl) hw hi

/-! ## 7. Defaults and configuration -/

/-- The built-in lists are well-formed networks. -/
theorem C16_default_lists_wf :
    defaultTrusted.all Cidr.wf = true ∧ defaultAllow.all Cidr.wf = true := by decide

/-- Whoever is on the default allow-list (127.0.0.1) is inside the default trusted networks. -/
theorem default_allow_sub_trusted (ip : List Nat) (h : allowed defaultAllow ip = true) :
    allowed defaultTrusted ip = true := by
  have hA : defaultAllow = [⟨[0,0,0,0,0,0,0,0,0,0,255,255,127,0,0,1], [255,255,255,255]⟩] := by decide
  have hT : defaultTrusted = [⟨[127,0,0,0],[255,0,0,0]⟩, ⟨[10,0,0,0],[255,0,0,0]⟩,
      ⟨[172,16,0,0],[255,240,0,0]⟩, ⟨[192,168,0,0],[255,255,0,0]⟩] := by decide
  rw [hA] at h
  rw [hT]
  have hn1 : networkNumberAndMask ⟨[0,0,0,0,0,0,0,0,0,0,255,255,127,0,0,1], [255,255,255,255]⟩ =
      ([127,0,0,1],[255,255,255,255]) := by decide
  have hn2 : networkNumberAndMask ⟨[127,0,0,0],[255,0,0,0]⟩ = ([127,0,0,0],[255,0,0,0]) := by decide
  simp only [allowed, List.any_cons, List.any_nil, Bool.or_false, contains, hn1] at h
  simp only [allowed, List.any_cons, contains, hn2, Bool.or_eq_true]
  left
  generalize (to4 ip).getD ip = a at *
  match a with
  | [x0, x1, x2, x3] =>
    simp only [maskedEq, List.length_cons, List.length_nil, ne_eq, not_true_eq_false, if_false,
      Bool.and_eq_true, beq_iff_eq] at h ⊢
    simp [h.1]
  | [] | [_] | [_, _] | [_, _, _] | _ :: _ :: _ :: _ :: _ :: _ => simp at h

/-- With the built-in configuration (nothing configured) a peer outside the private networks
is refused by every gated endpoint, whatever headers it sends. -/
theorem C16_default_config_public_peer_refused (s : Server) (route : String) (hr : route ∈ stmtGated s)
    (r : Req) (hu : r.peer.valid = false ∨ allowed defaultTrusted r.peer.bytes = false) :
    endpointStatus s route Config.default r = 403 := by
  apply C16_direct_client_gate s route hr Config.default r hu
  rcases hu with hu | hu
  · exact Or.inl hu
  · right
    cases h : allowed Config.default.allow r.peer.bytes with
    | false => rfl
    | true =>
      have := default_allow_sub_trusted _ h
      rw [hu] at this; cases this

/-- Nothing configured = the defaults; a list that parses replaces the old one on reload
exactly as a fresh start would; one that does not parse is refused at start and ignored on
reload. -/
theorem C16_config (c : Config) (t a : List Entry) :
    Config.fresh [] [] = some Config.default ∧
    (∀ tl al, parseAllowed t = some tl → parseAllowed a = some al →
      Config.fresh t a = some (c.reload t a)) ∧
    (parseAllowed t = none → Config.fresh t a = none ∧ (c.reload t a).trusted = c.trusted) ∧
    (parseAllowed a = none → Config.fresh t a = none ∧ (c.reload t a).allow = c.allow) := by
  refine ⟨by decide, ?_, ?_, ?_⟩
  · intro tl al h1 h2; simp [Config.fresh, Config.reload, h1, h2]
  · intro h; simp [Config.fresh, Config.reload, h]
  · intro h
    constructor
    · unfold Config.fresh; rw [h]; cases parseAllowed t <;> rfl
    · simp [Config.reload, h]

theorem C16_parse_refuses_iff (es : List Entry) : parseAllowed es = none ↔ Entry.bad ∈ es := by
  induction es with
  | nil => simp [parseAllowed]
  | cons e es ih =>
    cases e with
    | skip => simp [parseAllowed, ih]
    | bad => simp [parseAllowed]
    | host h => simp [parseAllowed, ih]
    | net c => simp [parseAllowed, ih]

/-! ## 8. "Configured" means what the operator wrote -/

/-- An entry without prefix length stands for its own address and nothing else: the network the code
builds for it contains an address iff it is that address (an IPv4 address in either of its spellings; never
an address of the other family, never a neighbour). -/
theorem C16_host_entry_exact (h ip : List Nat) (bh : bytesOk h = true) (hl : h.length = 4 ∨ h.length = 16)
    (bi : bytesOk ip = true) (il : ip.length = 4 ∨ ip.length = 16) :
    (allowed [hostNet h] ip = true ↔ unmap ip = unmap h) ∧ (hostNet h).wf = true := by
  constructor
  · have hal := unmap_length il
    have h1 : ((unmap ip).length == 4 || (unmap ip).length == 16) = true := by
      rcases hal with h | h <;> simp [h]
    simp [allowed, contains_hostNet h ip bh hl bi il, specHostMatches, h1]
  · rw [hostNet_eq]
    have hc : ∀ n, canonicalMask (List.replicate n 255) = true := by
      intro n
      have hm : ∀ n, List.replicate n 255 = cidrMask (8 * n) n := by
        intro n
        induction n with
        | zero => rfl
        | succ k ih =>
          rw [cidrMask_succ, if_pos (by omega), List.replicate_succ, ih]
          have : 8 * (k + 1) - 8 = 8 * k := by omega
          rw [this]
      unfold canonicalMask
      rw [List.length_replicate, beq_iff_eq]
      conv => rhs; rw [hm n, leadingOnes_cidrMask n (8 * n) (Nat.le_refl _)]
      exact hm n
    have hbm : ∀ n, bytesOk (List.replicate n 255) = true := by
      intro n; simp [bytesOk, List.all_replicate]
    simp only [Cidr.wf, bh, hbm, hc, List.length_replicate, Bool.true_and, Bool.and_eq_true, Bool.or_eq_true,
      beq_iff_eq]
    exact ⟨hl, hl⟩

/-- `2001:db8::1` is not `2001:db8::/32`, `::1` is not `::/32`, `10.0.0.1` matches `::ffff:10.0.0.1` and
neither `10.0.0.2` nor the IPv6 address `a00:1::`. -/
example :
    allowed [hostNet [0x20,0x01,0x0d,0xb8,0,0,0,0,0,0,0,0,0,0,0,1]] [0x20,0x01,0x0d,0xb8,0,0,0,0,0,0,0,0,0,0,0,2] = false ∧
    allowed [hostNet [0,0,0,0,0,0,0,0,0,0,0,0,0,0,0,1]] [0,0,0,0,0,0,0,1,0,0,0,0,0,0,0,1] = false ∧
    allowed [hostNet [0,0,0,0,0,0,0,0,0,0,255,255,10,0,0,1]] [10,0,0,1] = true ∧
    allowed [hostNet [0,0,0,0,0,0,0,0,0,0,255,255,10,0,0,1]] [0,0,0,0,0,0,0,0,0,0,255,255,10,0,0,2] = false ∧
    allowed [hostNet [0,0,0,0,0,0,0,0,0,0,255,255,10,0,0,1]] [10,0,0,1,0,0,0,0,0,0,0,0,0,0,0,0] = false := by decide

/-- The lists a server holds after start are what the operator wrote (`Judge.fresh`: every entry without
prefix length one address, every `a/n` the prefix, nothing written = the defaults of the statement): the same
addresses are trusted / may read the statistics. -/
theorem C16_config_as_written (t a : List Entry) (c : Config)
    (hwt : t.all Entry.wf = true) (hwa : a.all Entry.wf = true) (hc : Config.fresh t a = some c)
    (ip : List Nat) (hb : bytesOk ip = true) (hl : ip.length = 4 ∨ ip.length = 16) :
    allowed c.trusted ip = specListed (Judge.fresh t a).trusted ip ∧
    allowed c.allow ip = specListed (Judge.fresh t a).allow ip := by
  unfold Config.fresh at hc
  cases ht : parseAllowed t with
  | none => simp [ht] at hc
  | some tl =>
    cases ha : parseAllowed a with
    | none => simp [ht, ha] at hc
    | some al =>
      simp only [ht, ha, Option.some.injEq] at hc
      subst hc
      have hbt : t.any Entry.isBad = false := by rw [← parse_isNone, ht]; rfl
      have hba : a.any Entry.isBad = false := by rw [← parse_isNone, ha]; rfl
      simp only [Judge.fresh, hbt, hba, Bool.or_self, Bool.false_eq_true, if_false]
      exact ⟨effective_as_written t tl _ _ hwt ht default_trusted_as_written ip hb hl,
        effective_as_written a al _ _ hwa ha default_allow_as_written ip hb hl⟩

/-- A refused start leaves the statement's defaults (the harness's fallback server). -/
theorem C16_config_refused_as_written (t a : List Entry) (hc : Config.fresh t a = none)
    (ip : List Nat) (hb : bytesOk ip = true) (hl : ip.length = 4 ∨ ip.length = 16) :
    allowed Config.default.trusted ip = specListed (Judge.fresh t a).trusted ip ∧
    allowed Config.default.allow ip = specListed (Judge.fresh t a).allow ip := by
  have hbad : (t.any Entry.isBad || a.any Entry.isBad) = true := by
    rw [← parse_isNone, ← parse_isNone]
    unfold Config.fresh at hc
    cases ht : parseAllowed t with
    | none => rfl
    | some tl =>
      cases ha : parseAllowed a with
      | none => simp
      | some al => simp [ht, ha] at hc
  simp only [Judge.fresh, hbad, if_true]
  exact ⟨default_trusted_as_written ip hb hl, default_allow_as_written ip hb hl⟩

/-- `Reload` keeps the lists in step with what was written. -/
theorem C16_reload_as_written (c : Config) (j : Judge) (t a : List Entry)
    (hwt : t.all Entry.wf = true) (hwa : a.all Entry.wf = true)
    (hcj : ∀ ip, bytesOk ip = true → (ip.length = 4 ∨ ip.length = 16) →
      allowed c.trusted ip = specListed j.trusted ip ∧ allowed c.allow ip = specListed j.allow ip)
    (ip : List Nat) (hb : bytesOk ip = true) (hl : ip.length = 4 ∨ ip.length = 16) :
    allowed (c.reload t a).trusted ip = specListed (j.reload t a).trusted ip ∧
    allowed (c.reload t a).allow ip = specListed (j.reload t a).allow ip := by
  constructor
  · cases ht : parseAllowed t with
    | none =>
      have hbt : t.any Entry.isBad = true := by rw [← parse_isNone, ht]; rfl
      simp only [Config.reload, Judge.reload, ht, hbt, if_true]
      exact (hcj ip hb hl).1
    | some tl =>
      have hbt : t.any Entry.isBad = false := by rw [← parse_isNone, ht]; rfl
      simp only [Config.reload, Judge.reload, ht, hbt, Bool.false_eq_true, if_false]
      exact effective_as_written t tl _ _ hwt ht default_trusted_as_written ip hb hl
  · cases ha : parseAllowed a with
    | none =>
      have hba : a.any Entry.isBad = true := by rw [← parse_isNone, ha]; rfl
      simp only [Config.reload, Judge.reload, ha, hba, if_true]
      exact (hcj ip hb hl).2
    | some al =>
      have hba : a.any Entry.isBad = false := by rw [← parse_isNone, ha]; rfl
      simp only [Config.reload, Judge.reload, ha, hba, Bool.false_eq_true, if_false]
      exact effective_as_written a al _ _ hwa ha default_allow_as_written ip hb hl

/-- Parts 2 and 4 of the statement with "configured" read off the written lists — exactly what the judge
of the correspondence run evaluates on the implementation's answers. -/
theorem C16_statement_as_written (c : Config) (j : Judge) (r : Req)
    (hcj : ∀ ip, bytesOk ip = true → (ip.length = 4 ∨ ip.length = 16) →
      allowed c.trusted ip = specListed j.trusted ip ∧ allowed c.allow ip = specListed j.allow ip)
    (hw : r.wf = true) (hi : r.ipwf = true) :
    realIP (some c.trusted) r = specRealIP (specListed j.trusted) r ∧
    allowStats c r = specAnswer (specListed j.trusted) (specListed j.allow) r :=
  statement_pointwise c _ _ r (fun ip hb hl => (hcj ip hb hl).1) (fun ip hb hl => (hcj ip hb hl).2) hw hi

/-- Non-vacuity: `trustedproxies = 2001:db8::1`, a neighbour `2001:db8::2` connects directly and claims to
be `::1` — it stays `2001:db8::2` and is refused. -/
example :
    let t := [Entry.host [0x20,0x01,0x0d,0xb8,0,0,0,0,0,0,0,0,0,0,0,1]]
    let a := [Entry.host [0,0,0,0,0,0,0,0,0,0,0,0,0,0,0,1]]
    let r : Req := { peer := ⟨"2001:db8::2", some [0x20,0x01,0x0d,0xb8,0,0,0,0,0,0,0,0,0,0,0,2]⟩,
                     xreal := [⟨"::1", some [0,0,0,0,0,0,0,0,0,0,0,0,0,0,0,1]⟩], hops := [] }
    (Config.fresh t a).map (fun c => ((realIP (some c.trusted) r).text, endpointStatus .main "/api/v1/stats" c r)) =
      some ("2001:db8::2", 403) ∧
    (Judge.fresh t a).ip false r "::1" = "violated:headers-change-address-of-untrusted-peer" ∧
    (Judge.fresh t a).get true r 200 = "violated:gated-endpoint-answers-address-not-on-allow-list" := by decide

end SigModel.RealIP
