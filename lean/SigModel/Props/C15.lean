/-
C15 — Session ids cannot be forged, altered or used across roles.
-/
import SigModel.Spec.SessionId

namespace SigModel.SessionId
open SigModel.Generated.SessionId SigModel.Hmac

/-- The framing `name|date|value` of the authenticated message is unambiguous
for fields that do not contain the separator. -/
theorem C15_field_encoding_injective {n₁ d₁ v₁ n₂ d₂ v₂ : Bytes}
    (hn₁ : sep ∉ n₁) (hn₂ : sep ∉ n₂) (hd₁ : sep ∉ d₁) (hd₂ : sep ∉ d₂)
    (h : macMsg n₁ d₁ v₁ = macMsg n₂ d₂ v₂) : n₁ = n₂ ∧ d₁ = d₂ ∧ v₁ = v₂ := by
  unfold macMsg at h
  have h1 := Bytes.splitFirst_append (d₁ ++ sep :: v₁) hn₁
  rw [h, Bytes.splitFirst_append _ hn₂] at h1
  simp only [Option.some.injEq, Prod.mk.injEq] at h1
  obtain ⟨rfl, h2⟩ := h1
  have h3 := Bytes.splitFirst_append v₁ hd₁
  rw [← h2, Bytes.splitFirst_append _ hd₂] at h3
  simp only [Option.some.injEq, Prod.mk.injEq] at h3
  exact ⟨rfl, h3.1.symm, h3.2.symm⟩

end SigModel.SessionId
