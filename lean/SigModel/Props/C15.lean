/-
C15 — Session ids cannot be forged, altered or used across roles.

Theorems about the byte-level model of `sessionid_codec.go` over securecookie
(`Model/SessionId.lean`), with names, reversal, MaxAge, canonical-spelling guard
and cache layout regenerated from the source (`Generated/SessionId.lean`).

The MAC is a parameter.  Where a cryptographic idealisation is needed it is the
explicit hypothesis `IdealMac mac` (tags of different (key, message) pairs differ);
`C15_forgery_needs_fresh_mac` needs none: it is the reduction of "an unminted
string is accepted" to "somebody produced the tag of a message the server never
authenticated", i.e. to a MAC forgery — which is the assumption about HMAC that
is *not* proved here.
-/
import SigModel.Lemmas.SessionId

namespace SigModel.SessionId
open SigModel.Generated.SessionId SigModel.Hmac SigModel

/-! ## 0. Framing -/

/-- The framing `name|date|value` of the authenticated message is unambiguous
for fields that do not contain the separator. -/
theorem C15_field_encoding_injective {n₁ d₁ v₁ n₂ d₂ v₂ : Bytes}
    (hn₁ : sep ∉ n₁) (hn₂ : sep ∉ n₂) (hd₁ : sep ∉ d₁) (hd₂ : sep ∉ d₂)
    (h : macMsg n₁ d₁ v₁ = macMsg n₂ d₂ v₂) : n₁ = n₂ ∧ d₁ = d₂ ∧ v₁ = v₂ := by
  unfold macMsg at h
  have h1 := Bytes.splitFirst_append (d₁ ++ sep :: v₁) hn₁
  rw [h, Bytes.splitFirst_append _ hn₂] at h1
  simp only [Option.some.injEq, Prod.mk.injEq] at h1
  obtain ⟨e1, h2⟩ := h1
  have h3 := Bytes.splitFirst_append v₁ hd₁
  rw [← h2, Bytes.splitFirst_append _ hd₂] at h3
  simp only [Option.some.injEq, Prod.mk.injEq] at h3
  exact ⟨e1.symm, h3.1.symm, h3.2.symm⟩

/-- The fields the code actually frames never contain the separator: the two
names (from the source), decimal timestamps, base64 text. -/
theorem C15_fields_separator_free (k : Kind) (mac : Mac) (hk bk : Bytes) (now : Nat) (value : Bytes) :
    sep ∉ k.decodeName mac hk bk ∧ sep ∉ k.encodeName mac hk bk ∧ sep ∉ decDigits now ∧ sep ∉ b64 value :=
  ⟨sep_not_mem_name k mac hk bk, by rw [names_agree]; exact sep_not_mem_name k mac hk bk,
   sep_not_mem_decDigits now, sep_not_mem_b64 value⟩

/-! ## 1. What the server mints -/

/-- One minting event: role, timestamp, serialised (and encrypted) data. -/
structure Mint where
  kind : Kind
  now : Nat
  value : Bytes

/-- The message a server with hash key `hk` and block key `bk` (`[]` = none) authenticates
when minting. -/
def Mint.msg (mac : Mac) (hk bk : Bytes) (m : Mint) : Bytes :=
  macMsg (m.kind.decodeName mac hk bk) (decDigits m.now) (b64 m.value)

/-- The id string that server hands out. -/
def Mint.id (mac : Mac) (hk bk : Bytes) (m : Mint) : Bytes :=
  wire m.kind (cookieBytes (decDigits m.now) (b64 m.value) (mac hk (m.msg mac hk bk)))

theorem cookieEncode_some {mac : Mac} {hk name : Bytes} {now : Nat} {value s : Bytes}
    (h : cookieEncode mac hk name now value = some s) :
    hk ≠ [] ∧ s = b64 (cookieBytes (decDigits now) (b64 value) (mac hk (macMsg name (decDigits now) (b64 value))))
      ∧ s.length ≤ maxLength := by
  unfold cookieEncode at h
  by_cases hk0 : hk.isEmpty = true
  · simp [hk0] at h
  simp only [hk0, Bool.false_eq_true, if_false] at h
  by_cases hl : (b64 (cookieBytes (decDigits now) (b64 value) (mac hk (macMsg name (decDigits now) (b64 value))))).length > maxLength
  · simp [hl] at h
  · simp only [hl, if_false, Option.some.injEq] at h
    subst h
    exact ⟨by simpa using hk0, rfl, by omega⟩

/-- `EncodePrivate` / `EncodePublic` produce exactly `Mint.id` (or fail). -/
theorem encodeId_eq {mac : Mac} {hk bk : Bytes} {m : Mint} {s : Bytes}
    (h : encodeId mac hk bk m.kind m.now m.value = some s) :
    s = m.id mac hk bk ∧ hk ≠ [] ∧ s.length ≤ maxLength := by
  unfold encodeId at h
  cases hc : cookieEncode mac hk (m.kind.encodeName mac hk bk) m.now m.value with
  | none => simp [hc] at h
  | some c =>
    simp only [hc] at h
    obtain ⟨hk', hcs, hl⟩ := cookieEncode_some hc
    unfold Mint.id Mint.msg
    rw [← names_agree]
    cases hkind : m.kind with
    | priv =>
      rw [hkind] at h hcs
      simp only [Kind.reversesOnEncode, Bool.false_eq_true, if_false, Option.some.injEq] at h
      subst h
      exact ⟨hcs, hk', hl⟩
    | pub =>
      rw [hkind] at h hcs
      simp only [flags.2.2.2, if_true] at h
      unfold reverseId at h
      rw [hcs] at h
      simp only [unb64_b64, Option.some.injEq] at h
      subst h
      refine ⟨rfl, hk', ?_⟩
      rw [b64_length_reverse, ← hcs]; exact hl

/-! ## 2. Round trip -/

/-- **C15_roundtrip.** Whatever `EncodePrivate`/`EncodePublic` return decodes, in the
same role and under the same hash key, to exactly the value that was encoded
(timestamps are Unix seconds; `2^63` is where `%d`/`ParseInt` on int64 would part). -/
theorem C15_roundtrip (mac : Mac) (hk bk : Bytes) (k : Kind) (now : Nat) (value s : Bytes) (t : Int)
    (hnow : now < 2 ^ 63) (h : encodeId mac hk bk k now value = some s) :
    decodeValue mac hk bk k t s = some value := by
  obtain ⟨hs, hk0, hl⟩ := encodeId_eq (m := ⟨k, now, value⟩) h
  rw [decodeValue_some_iff]
  refine ⟨hk0, hl, decDigits now, b64 value, _, hs, sep_not_mem_decDigits now, sep_not_mem_b64 value, rfl, ?_, unb64_b64 value⟩
  rw [parseInt64_decDigits hnow]; rfl

/-- …and with decryption/deserialisation `open_` inverting what produced `value`. -/
theorem C15_roundtrip_data (mac : Mac) (hk bk : Bytes) (open_ : Bytes → Option Bytes) (k : Kind) (now : Nat)
    (value data s : Bytes) (t : Int) (hnow : now < 2 ^ 63) (hopen : open_ value = some data)
    (h : encodeId mac hk bk k now value = some s) : decodeId mac hk bk open_ k t s = some data := by
  unfold decodeId
  rw [C15_roundtrip mac hk bk k now value s t hnow h]; exact hopen

/-! ## 3. Accepted ⇔ three fields whose tag is the MAC of name|date|value -/

/-- **C15_accept_iff_tag.** A string decodes in role `k` under hash key `hk` iff it is
the (canonical) spelling of `date|value|tag` — reversed for public ids — with
`tag = mac hk (name_k|date|value)`, a parsable timestamp and base64 value text. -/
theorem C15_accept_iff_tag (mac : Mac) (hk bk : Bytes) (k : Kind) (now : Int) (s v : Bytes) :
    decodeValue mac hk bk k now s = some v ↔
      hk ≠ [] ∧ s.length ≤ maxLength ∧ ∃ date vb tag, s = wire k (cookieBytes date vb tag) ∧
        sep ∉ date ∧ sep ∉ vb ∧ tag = mac hk (macMsg (k.decodeName mac hk bk) date vb) ∧
        (parseInt64 date).isSome = true ∧ unb64 vb = some v :=
  decodeValue_some_iff mac hk bk k now s v

/-- Other spellings of the same bytes (CR/LF, padding bits, missing padding) are rejected. -/
theorem C15_noncanonical_rejected (mac : Mac) (hk bk : Bytes) (k : Kind) (now : Int) (s : Bytes)
    (h : Base64.canonical Base64.url s = false) : decodeValue mac hk bk k now s = none := by
  unfold decodeValue
  have hc : k.checksCanonical = true := by cases k; exact flags.1; exact flags.2.1
  simp [hc, h]

/-! ## 4. Forgery reduces to a fresh MAC value; any modification is invalid -/

/-- **C15_forgery_needs_fresh_mac** (no cryptographic hypothesis).  Let `minted` be
everything the server ever minted under its keys `(hk, bk)`.  If a string that is none of
the minted ids is accepted, it carries `mac hk msg` for a message `msg` the server never
authenticated — a MAC forgery. -/
theorem C15_forgery_needs_fresh_mac (mac : Mac) (hk bk : Bytes) (minted : List Mint) (k : Kind) (now : Int)
    (s v : Bytes) (hacc : decodeValue mac hk bk k now s = some v) (hnew : ∀ m ∈ minted, m.id mac hk bk ≠ s) :
    ∃ date vb, sep ∉ date ∧ sep ∉ vb ∧
      s = wire k (cookieBytes date vb (mac hk (macMsg (k.decodeName mac hk bk) date vb))) ∧
      ∀ m ∈ minted, m.msg mac hk bk ≠ macMsg (k.decodeName mac hk bk) date vb := by
  obtain ⟨_, _, date, vb, tag, hs, hd, hv, ht, _, _⟩ := (C15_accept_iff_tag _ _ _ _ _ _ _).mp hacc
  subst ht
  refine ⟨date, vb, hd, hv, hs, ?_⟩
  intro m hm heq
  unfold Mint.msg at heq
  obtain ⟨hn, hdate, hvb⟩ := C15_field_encoding_injective (sep_not_mem_name _ _ _ _) (sep_not_mem_name _ _ _ _)
    (sep_not_mem_decDigits _) hd heq
  apply hnew m hm
  have hk' : m.kind = k := decodeName_injective hn
  unfold Mint.id Mint.msg
  rw [hs, hdate, hvb, hk']

/-- **C15_any_modification_invalid.** Take an id `m.id` minted under `(hk, bk)`.  Every other
string accepted under these keys — in either role — authenticates a *different* message with
a *different* tag: nothing of the minted id's authentication can be reused.  So a string
obtained from a valid id without computing a new MAC under `hk` is rejected. -/
theorem C15_any_modification_invalid (mac : Mac) (hideal : IdealMac mac) (hk bk : Bytes) (m : Mint)
    (k : Kind) (now : Int) (s' v : Bytes) (hne : s' ≠ m.id mac hk bk)
    (hacc : decodeValue mac hk bk k now s' = some v) :
    ∃ date vb, sep ∉ date ∧ sep ∉ vb ∧
      s' = wire k (cookieBytes date vb (mac hk (macMsg (k.decodeName mac hk bk) date vb))) ∧
      macMsg (k.decodeName mac hk bk) date vb ≠ m.msg mac hk bk ∧
      mac hk (macMsg (k.decodeName mac hk bk) date vb) ≠ mac hk (m.msg mac hk bk) := by
  obtain ⟨date, vb, hd, hv, hs, hfresh⟩ := C15_forgery_needs_fresh_mac mac hk bk [m] k now s' v hacc
    (by intro m' hm'; simp at hm'; subst hm'; exact fun e => hne e.symm)
  have hmsg : macMsg (k.decodeName mac hk bk) date vb ≠ m.msg mac hk bk := fun e => hfresh m (by simp) e.symm
  exact ⟨date, vb, hd, hv, hs, hmsg, fun e => hmsg (hideal _ _ _ _ e).2⟩

/-- In particular: a string other than the minted id that keeps its tag, or keeps its
authenticated fields (and so must differ in the tag), is rejected. -/
theorem C15_tag_or_payload_kept_rejected (mac : Mac) (hideal : IdealMac mac) (hk bk : Bytes) (m : Mint)
    (k : Kind) (now : Int) (date vb tag : Bytes) (hd : sep ∉ date) (hv : sep ∉ vb)
    (hne : wire k (cookieBytes date vb tag) ≠ m.id mac hk bk)
    (hkeep : tag = mac hk (m.msg mac hk bk) ∨ macMsg (k.decodeName mac hk bk) date vb = m.msg mac hk bk) :
    decodeValue mac hk bk k now (wire k (cookieBytes date vb tag)) = none := by
  cases hdec : decodeValue mac hk bk k now (wire k (cookieBytes date vb tag)) with
  | none => rfl
  | some v =>
    exfalso
    obtain ⟨d', v', hd', hv', hs, hmsg, htag⟩ := C15_any_modification_invalid mac hideal hk bk m k now _ v hne hdec
    obtain ⟨e1, e2, e3⟩ := cookieBytes_injective hd hv hd' hv' (wire_injective hs)
    subst e1 e2
    rcases hkeep with h1 | h2
    · exact htag (e3 ▸ h1)
    · exact hmsg h2

/-! ## 5. Roles are disjoint -/

/-- **C15_kinds_disjoint.** The same authenticated bytes never serve both roles: if
`cb` spelled as a private id is accepted as private, then `cb` spelled as a public id
(i.e. the private id byte-reversed) is rejected as public, and conversely — for every
byte string `cb`, minted or not. -/
theorem C15_kinds_disjoint (mac : Mac) (hideal : IdealMac mac) (hk bk : Bytes) (t t' : Int) (cb v v' : Bytes) :
    ¬ (decodeValue mac hk bk .priv t (wire .priv cb) = some v ∧
       decodeValue mac hk bk .pub t' (wire .pub cb) = some v') := by
  rintro ⟨h1, h2⟩
  obtain ⟨_, _, d₁, v₁, t₁, hs₁, hd₁, hv₁, ht₁, _, _⟩ := (C15_accept_iff_tag _ _ _ _ _ _ _).mp h1
  obtain ⟨_, _, d₂, v₂, t₂, hs₂, hd₂, hv₂, ht₂, _, _⟩ := (C15_accept_iff_tag _ _ _ _ _ _ _).mp h2
  have e := (wire_injective hs₁).symm.trans (wire_injective hs₂)
  obtain ⟨rfl, rfl, e3⟩ := cookieBytes_injective hd₁ hv₁ hd₂ hv₂ e
  rw [ht₁, ht₂] at e3
  have := (hideal _ _ _ _ e3).2
  exact names_distinct mac hk bk
    (C15_field_encoding_injective (sep_not_mem_name _ _ _ _) (sep_not_mem_name _ _ _ _) hd₁ hd₁ this).1

/-- No string whatsoever is accepted under both cookie names by the securecookie layer. -/
theorem C15_names_disjoint (mac : Mac) (hideal : IdealMac mac) (hk bk : Bytes) (t t' : Int) (s v v' : Bytes) :
    ¬ (cookieDecode mac hk (Kind.decodeName .priv mac hk bk) t s = some v ∧
       cookieDecode mac hk (Kind.decodeName .pub mac hk bk) t' s = some v') := by
  rintro ⟨h1, h2⟩
  obtain ⟨_, _, d₁, v₁, t₁, hs₁, hd₁, hv₁, ht₁, _, _⟩ := (cookieDecode_some_iff _ _ _ _ _ _).mp h1
  obtain ⟨_, _, d₂, v₂, t₂, hs₂, hd₂, hv₂, ht₂, _, _⟩ := (cookieDecode_some_iff _ _ _ _ _ _).mp h2
  rw [hs₁] at hs₂
  obtain ⟨rfl, rfl, e3⟩ := cookieBytes_injective hd₁ hv₁ hd₂ hv₂ (Option.some.inj hs₂)
  rw [ht₁, ht₂] at e3
  have := (hideal _ _ _ _ e3).2
  exact names_distinct mac hk bk
    (C15_field_encoding_injective (sep_not_mem_name _ _ _ _) (sep_not_mem_name _ _ _ _) hd₁ hd₁ this).1

/-- The additional idealisation used for the *literal* cross-use of a minted id (the
public id string handed to `DecodePrivate` and the reverse): a tag does not end in a
character that could start a decimal number.  It expresses "a MAC value is not text";
injectivity alone cannot, because the byte reversal makes the last tag byte the first
byte of the would-be timestamp.  Explicit hypothesis, satisfiable together with
`IdealMac` (see `opaqueMac`). -/
def TagTailOpaque (mac : Mac) : Prop :=
  ∀ k m, ∃ c, (mac k m).getLast? = some c ∧ c ≠ 43 ∧ c ≠ 45 ∧ isDigit c = false

def Kind.other : Kind → Kind
  | .priv => .pub
  | .pub => .priv

/-- **C15_minted_cross_role_rejected.** A minted public id never decodes as a private
(resume) id and a minted private id never decodes as a public id — whatever the keys
of the decoding side. -/
theorem C15_minted_cross_role_rejected (mac : Mac) (hopaque : TagTailOpaque mac) (hk bk hk' bk' : Bytes) (m : Mint)
    (t : Int) : decodeValue mac hk' bk' m.kind.other t (m.id mac hk bk) = none := by
  cases hdec : decodeValue mac hk' bk' m.kind.other t (m.id mac hk bk) with
  | none => rfl
  | some v =>
    exfalso
    obtain ⟨_, _, d', v', t', hs, hd', hv', _, hp, _⟩ := (C15_accept_iff_tag _ _ _ _ _ _ _).mp hdec
    obtain ⟨c, hlast, h43, h45, hdig⟩ := hopaque hk (m.msg mac hk bk)
    -- the bytes inside the two spellings are each other's reversal
    have hrev : cookieBytes d' v' t' =
        (cookieBytes (decDigits m.now) (b64 m.value) (mac hk (m.msg mac hk bk))).reverse := by
      unfold Mint.id at hs
      cases hkind : m.kind with
      | priv =>
        rw [hkind] at hs
        simp only [Kind.other, wire] at hs
        have := b64_injective hs
        rw [this, List.reverse_reverse]
      | pub =>
        rw [hkind] at hs
        simp only [Kind.other, wire] at hs
        exact (b64_injective hs).symm
    -- so they start with the last byte of the tag
    obtain ⟨pre, htag⟩ : ∃ pre, mac hk (m.msg mac hk bk) = pre ++ [c] := by
      have := List.getLast?_eq_some_iff.mp hlast
      exact this
    have hstart : ∃ rest, cookieBytes d' v' t' = c :: rest := by
      rw [hrev]; unfold cookieBytes; rw [htag]
      simp only [List.reverse_append, List.reverse_cons, List.reverse_nil, List.nil_append,
        List.cons_append, List.append_assoc]
      exact ⟨_, rfl⟩
    obtain ⟨rest, hrest⟩ := hstart
    unfold cookieBytes at hrest
    cases d' with
    | nil => rw [parseInt64_nil] at hp; simp at hp
    | cons c' r' =>
      simp only [List.cons_append, List.cons.injEq] at hrest
      obtain ⟨rfl, _⟩ := hrest
      cases hpd : parseInt64 (c' :: r') with
      | none => rw [hpd] at hp; simp at hp
      | some n =>
        rcases parseInt64_head hpd with h | h | h
        · exact h43 h
        · exact h45 h
        · rw [h] at hdig; exact absurd hdig (by decide)

/-! ## 6. Other keys -/

/-- **C15_other_keys_rejected.** An id minted under the key set `(hk, bk)` is rejected by a
server holding any other key set `(hk', bk')` — another hash key, another block key, a block
key where there was none or none where there was one — in the same role (the other role:
`C15_minted_cross_role_rejected`).  The block key counts because the cookie names carry
`MAC(hashKey, "block-key|" ‖ blockKey)` (repository commit "fix: bind the block key …"). -/
theorem C15_other_keys_rejected (mac : Mac) (hideal : IdealMac mac) (hk bk hk' bk' : Bytes)
    (hne : (hk, bk) ≠ (hk', bk')) (m : Mint) (t : Int) :
    decodeValue mac hk' bk' m.kind t (m.id mac hk bk) = none := by
  cases hdec : decodeValue mac hk' bk' m.kind t (m.id mac hk bk) with
  | none => rfl
  | some v =>
    exfalso
    obtain ⟨_, _, d', v', t', hs, hd', hv', ht', _, _⟩ := (C15_accept_iff_tag _ _ _ _ _ _ _).mp hdec
    obtain ⟨e1, e2, e3⟩ := cookieBytes_injective (sep_not_mem_decDigits _) (sep_not_mem_b64 _) hd' hv'
      (wire_injective hs)
    rw [ht'] at e3
    obtain ⟨hkeq, hmsg⟩ := hideal _ _ _ _ e3
    subst hkeq
    unfold Mint.msg at hmsg
    have hname := (C15_field_encoding_injective (sep_not_mem_name _ _ _ _) (sep_not_mem_name _ _ _ _)
      (sep_not_mem_decDigits _) hd' hmsg).1
    exact hne (by rw [decodeName_block_injective hideal hname])

/-- What the binding is for: *without* it (the code before the fix, `decodeName` a constant)
the value bytes an id is accepted with do not depend on the block key at all, so two key
sets sharing the hash key accepted each other's ids at the MAC stage and handed the
wrongly decrypted bytes to the deserialiser.  In the model as it is now the names differ: -/
theorem C15_block_key_changes_names (mac : Mac) (hideal : IdealMac mac) (k : Kind) (hk bk bk' : Bytes)
    (hne : bk ≠ bk') : k.decodeName mac hk bk ≠ k.decodeName mac hk bk' :=
  fun h => hne (decodeName_block_injective hideal h)

/-! ## 7. The decode cache of the hub -/

/-- Everything that touches `Hub.decodeCaches`. `evict` is an LRU eviction (of any entry). -/
inductive HubOp where
  | decode (k : Kind) (id : Bytes)
  | invalidate (k : Kind) (id : Bytes)
  | register (now : Nat) (vp vq d : Bytes)
  | evict (key : Bytes)

def Hub.step (mac : Mac) (open_ : Bytes → Option Bytes) (t : Int) (h : Hub) : HubOp → Hub
  | .decode k id => (h.decode mac open_ k t id).1
  | .invalidate k id => h.invalidate k id
  | .register now vp vq d => (h.register mac now vp vq d).1
  | .evict key => { h with cache := h.cache.remove key }

/-- `processRegister` caches the data it has just sealed into the two values. -/
def HubOp.wf (open_ : Bytes → Option Bytes) : HubOp → Prop
  | .register now vp vq d => now < 2 ^ 63 ∧ open_ vp = some d ∧ open_ vq = some d
  | _ => True

/-- Every cache entry is what decoding its id (in its role, under the hub's keys) yields. -/
def CacheSound (mac : Mac) (open_ : Bytes → Option Bytes) (h : Hub) : Prop :=
  ∀ key d, h.cache.get key = some d →
    ∃ k id, id ≠ [] ∧ key = cacheKey k id ∧ ∀ t, decodeId mac h.hashKey h.blockKey open_ k t id = some d

theorem CacheSound.remove {mac : Mac} {open_ : Bytes → Option Bytes} {h : Hub} (hs : CacheSound mac open_ h)
    (key : Bytes) : CacheSound mac open_ { h with cache := h.cache.remove key } := by
  intro key' d hget
  simp only [Cache.get_remove] at hget
  split at hget
  · cases hget
  · exact hs key' d hget

theorem CacheSound.set {mac : Mac} {open_ : Bytes → Option Bytes} {h : Hub} (hs : CacheSound mac open_ h)
    (k : Kind) (id d : Bytes) (hid : id ≠ []) (hdec : ∀ t, decodeId mac h.hashKey h.blockKey open_ k t id = some d) :
    CacheSound mac open_ { h with cache := h.cache.set (cacheKey k id) d } := by
  intro key' d' hget
  simp only [Cache.get_set] at hget
  split at hget
  · rename_i heq
    cases hget
    exact ⟨k, id, hid, heq, hdec⟩
  · exact hs key' d' hget

theorem isEmpty_false {id : Bytes} (h : id.isEmpty = false) : id ≠ [] := by
  intro e; subst e; simp at h

theorem minted_ne_nil {mac : Mac} {hk bk : Bytes} {k : Kind} {now : Nat} {v s : Bytes}
    (hnow : now < 2 ^ 63) (h : encodeId mac hk bk k now v = some s) : s ≠ [] := by
  intro e; subst e
  have := C15_roundtrip mac hk bk k now v [] 0 hnow h
  obtain ⟨_, _, d', v', t', hs', _⟩ := (C15_accept_iff_tag _ _ _ _ _ _ _).mp this
  have : ([] : Bytes).length = (b64 (cookieBytes d' v' t')).length := by rw [hs', wire_length]
  rw [b64_length] at this
  simp [cookieBytes] at this
  omega

theorem step_sound (mac : Mac) (open_ : Bytes → Option Bytes) (t : Int) (h : Hub) (op : HubOp)
    (hwf : op.wf open_) (hs : CacheSound mac open_ h) :
    CacheSound mac open_ (h.step mac open_ t op) ∧ (h.step mac open_ t op).hashKey = h.hashKey ∧
      (h.step mac open_ t op).blockKey = h.blockKey := by
  cases op with
  | decode k id =>
    simp only [Hub.step, Hub.decode]
    cases hid : id.isEmpty with
    | true => exact ⟨hs, rfl, rfl⟩
    | false =>
      simp only [Bool.false_eq_true, if_false]
      cases hget : h.cache.get (cacheKey k id) with
      | some d => exact ⟨hs, rfl, rfl⟩
      | none =>
        simp only [cacheFill_flag, if_true]
        cases hdec : decodeId mac h.hashKey h.blockKey open_ k t id with
        | none => exact ⟨hs, rfl, rfl⟩
        | some d =>
          refine ⟨hs.set k id d (isEmpty_false hid) ?_, rfl, rfl⟩
          intro t'; rw [decodeId_clock mac h.hashKey h.blockKey open_ k t' t]; exact hdec
  | invalidate k id =>
    simp only [Hub.step, Hub.invalidate]
    cases hid : id.isEmpty with
    | true => exact ⟨hs, rfl, rfl⟩
    | false => exact ⟨hs.remove _, rfl, rfl⟩
  | evict key => exact ⟨hs.remove _, by first | rfl | trivial, by first | rfl | trivial⟩
  | register now vp vq d =>
    obtain ⟨hnow, hvp, hvq⟩ := hwf
    simp only [Hub.step, Hub.register]
    cases hp : encodeId mac h.hashKey h.blockKey .priv now vp with
    | none => exact ⟨hs, rfl, rfl⟩
    | some p =>
      cases hq : encodeId mac h.hashKey h.blockKey .pub now vq with
      | none => exact ⟨hs, rfl, rfl⟩
      | some q =>
        simp only [Hub.setDecoded]
        have hpne : p ≠ [] := minted_ne_nil hnow hp
        have hqne : q ≠ [] := minted_ne_nil hnow hq
        have hpe : p.isEmpty = false := by cases p with | nil => exact absurd rfl hpne | cons _ _ => rfl
        have hqe : q.isEmpty = false := by cases q with | nil => exact absurd rfl hqne | cons _ _ => rfl
        simp only [hpe, hqe, Bool.false_eq_true, if_false]
        refine ⟨?_, by first | rfl | trivial, by first | rfl | trivial⟩
        have h1 := hs.set .priv p d hpne
          (fun t' => C15_roundtrip_data mac h.hashKey h.blockKey open_ .priv now vp d p t' hnow hvp hp)
        exact CacheSound.set (h := { h with cache := h.cache.set (cacheKey .priv p) d }) h1 .pub q d hqne
          (fun t' => C15_roundtrip_data mac h.hashKey h.blockKey open_ .pub now vq d q t' hnow hvq hq)

/-- **C15_cache_sound.** After any sequence of decodes, invalidations, registrations and
evictions, starting from an empty cache: (1) every cache entry is exactly what decoding its
id in its role yields, and (2) `Hub.decode{Private,Public}SessionId` answers precisely as
the codec would without any cache — for every string, in particular for strings whose
cache key merely *looks* like another role's (`id|private-session` vs `id|public-session`). -/
theorem C15_cache_sound (mac : Mac) (open_ : Bytes → Option Bytes) (t : Int) (hk bk : Bytes) (ops : List HubOp)
    (hwf : ∀ op ∈ ops, op.wf open_) :
    let h := ops.foldl (Hub.step mac open_ t) { hashKey := hk, blockKey := bk }
    CacheSound mac open_ h ∧
    ∀ k id t', (h.decode mac open_ k t' id).2 = if id = [] then none else decodeId mac hk bk open_ k t' id := by
  have key : ∀ (ops : List HubOp) (h₀ : Hub), (∀ op ∈ ops, op.wf open_) → CacheSound mac open_ h₀ →
      CacheSound mac open_ (ops.foldl (Hub.step mac open_ t) h₀) ∧
      (ops.foldl (Hub.step mac open_ t) h₀).hashKey = h₀.hashKey ∧
      (ops.foldl (Hub.step mac open_ t) h₀).blockKey = h₀.blockKey := by
    intro ops
    induction ops with
    | nil => intro h₀ _ hs; exact ⟨hs, rfl, rfl⟩
    | cons op ops ih =>
      intro h₀ hwf hs
      obtain ⟨s1, k1, b1⟩ := step_sound mac open_ t h₀ op (hwf op (by simp)) hs
      obtain ⟨s2, k2, b2⟩ := ih (h₀.step mac open_ t op) (fun o ho => hwf o (by simp [ho])) s1
      exact ⟨s2, k2.trans k1, b2.trans b1⟩
  have hempty : CacheSound mac open_ { hashKey := hk, blockKey := bk } := by
    intro key' d hget; simp [Cache.get] at hget
  obtain ⟨hs, hkey, hbk⟩ := key ops { hashKey := hk, blockKey := bk } hwf hempty
  refine ⟨hs, ?_⟩
  intro k id t'
  have hkey : (ops.foldl (Hub.step mac open_ t) { hashKey := hk, blockKey := bk }).hashKey = hk := hkey
  have hbk : (ops.foldl (Hub.step mac open_ t) { hashKey := hk, blockKey := bk }).blockKey = bk := hbk
  generalize ops.foldl (Hub.step mac open_ t) { hashKey := hk, blockKey := bk } = h at hs hkey hbk
  unfold Hub.decode
  cases hid : id.isEmpty with
  | true =>
    have : id = [] := by simpa using hid
    simp [this]
  | false =>
    have hne : id ≠ [] := isEmpty_false hid
    simp only [Bool.false_eq_true, if_false, hne]
    cases hget : h.cache.get (cacheKey k id) with
    | some d =>
      obtain ⟨k', id', _, hkeq, hdec⟩ := hs _ d hget
      obtain ⟨rfl, rfl⟩ := cacheKey_injective hkeq
      rw [← hkey, ← hbk]; exact (hdec t').symm
    | none =>
      simp only [cacheFill_flag, if_true, hkey, hbk]
      cases decodeId mac hk bk open_ k t' id <;> rfl

/-! ## 8. The facts of the source the model and the proofs rest on -/

/-- Read from the current source on every run; a change makes this (or one of the
proofs above that use the same constants) fail. -/
theorem C15_source_facts :
    encodePrivateName = privateSessionName ∧ decodePrivateName = privateSessionName ∧
    encodePublicName = publicSessionName ∧ decodePublicName = publicSessionName ∧
    privateSessionName ≠ publicSessionName ∧
    blockKeyBoundToNames = true ∧ blockKeyBindingPrefix = "block-key|" ∧ blockKeyNameSep = "/" ∧
    encodePublicReverses = true ∧ decodePublicReverses = true ∧ reverseIsUrlBase64ByteReversal = true ∧
    maxAge = 0 ∧ codecIsSecurecookieNewWithProtoSerializer = true ∧
    decodePrivateChecksCanonical = true ∧ decodePublicChecksCanonical = true ∧
    cacheKeySep = "|" ∧ cachePrivateName = privateSessionName ∧ cachePublicName = publicSessionName ∧
    cacheFilledOnlyAfterSuccessfulDecode = true ∧
    securecookieVersion = "v1.1.2" := by decide

/-! ## 9. Non-vacuity: the hypotheses are satisfiable, the statements talk about real ids -/

/-- An injective MAC whose tags end in a non-text byte. -/
def opaqueMac : Mac := fun k m => toyMac k m ++ [255]

theorem opaqueMac_ideal : IdealMac opaqueMac := by
  intro k₁ m₁ k₂ m₂ h
  exact toyMac_ideal _ _ _ _ (List.append_cancel_right h)

theorem opaqueMac_opaque : TagTailOpaque opaqueMac := by
  intro k m
  exact ⟨255, by simp [opaqueMac], by decide, by decide, by decide⟩

/-- Both idealisations can hold together. -/
example : ∃ mac : Mac, IdealMac mac ∧ TagTailOpaque mac := ⟨opaqueMac, opaqueMac_ideal, opaqueMac_opaque⟩

private def hk₀ : Bytes := [1, 2, 3]
private def hk₁ : Bytes := [1, 2, 4]
private def bk₀ : Bytes := [9, 9]
private def m₀ : Mint := ⟨.priv, 5, [8, 1]⟩
private def m₁ : Mint := ⟨.pub, 5, [8, 1]⟩

theorem decDigits_five : decDigits 5 = [53] := by
  unfold decDigits; rw [decRev]; decide

/-- The encoder really produces `Mint.id` (so the theorems about `Mint.id` are about what
`EncodePrivate`/`EncodePublic` return), here for a concrete private and public id, without
and with a block key. -/
example : encodeId opaqueMac hk₀ [] m₀.kind m₀.now m₀.value = some (m₀.id opaqueMac hk₀ []) ∧
    encodeId opaqueMac hk₀ [] m₁.kind m₁.now m₁.value = some (m₁.id opaqueMac hk₀ []) ∧
    encodeId opaqueMac hk₀ bk₀ m₀.kind m₀.now m₀.value = some (m₀.id opaqueMac hk₀ bk₀) := by
  unfold encodeId cookieEncode Mint.id Mint.msg
  simp only [m₀, m₁, decDigits_five]
  decide

/-- …they decode again (hypotheses of `C15_roundtrip`), are distinct strings, and all the
rejection theorems apply to them non-trivially (their conclusions are about strings that do
exist and are otherwise well-formed): other hash key, other block key, block key removed,
other role. -/
example : decodeValue opaqueMac hk₀ [] .priv 0 (m₀.id opaqueMac hk₀ []) = some [8, 1] ∧
    decodeValue opaqueMac hk₀ [] .pub 0 (m₁.id opaqueMac hk₀ []) = some [8, 1] ∧
    decodeValue opaqueMac hk₀ bk₀ .priv 0 (m₀.id opaqueMac hk₀ bk₀) = some [8, 1] ∧
    m₀.id opaqueMac hk₀ [] ≠ m₁.id opaqueMac hk₀ [] ∧
    decodeValue opaqueMac hk₁ [] .priv 0 (m₀.id opaqueMac hk₀ []) = none ∧
    decodeValue opaqueMac hk₀ [9, 8] .priv 0 (m₀.id opaqueMac hk₀ bk₀) = none ∧
    decodeValue opaqueMac hk₀ [] .priv 0 (m₀.id opaqueMac hk₀ bk₀) = none ∧
    decodeValue opaqueMac hk₀ bk₀ .priv 0 (m₀.id opaqueMac hk₀ []) = none ∧
    decodeValue opaqueMac hk₀ [] .pub 0 (m₀.id opaqueMac hk₀ []) = none ∧
    decodeValue opaqueMac hk₀ [] .priv 0 (m₁.id opaqueMac hk₀ []) = none := by
  unfold Mint.id Mint.msg
  simp only [m₀, m₁, decDigits_five]
  decide

/-- The decoder *without* the canonical-spelling guard (the code before repository commit
"fix: reject session ids that are not the canonical base64 encoding of their bytes"). -/
def decodeValueLenient (mac : Mac) (hashKey bk : Bytes) (k : Kind) (now : Int) (s : Bytes) : Option Bytes :=
  if k.reversesOnDecode then
    match reverseId s with
    | none => none
    | some r => cookieDecode mac hashKey (k.decodeName mac hashKey bk) now r
  else cookieDecode mac hashKey (k.decodeName mac hashKey bk) now s

/-- Without the guard `C15_any_modification_invalid` is false: appending a newline to a
valid private id yields a different string that decodes to the same data.  (Replayed on
the real code by the mutation kinds `nl`, `padbits`, `pad` of the harness: all rejected
since the fix.) -/
theorem C15_without_guard_malleable :
    ∃ s s' : Bytes, s ≠ s' ∧ decodeValueLenient opaqueMac hk₀ [] .priv 0 s = some [8, 1] ∧
      decodeValueLenient opaqueMac hk₀ [] .priv 0 s' = some [8, 1] ∧
      decodeValue opaqueMac hk₀ [] .priv 0 s = some [8, 1] ∧ decodeValue opaqueMac hk₀ [] .priv 0 s' = none := by
  refine ⟨b64 (cookieBytes [53] (b64 [8, 1]) (opaqueMac hk₀ (macMsg (Kind.decodeName .priv opaqueMac hk₀ []) [53] (b64 [8, 1])))),
    b64 (cookieBytes [53] (b64 [8, 1]) (opaqueMac hk₀ (macMsg (Kind.decodeName .priv opaqueMac hk₀ []) [53] (b64 [8, 1])))) ++ [10], ?_⟩
  decide

/-- The decoder *without* the block-key binding (the code before repository commit
"fix: bind the block key to the authenticated session id names"): names are the constants. -/
def decodeValueUnbound (mac : Mac) (hashKey : Bytes) (k : Kind) (now : Int) (s : Bytes) : Option Bytes :=
  if Base64.canonical Base64.url s = false then none
  else if k.reversesOnDecode then
    match reverseId s with
    | none => none
    | some r => cookieDecode mac hashKey k.decodeBase now r
  else cookieDecode mac hashKey k.decodeBase now s

/-- Without the binding `C15_other_keys_rejected` is false for key sets that differ in the
block key only: the block key is no input of the decision at all, so whatever one key set
accepts at the MAC stage the other accepts too (and then decrypts with the wrong key).
Replayed on the real code by the key-set pairs "same hash key, other block key" of the
harness. -/
theorem C15_without_binding_block_key_ignored :
    ∃ s : Bytes, decodeValueUnbound opaqueMac hk₀ .priv 0 s = some [8, 1] ∧
      decodeValue opaqueMac hk₀ [] .priv 0 s = some [8, 1] ∧ decodeValue opaqueMac hk₀ bk₀ .priv 0 s = none := by
  refine ⟨b64 (cookieBytes [53] (b64 [8, 1]) (opaqueMac hk₀ (macMsg (Kind.decodeBase .priv) [53] (b64 [8, 1])))), ?_⟩
  decide

end SigModel.SessionId
