/-
C11 — Authenticated room API requests of any shape are answered, never fatal.

Theorems about the model of roomHandler + consumers (`Model/ShapesBackend.lean`) instantiated with
the validation facts regenerated from the source (`Generated/ShapesBackend.lean`, `genCfg`), stated
against the spec of `Spec/ShapesBackend.lean`.

"Every JSON document" is "every value of `Body`": over-long, undecodable, or any decoded
`Request` whatsoever (every combination of present/absent sub-objects, every list, every entry map).
-/
import SigModel.Lemmas.ShapesBackend

namespace SigModel.ShapesBackend
open SigModel.Generated.ShapesBackend

/-! ## 0. The source still has the shape the model was written against -/

/-- The cases of the two `switch`es and the sub-objects each of them goes through, as extracted.
A new request type, or a new unguarded use of a sub-object, changes one of these lists. -/
theorem C11_shape_facts :
    handlerCases = ["invite", "disinvite", "update", "delete", "incall", "participants", "message", "switchto", "dialout"] ∧
    handlerDerefs = [("invite", "Invite"), ("disinvite", "Disinvite"), ("update", "Update"), ("delete", "Delete"),
      ("incall", "InCall"), ("participants", "Participants"), ("switchto", "SwitchTo"), ("dialout", "Dialout")] ∧
    consumerCases = ["update", "delete", "incall", "participants", "message", "switchto", "transient"] ∧
    consumerDerefs = [("update", "Update"), ("incall", "InCall"), ("participants", "Participants"),
      ("switchto", "SwitchTo"), ("transient", "Transient")] ∧
    switchtoHandlerByte = "[" ∧ switchtoHandlerKinds = ["list", "map"] ∧
    unsupportedStatus = 400 := by
  decide

/-- Validation is called before use and answers 4xx; every sub-object the handler dereferences is
required by `CheckValid` for that type; every sub-object a consumer dereferences belongs to a type
the handler forwards only validated (or, "transient", never forwards at all); `sessions` of a
switchto request is test-decoded exactly as the handler will decode it. -/
theorem C11_guards_cover_derefs :
    validateCalled = true ∧ validateStatus = 400 ∧
    (∀ p ∈ handlerDerefs, ((required.lookup p.1).getD []).contains p.2 = true) ∧
    (∀ p ∈ consumerDerefs,
      (handlerCases.contains p.1 = true ∧ ((required.lookup p.1).getD []).contains p.2 = true) ∨
      handlerCases.contains p.1 = false) ∧
    genCfg.sessionsChecked = true := by
  decide

/-- **Nothing waits for ever on a lock.**  Every function of the package gives back the mutexes it
takes on every control-flow path -- no `return`, `continue`, `break` or fall-through leaves one
locked, none is taken while it is held, directly or through a method of the same receiver -- except
the reviewed findings (`reviewedLockFindings`, one latent path outside the room API); the functions
the room API path runs through are among the analysed ones.  This is what lets the model treat the
consumers on the hub main loop and on the bus subscribers as functions that return: together with
`C11_never_fatal` (no panic) it is the "running and responsive" of the statement.  A lock left
behind on any path -- reached by the generated requests or not -- changes `lockFindings`. -/
theorem C11_locks_balanced : locksBalanced = true := by decide +kernel

/-! ## 1. Answered, never fatal -/

/-- What `serve` does with any body: a reply (never a dropped connection) whose status is 2xx/4xx
or the dial-out client's, and publications the consumers can take. -/
theorem serve_total (w : World) (room : String) (b : Body) :
    (∃ c, (serve genCfg w room b).http = .status c ∧
      (okStatus c = true ∨ ∃ r, b = .ok r ∧ checkValid genCfg r = true ∧ DialoutGateway w room r c)) ∧
    ∀ p ∈ (serve genCfg w room b).pubs, pubOk p = true := by
  cases b with
  | tooLarge => exact ⟨⟨413, rfl, Or.inl rfl⟩, by simp [serve]⟩
  | undecodable => exact ⟨⟨400, rfl, Or.inl rfl⟩, by simp [serve]⟩
  | ok r =>
    by_cases hv : checkValid genCfg r = true
    · have hs : serve genCfg w room (.ok r) = dispatch genCfg w room r := by
        simp [serve, hv]
      rw [hs]
      obtain ⟨⟨c, hc, hor⟩, hp⟩ := dispatch_valid w room r hv
      refine ⟨⟨c, hc, ?_⟩, hp⟩
      cases hor with
      | inl h => exact Or.inl h
      | inr h => exact Or.inr ⟨r, rfl, hv, h⟩
    · have hs : serve genCfg w room (.ok r) = ⟨.status 400, []⟩ := by
        simp [serve, hv, genCfg_validate, genCfg_validateStatus]
      rw [hs]
      exact ⟨⟨400, rfl, Or.inl rfl⟩, by simp⟩

/-- The consumers behind the bus process everything the handler publishes without failing — in
whatever state the hub is when the message arrives (`w'` is arbitrary: delivery is asynchronous). -/
theorem C11_consumers_total (w w' : World) (room : String) (b : Body) :
    ∀ p ∈ (serve genCfg w room b).pubs, (deliver w' p).crash = false :=
  fun p hp => deliver_ok w' p ((serve_total w room b).2 p hp)

/-- For every state, every body and **every** behaviour of the dial-out client: the request gets an
HTTP reply and neither the handler nor the hub loop nor a bus subscriber fails. -/
theorem C11_never_fatal (w : World) (room : String) (b : Body) :
    (step genCfg w room b).http ≠ .noReply ∧ (step genCfg w room b).crash = false := by
  obtain ⟨⟨c, hc, _⟩, hp⟩ := serve_total w room b
  constructor
  · show (serve genCfg w room b).http ≠ .noReply
    rw [hc]; exact fun h => Http.noConfusion h
  · exact deliverAll_ok _ w hp

theorem cooperative_status (d : DialoutEnv) (h : d.cooperative = true) : okStatus d.status = true := by
  cases d <;> first | rfl | (simp [DialoutEnv.cooperative] at h)

/-- **C11, first sentence.**  Every body — over-long, undecodable, or any decoded request value —
sent to any room in any state is answered with a 2xx or 4xx status, and nothing fails in the handler,
the hub main loop or the bus subscribers.  (Dial-out client absent or doing its job; see
`C11_gateway_exact` for the rest.) -/
theorem C11_answered (w : World) (room : String) (b : Body) (hd : w.dialout.cooperative = true) :
    (∃ c, (step genCfg w room b).http = .status c ∧ okStatus c = true) ∧
    (step genCfg w room b).crash = false := by
  refine ⟨?_, (C11_never_fatal w room b).2⟩
  obtain ⟨⟨c, hc, hor⟩, _⟩ := serve_total w room b
  refine ⟨c, hc, ?_⟩
  cases hor with
  | inl h => exact h
  | inr h =>
    obtain ⟨r, _, _, _, hcs, _⟩ := h
    rw [hcs]; exact cooperative_status _ hd

/-- The only statuses outside 2xx/4xx: a well-formed, validated dial-out request (valid E.164
number, numeric room id) that was handed to a dial-out client which then failed (502) or stayed
silent (504). -/
theorem C11_gateway_exact (w : World) (room : String) (b : Body) (c : Nat)
    (hc : (step genCfg w room b).http = .status c) (hbad : okStatus c = false) :
    (c = 502 ∨ c = 504) ∧ w.dialout.cooperative = false ∧ malformed b = false ∧
    ∃ r d, b = .ok r ∧ r.type = "dialout" ∧ r.dialout = some d ∧
      isValidNumber d.number = true ∧ isNumeric room = true := by
  obtain ⟨⟨c', hc', hor⟩, _⟩ := serve_total w room b
  have hcc : c' = c := by
    have : (serve genCfg w room b).http = .status c := hc
    rw [hc'] at this; exact Http.status.inj this
  subst hcc
  cases hor with
  | inl h => rw [h] at hbad; exact absurd hbad (by decide)
  | inr h =>
    obtain ⟨r, hb, _, ht, hcs, d, hd, hnum, hroom⟩ := h
    have hcoop : w.dialout.cooperative = false := by
      cases hco : w.dialout.cooperative with
      | false => rfl
      | true => rw [hcs, cooperative_status _ hco] at hbad; exact absurd hbad (by decide)
    refine ⟨?_, hcoop, ?_, r, d, hb, ht, hd, hnum, hroom⟩
    · rw [hcs]
      cases hdl : w.dialout <;> simp [DialoutEnv.status] <;> simp [hdl, DialoutEnv.cooperative] at hcoop
    · subst hb
      simp [malformed, documentedTypes, Request.payloadPresent, ht, hd]

/-- Conversely such a request does get the dial-out client's status. -/
theorem C11_gateway_converse (w : World) (room : String) (r : Request) (d : Dialout)
    (ht : r.type = "dialout") (hd : r.dialout = some d)
    (hnum : isValidNumber d.number = true) (hroom : isNumeric room = true) :
    (step genCfg w room (.ok r)).http = .status w.dialout.status := by
  have hv : checkValid genCfg r = true := by
    simp [checkValid, genCfg, required, ht, List.lookup, Request.has, hd]
  have hne : d.number ≠ "" := by
    intro h; rw [h] at hnum; exact absurd hnum (by decide)
  show (serve genCfg w room (.ok r)).http = _
  simp [serve, hv, dispatch, ht, hd, hnum, hroom, hne]

/-! ## 2. A malformed request causes no event -/

/-- A request that fails validation is answered 400, publishes nothing, delivers nothing and leaves
the state as it was. -/
theorem C11_invalid_no_event (w : World) (room : String) (r : Request) (h : checkValid genCfg r = false) :
    serve genCfg w room (.ok r) = ⟨.status 400, []⟩ ∧
    (step genCfg w room (.ok r)).events = [] ∧ (step genCfg w room (.ok r)).world = w := by
  have hs : serve genCfg w room (.ok r) = ⟨.status 400, []⟩ := by
    simp [serve, h, genCfg_validate, genCfg_validateStatus]
  refine ⟨hs, ?_, ?_⟩ <;> simp [step, hs, deliverAll]

/-- Malformed in the statement's sense but of a documented type: the validation rejects it. -/
theorem malformed_documented_invalid (r : Request) (hm : malformed (.ok r) = true)
    (hdoc : documentedTypes.contains r.type = true) : checkValid genCfg r = false := by
  have hcases : r.type = "invite" ∨ r.type = "disinvite" ∨ r.type = "update" ∨ r.type = "delete" ∨
      r.type = "incall" ∨ r.type = "participants" ∨ r.type = "message" ∨ r.type = "switchto" ∨ r.type = "dialout" := by
    simpa [documentedTypes] using hdoc
  cases hv : checkValid genCfg r with
  | false => rfl
  | true =>
    exfalso
    simp only [malformed, hdoc, Bool.not_true, Bool.false_or, Bool.or_eq_true] at hm
    rcases hcases with h | h | h | h | h | h | h | h | h
    · obtain ⟨x, hx⟩ := valid_invite hv h
      simp [Request.payloadPresent, h, hx] at hm
    · obtain ⟨x, hx⟩ := valid_disinvite hv h
      simp [Request.payloadPresent, h, hx] at hm
    · obtain ⟨x, hx⟩ := valid_update hv h
      simp [Request.payloadPresent, h, hx] at hm
    · obtain ⟨x, hx⟩ := valid_delete hv h
      simp [Request.payloadPresent, h, hx] at hm
    · obtain ⟨x, hx⟩ := valid_incall hv h
      simp [Request.payloadPresent, h, hx] at hm
    · obtain ⟨x, hx⟩ := valid_participants hv h
      simp [Request.payloadPresent, h, hx] at hm
    · have := valid_required hv "message" "Message" h (by decide)
      simp [Request.has] at this
      simp [Request.payloadPresent, h, this] at hm
    · obtain ⟨x, hx, hdec⟩ := valid_switchto hv h
      simp [Request.payloadPresent, h, hx, hdec] at hm
    · obtain ⟨x, hx⟩ := valid_dialout hv h
      simp [Request.payloadPresent, h, hx] at hm

/-- **C11, second sentence.**  A malformed request (over-long, undecodable, unknown type, missing
or null sub-object, undecodable `sessions`) is answered with a 4xx status, publishes nothing on the
event bus, causes no event at any client and leaves the state unchanged. -/
theorem C11_malformed_no_event (w : World) (room : String) (b : Body) (hm : malformed b = true) :
    (serve genCfg w room b).pubs = [] ∧
    (step genCfg w room b).events = [] ∧ (step genCfg w room b).world = w ∧
    ∃ c, (step genCfg w room b).http = .status c ∧ 400 ≤ c ∧ c < 500 := by
  have key : ∃ c, serve genCfg w room b = ⟨.status c, []⟩ ∧ 400 ≤ c ∧ c < 500 := by
    cases b with
    | tooLarge => exact ⟨413, rfl, by decide, by decide⟩
    | undecodable => exact ⟨400, rfl, by decide, by decide⟩
    | ok r =>
      by_cases hdoc : documentedTypes.contains r.type = true
      · exact ⟨400, (C11_invalid_no_event w room r (malformed_documented_invalid r hm hdoc)).1, by decide, by decide⟩
      · by_cases hv : checkValid genCfg r = true
        · have hn : r.type ≠ "invite" ∧ r.type ≠ "disinvite" ∧ r.type ≠ "update" ∧ r.type ≠ "delete" ∧
              r.type ≠ "incall" ∧ r.type ≠ "participants" ∧ r.type ≠ "message" ∧ r.type ≠ "switchto" ∧
              r.type ≠ "dialout" := by
            simpa [documentedTypes] using hdoc
          obtain ⟨n1, n2, n3, n4, n5, n6, n7, n8, n9⟩ := hn
          refine ⟨400, ?_, by decide, by decide⟩
          simp [serve, hv, dispatch, n1, n2, n3, n4, n5, n6, n7, n8, n9, genCfg_unsupportedStatus]
        · have hv' : checkValid genCfg r = false := by simpa using hv
          exact ⟨400, (C11_invalid_no_event w room r hv').1, by decide, by decide⟩
  obtain ⟨c, hs, h1, h2⟩ := key
  refine ⟨by rw [hs], ?_, ?_, c, ?_, h1, h2⟩ <;> simp [step, hs, deliverAll]

/-! ## 3. Sequences of requests -/

theorem sendTo_dialout (w : World) (ts : List Sess) (ev : Ev) : (sendTo w ts ev).world.dialout = w.dialout := rfl

theorem consumeRoom_dialout (w : World) (room : String) (m : Request) :
    (consumeRoom w room m).world.dialout = w.dialout := by
  unfold consumeRoom
  split
  · rfl
  · repeat' split
    all_goals first | rfl | exact inCallAll_dialout _ _ _

theorem deliver_dialout (w : World) (p : Pub) : (deliver w p).world.dialout = w.dialout := by
  cases p with
  | user uid ev =>
    simp only [deliver]
    split
    · rfl
    · exact sendTo_dialout _ _ _
  | session sid ev =>
    cases ev with
    | none => rfl
    | some e => exact sendTo_dialout _ _ _
  | room room m => exact consumeRoom_dialout w room m

theorem deliverAll_dialout (ps : List Pub) : ∀ w : World, (deliverAll w ps).world.dialout = w.dialout := by
  induction ps with
  | nil => intro w; rfl
  | cons p ps ih => intro w; simp only [deliverAll]; rw [ih, deliver_dialout]

/-- Any sequence of requests (to any rooms, from any state): every single one is answered 2xx/4xx
and nothing ever fails — the state a request leaves behind is just another state. -/
theorem C11_run_answered (reqs : List (String × Body)) : ∀ (w : World), w.dialout.cooperative = true →
    ∀ o ∈ (run genCfg w reqs).2, (∃ c, o.http = .status c ∧ okStatus c = true) ∧ o.crash = false := by
  induction reqs with
  | nil => intro w _ o ho; simp [run] at ho
  | cons rb rest ih =>
    intro w hd o ho
    obtain ⟨room, b⟩ := rb
    simp only [run, List.mem_cons] at ho
    cases ho with
    | inl h => subst h; exact C11_answered w room b hd
    | inr h =>
      refine ih (step genCfg w room b).world ?_ o h
      have : (step genCfg w room b).world.dialout = w.dialout := deliverAll_dialout _ _
      rw [this]; exact hd

/-- `fixupUserSessions` makes true what `addInternalSessions` and `filterMessage` assert. -/
theorem C11_fixup_entries_ok (w : World) (es : List Entry) : entriesOk (fixup w es) = true := fixup_ok w es

/-! ## 3b. Rooms do not reach into each other

A request for one room may name sessions of the same backend that sit in other rooms (the room
session ids are resolved per backend, not per room). -/

theorem filter_map_outside (p : Sess → Bool) (f : Sess → Sess) (hf : ∀ s, p (f s) = p s)
    (hid : ∀ s, p s = true → f s = s) : ∀ ss : List Sess, (ss.map f).filter p = ss.filter p := by
  intro ss
  induction ss with
  | nil => rfl
  | cons s ss ih =>
    simp only [List.map_cons, List.filter_cons, hf s]
    cases hp : p s with
    | true => simp [hid s hp, ih]
    | false => simp [ih]

/-- An in-call request for `room` leaves every session outside `room` exactly as it was: flags of
sessions in other rooms, and of sessions in no room, are untouched whatever the entries name. -/
theorem C11_incall_stays_in_room (room : String) (es : List Entry) : ∀ ss : List Sess,
    (applyInCall room ss es).filter (fun s => s.room != some room) = ss.filter (fun s => s.room != some room) := by
  induction es with
  | nil => intro ss; rfl
  | cons e es ih =>
    intro ss
    unfold applyInCall
    simp only []
    rw [ih]
    repeat' split
    all_goals first
      | rfl
      | (apply filter_map_outside
         · intro s; split <;> rfl
         · intro s hs
           split
           · rename_i h
             simp only [Bool.and_eq_true, decide_eq_true_eq] at h
             simp [h.2] at hs
           · rfl)

/-- Two rooms: `c1` in "100", `c2` in "200". -/
def twoRooms : World :=
  { props := [("100", "{}"), ("200", "{}")],
    sessions := [{ pub := "c1", user := "u1", room := some "100", rsid := "rs1" },
                 { pub := "c2", user := "u2", room := some "200", rsid := "rs2" }] }

/-- The situation itself: an in-call request for room "200" whose `changed` list names the session
of room "100".  The entry resolves (same backend), is forwarded, and is skipped by the room: the
member of "200" gets the update, `c1` is not in any call, the next request is served as ever. -/
def foreignInCall : Request :=
  { type := "incall",
    inCall := some ({ inCall := RawInCall.int 1,
                      changed := [[("inCall", Val.num 1), ("sessionId", Val.str "rs1")]],
                      users := [[("sessionId", Val.str "rs1")]] } : InCall) }

example :
    (step genCfg twoRooms "200" (.ok foreignInCall)).http = .status 200 ∧
    (step genCfg twoRooms "200" (.ok foreignInCall)).crash = false ∧
    (step genCfg twoRooms "200" (.ok foreignInCall)).events = [⟨"c2", .participantsUpdate⟩] ∧
    (step genCfg twoRooms "200" (.ok foreignInCall)).world.sessions.all (fun s => !s.inCall) = true ∧
    (step genCfg (step genCfg twoRooms "200" (.ok foreignInCall)).world "200"
      (.ok { type := "message", message := some { data := "1" } })).events = [⟨"c2", .roomMessage⟩] := by
  decide

/-! ## 4. Without the guards the statements are false (the tree before the fix)

The same model with validation switched off is the code as it was; these are the witnesses that were
replayed on it (and are replayed by the correspondence check whenever the guard disappears). -/

def noValidation : Cfg := { genCfg with validate := false }

/-- One member (`c1`, Nextcloud session `rs1`) in room "100". -/
def witnessWorld : World :=
  { props := [("100", "{}")], sessions := [{ pub := "c1", user := "u1", room := some "100", rsid := "rs1" }] }

/-- `{"type":"update"}` for an existing room: no reply, and the hub main loop dies. -/
theorem C11_unvalidated_update_kills_hub :
    (step noValidation witnessWorld "100" (.ok { type := "update" })).http = .noReply ∧
    (step noValidation witnessWorld "100" (.ok { type := "update" })).crash = true := by
  decide

/-- `{"type":"delete"}`: the malformed request closes the room (event at the member), then no reply. -/
theorem C11_unvalidated_delete_closes_room :
    (step noValidation witnessWorld "100" (.ok { type := "delete" })).http = .noReply ∧
    (step noValidation witnessWorld "100" (.ok { type := "delete" })).events = [⟨"c1", .roomLeft⟩] := by
  decide

/-- A `sessions` member that is neither list nor object, without the test-decode: 500. -/
theorem C11_unchecked_sessions_500 :
    (step { genCfg with sessionsChecked := false } witnessWorld "100"
      (.ok { type := "switchto", switchTo := some { sessions := { present := true } } })).http = .status 500 := by
  decide

/-! ## Non-vacuity -/

/-- A cooperative world with a member, and a well-formed request that does cause events there. -/
example : witnessWorld.dialout.cooperative = true ∧
    (step genCfg witnessWorld "100" (.ok { type := "update", update := some { properties := "{\"a\":1}" } })).events
      = [⟨"c1", .roomProps⟩] := by decide

/-- Malformed bodies exist in every class the statement names. -/
example : malformed .undecodable = true ∧ malformed (.ok { type := "foo" }) = true ∧
    malformed (.ok { type := "invite" }) = true ∧
    malformed (.ok { type := "switchto", switchTo := some { sessions := { present := true } } }) = true ∧
    malformed (.ok { type := "message", message := some {} }) = false := by decide

/-- The gateway case is inhabited: a valid dial-out request meeting a silent client is answered 504. -/
example : (step genCfg { witnessWorld with dialout := .timeout } "100"
    (.ok { type := "dialout", dialout := some { number := "+491234" } })).http = .status 504 := by decide

/-- The failure branches of the consumers are real: an entry without a string "sessionId" would
kill the process if it ever reached them. -/
example : (consumeRoom witnessWorld "100"
    { type := "participants", participants := some { users := [[("sessionId", .num 5)]] } }).crash = true := by decide

end SigModel.ShapesBackend
