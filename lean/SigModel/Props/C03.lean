import SigModel.Spec.Hub
