/-
C03 — Sessions of different backends (tenants) never reach each other.

The hub model routes in three ways: through bus listener sets (room and user
subjects, which carry the backend id), by writing directly to a session that
was looked up by its public id (messages, control messages), and by looking a
session up by its Nextcloud room-session id (room joins, room API calls).
The theorems show, for every reachable state (every op sequence), that each of
the three ways stays inside the backend it was started from.  The three source
facts they depend on are regenerated from /repo on every run.
-/
import SigModel.Lemmas.HubIso

namespace SigModel.Hub

/-- The guards of the source: same-backend checks on session recipients of messages *and* control
messages, and room-session ids resolved per backend. -/
theorem C03_facts : Generated.Hub.messageBackendChecked = true ∧ Generated.Hub.controlBackendChecked = true ∧
    Generated.Hub.roomSessionBackendChecked = true := by decide

/-- **Media offers.**  The hub model has no media server: the answer to a `requestoffer` (the publisher's
offer, delivered to the requester as a message *of the publishing session*) is outside it.  That the request is
accepted only for a publisher in the same room **of the same backend** is the gate `Hub.isInSameCall`
(proved to be the statement's condition in `C08_sameCall_iff`, rooms there being backend-qualified); that the
gate compares rooms with `Room.IsEqual`, and that `Room.IsEqual` compares room id *and* backend id — "rooms
with the same id on different backends are distinct rooms" — is regenerated from the source on every run. -/
theorem C03_same_call_is_per_backend : Generated.Hub.sameCallIsPerBackend = true := by decide

/-- **Bus subjects.** In every reachable state all listeners of the room subject `(b, r)`, all
listeners of the user subject `(b, u)` and all members (and in-call members) of room `(b, r)` are
sessions of backend `b` — also when room ids or user ids coincide across backends. -/
theorem C03_subjects_per_backend (ops : List Op) (b : Nat) (s : Nat) :
    (∀ r, s ∈ (run {} ops).1.roomL b r → ∃ x, (run {} ops).1.sess s = some x ∧ x.backend = b) ∧
    (∀ u, s ∈ (run {} ops).1.userL b u → ∃ x, (run {} ops).1.sess s = some x ∧ x.backend = b) ∧
    (∀ r rm, (run {} ops).1.rooms b r = some rm → (s ∈ rm.members ∨ s ∈ rm.inCall) →
      ∃ x, (run {} ops).1.sess s = some x ∧ x.backend = b) := by
  have hi := reachable_inv ops
  generalize (run {} ops).1 = h at hi
  refine ⟨?_, ?_, ?_⟩
  · intro r hm; obtain ⟨x, hx, hb, _⟩ := (hi.roomL_iff b r s).mp hm; exact ⟨x, hx, hb⟩
  · intro u hm; obtain ⟨x, hx, hb, _⟩ := (hi.userL_iff b u s).mp hm; exact ⟨x, hx, hb⟩
  · intro r rm hrm hm
    have hmem : s ∈ rm.members := hm.elim id (hi.incall b r rm s hrm)
    obtain ⟨x, hx, hb, _⟩ := hi.mem_room b r rm s hrm hmem; exact ⟨x, hx, hb⟩

/-- Rooms with the same id on different backends are distinct rooms with disjoint members. -/
theorem C03_rooms_distinct (ops : List Op) (b₁ b₂ : Nat) (r : String) (rm₁ rm₂ : Room) (hne : b₁ ≠ b₂)
    (h₁ : (run {} ops).1.rooms b₁ r = some rm₁) (h₂ : (run {} ops).1.rooms b₂ r = some rm₂) (s : Nat) :
    ¬ (s ∈ rm₁.members ∧ s ∈ rm₂.members) := by
  rintro ⟨m₁, m₂⟩
  obtain ⟨x, hx, hb, _⟩ := (reachable_inv ops).mem_room b₁ r rm₁ s h₁ m₁
  obtain ⟨y, hy, hb', _⟩ := (reachable_inv ops).mem_room b₂ r rm₂ s h₂ m₂
  rw [hx] at hy; cases hy; exact hne (hb.symm.trans hb')

/-- **Direct sends.** A message or control message addressed to the public id of a session of
another backend is dropped: nothing is written anywhere and nothing changes, even though the
foreign id is valid and known. -/
theorem C03_foreign_session_unreachable (a : Acc) (s t : Nat) (ctl : Bool) (data : String) (x y : Sess)
    (hx : a.h.sess s = some x) (hy : a.h.sess t = some y) (hne : y.backend ≠ x.backend) :
    processMessage a s ctl (.session (some t)) data = a := by
  obtain ⟨f1, f2, _⟩ := C03_facts
  unfold processMessage
  simp only [hx, hy]
  split
  · rfl
  · split
    · rfl
    · cases ctl <;> simp [f1, f2, hne]

/-- **Room-session ids.** The lookup used by the room API (disinvite, incall, participants, switchto)
only yields sessions of the calling backend … -/
theorem C03_room_session_lookup (h : Hub) (b : Nat) (rs : String) (s : Nat) (hl : lookupRs h b rs = some s) :
    ∃ x, h.sess s = some x ∧ x.backend = b := by
  obtain ⟨_, _, f3⟩ := C03_facts
  unfold lookupRs at hl
  cases h1 : h.rs2sid rs with
  | none => simp [h1] at hl
  | some v =>
    simp only [h1] at hl
    cases h2 : h.sess v with
    | none => simp [h2] at hl
    | some x =>
      simp only [h2, f3, Bool.true_and] at hl
      by_cases hb : x.backend ≠ b
      · simp [hb] at hl
      · have hb' : x.backend = b := by simpa using hb
        simp only [hb', ne_eq, not_true_eq_false, decide_false, Bool.false_eq_true, if_false, Option.some.injEq] at hl
        subst hl; exact ⟨x, h2, hb'⟩

/-- … and a room join that names a room-session id in use on another backend does not touch the
other backend's session. -/
theorem C03_join_does_not_kick_foreign (a : Acc) (rs : String) (b req v : Nat) (x : Sess)
    (hv : a.h.rs2sid rs = some v) (hx : a.h.sess v = some x) (hne : x.backend ≠ b) :
    disconnectByRoomSessionId a rs b req = a := by
  obtain ⟨_, _, f3⟩ := C03_facts
  unfold disconnectByRoomSessionId
  simp [hv, hx, f3, hne]

/-! Non-vacuity: two backends, same room id, same user id, same Nextcloud session id. -/

/-- **Isolation of everything that is written.**  Every message the hub writes to a connection is tagged
(`Out.bk`) with the backend of the session the connection belonged to at that moment.  For every state that
satisfies the invariant and every operation that acts on behalf of a backend `b` (`originOf`: the backend named
in a hello or a room API call, or the backend of the session sending the request) — whatever its kind, room
ids, user ids, Nextcloud session ids or target ids, known or guessed — every message written in the step,
including those caused by the sessions the step closes, goes to a session of `b`: nothing reaches a
connection of another tenant. -/
theorem C03_isolation (h : Hub) (hi : Inv h) (op : Op) (b : Nat) (ho : originOf h op = some b) :
    ∀ o, o ∈ (step h op).2 → ∀ b', o.bk = some b' → b' = b :=
  (step_own h op hi ho).1

/-- **Isolation of what the server holds.**  Under the same hypotheses the record of every session of another
backend — its room, Nextcloud session id, permissions, queued messages, connection, in-call flags, virtual
sessions — is after the step exactly what it was before: nothing done on behalf of `b` (also not a room API call
naming a Nextcloud session id that another backend uses, or a join that re-uses it) kicks, moves, mutes or
re-permissions a session of another tenant. -/
theorem C03_state_isolation (h : Hub) (hi : Inv h) (op : Op) (b : Nat) (ho : originOf h op = some b) :
    ∀ t x, h.sess t = some x → x.backend ≠ b → (step h op).1.sess t = some x :=
  (step_own h op hi ho).2

theorem C03_state_isolation_reachable (ops : List Op) (op : Op) (b : Nat) (ho : originOf (run {} ops).1 op = some b) :
    ∀ t x, (run {} ops).1.sess t = some x → x.backend ≠ b → (step (run {} ops).1 op).1.sess t = some x :=
  C03_state_isolation _ (reachable_inv ops) op b ho

/-- … in particular after every history. -/
theorem C03_isolation_reachable (ops : List Op) (op : Op) (b : Nat) (ho : originOf (run {} ops).1 op = some b) :
    ∀ o, o ∈ (step (run {} ops).1 op).2 → ∀ b', o.bk = some b' → b' = b :=
  C03_isolation _ (reachable_inv ops) op b ho

private def demo : List Op :=
  [.connect 1, .connect 2, .hello 1 0 .client "alice" false false, .hello 2 1 .client "alice" false false,
   .join 1 "room" "nc1" (.ok (some ["control"]) ""), .join 2 "room" "nc1" (.ok (some ["control"]) ""),
   .message 1 true (.session (some 2)) "x", .message 1 false (.user "alice") "y", .message 1 false .room "z",
   .api 0 "room" (.disinvite [] ["nc1"] [])]

/-- Both sessions stay in their own rooms of the same name; the three messages of session 1 and
backend 0's disinvite for the shared Nextcloud session id reach nobody on backend 1. (The id map is
shared by all backends, so the later registration on backend 1 shadows backend 0's entry: the
disinvite is not delivered at all — a loss, not a leak.) -/
example : ((run {} demo).2.drop 6).map (fun outs => outs.map (·.conn)) = [[], [], [], []] := by
  decide +kernel

/-- Non-vacuity of `C03_isolation`: in the history above, bob of backend 0 joins alice's room; the step acts
for backend 0 and writes four messages, all to backend 0. -/
example : originOf (run {} demo).1 (.hello 3 0 .client "bob" false false) = some 0 ∧
    ((step (step (step (run {} demo).1 (.connect 3)).1 (.hello 3 0 .client "bob" false false)).1
      (.join 3 "room" "nc3" (.ok none ""))).2.map (fun o => (o.conn, o.bk))) =
      [(3, some 0), (1, some 0), (3, some 0), (3, some 0)] := by
  decide +kernel

end SigModel.Hub
