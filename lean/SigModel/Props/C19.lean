/-
C19 — Virtual sessions exist only through, and only as long as, their internal client.
-/
import SigModel.Props.C05

namespace SigModel.Hub

/-- **Only internal clients.** add / remove / in-call requests of a session that is not an internal
client change nothing and produce no output. -/
theorem C19_only_internal (a : Acc) (s : Nat) (x : Sess) (hx : a.h.sess s = some x) (hk : x.kind ≠ .internal)
    (r vkey user : String) (ic : Option Nat) (ok : Bool) (n : Nat) :
    addVirtual a s r vkey user ic ok = a ∧ removeVirtual a s r vkey = a ∧ internalInCall a s n = a := by
  refine ⟨?_, ?_, ?_⟩
  · unfold addVirtual; simp [hx, hk]
  · unfold removeVirtual; simp [hx, hk]
  · unfold internalInCall; simp [hx, hk]

/-- **Only rooms of its own backend.** A virtual session is created in the room with the given id *on
the internal client's backend* (if that room exists there) and nowhere else: rooms of other backends
keep their member lists. -/
theorem C19_own_backend_only (a : Acc) (s : Nat) (x : Sess) (hx : a.h.sess s = some x)
    (r vkey user : String) (ic : Option Nat) (ok : Bool) (b : Nat) (hb : b ≠ x.backend) (r' : String) :
    (addVirtual a s r vkey user ic ok).h.rooms b r' = a.h.rooms b r' := by
  unfold addVirtual
  simp only [hx]
  split
  · rfl
  · split
    · rfl
    · split
      · exact congrFun (congrFun (sendTo_core a s _).rooms b) r'
      · have c := (roomAddSession_core { a with h := virtualTables a.h s x r vkey user ic } x.backend r a.h.nextSid .virtual "").rooms
        rw [congrFun (congrFun c b) r']
        simp only [hubf, hb, false_and, if_false]
        unfold virtualTables; simp only [hubf]

/-- **Existence and lifetime.** In every reachable state a virtual session has no connection of its
own, and its internal client exists, is an internal session of the same backend and lists it — so when
the internal client's session ends (bye, expiry, kick) no virtual session of it can remain
(`C07_no_residue` covers the tables, the rooms and the bus). -/
theorem C19_exists_through_parent (ops : List Op) (v : Nat) (vx : Sess)
    (hv : (run {} ops).1.sess v = some vx) (hk : vx.kind = .virtual) :
    vx.conn = none ∧ ∃ p, (run {} ops).1.sess vx.parent = some p ∧ p.kind = .internal ∧ p.backend = vx.backend ∧
      v ∈ p.children := by
  obtain ⟨h1, _, _, h4⟩ := (reachable_inv ops).virt v vx hv hk
  rcases h4 with h4 | h4
  · cases h4
  · exact ⟨h1, h4⟩

/-- The entries of the virtual-session table point to live virtual sessions of the right owner and id. -/
theorem C19_table_sound (ops : List Op) (p : Nat) (k : String) (v : Nat) (h : (run {} ops).1.vtable p k = some v) :
    ∃ vx, (run {} ops).1.sess v = some vx ∧ vx.kind = .virtual ∧ vx.parent = p ∧ vx.vkey = k :=
  (reachable_inv ops).vtable p k v h

/-- **Appears as a participant.** A virtual session in a room is a member of that room (C04), and is not
a bus listener of its own: whatever is addressed to it is written to its internal client with the
recipient rewritten to the client's own id (`C05_routing`, `expectedOut`). -/
theorem C19_member_not_listener (ops : List Op) (v : Nat) (vx : Sess) (r : String)
    (hv : (run {} ops).1.sess v = some vx) (hk : vx.kind = .virtual) (hr : vx.room = some r) :
    (∃ rm, (run {} ops).1.rooms vx.backend r = some rm ∧ v ∈ rm.members) ∧ v ∉ (run {} ops).1.roomL vx.backend r := by
  refine ⟨(reachable_inv ops).room_mem' v vx r hv hr, ?_⟩
  intro hm
  obtain ⟨y, hy, _, _, hkv⟩ := ((reachable_inv ops).roomL_iff _ _ v).mp hm
  rw [hv] at hy; cases hy; exact hkv hk

theorem C19_removed_is_gone (a : Acc) (s : Nat) (r vkey : String) (v : Nat) (x : Sess) (rm : Room) (hi : Inv a.h)
    (hx : a.h.sess s = some x) (hk : x.kind = .internal) (hrm : a.h.rooms x.backend r = some rm)
    (hv : a.h.vtable s vkey = some v) : (removeVirtual a s r vkey).h.sess v = none := by
  unfold removeVirtual
  simp only [hx, hk, ne_eq, not_true_eq_false, if_false, hrm, hv]
  have hi' : Inv ({ a.h with vtable := fun p k => if p = s ∧ k = vkey then none else a.h.vtable p k } : Hub) := by
    obtain ⟨f1, f2, f3, f4, f5, f6, f7, f8, f9, f10, f11, f12, f13, f14, f15, f16, f17, f18, f19, f20, f21, f22, f23, f24, f25⟩ := hi
    constructor
    all_goals first | assumption | skip
    · intro p k v' hv'
      simp only [] at hv'
      split at hv'
      · cases hv'
      · exact f15 p k v' hv'
  exact (closeSession_sub { a with h := { a.h with vtable := fun p k => if p = s ∧ k = vkey then none else a.h.vtable p k } } v hi').2

/-- "The backend is told when it is removed or when its internal client's session ends": the check compares
the "remove" requests the backend receives in a step with `goneVirtual pre post`; that list is exactly the
virtual sessions that were in a room before the step and exist no more after it. -/
theorem C19_gone_iff (pre post : Hub) (hi : Inv pre) (v : Nat) (r : String) :
    (r, v) ∈ goneVirtual pre post ↔
      ∃ x, pre.sess v = some x ∧ x.kind = .virtual ∧ x.room = some r ∧ post.sess v = none := by
  unfold goneVirtual
  rw [List.mem_filterMap]
  constructor
  · rintro ⟨w, _, hw⟩
    cases hx : pre.sess w with
    | none => simp [hx] at hw
    | some x =>
      simp only [hx] at hw
      split at hw
      · rename_i hc
        cases hr : x.room with
        | none => simp [hr] at hw
        | some r' =>
          simp only [hr, Option.map_some, Option.some.injEq, Prod.mk.injEq] at hw
          obtain ⟨h1, h2⟩ := hw
          subst h1; subst h2
          simp only [Bool.and_eq_true, decide_eq_true_eq, Option.isNone_iff_eq_none] at hc
          exact ⟨x, hx, hc.1, hr, hc.2⟩
      · cases hw
  · rintro ⟨x, hx, hk, hr, hg⟩
    refine ⟨v, ?_, ?_⟩
    · simp only [sids, List.mem_range]
      by_cases hlt : v < pre.nextSid
      · exact hlt
      · have := hi.fresh v (by omega)
        rw [hx] at this; cases this
    · simp [hx, hk, hg, hr]

/-- With `C19_removed_is_gone`: an explicit removal is one of the reported ones. -/
theorem C19_removed_is_reported (a : Acc) (s : Nat) (r vkey : String) (v : Nat) (x vx : Sess) (rm : Room) (r' : String)
    (hi : Inv a.h) (hx : a.h.sess s = some x) (hk : x.kind = .internal) (hrm : a.h.rooms x.backend r = some rm)
    (hv : a.h.vtable s vkey = some v) (hvx : a.h.sess v = some vx) (hr : vx.room = some r') :
    (r', v) ∈ goneVirtual a.h (removeVirtual a s r vkey).h := by
  obtain ⟨y, hy, hyk, _, _⟩ := hi.vtable s vkey v hv
  rw [hvx] at hy; cases hy
  exact (C19_gone_iff _ _ hi v r').mpr ⟨vx, hvx, hyk, hr, C19_removed_is_gone a s r vkey v x rm hi hx hk hrm hv⟩

/-- The virtual id table is cleaned when a virtual session ends by any path, and a session that is closed
without ever having owned its entry (a duplicate add the backend refused) leaves the entry of the live
session alone — as the model does (`dropVirtual` removes the entry only if it points to the session).
Regenerated on every run. -/
theorem C19_facts : Generated.Hub.vtableClearedOnClose = true ∧ Generated.Hub.vtableDeleteGuarded = true := by decide

private def demo : List Op :=
  [.connect 1, .connect 2, .hello 1 0 .internal "" false false, .hello 2 0 .client "bob" false false,
   .join 2 "room" "n2" (.ok none ""), .addVirtual 1 "room" "phone-7" "carol" none true,
   .message 2 false (.session (some 3)) "ring", .bye 1]

/-- Non-vacuity: bob's message to the virtual session is written to the internal client's connection
with the client's own id for it as recipient; when the internal client says bye, bob sees the virtual
session leave. -/
example : ((run {} demo).2.drop 6).map (fun outs => outs.map (fun o => (o.conn, o.msg))) =
    [[(1, .message false ⟨.session, 2, "bob"⟩ (some "phone-7") "ring")],
     [(1, .bye ""), (2, .leave [3])]] := by
  decide +kernel

end SigModel.Hub
