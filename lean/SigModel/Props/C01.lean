/-
C01 — No session without valid credentials; nothing happens before hello.

Property theorems about the model of the hub's hello path (`Model/Auth.lean`) over the
facts regenerated from the source (`Generated/Auth.lean`), stated against the spec
written from the statement (`Spec/Auth.lean`).
-/
import SigModel.Lemmas.Auth

namespace SigModel.Auth
open SigModel.Generated.Auth
open SigModel.Proto (hasPrefix)

/-! ## 0. The source still has the shape the model restates

Structural facts that are not numbers: if one of them changes the model has to be
re-read against the code (the correspondence run then says whether behaviour moved). -/

theorem C01_facts_as_modelled :
    validMethods = ["RS256", "RS384", "RS512", "ES256", "ES384", "ES512", "EdDSA"] ∧
    keyfuncCases = [("SigningMethodRSA", "ParseRSAPublicKeyFromPEM"), ("SigningMethodECDSA", "ParseECPublicKeyFromPEM"),
                    ("SigningMethodEd25519", "ParseEdPublicKeyFromPEM")] ∧
    keyfuncDefaultErrors = true ∧
    jwtWithIssuedAt = true ∧ jwtWithLeeway = true ∧ jwtLeewayArg = "tokenLeeway" ∧
    jwtErrorMap = [("ErrTokenNotValidYet|ErrTokenUsedBeforeIssued", "TokenNotValidYet"), ("ErrTokenExpired", "TokenExpired")] ∧
    jwtErrorDefault = "InvalidToken" ∧
    hubTimeRules = [("issuedAt != nil && expiresAt != nil && expiresAt.Before(issuedAt.Time)", "TokenExpired"),
                    ("issuedAt == nil", "TokenNotValidYet"),
                    ("minExpiresAt := now.Add(-tokenLeeway); expiresAt == nil || expiresAt.Before(minExpiresAt)", "TokenExpired")] ∧
    v2BackendLookupFirst = true ∧
    preAuthOnlyType = "hello" ∧ preAuthError = "HelloExpected" ∧
    checkValidBeforeDispatch = true ∧ decodeBeforeDispatch = true ∧
    resumeCompare = "!found || resumeId != session.PrivateId()" ∧
    clientTypeSwitch = ["HelloClientTypeClient→fallthrough", "HelloClientTypeFederation→processHelloClient",
                        "HelloClientTypeInternal→processHelloInternal"] ∧
    clientTypeDefaultError = "InvalidClientType" ∧
    internalSecretGuard = true ∧ internalSecretGuardError = "InvalidClientType" ∧
    internalTokenCheck = "len(rnd) < minTokenRandomLength || check != message.Hello.Auth.internalParams.Token ⇒ InvalidToken" ∧
    internalMacIsHexHmacSha256OfRandom = true ∧
    internalOrder = ["secret", "throttle", "token", "backend:InvalidBackendUrl", "register"] ∧
    standardPorts = ["http:80", "https:443"] ∧
    lookupByUrlPrefix = true ∧ lookupCompatHostOnly = true ∧ lookupRejectsDotSegments = true ∧
    minTokenRandomLength = 32 ∧ tokenLeeway = 60000000000 ∧
    jwtLibVersion = "v5.2.2" := by decide

/-! ## 1. A session is only given for credentials that verify -/

/-- Environment assumption (about web servers, not about the hub): a request to a URL
without dot segments is answered by the owner of every configured backend whose URL is a
prefix of it. -/
def Routes (cfg : Cfg) : Prop :=
  ∀ (u : Url) (b : Backend), u.dotSeg = false → Names cfg u b → srvOk b u.srv = true

theorem checkValid_none {m : Hello} (h : checkValid m = none) :
    (m.version = "1.0" ∨ m.version = "2.0") ∧
    (m.resume.present = false →
      ((effType m = HelloClientTypeClient ∨ effType m = HelloClientTypeFederation) → m.url.ok = true) ∧
      (effType m = HelloClientTypeInternal → m.burl.ok = true)) := by
  unfold checkValid at h
  split at h
  · simp at h
  · rename_i hver
    refine ⟨?_, ?_⟩
    · rw [fact_v1, fact_v2] at hver
      by_cases h1 : m.version = "1.0"
      · exact Or.inl h1
      · by_cases h2 : m.version = "2.0"
        · exact Or.inr h2
        · exact absurd ⟨h1, h2⟩ hver
    · intro hp
      simp only [hp, Bool.false_eq_true, if_false] at h
      by_cases ha : (!m.hasAuth || !m.hasParams) = true
      · simp [ha] at h
      · simp only [ha] at h
        by_cases hty : effType m = HelloClientTypeClient ∨ effType m = HelloClientTypeFederation
        · simp only [hty, if_true] at h
          refine ⟨fun _ => ?_, fun hi => ?_⟩
          · by_cases hr : m.url.raw = ""
            · simp [hr] at h
            · simp only [hr, if_false] at h
              cases hok : m.url.ok with
              | true => rfl
              | false => simp [hok] at h
          · rw [hi, fact_internal, fact_client, fact_federation] at hty
            exact absurd hty (by decide)
        · simp only [hty, if_false] at h
          refine ⟨fun hc => absurd hc hty, fun hi => ?_⟩
          simp only [hi, if_true] at h
          cases hpo : m.paramsOk with
          | false => simp [hpo] at h
          | true =>
            simp only [hpo, Bool.not_true, Bool.false_eq_true, if_false] at h
            by_cases hr : m.burl.raw = ""
            · simp [hr] at h
            · simp only [hr, if_false] at h
              cases hok : m.burl.ok with
              | true => rfl
              | false => simp [hok] at h

theorem helloResume_creds {cfg : Cfg} {env : Env} {now : Int} {h : Hub} {c : Nat} {m : Hello}
    {sid : Nat} {bid k u : String} (hp : m.resume.present = true)
    (hs : (helloResume now h c m).2 = .hello sid bid k u) : ValidCreds cfg env now h.live m sid bid := by
  unfold helloResume at hs
  simp only [] at hs
  split at hs
  · simp at hs
  · split at hs
    · simp at hs
    · split at hs
      · simp at hs
      · rename_i s hfind
        simp only [Reply.hello.injEq] at hs
        obtain ⟨h1, h2, _, _⟩ := hs
        right; right; right
        refine ⟨hp, ?_⟩
        cases he : m.resume.exact with
        | none => simp [he] at hfind
        | some sid' =>
          simp only [he, Option.bind_some] at hfind
          have hmem := List.mem_of_find?_eq_some hfind
          have hsid := List.find?_some hfind
          simp only [decide_eq_true_eq] at hsid
          refine ⟨by rw [he, ← h1, hsid], ?_⟩
          unfold Hub.live
          rw [← h1, ← h2]
          exact List.mem_map.mpr ⟨s, hmem, rfl⟩

theorem helloV1_creds {cfg : Cfg} {env : Env} {now : Int} {h : Hub} {c : Nat} {m : Hello}
    {sid : Nat} {bid k u : String} (hr : Routes cfg) (hp : m.resume.present = false)
    (hty : effType m = HelloClientTypeClient ∨ effType m = HelloClientTypeFederation)
    (hver : m.version = "1.0") (hok : m.url.ok = true)
    (hs : (helloV1 cfg h c m).2 = .hello sid bid k u) : ValidCreds cfg env now h.live m sid bid := by
  unfold helloV1 at hs
  split at hs
  · simp at hs
  · rename_i b hb
    split at hs
    · simp at hs
    · simp at hs
    · simp at hs
    · rename_i user hans
      obtain ⟨_, hbid, _, _⟩ := register_hello hs
      left
      have hn := getBackend_names hok hb
      exact ⟨hp, effType_clientish hty, hver, b, hn, hbid.symm, hr _ _ (getBackend_nodot hb) hn, user, hans⟩

theorem helloV2_creds {cfg : Cfg} {env : Env} {now : Int} {h : Hub} {c : Nat} {m : Hello}
    {sid : Nat} {bid k u : String} (hr : Routes cfg) (hp : m.resume.present = false)
    (hty : effType m = HelloClientTypeClient ∨ effType m = HelloClientTypeFederation)
    (hver : m.version = "2.0") (hok : m.url.ok = true)
    (hs : (helloV2 cfg env now h c m).2 = .hello sid bid k u) : ValidCreds cfg env now h.live m sid bid := by
  unfold helloV2 at hs
  split at hs
  · simp at hs
  · rename_i b hb
    split at hs
    · simp at hs
    · split at hs
      · simp at hs
      · rename_i hparse
        split at hs
        · simp at hs
        · rename_i htime
          obtain ⟨_, hbid, _, _⟩ := register_hello hs
          obtain ⟨halg, hkey, hvf, hval⟩ := jwtParse_none hparse
          right; left
          have hn := getBackend_names hok hb
          exact ⟨hp, effType_clientish hty, hver, b, hn, hbid.symm, hr _ _ (getBackend_nodot hb) hn, halg, hkey, hvf,
            timeValid_of_checks hval htime⟩

theorem helloInternal_creds {cfg : Cfg} {env : Env} {now : Int} {h : Hub} {c : Nat} {m : Hello}
    {sid : Nat} {bid k u : String} (hp : m.resume.present = false)
    (hty : effType m = HelloClientTypeInternal) (hok : m.burl.ok = true)
    (hs : (helloInternal cfg now h c m).2 = .hello sid bid k u) : ValidCreds cfg env now h.live m sid bid := by
  unfold helloInternal at hs
  split at hs
  · simp at hs
  · rename_i hsec
    simp only [] at hs
    split at hs
    · simp at hs
    · split at hs
      · simp at hs
      · rename_i htok
        split at hs
        · simp at hs
        · rename_i b hb
          obtain ⟨_, hbid, _, _⟩ := register_hello hs
          right; right; left
          simp only [Bool.or_eq_true, decide_eq_true_eq, Bool.not_eq_true', not_or, Nat.not_lt,
            Bool.not_eq_false] at htok
          refine ⟨hp, effType_internal hty, by simpa using hsec, htok.2, ?_, b, getBackend_names hok hb, hbid.symm⟩
          rw [← fact_minRandom]; exact htok.1

/-- **C01, first clause.** Whatever the state of the server, the connection and the
message: if the reply to a hello carries a session id, the message presented one of the
four kinds of credentials of the statement, and they verify — protocol 1.0 params accepted by
the configured backend the URL names, a protocol 2.0 token with an RSA/ECDSA/EdDSA algorithm
whose signature verifies under the key published by that backend and whose iat/exp/nbf are
valid now (one minute of skew), an internal token equal to HMAC(secret, random) with a
non-empty secret and ≥ 32 bytes of random, or the private id of a session in the table. -/
theorem C01_session_needs_credentials (cfg : Cfg) (env : Env) (now : Int) (h : Hub) (c : Nat) (m : Hello)
    (sid : Nat) (bid k u : String) (hr : Routes cfg)
    (hs : (step cfg env now h (.hello c m)).2 = .hello sid bid k u) :
    ValidCreds cfg env now h.live m sid bid := by
  simp only [step] at hs
  split at hs
  · simp at hs
  · split at hs
    · simp at hs
    · rename_i hvalid
      split at hs
      · simp at hs
      · obtain ⟨hver, hshape⟩ := checkValid_none hvalid
        unfold processHello at hs
        by_cases hp : m.resume.present = true
        · simp only [hp, if_true] at hs
          exact helloResume_creds hp hs
        · have hp' : m.resume.present = false := by simpa using hp
          obtain ⟨hcl, hin⟩ := hshape hp'
          simp only [hp', Bool.false_eq_true, if_false] at hs
          split at hs
          · rename_i hty
            split at hs
            · rename_i hv1
              exact helloV1_creds hr hp' hty (by rw [hv1, fact_v1]) (hcl hty) hs
            · split at hs
              · rename_i hv2
                exact helloV2_creds hr hp' hty (by rw [hv2, fact_v2]) (hcl hty) hs
              · simp at hs
          · split at hs
            · rename_i hty
              exact helloInternal_creds hp' hty (hin hty) hs
            · simp at hs

end SigModel.Auth
