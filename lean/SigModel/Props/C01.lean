/-
C01 — No session without valid credentials; nothing happens before hello.

Property theorems about the model of the hub's hello path (`Model/Auth.lean`) over the
facts regenerated from the source (`Generated/Auth.lean`), stated against the spec
written from the statement (`Spec/Auth.lean`).
-/
import SigModel.Lemmas.Auth

namespace SigModel.Auth
open SigModel.Generated.Auth
open SigModel.Proto (hasPrefix)

/-! ## 0. The source still has the shape the model restates

Structural facts that are not numbers: if one of them changes the model has to be
re-read against the code (the correspondence run then says whether behaviour moved). -/

theorem C01_facts_as_modelled :
    validMethods = ["RS256", "RS384", "RS512", "ES256", "ES384", "ES512", "EdDSA"] ∧
    keyfuncCases = [("SigningMethodRSA", "ParseRSAPublicKeyFromPEM"), ("SigningMethodECDSA", "ParseECPublicKeyFromPEM"),
                    ("SigningMethodEd25519", "ParseEdPublicKeyFromPEM")] ∧
    keyfuncDefaultErrors = true ∧
    jwtWithIssuedAt = true ∧ jwtWithLeeway = true ∧ jwtLeewayArg = "tokenLeeway" ∧
    jwtErrorMap = [("ErrTokenNotValidYet|ErrTokenUsedBeforeIssued", "TokenNotValidYet"), ("ErrTokenExpired", "TokenExpired")] ∧
    jwtErrorDefault = "InvalidToken" ∧
    hubTimeRules = [("issuedAt != nil && expiresAt != nil && expiresAt.Before(issuedAt.Time)", "TokenExpired"),
                    ("issuedAt == nil", "TokenNotValidYet"),
                    ("minExpiresAt := now.Add(-tokenLeeway); expiresAt == nil || expiresAt.Before(minExpiresAt)", "TokenExpired")] ∧
    v2BackendLookupFirst = true ∧
    preAuthOnlyType = "hello" ∧ preAuthError = "HelloExpected" ∧
    checkValidBeforeDispatch = true ∧ decodeBeforeDispatch = true ∧
    resumeCompare = "!found || resumeId != session.PrivateId()" ∧
    clientTypeSwitch = ["HelloClientTypeClient→fallthrough", "HelloClientTypeFederation→processHelloClient",
                        "HelloClientTypeInternal→processHelloInternal"] ∧
    clientTypeDefaultError = "InvalidClientType" ∧
    internalSecretGuard = true ∧ internalSecretGuardError = "InvalidClientType" ∧
    internalTokenCheck = "len(rnd) < minTokenRandomLength || check != message.Hello.Auth.internalParams.Token ⇒ InvalidToken" ∧
    internalMacIsHexHmacSha256OfRandom = true ∧
    internalOrder = ["secret", "throttle", "token", "backend:InvalidBackendUrl", "register"] ∧
    standardPorts = ["http:80", "https:443"] ∧
    lookupByUrlPrefix = true ∧ lookupCompatHostOnly = true ∧ lookupRejectsDotSegments = true ∧
    minTokenRandomLength = 32 ∧ tokenLeeway = 60000000000 ∧
    jwtLibVersion = "v5.2.2" := by decide

/-! ## 1. A session is only given for credentials that verify -/

/-- Environment assumption (about the web server behind the URL, not about the hub): if the
URL has no dot segments, the server that answers it is the owner of every configured backend
whose URL is a prefix of it (prefix routing; prefix-free configuration per host). -/
def RoutedByPrefix (cfg : Cfg) (u : Url) : Prop :=
  u.dotSeg = false → ∀ b : Backend, Names cfg u b → srvOk b u.srv = true

theorem checkValid_none {m : Hello} (h : checkValid m = none) :
    (m.version = "1.0" ∨ m.version = "2.0") ∧
    (m.resume.present = false →
      ((effType m = HelloClientTypeClient ∨ effType m = HelloClientTypeFederation) → m.url.ok = true) ∧
      (effType m = HelloClientTypeInternal → m.burl.ok = true)) := by
  unfold checkValid at h
  split at h
  · simp at h
  · rename_i hver
    refine ⟨?_, ?_⟩
    · rw [fact_v1, fact_v2] at hver
      by_cases h1 : m.version = "1.0"
      · exact Or.inl h1
      · by_cases h2 : m.version = "2.0"
        · exact Or.inr h2
        · exact absurd ⟨h1, h2⟩ hver
    · intro hp
      simp only [hp, Bool.false_eq_true, if_false] at h
      by_cases ha : (!m.hasAuth || !m.hasParams) = true
      · simp [ha] at h
      · simp only [ha] at h
        by_cases hty : effType m = HelloClientTypeClient ∨ effType m = HelloClientTypeFederation
        · simp only [hty, if_true] at h
          refine ⟨fun _ => ?_, fun hi => ?_⟩
          · by_cases hr : m.url.raw = ""
            · simp [hr] at h
            · simp only [hr, if_false] at h
              cases hok : m.url.ok with
              | true => rfl
              | false => simp [hok] at h
          · rw [hi, fact_internal, fact_client, fact_federation] at hty
            exact absurd hty (by decide)
        · simp only [hty, if_false] at h
          refine ⟨fun hc => absurd hc hty, fun hi => ?_⟩
          simp only [hi, if_true] at h
          cases hpo : m.paramsOk with
          | false => simp [hpo] at h
          | true =>
            simp only [hpo, Bool.not_true, Bool.false_eq_true, if_false] at h
            by_cases hr : m.burl.raw = ""
            · simp [hr] at h
            · simp only [hr, if_false] at h
              cases hok : m.burl.ok with
              | true => rfl
              | false => simp [hok] at h

theorem helloResume_creds {cfg : Cfg} {env : Env} {now : Int} {h : Hub} {c : Nat} {m : Hello}
    {sid : Nat} {bid k u : String} (hp : m.resume.present = true)
    (hs : (helloResume now h c m).2 = .hello sid bid k u) : ValidCreds cfg env now h.live m sid bid := by
  unfold helloResume at hs
  simp only [] at hs
  split at hs
  · simp at hs
  · split at hs
    · simp at hs
    · split at hs
      · simp at hs
      · rename_i s hfind
        simp only [Reply.hello.injEq] at hs
        obtain ⟨h1, h2, _, _⟩ := hs
        right; right; right
        refine ⟨hp, ?_⟩
        cases he : m.resume.exact with
        | none => simp [he] at hfind
        | some sid' =>
          simp only [he, Option.bind_some] at hfind
          have hmem := List.mem_of_find?_eq_some hfind
          have hsid := List.find?_some hfind
          simp only [decide_eq_true_eq] at hsid
          refine ⟨by rw [he, ← h1, hsid], ?_⟩
          unfold Hub.live
          rw [← h1, ← h2]
          exact List.mem_map.mpr ⟨s, hmem, rfl⟩

theorem helloV1_creds {cfg : Cfg} {env : Env} {now : Int} {h : Hub} {c : Nat} {m : Hello}
    {sid : Nat} {bid k u : String} (hr : RoutedByPrefix cfg m.url) (hp : m.resume.present = false)
    (hty : effType m = HelloClientTypeClient ∨ effType m = HelloClientTypeFederation)
    (hver : m.version = "1.0") (hok : m.url.ok = true)
    (hs : (helloV1 cfg h c m).2 = .hello sid bid k u) : ValidCreds cfg env now h.live m sid bid := by
  unfold helloV1 at hs
  split at hs
  · simp at hs
  · rename_i b hb
    split at hs
    · simp at hs
    · simp at hs
    · simp at hs
    · rename_i user hans
      obtain ⟨_, hbid, _, _⟩ := register_hello hs
      left
      have hn := getBackend_names hok hb
      exact ⟨hp, effType_clientish hty, hver, b, hn, hbid.symm, hr (getBackend_nodot hb) b hn, user, hans⟩

theorem helloV2_creds {cfg : Cfg} {env : Env} {now : Int} {h : Hub} {c : Nat} {m : Hello}
    {sid : Nat} {bid k u : String} (hr : RoutedByPrefix cfg m.url) (hp : m.resume.present = false)
    (hty : effType m = HelloClientTypeClient ∨ effType m = HelloClientTypeFederation)
    (hver : m.version = "2.0") (hok : m.url.ok = true)
    (hs : (helloV2 cfg env now h c m).2 = .hello sid bid k u) : ValidCreds cfg env now h.live m sid bid := by
  unfold helloV2 at hs
  split at hs
  · simp at hs
  · rename_i b hb
    split at hs
    · simp at hs
    · split at hs
      · simp at hs
      · rename_i hparse
        split at hs
        · simp at hs
        · rename_i htime
          obtain ⟨_, hbid, _, _⟩ := register_hello hs
          obtain ⟨halg, hkey, hvf, hval⟩ := jwtParse_none hparse
          right; left
          have hn := getBackend_names hok hb
          exact ⟨hp, effType_clientish hty, hver, b, hn, hbid.symm, hr (getBackend_nodot hb) b hn, halg, hkey, hvf,
            timeValid_of_checks hval htime⟩

theorem helloInternal_creds {cfg : Cfg} {env : Env} {now : Int} {h : Hub} {c : Nat} {m : Hello}
    {sid : Nat} {bid k u : String} (hp : m.resume.present = false)
    (hty : effType m = HelloClientTypeInternal) (hok : m.burl.ok = true)
    (hs : (helloInternal cfg now h c m).2 = .hello sid bid k u) : ValidCreds cfg env now h.live m sid bid := by
  unfold helloInternal at hs
  split at hs
  · simp at hs
  · rename_i hsec
    simp only [] at hs
    split at hs
    · simp at hs
    · split at hs
      · simp at hs
      · rename_i htok
        split at hs
        · simp at hs
        · rename_i b hb
          obtain ⟨_, hbid, _, _⟩ := register_hello hs
          right; right; left
          simp only [Bool.or_eq_true, decide_eq_true_eq, Bool.not_eq_true', not_or, Nat.not_lt,
            Bool.not_eq_false] at htok
          refine ⟨hp, effType_internal hty, by simpa using hsec, htok.2, ?_, b, getBackend_names hok hb, hbid.symm⟩
          rw [← fact_minRandom]; exact htok.1

/-- **C01, first clause.** Whatever the state of the server, the connection and the
message: if the reply to a hello carries a session id, the message presented one of the
four kinds of credentials of the statement, and they verify — protocol 1.0 params accepted by
the configured backend the URL names, a protocol 2.0 token with an RSA/ECDSA/EdDSA algorithm
whose signature verifies under the key published by that backend and whose iat/exp/nbf are
valid now (one minute of skew), an internal token equal to HMAC(secret, random) with a
non-empty secret and ≥ 32 bytes of random, or the private id of a session in the table. -/
theorem C01_session_needs_credentials (cfg : Cfg) (env : Env) (now : Int) (h : Hub) (c : Nat) (m : Hello)
    (sid : Nat) (bid k u : String) (hr : RoutedByPrefix cfg m.url)
    (hs : (step cfg env now h (.hello c m)).2 = .hello sid bid k u) :
    ValidCreds cfg env now h.live m sid bid := by
  simp only [step] at hs
  split at hs
  · simp at hs
  · split at hs
    · simp at hs
    · rename_i hvalid
      split at hs
      · simp at hs
      · obtain ⟨hver, hshape⟩ := checkValid_none hvalid
        unfold processHello at hs
        by_cases hp : m.resume.present = true
        · simp only [hp, if_true] at hs
          exact helloResume_creds hp hs
        · have hp' : m.resume.present = false := by simpa using hp
          obtain ⟨hcl, hin⟩ := hshape hp'
          simp only [hp', Bool.false_eq_true, if_false] at hs
          split at hs
          · rename_i hty
            split at hs
            · rename_i hv1
              exact helloV1_creds hr hp' hty (by rw [hv1, fact_v1]) (hcl hty) hs
            · split at hs
              · rename_i hv2
                exact helloV2_creds hr hp' hty (by rw [hv2, fact_v2]) (hcl hty) hs
              · simp at hs
          · split at hs
            · rename_i hty
              exact helloInternal_creds hp' hty (hin hty) hs
            · simp at hs


/-! ## 2. Nothing happens before hello -/

/-- A frame other than a valid hello (any type, undecodable, invalid, or valid of another type;
also `bye`), sent on an open connection that has no session. -/
def PreHello (h : Hub) : Op → Prop
  | .msg c ty shape => h.isOpen c = true ∧ h.sessionOf c = none ∧ (Op.msg c ty shape).isOther = true
  | .bye c => h.isOpen c = true ∧ h.sessionOf c = none
  | _ => False

theorem C01_nothing_before_hello (cfg : Cfg) (env : Env) (now : Int) (h : Hub) (op : Op) (hp : PreHello h op) :
    ∃ code, step cfg env now h op = (h, .error code) := by
  cases op with
  | connect c a => exact absurd hp (by simp [PreHello])
  | disconnect c => exact absurd hp (by simp [PreHello])
  | hello c m => exact absurd hp (by simp [PreHello])
  | msg c ty shape =>
    obtain ⟨ho, hs, hother⟩ := hp
    simp only [step, ho, Bool.not_true, Bool.false_eq_true, if_false, hs]
    cases shape with
    | undecodable => exact ⟨_, rfl⟩
    | invalid => exact ⟨_, rfl⟩
    | valid =>
      simp only [Op.isOther, ne_eq, not_true_eq_false, decide_false, Bool.or_false, decide_eq_true_eq] at hother
      simp only [hother, ne_eq, not_false_eq_true, if_true]
      exact ⟨_, rfl⟩
  | bye c =>
    obtain ⟨ho, hs⟩ := hp
    simp only [step, ho, Bool.not_true, Bool.false_eq_true, if_false, hs]
    exact ⟨_, rfl⟩

/-- …and for every sequence of such frames, of any length, on any connections without session:
the state at the end is the state at the start and every reply is an error. -/
theorem C01_nothing_before_hello_seq (cfg : Cfg) (env : Env) (now : Int) (h : Hub) :
    ∀ ops : List Op, (∀ op ∈ ops, PreHello h op) →
      (run cfg env now h ops).1 = h ∧ ∀ r ∈ (run cfg env now h ops).2, ∃ code, r = .error code := by
  intro ops
  induction ops with
  | nil => intro _; simp [run]
  | cons op ops ih =>
    intro hall
    obtain ⟨code, hstep⟩ := C01_nothing_before_hello cfg env now h op (hall op List.mem_cons_self)
    have ih' := ih (fun o ho => hall o (List.mem_cons_of_mem _ ho))
    simp only [run, hstep]
    refine ⟨ih'.1, ?_⟩
    intro r hr
    rcases List.mem_cons.mp hr with rfl | hr
    · exact ⟨code, rfl⟩
    · exact ih'.2 r hr

/-- A hello that fails validation is answered with an error and changes nothing. -/
theorem C01_invalid_hello_no_effect (cfg : Cfg) (env : Env) (now : Int) (h : Hub) (c : Nat) (m : Hello) (e : String)
    (ho : h.isOpen c = true) (hv : checkValid m = some e) :
    step cfg env now h (.hello c m) = (h, .error (errCode e)) := by
  simp only [step, ho, Bool.not_true, Bool.false_eq_true, if_false, hv]


/-! ## 3. What a hello can do to the server state -/

/-- The three possible effects of a hello op on connection `c`. -/
inductive HelloEffect (h : Hub) (c : Nat) : Hub × Reply → Prop
  /-- refused or ignored: session table, connections and id counter untouched (only throttle records may change) -/
  | refused (h' : Hub) (r : Reply) : (∀ sid b k u, r ≠ .hello sid b k u) → h'.sessions = h.sessions →
      h'.conns = h.conns → h'.nextSid = h.nextSid → HelloEffect h c (h', r)
  /-- a new session, attached to `c` -/
  | registered (h' : Hub) (b k u : String) :
      h'.sessions = h.sessions ++ [{ sid := h.nextSid, backend := b, kind := k, user := u, conn := some c }] →
      h'.conns = h.conns → h'.nextSid = h.nextSid + 1 → HelloEffect h c (h', .hello h.nextSid b k u)
  /-- an existing session, re-attached to `c` -/
  | resumed (h' : Hub) (s : Sess) : s ∈ h.sessions →
      h'.sessions = h.sessions.map (fun x => if x.sid = s.sid then { x with conn := some c } else x) →
      h'.nextSid = h.nextSid → HelloEffect h c (h', .hello s.sid s.backend s.kind s.user)

theorem effect_error (h : Hub) (c : Nat) (h' : Hub) (code : String) (h1 : h'.sessions = h.sessions)
    (h2 : h'.conns = h.conns) (h3 : h'.nextSid = h.nextSid) : HelloEffect h c (h', .error code) :=
  .refused h' _ (by intros; simp) h1 h2 h3

theorem register_effect (h0 h : Hub) (c : Nat) (b : Backend) (kind user : String)
    (h1 : h.sessions = h0.sessions) (h2 : h.conns = h0.conns) (h3 : h.nextSid = h0.nextSid) :
    HelloEffect h0 c (register h c b kind user) := by
  unfold register
  split
  · exact effect_error h0 c h _ h1 h2 h3
  · rw [h3]
    exact .registered _ b.id kind user (by simp [h1]) (by simp [h2]) (by simp)

theorem helloResume_effect (now : Int) (h : Hub) (c : Nat) (m : Hello) :
    HelloEffect h c (helloResume now h c m) := by
  unfold helloResume
  simp only []
  split
  · exact effect_error h c _ _ rfl rfl rfl
  · split
    · exact effect_error h c _ _ rfl rfl rfl
    · split
      · exact effect_error h c _ _ rfl rfl rfl
      · rename_i s hfind
        have hmem : s ∈ h.sessions := by
          cases he : m.resume.exact with
          | none => simp [he] at hfind
          | some sid' =>
            simp only [he, Option.bind_some] at hfind
            exact List.mem_of_find?_eq_some hfind
        exact .resumed _ s hmem rfl rfl

theorem helloV1_effect (cfg : Cfg) (h : Hub) (c : Nat) (m : Hello) : HelloEffect h c (helloV1 cfg h c m) := by
  unfold helloV1
  split
  · exact effect_error h c _ _ rfl rfl rfl
  · split
    · exact effect_error h c _ _ rfl rfl rfl
    · exact effect_error h c _ _ rfl rfl rfl
    · exact effect_error h c _ _ rfl rfl rfl
    · exact register_effect h h c _ _ _ rfl rfl rfl

theorem helloV2_effect (cfg : Cfg) (env : Env) (now : Int) (h : Hub) (c : Nat) (m : Hello) :
    HelloEffect h c (helloV2 cfg env now h c m) := by
  unfold helloV2
  split
  · exact effect_error h c _ _ rfl rfl rfl
  · split
    · exact effect_error h c _ _ rfl rfl rfl
    · split
      · exact effect_error h c _ _ rfl rfl rfl
      · split
        · exact effect_error h c _ _ rfl rfl rfl
        · exact register_effect h h c _ _ _ rfl rfl rfl

theorem helloInternal_effect (cfg : Cfg) (now : Int) (h : Hub) (c : Nat) (m : Hello) :
    HelloEffect h c (helloInternal cfg now h c m) := by
  unfold helloInternal
  split
  · exact effect_error h c _ _ rfl rfl rfl
  · simp only []
    split
    · exact effect_error h c _ _ rfl rfl rfl
    · split
      · exact effect_error h c _ _ rfl rfl rfl
      · split
        · exact effect_error h c _ _ rfl rfl rfl
        · exact register_effect h _ c _ _ _ rfl rfl rfl

theorem processHello_effect (cfg : Cfg) (env : Env) (now : Int) (h : Hub) (c : Nat) (m : Hello) :
    HelloEffect h c (processHello cfg env now h c m) := by
  unfold processHello
  split
  · exact helloResume_effect now h c m
  · simp only []
    split
    · split
      · exact helloV1_effect cfg h c m
      · split
        · exact helloV2_effect cfg env now h c m
        · exact effect_error h c _ _ rfl rfl rfl
    · split
      · exact helloInternal_effect cfg now h c m
      · exact effect_error h c _ _ rfl rfl rfl

theorem step_hello_effect (cfg : Cfg) (env : Env) (now : Int) (h : Hub) (c : Nat) (m : Hello) :
    HelloEffect h c (step cfg env now h (.hello c m)) := by
  simp only [step]
  split
  · exact .refused h _ (by intros; simp) rfl rfl rfl
  · split
    · exact effect_error h c _ _ rfl rfl rfl
    · split
      · exact .refused h _ (by intros; simp) rfl rfl rfl
      · exact processHello_effect cfg env now h c m

/-- A hello that is not answered with a session leaves the session table, the connections and
the id counter exactly as they were. -/
theorem C01_refused_hello_keeps_sessions (cfg : Cfg) (env : Env) (now : Int) (h : Hub) (c : Nat) (m : Hello)
    (hr : ∀ sid b k u, (step cfg env now h (.hello c m)).2 ≠ .hello sid b k u) :
    (step cfg env now h (.hello c m)).1.sessions = h.sessions ∧
    (step cfg env now h (.hello c m)).1.conns = h.conns ∧
    (step cfg env now h (.hello c m)).1.nextSid = h.nextSid := by
  have he := step_hello_effect cfg env now h c m
  generalize step cfg env now h (.hello c m) = r at he hr
  cases he with
  | refused h' r _ h1 h2 h3 => exact ⟨h1, h2, h3⟩
  | registered h' b k u _ _ _ => exact absurd rfl (hr _ _ _ _)
  | resumed h' s _ _ _ => exact absurd rfl (hr _ _ _ _)

/-! ## 4. The only way a connection becomes authenticated -/

/-- connection `c` has a session (`client.GetSession() != nil`) -/
def attached (h : Hub) (c : Nat) : Prop := ∃ s ∈ h.sessions, s.conn = some c

theorem sessionOf_attached {h : Hub} {c : Nat} {s : Sess} (hs : h.sessionOf c = some s) : attached h c := by
  unfold Hub.sessionOf at hs
  exact ⟨s, List.mem_of_find?_eq_some hs, by simpa using List.find?_some hs⟩

theorem attached_sessionOf {h : Hub} {c : Nat} (ha : attached h c) : (h.sessionOf c).isSome = true := by
  obtain ⟨s, hm, hc⟩ := ha
  unfold Hub.sessionOf
  rw [List.find?_isSome]
  exact ⟨s, hm, by simpa using hc⟩

theorem step_attached (cfg : Cfg) (env : Env) (now : Int) (h : Hub) (op : Op) (c : Nat)
    (ha : attached (step cfg env now h op).1 c) :
    attached h c ∨ ∃ m sid b k u, op = .hello c m ∧ (step cfg env now h op).2 = .hello sid b k u := by
  cases op with
  | connect c' a =>
    left
    simp only [step] at ha
    split at ha <;> exact ha
  | disconnect c' =>
    left
    simp only [step] at ha
    split at ha
    · exact ha
    · obtain ⟨s', hm, hc⟩ := ha
      simp only [List.mem_map] at hm
      obtain ⟨x, hx, rfl⟩ := hm
      by_cases hxc : x.conn = some c'
      · simp [hxc] at hc
      · simp only [hxc, if_false] at hc
        exact ⟨x, hx, hc⟩
  | msg c' ty shape =>
    left
    simp only [step] at ha
    split at ha
    · exact ha
    · split at ha
      · exact ha
      · split at ha
        · exact ha
        · exact ha
        · split at ha <;> exact ha
  | bye c' =>
    left
    simp only [step] at ha
    split at ha
    · exact ha
    · split at ha
      · exact ha
      · obtain ⟨s', hm, hc⟩ := ha
        exact ⟨s', (List.mem_filter.mp hm).1, hc⟩
  | hello c' m =>
    have he := step_hello_effect cfg env now h c' m
    generalize hstep : step cfg env now h (.hello c' m) = r at he ha
    cases he with
    | refused h' r _ h1 _ _ =>
      left
      obtain ⟨s', hm, hc⟩ := ha
      exact ⟨s', by simpa [h1] using hm, hc⟩
    | registered h' b k u h1 _ _ =>
      obtain ⟨s', hm, hc⟩ := ha
      simp only [h1, List.mem_append, List.mem_singleton] at hm
      rcases hm with hm | rfl
      · exact Or.inl ⟨s', hm, hc⟩
      · simp only [Option.some.injEq] at hc
        subst hc
        exact Or.inr ⟨m, _, _, _, _, rfl, rfl⟩
    | resumed h' s _ h1 _ =>
      obtain ⟨s', hm, hc⟩ := ha
      simp only [h1, List.mem_map] at hm
      obtain ⟨x, hx, rfl⟩ := hm
      by_cases hxs : x.sid = s.sid
      · simp only [hxs, if_true, Option.some.injEq] at hc
        subst hc
        exact Or.inr ⟨m, _, _, _, _, rfl, rfl⟩
      · simp only [hxs, if_false] at hc
        exact Or.inl ⟨x, hx, hc⟩

/-- somewhere in the history `ops` started in state `h`, connection `c` sent a hello that was
answered with a session -/
def HelloedIn (cfg : Cfg) (env : Env) (now : Int) (c : Nat) : Hub → List Op → Prop
  | _, [] => False
  | h, op :: ops =>
    (∃ m sid b k u, op = .hello c m ∧ (step cfg env now h op).2 = .hello sid b k u) ∨
    HelloedIn cfg env now c (step cfg env now h op).1 ops

/-- **The only way to become authenticated.** For every history: a connection that has a
session at the end had one at the start or has, at some point, sent a hello that was answered
with a session (whose credentials verified, by `C01_session_needs_credentials`). -/
theorem C01_authenticated_only_by_hello (cfg : Cfg) (env : Env) (now : Int) (c : Nat) :
    ∀ (ops : List Op) (h : Hub), attached (run cfg env now h ops).1 c →
      attached h c ∨ HelloedIn cfg env now c h ops := by
  intro ops
  induction ops with
  | nil => intro h ha; exact Or.inl ha
  | cons op ops ih =>
    intro h ha
    simp only [run] at ha
    rcases ih _ ha with h1 | h1
    · rcases step_attached cfg env now h op c h1 with h2 | h2
      · exact Or.inl h2
      · exact Or.inr (Or.inl h2)
    · exact Or.inr (Or.inr h1)

/-! ## 5. The first clause along whole histories -/

theorem step_hello_reply_is_hello_op (cfg : Cfg) (env : Env) (now : Int) (h : Hub) (op : Op)
    (sid : Nat) (bid k u : String) (hs : (step cfg env now h op).2 = .hello sid bid k u) :
    ∃ c m, op = .hello c m := by
  cases op with
  | hello c m => exact ⟨c, m, rfl⟩
  | connect c a => simp only [step] at hs; split at hs <;> simp at hs
  | disconnect c => simp only [step] at hs; split at hs <;> simp at hs
  | msg c ty shape =>
    simp only [step] at hs
    split at hs
    · simp at hs
    · split at hs
      · simp at hs
      · split at hs
        · simp at hs
        · simp at hs
        · split at hs <;> simp at hs
  | bye c =>
    simp only [step] at hs
    split at hs
    · simp at hs
    · split at hs <;> simp at hs

/-- every reply in the history that carries a session id answers a hello whose credentials
verify in the state the server was in at that moment -/
def TraceOK (cfg : Cfg) (env : Env) (now : Int) : Hub → List Op → Prop
  | _, [] => True
  | h, op :: ops =>
    (∀ sid bid k u, (step cfg env now h op).2 = .hello sid bid k u →
        ∃ c m, op = .hello c m ∧ ValidCreds cfg env now h.live m sid bid) ∧
    TraceOK cfg env now (step cfg env now h op).1 ops

theorem C01_session_needs_credentials_run (cfg : Cfg) (env : Env) (now : Int) :
    ∀ (ops : List Op) (h : Hub), (∀ c m, Op.hello c m ∈ ops → RoutedByPrefix cfg m.url) →
      TraceOK cfg env now h ops := by
  intro ops
  induction ops with
  | nil => intros; trivial
  | cons op ops ih =>
    intro h hr
    refine ⟨?_, ih _ (fun c m hm => hr c m (List.mem_cons_of_mem _ hm))⟩
    intro sid bid k u hs
    obtain ⟨c, m, rfl⟩ := step_hello_reply_is_hello_op cfg env now h op sid bid k u hs
    exact ⟨c, m, rfl, C01_session_needs_credentials cfg env now h c m sid bid k u (hr c m List.mem_cons_self) hs⟩

end SigModel.Auth
