/-
C01 — No session without valid credentials; nothing happens before hello.

Property theorems about the model of the hub's hello path (`Model/Auth.lean`) over the
facts regenerated from the source (`Generated/Auth.lean`), stated against the spec
written from the statement (`Spec/Auth.lean`).
-/
import SigModel.Lemmas.Auth

namespace SigModel.Auth
open SigModel.Generated.Auth
open SigModel.Proto (hasPrefix)

/-! ## 0. The source still has the shape the model restates

Structural facts that are not numbers: if one of them changes the model has to be
re-read against the code (the correspondence run then says whether behaviour moved). -/

theorem C01_facts_as_modelled :
    validMethods = ["RS256", "RS384", "RS512", "ES256", "ES384", "ES512", "EdDSA"] ∧
    keyfuncCases = [("SigningMethodRSA", "ParseRSAPublicKeyFromPEM"), ("SigningMethodECDSA", "ParseECPublicKeyFromPEM"),
                    ("SigningMethodEd25519", "ParseEdPublicKeyFromPEM")] ∧
    keyfuncDefaultErrors = true ∧
    jwtWithIssuedAt = true ∧ jwtWithLeeway = true ∧ jwtLeewayArg = "tokenLeeway" ∧
    jwtErrorMap = [(["ErrTokenNotValidYet", "ErrTokenUsedBeforeIssued"], "TokenNotValidYet"), (["ErrTokenExpired"], "TokenExpired")] ∧
    jwtErrorDefault = "InvalidToken" ∧
    hubTimeRules = [("issuedAt != nil && expiresAt != nil && expiresAt.Before(issuedAt.Time)", "TokenExpired"),
                    ("issuedAt == nil", "TokenNotValidYet"),
                    ("minExpiresAt := now.Add(-tokenLeeway); expiresAt == nil || expiresAt.Before(minExpiresAt)", "TokenExpired")] ∧
    v2BackendLookupFirst = true ∧
    preAuthOnlyType = "hello" ∧ preAuthError = "HelloExpected" ∧
    checkValidBeforeDispatch = true ∧ decodeBeforeDispatch = true ∧
    resumeCompare = "!found || resumeId != session.PrivateId()" ∧
    clientTypeSwitch = ["HelloClientTypeClient→fallthrough", "HelloClientTypeFederation→processHelloClient",
                        "HelloClientTypeInternal→processHelloInternal"] ∧
    clientTypeDefaultError = "InvalidClientType" ∧
    internalSecretGuard = true ∧ internalSecretGuardError = "InvalidClientType" ∧
    internalTokenCheck = "len(rnd) < minTokenRandomLength || check != message.Hello.Auth.internalParams.Token ⇒ InvalidToken" ∧
    internalMacIsHexHmacSha256OfRandom = true ∧
    internalOrder = ["secret", "throttle", "token", "backend:InvalidBackendUrl", "register"] ∧
    standardPorts = ["http:80", "https:443"] ∧
    lookupByUrlPrefix = true ∧ lookupCompatHostOnly = true ∧ lookupRejectsDotSegments = true ∧
    minTokenRandomLength = 32 ∧ tokenLeeway = 60000000000 ∧
    jwtLibVersion = "v5.2.2" := by decide

/-! ## 0b. The check-then-act steps of the hello path are single critical sections

The model is sequential: `helloResume` looks the session up, compares the id and attaches the connection in
one step, `register` checks the connection and fills the tables in one step.  The source does so only while
these statements sit inside one critical section of `Hub.mu` (resp. `Backend.sessionsLock`).  The sections
are regenerated per control-flow path on every run (`tools/extract/authlocks.go`); the predicates below are
decided on them, and the resume theorems are stated over `resumeConc resumeShape` — the resume branch run
against an adversary acting wherever the source does not hold the mutex. -/

/-- The resume branch of `processHello`: every path that attaches the connection or answers with a session has
the lookup in `Hub.sessions`, the comparison with `PrivateId()`, the `*ClientSession` assertion, the
`IsConnected` check and the attach (`SetClient`, `Hub.clients`, `Hub.expiredSessions`, `Hub.expectHelloClients`)
in ONE section held for writing, the reply after it; no path returns with the mutex held; and the only function
that deletes from `Hub.sessions` (`removeSession`, the path of every ending) does so holding it for writing. -/
theorem C01_resume_one_critical_section :
    resumeShape = .one ∧ sessionRemovers = ["removeSession:W"] := by decide

/-- What `.one` is read off (kept visible: the attach path as regenerated). -/
theorem C01_resume_attach_path :
    [("-", ["throttle:check", "decode"]),
     ("W", ["lookup:sessions", "check:privateId", "check:clientSession", "check:connected", "attach:SetClient",
            "delete:expiredSessions", "store:clients", "delete:expectHelloClients"]),
     ("-", ["reply:hello", "return"])] ∈ resumePaths := by decide

/-- Exactly one section of the path carries any of `find`; it is held for writing, has `order` in that order
inside it, and `after` occurs only in later sections. -/
def oneSection (p : LockPath) (find order : List String) (after : String) : Bool :=
  match p.filter (fun s => find.any s.2.contains) with
  | [s] => s.1 == "W" && order.isSublist s.2 && p.onlyAfter s after
  | _ => false

/-- `processRegister`: on every path that answers with a session, `Backend.AddSession` (the limit) comes first,
then — in one section held for writing — "connection still there", `SetClient`, the entries in `Hub.sessions`
and `Hub.clients` and the removal from `Hub.expectHelloClients`, then the reply; the tables are written on no
other path; no path returns with the mutex held. -/
theorem C01_register_one_critical_section :
    registerPaths.all (fun (p : LockPath) =>
      p.released &&
      (if p.has "reply:hello" || p.has "store:sessions" || p.has "store:clients" || p.has "attach:SetClient" then
        oneSection p ["attach:SetClient", "store:sessions", "store:clients", "delete:expectHelloClients"]
          ["check:connected", "attach:SetClient", "store:sessions", "store:clients", "delete:expectHelloClients"] "reply:hello"
        && p.has "reply:hello"
        && (p.takeWhile (fun s => s.1 == "-")).any (fun s => ["new", "limit:add"].isSublist s.2)
       else true)) = true ∧
    registerPaths.any (fun (p : LockPath) => p.has "reply:hello") = true := by decide

/-- `Backend.AddSession`: the number of sessions is compared with the limit and the session recorded inside one
section of `Backend.sessionsLock` (never through `Len()`, which locks by itself). -/
theorem C01_limit_check_atomic :
    addSessionPaths.all (fun (p : LockPath) =>
      p.released && !p.has "limit:len-call" && !p.has "limit:compare?" &&
      p.all (fun s => (s.2.contains "record" || s.2.contains "limit:compare") → s.1 == "W") &&
      ((p.filter (fun s => s.2.contains "record" || s.2.contains "limit:compare")).length ≤ 1)) = true ∧
    [("W", ["limit:compare", "record", "return"])] ∈ addSessionPaths ∧
    [("W", ["limit:compare", "error:SessionLimitExceeded", "return"])] ∈ addSessionPaths := by decide

/-- The hello timeout: a connection is put on `Hub.expectHelloClients` only after "still connected" and "not
authenticated" were checked in the same section (`startExpectHello`), and it leaves the list — in a section of its
own, before the backend is asked outside the mutex — when a hello without resume id is dispatched; the default
branch of the client type switch re-arms it. -/
theorem C01_expect_hello_sections :
    expectHelloPaths.all (fun (p : LockPath) => p.released &&
      (if p.has "store:expectHelloClients" then
         oneSection p ["store:expectHelloClients"] ["check:connected", "check:authenticated", "store:expectHelloClients"] "-none-"
       else true)) = true ∧
    expectHelloPaths.any (fun (p : LockPath) => p.has "store:expectHelloClients") = true ∧
    helloDispatchPaths.all (fun (p : LockPath) => p.released &&
      (match p with
       | s :: rest => s.1 == "W" && s.2 == ["delete:expectHelloClients"] && rest.all (·.1 == "-")
       | [] => false) &&
      (p.has "dispatch:processHelloClient" || p.has "dispatch:processHelloInternal" || p.has "expectHello" || p == [("W", ["delete:expectHelloClients"]), ("-", ["end"])])) = true := by decide

/-! ## 1. A session is only given for credentials that verify -/

/-- Environment assumption (about the web server behind the URL, not about the hub): if the
URL has no dot segments, the server that answers it is the owner of every configured backend
whose URL is a prefix of it (prefix routing; prefix-free configuration per host). -/
def RoutedByPrefix (cfg : Cfg) (u : Url) : Prop :=
  u.dotSeg = false → ∀ b : Backend, Names cfg u b → srvOk b u.srv = true

theorem checkValid_none {m : Hello} (h : checkValid m = none) :
    (m.version = "1.0" ∨ m.version = "2.0") ∧
    (m.resume.present = false →
      ((effType m = HelloClientTypeClient ∨ effType m = HelloClientTypeFederation) → m.url.ok = true) ∧
      (effType m = HelloClientTypeInternal → m.burl.ok = true)) := by
  unfold checkValid at h
  split at h
  · simp at h
  · rename_i hver
    refine ⟨?_, ?_⟩
    · rw [fact_v1, fact_v2] at hver
      by_cases h1 : m.version = "1.0"
      · exact Or.inl h1
      · by_cases h2 : m.version = "2.0"
        · exact Or.inr h2
        · exact absurd ⟨h1, h2⟩ hver
    · intro hp
      simp only [hp, Bool.false_eq_true, if_false] at h
      by_cases ha : (!m.hasAuth || !m.hasParams) = true
      · simp [ha] at h
      · simp only [ha] at h
        by_cases hty : effType m = HelloClientTypeClient ∨ effType m = HelloClientTypeFederation
        · simp only [hty, if_true] at h
          refine ⟨fun _ => ?_, fun hi => ?_⟩
          · by_cases hr : m.url.raw = ""
            · simp [hr] at h
            · simp only [hr, if_false] at h
              cases hok : m.url.ok with
              | true => rfl
              | false => simp [hok] at h
          · rw [hi, fact_internal, fact_client, fact_federation] at hty
            exact absurd hty (by decide)
        · simp only [hty, if_false] at h
          refine ⟨fun hc => absurd hc hty, fun hi => ?_⟩
          simp only [hi, if_true] at h
          cases hpo : m.paramsOk with
          | false => simp [hpo] at h
          | true =>
            simp only [hpo, Bool.not_true, Bool.false_eq_true, if_false] at h
            by_cases hr : m.burl.raw = ""
            · simp [hr] at h
            · simp only [hr, if_false] at h
              cases hok : m.burl.ok with
              | true => rfl
              | false => simp [hok] at h

theorem helloResume_creds {cfg : Cfg} {env : Env} {now : Int} {h : Hub} {c : Nat} {m : Hello}
    {sid : Nat} {bid k u : String} (hp : m.resume.present = true)
    (hs : (helloResume now h c m).2 = .hello sid bid k u) : ValidCreds cfg env now h.live m sid bid := by
  unfold helloResume at hs
  simp only [] at hs
  split at hs
  · simp at hs
  · split at hs
    · simp at hs
    · split at hs
      · simp at hs
      · rename_i s hfind
        simp only [Reply.hello.injEq] at hs
        obtain ⟨h1, h2, _, _⟩ := hs
        right; right; right
        refine ⟨hp, ?_⟩
        cases he : m.resume.exact with
        | none => simp [he] at hfind
        | some sid' =>
          simp only [he, Option.bind_some] at hfind
          have hmem := List.mem_of_find?_eq_some hfind
          have hsid := List.find?_some hfind
          simp only [decide_eq_true_eq] at hsid
          refine ⟨by rw [he, ← h1, hsid], ?_⟩
          unfold Hub.live
          rw [← h1, ← h2]
          exact List.mem_map.mpr ⟨s, hmem, rfl⟩

/-! ### the resume branch under interleaving (depends on `C01_resume_one_critical_section`) -/

/-- With the regenerated shape the resume branch under interleaving IS the sequential `helloResume`: there is
no place between lookup and attach where anything else can run. -/
theorem resumeConc_eq (mid : Hub → Hub) (now : Int) (h : Hub) (c : Nat) (m : Hello) :
    resumeConc resumeShape mid now h c m = helloResume now h c m := by
  rw [C01_resume_one_critical_section.1]; rfl

/-- **Resume under interleaving.**  Whatever other connections, the housekeeping or the backend do to the hub
wherever the resume branch does not hold `Hub.mu` (`mid`, arbitrary): a hello answered with session `sid` carried
the private id of a session that is in the table at the moment the connection is attached — `h` is the hub when
the one critical section is entered.  Depends on `C01_resume_one_critical_section`. -/
theorem C01_resume_live_under_interleaving (cfg : Cfg) (env : Env) (mid : Hub → Hub) (now : Int) (h : Hub) (c : Nat)
    (m : Hello) (sid : Nat) (bid k u : String) (hp : m.resume.present = true)
    (hs : (resumeConc resumeShape mid now h c m).2 = .hello sid bid k u) :
    ValidCreds cfg env now h.live m sid bid ∧
    ∃ s ∈ (resumeConc resumeShape mid now h c m).1.sessions, s.sid = sid ∧ s.conn = some c := by
  rw [resumeConc_eq] at hs ⊢
  refine ⟨helloResume_creds hp hs, ?_⟩
  unfold helloResume at hs ⊢
  simp only [] at hs
  split at hs
  · simp at hs
  · rename_i hblk
    split at hs
    · simp at hs
    · rename_i hdec
      split at hs
      · simp at hs
      · rename_i s hfind
        simp only [Reply.hello.injEq] at hs
        obtain ⟨h1, -, -, -⟩ := hs
        simp only [hblk, hdec]
        have hmem : s ∈ h.sessions := by
          cases he : m.resume.exact with
          | none => simp [he] at hfind
          | some sid' =>
            simp only [he, Option.bind_some] at hfind
            exact List.mem_of_find?_eq_some hfind
        exact ⟨{ s with conn := some c }, List.mem_map.mpr ⟨s, hmem, by simp⟩, h1, rfl⟩

private def splitHub : Hub :=
  { sessions := [{ sid := 7, backend := "b1", kind := "client", user := "bob", conn := none }],
    conns := [(1, .raw "198.51.100.7")] }
private def splitHello : Hello :=
  { version := "1.0", resume := { present := true, exact := some 7, decodes := true } }

/-- Why the shape matters (proved witness, the situation of seeded change C01-4): were the connection attached in
a later section than the lookup (`.split`), the expiry of session 7 in between (`endSession · 7`) would leave
connection 1 with a hello reply for session 7 although no session 7 is in the table — neither when the
connection is attached nor afterwards.  With `.one` the same adversary has no place to act. -/
theorem C01_resume_split_would_resume_dead_session :
    let r := resumeConc .split (endSession · 7) 0 splitHub 1 splitHello
    r.2 = .hello 7 "b1" "client" "bob" ∧ r.1.sessions = [] ∧
    (resumeConc .one (endSession · 7) 0 splitHub 1 splitHello).1.sessions
      = [{ sid := 7, backend := "b1", kind := "client", user := "bob", conn := some 1 }] := by
  decide +kernel

theorem helloV1_creds {cfg : Cfg} {env : Env} {now : Int} {h : Hub} {c : Nat} {m : Hello}
    {sid : Nat} {bid k u : String} (hr : RoutedByPrefix cfg m.url) (hp : m.resume.present = false)
    (hty : effType m = HelloClientTypeClient ∨ effType m = HelloClientTypeFederation)
    (hver : m.version = "1.0") (hok : m.url.ok = true)
    (hs : (helloV1 cfg h c m).2 = .hello sid bid k u) : ValidCreds cfg env now h.live m sid bid := by
  unfold helloV1 at hs
  split at hs
  · simp at hs
  · rename_i b hb
    split at hs
    · simp at hs
    · simp at hs
    · simp at hs
    · rename_i user hans
      obtain ⟨_, hbid, _, _⟩ := register_hello hs
      left
      have hn := getBackend_names hok hb
      exact ⟨hp, effType_clientish hty, hver, b, hn, hbid.symm, hr (getBackend_nodot hb) b hn, user, hans⟩

theorem helloV2_creds {cfg : Cfg} {env : Env} {now : Int} {h : Hub} {c : Nat} {m : Hello}
    {sid : Nat} {bid k u : String} (hr : RoutedByPrefix cfg m.url) (hp : m.resume.present = false)
    (hty : effType m = HelloClientTypeClient ∨ effType m = HelloClientTypeFederation)
    (hver : m.version = "2.0") (hok : m.url.ok = true)
    (hs : (helloV2 cfg env now h c m).2 = .hello sid bid k u) : ValidCreds cfg env now h.live m sid bid := by
  unfold helloV2 at hs
  split at hs
  · simp at hs
  · rename_i b hb
    split at hs
    · simp at hs
    · split at hs
      · simp at hs
      · rename_i hparse
        split at hs
        · simp at hs
        · rename_i htime
          obtain ⟨_, hbid, _, _⟩ := register_hello hs
          obtain ⟨halg, hkey, hvf, hval⟩ := jwtParse_none hparse
          right; left
          have hn := getBackend_names hok hb
          exact ⟨hp, effType_clientish hty, hver, b, hn, hbid.symm, hr (getBackend_nodot hb) b hn, halg, hkey, hvf,
            timeValid_of_checks hval htime⟩

theorem helloInternal_creds {cfg : Cfg} {env : Env} {now : Int} {h : Hub} {c : Nat} {m : Hello}
    {sid : Nat} {bid k u : String} (hp : m.resume.present = false)
    (hty : effType m = HelloClientTypeInternal) (hok : m.burl.ok = true)
    (hs : (helloInternal cfg now h c m).2 = .hello sid bid k u) : ValidCreds cfg env now h.live m sid bid := by
  unfold helloInternal at hs
  split at hs
  · simp at hs
  · rename_i hsec
    simp only [] at hs
    split at hs
    · simp at hs
    · split at hs
      · simp at hs
      · rename_i htok
        split at hs
        · simp at hs
        · rename_i b hb
          obtain ⟨_, hbid, _, _⟩ := register_hello hs
          right; right; left
          simp only [Bool.or_eq_true, decide_eq_true_eq, Bool.not_eq_true', not_or, Nat.not_lt,
            Bool.not_eq_false] at htok
          refine ⟨hp, effType_internal hty, by simpa using hsec, htok.2, ?_, b, getBackend_names hok hb, hbid.symm⟩
          rw [← fact_minRandom]; exact htok.1

/-- **C01, first clause.** Whatever the state of the server, the connection and the
message: if the reply to a hello carries a session id, the message presented one of the
four kinds of credentials of the statement, and they verify — protocol 1.0 params accepted by
the configured backend the URL names, a protocol 2.0 token with an RSA/ECDSA/EdDSA algorithm
whose signature verifies under the key published by that backend and whose iat/exp/nbf are
valid now (one minute of skew), an internal token equal to HMAC(secret, random) with a
non-empty secret and ≥ 32 bytes of random, or the private id of a session in the table. -/
theorem C01_session_needs_credentials (cfg : Cfg) (env : Env) (now : Int) (h : Hub) (c : Nat) (m : Hello)
    (sid : Nat) (bid k u : String) (hr : RoutedByPrefix cfg m.url)
    (hs : (step cfg env now h (.hello c m)).2 = .hello sid bid k u) :
    ValidCreds cfg env now h.live m sid bid := by
  simp only [step] at hs
  split at hs
  · simp at hs
  · split at hs
    · simp at hs
    · rename_i hvalid
      split at hs
      · simp at hs
      · obtain ⟨hver, hshape⟩ := checkValid_none hvalid
        unfold processHello at hs
        by_cases hp : m.resume.present = true
        · simp only [hp, if_true] at hs
          exact helloResume_creds hp hs
        · have hp' : m.resume.present = false := by simpa using hp
          obtain ⟨hcl, hin⟩ := hshape hp'
          simp only [hp', Bool.false_eq_true, if_false] at hs
          split at hs
          · rename_i hty
            split at hs
            · rename_i hv1
              exact helloV1_creds hr hp' hty (by rw [hv1, fact_v1]) (hcl hty) hs
            · split at hs
              · rename_i hv2
                exact helloV2_creds hr hp' hty (by rw [hv2, fact_v2]) (hcl hty) hs
              · simp at hs
          · split at hs
            · rename_i hty
              exact helloInternal_creds hp' hty (hin hty) hs
            · simp at hs


/-! ## 2. Nothing happens before hello -/

/-- A frame other than a valid hello (any type, undecodable, invalid, or valid of another type;
also `bye`), sent on an open connection that has no session. -/
def PreHello (h : Hub) : Op → Prop
  | .msg c ty shape => h.isOpen c = true ∧ h.sessionOf c = none ∧ (Op.msg c ty shape).isOther = true
  | .bye c => h.isOpen c = true ∧ h.sessionOf c = none
  | _ => False

theorem C01_nothing_before_hello (cfg : Cfg) (env : Env) (now : Int) (h : Hub) (op : Op) (hp : PreHello h op) :
    ∃ code, step cfg env now h op = (h, .error code) := by
  cases op with
  | connect c a => exact absurd hp (by simp [PreHello])
  | disconnect c => exact absurd hp (by simp [PreHello])
  | hello c m => exact absurd hp (by simp [PreHello])
  | msg c ty shape =>
    obtain ⟨ho, hs, hother⟩ := hp
    simp only [step, ho, Bool.not_true, Bool.false_eq_true, if_false, hs]
    cases shape with
    | undecodable => exact ⟨_, rfl⟩
    | invalid => exact ⟨_, rfl⟩
    | valid =>
      simp only [Op.isOther, ne_eq, not_true_eq_false, decide_false, Bool.or_false, decide_eq_true_eq] at hother
      simp only [hother, ne_eq, not_false_eq_true, if_true]
      exact ⟨_, rfl⟩
  | bye c =>
    obtain ⟨ho, hs⟩ := hp
    simp only [step, ho, Bool.not_true, Bool.false_eq_true, if_false, hs]
    exact ⟨_, rfl⟩

/-- …and for every sequence of such frames, of any length, on any connections without session:
the state at the end is the state at the start and every reply is an error. -/
theorem C01_nothing_before_hello_seq (cfg : Cfg) (env : Env) (now : Int) (h : Hub) :
    ∀ ops : List Op, (∀ op ∈ ops, PreHello h op) →
      (run cfg env now h ops).1 = h ∧ ∀ r ∈ (run cfg env now h ops).2, ∃ code, r = .error code := by
  intro ops
  induction ops with
  | nil => intro _; simp [run]
  | cons op ops ih =>
    intro hall
    obtain ⟨code, hstep⟩ := C01_nothing_before_hello cfg env now h op (hall op List.mem_cons_self)
    have ih' := ih (fun o ho => hall o (List.mem_cons_of_mem _ ho))
    simp only [run, hstep]
    refine ⟨ih'.1, ?_⟩
    intro r hr
    rcases List.mem_cons.mp hr with rfl | hr
    · exact ⟨code, rfl⟩
    · exact ih'.2 r hr

/-- A hello that fails validation is answered with an error and changes nothing. -/
theorem C01_invalid_hello_no_effect (cfg : Cfg) (env : Env) (now : Int) (h : Hub) (c : Nat) (m : Hello) (e : String)
    (ho : h.isOpen c = true) (hv : checkValid m = some e) :
    step cfg env now h (.hello c m) = (h, .error (errCode e)) := by
  simp only [step, ho, Bool.not_true, Bool.false_eq_true, if_false, hv]


/-! ## 3. What a hello can do to the server state -/

/-- The three possible effects of a hello op on connection `c`. -/
inductive HelloEffect (h : Hub) (c : Nat) : Hub × Reply → Prop
  /-- refused or ignored: session table, connections and id counter untouched (only throttle records may change) -/
  | refused (h' : Hub) (r : Reply) : (∀ sid b k u, r ≠ .hello sid b k u) → h'.sessions = h.sessions →
      h'.conns = h.conns → h'.nextSid = h.nextSid → HelloEffect h c (h', r)
  /-- a new session, attached to `c` -/
  | registered (h' : Hub) (b k u : String) :
      h'.sessions = h.sessions ++ [{ sid := h.nextSid, backend := b, kind := k, user := u, conn := some c }] →
      h'.conns = h.conns → h'.nextSid = h.nextSid + 1 → HelloEffect h c (h', .hello h.nextSid b k u)
  /-- an existing session, re-attached to `c` -/
  | resumed (h' : Hub) (s : Sess) : s ∈ h.sessions →
      h'.sessions = h.sessions.map (fun x => if x.sid = s.sid then { x with conn := some c } else x) →
      h'.nextSid = h.nextSid → HelloEffect h c (h', .hello s.sid s.backend s.kind s.user)

theorem effect_error (h : Hub) (c : Nat) (h' : Hub) (code : String) (h1 : h'.sessions = h.sessions)
    (h2 : h'.conns = h.conns) (h3 : h'.nextSid = h.nextSid) : HelloEffect h c (h', .error code) :=
  .refused h' _ (by intros; simp) h1 h2 h3

theorem register_effect (h0 h : Hub) (c : Nat) (b : Backend) (kind user : String)
    (h1 : h.sessions = h0.sessions) (h2 : h.conns = h0.conns) (h3 : h.nextSid = h0.nextSid) :
    HelloEffect h0 c (register h c b kind user) := by
  unfold register
  split
  · exact effect_error h0 c h _ h1 h2 h3
  · rw [h3]
    exact .registered _ b.id kind user (by simp [h1]) (by simp [h2]) (by simp)

theorem helloResume_effect (now : Int) (h : Hub) (c : Nat) (m : Hello) :
    HelloEffect h c (helloResume now h c m) := by
  unfold helloResume
  simp only []
  split
  · exact effect_error h c _ _ rfl rfl rfl
  · split
    · exact effect_error h c _ _ rfl rfl rfl
    · split
      · exact effect_error h c _ _ rfl rfl rfl
      · rename_i s hfind
        have hmem : s ∈ h.sessions := by
          cases he : m.resume.exact with
          | none => simp [he] at hfind
          | some sid' =>
            simp only [he, Option.bind_some] at hfind
            exact List.mem_of_find?_eq_some hfind
        exact .resumed _ s hmem rfl rfl

theorem helloV1_effect (cfg : Cfg) (h : Hub) (c : Nat) (m : Hello) : HelloEffect h c (helloV1 cfg h c m) := by
  unfold helloV1
  split
  · exact effect_error h c _ _ rfl rfl rfl
  · split
    · exact effect_error h c _ _ rfl rfl rfl
    · exact effect_error h c _ _ rfl rfl rfl
    · exact effect_error h c _ _ rfl rfl rfl
    · exact register_effect h h c _ _ _ rfl rfl rfl

theorem helloV2_effect (cfg : Cfg) (env : Env) (now : Int) (h : Hub) (c : Nat) (m : Hello) :
    HelloEffect h c (helloV2 cfg env now h c m) := by
  unfold helloV2
  split
  · exact effect_error h c _ _ rfl rfl rfl
  · split
    · exact effect_error h c _ _ rfl rfl rfl
    · split
      · exact effect_error h c _ _ rfl rfl rfl
      · split
        · exact effect_error h c _ _ rfl rfl rfl
        · exact register_effect h h c _ _ _ rfl rfl rfl

theorem helloInternal_effect (cfg : Cfg) (now : Int) (h : Hub) (c : Nat) (m : Hello) :
    HelloEffect h c (helloInternal cfg now h c m) := by
  unfold helloInternal
  split
  · exact effect_error h c _ _ rfl rfl rfl
  · simp only []
    split
    · exact effect_error h c _ _ rfl rfl rfl
    · split
      · exact effect_error h c _ _ rfl rfl rfl
      · split
        · exact effect_error h c _ _ rfl rfl rfl
        · exact register_effect h _ c _ _ _ rfl rfl rfl

theorem processHello_effect (cfg : Cfg) (env : Env) (now : Int) (h : Hub) (c : Nat) (m : Hello) :
    HelloEffect h c (processHello cfg env now h c m) := by
  unfold processHello
  split
  · exact helloResume_effect now h c m
  · simp only []
    split
    · split
      · exact helloV1_effect cfg h c m
      · split
        · exact helloV2_effect cfg env now h c m
        · exact effect_error h c _ _ rfl rfl rfl
    · split
      · exact helloInternal_effect cfg now h c m
      · exact effect_error h c _ _ rfl rfl rfl

theorem step_hello_effect (cfg : Cfg) (env : Env) (now : Int) (h : Hub) (c : Nat) (m : Hello) :
    HelloEffect h c (step cfg env now h (.hello c m)) := by
  simp only [step]
  split
  · exact .refused h _ (by intros; simp) rfl rfl rfl
  · split
    · exact effect_error h c _ _ rfl rfl rfl
    · split
      · exact .refused h _ (by intros; simp) rfl rfl rfl
      · exact processHello_effect cfg env now h c m

/-- A hello that is not answered with a session leaves the session table, the connections and
the id counter exactly as they were. -/
theorem C01_refused_hello_keeps_sessions (cfg : Cfg) (env : Env) (now : Int) (h : Hub) (c : Nat) (m : Hello)
    (hr : ∀ sid b k u, (step cfg env now h (.hello c m)).2 ≠ .hello sid b k u) :
    (step cfg env now h (.hello c m)).1.sessions = h.sessions ∧
    (step cfg env now h (.hello c m)).1.conns = h.conns ∧
    (step cfg env now h (.hello c m)).1.nextSid = h.nextSid := by
  have he := step_hello_effect cfg env now h c m
  generalize step cfg env now h (.hello c m) = r at he hr
  cases he with
  | refused h' r _ h1 h2 h3 => exact ⟨h1, h2, h3⟩
  | registered h' b k u _ _ _ => exact absurd rfl (hr _ _ _ _)
  | resumed h' s _ _ _ => exact absurd rfl (hr _ _ _ _)

/-! ## 4. The only way a connection becomes authenticated -/

/-- connection `c` has a session (`client.GetSession() != nil`) -/
def attached (h : Hub) (c : Nat) : Prop := ∃ s ∈ h.sessions, s.conn = some c

theorem sessionOf_attached {h : Hub} {c : Nat} {s : Sess} (hs : h.sessionOf c = some s) : attached h c := by
  unfold Hub.sessionOf at hs
  exact ⟨s, List.mem_of_find?_eq_some hs, by simpa using List.find?_some hs⟩

theorem attached_sessionOf {h : Hub} {c : Nat} (ha : attached h c) : (h.sessionOf c).isSome = true := by
  obtain ⟨s, hm, hc⟩ := ha
  unfold Hub.sessionOf
  rw [List.find?_isSome]
  exact ⟨s, hm, by simpa using hc⟩

theorem step_attached (cfg : Cfg) (env : Env) (now : Int) (h : Hub) (op : Op) (c : Nat)
    (ha : attached (step cfg env now h op).1 c) :
    attached h c ∨ ∃ m sid b k u, op = .hello c m ∧ (step cfg env now h op).2 = .hello sid b k u := by
  cases op with
  | connect c' a =>
    left
    simp only [step] at ha
    split at ha <;> exact ha
  | disconnect c' =>
    left
    simp only [step] at ha
    split at ha
    · exact ha
    · obtain ⟨s', hm, hc⟩ := ha
      simp only [List.mem_map] at hm
      obtain ⟨x, hx, rfl⟩ := hm
      by_cases hxc : x.conn = some c'
      · simp [hxc] at hc
      · simp only [hxc, if_false] at hc
        exact ⟨x, hx, hc⟩
  | msg c' ty shape =>
    left
    simp only [step] at ha
    split at ha
    · exact ha
    · split at ha
      · exact ha
      · split at ha
        · exact ha
        · exact ha
        · split at ha <;> exact ha
  | bye c' =>
    left
    simp only [step] at ha
    split at ha
    · exact ha
    · split at ha
      · exact ha
      · obtain ⟨s', hm, hc⟩ := ha
        exact ⟨s', (List.mem_filter.mp hm).1, hc⟩
  | hello c' m =>
    have he := step_hello_effect cfg env now h c' m
    generalize hstep : step cfg env now h (.hello c' m) = r at he ha
    cases he with
    | refused h' r _ h1 _ _ =>
      left
      obtain ⟨s', hm, hc⟩ := ha
      exact ⟨s', by simpa [h1] using hm, hc⟩
    | registered h' b k u h1 _ _ =>
      obtain ⟨s', hm, hc⟩ := ha
      simp only [h1, List.mem_append, List.mem_singleton] at hm
      rcases hm with hm | rfl
      · exact Or.inl ⟨s', hm, hc⟩
      · simp only [Option.some.injEq] at hc
        subst hc
        exact Or.inr ⟨m, _, _, _, _, rfl, rfl⟩
    | resumed h' s _ h1 _ =>
      obtain ⟨s', hm, hc⟩ := ha
      simp only [h1, List.mem_map] at hm
      obtain ⟨x, hx, rfl⟩ := hm
      by_cases hxs : x.sid = s.sid
      · simp only [hxs, if_true, Option.some.injEq] at hc
        subst hc
        exact Or.inr ⟨m, _, _, _, _, rfl, rfl⟩
      · simp only [hxs, if_false] at hc
        exact Or.inl ⟨x, hx, hc⟩

/-- somewhere in the history `ops` started in state `h`, connection `c` sent a hello that was
answered with a session -/
def HelloedIn (cfg : Cfg) (env : Env) (now : Int) (c : Nat) : Hub → List Op → Prop
  | _, [] => False
  | h, op :: ops =>
    (∃ m sid b k u, op = .hello c m ∧ (step cfg env now h op).2 = .hello sid b k u) ∨
    HelloedIn cfg env now c (step cfg env now h op).1 ops

/-- **The only way to become authenticated.** For every history: a connection that has a
session at the end had one at the start or has, at some point, sent a hello that was answered
with a session (whose credentials verified, by `C01_session_needs_credentials`). -/
theorem C01_authenticated_only_by_hello (cfg : Cfg) (env : Env) (now : Int) (c : Nat) :
    ∀ (ops : List Op) (h : Hub), attached (run cfg env now h ops).1 c →
      attached h c ∨ HelloedIn cfg env now c h ops := by
  intro ops
  induction ops with
  | nil => intro h ha; exact Or.inl ha
  | cons op ops ih =>
    intro h ha
    simp only [run] at ha
    rcases ih _ ha with h1 | h1
    · rcases step_attached cfg env now h op c h1 with h2 | h2
      · exact Or.inl h2
      · exact Or.inr (Or.inl h2)
    · exact Or.inr (Or.inr h1)

/-! ## 5. The first clause along whole histories -/

theorem step_hello_reply_is_hello_op (cfg : Cfg) (env : Env) (now : Int) (h : Hub) (op : Op)
    (sid : Nat) (bid k u : String) (hs : (step cfg env now h op).2 = .hello sid bid k u) :
    ∃ c m, op = .hello c m := by
  cases op with
  | hello c m => exact ⟨c, m, rfl⟩
  | connect c a => simp only [step] at hs; split at hs <;> simp at hs
  | disconnect c => simp only [step] at hs; split at hs <;> simp at hs
  | msg c ty shape =>
    simp only [step] at hs
    split at hs
    · simp at hs
    · split at hs
      · simp at hs
      · split at hs
        · simp at hs
        · simp at hs
        · split at hs <;> simp at hs
  | bye c =>
    simp only [step] at hs
    split at hs
    · simp at hs
    · split at hs <;> simp at hs

/-- every reply in the history that carries a session id answers a hello whose credentials
verify in the state the server was in at that moment -/
def TraceOK (cfg : Cfg) (env : Env) (now : Int) : Hub → List Op → Prop
  | _, [] => True
  | h, op :: ops =>
    (∀ sid bid k u, (step cfg env now h op).2 = .hello sid bid k u →
        ∃ c m, op = .hello c m ∧ ValidCreds cfg env now h.live m sid bid) ∧
    TraceOK cfg env now (step cfg env now h op).1 ops

theorem C01_session_needs_credentials_run (cfg : Cfg) (env : Env) (now : Int) :
    ∀ (ops : List Op) (h : Hub), (∀ c m, Op.hello c m ∈ ops → RoutedByPrefix cfg m.url) →
      TraceOK cfg env now h ops := by
  intro ops
  induction ops with
  | nil => intros; trivial
  | cons op ops ih =>
    intro h hr
    refine ⟨?_, ih _ (fun c m hm => hr c m (List.mem_cons_of_mem _ hm))⟩
    intro sid bid k u hs
    obtain ⟨c, m, rfl⟩ := step_hello_reply_is_hello_op cfg env now h op sid bid k u hs
    exact ⟨c, m, rfl, C01_session_needs_credentials cfg env now h c m sid bid k u (hr c m List.mem_cons_self) hs⟩


/-! ## 6. A backend URL that is not configured is always refused -/

/-- the URL that names the backend in a hello without resume id -/
def Hello.backendUrl (m : Hello) : Url := if effType m = HelloClientTypeInternal then m.burl else m.url

/-- If no entry of the configuration names the URL of the request, no session is given —
whatever the token, the ticket, the secret, the state. (No assumption on web servers.) -/
theorem C01_unconfigured_backend_refused (cfg : Cfg) (env : Env) (now : Int) (h : Hub) (c : Nat) (m : Hello)
    (hp : m.resume.present = false) (hu : ¬ Configured cfg m.backendUrl) :
    ∀ sid bid k u, (step cfg env now h (.hello c m)).2 ≠ .hello sid bid k u := by
  intro sid bid k u hs
  simp only [step] at hs
  split at hs
  · simp at hs
  · split at hs
    · simp at hs
    · rename_i hvalid
      split at hs
      · simp at hs
      · obtain ⟨_, hshape⟩ := checkValid_none hvalid
        obtain ⟨hcl, hin⟩ := hshape hp
        unfold processHello at hs
        simp only [hp, Bool.false_eq_true, if_false] at hs
        split at hs
        · rename_i hty
          have hni : effType m ≠ HelloClientTypeInternal := by
            intro hi
            rw [hi, fact_internal, fact_client, fact_federation] at hty
            exact absurd hty (by decide)
          have hnone : getBackend cfg m.url = none := by
            apply getBackend_none_of_not_configured (hcl hty)
            simpa [Hello.backendUrl, hni] using hu
          split at hs
          · simp [helloV1, hnone] at hs
          · split at hs
            · simp [helloV2, hnone] at hs
            · simp at hs
        · split at hs
          · rename_i hty
            have hnone : getBackend cfg m.burl = none := by
              apply getBackend_none_of_not_configured (hin hty)
              simpa [Hello.backendUrl, hty] using hu
            unfold helloInternal at hs
            simp only [hnone] at hs
            split at hs
            · simp at hs
            · split at hs
              · simp at hs
              · split at hs <;> simp at hs
          · simp at hs

/-! ## 7. What the algorithm restriction buys: `none`, HMAC and PSS are refused whatever verifies -/

/-- A token whose header names any algorithm outside RS*/ES*/EdDSA — in particular `none`, or
HS256/384/512 (where the "key" would be the published public key text, under which an
attacker can compute a valid MAC, so the oracle bit may well be true) — never parses. -/
theorem C01_alg_none_and_hmac_refused (env : Env) (srv : String) (now : Int) (t : Tok) (a : String)
    (ha : t.alg = some a) (hn : a ∉ stmtAlgs) : jwtParse env srv now t ≠ none := by
  intro h
  obtain ⟨⟨a', ha', hmem⟩, _⟩ := jwtParse_none h
  rw [ha] at ha'
  cases ha'
  exact hn hmem

example : "none" ∉ stmtAlgs ∧ "HS256" ∉ stmtAlgs ∧ "HS384" ∉ stmtAlgs ∧ "HS512" ∉ stmtAlgs ∧ "PS256" ∉ stmtAlgs := by decide

/-- …and within the allowed algorithms the family of the header must be the family of the key the
backend publishes (an RS256 header cannot be checked against an EC key and so on). -/
theorem C01_alg_family_matches_key (env : Env) (srv : String) (now : Int) (t : Tok)
    (h : jwtParse env srv now t = none) :
    ∃ a kf tn, t.alg = some a ∧ keyFamilyFor a = some kf ∧ env.tenant srv = some tn ∧ tn.key = some kf := by
  unfold jwtParse at h
  cases hw : t.wellFormed with
  | false => simp [hw] at h
  | true =>
  simp only [hw, Bool.not_true, Bool.false_eq_true, if_false] at h
  cases ha : t.alg with
  | none => simp [ha] at h
  | some a =>
  simp only [ha] at h
  split at h
  · simp at h
  · split at h
    · simp at h
    · split at h
      · simp at h
      · cases hk : keyFamilyFor a with
        | none => simp [hk] at h
        | some kf =>
          simp only [hk] at h
          split at h
          · simp at h
          · rename_i h4
            simp only [ne_eq, Decidable.not_not] at h4
            cases ht : env.tenant srv with
            | none => simp [ht] at h4
            | some tn =>
              simp [ht] at h4
              exact ⟨a, kf, tn, rfl, hk, rfl, h4⟩

example : keyFamilyFor "RS256" = some .rsa ∧ keyFamilyFor "ES384" = some .ecdsa ∧ keyFamilyFor "EdDSA" = some .ed25519 ∧
    keyFamilyFor "HS256" = none ∧ keyFamilyFor "none" = none ∧ keyFamilyFor "PS256" = none := by decide

/-! ## 8. Why URLs with dot segments have to be refused (the defect repaired in /repo ea6ca17)

With the lookup as it was (prefix match on the unnormalised URL, `rejectDots = false`), a URL
under the configured prefix `/one/` whose dot segments lead to another instance of the host is
attributed to backend `b1` although the server that answers — and whose key verifies the
token — is `one2`, which is not configured at all. -/

def exCfg : Cfg :=
  { hosts := [("cloud.example", [{ id := "b1", url := "https://cloud.example/one/", allowHttp := false, limit := 0, owner := "b1" }])],
    secretSet := true }

def exDotUrl : Url :=
  { raw := "https://cloud.example/one/../one2/", ok := true, scheme := "https", host := "cloud.example",
    hostname := "cloud.example", port := "", strHost := "https://cloud.example/one/../one2/",
    strHostname := "https://cloud.example/one/../one2/", dotSeg := true, srv := "one2" }

theorem C01_dot_segments_needed :
    (∃ b, getBackendWith false exCfg exDotUrl = some b ∧ b.id = "b1" ∧ srvOk b exDotUrl.srv = false) ∧
    getBackendWith true exCfg exDotUrl = none ∧
    getBackend exCfg exDotUrl = none := by
  decide +kernel

/-! ## 9. Converse: the model does not reject everything

Credentials that verify, on an open connection without session, below the session limit, are
answered with a session — so the theorems above are not true by rejection. -/

/-- room for one more session on the backend (`Backend.AddSession`) -/
def HasRoom (h : Hub) (b : Backend) : Prop := b.limit = 0 ∨ h.count b.id < b.limit

theorem register_ok (h : Hub) (c : Nat) (b : Backend) (kind user : String)
    (hroom : kind = HelloClientTypeInternal ∨ HasRoom h b) :
    (register h c b kind user).2 = .hello h.nextSid b.id kind user := by
  unfold register
  split
  · rename_i hc
    obtain ⟨h1, h2, h3⟩ := hc
    rcases hroom with hk | hr | hr
    · exact absurd hk h1
    · omega
    · omega
  · rfl

theorem C01_valid_v2_accepted (cfg : Cfg) (env : Env) (now : Int) (h : Hub) (c : Nat) (m : Hello) (b : Backend)
    (a : String) (kf : KeyFam) (tn : Tenant) (i e : Int)
    (ho : h.isOpen c = true) (hs : h.sessionOf c = none)
    (hv : checkValid m = none) (hp : m.resume.present = false)
    (hty : effType m = HelloClientTypeClient) (hver : m.version = HelloVersionV2)
    (hb : getBackend cfg m.url = some b)
    (hwf : m.tok.wellFormed = true) (halg : m.tok.alg = some a) (hallowed : a ∈ stmtAlgs)
    (hsig : m.tok.sigDecodes = true) (hfam : keyFamilyFor a = some kf)
    (hten : env.tenant m.url.srv = some tn) (hkey : tn.key = some kf) (hvf : m.tok.verifies m.url.srv = true)
    (hiat : m.tok.iat = some i) (hexp : m.tok.exp = some e)
    (h1 : i ≤ now + stmtLeeway) (h2 : now < e + stmtLeeway) (h3 : i ≤ e)
    (hnbf : ∀ n, m.tok.nbf = some n → n ≤ now + stmtLeeway)
    (hroom : HasRoom h b) :
    (step cfg env now h (.hello c m)).2 = .hello h.nextSid b.id HelloClientTypeClient m.tok.sub := by
  have hvm : validMethods.contains a = true := by
    have : validMethods = stmtAlgs := by decide
    rw [this]; simpa using hallowed
  have hmt : (jwtMethodType a).isNone = false := by
    unfold keyFamilyFor at hfam
    cases hm : jwtMethodType a with
    | none => simp [hm] at hfam
    | some _ => rfl
  have hval : jwtValidate now m.tok = [] := by
    unfold jwtValidate
    rw [fact_libLeeway, fact_withIat, hiat, hexp]
    have e1 : ¬ (now < i - stmtLeeway) := by omega
    cases hn : m.tok.nbf with
    | none => simp [Option.any, h2, e1]
    | some n =>
      have := hnbf n hn
      have e2 : ¬ (now < n - stmtLeeway) := by omega
      simp [Option.any, h2, e1, e2]
  have hparse : jwtParse env m.url.srv now m.tok = none := by
    unfold jwtParse
    have hvm' : a ∈ validMethods := by simpa using hvm
    simp [hwf, halg, hmt, hvm', hsig, hfam, hten, hkey, hvf, hval]
  have htime : hubTimeCheck now m.tok = none := by
    unfold hubTimeCheck
    rw [fact_leeway, hiat, hexp]
    have e1 : ¬ (e < i) := by omega
    have e2 : ¬ (e < now - stmtLeeway) := by omega
    simp [e1, e2]
  have hnf : ¬ (HelloClientTypeClient = HelloClientTypeFederation) := by decide
  have h21 : ¬ (HelloVersionV2 = HelloVersionV1) := by decide
  simp only [step, ho, hv, hs, processHello, hp, hty, hver, helloV2, hb, hparse, htime]
  simp only [hnf, h21, Bool.not_true, Bool.false_eq_true, if_false, true_or, if_true, false_and]
  exact register_ok h c b HelloClientTypeClient m.tok.sub (Or.inr hroom)

theorem C01_valid_internal_accepted (cfg : Cfg) (env : Env) (now : Int) (h : Hub) (c : Nat) (m : Hello) (b : Backend)
    (ho : h.isOpen c = true) (hs : h.sessionOf c = none)
    (hv : checkValid m = none) (hp : m.resume.present = false)
    (hty : effType m = HelloClientTypeInternal)
    (hsec : cfg.secretSet = true) (hnb : (Throttle.check h.thr now (h.tkey c) "HelloInternal").2 = false)
    (hrnd : stmtMinRandom ≤ m.rnd.utf8ByteSize) (htok : m.tokenOk = true)
    (hb : getBackend cfg m.burl = some b) :
    (step cfg env now h (.hello c m)).2 = .hello h.nextSid b.id HelloClientTypeInternal "" := by
  have hni : ¬ (HelloClientTypeInternal = HelloClientTypeClient ∨ HelloClientTypeInternal = HelloClientTypeFederation) := by decide
  have hr : ¬ (m.rnd.utf8ByteSize < minTokenRandomLength) := by rw [fact_minRandom]; omega
  simp only [step, ho, hv, hs, processHello, hp, hty, helloInternal, hsec, hnb, htok, hb]
  simp [hni, hr]
  exact register_ok _ c b HelloClientTypeInternal "" (Or.inl rfl)

theorem C01_valid_resume_accepted (cfg : Cfg) (env : Env) (now : Int) (h : Hub) (c : Nat) (m : Hello) (s : Sess)
    (ho : h.isOpen c = true) (hs : h.sessionOf c = none)
    (hv : checkValid m = none) (hp : m.resume.present = true)
    (hnb : (Throttle.check h.thr now (h.tkey c) "HelloResume").2 = false)
    (hdec : m.resume.decodes = true) (hex : m.resume.exact = some s.sid)
    (hfind : h.sessions.find? (fun x => x.sid = s.sid) = some s) :
    (step cfg env now h (.hello c m)).2 = .hello s.sid s.backend s.kind s.user := by
  simp only [step, ho, hv, hs, processHello, hp, helloResume, hnb, hdec, hex, Option.bind_some, hfind]
  simp

/-! ## 9b. A resume racing with the end of the session: what the check expects at rest -/

theorem filter_map_conn (ss : List Sess) (sid c : Nat) :
    (ss.map (fun x => if x.sid = sid then { x with conn := some c } else x)).filter (fun x => x.sid ≠ sid)
      = ss.filter (fun x => x.sid ≠ sid) := by
  induction ss with
  | nil => rfl
  | cons a t ih =>
    simp only [List.map_cons, List.filter_cons]
    by_cases ha : a.sid = sid
    · simp only [ha, if_true]; simpa using ih
    · simp only [ha, if_false]; simp only [ne_eq, ha, not_false_eq_true, decide_true, if_true]; rw [ih]

/-- The tables the driver predicts after a `rrace` step (`raceRest`) are those of both sequential orders. -/
theorem C01_race_rest_both_orders (cfg : Cfg) (env : Env) (now : Int) (h : Hub) (c : Nat) (m : Hello) (s : Sess)
    (ho : h.isOpen c = true) (hs : h.sessionOf c = none) (hv : checkValid m = none) (hp : m.resume.present = true)
    (hnb : (Throttle.check h.thr now (h.tkey c) "HelloResume").2 = false)
    (hdec : m.resume.decodes = true) (hex : m.resume.exact = some s.sid)
    (hfind : h.sessions.find? (fun x => x.sid = s.sid) = some s) (hdet : s.conn = none) :
    -- the session ends first: the hello is refused
    step cfg env now (endSession h s.sid) (.hello c m) = (raceRest now h c s.sid none, .error (errCode "NoSuchSession")) ∧
    -- the hello comes first: it is answered with the session, which then ends
    (step cfg env now h (.hello c m)).2 = .hello s.sid s.backend s.kind s.user ∧
    endSession (step cfg env now h (.hello c m)).1 s.sid = raceRest now h c s.sid none := by
  have hfind' : (endSession h s.sid).sessions.find? (fun x => x.sid = s.sid) = none := by
    simp [endSession, List.find?_eq_none]
  have ho' : (endSession h s.sid).isOpen c = true := ho
  have hs' : (endSession h s.sid).sessionOf c = none := by
    unfold Hub.sessionOf at hs ⊢
    simp only [endSession, List.find?_eq_none] at hs ⊢
    intro x hx; exact hs x (List.mem_filter.mp hx).1
  refine ⟨?_, ?_, ?_⟩
  · simp only [step, ho', hv, hs', processHello, hp, helloResume]
    have hk : (endSession h s.sid).tkey c = h.tkey c := rfl
    have ht : (endSession h s.sid).thr = h.thr := rfl
    simp only [hk, ht, hnb, hdec, hex, Option.bind_some, hfind']
    simp [raceRest, endSession]
  · simp only [step, ho, hv, hs, processHello, hp, helloResume, hnb, hdec, hex, Option.bind_some, hfind]
    simp
  · simp only [step, ho, hv, hs, processHello, hp, helloResume, hnb, hdec, hex, Option.bind_some, hfind]
    simp only [raceRest, endSession, hdet]
    have := filter_map_conn h.sessions s.sid c
    simp only [ne_eq, decide_not] at this ⊢
    simp [this]

/-- Non-vacuity of `C01_race_rest_both_orders`: a detached session 7, a fresh connection 1. -/
example : let h : Hub := { sessions := [{ sid := 7, backend := "b1", kind := "client", user := "bob", conn := none }],
                           conns := [(1, .raw "198.51.100.7")] }
    (raceRest 0 h 1 7 none).sessions = [] ∧ (raceRest 0 h 1 7 none).isOpen 1 = true ∧
    ((raceRest 0 h 1 7 none).sessionOf 1).isNone = true := by decide +kernel

/-! ## 10. The judge evaluates the spec

`validCredsB` (what the driver computes on the implementation's replies) is `ValidCreds`. -/

theorem namesB_iff (cfg : Cfg) (u : Url) (b : Backend) : namesB cfg u b = true ↔ Names cfg u b := by
  unfold namesB Names
  simp only [Bool.and_eq_true, Bool.or_eq_true, List.any_eq_true, decide_eq_true_eq, List.contains_iff_mem]
  constructor
  · rintro ⟨hok, h⟩
    refine ⟨hok, ?_⟩
    rcases h with ⟨he, hmem, ⟨⟨⟨hh, hb⟩, ha⟩, hp⟩⟩ | h
    · left
      obtain ⟨host, entries⟩ := he
      simp only at hh hb ha hp
      subst hh
      exact ⟨entries, hmem, hb, ha, hp⟩
    · exact Or.inr h
  · rintro ⟨hok, h⟩
    refine ⟨hok, ?_⟩
    rcases h with ⟨entries, hmem, hb, ha, hp⟩ | h
    · left
      exact ⟨(u.norm.1, entries), hmem, ⟨⟨⟨rfl, hb⟩, ha⟩, hp⟩⟩
    · exact Or.inr h

theorem names_mem_all {cfg : Cfg} {u : Url} {b : Backend} (h : Names cfg u b) : b ∈ allBackends cfg := by
  unfold allBackends
  rcases h.2 with ⟨entries, hmem, hb, _, _⟩ | h
  · apply List.mem_append_left
    exact List.mem_flatMap.mpr ⟨_, hmem, hb⟩
  · apply List.mem_append_right
    simp [h]

theorem anyNames_iff (cfg : Cfg) (u : Url) (p : Backend → Bool) :
    (allBackends cfg).any (fun b => namesB cfg u b && p b) = true ↔ ∃ b, Names cfg u b ∧ p b = true := by
  simp only [List.any_eq_true, Bool.and_eq_true]
  constructor
  · rintro ⟨b, _, hn, hp⟩
    exact ⟨b, (namesB_iff cfg u b).mp hn, hp⟩
  · rintro ⟨b, hn, hp⟩
    exact ⟨b, names_mem_all hn, (namesB_iff cfg u b).mpr hn, hp⟩

theorem timeValidB_iff (now : Int) (t : Tok) : timeValidB now t = true ↔ TimeValid now t := by
  unfold timeValidB TimeValid
  cases hi : t.iat <;> cases he : t.exp <;> cases hn : t.nbf <;> simp [and_assoc]

theorem validV1B_iff (cfg : Cfg) (m : Hello) (bid : String) : validV1B cfg m bid = true ↔ ValidV1 cfg m bid := by
  unfold validV1B ValidV1
  have := anyNames_iff cfg m.url (fun b => decide (b.id = bid) && srvOk b m.url.srv)
  simp only [Bool.and_assoc] at this ⊢
  rw [Bool.and_eq_true, this]
  constructor
  · rintro ⟨⟨b, hn, hp⟩, ha⟩
    simp only [Bool.and_eq_true, decide_eq_true_eq] at hp
    refine ⟨b, hn, hp.1, hp.2, ?_⟩
    cases hv : m.v1ans with
    | auth u => exact ⟨u, rfl⟩
    | error c => simp [hv] at ha
    | other => simp [hv] at ha
    | fail => simp [hv] at ha
  · rintro ⟨b, hn, hid, hs, u, hu⟩
    exact ⟨⟨b, hn, by simp [hid, hs]⟩, by simp [hu]⟩

theorem validV2B_iff (cfg : Cfg) (env : Env) (now : Int) (m : Hello) (bid : String) :
    validV2B cfg env now m bid = true ↔ ValidV2 cfg env now m bid := by
  unfold validV2B ValidV2
  have := anyNames_iff cfg m.url (fun b => decide (b.id = bid) && srvOk b m.url.srv)
  simp only [Bool.and_assoc] at this ⊢
  simp only [Bool.and_eq_true, this, timeValidB_iff]
  constructor
  · rintro ⟨⟨b, hn, hp⟩, ha, hk, hv, ht⟩
    simp only [Bool.and_eq_true, decide_eq_true_eq] at hp
    refine ⟨b, hn, hp.1, hp.2, ?_, ?_, hv, ht⟩
    · cases hal : m.tok.alg with
      | none => simp [hal] at ha
      | some a => exact ⟨a, rfl, by simpa [hal] using ha⟩
    · cases hte : env.tenant m.url.srv with
      | none => simp [hte] at hk
      | some t => exact ⟨t, rfl, by simpa [hte] using hk⟩
  · rintro ⟨b, hn, hid, hs, ⟨a, hal, hmem⟩, ⟨t, hte, hk⟩, hv, ht⟩
    exact ⟨⟨b, hn, by simp [hid, hs]⟩, by simp [hal, hmem], by simp [hte, hk], hv, ht⟩

theorem validInternalB_iff (cfg : Cfg) (m : Hello) (bid : String) :
    validInternalB cfg m bid = true ↔ ValidInternal cfg m bid := by
  unfold validInternalB ValidInternal
  have := anyNames_iff cfg m.burl (fun b => decide (b.id = bid))
  simp only [Bool.and_eq_true, this, decide_eq_true_eq]
  constructor
  · rintro ⟨⟨⟨h1, h2⟩, h3⟩, b, hn, hid⟩
    exact ⟨h1, h2, h3, b, hn, hid⟩
  · rintro ⟨h1, h2, h3, b, hn, hid⟩
    exact ⟨⟨⟨h1, h2⟩, h3⟩, b, hn, hid⟩

theorem validResumeB_iff (live : List (Nat × String)) (m : Hello) (sid : Nat) (bid : String) :
    validResumeB live m sid bid = true ↔ ValidResume live m sid bid := by
  unfold validResumeB ValidResume
  simp

theorem clientishB_iff (m : Hello) : clientishB m = true ↔ clientish m := by
  unfold clientishB clientish
  simp [or_assoc]

/-- **The judge is the spec.** -/
theorem judge_sound (cfg : Cfg) (env : Env) (now : Int) (live : List (Nat × String)) (m : Hello) (sid : Nat) (bid : String) :
    validCredsB cfg env now live m sid bid = true ↔ ValidCreds cfg env now live m sid bid := by
  unfold validCredsB ValidCreds
  simp only [Bool.or_eq_true, Bool.and_eq_true, Bool.not_eq_true', decide_eq_true_eq, validV1B_iff, validV2B_iff,
    validInternalB_iff, validResumeB_iff, clientishB_iff, and_assoc, or_assoc]

/-! ## 11. Non-vacuity: concrete instances -/

def exEnv : Env := { tenants := [{ name := "b1", key := some .rsa, fed := false }, { name := "one2", key := some .ecdsa, fed := true }] }
def exHub : Hub := { conns := [(1, .raw "198.51.100.7")] }
def exUrl : Url :=
  { raw := "https://cloud.example/one/", ok := true, scheme := "https", host := "cloud.example", hostname := "cloud.example",
    port := "", strHost := "https://cloud.example/one/", strHostname := "https://cloud.example/one/", dotSeg := false, srv := "b1" }
def exTok : Tok :=
  { alg := some "RS256", iat := some (-5000000000), exp := some 300000000000, sub := "alice", verifies := fun n => n == "b1" }
def exHello : Hello :=
  { version := "2.0", hasAuth := true, hasParams := true, authType := "client", url := exUrl, paramsOk := true, tok := exTok }

/-- a hello that is accepted: the hypotheses of `C01_session_needs_credentials` (and of
`C01_valid_v2_accepted`) are met by a concrete, ordinary case -/
example : (step exCfg exEnv 0 exHub (.hello 1 exHello)).2 = .hello 1 "b1" "client" "alice" := by decide +kernel

example : RoutedByPrefix exCfg exUrl := by
  intro _ b hn
  rcases hn.2 with ⟨entries, hmem, hb, _, _⟩ | h
  · simp only [exCfg, List.mem_singleton, Prod.mk.injEq] at hmem
    rw [hmem.2] at hb
    simp only [List.mem_singleton] at hb
    subst hb
    decide
  · simp [exCfg] at h

/-- the same token with `alg: none`, or re-signed as HS256 with the published key text (so that
"it verifies" under every tenant), or on the leeway boundary, or through a dot-segment URL -/
example : (step exCfg exEnv 0 exHub (.hello 1 { exHello with tok := { exTok with alg := some "none", verifies := fun _ => true } })).2
    = .error "invalid_token" := by decide +kernel
example : (step exCfg exEnv 0 exHub (.hello 1 { exHello with tok := { exTok with alg := some "HS256", verifies := fun _ => true } })).2
    = .error "invalid_token" := by decide +kernel
example : (step exCfg exEnv 0 exHub (.hello 1 { exHello with tok := { exTok with alg := some "ES256" } })).2
    = .error "invalid_token" := by decide +kernel
example : (step exCfg exEnv 0 exHub (.hello 1 { exHello with tok := { exTok with exp := some (-60000000000) } })).2
    = .error "token_expired" := by decide +kernel
example : (step exCfg exEnv 0 exHub (.hello 1 { exHello with tok := { exTok with iat := some (-70000000000), exp := some (-59000000000) } })).2
    = .hello 1 "b1" "client" "alice" := by decide +kernel
example : (step exCfg exEnv 0 exHub (.hello 1 { exHello with tok := { exTok with iat := some 60000000000 } })).2
    = .hello 1 "b1" "client" "alice" := by decide +kernel
example : (step exCfg exEnv 0 exHub (.hello 1 { exHello with tok := { exTok with iat := some 61000000000 } })).2
    = .error "token_not_valid_yet" := by decide +kernel
example : (step exCfg exEnv 0 exHub (.hello 1 { exHello with tok := { exTok with iat := none } })).2
    = .error "token_not_valid_yet" := by decide +kernel
example : (step exCfg exEnv 0 exHub (.hello 1 { exHello with url := exDotUrl, tok := { exTok with alg := some "ES256", verifies := fun n => n == "one2" } })).2
    = .error "invalid_backend" := by decide +kernel

/-- frames before hello: the hypotheses of `C01_nothing_before_hello_seq` hold for a sequence of
all kinds of frames on the open, session-less connection 1 -/
example : ∀ op ∈ [Op.msg 1 "room" .valid, .msg 1 "" .invalid, .bye 1, .msg 1 "hello" .invalid, .msg 1 "?" .undecodable,
    .msg 1 "internal" .valid], PreHello exHub op := by
  intro op hop
  simp only [List.mem_cons, List.mem_nil_iff, or_false] at hop
  rcases hop with rfl | rfl | rfl | rfl | rfl | rfl <;> (simp only [PreHello]; decide)

/-- an unconfigured URL: same host, other prefix -/
def exOtherPrefixUrl : Url :=
  { exUrl with
    raw := "https://cloud.example/one2/", strHost := "https://cloud.example/one2/",
    strHostname := "https://cloud.example/one2/", srv := "one2" }

example : ¬ Configured exCfg exOtherPrefixUrl := by
  rintro ⟨b, hn⟩
  have := (namesB_iff _ _ _).mpr hn
  have hb := names_mem_all hn
  simp only [allBackends, exCfg, List.flatMap_cons, List.flatMap_nil, Option.toList, List.append_nil, List.mem_singleton] at hb
  subst hb
  revert this
  decide +kernel

/-- an internal hello and a resume that are accepted -/
def exInternal (rnd : String) : Hello :=
  { version := "1.0", hasAuth := true, hasParams := true, authType := "internal", paramsOk := true, rnd := rnd, tokenOk := true, burl := exUrl }

example : (step exCfg exEnv 0 exHub (.hello 1 (exInternal "0123456789abcdef0123456789abcdef"))).2 = .hello 1 "b1" "internal" "" := by
  decide +kernel
example : (step exCfg exEnv 0 { exHub with sessions := [{ sid := 7, backend := "b1", kind := "client", user := "bob", conn := none }] }
    (.hello 1 { version := "2.0", resume := { present := true, exact := some 7, decodes := true } })).2
    = .hello 7 "b1" "client" "bob" := by decide +kernel
/-- …31 bytes of random, or no secret configured: refused -/
example : (step exCfg exEnv 0 exHub (.hello 1 (exInternal "0123456789abcdef0123456789abcde"))).2 = .error "invalid_token" := by
  decide +kernel
example : (step { exCfg with secretSet := false } exEnv 0 exHub (.hello 1 (exInternal "0123456789abcdef0123456789abcdef"))).2
    = .error "invalid_client_type" := by decide +kernel

end SigModel.Auth
