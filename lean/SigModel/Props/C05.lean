/-
C05 — Messages reach exactly the addressed sessions, once, with the true sender.

`C05_routing`: in every reachable state of the hub model (every op sequence),
for every message or control message a connected session sends — any of the four
recipient types, any payload, any target id — what is written to connections
is, as a multiset, exactly one copy for every addressed session that has a
connection (`Spec/Hub.lean: addressed`, written from the statement), carrying
the sender block built from the *server's* record of the sender.  Addressed
sessions without a connection get the message queued instead (C06).
-/
import SigModel.Lemmas.HubRoute

namespace SigModel.Hub

/-- The sender block the server builds: recipient type, authenticated session id, authenticated user id. -/
def senderOf (h : Hub) (s : Nat) (x : Sess) (rc : Rcpt) : Sender := { rtype := rc.rtype, sid := s, user := userOf h s x }

/-- What an addressed session `t` gets written: on its own connection, or — a virtual session — on its
internal client's connection with the recipient rewritten to the client's own id for it. -/
def expectedOut (h : Hub) (s : Nat) (x : Sess) (ctl : Bool) (rc : Rcpt) (data : String) (t : Nat) : Option Out :=
  match h.sess t with
  | none => none
  | some y =>
    if y.kind = .virtual then
      match h.sess y.parent with
      | some p => (match p.conn with
        | some c => some ⟨c, .message ctl (senderOf h s x rc) (some y.vkey) data, some p.backend⟩
        | none => none)
      | none => none
    else
      match y.conn with
      | some c => some ⟨c, .message ctl (senderOf h s x rc) none data, some y.backend⟩
      | none => none

theorem mem_liveSids {h : Hub} (hi : Inv h) (t : Nat) : t ∈ liveSids h ↔ (h.sess t).isSome = true := by
  unfold liveSids sids
  simp only [List.mem_filter, List.mem_range]
  constructor
  · exact fun h => h.2
  · intro hs
    refine ⟨?_, hs⟩
    apply Decidable.byContradiction
    intro hlt
    have := hi.fresh t (by omega)
    rw [this] at hs; cases hs

theorem liveSids_nodup (h : Hub) : (liveSids h).Nodup := by
  unfold liveSids sids
  exact List.Nodup.sublist List.filter_sublist List.nodup_range

/-- Listener-set publication = addressed set, for a duplicate-free listener list `L` whose receiver
filter coincides with membership in the addressed list `A`. -/
theorem publish_eq_addressed {h : Hub} (m : Msg) (L A : List Nat) (g : Nat → Option Out)
    (hL : L.Nodup) (hA : A.Nodup) (hsub : ∀ t, t ∈ A → t ∈ L)
    (hin : ∀ t, t ∈ L → t ∈ A → deliveredTo h t m = g t)
    (hout : ∀ t, t ∈ L → t ∉ A → deliveredTo h t m = none) :
    (L.filterMap (fun t => deliveredTo h t m)).Perm (A.filterMap g) := by
  have e1 : ∀ (L' : List Nat), (∀ t, t ∈ L' → t ∈ L) →
      L'.filterMap (fun t => deliveredTo h t m) = (L'.filter (fun t => decide (t ∈ A))).filterMap g := by
    intro L'
    induction L' with
    | nil => intro _; rfl
    | cons t L' ih =>
      intro hsubL
      have ih' := ih (fun t' ht' => hsubL t' (List.mem_cons_of_mem _ ht'))
      have htL := hsubL t List.mem_cons_self
      by_cases hta : t ∈ A
      · simp only [List.filterMap_cons, List.filter_cons, hta, decide_true, if_true, hin t htL hta, ih']
      · simp only [List.filterMap_cons, List.filter_cons, hta, decide_false, hout t htL hta, ih']
        simp
  rw [e1 L (fun t ht => ht)]
  apply List.Perm.filterMap
  apply (List.perm_ext_iff_of_nodup (List.Nodup.sublist List.filter_sublist hL) hA).mpr
  intro t
  simp only [List.mem_filter, decide_eq_true_eq]
  exact ⟨fun h => h.2, fun h => ⟨hsub t h, h⟩⟩

/-- Publication of a message on a listener list whose receiver-side filter accepts exactly the
addressed sessions. -/
theorem route_listeners {h : Hub} (s : Nat) (x : Sess) (ctl : Bool) (rc : Rcpt) (data : String) (L A : List Nat)
    (hL : L.Nodup) (hnv : ∀ t, t ∈ L → ∃ y, h.sess t = some y ∧ y.kind ≠ .virtual) (hA : A.Nodup)
    (hsub : ∀ t, t ∈ A → t ∈ L)
    (hpass : ∀ t y, t ∈ L → h.sess t = some y →
      (passesAsyncFilter h t y (.message ctl (senderOf h s x rc) none data) = true ↔ t ∈ A)) :
    ((L.foldl (fun a l => procClient a l (.msg (.message ctl (senderOf h s x rc) none data))) { h := h }).outs).Perm
      (A.filterMap (expectedOut h s x ctl rc data)) := by
  rw [foldl_procClient_message _ rfl L { h := h } hL (fun l hl y hy => by
    obtain ⟨y', hy', hk'⟩ := hnv l hl; rw [hy] at hy'; cases hy'; exact hk')]
  simp only [List.nil_append]
  apply publish_eq_addressed _ L A _ hL hA hsub
  · intro t htL htA
    obtain ⟨y, hy, hkv⟩ := hnv t htL
    unfold deliveredTo expectedOut
    simp only [hy, (hpass t y htL hy).mpr htA, if_true, hkv, if_false]
    cases y.conn <;> rfl
  · intro t htL htA
    obtain ⟨y, hy, hkv⟩ := hnv t htL
    unfold deliveredTo
    have : passesAsyncFilter h t y (.message ctl (senderOf h s x rc) none data) = false := by
      cases hp : passesAsyncFilter h t y (.message ctl (senderOf h s x rc) none data)
      · rfl
      · exact absurd ((hpass t y htL hy).mp hp) htA
    simp only [hy, this, Bool.false_eq_true, if_false]

/-- **Routing refines the spec.** -/
theorem C05_routing (ops : List Op) (s : Nat) (x : Sess) (ctl : Bool) (rc : Rcpt) (data : String)
    (hx : (run {} ops).1.sess s = some x) (hk : x.kind ≠ .virtual)
    (hallowed : ctl = false ∨ mayControl x = true) :
    ((processMessage { h := (run {} ops).1 } s ctl rc data).outs).Perm
      ((addressed (run {} ops).1 s rc).filterMap (expectedOut (run {} ops).1 s x ctl rc data)) := by
  have hi := reachable_inv ops
  generalize (run {} ops).1 = h at hi hx
  obtain ⟨fm, fc, _⟩ : Generated.Hub.messageBackendChecked = true ∧ Generated.Hub.controlBackendChecked = true ∧ True := by decide
  have hctl : (ctl && !mayControl x) = false := by
    rcases hallowed with h1 | h1 <;> simp [h1]
  unfold processMessage addressed
  simp only [hx, hk, if_false, hctl, Bool.false_eq_true]
  cases rc with
  | session ot =>
    cases ot with
    | none => simp
    | some t =>
      simp only []
      cases hy : h.sess t with
      | none => simp
      | some y =>
        simp only []
        have hguard : (if ctl then Generated.Hub.controlBackendChecked else Generated.Hub.messageBackendChecked) = true := by
          cases ctl <;> simp [fm, fc]
        simp only [hguard, Bool.true_and]
        by_cases hb : y.backend ≠ x.backend
        · simp [hb]
        · have hb' : y.backend = x.backend := by simpa using hb
          by_cases hts : t = s
          · simp [hb', hts]
          · simp only [hb', ne_eq, not_true_eq_false, decide_false, Bool.false_eq_true, if_false, hts, Bool.or_self,
              List.filterMap_cons, List.filterMap_nil]
            unfold expectedOut
            simp only [hy]
            by_cases hv : y.kind = .virtual
            · simp only [hv, if_true]
              obtain ⟨_, _, _, hpar⟩ := hi.virt t y hy hv
              rcases hpar with hpar | ⟨p, hp, hpk, hpb, _⟩
              · cases hpar
              · have hpk' : p.kind ≠ .virtual := by rw [hpk]; decide
                obtain ⟨o1, _, _⟩ := sendTo_message { h := h } y.parent (.message ctl (senderOf h s x (.session (some t))) (some y.vkey) data) rfl hp hpk'
                rw [show (Sender.mk (Rcpt.session (some t)).rtype s (userOf h s x)) = senderOf h s x (.session (some t)) from rfl]
                rw [o1, hp]
                cases hpc : p.conn <;> simp [hpc]
            · simp only [hv, if_false]
              obtain ⟨o1, _, _⟩ := sendTo_message { h := h } t (.message ctl (senderOf h s x (.session (some t))) none data) rfl hy hv
              rw [show (Sender.mk (Rcpt.session (some t)).rtype s (userOf h s x)) = senderOf h s x (.session (some t)) from rfl]
              rw [o1]
              cases y.conn <;> simp
  | user u =>
    simp only []
    by_cases hu : u = ""
    · simp [hu]
    · by_cases hself : u = userOf h s x
      · simp [hu, hself]
      · simp only [hu, hself, if_false, Bool.or_self, Bool.false_eq_true, decide_false]
        unfold pubUser
        rw [show (Sender.mk (Rcpt.user u).rtype s (userOf h s x)) = senderOf h s x (.user u) from rfl]
        apply route_listeners s x ctl (.user u) data _ _ (hi.userL_nodup _ _)
        · intro t ht; obtain ⟨y, hy, _, _, _, hkv⟩ := (hi.userL_iff _ _ t).mp ht; exact ⟨y, hy, hkv⟩
        · exact List.Nodup.sublist List.filter_sublist (liveSids_nodup h)
        · intro t ht
          simp only [List.mem_filter] at ht
          obtain ⟨hlive, hcond⟩ := ht
          cases hy : h.sess t with
          | none => simp [hy] at hcond
          | some y =>
            simp only [hy, Bool.and_eq_true, decide_eq_true_eq] at hcond
            exact (hi.userL_iff _ _ t).mpr ⟨y, hy, hcond.1.1.2, hcond.2, hu, by simpa using hcond.1.2⟩
        · intro t y htL hy
          obtain ⟨y', hy', hb, hyu, _, hkv⟩ := (hi.userL_iff _ _ t).mp htL
          rw [hy] at hy'; cases hy'
          simp only [passesAsyncFilter, senderOf, Rcpt.rtype, reduceCtorEq, if_false, List.mem_filter, mem_liveSids hi, hy,
            Option.isSome_some, true_and, Bool.and_eq_true, decide_eq_true_eq]
          constructor
          · intro hp
            have hne : ¬ s = t := by
              intro e; simp [e] at hp
            exact ⟨⟨⟨fun e => hne e.symm, hb⟩, by simpa using hkv⟩, hyu⟩
          · rintro ⟨⟨⟨hne, _⟩, _⟩, _⟩
            have : ¬ s = t := fun e => hne e.symm
            simp [this]
  | room =>
    simp only []
    cases hr : x.room with
    | none => simp
    | some r =>
      simp only []
      unfold pubRoom
      rw [show (Sender.mk Rcpt.room.rtype s (userOf h s x)) = senderOf h s x .room from rfl]
      apply route_listeners s x ctl .room data _ _ (hi.roomL_nodup _ _)
      · intro t ht; obtain ⟨y, hy, _, _, hkv⟩ := (hi.roomL_iff _ _ t).mp ht; exact ⟨y, hy, hkv⟩
      · exact List.Nodup.sublist List.filter_sublist (liveSids_nodup h)
      · intro t ht
        simp only [List.mem_filter] at ht
        obtain ⟨hlive, hcond⟩ := ht
        cases hy : h.sess t with
        | none => simp [hy, inRoom] at hcond
        | some y =>
          simp only [hy, inRoom, Bool.and_eq_true, decide_eq_true_eq] at hcond
          exact (hi.roomL_iff _ _ t).mpr ⟨y, hy, hcond.1.2.1, hcond.1.2.2, by simpa using hcond.2⟩
      · intro t y htL hy
        obtain ⟨y', hy', hb, hyr, hkv⟩ := (hi.roomL_iff _ _ t).mp htL
        rw [hy] at hy'; cases hy'
        simp only [passesAsyncFilter, senderOf, Rcpt.rtype, reduceCtorEq, if_false, List.mem_filter, mem_liveSids hi, hy,
          Option.isSome_some, true_and, inRoom, Bool.and_eq_true, decide_eq_true_eq]
        constructor
        · intro hp
          have hne : ¬ s = t := by
            intro e; simp [e] at hp
          exact ⟨⟨fun e => hne e.symm, hb, hyr⟩, by simpa using hkv⟩
        · rintro ⟨⟨hne, _⟩, _⟩
          have : ¬ s = t := fun e => hne e.symm
          simp [this]
  | call =>
    simp only []
    cases hr : x.room with
    | none => simp
    | some r =>
      simp only []
      unfold pubRoom
      rw [show (Sender.mk Rcpt.call.rtype s (userOf h s x)) = senderOf h s x .call from rfl]
      apply route_listeners s x ctl .call data _ _ (hi.roomL_nodup _ _)
      · intro t ht; obtain ⟨y, hy, _, _, hkv⟩ := (hi.roomL_iff _ _ t).mp ht; exact ⟨y, hy, hkv⟩
      · exact List.Nodup.sublist List.filter_sublist (liveSids_nodup h)
      · intro t ht
        simp only [List.mem_filter] at ht
        obtain ⟨hlive, hcond⟩ := ht
        cases hy : h.sess t with
        | none => simp [hy, inRoom] at hcond
        | some y =>
          simp only [hy, inRoom, Bool.and_eq_true, decide_eq_true_eq] at hcond
          exact (hi.roomL_iff _ _ t).mpr ⟨y, hy, hcond.1.1.2.1, hcond.1.1.2.2, by simpa using hcond.2⟩
      · intro t y htL hy
        obtain ⟨y', hy', hb, hyr, hkv⟩ := (hi.roomL_iff _ _ t).mp htL
        rw [hy] at hy'; cases hy'
        simp only [passesAsyncFilter, senderOf, Rcpt.rtype, if_true, hyr, hb, List.mem_filter, mem_liveSids hi, hy,
          Option.isSome_some, true_and, inRoom, Bool.and_eq_true, decide_eq_true_eq]
        have hkv' : (!decide (y.kind = Kind.virtual)) = true := by simpa using hkv
        by_cases hne : s = t
        · subst hne; simp
        · have hne' : ¬ t = s := fun e => hne e.symm
          simp [hne, hne', hkv']
          exact fun _ => hkv

end SigModel.Hub

namespace SigModel.Hub

/-- The addressed sessions are listed once each, never include the sender, and are all sessions of
the sender's backend. -/
theorem C05_addressed_once_not_sender (ops : List Op) (s : Nat) (rc : Rcpt) :
    (addressed (run {} ops).1 s rc).Nodup ∧ s ∉ addressed (run {} ops).1 s rc ∧
    ∀ t, t ∈ addressed (run {} ops).1 s rc →
      ∃ x y, (run {} ops).1.sess s = some x ∧ (run {} ops).1.sess t = some y ∧ y.backend = x.backend := by
  generalize (run {} ops).1 = h
  unfold addressed
  cases hx : h.sess s with
  | none => simp
  | some x =>
    simp only []
    have hf : ∀ (p : Nat → Bool), ((liveSids h).filter p).Nodup := fun p =>
      List.Nodup.sublist List.filter_sublist (liveSids_nodup h)
    cases rc with
    | session ot =>
      cases ot with
      | none => simp
      | some t =>
        simp only []
        cases hy : h.sess t with
        | none => simp
        | some y =>
          simp only []
          split
          · simp
          · rename_i hc
            simp only [Bool.or_eq_true, decide_eq_true_eq, not_or, ne_eq, Decidable.not_not] at hc
            refine ⟨by simp, by simp; exact fun e => hc.2 e.symm, ?_⟩
            intro t' ht'; simp at ht'; subst ht'; exact ⟨x, y, rfl, hy, hc.1⟩
    | user u =>
      simp only []
      split
      · simp
      · refine ⟨hf _, ?_, ?_⟩
        · simp [List.mem_filter, hx]
        · intro t ht
          simp only [List.mem_filter] at ht
          cases hy : h.sess t with
          | none => simp [hy] at ht
          | some y => simp only [hy, Bool.and_eq_true, decide_eq_true_eq] at ht; exact ⟨x, y, rfl, rfl, ht.2.1.1.2⟩
    | room =>
      simp only []
      cases x.room with
      | none => simp
      | some r =>
        refine ⟨hf _, by simp [List.mem_filter], ?_⟩
        intro t ht
        simp only [List.mem_filter, inRoom] at ht
        cases hy : h.sess t with
        | none => simp [hy] at ht
        | some y => simp only [hy, Bool.and_eq_true, decide_eq_true_eq] at ht; exact ⟨x, y, rfl, rfl, ht.2.1.2.1⟩
    | call =>
      simp only []
      cases x.room with
      | none => simp
      | some r =>
        refine ⟨hf _, by simp [List.mem_filter], ?_⟩
        intro t ht
        simp only [List.mem_filter, inRoom] at ht
        cases hy : h.sess t with
        | none => simp [hy] at ht
        | some y => simp only [hy, Bool.and_eq_true, decide_eq_true_eq] at ht; exact ⟨x, y, rfl, rfl, ht.2.1.1.2.1⟩

/-- A control message from a session without the control permission (and that is not an internal
client) is dropped without any effect. -/
theorem C05_control_needs_permission (a : Acc) (s : Nat) (x : Sess) (rc : Rcpt) (data : String)
    (hx : a.h.sess s = some x) (hp : mayControl x = false) : processMessage a s true rc data = a := by
  unfold processMessage
  simp only [hx, hp]
  split <;> simp

private def demo : List Op :=
  [.connect 1, .connect 2, .connect 3, .hello 1 0 .client "alice" false false, .hello 2 0 .client "bob" false false,
   .hello 3 0 .client "bob" false false, .join 1 "room" "n1" (.ok none ""), .join 2 "room" "n2" (.ok none ""),
   .message 1 false (.user "bob") "hi", .message 1 false .room "all", .message 2 false (.session (some 1)) "you"]

/-- Non-vacuity: user-addressed to both of bob's sessions, room-addressed to the other member only,
session-addressed to exactly that session — each with the server's sender block. -/
example : ((run {} demo).2.drop 8).map (fun outs => outs.map (fun o => (o.conn, o.msg))) =
    [[(2, .message false ⟨.user, 1, "alice"⟩ none "hi"), (3, .message false ⟨.user, 1, "alice"⟩ none "hi")],
     [(2, .message false ⟨.room, 1, "alice"⟩ none "all")],
     [(1, .message false ⟨.session, 2, "bob"⟩ none "you")]] := by
  decide +kernel

end SigModel.Hub
