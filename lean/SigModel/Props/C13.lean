/-
C13 — Backend configuration after any reload equals a fresh start, and never blocks.
-/
import SigModel.Lemmas.Backends
import SigModel.Lemmas.BackendsEtcd
import SigModel.Lemmas.RWLock
import SigModel.Spec.Backends
import SigModel.Model.RWLock

namespace SigModel.Backends

/-! ## 1. Static storage: after any chain of reloads, lookups answer as after a fresh start -/

/-- The table after a chain of configurations (each given as its list of configured backends). -/
def runReloads (c₀ : List Backend) (cs : List (List Backend)) : Table := cs.foldl reload (fresh c₀)

/-- The configuration in force at the end of a chain. -/
def finalCfg : List Backend → List (List Backend) → List Backend
  | c, [] => c
  | _, c :: cs => finalCfg c cs

theorem tget_foldl_reload (cs : List (List Backend)) (c₀ : List Backend) (t : Table)
    (ht : ∀ h, tget t h = tget (fresh c₀) h) (h : String) :
    tget (cs.foldl reload t) h = tget (fresh (finalCfg c₀ cs)) h := by
  induction cs generalizing c₀ t with
  | nil => exact ht h
  | cons c cs ih => exact ih c (reload t c) (fun h => tget_reload t c h)

theorem C13_reload_eq_fresh (c₀ : List Backend) (cs : List (List Backend)) (scheme host url : String) :
    getBackend (runReloads c₀ cs) scheme host url = getBackend (fresh (finalCfg c₀ cs)) scheme host url :=
  getBackend_congr _ _ (fun h => tget_foldl_reload cs c₀ (fresh c₀) (fun _ => rfl) h) scheme host url

/-! At the level of configuration files (ids string, sections): -/

def runRawReloads (c₀ : RawCfg) (cs : List RawCfg) : Table := cs.foldl reloadRaw (fresh (normalise c₀))

def finalRaw : RawCfg → List RawCfg → RawCfg
  | c, [] => c
  | _, c :: cs => finalRaw c cs

theorem reloadRaw_eq (t : Table) (c : RawCfg) : reloadRaw t c = reload t (normalise c) := by
  simp [reloadRaw, Generated.Backends.reloadIgnoresEmptyIds]

/-- For every chain of configuration files in "backends" mode — including files whose `backends`
value is empty or lists only incomplete entries — every lookup is answered as by a server freshly
started from the last file. -/
theorem C13_reload_raw_eq_fresh (c₀ : RawCfg) (cs : List RawCfg) (p : Probe) :
    lookup (runRawReloads c₀ cs) p = lookup (fresh (normalise (finalRaw c₀ cs))) p := by
  have h : ∀ (cs : List RawCfg) (c₀ : RawCfg) (t : Table), (∀ h, tget t h = tget (fresh (normalise c₀)) h) →
      ∀ h, tget (cs.foldl reloadRaw t) h = tget (fresh (normalise (finalRaw c₀ cs))) h := by
    intro cs
    induction cs with
    | nil => intro c₀ t ht h; exact ht h
    | cons c cs ih =>
      intro c₀ t _ h
      exact ih c (reloadRaw t c) (fun h => by rw [reloadRaw_eq]; exact tget_reload t _ h) h
  unfold lookup runRawReloads
  rw [getBackend_congr _ _ (h cs c₀ (fresh (normalise c₀)) (fun _ => rfl))]

/-- non-vacuity, and the reading of a file: ids with blanks, a duplicate and an id without section;
a backend without own secret takes the common one; a negative limit is no limit; then a file whose
`backends` value is empty (on the pinned tree that file was skipped and `b1` stayed accepted). -/
example :
    let s1 : Sec := { id := "b1", url := "https://h1.invalid/a", parseOk := true, norm := "https://h1.invalid/a/",
                      host := "h1.invalid", scheme := "https", secret := "", limit := some (-3), stream := some 1000, screen := none }
    let s2 : Sec := { id := "b2", url := "http://h1.invalid/b", parseOk := true, norm := "http://h1.invalid/b/",
                      host := "h1.invalid", scheme := "http", secret := "s2", limit := some 10, stream := none, screen := none }
    let c₀ : RawCfg := { common := "common", ids := " b2 , b1,,b2, nosection", secs := [s1, s2] }
    let c₁ : RawCfg := { common := "common", ids := "", secs := [s1, s2] }
    (normalise c₀).map (fun b => (b.id, b.secret, b.limit, b.allowHttp)) = [("b2", "s2", 10, true), ("b1", "common", 0, false)] ∧
    (lookup (runRawReloads c₀ []) { scheme := "https", host := "h1.invalid", url := "https://h1.invalid/a/x/" }).map (·.id) = some "b1" ∧
    (lookup (runRawReloads c₀ []) { scheme := "http", host := "h1.invalid", url := "http://h1.invalid/a/x/" }) = none ∧
    (lookup (runRawReloads c₀ [c₁]) { scheme := "https", host := "h1.invalid", url := "https://h1.invalid/a/x/" }) = none := by
  refine ⟨by decide +kernel, by decide +kernel, by decide +kernel, by decide +kernel⟩

/-! ### the storage as a whole: the table and the common secret kept from startup

`getConfiguredHosts(backendIds, config, commonSecret)` is what turns a file into table entries, at startup and in
`Reload`.  The statement "after any reload = a fresh start from the final file" needs `Reload` to hand it the *file
being loaded* in all three arguments — the id list, the sections, and the common `[backend] secret` a section
without own secret falls back to — exactly as startup does, and to read nothing else of the long-lived object than
the table.  Both are read from the source on every run. -/

open SigModel.Generated.Backends in
/-- Where the arguments of `getConfiguredHosts` come from in `NewBackendStorageStatic` and in `Reload` (each: the id
list from `config.GetString("backend", "backends")`, the configuration handed in, the common secret from
`GetStringOptionWithEnv(config, "backend", "secret")`, assigned once), and the complete list of members of the
receiver `Reload` touches: the lock, the compat guard, the table and the two table helpers — in particular not
`commonSecret`, the value cached at startup.  A `Reload` that takes an argument from the receiver, assigns it twice,
or starts reading another field fails this `decide`. -/
theorem C13_config_source_facts :
    startFromLoadedFile = true ∧ reloadFromLoadedFile = true ∧
    reloadReceiverFields = ["RemoveBackendsForHost", "UpsertHost", "backends", "compatBackend", "mu"] := by decide

/-- The storage after a start from `c₀` and a chain of reloaded files. -/
def runStatic (c₀ : RawCfg) (cs : List RawCfg) : StaticSt := cs.foldl reloadStatic (startStatic c₀)

theorem startStatic_table (c : RawCfg) : (startStatic c).table = fresh (normalise c) := by
  simp [startStatic, startStaticWith, C13_config_source_facts.1]

theorem reloadStatic_table (s : StaticSt) (c : RawCfg) : (reloadStatic s c).table = reloadRaw s.table c := by
  simp [reloadStatic, reloadStaticWith, C13_config_source_facts.2.1]

theorem foldl_reloadStatic_table (cs : List RawCfg) (s : StaticSt) :
    (cs.foldl reloadStatic s).table = cs.foldl reloadRaw s.table := by
  induction cs generalizing s with
  | nil => rfl
  | cons c cs ih => rw [List.foldl_cons, List.foldl_cons, ih, reloadStatic_table]

theorem runStatic_table (c₀ : RawCfg) (cs : List RawCfg) : (runStatic c₀ cs).table = runRawReloads c₀ cs := by
  unfold runStatic runRawReloads
  rw [foldl_reloadStatic_table, startStatic_table]

/-- **Files, with the common secret.**  For every start file and every chain of reloaded files — the common secret
present, changed, removed, added again; sections with and without an own secret — every lookup on the long-lived
storage (url accepted or not, and the backend with its secret, limit and bitrates) is answered as by a server
freshly started from the last file. -/
theorem C13_static_file_eq_fresh (c₀ : RawCfg) (cs : List RawCfg) (p : Probe) :
    lookup (runStatic c₀ cs).table p = lookup (startStatic (finalRaw c₀ cs)).table p := by
  rw [runStatic_table, startStatic_table]
  exact C13_reload_raw_eq_fresh c₀ cs p

theorem reloadRaw?_eq (t : Table) (c : RawCfg) : reloadRaw? t c = some (reloadRaw t c) := by
  unfold reloadRaw? reloadRaw
  split
  · rfl
  · exact reload?_eq _ _

/-- `Reload` on a file never fails, whatever the storage went through before. -/
theorem C13_static_file_reload_total (s : StaticSt) (c : RawCfg) : reloadStatic? s c = some (reloadStatic s c) := by
  simp [reloadStatic?, reloadStaticWith?, reloadStatic, reloadStaticWith, reloadRaw?_eq]

namespace Witness

def secNoOwn (id url : String) : Sec :=
  { id := id, url := url, parseOk := true, norm := url, host := "h1.invalid", scheme := "https", secret := "",
    limit := none, stream := none, screen := none }
def secOwn (id url secret : String) : Sec := { secNoOwn id url with secret := secret }

end Witness

open Witness in
/-- Why the source of the common secret is a proof obligation: a `Reload` that falls back to the common secret the
server was *started* with (`fromLoaded := false`).  Start: common secret `old`, backend `b1` without own secret.
Reload of the same file with the common secret removed: `b1` stays accepted with `old`, a fresh start skips it.
And over a longer chain: the common secret is dropped while every backend has an own secret (nothing observable),
then `b3` without own secret is added: the long-lived server accepts it with the secret of a file two reloads back. -/
theorem C13_cached_common_secret_differs :
    let c₀ : RawCfg := { common := "old", ids := "b1", secs := [secNoOwn "b1" "https://h1.invalid/a/"] }
    let c₁ : RawCfg := { c₀ with common := "" }
    let d₀ : RawCfg := { common := "old", ids := "b1", secs := [secOwn "b1" "https://h1.invalid/a/" "s1"] }
    let d₁ : RawCfg := { d₀ with common := "" }
    let d₂ : RawCfg := { common := "", ids := "b1, b3", secs := [secOwn "b1" "https://h1.invalid/a/" "s1", secNoOwn "b3" "https://h1.invalid/c/"] }
    let pa : Probe := { scheme := "https", host := "h1.invalid", url := "https://h1.invalid/a/x/" }
    let pc : Probe := { scheme := "https", host := "h1.invalid", url := "https://h1.invalid/c/x/" }
    (lookup (reloadStaticWith false (startStaticWith true c₀) c₁).table pa).map (·.secret) = some "old" ∧
    lookup (startStaticWith true c₁).table pa = none ∧
    lookup (reloadStaticWith false (startStaticWith true d₀) d₁).table pa = lookup (startStaticWith true d₁).table pa ∧
    (lookup (reloadStaticWith false (reloadStaticWith false (startStaticWith true d₀) d₁) d₂).table pc).map (·.secret) = some "old" ∧
    lookup (startStaticWith true d₂).table pc = none := by
  refine ⟨by decide +kernel, by decide +kernel, by decide +kernel, by decide +kernel, by decide +kernel⟩

open Witness in
/-- The code as it is on the same chains, and non-vacuity of `C13_static_file_eq_fresh`: common secret present →
removed → added again with another value; `b1` follows the file in force, `b2` keeps its own secret throughout. -/
example :
    let secs := [secNoOwn "b1" "https://h1.invalid/a/", secOwn "b2" "https://h1.invalid/b/" "s2"]
    let c (common : String) : RawCfg := { common := common, ids := "b1, b2", secs := secs }
    let pa : Probe := { scheme := "https", host := "h1.invalid", url := "https://h1.invalid/a/x/" }
    let pb : Probe := { scheme := "https", host := "h1.invalid", url := "https://h1.invalid/b/x/" }
    (lookup (runStatic (c "old") []).table pa).map (·.secret) = some "old" ∧
    lookup (runStatic (c "old") [c ""]).table pa = none ∧
    (lookup (runStatic (c "old") [c "", c "new"]).table pa).map (·.secret) = some "new" ∧
    (lookup (runStatic (c "old") [c "new"]).table pa).map (·.secret) = some "new" ∧
    (lookup (runStatic (c "old") [c "", c "new"]).table pb).map (·.secret) = some "s2" ∧
    (lookup (runStatic (c "old") [c ""]).table pb).map (·.secret) = some "s2" := by
  refine ⟨by decide +kernel, by decide +kernel, by decide +kernel, by decide +kernel, by decide +kernel, by decide +kernel⟩

/-- Reloading cannot fail: `reload?` models `Reload` with an `UpsertHost` that may panic (`none`);
with the code's current `UpsertHost` it always returns, for every table and configuration. -/
theorem C13_reload_total (t : Table) (bs : List Backend) : (reload? t bs).isSome = true := by
  rw [reload?_eq]; rfl

/-- …and along every chain. -/
def runReloads? (c₀ : List Backend) (cs : List (List Backend)) : Option Table :=
  cs.foldl (fun acc c => acc.bind (fun t => reload? t c)) (some (fresh c₀))

theorem C13_reload_chain_total (c₀ : List Backend) (cs : List (List Backend)) :
    runReloads? c₀ cs = some (runReloads c₀ cs) := by
  unfold runReloads? runReloads
  generalize fresh c₀ = t
  induction cs generalizing t with
  | nil => rfl
  | cons c cs ih =>
    rw [List.foldl_cons, List.foldl_cons, Option.bind_some, reload?_eq]
    exact ih _

/-- What is accepted comes from the final configuration, with its attributes: a lookup answered
with `b` means `b` is a backend of the final configuration filed under the looked-up host whose
url/scheme match — so a backend that was removed, or moved to another host or url, no longer answers. -/
theorem C13_static_answers_from_final (c₀ : List Backend) (cs : List (List Backend))
    (scheme host url : String) (b : Backend)
    (h : getBackend (runReloads c₀ cs) scheme host url = some b) :
    b ∈ finalCfg c₀ cs ∧ b.host = host ∧ entryMatches scheme url b = true := by
  rw [C13_reload_eq_fresh] at h
  unfold getBackend at h
  rw [tget_fresh] at h
  by_cases hh : host ∈ hostsOf (finalCfg c₀ cs)
  · simp only [hh, if_true] at h
    have hm := List.mem_of_find?_eq_some h
    have hp := List.find?_some h
    simp only [forHost, List.mem_filter, decide_eq_true_eq] at hm
    exact ⟨hm.1, hm.2, hp⟩
  · simp [hh] at h

/-- Conversely nothing configured is lost: if the final configuration has a matching backend under
that host, the lookup is answered (by the first such backend in configuration order). -/
theorem C13_static_configured_accepted (c₀ : List Backend) (cs : List (List Backend))
    (scheme host url : String) (b : Backend) (hb : b ∈ finalCfg c₀ cs) (hhost : b.host = host)
    (hm : entryMatches scheme url b = true) :
    getBackend (runReloads c₀ cs) scheme host url
      = ((finalCfg c₀ cs).filter (·.host = host)).find? (entryMatches scheme url)
    ∧ (getBackend (runReloads c₀ cs) scheme host url).isSome = true := by
  rw [C13_reload_eq_fresh]
  unfold getBackend
  rw [tget_fresh]
  have hh : host ∈ hostsOf (finalCfg c₀ cs) := by
    unfold hostsOf; rw [mem_dedupe]; exact List.mem_map.mpr ⟨b, hb, hhost⟩
  simp only [hh, if_true, forHost, true_and]
  rw [List.find?_isSome]
  exact ⟨b, List.mem_filter.mpr ⟨hb, by simp [hhost]⟩, hm⟩

open SigModel.Generated.Backends in
/-- The model's `reload` / `etcdPut` / `etcdDelete` are total functions, which is faithful only if the
Go code on those paths has no operation that can panic.  This is the complete list of index, slice
and type-assertion expressions and `panic` calls in `Reload`, `RemoveBackendsForHost`, `UpsertHost`,
`getConfiguredHosts`, `getConfiguredBackendIDs`, `EtcdKeyUpdated`, `EtcdKeyDeleted`,
`removeBackendLocked`, regenerated from the source.  Audit: all but two are reads/writes of maps
created with `make` in the constructors (a map read never panics); `u[len(u)-1]` is reached only
after `if u == "" { continue }`; `entries[idx]` uses the index of the enclosing `range entries`.
(The pinned tree had `s.backends[host][existingIndex]` and `s.backends[host][:existingIndex]` here —
the panic of `C13_legacy_upsert_panics`.)  A new entry in this list fails the `decide` and has to be
audited. -/
theorem C13_reload_path_audit :
    reloadPathPartialOps =
      ["Reload: configuredHosts[hostname]", "RemoveBackendsForHost: s.backends[host]",
       "UpsertHost: s.backends[host]", "UpsertHost: s.backends[host]",
       "getConfiguredHosts: u[len(u)-1]", "getConfiguredHosts: hosts[parsed.Host]",
       "getConfiguredHosts: hosts[parsed.Host]", "getConfiguredBackendIDs: seen[id]",
       "getConfiguredBackendIDs: seen[id]", "EtcdKeyUpdated: s.keyInfos[key]",
       "EtcdKeyUpdated: s.keyInfos[key]", "EtcdKeyUpdated: s.backends[host]",
       "EtcdKeyUpdated: s.backends[host]", "EtcdKeyUpdated: entries[idx]",
       "EtcdKeyUpdated: s.backends[host]", "EtcdKeyDeleted: s.keyInfos[key]",
       "removeBackendLocked: s.backends[host]", "removeBackendLocked: s.backends[host]"] := by decide

/-! ### why `UpsertHost` was replaced: the pinned tree's in-place version (`Legacy`) -/

namespace Witness

def bk (id url secret : String) : Backend :=
  { id := id, url := url, host := "h1.invalid", allowHttp := false, secret := secret, limit := 0, stream := 0, screen := 0 }

def a : Backend := bk "a" "https://h1.invalid/a/" "sa"
def b : Backend := bk "b" "https://h1.invalid/b/" "sb"
def c : Backend := bk "c" "https://h1.invalid/c/" "sc"
def outer : Backend := bk "b1" "https://h1.invalid/a/" "s1"
def inner : Backend := bk "b2" "https://h1.invalid/a/b/" "s2"

end Witness

open Witness in
/-- Reload of `a, b, c` → `b, c` on one host: the in-place `UpsertHost` runs off the end of the
slice it shortened (replayed on the pinned tree: corpus/C13/01…). -/
theorem C13_legacy_upsert_panics : reloadWith Legacy.upsertHost (fresh [a, b, c]) [b, c] = none := by
  decide +kernel

open Witness in
/-- …as does a host losing two backends at once (corpus/C13/02…). -/
example : reloadWith Legacy.upsertHost (fresh [a, b]) [c] = none := by decide +kernel

open Witness in
/-- Nested prefixes: configuration `b2, b1` (inner url first).  The in-place version kept "existing
first, new appended", so after `[b1] → [b2, b1]` a url under the inner prefix was answered by the
outer backend, while a fresh start answers with the inner one (corpus/C13/03…, 04…). -/
theorem C13_legacy_order_differs :
    ∃ t, reloadWith Legacy.upsertHost (fresh [outer]) [inner, outer] = some t ∧
      getBackend t "https" "h1.invalid" "https://h1.invalid/a/b/x/" = some outer ∧
      getBackend (fresh [inner, outer]) "https" "h1.invalid" "https://h1.invalid/a/b/x/" = some inner := by
  refine ⟨[("h1.invalid", [outer, inner])], by decide +kernel, by decide +kernel, by decide +kernel⟩

open Witness in
/-- The code as it is now on the same inputs. -/
example : reload? (fresh [a, b, c]) [b, c] = some (fresh [b, c]) := by decide +kernel
open Witness in
example : (reload? (fresh [outer]) [inner, outer]).map
    (fun t => getBackend t "https" "h1.invalid" "https://h1.invalid/a/b/x/") = some (some inner) := by decide +kernel

/-! ## 2. etcd storage: after any history of events, lookups answer as after a fresh start -/

def runEtcd (ops : List EtcdOp) : EtcdSt := ops.foldl etcdStep {}

theorem runEtcd_inv (ops : List EtcdOp) : TInv (runEtcd ops).table (iget (kvAfter ops)) := by
  have h : EInv (runEtcd ops) := einv_run ops einv_empty
  exact tinv_congr h (fun k => infos_run ops {} [] (fun _ => rfl) k)

/-- For every history of put/delete events (valid and invalid values, keys changing host) and every
list `kvs` of key/value pairs with distinct keys that represents the final key/value map — in
whatever order a starting server is handed them — lookups on the long-lived storage and on a
storage started from `kvs` agree. -/
theorem C13_etcd_eq_fresh (ops : List EtcdOp) (kvs : Infos) (hn : KeysNodup kvs)
    (hkv : ∀ k, iget kvs k = iget (kvAfter ops) k) (scheme host url : String) :
    getBackend (runEtcd ops).table scheme host url = getBackend (etcdFresh kvs).table scheme host url := by
  apply getBackend_congr
  intro h
  have h₂ : TInv (etcdFresh kvs).table (iget (kvAfter ops)) :=
    tinv_congr (einv_fresh kvs) (fun k => by rw [infos_fresh kvs hn k, hkv k])
  exact tinv_unique (runEtcd_inv ops) h₂ h

/-- In particular for the key-ordered list an etcd range query returns (what the harness feeds its
fresh instance, and what the driver's `fresh=` column computes). -/
theorem C13_etcd_eq_fresh_sorted (ops : List EtcdOp) (scheme host url : String) :
    getBackend (runEtcd ops).table scheme host url
      = getBackend (etcdFresh (sortKV (kvAfter ops))).table scheme host url :=
  C13_etcd_eq_fresh ops _ (keysNodup_sortKV _ (keysNodup_kvAfter ops))
    (fun k => iget_sortKV _ (keysNodup_kvAfter ops) k) scheme host url

/-- What is accepted comes from the final key/value map: an answer `b` means the key `b.id`
currently holds a valid value whose host is the looked-up host and whose attributes are `b`'s.
Hence a deleted key, a key overwritten with an invalid value, or the previous host/url of a key that
moved, is no longer accepted. -/
theorem C13_etcd_answers_from_final (ops : List EtcdOp) (scheme host url : String) (b : Backend)
    (h : getBackend (runEtcd ops).table scheme host url = some b) :
    ∃ i, iget (kvAfter ops) b.id = some i ∧ i.host = host ∧ b = backendOf b.id i ∧
      entryMatches scheme url b = true := by
  unfold getBackend at h
  cases e : tget (runEtcd ops).table host with
  | none => simp [e] at h
  | some es =>
    simp only [e] at h
    obtain ⟨i, hi, hh, hb⟩ := ((runEtcd_inv ops).mem host b).mp ⟨es, e, List.mem_of_find?_eq_some h⟩
    exact ⟨i, hi, hh, hb, List.find?_some h⟩

theorem C13_etcd_deleted_not_accepted (ops : List EtcdOp) (key : String) (scheme host url : String) (b : Backend)
    (h : getBackend (runEtcd (ops ++ [.del key])).table scheme host url = some b) : b.id ≠ key := by
  obtain ⟨i, hi, _⟩ := C13_etcd_answers_from_final _ _ _ _ _ h
  intro hk
  simp [kvAfter, List.foldl_append, kvStep, iget_idel, hk] at hi

theorem C13_etcd_moved_not_accepted (ops : List EtcdOp) (key : String) (i : Info) (scheme host url : String)
    (b : Backend) (hmoved : i.host ≠ host)
    (h : getBackend (runEtcd (ops ++ [.put key (some i)])).table scheme host url = some b) : b.id ≠ key := by
  obtain ⟨j, hj, hh, _⟩ := C13_etcd_answers_from_final _ _ _ _ _ h
  intro hk
  simp [kvAfter, List.foldl_append, kvStep, iget_iset, hk] at hj
  subst hj
  exact hmoved hh

/-! ## 2b. The model meets the statement's own reading (the judge of `Spec/Backends.lean`) -/

open SigModel.Generated.Backends in
/-- The facts read from the source that the lookup model is defined over: `https` always, `http`
only for backends configured with an http url, nothing else; first matching entry wins; prefix
test on the url with a trailing slash against the entry's url with a trailing slash (appended for
the comparison when the entry is stored without one — etcd); urls with "." / ".." segments are refused before the
storage is asked; `Reload` is refused in compat mode and does not skip a file without backends; and no lock user
outside the modelled entry points. -/
theorem C13_facts :
    schemeHttps = "true" ∧ schemeHttp = "allowHttp" ∧ schemeOther = "false" ∧
    lookupFirstMatchWins = true ∧ lookupUsesHasPrefix = true ∧ lookupAppendsSlash = true ∧
    lookupEntrySlashTerminated = true ∧
    lookupRefusesDotSegments = true ∧ reloadCompatGuard = true ∧ reloadIgnoresEmptyIds = false ∧
    unreachedLockUsers = [] := by decide

/-- The extracted scheme rule is the statement's: https always, http only where configured. -/
theorem C13_scheme_rule (b : Backend) (scheme : String) :
    urlAllowed b scheme = (scheme == "https" || (scheme == "http" && b.allowHttp)) := by
  unfold urlAllowed ruleVal
  by_cases h1 : scheme = "https"
  · subst h1; simp [Generated.Backends.schemeHttps]
  · by_cases h2 : scheme = "http"
    · subst h2; simp [Generated.Backends.schemeHttp]
    · simp [h1, h2, Generated.Backends.schemeOther]

theorem specMatches_iff (p : Probe) (b : Backend) :
    specMatches p b = (decide (b.host = p.host) && entryMatches p.scheme p.url b) := by
  unfold specMatches entryMatches entryUrl
  simp only [C13_facts.2.2.2.2.2.2.1, if_true]
  rw [C13_scheme_rule]
  by_cases h : b.host = p.host <;> simp [h]

theorem getBackend_fresh_some {bs : List Backend} {scheme host url : String} {b : Backend}
    (h : getBackend (fresh bs) scheme host url = some b) :
    b ∈ bs ∧ b.host = host ∧ entryMatches scheme url b = true := by
  unfold getBackend at h
  rw [tget_fresh] at h
  by_cases hh : host ∈ hostsOf bs
  · simp only [hh, if_true] at h
    have hm := List.mem_of_find?_eq_some h
    simp only [forHost, List.mem_filter, decide_eq_true_eq] at hm
    exact ⟨hm.1, hm.2, List.find?_some h⟩
  · simp [hh] at h

theorem getBackend_fresh_none {bs : List Backend} {scheme host url : String}
    (h : getBackend (fresh bs) scheme host url = none) :
    ∀ b ∈ bs, b.host = host → entryMatches scheme url b = false := by
  intro b hb hhost
  unfold getBackend at h
  rw [tget_fresh] at h
  have hh : host ∈ hostsOf bs := by
    unfold hostsOf; rw [mem_dedupe]; exact List.mem_map.mpr ⟨b, hb, hhost⟩
  simp only [hh, if_true] at h
  have := List.find?_eq_none.mp h b (by simp [forHost, hb, hhost])
  simpa using this

/-- `lookup` (with the dot-segment rule) inherits the equality with a fresh start. -/
theorem C13_lookup_reload_eq_fresh (c₀ : List Backend) (cs : List (List Backend)) (p : Probe) :
    lookup (runReloads c₀ cs) p = lookup (fresh (finalCfg c₀ cs)) p := by
  unfold lookup; rw [C13_reload_eq_fresh]

theorem lookup_dots (t : Table) (p : Probe) (h : p.dots = true) : lookup t p = none := by
  simp [lookup, h, Generated.Backends.lookupRefusesDotSegments]

theorem lookup_nodots (t : Table) (p : Probe) (h : p.dots = false) :
    lookup t p = getBackend t p.scheme p.host p.url := by
  simp [lookup, h]

/-- For every chain of configurations and every lookup the judge's verdict on the model's answers is
`ok`: the model of the code refines the statement as the judge reads it. -/
theorem C13_static_meets_spec (c₀ : List Backend) (cs : List (List Backend)) (p : Probe) :
    judgeProbe (finalCfg c₀ cs) p
      ((lookup (runReloads c₀ cs) p).map ansOf)
      ((lookup (fresh (finalCfg c₀ cs)) p).map ansOf) = "ok" := by
  rw [C13_lookup_reload_eq_fresh]
  cases hd : p.dots with
  | true => simp [lookup_dots _ p hd, judgeProbe, specAccepts, hd]
  | false =>
  rw [lookup_nodots _ p hd]
  cases h : getBackend (fresh (finalCfg c₀ cs)) p.scheme p.host p.url with
  | some b =>
    obtain ⟨hb, hhost, hm⟩ := getBackend_fresh_some h
    have hany : (finalCfg c₀ cs).any (fun b' => ansOf b' == ansOf b && specMatches p b') = true := by
      rw [List.any_eq_true]
      exact ⟨b, hb, by rw [specMatches_iff]; simp [hhost, hm]⟩
    simp [judgeProbe, hany, hd]
  | none =>
    have hnone := getBackend_fresh_none h
    have hacc : specAccepts (finalCfg c₀ cs) p = false := by
      unfold specAccepts
      rw [hd]
      simp only [Bool.not_false, Bool.true_and]
      rw [List.any_eq_false]
      intro b hb
      rw [specMatches_iff]
      by_cases hh : b.host = p.host
      · simp [hh, hnone b hb hh]
      · simp [hh]
    simp [judgeProbe, hacc]

theorem runRawReloads_eq (c₀ : RawCfg) (cs : List RawCfg) :
    runRawReloads c₀ cs = runReloads (normalise c₀) (cs.map normalise) := by
  unfold runRawReloads runReloads
  generalize fresh (normalise c₀) = t
  induction cs generalizing t with
  | nil => rfl
  | cons c cs ih => simp only [List.foldl_cons, List.map_cons, reloadRaw_eq]; exact ih _

theorem finalCfg_map_normalise (c₀ : RawCfg) (cs : List RawCfg) :
    finalCfg (normalise c₀) (cs.map normalise) = normalise (finalRaw c₀ cs) := by
  induction cs generalizing c₀ with
  | nil => rfl
  | cons c cs ih => simp only [List.map_cons, finalCfg, finalRaw]; exact ih c

/-- The same at the level of files: the judge reads the final file on its own (`normalise`: a section without own
secret has the common secret of *that* file, or is not configured when the file has none) and accepts the model's
answers after every chain of files. -/
theorem C13_static_file_meets_spec (c₀ : RawCfg) (cs : List RawCfg) (p : Probe) :
    judgeProbe (normalise (finalRaw c₀ cs)) p
      ((lookup (runStatic c₀ cs).table p).map ansOf)
      ((lookup (startStatic (finalRaw c₀ cs)).table p).map ansOf) = "ok" := by
  rw [runStatic_table, startStatic_table, runRawReloads_eq, ← finalCfg_map_normalise]
  exact C13_static_meets_spec _ _ p

/-- The same for etcd histories; `final` is the list of the backends of the final key/value map. -/
theorem C13_etcd_meets_spec (ops : List EtcdOp) (kvs : Infos) (hn : KeysNodup kvs)
    (hkv : ∀ k, iget kvs k = iget (kvAfter ops) k) (p : Probe) :
    judgeProbe ((kvAfter ops).map (fun e => backendOf e.1 e.2)) p
      ((lookup (runEtcd ops).table p).map ansOf)
      ((lookup (etcdFresh kvs).table p).map ansOf) = "ok" := by
  cases hd : p.dots with
  | true => simp [lookup_dots _ p hd, judgeProbe, specAccepts, hd]
  | false =>
  rw [lookup_nodots _ p hd, lookup_nodots _ p hd]
  rw [← C13_etcd_eq_fresh ops kvs hn hkv]
  cases h : getBackend (runEtcd ops).table p.scheme p.host p.url with
  | some b =>
    obtain ⟨i, hi, hhost, hb, hm⟩ := C13_etcd_answers_from_final ops _ _ _ _ h
    have hany : ((kvAfter ops).map (fun e => backendOf e.1 e.2)).any
        (fun b' => ansOf b' == ansOf b && specMatches p b') = true := by
      rw [List.any_eq_true]
      refine ⟨b, List.mem_map.mpr ⟨(b.id, i), mem_of_iget hi, hb.symm⟩, ?_⟩
      rw [specMatches_iff]
      have : b.host = p.host := by rw [hb]; exact hhost
      simp [this, hm]
    simp [judgeProbe, hany, hd]
  | none =>
    have hacc : specAccepts ((kvAfter ops).map (fun e => backendOf e.1 e.2)) p = false := by
      unfold specAccepts
      rw [hd]
      simp only [Bool.not_false, Bool.true_and]
      rw [List.any_eq_false]
      intro b hb
      obtain ⟨⟨k, i⟩, hmem, rfl⟩ := List.mem_map.mp hb
      rw [specMatches_iff]
      by_cases hh : (backendOf k i).host = p.host
      · have hig := iget_of_mem (keysNodup_kvAfter ops) hmem
        obtain ⟨es, he, hbes⟩ := ((runEtcd_inv ops).mem p.host (backendOf k i)).mpr ⟨i, hig, hh, rfl⟩
        unfold getBackend at h
        simp only [he] at h
        have := List.find?_eq_none.mp h _ hbes
        simp only [Bool.not_eq_true] at this
        simp [hh, this]
      · simp [hh]
    simp [judgeProbe, hacc]

/-! ### non-vacuity -/

open Witness in
/-- `C13_reload_eq_fresh` / `C13_static_answers_from_final` on a chain that exercises them: three
configurations on a shared host with nested prefixes, a removal and a re-ordering; the lookup is
accepted, by the inner backend, and the removed url is rejected. -/
example :
    getBackend (runReloads [a, outer] [[outer, inner, b], [inner, outer]]) "https" "h1.invalid" "https://h1.invalid/a/b/x/"
      = some inner ∧
    getBackend (runReloads [a, outer] [[outer, inner, b], [inner, outer]]) "https" "h1.invalid" "https://h1.invalid/b/x/"
      = none ∧
    finalCfg [a, outer] [[outer, inner, b], [inner, outer]] = [inner, outer] := by
  refine ⟨by decide +kernel, by decide +kernel, rfl⟩

/-- `C13_etcd_eq_fresh` on a history with a host move, an invalid value, a delete and nested
prefixes written in reverse key order: the hypotheses hold for the sorted final map, and the lookups
are non-trivial (one accepted by the inner backend, the moved key's old host rejected). -/
example :
    let i (url host secret : String) : Info := { url := url, host := host, scheme := "https", secret := secret, limit := 0, stream := 0, screen := 0 }
    let ops : List EtcdOp :=
      [.put "k2" (some (i "https://h1.invalid/a" "h1.invalid" "s2")), .put "k1" (some (i "https://h1.invalid/a/b" "h1.invalid" "s1")),
       .put "k3" (some (i "https://h1.invalid/c" "h1.invalid" "s3")), .put "k3" (some (i "https://h2.invalid/c" "h2.invalid" "s3")),
       .put "k4" (some (i "https://h1.invalid/d" "h1.invalid" "s4")), .put "k4" none, .put "k5" (some (i "https://h2.invalid/e" "h2.invalid" "s5")),
       .del "k5"]
    KeysNodup (sortKV (kvAfter ops)) ∧ (∀ k ∈ ["k1", "k2", "k3", "k4", "k5", "zz"], iget (sortKV (kvAfter ops)) k = iget (kvAfter ops) k) ∧
    (getBackend (runEtcd ops).table "https" "h1.invalid" "https://h1.invalid/a/b/x/").map (·.id) = some "k1" ∧
    getBackend (runEtcd ops).table "https" "h1.invalid" "https://h1.invalid/c/x/" = none ∧
    (getBackend (runEtcd ops).table "https" "h2.invalid" "https://h2.invalid/c/x/").map (·.id) = some "k3" ∧
    getBackend (runEtcd ops).table "https" "h1.invalid" "https://h1.invalid/d/" = none := by
  refine ⟨by decide +kernel, by decide +kernel, by decide +kernel, by decide +kernel, by decide +kernel, by decide +kernel⟩

end SigModel.Backends

/-! ## 3. Lookups and reloads running concurrently always complete

`Model/RWLock.lean` is Go's writer-preferring `sync.RWMutex`; a goroutine is a thread running the
sequence of lock calls of the storage functions it executes.  Those sequences are *extracted from
the source* on every run (`Generated/Backends.lean`: every syntactic path through `GetBackend`,
`GetBackends`, `GetCompatBackend`, `Reload`, `EtcdKeyUpdated`, `EtcdKeyDeleted` of both storages,
following calls such as `GetBackend → getBackendLocked`). -/

namespace SigModel.RWLock
open SigModel.Generated.Backends

/-- Every extracted lock program is well-bracketed and non-nested.  Re-introducing a second
`RLock` on the lookup path (or forgetting an unlock on some path) makes this `decide` fail. -/
theorem C13_lock_programs_flat : allFlat lockPrograms = true := by decide

/-- The lock programs of all API entry points, parsed. -/
def apiPaths : List (List LockOp) := (lockPrograms.flatMap (·.2)).filterMap parseProg

theorem apiPaths_flat : ∀ p ∈ apiPaths, Flat p = true := by decide

/-- the extraction found the lookups, the reload and the etcd handlers (not an empty table) -/
example : [.rlock, .runlock] ∈ apiPaths ∧ [.lock, .unlock] ∈ apiPaths ∧ apiPaths.length ≥ 10 := by decide

/-- **No deadlock.**  For any number of threads running flat lock programs, every reachable
configuration in which some thread has not finished has an enabled step. -/
theorem C13_no_deadlock (progs : List (List LockOp)) (hflat : ∀ p ∈ progs, Flat p = true)
    (c : Cfg) (hr : Reach (Cfg.init progs) c) (hnf : c.final = false) : ∃ c', Step c c' :=
  step_of_enabled (progress (inv_reach hflat hr) hnf)

/-- The same for the code: any number of goroutines, each performing any sequence of calls of the
storage API (lookups, listings, reloads, etcd events). -/
theorem C13_api_no_deadlock (calls : List (List (List LockOp)))
    (hcalls : ∀ th ∈ calls, ∀ p ∈ th, p ∈ apiPaths)
    (c : Cfg) (hr : Reach (Cfg.init (calls.map List.flatten)) c) (hnf : c.final = false) :
    ∃ c', Step c c' := by
  apply C13_no_deadlock _ _ c hr hnf
  intro p hp
  simp only [List.mem_map] at hp
  obtain ⟨th, hth, rfl⟩ := hp
  exact flat_flatten th (fun q hq => apiPaths_flat q (hcalls th hth q hq))

/-- Every step consumes: an execution has at most `measure` steps. -/
theorem C13_steps_bounded {c c' : Cfg} (h : Step c c') : measure c' < measure c := measure_step h

/-- **Always completes.**  From every reachable configuration the run can be continued to the
configuration in which every thread has finished — and by `C13_steps_bounded` every maximal run is
such a continuation. -/
theorem C13_always_completes (progs : List (List LockOp)) (hflat : ∀ p ∈ progs, Flat p = true)
    (c : Cfg) (hr : Reach (Cfg.init progs) c) : ∃ c', Reach c c' ∧ c'.final = true := by
  generalize hn : measure c = n
  induction n using Nat.strongRecOn generalizing c with
  | _ n ih =>
    cases hfin : c.final with
    | true => exact ⟨c, Reach.refl, hfin⟩
    | false =>
      obtain ⟨c₁, hs⟩ := C13_no_deadlock progs hflat c hr hfin
      have hlt := measure_step hs
      obtain ⟨c₂, hr₂, hf₂⟩ := ih (measure c₁) (by omega) c₁ (Reach.step hr hs) rfl
      exact ⟨c₂, reach_trans (Reach.step Reach.refl hs) hr₂, hf₂⟩

/-- **Mutual exclusion** (what makes a whole `Reload` atomic for lookups): while a thread holds
the write lock no other thread holds the lock in any mode. -/
theorem C13_mutual_exclusion (progs : List (List LockOp)) (hflat : ∀ p ∈ progs, Flat p = true)
    (c : Cfg) (hr : Reach (Cfg.init progs) c) (pre post : List Thread) (t : Thread)
    (hc : c.threads = pre ++ t :: post) (hw : t.w = true) :
    t.r = 0 ∧ ∀ x ∈ pre ++ post, x.r = 0 ∧ x.w = false :=
  exclusive_of_inv (inv_reach hflat hr) pre post t hc hw

/-! ### the negative witness: the lookup path of the pinned tree -/

/-- `GetBackend` took the read lock and called `getBackendLocked`, which took it again. -/
def nestedLookup : List LockOp := [.rlock, .rlock, .runlock, .runlock]
def reloadProg : List LockOp := [.lock, .unlock]

example : Flat nestedLookup = false := by decide
example : allFlat [("staticGetBackend", [["RLock", "RLock", "RUnlock", "RUnlock"], ["RLock", "RUnlock"]])] = false := by decide

/-- Lookup holds the read lock once, the reload has announced itself. -/
def stuckCfg : Cfg :=
  { mu := { readers := 1, wlocked := true },
    threads := [{ todo := [.rlock, .runlock, .runlock], r := 1 }, { todo := [.lock, .unlock], ann := true }] }

/-- One lookup and one reload suffice: the state is reachable, nobody has finished, nobody can move. -/
theorem C13_nested_rlock_deadlocks :
    Reach (Cfg.init [nestedLookup, reloadProg]) stuckCfg ∧ stuckCfg.final = false ∧ ¬ ∃ c', Step stuckCfg c' := by
  refine ⟨?_, by decide, ?_⟩
  · have s1 : Step (Cfg.init [nestedLookup, reloadProg])
        ⟨{ readers := 1 }, [{ todo := [.rlock, .runlock, .runlock], r := 1 }, { todo := reloadProg }]⟩ :=
      Step.mk {} { readers := 1 } [] [{ todo := reloadProg }] { todo := nestedLookup }
        { todo := [.rlock, .runlock, .runlock], r := 1 } rfl
    have s2 : Step ⟨{ readers := 1 }, [{ todo := [.rlock, .runlock, .runlock], r := 1 }, { todo := reloadProg }]⟩ stuckCfg :=
      Step.mk { readers := 1 } { readers := 1, wlocked := true } [{ todo := [.rlock, .runlock, .runlock], r := 1 }] []
        { todo := reloadProg } { todo := [.lock, .unlock], ann := true } rfl
    exact Reach.step (Reach.step Reach.refl s1) s2
  · rintro ⟨c', hs⟩
    have := enabled_of_step hs
    revert this
    decide

/-- non-vacuity of `C13_no_deadlock`: two lookups and a reload, mid-way (one reader inside, the
writer announced): reachable, not final — and the theorem's step exists (the reader leaves). -/
example : ∃ c, Reach (Cfg.init [[.rlock, .runlock], [.rlock, .runlock], [.lock, .unlock]]) c ∧ c.final = false ∧
    c.mu.readers = 1 ∧ c.mu.wlocked = true ∧ c.enabled = true := by
  refine ⟨⟨{ readers := 1, wlocked := true },
    [{ todo := [.runlock], r := 1 }, { todo := [.rlock, .runlock] }, { todo := [.lock, .unlock], ann := true }]⟩,
    ?_, by decide, rfl, rfl, by decide⟩
  have s1 : Step (Cfg.init [[.rlock, .runlock], [.rlock, .runlock], [.lock, .unlock]])
      ⟨{ readers := 1 }, [{ todo := [.runlock], r := 1 }, { todo := [.rlock, .runlock] }, { todo := [.lock, .unlock] }]⟩ :=
    Step.mk {} { readers := 1 } [] [{ todo := [.rlock, .runlock] }, { todo := [.lock, .unlock] }]
      { todo := [.rlock, .runlock] } { todo := [.runlock], r := 1 } rfl
  have s2 : Step ⟨{ readers := 1 }, [{ todo := [.runlock], r := 1 }, { todo := [.rlock, .runlock] }, { todo := [.lock, .unlock] }]⟩
      ⟨{ readers := 1, wlocked := true },
       [{ todo := [.runlock], r := 1 }, { todo := [.rlock, .runlock] }, { todo := [.lock, .unlock], ann := true }]⟩ :=
    Step.mk { readers := 1 } { readers := 1, wlocked := true } [{ todo := [.runlock], r := 1 }, { todo := [.rlock, .runlock] }] []
      { todo := [.lock, .unlock] } { todo := [.lock, .unlock], ann := true } rfl
  exact Reach.step (Reach.step Reach.refl s1) s2

end SigModel.RWLock
