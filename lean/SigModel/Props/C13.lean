/-
C13 — Backend configuration after any reload equals a fresh start, and never blocks.
-/
import SigModel.Lemmas.Backends
import SigModel.Spec.Backends
import SigModel.Model.RWLock

namespace SigModel.Backends

/-! ## 1. Static storage: after any chain of reloads, lookups answer as after a fresh start -/

/-- The table after a chain of configurations (each given as its list of configured backends). -/
def runReloads (c₀ : List Backend) (cs : List (List Backend)) : Table := cs.foldl reload (fresh c₀)

/-- The configuration in force at the end of a chain. -/
def finalCfg : List Backend → List (List Backend) → List Backend
  | c, [] => c
  | _, c :: cs => finalCfg c cs

theorem tget_foldl_reload (cs : List (List Backend)) (c₀ : List Backend) (t : Table)
    (ht : ∀ h, tget t h = tget (fresh c₀) h) (h : String) :
    tget (cs.foldl reload t) h = tget (fresh (finalCfg c₀ cs)) h := by
  induction cs generalizing c₀ t with
  | nil => exact ht h
  | cons c cs ih => exact ih c (reload t c) (fun h => tget_reload t c h)

theorem C13_reload_eq_fresh (c₀ : List Backend) (cs : List (List Backend)) (scheme host url : String) :
    getBackend (runReloads c₀ cs) scheme host url = getBackend (fresh (finalCfg c₀ cs)) scheme host url :=
  getBackend_congr _ _ (fun h => tget_foldl_reload cs c₀ (fresh c₀) (fun _ => rfl) h) scheme host url

end SigModel.Backends
