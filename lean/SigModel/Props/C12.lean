/-
C12 — A remote federation server cannot crash or stall the local server.

Property theorems about the model of the federation client
(`Model/ShapesFederation.lean`) for *every* `Facts` value that passes the
decidable check `Facts.sound`; `C12_generated_sound` evaluates that check on the
facts regenerated from the current Go source, so the unconditional statements
(`C12_total`, `C12_contained`, …) hold for the tree as it is now.  Removing a
guard from `ServerMessage.CheckValid`, dropping its call in `readPump`, adding an
unguarded dereference to a handler, re-introducing an unchecked type assertion
in `filterMessage`, locking `helloMu` in `deferMessage` again or removing the
re-check of `c.conn` in `closeConnection` makes `C12_generated_sound` false.
-/
import SigModel.Lemmas.ShapesFederation

namespace SigModel.ShapesFederation

/-! ## The regenerated facts are sound -/

theorem C12_generated_sound : generatedFacts.sound = true := by decide

/-- Spelled out, part 1: every sub-object dereference the extractor found in processWelcome /
processHello / processMessage / filterMessage is covered by the validation tables. -/
theorem C12_derefs_validated : generatedFacts.derefs.all generatedFacts.covers = true :=
  sound_mem C12_generated_sound (by simp [Facts.soundList])

/-- Part 2: … and each of them is a `crash` branch of the model (the model is not out of date). -/
theorem C12_model_covers_derefs : generatedFacts.derefs.all (fun d => modelDerefs.contains d) = true :=
  sound_mem C12_generated_sound (by simp [Facts.soundList])

/-- Part 3: the three mutexes of the hello path are different ones. -/
theorem C12_no_deadlock_facts : Locks generatedFacts := sound_locks C12_generated_sound

/-- The "validated ⇒ non-nil" table as a theorem: a message that `readPump` hands to the handlers has
the sub-object of its type, events have the sub-object of their target/type, join lists have no
`null` entry. -/
theorem C12_validated_nonnil (F : Facts) (hs : F.sound = true) (m : ServerMessage) (hv : validate F m = true) :
    Present F m := present_of_valid hs hv

/-! ## One step -/

/-- What a step is allowed to do, by the statement: forward only after the remote hello, end the
session only for a "bye" of the remote server. -/
def opPerm (st : Fed) : Op → Perm
  | .peer (.msg m) _ => permOf st m
  | _ => ⟨st.hello.isSome, false⟩

theorem ext_step (F : Facts) (hs : F.sound = true) (st : Fed) (op : Op) :
    Ext (opPerm st op) { st := st } (step F st op) := by
  have L := sound_locks hs
  unfold step
  cases op with
  | start rid hide feat =>
    dsimp -zeta only
    extract_lets c
    split
    · exact Ext.refl _ _
    · split
      · exact Ext.of_eq rfl rfl
      · refine Ext.comp (fun x => Ext.emit x _ rfl) ?_
        refine Ext.comp (fun x => ext_sendLocal _ _ x (by simp)) ?_
        exact Ext.of_eq rfl rfl
  | peer d wf =>
    dsimp -zeta only
    extract_lets c c1
    have hperm : ∀ (c' : Ctx), c'.st.hello = st.hello →
        Ext (match d with
          | .msg m => permOf c'.st m
          | .undecodable => ⟨false, false⟩) c' (onFrame F d c') → Ext (opPerm st (.peer d wf)) c' (onFrame F d c') := by
      intro c' hh h
      cases d with
      | undecodable => exact h.mono (by simp) (by simp)
      | msg m => simpa [opPerm, permOf, hh] using h
    split
    · exact Ext.refl _ _
    · split
      · have h1 : Ext (opPerm st (.peer d wf)) c c1 :=
          (Ext.of_eq (c := c) (c' := { st := { st with writeBroken := true } }) rfl rfl).trans
            (hperm _ rfl (ext_onFrame F hs d _))
        refine Ext.comp (fun x => ext_afterRead F x) ?_
        split
        · exact h1.trans ((ext_lock [] F.sendLock c1 (by simp)).trans (ext_scheduleReconnectLocked _))
        · exact h1
      · refine Ext.comp (fun x => ext_afterRead F x) ?_
        exact hperm c rfl (ext_onFrame F hs d c)
  | bin => exact Ext.refl _ _
  | big n =>
    dsimp -zeta only
    extract_lets c
    split
    · exact Ext.refl _ _
    · split
      · unfold connectionLost
        refine Ext.comp (fun x => ext_afterRead F x) ?_
        exact (ext_lock [] F.sendLock c (by simp)).trans (ext_scheduleReconnectLocked _)
      · refine Ext.comp (fun x => ext_afterRead F x) ?_
        exact (ext_onFrame F hs _ c).mono (by simp [opPerm, permOf, c]) (by simp [permOf])
  | drop =>
    dsimp -zeta only
    extract_lets c
    split
    · exact Ext.refl _ _
    · unfold connectionLost
      refine Ext.comp (fun x => ext_afterRead F x) ?_
      refine Ext.trans (Ext.of_eq (c' := { st := { st with connOpen := false } }) rfl rfl) ?_
      exact (ext_lock [] F.sendLock _ (by simp)).trans (ext_scheduleReconnectLocked _)
  | hold =>
    dsimp -zeta only
    extract_lets c
    split
    · exact Ext.refl _ _
    · unfold connectionLost
      refine Ext.comp (fun x => ext_afterRead F x) ?_
      refine Ext.trans (Ext.of_eq (c' := { st := { st with connOpen := false, peerDown := true } }) rfl rfl) ?_
      exact (ext_lock [] F.sendLock _ (by simp)).trans (ext_scheduleReconnectLocked _)
  | up =>
    dsimp -zeta only
    extract_lets c
    split
    · exact Ext.refl _ _
    · refine Ext.comp (fun x => ext_afterRead F x) ?_
      exact Ext.of_eq rfl rfl
  | localLeave =>
    dsimp -zeta only
    extract_lets c c1 c2
    split
    · refine Ext.comp (fun x => ext_afterRead F x) ?_
      have h2 : Ext (opPerm st .localLeave) c c2 := (Ext.of_eq (c := c) (c' := c1) rfl rfl).trans
        (ext_sendMessageLocked F [F.sendLock] _ _ c1 (by simp [L.ds]))
      exact h2.trans (Ext.upd _ c2 _)
    · exact Ext.refl _ _
  | localMsg =>
    dsimp -zeta only
    extract_lets c rcp
    split
    · refine Ext.comp (fun x => ext_afterRead F x) ?_
      exact ext_sendMessage F L [] (heldOK_nil F) _ _ c
    · exact Ext.refl _ _
  | probe => exact Ext.refl _ _
  | expire =>
    dsimp -zeta only
    extract_lets c
    refine Ext.comp (fun x => ext_afterRead F x) ?_
    exact ext_sessionEnds F L c

/-- **C12_total.**  Whatever the remote server sends — any decoded message value or an undecodable
frame — in whatever state the federation client is, with or without the write to the remote
failing, and for every other event of the connection (drop, oversized frame, local leave /
message, session expiry): the step neither crashes nor deadlocks. -/
theorem C12_total (F : Facts) (hs : F.sound = true) (st : Fed) (op : Op) : Safe (step F st op) :=
  (ext_step F hs st op).1

/-- … for the code as it is now. -/
theorem C12_total_generated (st : Fed) (op : Op) : (step generatedFacts st op).fault = none :=
  C12_total generatedFacts C12_generated_sound st op

/-- All states of all histories: every step of every sequence of operations, from any state, is safe. -/
def trace (F : Facts) : Fed → List Op → List Ctx
  | _, [] => []
  | st, op :: ops => step F st op :: trace F (step F st op).st ops

theorem C12_total_run (F : Facts) (hs : F.sound = true) (ops : List Op) (st : Fed) :
    ∀ c ∈ trace F st ops, Safe c := by
  induction ops generalizing st with
  | nil => intro c hc; simp [trace] at hc
  | cons op ops ih =>
    intro c hc
    simp only [trace, List.mem_cons] at hc
    rcases hc with h | h
    · subst h; exact C12_total F hs st op
    · exact ih _ c h

/-- **C12_contained.**  Everything a step does is addressed to the one federated session (its own
connection) or to the remote server: messages of the remote server reach the local client only
after the remote hello, before that it can only get an error for its join request or a federation
state event; the federation connection may be closed or re-opened; the session itself ends only by
a forwarded "bye".  The effect type has no other addressee: nothing is sent to other sessions. -/
theorem C12_contained (F : Facts) (hs : F.sound = true) (st : Fed) (op : Op) :
    ∀ e ∈ (step F st op).effs, Eff.contained (opPerm st op) e = true := by
  obtain ⟨_, es, he, ha⟩ := ext_step F hs st op
  intro e hm
  rw [he] at hm
  exact ha e (by simpa using hm)

/-- A frame that cannot be decoded, or that fails the shape validation, changes nothing and has no effect. -/
theorem C12_invalid_ignored (F : Facts) (hs : F.sound = true) (c : Ctx) :
    onFrame F .undecodable c = c ∧ ∀ m, validate F m = false → onFrame F (.msg m) c = c := by
  refine ⟨by simp [onFrame, sound_undecodable hs], ?_⟩
  intro m hv
  simp [onFrame, hv]

/-- The federated session is ended only by a "bye" of the remote server after its hello. -/
theorem C12_session_closed_only_by_bye (F : Facts) (hs : F.sound = true) (st : Fed) (op : Op)
    (h : Eff.sessionClosed ∈ (step F st op).effs) :
    ∃ m wf, op = .peer (.msg m) wf ∧ m.type = "bye" ∧ st.hello.isSome = true := by
  have hc := C12_contained F hs st op _ h
  cases op with
  | peer d wf =>
    cases d with
    | msg m =>
      simp only [Eff.contained, opPerm, permOf, Bool.and_eq_true, decide_eq_true_eq] at hc
      exact ⟨m, wf, rfl, hc.2, hc.1⟩
    | undecodable => simp [Eff.contained, opPerm] at hc
  | _ => simp [Eff.contained, opPerm] at hc

/-- Before the remote hello nothing of what the remote server sends is forwarded to the local client. -/
theorem C12_prehello_local_effects (F : Facts) (hs : F.sound = true) (st : Fed) (op : Op) (hn : st.hello = none)
    (k : LocalKind) (m : String) (h : Eff.toLocal k m ∈ (step F st op).effs) : k ≠ .forwarded := by
  have hc := C12_contained F hs st op _ h
  intro hk
  subst hk
  cases op with
  | peer d wf =>
    cases d with
    | msg m => simp [Eff.contained, opPerm, permOf, hn] at hc
    | undecodable => simp [Eff.contained, opPerm, hn] at hc
  | _ => simp [Eff.contained, opPerm, hn] at hc

/-! ## The guards are necessary: the same model under the facts of the pinned tree

`pinnedFacts` is what the extractor produced from the tree before the three `fix:` commits
(no `ServerMessage.CheckValid`, two unchecked assertions, `deferMessage` locking `helloMu`,
no re-check in `closeConnection`).  The model then reproduces each defect. -/

def pinnedFacts : Facts where
  maxMessageSize := 65536
  federationFeature := "federation"
  checkValidExists := false
  typeMustBeSet := false
  requiredByType := []
  eventValidated := false
  requiredByEvent := []
  entriesByEvent := []
  readPumpSkipsUndecodable := true
  readPumpValidates := false
  preHelloWelcomeType := "welcome"
  derefs := [("welcome", "", "", "Welcome")]
  filterUncheckedAsserts := 2
  helloLock := "helloMu"
  sendLock := "mu"
  deferMessageLock := "helloMu"
  sendErrorDefers := true
  sendErrorReconnects := true
  sendWithoutConnDefersNonRoom := true
  closeRechecksConn := false
  handlerUncheckedAsserts := 0
  unboundedLoops := []
  flushOverSnapshot := true

example : pinnedFacts.sound = false := by decide

/-- A bare message: only `type` (and `id`) set, every sub-object missing. -/
def bare (type id : String) : ServerMessage :=
  { id := id, type := type, error := none, welcome := none, hello := none, bye := false, room := none,
    message := none, control := none, event := none, transient := false, internal := false, dialout := false }

/-- `{"type":"welcome"}` right after the upgrade: nil dereference in `processWelcome` (finding C12-shape-crash). -/
theorem C12_unvalidated_crashes :
    (step pinnedFacts (startState false false) (.peer (.msg (bare "welcome" "")) false)).fault
      = some (.crash "processWelcome:msg.Welcome") := by decide

/-- … and with today's facts the same frame is ignored. -/
example : (step generatedFacts (startState false false) (.peer (.msg (bare "welcome" "")) false)).effs = [] := by decide

/-- Any unexpected frame while the hello is pending, with the write of the re-sent hello failing:
`deferMessage` locks the mutex `processHello` holds (finding C12-hello-write-deadlock). -/
theorem C12_defer_under_hello_lock_deadlocks :
    (step { generatedFacts with deferMessageLock := generatedFacts.helloLock } (startState false false)
      (.peer (.msg (bare "x" "unknown-id")) true)).fault = some (.deadlock "helloMu") := by decide

/-- A welcome without the federation feature, with the write of the bye failing: `closeConnection`
uses `c.conn` after the failed write reset it (finding C12-bye-write-nil-conn). -/
theorem C12_unchecked_bye_crashes :
    (step { generatedFacts with closeRechecksConn := false } (startState false false)
      (.peer (.msg { bare "welcome" "" with welcome := some { features := [] } }) true)).fault
      = some (.crash "closeConnection:c.conn.WriteControl") := by decide

/-! ### Values the handlers decode themselves, loops of the read loop -/

/-- The hello of a successful resume, the connection breaking while the queued messages are sent (the write fails,
`sendMessageLocked` puts the message back): a flush loop that takes its messages from the live queue never
ends — the read loop spins holding `mu`, and whoever needs `mu` next (the session being closed by the hub's
housekeeping, the client's next message) waits forever. -/
def resumedWithPending : Fed :=
  { startState true false with resumeId := "remote-resume", helloMsgId := "h2", reconnecting := true,
                               pending := ["message(@LSID@)"] }

theorem C12_live_queue_flush_spins :
    (step { generatedFacts with flushOverSnapshot := false } resumedWithPending
      (.peer (.msg { bare "hello" "h2" with hello := some { sessionId := "remote-sid", resumeId := "remote-resume" } }) true)).fault
      = some (.spin "processHello:pending-messages") := by decide

/-- … with the snapshot the same step ends: the message is queued again, the connection re-opened. -/
example :
    let c := step generatedFacts resumedWithPending
      (.peer (.msg { bare "hello" "h2" with hello := some { sessionId := "remote-sid", resumeId := "remote-resume" } }) true)
    c.fault = none ∧ c.st.pending = ["message(@LSID@)"] ∧ c.effs.contains .reconnected = true := by decide

/-- An `already_joined` error whose details are a well-formed object without `room`, the nil test on the value
`processMessage` decoded from them missing: nil dereference in the read loop. -/
theorem C12_unguarded_details_crashes :
    (step { generatedFacts with derefs := detailsRoomDeref :: generatedFacts.derefs }
      { startState true false with hello := some { sessionId := "remote-sid", resumeId := "remote-resume" } }
      (.peer (.msg { bare "error" "" with error := some { code := "already_joined", detailsEmpty := false, detOk := true,
                                                           detRoom := none, origDroom := "~" } }) false)).fault
      = some (.crash "processMessage:details.Room") := by decide

/-- … with today's facts the error is forwarded (one message to the local client, nothing else). -/
example :
    let c := step generatedFacts
      { startState true false with hello := some { sessionId := "remote-sid", resumeId := "remote-resume" } }
      (.peer (.msg { bare "error" "" with error := some { code := "already_joined", detailsEmpty := false, detOk := true,
                                                           detRoom := none, origDroom := "~" } }) false)
    c.fault = none ∧ c.effs.length = 1 := by decide

/-- Spelled out: no loop of the handlers depends on live state, the pending messages are sent from a snapshot,
no unchecked assertion on decoded JSON. -/
theorem C12_read_loop_bounded :
    generatedFacts.unboundedLoops = [] ∧ generatedFacts.flushOverSnapshot = true ∧
    generatedFacts.handlerUncheckedAsserts = 0 := by decide

/-- While the remote server refuses connections the client only re-arms its timer: nothing is sent to anybody. -/
example : (step generatedFacts { startState true false with connOpen := false, peerDown := true, timer := true } .localMsg).effs = [] := by
  decide

/-! ## Non-vacuity -/

/-- The hypothesis of the theorems is satisfiable (by today's tree) … -/
example : ∃ F : Facts, F.sound = true := ⟨generatedFacts, C12_generated_sound⟩

/-- … validation does accept messages (a well-formed room answer) and does reject some. -/
example : validate generatedFacts { bare "room" "join1" with room := some { roomId := "room-L" } } = true := by decide
example : validate generatedFacts (bare "room" "join1") = false := by decide

/-- A valid message after the hello is forwarded to the local client (so "contained" is not "nothing happens"). -/
example :
    (step generatedFacts { startState false false with hello := some { sessionId := "r", resumeId := "x" } }
      (.peer (.msg (bare "bye" "")) false)).effs.contains .sessionClosed = true := by decide

end SigModel.ShapesFederation
