/-
C10 — No client input can crash the server or disturb other sessions.
-/
import SigModel.Lemmas.ShapesClient

namespace SigModel.ShapesClient
open SigModel.Generated.ShapesClient

/-- Every dereference of a pointer below a client message that the extractor
finds in the Go sources is a `crash` branch of the model. -/
theorem C10_derefs_accounted : derefs.all (fun d => sites.contains d) = true := by decide

theorem C10_assertions_known :
    typeAssertions = knownTypeAssertions ∧ indexExprs = knownIndexExprs := by decide

end SigModel.ShapesClient
