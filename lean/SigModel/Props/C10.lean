/-
C10 — No client input can crash the server or disturb other sessions.

Theorems about the model of `Model/ShapesClient.lean` instantiated with the facts
regenerated from the working tree (`Fc = Facts.current`: the validation table of
every `CheckValid`, the dereference table, the order decode → validate →
dispatch, the dispatch table, the label of the message counter, the size
limit), stated against `Spec/ShapesClient.lean`.

"Every byte string" is "every `Frame`": any size, text or binary, a decode error
or any value of the decoded structure (all sub-objects optional, all leaves
arbitrary) — in every state of the sender's connection.
-/
import SigModel.Lemmas.ShapesClient
import SigModel.Model.ShapesMedia

namespace SigModel.ShapesClient
open SigModel.Generated.ShapesClient

/-! ## 0. The tie: what the extractor finds is what the model accounts for -/

/-- Every dereference of a pointer below a client message that the extractor
finds in the Go sources is a `crash` branch of the model (`sites`). -/
theorem C10_derefs_accounted : derefs.all (fun d => sites.contains d) = true := by decide

/-- Unchecked type assertions and index expressions over client-controlled values are the known ones. -/
theorem C10_assertions_known :
    typeAssertions = knownTypeAssertions ∧ indexExprs = knownIndexExprs ∧
    failedAssertionUses = knownFailedAssertionUses := by decide

/-- The media code behind the handlers (Janus client, proxy MCU client, media proxy), where the payload
of a client message travels as plain maps and interface values: every single-value type assertion, every
index / slice expression that is not a map lookup, every write to a map that may be nil and every
unguarded dereference below a client-message parameter in those files is one of the reviewed ones
(`Model/ShapesMedia.lean`, duplicates counted). -/
theorem C10_media_tables_reviewed :
    Generated.ShapesMedia.mediaTypeAssertions = ShapesMedia.reviewedTypeAssertions ∧
    Generated.ShapesMedia.mediaIndexExprs = ShapesMedia.reviewedIndexExprs ∧
    Generated.ShapesMedia.mediaMapWrites = ShapesMedia.reviewedMapWrites ∧
    Generated.ShapesMedia.mediaDerefs = ShapesMedia.reviewedDerefs := by decide

/-- The code that handles a server message built from client data on the *recipient's* side (delivery,
filtering, queueing for a recipient without connection, flushing on resume; `tools/extract/shapesdeferred.go`):
the decodes of raw bytes, the unguarded dereferences below a `*ServerMessage` / `*AsyncMessage`, the calls
such a message flows into, the type assertions and index expressions are the reviewed ones
(`Model/ShapesDeferred.lean`), and every unguarded dereference below a payload that is decoded again is a
`crash` branch of the model. -/
theorem C10_deferred_tables_reviewed :
    Generated.ShapesDeferred.payloadParsers = ShapesDeferred.reviewedPayloadParsers ∧
    Generated.ShapesDeferred.payloadDerefs.all (fun d => ShapesDeferred.payloadSites.contains d) = true ∧
    Generated.ShapesDeferred.envelopeDerefs = ShapesDeferred.reviewedEnvelopeDerefs ∧
    Generated.ShapesDeferred.envelopeFlows = ShapesDeferred.reviewedEnvelopeFlows ∧
    Generated.ShapesDeferred.deferredTypeAssertions = ShapesDeferred.reviewedTypeAssertions ∧
    Generated.ShapesDeferred.deferredIndexExprs = ShapesDeferred.reviewedIndexExprs := by decide

/-- On the tree as it is, no pointer member of a payload that is decoded again (`IsChatRefresh`,
`filterMessage`) is dereferenced without a nil check. -/
theorem C10_payload_derefs_guarded : Generated.ShapesDeferred.payloadDerefs = [] := by decide

/-- Decode and validate precede every use; only `hello` is dispatched without a
session; binary frames are answered; the read limit is the constant; the
message counter is labelled from a fixed set. -/
theorem C10_order_facts :
    Fc.validateBeforeDispatch = true ∧ Fc.preHelloOnlyHello = true ∧ Fc.binaryFrameAnsweredInvalidFormat = true ∧
    Fc.readLimitIsMaxMessageSize = true ∧ Fc.messageCounterLabelFromFixedSet = true ∧ Fc.maxMessageSize = 65536 := by decide

/-- Every raw JSON member of a client message type that is sent on to other
sessions is passed to `json.Valid` by its `CheckValid` (the auth `params` only go
into the request to the Nextcloud backend, whose serialisation checks them). -/
theorem C10_raw_members_checked :
    rawMembers.all (fun r => rawValidated.contains r || r == ("HelloClientMessageAuth", "Params")) = true := by decide

/-! ## 1. No crash -/

theorem handlerFor_cases (t : String) :
    (t = "room" ∧ handlerFor Fc t = "processRoom") ∨
    (t = "message" ∧ handlerFor Fc t = "processMessageMsg") ∨
    (t = "control" ∧ handlerFor Fc t = "processControlMsg") ∨
    (t = "internal" ∧ handlerFor Fc t = "processInternalMsg") ∨
    (t = "transient" ∧ handlerFor Fc t = "processTransientMsg") ∨
    (t = "bye" ∧ handlerFor Fc t = "processByeMsg") ∨
    handlerFor Fc t = "" := by
  unfold handlerFor
  simp only [Fc, Facts.current, dispatchTable, List.lookup]
  by_cases h1 : t = "room"
  · subst h1; left; decide
  by_cases h2 : t = "message"
  · subst h2; right; left; decide
  by_cases h3 : t = "control"
  · subst h3; right; right; left; decide
  by_cases h4 : t = "internal"
  · subst h4; right; right; right; left; decide
  by_cases h5 : t = "transient"
  · subst h5; right; right; right; right; left; decide
  by_cases h6 : t = "bye"
  · subst h6; right; right; right; right; right; left; decide
  right; right; right; right; right; right
  by_cases h7 : t = "hello"
  · subst h7; decide
  by_cases h8 : t = "*"
  · subst h8; decide
  have e1 : (t == "room") = false := by simpa using h1
  have e2 : (t == "message") = false := by simpa using h2
  have e3 : (t == "control") = false := by simpa using h3
  have e4 : (t == "internal") = false := by simpa using h4
  have e5 : (t == "transient") = false := by simpa using h5
  have e6 : (t == "bye") = false := by simpa using h6
  have e7 : (t == "hello") = false := by simpa using h7
  have e8 : (t == "*") = false := by simpa using h8
  simp only [e1, e2, e3, e4, e5, e6, e7, e8]
  decide

theorem withHttp_crash {st : St} {o : Outcome} {site : String} (h : withHttp st o = .crash site) : o = .crash site := by
  unfold withHttp at h
  cases o with
  | crash s => simpa using h
  | ok ob nx =>
    simp only [] at h
    split at h
    · split at h <;> simp at h
    · simp at h

theorem modelHello_no_crash (st : St) (m : ClientMessage) (hv : checkValid Fc m = .ok) (ht : m.mtype = "hello")
    (site : String) : modelHello Fc st m ≠ .crash site := by
  obtain ⟨h, hm, hh⟩ := valid_hello hv ht
  unfold modelHello
  rw [hm]
  simp only []
  cases hr : h.resume with
  | other => simp
  | empty =>
    obtain ⟨a, ha, hurl⟩ := hello_auth hh hr
    rw [ha]
    simp only []
    have hvb : Fc.validateBeforeDispatch = true := by decide
    have hreg : (Fc.failedAssertionUses.any fun d => decide (d.1 = "Hub.processRegister")) = false := by decide
    simp only [hvb, hreg, if_true, Bool.false_eq_true, if_false]
    by_cases hc : effType a = "client" ∨ effType a = "federation"
    · rw [if_pos hc]
      rcases hurl hc with hu | hu <;> rw [hu] <;> simp only []
      · repeat (first | split | simp)
      · simp
    · rw [if_neg hc]
      repeat (first | split | simp)

theorem modelRoom_no_crash (st : St) (s : Sess) (m : ClientMessage) (hv : checkValid Fc m = .ok) (ht : m.mtype = "room")
    (site : String) : modelRoom st s m ≠ .crash site := by
  obtain ⟨r, hm, hr⟩ := valid_room hv ht
  unfold modelRoom
  rw [hm]
  simp only []
  cases hid : r.roomId with
  | empty => simp only []; repeat (first | split | simp)
  | «by» =>
    simp only []
    cases hf : r.federation with
    | none => simp only []; repeat (first | split | simp)
    | some f =>
      have := room_federation hr hf
      simp [this]
  | deny =>
    simp only []
    cases hf : r.federation with
    | none => simp only []; repeat (first | split | simp)
    | some f =>
      have := room_federation hr hf
      simp [this]
  | other n =>
    simp only []
    cases hf : r.federation with
    | none => simp only []; repeat (first | split | simp)
    | some f =>
      have := room_federation hr hf
      simp [this]

theorem checkData_no_crash (d : DataShape) (site : String) : checkData d ≠ .crash site := by
  unfold checkData; repeat (first | split | simp [invalid])

theorem modelMessage_no_crash (st : St) (s : Sess) (m : ClientMessage) (hv : checkValid Fc m = .ok) (ht : m.mtype = "message")
    (site : String) : modelMessage Fc st s m ≠ .crash site := by
  obtain ⟨mm, hm, _⟩ := valid_message hv ht
  have hmedia : Fc.mediaTablesReviewed = true := by decide
  unfold modelMessage mediaCode
  rw [hm]
  simp only [hmedia, if_true]
  split
  · cases hd : checkData mm.data with
    | ok =>
      simp only []
      repeat' split
      all_goals first
        | (intro h; exact deliver_no_crash _ _ _ _ _ (amb_crash h))
        | simp
    | err c => simp
    | crash s2 => exact absurd hd (checkData_no_crash _ _)
  · intro h; exact deliver_no_crash _ _ _ _ _ (amb_crash h)

theorem modelControl_no_crash (st : St) (s : Sess) (m : ClientMessage) (hv : checkValid Fc m = .ok) (ht : m.mtype = "control")
    (site : String) : modelControl Fc st s m ≠ .crash site := by
  obtain ⟨mm, hm, _⟩ := valid_control hv ht
  unfold modelControl
  rw [hm]
  simp only []
  split
  · simp
  · intro h; exact deliver_no_crash _ _ _ _ _ (amb_crash h)

theorem dialoutHandler_no_crash (i : Internal) (site : String) : dialoutHandler Fc i ≠ .crash site := by
  have hg : dialoutHandlerGuarded Fc = true := by decide
  unfold dialoutHandler
  simp only [hg, if_true]
  split
  · cases i.dialout <;> simp
  · simp

theorem internalSwitch_no_crash (st : St) (s : Sess) (i : Internal) (http : Option String) (hi : checkInternal Fc i = .ok)
    (site : String) : internalSwitch st s i http ≠ .crash site := by
  unfold internalSwitch
  simp only []
  by_cases h1 : i.itype = "addsession"
  · obtain ⟨a, ha⟩ := Option.isSome_iff_exists.mp (internal_add hi h1)
    rw [if_pos h1, ha]
    simp only []
    split
    · simp
    · split <;> simp
  rw [if_neg h1]
  by_cases h2 : i.itype = "updatesession"
  · obtain ⟨a, ha⟩ := Option.isSome_iff_exists.mp (internal_upd hi h2)
    rw [if_pos h2, ha]
    simp only []
    split <;> simp
  rw [if_neg h2]
  by_cases h3 : i.itype = "removesession"
  · obtain ⟨a, ha⟩ := Option.isSome_iff_exists.mp (internal_rem hi h3)
    rw [if_pos h3, ha]
    simp only []
    split <;> simp
  rw [if_neg h3]
  by_cases h4 : i.itype = "incall"
  · obtain ⟨a, ha⟩ := Option.isSome_iff_exists.mp (internal_incall hi h4)
    rw [if_pos h4, ha]
    simp
  rw [if_neg h4]
  by_cases h5 : i.itype = "dialout"
  · obtain ⟨d, hd, hdv⟩ := internal_dialout hi h5
    rw [if_pos h5, hd]
    simp only []
    by_cases hs : d.dtype = "status"
    · obtain ⟨v, hv⟩ := Option.isSome_iff_exists.mp (dialout_status hdv hs)
      rw [if_pos hs, hv]
      simp only []
      split <;> simp
    · rw [if_neg hs]
      simp
  rw [if_neg h5]
  simp

theorem modelInternal_no_crash (st : St) (s : Sess) (m : ClientMessage) (hv : checkValid Fc m = .ok) (ht : m.mtype = "internal")
    (site : String) : modelInternal Fc st s m ≠ .crash site := by
  obtain ⟨i, hm, hi⟩ := valid_internal hv ht
  unfold modelInternal
  rw [hm]
  simp only []
  split
  · simp
  · split
    · cases hd : dialoutHandler Fc i with
      | crash s2 => exact absurd hd (dialoutHandler_no_crash i s2)
      | notConsumed => simp only []; exact internalSwitch_no_crash _ _ _ _ hi _
      | consumed stop http =>
        simp only []
        split
        · simp
        · exact internalSwitch_no_crash _ _ _ _ hi _
    · exact internalSwitch_no_crash _ _ _ _ hi _

theorem modelTransient_no_crash (st : St) (s : Sess) (m : ClientMessage) (hv : checkValid Fc m = .ok) (ht : m.mtype = "transient")
    (site : String) : modelTransient st s m ≠ .crash site := by
  obtain ⟨t, hm, _⟩ := valid_transient hv ht
  unfold modelTransient
  rw [hm]
  simp only []
  repeat (first | split | simp)

theorem modelProxy_no_crash (st : St) (m : ClientMessage) (hv : checkValid Fc m = .ok) (site : String) :
    modelProxy st m ≠ .crash site := by
  unfold modelProxy
  split
  · rename_i ht
    obtain ⟨mm, hm, _⟩ := valid_message hv ht
    rw [hm]; simp
  · simp

theorem dispatchSession_no_crash (st : St) (s : Sess) (m : ClientMessage) (hv : checkValid Fc m = .ok) (site : String) :
    dispatchSession Fc st s m ≠ .crash site := by
  unfold dispatchSession
  simp only []
  rcases handlerFor_cases m.mtype with ⟨ht, hh⟩ | ⟨ht, hh⟩ | ⟨ht, hh⟩ | ⟨ht, hh⟩ | ⟨ht, hh⟩ | ⟨ht, hh⟩ | hh
  · rw [hh]; simp only [if_true]; exact modelRoom_no_crash _ _ _ hv ht _
  · rw [hh]; simp only [String.reduceEq, if_false, if_true]; exact modelMessage_no_crash _ _ _ hv ht _
  · rw [hh]; simp only [String.reduceEq, if_false, if_true]; exact modelControl_no_crash _ _ _ hv ht _
  · rw [hh]; simp only [String.reduceEq, if_false, if_true]; exact modelInternal_no_crash _ _ _ hv ht _
  · rw [hh]; simp only [String.reduceEq, if_false, if_true]; exact modelTransient_no_crash _ _ _ hv ht _
  · rw [hh]; simp only [String.reduceEq, if_false, if_true]; simp [modelBye]
  · rw [hh]; simp only [String.reduceEq, if_false, if_true]; simp

theorem processMessage_no_crash (st : St) (m : ClientMessage) (site : String) : processMessage Fc st m ≠ .crash site := by
  unfold processMessage
  have hvb : Fc.validateBeforeDispatch = true := by decide
  have hlb : Fc.messageCounterLabelFromFixedSet = true := by decide
  have hpre : Fc.preHelloOnlyHello = true := by decide
  simp only [hvb, if_true]
  cases hv : checkValid Fc m with
  | crash s2 => exact absurd hv (checkValid_no_crash _ _)
  | err c => simp
  | ok =>
    simp only [hlb]
    simp only [Bool.not_true, Bool.false_eq_true, false_and, if_false]
    cases hc : st.conn with
    | dead => simp
    | nosession =>
      simp only [hpre, true_and]
      by_cases ht : m.mtype = "hello"
      · simp only [ht, ne_eq, not_true_eq_false, if_false]
        intro h
        cases hx : modelHello Fc st m with
        | crash s2 => exact modelHello_no_crash _ _ hv ht _ hx
        | ok o n => simp [hx, Outcome.remoteSt] at h
      · simp [ht]
    | session s =>
      simp only []
      split
      · exact modelProxy_no_crash _ _ hv _
      · exact dispatchSession_no_crash _ _ _ hv _

/-- **C10_total.** In every state of the sender's connection, no frame — any
size, text or binary, undecodable or any value of the decoded structure — takes
the model to a `crash` outcome. -/
theorem C10_total (st : St) (f : Frame) (site : String) : processFrame Fc st f ≠ .crash site := by
  unfold processFrame
  cases hc : st.conn with
  | dead => simp
  | nosession =>
    simp only []
    intro h
    have := withHttp_crash h
    revert this
    split
    · simp
    · split
      · simp
      · cases f.dec with
        | err => simp
        | ok m => simpa using processMessage_no_crash _ _ _
  | session s =>
    simp only []
    intro h
    have := withHttp_crash h
    revert this
    split
    · simp
    · split
      · simp
      · cases f.dec with
        | err => simp
        | ok m => simpa using processMessage_no_crash _ _ _

/-! ## 2. Messages that fail validation have no effect -/

theorem withHttp_ok (st : St) (o : Obs) (next : St) :
    ∃ h, withHttp st (.ok o next) = .ok { o with http := h } next := by
  unfold withHttp
  simp only []
  split
  · split
    · rename_i v hv; exact ⟨some v, by simp [← hv]⟩
    · exact ⟨_, rfl⟩
  · exact ⟨none, rfl⟩

theorem processMessage_invalid (st : St) (m : ClientMessage) (hv : checkValid Fc m ≠ .ok) :
    ∃ c amb, processMessage Fc st m = .ok { errObs c with sMay := amb } st := by
  unfold processMessage
  have hvb : Fc.validateBeforeDispatch = true := by decide
  simp only [hvb, if_true]
  cases h : checkValid Fc m with
  | ok => exact absurd h hv
  | crash s => exact absurd h (checkValid_no_crash _ _)
  | err c => exact ⟨c, _, rfl⟩

/-- **C10_invalid_no_effect.** A frame within the size limit that is binary,
does not decode, or decodes to a message that fails `CheckValid`, in any state of
a live connection: the sender is answered with exactly one `error`, the
bystander receives nothing, the hub tables do not change, and the model state is
the same afterwards. -/
theorem C10_invalid_no_effect (st : St) (f : Frame) (hlive : st.conn ≠ .dead)
    (hsize : f.size ≤ Fc.maxMessageSize) (hinv : f.invalid Fc = true) :
    ∃ c o, processFrame Fc st f = .ok o st ∧ o.sMust = ["error:" ++ c] ∧ o.bMust = [] ∧ o.bMay = [] ∧ o.st = .same := by
  have hno : ¬ (Fc.readLimitIsMaxMessageSize = true ∧ f.size > Fc.maxMessageSize) := by
    intro h; omega
  have hbin : Fc.binaryFrameAnsweredInvalidFormat = true := by decide
  have fin : ∀ (c : String) (amb : List String),
      ∃ c' o, withHttp st (.ok { errObs c with sMay := amb } st) = .ok o st ∧ o.sMust = ["error:" ++ c'] ∧ o.bMust = [] ∧
        o.bMay = [] ∧ o.st = .same := by
    intro c amb
    obtain ⟨h, hh⟩ := withHttp_ok st { errObs c with sMay := amb } st
    exact ⟨c, _, hh, by simp [errObs], by simp [errObs], by simp [errObs], by simp [errObs]⟩
  unfold processFrame
  cases hc : st.conn with
  | dead => exact absurd hc hlive
  | nosession =>
    simp only []
    rw [if_neg hno]
    by_cases hb : f.binary = true
    · rw [if_pos ⟨hb, hbin⟩]; exact fin _ _
    · rw [if_neg (fun h => hb h.1)]
      cases hd : f.dec with
      | err => exact fin _ _
      | ok m =>
        simp only []
        have hv : checkValid Fc m ≠ .ok := by
          simpa [Frame.invalid, hb, hd] using hinv
        obtain ⟨c, amb, hp⟩ := processMessage_invalid st m hv
        rw [hp]; exact fin _ _
  | session s =>
    simp only []
    rw [if_neg hno]
    by_cases hb : f.binary = true
    · rw [if_pos ⟨hb, hbin⟩]; exact fin _ _
    · rw [if_neg (fun h => hb h.1)]
      cases hd : f.dec with
      | err => exact fin _ _
      | ok m =>
        simp only []
        have hv : checkValid Fc m ≠ .ok := by
          simpa [Frame.invalid, hb, hd] using hinv
        obtain ⟨c, amb, hp⟩ := processMessage_invalid st m hv
        rw [hp]; exact fin _ _

/-! ## 3. The bystander only sees what is addressed to it -/

@[simp] theorem withAmbient_bMust (s : Sess) (o : Obs) : (withAmbient s o).bMust = o.bMust := by
  unfold withAmbient; split <;> rfl
@[simp] theorem withAmbient_bMay (s : Sess) (o : Obs) : (withAmbient s o).bMay = o.bMay := by
  unfold withAmbient; split <;> rfl

theorem modelRoom_by (st : St) (s : Sess) (m : ClientMessage) (o : Obs) (next : St) (ht : m.mtype = "room")
    (h : modelRoom st s m = .ok o next) :
    ∀ k, k ∈ o.bMust ++ o.bMay → k ∈ addrSession st s m := by
  intro k hk
  unfold addrSession
  simp only [ht, String.reduceEq, if_false, if_true]
  unfold modelRoom at h
  cases hr : m.room with
  | none => simp [hr] at h
  | some r =>
    rw [hr] at h
    simp only [] at h ⊢
    repeat' split at h
    all_goals (first | (cases h; done) | skip)
    all_goals (injection h with ho hn; subst ho)
    all_goals (simp only [List.mem_append] at hk)
    all_goals (simp_all [roomEvents, Sess.inBy])
    all_goals (repeat' (rcases hk with hk | hk))
    all_goals simp_all

theorem route_by (s : Sess) (kind : String) (rc : Recipient) (hv ic : Bool) (k : String)
    (hk : k ∈ (route s kind rc hv ic).bMust ++ (route s kind rc hv ic).bMay) : namesBystander s rc = true ∧ k = kind := by
  unfold route at hk
  unfold namesBystander
  repeat' split at hk
  all_goals simp_all [Sess.inBy]

/-- What the recipient's side (`deliver`) leaves of a routed message is still only what `route` addressed. -/
theorem forwarded_by {st : St} {s : Sess} {kind base : String} {d : ServerData} {rc : Recipient} {hv ic : Bool}
    {o : Obs} {next : St} {k : String}
    (h : (deliver Fc st base d (route s kind rc hv ic)).amb s = .ok o next) (hk : k ∈ o.bMust ++ o.bMay) :
    namesBystander s rc = true ∧ k = kind := by
  obtain ⟨o', hx, h1, h2⟩ := amb_ok_inv h
  obtain ⟨hm, hmay⟩ := deliver_ok_inv hx
  rw [h1, h2, hmay] at hk
  rcases hm with hm | hm
  · rw [hm] at hk; exact route_by s kind rc hv ic k hk
  · rw [hm] at hk
    exact route_by s kind rc hv ic k (by simp only [List.nil_append] at hk; exact List.mem_append_right _ hk)

theorem modelMessage_by (st : St) (s : Sess) (m : ClientMessage) (o : Obs) (next : St) (hv : checkValid Fc m = .ok)
    (ht : m.mtype = "message") (h : modelMessage Fc st s m = .ok o next) :
    ∀ k, k ∈ o.bMust ++ o.bMay → k ∈ addrSession st s m := by
  intro k hk
  obtain ⟨mm, hr, hmv⟩ := valid_message hv ht
  have hdv := message_data_valid hmv
  unfold addrSession
  simp only [ht, if_true]
  have hmedia : Fc.mediaTablesReviewed = true := by decide
  unfold modelMessage mediaCode at h
  rw [hr] at h
  simp only [hdv, fwdKind, hmedia, if_true] at h ⊢
  simp only [hr]
  repeat' split at h
  all_goals first
    | (cases h; done)
    | (have := forwarded_by h hk; simp [this.1, this.2]; done)
    | (injection h with ho hn; subst ho
       first
        | (simp [errObs] at hk; done)
        | (simp [mcuObs, namesBystander] at hk ⊢; simp_all; done))

theorem modelControl_by (st : St) (s : Sess) (m : ClientMessage) (o : Obs) (next : St) (hv : checkValid Fc m = .ok)
    (ht : m.mtype = "control") (h : modelControl Fc st s m = .ok o next) :
    ∀ k, k ∈ o.bMust ++ o.bMay → k ∈ addrSession st s m := by
  intro k hk
  obtain ⟨mm, hr, hmv⟩ := valid_control hv ht
  have hdv := control_data_valid hmv
  unfold addrSession
  simp only [ht, String.reduceEq, if_false, if_true]
  unfold modelControl at h
  rw [hr] at h
  simp only [hdv, fwdKind, if_true] at h ⊢
  simp only [hr]
  repeat' split at h
  all_goals first
    | (cases h; done)
    | (have := forwarded_by h hk; simp [this.1, this.2]; done)
    | (injection h with ho hn; subst ho; simp at hk; done)

theorem internalSwitch_by (st : St) (s : Sess) (i : Internal) (http : Option String) (o : Obs) (next : St)
    (hs : s.internal = true) (h : internalSwitch st s i http = .ok o next) :
    ∀ k, k ∈ o.bMust ++ o.bMay → k ∈ (if s.internal && internalNamesBystanderRoom st s i then internalEvents else []) := by
  intro k hk
  unfold internalSwitch at h
  simp only [] at h
  repeat' split at h
  all_goals (first | (cases h; done) | skip)
  all_goals (injection h with ho hn; subst ho)
  all_goals (simp only [List.mem_append, withAmbient_bMust, withAmbient_bMay] at hk)
  all_goals (first | (simp at hk; done) | skip)
  all_goals (simp_all [internalNamesBystanderRoom, internalEvents, Sess.inBy])
  all_goals (repeat' (rcases hk with hk | hk))
  all_goals simp_all

theorem modelInternal_by (st : St) (s : Sess) (m : ClientMessage) (o : Obs) (next : St) (ht : m.mtype = "internal")
    (h : modelInternal Fc st s m = .ok o next) :
    ∀ k, k ∈ o.bMust ++ o.bMay → k ∈ addrSession st s m := by
  intro k hk
  unfold addrSession
  simp only [ht, String.reduceEq, if_false, if_true]
  unfold modelInternal at h
  cases hr : m.internal with
  | none => simp [hr] at h
  | some i =>
    rw [hr] at h
    simp only [] at h ⊢
    by_cases hs : s.internal = true
    · simp only [hs, Bool.not_true, Bool.false_eq_true, if_false] at h
      split at h
      · cases hd : dialoutHandler Fc i with
        | crash s2 => exact absurd hd (dialoutHandler_no_crash i s2)
        | notConsumed => rw [hd] at h; exact internalSwitch_by st s i _ o next hs h k hk
        | consumed stop http =>
          rw [hd] at h
          simp only [] at h
          split at h
          · injection h with ho hn; subst ho; simp at hk
          · exact internalSwitch_by st s i _ o next hs h k hk
      · exact internalSwitch_by st s i _ o next hs h k hk
    · have hf : s.internal = false := by simpa using hs
      simp only [hf, Bool.not_false, if_true] at h
      injection h with ho hn; subst ho; simp at hk

theorem modelTransient_by (st : St) (s : Sess) (m : ClientMessage) (o : Obs) (next : St) (hv : checkValid Fc m = .ok)
    (ht : m.mtype = "transient") (h : modelTransient st s m = .ok o next) :
    ∀ k, k ∈ o.bMust ++ o.bMay → k ∈ addrSession st s m := by
  intro k hk
  obtain ⟨t, hr, htv⟩ := valid_transient hv ht
  have hvv := transient_value_valid htv
  unfold addrSession
  simp only [ht, String.reduceEq, if_false, if_true]
  unfold modelTransient at h
  rw [hr] at h
  simp only [hvv, fwdKind, if_true] at h
  repeat' split at h
  all_goals (first | (cases h; done) | skip)
  all_goals (injection h with ho hn; subst ho)
  all_goals (first | (simp [errObs] at hk; done) | skip)
  all_goals (simp_all [Sess.inBy])

theorem modelBye_by (st : St) (s : Sess) (m : ClientMessage) (o : Obs) (next : St) (ht : m.mtype = "bye")
    (h : modelBye st s m = .ok o next) :
    ∀ k, k ∈ o.bMust ++ o.bMay → k ∈ addrSession st s m := by
  intro k hk
  unfold addrSession
  simp only [ht, String.reduceEq, if_false, if_true]
  unfold modelBye at h
  simp only [] at h
  injection h with ho hn; subst ho
  simp only [List.mem_append] at hk
  by_cases h1 : s.inBy = true
  · have h1' : s.room = .by := by simpa [Sess.inBy] using h1
    simp only [h1, h1', if_true, true_or, decide_true, Bool.true_or] at hk ⊢
    simp [roomEvents] at hk ⊢
    repeat' (rcases hk with hk | hk)
    all_goals simp_all
  · have h1' : ¬ s.room = .by := by simpa [Sess.inBy] using h1
    have h1f : s.inBy = false := by simpa using h1
    simp only [h1f, Bool.false_eq_true, if_false, false_or, List.not_mem_nil, false_or] at hk
    split at hk
    · rename_i hv
      simp only [hv, Bool.or_true, if_true]
      simp [roomEvents] at hk ⊢
      repeat' (rcases hk with hk | hk)
      all_goals simp_all
    · simp at hk

theorem dispatchSession_by (st : St) (s : Sess) (m : ClientMessage) (o : Obs) (next : St) (hv : checkValid Fc m = .ok)
    (h : dispatchSession Fc st s m = .ok o next) :
    ∀ k, k ∈ o.bMust ++ o.bMay → k ∈ addrSession st s m := by
  unfold dispatchSession at h
  simp only [] at h
  rcases handlerFor_cases m.mtype with ⟨ht, hh⟩ | ⟨ht, hh⟩ | ⟨ht, hh⟩ | ⟨ht, hh⟩ | ⟨ht, hh⟩ | ⟨ht, hh⟩ | hh
  · rw [hh] at h; simp only [if_true] at h; exact modelRoom_by _ _ _ _ _ ht h
  · rw [hh] at h; simp only [String.reduceEq, if_false, if_true] at h; exact modelMessage_by _ _ _ _ _ hv ht h
  · rw [hh] at h; simp only [String.reduceEq, if_false, if_true] at h; exact modelControl_by _ _ _ _ _ hv ht h
  · rw [hh] at h; simp only [String.reduceEq, if_false, if_true] at h; exact modelInternal_by _ _ _ _ _ ht h
  · rw [hh] at h; simp only [String.reduceEq, if_false, if_true] at h; exact modelTransient_by _ _ _ _ _ hv ht h
  · rw [hh] at h; simp only [String.reduceEq, if_false, if_true] at h; exact modelBye_by _ _ _ _ _ ht h
  · rw [hh] at h; simp only [String.reduceEq, if_false, if_true] at h
    injection h with ho hn; subst ho; intro k hk; simp at hk

theorem modelHello_by (st : St) (m : ClientMessage) (o : Obs) (next : St) (h : modelHello Fc st m = .ok o next) :
    o.bMust = [] ∧ o.bMay = [] := by
  unfold modelHello at h
  cases hm : m.hello with
  | none => simp [hm] at h
  | some hh =>
    rw [hm] at h; simp only [] at h
    cases hr : hh.resume with
    | other => rw [hr] at h; simp only [] at h; injection h with ho hn; subst ho; simp [errObs]
    | empty =>
      rw [hr] at h; simp only [] at h
      cases ha : hh.auth with
      | none => simp [ha] at h
      | some a =>
        rw [ha] at h; simp only [] at h
        repeat' split at h
        all_goals (first | (cases h; done) | skip)
        all_goals (injection h with ho hn; subst ho; simp [errObs])

theorem modelProxy_by (st : St) (m : ClientMessage) (o : Obs) (next : St) (h : modelProxy st m = .ok o next) :
    o.bMust = [] ∧ o.bMay = [] := by
  unfold modelProxy at h
  repeat' split at h
  all_goals (first | (cases h; done) | skip)
  all_goals (injection h with ho hn; subst ho; simp)

theorem withHttp_ok_inv {st : St} {x : Outcome} {o : Obs} {next : St} (h : withHttp st x = .ok o next) :
    ∃ o', x = .ok o' next ∧ o.bMust = o'.bMust ∧ o.bMay = o'.bMay := by
  cases x with
  | crash s => simp [withHttp] at h
  | ok o' n' =>
    obtain ⟨hh, he⟩ := withHttp_ok st o' n'
    rw [he] at h
    injection h with ho hn
    subst ho hn
    exact ⟨o', rfl, rfl, rfl⟩

/-- **C10_bystanders.** Whatever a frame makes the bystander receive (must or
may) is among the kinds the statement lets the frame address to it: nothing for
oversized, binary, undecodable or invalid frames and for connections without
session; for a valid message what its content names (the bystander's session or
user, the room shared with it, a room session id, a virtual session in its room). -/
theorem C10_bystanders (st : St) (f : Frame) (o : Obs) (next : St) (h : processFrame Fc st f = .ok o next) :
    ∀ k, k ∈ o.bMust ++ o.bMay → k ∈ addressed Fc st f := by
  have hrl : Fc.readLimitIsMaxMessageSize = true := by decide
  have hbin : Fc.binaryFrameAnsweredInvalidFormat = true := by decide
  have hvb : Fc.validateBeforeDispatch = true := by decide
  have hlb : Fc.messageCounterLabelFromFixedSet = true := by decide
  have hpre : Fc.preHelloOnlyHello = true := by decide
  intro k hk
  unfold processFrame at h
  cases hc : st.conn with
  | dead =>
    rw [hc] at h; simp only [] at h
    injection h with ho hn; subst ho; simp at hk
  | nosession =>
    rw [hc] at h; simp only [] at h
    obtain ⟨o', hx, hb1, hb2⟩ := withHttp_ok_inv h
    rw [hb1, hb2] at hk
    exfalso
    revert hx
    split
    · intro hx; injection hx with ho hn; subst ho; simp at hk
    · split
      · intro hx; injection hx with ho hn; subst ho; simp [errObs] at hk
      · cases hd : f.dec with
        | err => intro hx; injection hx with ho hn; subst ho; simp [errObs] at hk
        | ok m =>
          simp only []
          intro hx
          unfold processMessage at hx
          simp only [hvb, hlb, if_true, hc] at hx
          cases hv : checkValid Fc m with
          | crash s2 => exact absurd hv (checkValid_no_crash _ _)
          | err c => rw [hv] at hx; simp only [] at hx; injection hx with ho hn; subst ho; simp [errObs] at hk
          | ok =>
            rw [hv] at hx
            simp only [Bool.not_true, Bool.false_eq_true, false_and, if_false, hpre, true_and] at hx
            split at hx
            · injection hx with ho hn; subst ho; simp [errObs] at hk
            · cases hy : modelHello Fc st m with
              | crash s2 => simp [hy, Outcome.remoteSt] at hx
              | ok o2 n2 =>
                have := modelHello_by _ _ _ _ hy
                rw [hy] at hx
                simp only [Outcome.remoteSt] at hx
                injection hx with ho hn; subst ho
                split at hk <;> simp [this.1, this.2] at hk
  | session s =>
    rw [hc] at h; simp only [] at h
    obtain ⟨o', hx, hb1, hb2⟩ := withHttp_ok_inv h
    rw [hb1, hb2] at hk
    revert hx
    split
    · intro hx; injection hx with ho hn; subst ho; simp at hk
    · rename_i hsz
      split
      · intro hx; injection hx with ho hn; subst ho; simp [errObs] at hk
      · rename_i hnb
        cases hd : f.dec with
        | err => intro hx; injection hx with ho hn; subst ho; simp [errObs] at hk
        | ok m =>
          simp only []
          intro hx
          unfold processMessage at hx
          simp only [hvb, hlb, if_true, hc] at hx
          cases hv : checkValid Fc m with
          | crash s2 => exact absurd hv (checkValid_no_crash _ _)
          | err c => rw [hv] at hx; simp only [] at hx; injection hx with ho hn; subst ho; simp [errObs] at hk
          | ok =>
            rw [hv] at hx
            simp only [Bool.not_true, Bool.false_eq_true, false_and, if_false] at hx
            have hov : f.oversize Fc = false := by
              simp only [Frame.oversize, decide_eq_false_iff_not]
              intro hgt; exact hsz ⟨hrl, hgt⟩
            have hbf : f.binary = false := by
              cases hb : f.binary with
              | false => rfl
              | true => exact absurd ⟨hb, hbin⟩ hnb
            have hiv : f.invalid Fc = false := by
              simp [Frame.invalid, hbf, hd, hv]
            unfold addressed
            simp only [hov, hiv, Bool.or_self, Bool.false_eq_true, if_false, hc, hd]
            split at hx
            · rename_i hfed
              have := modelProxy_by _ _ _ _ hx
              simp [this.1, this.2] at hk
            · exact dispatchSession_by _ _ _ _ _ hv hx k hk

/-- Where a valid plain `message` of an established session goes when no media server and no federation
target is involved: `route` says whom the content addresses, `deliver` what the recipient's side makes of it. -/
theorem processFrame_plain_message (st : St) (s : Sess) (m : ClientMessage) (mm : MessageMsg) (size : Nat)
    (hc : st.conn = .session s) (hfed : s.fed = false) (hmcu : st.world.mcu = false) (hsz : size ≤ Fc.maxMessageSize)
    (hv : checkValid Fc m = .ok) (ht : m.mtype = "message") (hmm : m.message = some mm) :
    processFrame Fc st { size := size, binary := false, dec := .ok m } =
      withHttp st ((deliver Fc st "message" mm.sdata
        (route s "message" mm.recipient (!st.world.virt.isEmpty) st.world.rcpt.inCall)).amb s) := by
  have hvb : Fc.validateBeforeDispatch = true := by decide
  have hlb : Fc.messageCounterLabelFromFixedSet = true := by decide
  have hno : ¬ (Fc.readLimitIsMaxMessageSize = true ∧ size > Fc.maxMessageSize) := by intro h; omega
  have hdv : mm.dataValid = true := by
    obtain ⟨mm', hm', hmv⟩ := valid_message hv ht
    rw [hmm] at hm'; injection hm' with hm'; subst hm'
    exact message_data_valid hmv
  have hproc : processMessage Fc st m =
      (deliver Fc st "message" mm.sdata (route s "message" mm.recipient (!st.world.virt.isEmpty) st.world.rcpt.inCall)).amb s := by
    unfold processMessage
    simp only [hvb, hlb, if_true, hv, hc, hfed]
    simp only [Bool.not_true, Bool.false_eq_true, false_and, if_false]
    unfold dispatchSession
    have hh : handlerFor Fc "message" = "processMessageMsg" := by decide
    simp only [ht, hh, String.reduceEq, if_false, if_true]
    unfold modelMessage
    simp only [hmm, hmcu, Bool.false_eq_true, false_and, if_false, hdv, fwdKind, if_true]
  unfold processFrame
  rw [hc]
  simp only [Bool.false_eq_true, false_and, if_false]
  rw [if_neg hno, hproc]

theorem route_names_bystander (s : Sess) (rc : Recipient) (hv ic : Bool)
    (hn : namesBystander s rc = true) (hcall : rc.rtype ≠ "call") : (route s "message" rc hv ic).bMust = ["message"] := by
  unfold namesBystander at hn
  unfold route
  by_cases h1 : rc.rtype = "session"
  · simp only [h1, if_true]
    simp [h1] at hn
    simp [hn]
  · by_cases h2 : rc.rtype = "user"
    · simp only [h1, h2, if_true, if_false]
      simp [h2] at hn
      simp [hn]
    · by_cases h3 : rc.rtype = "room"
      · simp [h1, h2, h3] at hn
        simp [h1, h2, h3, hn, Sess.inBy]
      · simp [h1, h2, h3, hcall] at hn

/-- The recipient's side for a bystander that is connected and has no `hide-displaynames`: the message
goes to its connection as it is. -/
theorem deliver_attached (st : St) (kind : String) (d : ServerData) (o : Obs)
    (hatt : st.world.rcpt.detached = false) (hhide : st.world.rcpt.hideNames = false) :
    deliver Fc st kind d o = .ok o st := by
  have hrev : Fc.deferredTablesReviewed = true := by decide
  unfold deliver
  split
  · rfl
  · unfold deliverRcpt
    simp [hrev, hatt, hhide]

/-- The recipient's side for a bystander whose connection is gone (the session waits to be resumed):
unless the message is a chat refresh and one is queued already, it is queued - the bystander will see
it when it resumes, and the tables change. -/
theorem deliver_detached (st : St) (kind : String) (d : ServerData) (o : Obs) (hne : o.bMust ≠ [])
    (hdet : st.world.rcpt.detached = true) (hhide : st.world.rcpt.hideNames = false)
    (hnodup : st.world.rcpt.pendingChat = false) :
    ∃ r, deliver Fc st kind d o = .ok { o with st := .chg } { st with world := { st.world with rcpt := r } } ∧
      r.detached = true := by
  have hrev : Fc.deferredTablesReviewed = true := by decide
  obtain ⟨b, hb⟩ := isChatRefresh_ok d
  unfold deliver
  have hemp : o.bMust.isEmpty = false := by cases hbm : o.bMust with
    | nil => exact absurd hbm hne
    | cons a l => rfl
  simp only [hemp, Bool.false_eq_true, if_false]
  unfold deliverRcpt
  simp only [hrev, hdet, hhide, hnodup, hb, Bool.not_true, Bool.false_eq_true, if_false, false_and, and_false, if_true]
  by_cases hk : kind = "message"
  · cases b <;> simp [hk, hdet]
  · simp [hk, hdet]

/-- **C10_addressed_message_delivered.** A plain `message` (no media server involved) whose recipient
names the bystander's session or user, or the room the sender shares with it, *is* delivered to a
bystander that is connected: together with `C10_bystanders` the bystander gets exactly that. -/
theorem C10_addressed_message_delivered (st : St) (s : Sess) (m : ClientMessage) (mm : MessageMsg) (size : Nat)
    (hc : st.conn = .session s) (hfed : s.fed = false) (hmcu : st.world.mcu = false) (hsz : size ≤ Fc.maxMessageSize)
    (hv : checkValid Fc m = .ok) (ht : m.mtype = "message") (hmm : m.message = some mm)
    (hn : namesBystander s mm.recipient = true) (hcall : mm.recipient.rtype ≠ "call")
    (hatt : st.world.rcpt.detached = false) (hhide : st.world.rcpt.hideNames = false) :
    ∃ o, processFrame Fc st { size := size, binary := false, dec := .ok m } = .ok o st ∧ o.bMust = ["message"] := by
  rw [processFrame_plain_message st s m mm size hc hfed hmcu hsz hv ht hmm, deliver_attached _ _ _ _ hatt hhide]
  simp only [Outcome.amb]
  obtain ⟨h, hh⟩ := withHttp_ok st
    (if s.seesRoom then { route s "message" mm.recipient (!st.world.virt.isEmpty) st.world.rcpt.inCall with
        sMay := (route s "message" mm.recipient (!st.world.virt.isEmpty) st.world.rcpt.inCall).sMay ++ ambient }
     else route s "message" mm.recipient (!st.world.virt.isEmpty) st.world.rcpt.inCall) st
  refine ⟨_, hh, ?_⟩
  have := route_names_bystander s mm.recipient (!st.world.virt.isEmpty) st.world.rcpt.inCall hn hcall
  split <;> simp [this]

/-- **C10_addressed_message_queued.** The same message for a bystander whose connection is gone (its
session waits to be resumed), in whatever shape the payload is: it is queued (the bystander's share of
the outcome is exactly the message, the tables change, the recipient stays resumable) - unless a chat
refresh is queued already (then a second one is folded into it, `deliverRcpt`). -/
theorem C10_addressed_message_queued (st : St) (s : Sess) (m : ClientMessage) (mm : MessageMsg) (size : Nat)
    (hc : st.conn = .session s) (hfed : s.fed = false) (hmcu : st.world.mcu = false) (hsz : size ≤ Fc.maxMessageSize)
    (hv : checkValid Fc m = .ok) (ht : m.mtype = "message") (hmm : m.message = some mm)
    (hn : namesBystander s mm.recipient = true) (hcall : mm.recipient.rtype ≠ "call")
    (hdet : st.world.rcpt.detached = true) (hhide : st.world.rcpt.hideNames = false)
    (hnodup : st.world.rcpt.pendingChat = false) :
    ∃ o next, processFrame Fc st { size := size, binary := false, dec := .ok m } = .ok o next ∧ o.bMust = ["message"] ∧
      o.st = .chg ∧ next.conn = st.conn ∧ next.world.rcpt.detached = true := by
  have hr := route_names_bystander s mm.recipient (!st.world.virt.isEmpty) st.world.rcpt.inCall hn hcall
  obtain ⟨r, hd, hrd⟩ := deliver_detached st "message" mm.sdata
    (route s "message" mm.recipient (!st.world.virt.isEmpty) st.world.rcpt.inCall) (by simp [hr]) hdet hhide hnodup
  rw [processFrame_plain_message st s m mm size hc hfed hmcu hsz hv ht hmm, hd]
  simp only [Outcome.amb]
  obtain ⟨h, hh⟩ := withHttp_ok st
    (if s.seesRoom then { ({ route s "message" mm.recipient (!st.world.virt.isEmpty) st.world.rcpt.inCall with st := .chg } : Obs) with
        sMay := ({ route s "message" mm.recipient (!st.world.virt.isEmpty) st.world.rcpt.inCall with st := .chg } : Obs).sMay ++ ambient }
     else { route s "message" mm.recipient (!st.world.virt.isEmpty) st.world.rcpt.inCall with st := .chg })
    { st with world := { st.world with rcpt := r } }
  refine ⟨_, _, hh, ?_, ?_, rfl, hrd⟩
  · split <;> simp [hr]
  · split <;> simp

/-- **C10_forwarded_raw_valid.** What a valid `message`, `control` or `transient`
hands on to other sessions verbatim (the model's `fwdKind`) is valid JSON: the
hub never emits a frame that is not well-formed because of client input. -/
theorem C10_forwarded_raw_valid (m : ClientMessage) (hv : checkValid Fc m = .ok) :
    (m.mtype = "message" → ∃ mm, m.message = some mm ∧ mm.dataValid = true) ∧
    (m.mtype = "control" → ∃ mm, m.control = some mm ∧ mm.dataValid = true) ∧
    (m.mtype = "transient" → ∃ t, m.transient = some t ∧ t.valueValid = true) := by
  refine ⟨fun ht => ?_, fun ht => ?_, fun ht => ?_⟩
  · obtain ⟨mm, h1, h2⟩ := valid_message hv ht; exact ⟨mm, h1, message_data_valid h2⟩
  · obtain ⟨mm, h1, h2⟩ := valid_control hv ht; exact ⟨mm, h1, control_data_valid h2⟩
  · obtain ⟨t, h1, h2⟩ := valid_transient hv ht; exact ⟨t, h1, transient_value_valid h2⟩

/-! ## 4. Non-vacuity and sensitivity to the facts -/

def userInRoom : Sess :=
  { internal := false, dialoutFeat := false, restrictedUser := false, restricted := false, anon := false, room := .by, fed := false }

def internalPending : Sess := { userInRoom with internal := true, dialoutFeat := true, room := .none }

def stOf (s : Sess) (dial : Bool) : St :=
  { world := { mcu := false, transient := [], virt := [] }, conn := .session s, dialoutState := dial }

def noData : DataShape := { jsonOk := false, dtype := "", roomType := .empty, sdp := .none }

def msgToRoom : ClientMessage :=
  { id := .other, mtype := "message", typeUtf8 := true, hello := none, bye := none, room := none, control := none,
    internal := none, transient := none,
    message := some { recipient := { rtype := "room", sid := .empty, uid := .empty }, dataNonEmpty := true, dataValid := true,
                      data := noData } }

def roomWithoutRoom : ClientMessage :=
  { id := .other, mtype := "room", typeUtf8 := true, hello := none, bye := none, room := none, message := none,
    control := none, internal := none, transient := none }

def incallAnsweringDialout : ClientMessage :=
  { id := .pending, mtype := "internal", typeUtf8 := true, hello := none, bye := none, room := none, message := none,
    control := none, transient := none,
    internal := some { itype := "incall", add := none, upd := none, rem := none, incall := some 1, dialout := none } }

def frameOf (m : ClientMessage) : Frame := { size := 100, binary := false, dec := .ok m }

/-- `C10_invalid_no_effect` is not vacuous: `{"type":"room"}` from a user in the
bystander's room satisfies its hypotheses, and the outcome is the error. -/
example : (stOf userInRoom false).conn ≠ .dead ∧ (frameOf roomWithoutRoom).size ≤ Fc.maxMessageSize ∧
    (frameOf roomWithoutRoom).invalid Fc = true ∧
    processFrame Fc (stOf userInRoom false) (frameOf roomWithoutRoom) =
      .ok { sMust := ["error:invalid_format"], sMay := ambient } (stOf userInRoom false) := by decide

/-- `C10_bystanders` / `C10_addressed_message_delivered` are not vacuous: a
message to the room reaches the bystander, and that is what the spec addresses. -/
example : addressed Fc (stOf userInRoom false) (frameOf msgToRoom) = ["message"] ∧
    processFrame Fc (stOf userInRoom false) (frameOf msgToRoom) =
      .ok { sMay := ambient, bMust := ["message"], st := .any } (stOf userInRoom false) := by decide

/-- The facts of the tree before 6c2ef8c: the response handler of `startDialout`
dereferences `message.Internal.Dialout` without looking at the type. -/
def factsBeforeDialoutFix : Facts :=
  { Fc with derefs := ("BackendServer.startDialout.func1", "Internal.Dialout", "") :: Fc.derefs }

/-- Without the guard of the dialout response handler `C10_total` is false: an
internal client answers the pending request id with a (valid) `incall`. -/
theorem C10_total_needs_dialout_guard :
    checkValid factsBeforeDialoutFix incallAnsweringDialout = .ok ∧
    processFrame factsBeforeDialoutFix (stOf internalPending true) (frameOf incallAnsweringDialout) =
      .crash "startDialout response handler: message.Internal.Dialout" := by decide

/-- With the guard (current facts) the same message is an ordinary `incall`, and
the pending request is left for the harness to complete. -/
example : processFrame Fc (stOf internalPending true) (frameOf incallAnsweringDialout) =
    .ok { st := .any, http := some "1" } (stOf internalPending true) := by decide

/-- The facts of the tree before 6585c31: the message counter is labelled with the raw type. -/
def factsBeforeLabelFix : Facts := { Fc with messageCounterLabelFromFixedSet := false }

theorem C10_total_needs_fixed_label :
    processFrame factsBeforeLabelFix St.init (frameOf { roomWithoutRoom with mtype := "�", typeUtf8 := false }) =
      .crash "processMessage: statsMessagesTotal.WithLabelValues(message.Type) with a type that is not valid UTF-8" := by
  decide

/-- The facts of the tree before fe02bf7: `CheckValid` does not look into raw members. -/
def factsBeforeRawFix : Facts := { Fc with rawValidated := [] }

def msgToBystanderInvalidData : ClientMessage :=
  { msgToRoom with
    message := some { recipient := { rtype := "session", sid := .by, uid := .empty }, dataNonEmpty := true, dataValid := false,
                      data := noData } }

/-- Without that check a `message` whose data is e.g. `01` passes validation and
the bystander receives a frame that is not valid JSON. -/
theorem C10_wellformed_needs_raw_check :
    processFrame factsBeforeRawFix (stOf userInRoom false) (frameOf msgToBystanderInvalidData) =
      .ok { sMay := ambient, bMust := ["malformed"] } (stOf userInRoom false) ∧
    processFrame Fc (stOf userInRoom false) (frameOf msgToBystanderInvalidData) =
      .ok { sMust := ["error:invalid_format"], sMay := ambient } (stOf userInRoom false) := by decide

/-- Dropping one nil guard from `ClientMessage.CheckValid` (`case "room"`) makes
`{"type":"room"}` panic inside `CheckValid` itself. -/
def factsWithoutRoomGuard : Facts :=
  { Fc with validation := Fc.validation.filter (· ≠ ("ClientMessage", "room", "Room", "nil")) }

theorem C10_total_needs_nil_guard :
    processFrame factsWithoutRoomGuard (stOf userInRoom false) (frameOf roomWithoutRoom) =
      .crash "ClientMessage.CheckValid: Room is nil" := by decide

/-- Dispatching before validating makes the same message panic in `processRoom`. -/
def factsWithoutValidation : Facts := { Fc with validateBeforeDispatch := false }

theorem C10_total_needs_validation :
    processFrame factsWithoutValidation (stOf userInRoom false) (frameOf roomWithoutRoom) =
      .crash "processRoom: message.Room" := by decide

/-- The media code behind the handlers is only covered through the reviewed tables: with one more
panicking expression in it (an unchecked `value.(float64)` on a payload member, say) a `requestoffer`
for the bystander's stream - valid for `CheckValid` - is a crash. -/
def factsWithUnreviewedMediaCode : Facts := { Fc with mediaTablesReviewed := false }

def requestOfferToBystander : ClientMessage :=
  { msgToRoom with
    message := some { recipient := { rtype := "session", sid := .by, uid := .empty }, dataNonEmpty := true, dataValid := true,
                      data := { jsonOk := true, dtype := "requestoffer", roomType := .valid, sdp := .none } } }

def stMcu (s : Sess) : St :=
  { world := { mcu := true, transient := [], virt := [] }, conn := .session s, dialoutState := false }

theorem C10_total_needs_media_review :
    checkValid factsWithUnreviewedMediaCode requestOfferToBystander = .ok ∧
    processFrame factsWithUnreviewedMediaCode (stMcu userInRoom) (frameOf requestOfferToBystander) =
      .crash "media code: a type assertion / index expression / map write / dereference that is not a reviewed one" := by
  decide

/-- With the tables as they are the same message is media-server work: replies from the media server for
the sender, possibly a message for the addressed bystander. -/
example : processFrame Fc (stMcu userInRoom) (frameOf requestOfferToBystander) =
    .ok (mcuObs { rtype := "session", sid := .by, uid := .empty }) (stMcu userInRoom) := by decide

/-! ### a connection that is not a websocket of this server -/

def helloV1 : ClientMessage :=
  { roomWithoutRoom with
    mtype := "hello",
    hello := some { version := "1.0", resume := .empty, featDialout := false, featInCall := false,
                    auth := some { atype := "", paramsNonEmpty := true, url := .known, v2TokenOk := false, v1Accept := true,
                                   v1User := .named, ipOk := false, iBackend := .empty, iRandLen := 0, iTokenOk := false } } }

/-- A connection proxied from another node of the cluster, without session. -/
def stRemote : St := { St.init with remote := true }

/-- The facts of the tree before the repair of `processRegister`: after `client, ok := c.(*Client)` the
branch for `!ok` calls `client.SendMessage`. -/
def factsBeforeRegisterFix : Facts := { Fc with failedAssertionUses := [("Hub.processRegister", "client.SendMessage")] }

/-- With that use of the nil `client`, `C10_total` is false: a plain hello with credentials the backend
accepts, on a connection that is not a `*Client`, ends the process; a websocket client is registered as
ever.  With the facts as they are the proxied connection gets an error. -/
theorem C10_total_needs_register_guard :
    checkValid factsBeforeRegisterFix helloV1 = .ok ∧
    processFrame factsBeforeRegisterFix stRemote (frameOf helloV1) =
      .crash "processRegister: method call on the nil result of c.(*Client)" ∧
    processFrame Fc stRemote (frameOf helloV1) = .ok { errObs "internal_error" with st := .any } stRemote ∧
    (match processFrame factsBeforeRegisterFix St.init (frameOf helloV1) with
      | .ok o _ => o.sMust
      | .crash _ => []) = ["hello"] := by decide

/-! ### the recipient's side -/

/-- The bystander's connection is gone, its session waits to be resumed. -/
def stDetached (s : Sess) (r : Rcpt) : St :=
  { world := { mcu := false, transient := [], virt := [], rcpt := r }, conn := .session s, dialoutState := false }

/-- `{"type":"chat"}` (no `chat` member) as the data of a message to the bystander's session. -/
def chatWithoutPayload : ClientMessage :=
  { msgToRoom with
    message := some { recipient := { rtype := "session", sid := .by, uid := .empty }, dataNonEmpty := true, dataValid := true,
                      data := { jsonOk := true, dtype := "chat", roomType := .empty, sdp := .none },
                      sdata := { jsonOk := true, dtype := "chat", chat := none } } }

def chatRefresh : ClientMessage :=
  { msgToRoom with
    message := some { recipient := { rtype := "session", sid := .by, uid := .empty }, dataNonEmpty := true, dataValid := true,
                      data := { jsonOk := true, dtype := "chat", roomType := .empty, sdp := .none },
                      sdata := { jsonOk := true, dtype := "chat", chat := some true } } }

/-- The facts of a tree in which `IsChatRefresh` reads `data.Chat.Refresh` right after comparing the type. -/
def factsWithoutChatGuard : Facts :=
  { Fc with payloadDerefs := [("ServerMessage.IsChatRefresh", "<@MessageServerMessageData>.Chat", "Type=chat")] }

/-- Without the nil check of the optional `chat` member `C10_total` is false, and it takes a recipient
*without connection* to see it: the message passes `CheckValid` (the data is opaque, valid JSON), a
connected bystander just receives it, a detached one has it queued - and the predicate that
`storePendingMessage` asks dereferences nil. -/
theorem C10_total_needs_payload_guard :
    checkValid factsWithoutChatGuard chatWithoutPayload = .ok ∧
    processFrame factsWithoutChatGuard (stDetached userInRoom { detached := true }) (frameOf chatWithoutPayload) =
      .crash "ServerMessage.IsChatRefresh: data.Chat" ∧
    processFrame factsWithoutChatGuard (stDetached userInRoom {}) (frameOf chatWithoutPayload) =
      .ok { sMay := ambient, bMust := ["message"] } (stDetached userInRoom {}) := by decide

/-- With the facts as they are the same message is queued for the detached bystander (`C10_addressed_message_queued`
is not vacuous), a chat refresh is remembered, and a second one is folded into the first. -/
example :
    processFrame Fc (stDetached userInRoom { detached := true }) (frameOf chatWithoutPayload) =
      .ok { sMay := ambient, bMust := ["message"], st := .chg } (stDetached userInRoom { detached := true }) ∧
    processFrame Fc (stDetached userInRoom { detached := true }) (frameOf chatRefresh) =
      .ok { sMay := ambient, bMust := ["message"], st := .chg } (stDetached userInRoom { detached := true, pendingChat := true }) ∧
    processFrame Fc (stDetached userInRoom { detached := true, pendingChat := true }) (frameOf chatRefresh) =
      .ok { sMay := ambient } (stDetached userInRoom { detached := true, pendingChat := true }) := by decide

/-- The rest of the recipient's side is covered through the reviewed tables only: with one more decode,
dereference, assertion or call in it that nobody has looked at, a plain message to the bystander is a crash. -/
def factsWithUnreviewedDelivery : Facts := { Fc with deferredTablesReviewed := false }

theorem C10_total_needs_deferred_review :
    processFrame factsWithUnreviewedDelivery (stOf userInRoom false) (frameOf msgToRoom) =
      .crash "recipient side: a decode / dereference / type assertion / index expression / call that is not a reviewed one" := by
  decide

/-- A recipient with `hide-displaynames` does not get `nickChanged`; a message to the `call` reaches the
bystander only if it is in the call. -/
example :
    (deliverRcpt Fc { hideNames := true } "message" { jsonOk := true, dtype := "nickChanged" } = .dropped) ∧
    (route userInRoom "message" { rtype := "call", sid := .empty, uid := .empty } false true).bMust = ["message"] ∧
    (route userInRoom "message" { rtype := "call", sid := .empty, uid := .empty } false false).bMust = [] := by decide

end SigModel.ShapesClient
