/-
C10 — No client input can crash the server or disturb other sessions.

Theorems about the model of `Model/ShapesClient.lean` instantiated with the facts
regenerated from the working tree (`Fc = Facts.current`: the validation table of
every `CheckValid`, the dereference table, the order decode → validate →
dispatch, the dispatch table, the label of the message counter, the size
limit), stated against `Spec/ShapesClient.lean`.

"Every byte string" is "every `Frame`": any size, text or binary, a decode error
or any value of the decoded structure (all sub-objects optional, all leaves
arbitrary) — in every state of the sender's connection.
-/
import SigModel.Lemmas.ShapesClient

namespace SigModel.ShapesClient
open SigModel.Generated.ShapesClient

/-! ## 0. The tie: what the extractor finds is what the model accounts for -/

/-- Every dereference of a pointer below a client message that the extractor
finds in the Go sources is a `crash` branch of the model (`sites`). -/
theorem C10_derefs_accounted : derefs.all (fun d => sites.contains d) = true := by decide

/-- Unchecked type assertions and index expressions over client-controlled values are the known ones. -/
theorem C10_assertions_known :
    typeAssertions = knownTypeAssertions ∧ indexExprs = knownIndexExprs := by decide

/-- Decode and validate precede every use; only `hello` is dispatched without a
session; binary frames are answered; the read limit is the constant; the
message counter is labelled from a fixed set. -/
theorem C10_order_facts :
    Fc.validateBeforeDispatch = true ∧ Fc.preHelloOnlyHello = true ∧ Fc.binaryFrameAnsweredInvalidFormat = true ∧
    Fc.readLimitIsMaxMessageSize = true ∧ Fc.messageCounterLabelFromFixedSet = true ∧ Fc.maxMessageSize = 65536 := by decide

/-! ## 1. No crash -/

theorem handlerFor_cases (t : String) :
    (t = "room" ∧ handlerFor Fc t = "processRoom") ∨
    (t = "message" ∧ handlerFor Fc t = "processMessageMsg") ∨
    (t = "control" ∧ handlerFor Fc t = "processControlMsg") ∨
    (t = "internal" ∧ handlerFor Fc t = "processInternalMsg") ∨
    (t = "transient" ∧ handlerFor Fc t = "processTransientMsg") ∨
    (t = "bye" ∧ handlerFor Fc t = "processByeMsg") ∨
    handlerFor Fc t = "" := by
  unfold handlerFor
  simp only [Fc, Facts.current, dispatchTable, List.lookup]
  by_cases h1 : t = "room"
  · subst h1; left; decide
  by_cases h2 : t = "message"
  · subst h2; right; left; decide
  by_cases h3 : t = "control"
  · subst h3; right; right; left; decide
  by_cases h4 : t = "internal"
  · subst h4; right; right; right; left; decide
  by_cases h5 : t = "transient"
  · subst h5; right; right; right; right; left; decide
  by_cases h6 : t = "bye"
  · subst h6; right; right; right; right; right; left; decide
  right; right; right; right; right; right
  by_cases h7 : t = "hello"
  · subst h7; decide
  by_cases h8 : t = "*"
  · subst h8; decide
  have e1 : (t == "room") = false := by simpa using h1
  have e2 : (t == "message") = false := by simpa using h2
  have e3 : (t == "control") = false := by simpa using h3
  have e4 : (t == "internal") = false := by simpa using h4
  have e5 : (t == "transient") = false := by simpa using h5
  have e6 : (t == "bye") = false := by simpa using h6
  have e7 : (t == "hello") = false := by simpa using h7
  have e8 : (t == "*") = false := by simpa using h8
  simp only [e1, e2, e3, e4, e5, e6, e7, e8]
  decide

theorem withHttp_crash {st : St} {o : Outcome} {site : String} (h : withHttp st o = .crash site) : o = .crash site := by
  unfold withHttp at h
  cases o with
  | crash s => simpa using h
  | ok ob nx =>
    simp only [] at h
    split at h
    · split at h <;> simp at h
    · simp at h

theorem modelHello_no_crash (st : St) (m : ClientMessage) (hv : checkValid Fc m = .ok) (ht : m.mtype = "hello")
    (site : String) : modelHello Fc st m ≠ .crash site := by
  obtain ⟨h, hm, hh⟩ := valid_hello hv ht
  unfold modelHello
  rw [hm]
  simp only []
  cases hr : h.resume with
  | other => simp
  | empty =>
    obtain ⟨a, ha, hurl⟩ := hello_auth hh hr
    rw [ha]
    simp only []
    have hvb : Fc.validateBeforeDispatch = true := by decide
    simp only [hvb, if_true]
    by_cases hc : effType a = "client" ∨ effType a = "federation"
    · rw [if_pos hc]
      rcases hurl hc with hu | hu <;> rw [hu] <;> simp only []
      · repeat (first | split | simp)
      · simp
    · rw [if_neg hc]
      repeat (first | split | simp)

theorem modelRoom_no_crash (st : St) (s : Sess) (m : ClientMessage) (hv : checkValid Fc m = .ok) (ht : m.mtype = "room")
    (site : String) : modelRoom st s m ≠ .crash site := by
  obtain ⟨r, hm, hr⟩ := valid_room hv ht
  unfold modelRoom
  rw [hm]
  simp only []
  cases hid : r.roomId with
  | empty => simp only []; repeat (first | split | simp)
  | «by» =>
    simp only []
    cases hf : r.federation with
    | none => simp only []; repeat (first | split | simp)
    | some f =>
      have := room_federation hr hf
      simp [this]
  | deny =>
    simp only []
    cases hf : r.federation with
    | none => simp only []; repeat (first | split | simp)
    | some f =>
      have := room_federation hr hf
      simp [this]
  | other n =>
    simp only []
    cases hf : r.federation with
    | none => simp only []; repeat (first | split | simp)
    | some f =>
      have := room_federation hr hf
      simp [this]

theorem checkData_no_crash (d : DataShape) (site : String) : checkData d ≠ .crash site := by
  unfold checkData; repeat (first | split | simp [invalid])

theorem modelMessage_no_crash (st : St) (s : Sess) (m : ClientMessage) (hv : checkValid Fc m = .ok) (ht : m.mtype = "message")
    (site : String) : modelMessage st s m ≠ .crash site := by
  obtain ⟨mm, hm, _⟩ := valid_message hv ht
  unfold modelMessage
  rw [hm]
  simp only []
  split
  · cases hd : checkData mm.data with
    | ok => simp only []; repeat (first | split | simp)
    | err c => simp
    | crash s2 => exact absurd hd (checkData_no_crash _ _)
  · simp

theorem modelControl_no_crash (st : St) (s : Sess) (m : ClientMessage) (hv : checkValid Fc m = .ok) (ht : m.mtype = "control")
    (site : String) : modelControl st s m ≠ .crash site := by
  obtain ⟨mm, hm, _⟩ := valid_control hv ht
  unfold modelControl
  rw [hm]
  simp only []
  split <;> simp

theorem dialoutHandler_no_crash (i : Internal) (site : String) : dialoutHandler Fc i ≠ .crash site := by
  have hg : dialoutHandlerGuarded Fc = true := by decide
  unfold dialoutHandler
  simp only [hg, if_true]
  split
  · cases i.dialout <;> simp
  · simp

theorem internalSwitch_no_crash (st : St) (s : Sess) (i : Internal) (http : Option String) (hi : checkInternal Fc i = .ok)
    (site : String) : internalSwitch st s i http ≠ .crash site := by
  unfold internalSwitch
  simp only []
  by_cases h1 : i.itype = "addsession"
  · obtain ⟨a, ha⟩ := Option.isSome_iff_exists.mp (internal_add hi h1)
    rw [if_pos h1, ha]
    simp only []
    split <;> simp
  rw [if_neg h1]
  by_cases h2 : i.itype = "updatesession"
  · obtain ⟨a, ha⟩ := Option.isSome_iff_exists.mp (internal_upd hi h2)
    rw [if_pos h2, ha]
    simp only []
    split <;> simp
  rw [if_neg h2]
  by_cases h3 : i.itype = "removesession"
  · obtain ⟨a, ha⟩ := Option.isSome_iff_exists.mp (internal_rem hi h3)
    rw [if_pos h3, ha]
    simp only []
    split <;> simp
  rw [if_neg h3]
  by_cases h4 : i.itype = "incall"
  · obtain ⟨a, ha⟩ := Option.isSome_iff_exists.mp (internal_incall hi h4)
    rw [if_pos h4, ha]
    simp
  rw [if_neg h4]
  by_cases h5 : i.itype = "dialout"
  · obtain ⟨d, hd, hdv⟩ := internal_dialout hi h5
    rw [if_pos h5, hd]
    simp only []
    by_cases hs : d.dtype = "status"
    · obtain ⟨v, hv⟩ := Option.isSome_iff_exists.mp (dialout_status hdv hs)
      rw [if_pos hs, hv]
      simp only []
      split <;> simp
    · rw [if_neg hs]
      simp
  rw [if_neg h5]
  simp

theorem modelInternal_no_crash (st : St) (s : Sess) (m : ClientMessage) (hv : checkValid Fc m = .ok) (ht : m.mtype = "internal")
    (site : String) : modelInternal Fc st s m ≠ .crash site := by
  obtain ⟨i, hm, hi⟩ := valid_internal hv ht
  unfold modelInternal
  rw [hm]
  simp only []
  split
  · simp
  · split
    · cases hd : dialoutHandler Fc i with
      | crash s2 => exact absurd hd (dialoutHandler_no_crash i s2)
      | notConsumed => simp only []; exact internalSwitch_no_crash _ _ _ _ hi _
      | consumed stop http =>
        simp only []
        split
        · simp
        · exact internalSwitch_no_crash _ _ _ _ hi _
    · exact internalSwitch_no_crash _ _ _ _ hi _

theorem modelTransient_no_crash (st : St) (s : Sess) (m : ClientMessage) (hv : checkValid Fc m = .ok) (ht : m.mtype = "transient")
    (site : String) : modelTransient st s m ≠ .crash site := by
  obtain ⟨t, hm, _⟩ := valid_transient hv ht
  unfold modelTransient
  rw [hm]
  simp only []
  repeat (first | split | simp)

theorem modelProxy_no_crash (st : St) (m : ClientMessage) (hv : checkValid Fc m = .ok) (site : String) :
    modelProxy st m ≠ .crash site := by
  unfold modelProxy
  split
  · rename_i ht
    obtain ⟨mm, hm, _⟩ := valid_message hv ht
    rw [hm]; simp
  · simp

theorem dispatchSession_no_crash (st : St) (s : Sess) (m : ClientMessage) (hv : checkValid Fc m = .ok) (site : String) :
    dispatchSession Fc st s m ≠ .crash site := by
  unfold dispatchSession
  simp only []
  rcases handlerFor_cases m.mtype with ⟨ht, hh⟩ | ⟨ht, hh⟩ | ⟨ht, hh⟩ | ⟨ht, hh⟩ | ⟨ht, hh⟩ | ⟨ht, hh⟩ | hh
  · rw [hh]; simp only [if_true]; exact modelRoom_no_crash _ _ _ hv ht _
  · rw [hh]; simp only [String.reduceEq, if_false, if_true]; exact modelMessage_no_crash _ _ _ hv ht _
  · rw [hh]; simp only [String.reduceEq, if_false, if_true]; exact modelControl_no_crash _ _ _ hv ht _
  · rw [hh]; simp only [String.reduceEq, if_false, if_true]; exact modelInternal_no_crash _ _ _ hv ht _
  · rw [hh]; simp only [String.reduceEq, if_false, if_true]; exact modelTransient_no_crash _ _ _ hv ht _
  · rw [hh]; simp only [String.reduceEq, if_false, if_true]; simp [modelBye]
  · rw [hh]; simp only [String.reduceEq, if_false, if_true]; simp

theorem processMessage_no_crash (st : St) (m : ClientMessage) (site : String) : processMessage Fc st m ≠ .crash site := by
  unfold processMessage
  have hvb : Fc.validateBeforeDispatch = true := by decide
  have hlb : Fc.messageCounterLabelFromFixedSet = true := by decide
  have hpre : Fc.preHelloOnlyHello = true := by decide
  simp only [hvb, if_true]
  cases hv : checkValid Fc m with
  | crash s2 => exact absurd hv (checkValid_no_crash _ _)
  | err c => simp
  | ok =>
    simp only [hlb]
    simp only [Bool.not_true, Bool.false_eq_true, false_and, if_false]
    cases hc : st.conn with
    | dead => simp
    | nosession =>
      simp only [hpre, true_and]
      by_cases ht : m.mtype = "hello"
      · simp only [ht, ne_eq, not_true_eq_false, if_false]
        exact modelHello_no_crash _ _ hv ht _
      · simp [ht]
    | session s =>
      simp only []
      split
      · exact modelProxy_no_crash _ _ hv _
      · exact dispatchSession_no_crash _ _ _ hv _

/-- **C10_total.** In every state of the sender's connection, no frame — any
size, text or binary, undecodable or any value of the decoded structure — takes
the model to a `crash` outcome. -/
theorem C10_total (st : St) (f : Frame) (site : String) : processFrame Fc st f ≠ .crash site := by
  unfold processFrame
  cases hc : st.conn with
  | dead => simp
  | nosession =>
    simp only []
    intro h
    have := withHttp_crash h
    revert this
    split
    · simp
    · split
      · simp
      · cases f.dec with
        | err => simp
        | ok m => simpa using processMessage_no_crash _ _ _
  | session s =>
    simp only []
    intro h
    have := withHttp_crash h
    revert this
    split
    · simp
    · split
      · simp
      · cases f.dec with
        | err => simp
        | ok m => simpa using processMessage_no_crash _ _ _

end SigModel.ShapesClient
