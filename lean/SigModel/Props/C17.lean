/-
C17 — Repeated failures from one address are throttled and then blocked.

Property theorems about the model of `throttle.go` (`Model/Throttle.lean`) over
the constants regenerated from the source (`Generated/Throttle.lean`), stated
against the counting spec of `Spec/Throttle.lean`.
-/
import SigModel.Lemmas.Throttle

namespace SigModel.Throttle
open SigModel.Generated.Throttle

/-! ## 1. The delay never decreases with the failure count and never exceeds 25 s -/

/-- 25 seconds in nanoseconds, as written in the property statement. -/
def twentyFiveSeconds : Nat := 25 * 1000000000

theorem C17_delay_monotone_bounded (c₁ c₂ : Nat) (h : c₁ ≤ c₂) :
    getDelay c₁ ≤ getDelay c₂ ∧ getDelay c₂ ≤ twentyFiveSeconds := by
  refine ⟨getDelay_mono h, Nat.le_trans (getDelay_le_max c₂) ?_⟩
  decide

/-- The machine computation (64-bit wrap-around `int`/`time.Duration`, signed
comparison) yields the same, non-negative, value for *every* count: the
overflow guard in `getDelay` is sufficient. -/
theorem C17_delay_no_overflow (c : Nat) :
    (getDelay64 c).toNat = getDelay c ∧ (getDelay64 c).msb = false := by
  by_cases h : c > overflowGuard
  · have h1 : getDelay64 c = BitVec.ofNat 64 maxThrottleDelay := by unfold getDelay64; simp [h]
    have h2 : getDelay c = maxThrottleDelay := by unfold getDelay; simp [h]
    rw [h1, h2]; decide
  · have hall : ∀ k, k ≤ overflowGuard →
        (getDelay64 k).toNat = getDelay k ∧ (getDelay64 k).msb = false := by decide +kernel
    exact hall c (by omega)

/-- Without the guard the claim would be false: the unguarded formula wraps. -/
example : ((BitVec.ofNat 64 delayFactor * intPow64 (BitVec.ofNat 64 powBase) 60)
    * BitVec.ofNat 64 delayUnit).toNat ≠ delayFactor * powBase ^ 60 * delayUnit := by decide +kernel

/-! ## 2. Refused ⇔ ten failures within thirty minutes; delays follow the failure count

For every history of whole attempts and cleanups under a monotone clock, the
code's outcomes (refused / passed / delayed d) are exactly those of the counting
spec, which never forgets anything. -/

theorem C17_block_iff_window (t0 : Int) (ops : List Op) (hm : Monotone t0 ops) :
    (run State.empty ops).2 = (specRun Hist.empty ops).2 :=
  run_refines ops (Rel.empty t0) hm

/-- The numbers in the code are the numbers in the statement
(10 attempts, 30 min = 1 800 000 000 000 ns, 12 h = 43 200 000 000 000 ns, ≤ 25 s, /64). -/
theorem C17_constants :
    maxBruteforceAttempts = 10 ∧
    maxBruteforceDurationThreshold = 1800000000000 ∧
    maxBruteforceAge = 43200000000000 ∧
    maxThrottleDelay ≤ twentyFiveSeconds ∧
    subnetBits = 64 := by decide

/-- Spelled out on the spec: an attempt is refused iff at least ten recorded
failures of that key/action lie within thirty minutes — so refused attempts
(which record nothing) cannot prolong a block, and it ends once fewer than ten
failures are within the last thirty minutes. -/
theorem C17_spec_refused_iff (now : Int) (F : List Int) (failed : Bool) :
    (specAttempt now F failed).2 = .refused ↔
      10 ≤ (F.filter (fun t => decide (now - t ≤ 1800000000000))).length := by
  unfold specAttempt specRefused windowCount
  have : inWindow now = fun t => decide (now - t ≤ 1800000000000) := by
    funext t; simp only [inWindow, stmtWindow]; rfl
  rw [this]
  simp only [stmtAttempts]
  by_cases h : 10 ≤ (F.filter (fun t => decide (now - t ≤ 1800000000000))).length
  · simp [h]
  · cases failed <;> simp [h]

theorem C17_refused_records_nothing (now : Int) (F : List Int) (failed : Bool)
    (h : (specAttempt now F failed).2 = .refused) : (specAttempt now F failed).1 = F := by
  unfold specAttempt at *
  split <;> simp_all
  split at h <;> simp_all

/-- The delay of a failed attempt is `getDelay` of the number of failures of the
last twelve hours — monotone in that number by `C17_delay_monotone_bounded`. -/
theorem C17_spec_delay (now : Int) (F : List Int) (d : Nat)
    (h : (specAttempt now F true).2 = .delayed d) : d = getDelay (ageCount now F) := by
  unfold specAttempt at h
  split at h <;> simp_all

/-! ## 3. Independence of addresses (IPv6: /64s) and actions

No assumption on the clock or on atomicity: holds for every op sequence,
including the two-phase ops. -/

def Op.touches (k : Key) (a : Action) : Op → Bool
  | .attempt _ addr a' _ => decide (throttleKey addr = k ∧ a' = a)
  | .cleanup _ => true
  | .checkOnly _ addr a' => decide (throttleKey addr = k ∧ a' = a)
  | .throttleOnly _ addr a' => decide (throttleKey addr = k ∧ a' = a)
  | .par _ addr a' _ => decide (throttleKey addr = k ∧ a' = a)

/-- Outcomes of the ops that concern key/action `(k, a)`, in order. -/
def outsFor (k : Key) (a : Action) (st : State) : List Op → List Out
  | [] => []
  | op :: ops =>
    let r := step st op
    if op.touches k a then r.2 :: outsFor k a r.1 ops else outsFor k a r.1 ops

theorem step_frame (st : State) (op : Op) (k : Key) (a : Action) (h : op.touches k a = false) :
    (step st op).1 k a = st k a := by
  cases op with
  | attempt now addr a' failed =>
    apply step_attempt_frame
    simp [Op.touches] at h
    intro ⟨h1, h2⟩; exact h h1.symm h2.symm
  | cleanup now => simp [Op.touches] at h
  | checkOnly now addr a' =>
    simp [Op.touches] at h
    unfold step check
    simp only []
    split
    · rfl
    · split
      · rfl
      · simp only [State.set]
        rw [if_neg]; intro ⟨h1, h2⟩; exact h h1.symm h2.symm
  | throttleOnly now addr a' =>
    simp [Op.touches] at h
    unfold step throttle
    simp only [State.set]
    rw [if_neg]; intro ⟨h1, h2⟩; exact h h1.symm h2.symm
  | par now addr a' n =>
    apply step_par_frame
    simp [Op.touches] at h
    intro ⟨h1, h2⟩; exact h h1.symm h2.symm

/-- What a touching op does at `(k,a)` and what it answers depend only on the
entry list of `(k,a)`. -/
theorem step_local (st st' : State) (op : Op) (k : Key) (a : Action)
    (h : op.touches k a = true) (heq : st k a = st' k a) :
    (step st op).1 k a = (step st' op).1 k a ∧ (step st op).2 = (step st' op).2 := by
  cases op with
  | attempt now addr a' failed =>
    simp [Op.touches] at h
    obtain ⟨rfl, rfl⟩ := h
    obtain ⟨h1, h2⟩ := step_attempt_at st now addr a' failed
    obtain ⟨h1', h2'⟩ := step_attempt_at st' now addr a' failed
    rw [h1, h2, h1', h2', heq]; exact ⟨rfl, rfl⟩
  | cleanup now => simp [step, cleanup, heq]
  | checkOnly now addr a' =>
    simp [Op.touches] at h
    obtain ⟨rfl, rfl⟩ := h
    unfold step check
    simp only [← heq]
    split
    · simp [*]
    · split <;> simp [State.set, *]
  | throttleOnly now addr a' =>
    simp [Op.touches] at h
    obtain ⟨rfl, rfl⟩ := h
    unfold step throttle
    simp [State.set, heq]
  | par now addr a' n =>
    simp [Op.touches] at h
    obtain ⟨rfl, rfl⟩ := h
    obtain ⟨h1, h2⟩ := step_par_at st now addr a' n
    obtain ⟨h1', h2'⟩ := step_par_at st' now addr a' n
    rw [h1, h2, h1', h2', heq]; exact ⟨rfl, rfl⟩

/-- **Independence.** The outcomes seen by one address-key/action are the same
whether or not any other address or action is active in between, and whatever
those did before: they are determined by the sub-history of ops touching it. -/
theorem C17_independent (k : Key) (a : Action) :
    ∀ (ops : List Op) (st st' : State), st k a = st' k a →
      outsFor k a st ops = outsFor k a st' (ops.filter (Op.touches k a)) := by
  intro ops
  induction ops with
  | nil => intros; rfl
  | cons op ops ih =>
    intro st st' heq
    by_cases ht : op.touches k a = true
    · obtain ⟨h1, h2⟩ := step_local st st' op k a ht heq
      simp only [outsFor, List.filter, ht, if_true]
      rw [h2, ih _ _ h1]
    · have ht' : op.touches k a = false := by simpa using ht
      simp only [outsFor, List.filter, ht']
      simp only [Bool.false_eq_true, if_false]
      exact ih _ _ (by rw [step_frame st op k a ht', heq])

/-- Two IPv6 addresses share a throttle record iff they lie in the same /64;
every other kind of address string is its own key. -/
theorem C17_key_v6 (b₁ b₂ : List Nat) :
    throttleKey (.v6 b₁) = throttleKey (.v6 b₂) ↔ b₁.take 8 = b₂.take 8 := by
  simp [throttleKey, subnetBits]

theorem C17_key_raw (s₁ s₂ : String) :
    throttleKey (.raw s₁) = throttleKey (.raw s₂) ↔ s₁ = s₂ := by
  simp [throttleKey]

theorem C17_key_kinds (s : String) (b : List Nat) : throttleKey (.raw s) ≠ throttleKey (.v6 b) := by
  simp [throttleKey]

/-! ## 4. Records older than twelve hours are forgotten -/

/-- After a cleanup (and after every non-refused check) nothing older than
`maxBruteforceAge` remains in a time-ordered entry list. -/
theorem C17_forgets (now : Int) (es : List Int) (hs : Sorted es) :
    ∀ t ∈ filterEntries now es, now - t ≤ (43200000000000 : Int) := by
  obtain ⟨m, h1, _, _, h4⟩ := filterEntries_eq_drop now es
  rw [h1]
  have := sorted_all_young (hs.drop m) _ h4
  have hc := C17_constants
  intro t ht
  have := this t ht
  rw [hc.2.2.1] at this
  simpa using this

/-- …and entries older than twelve hours never influence an outcome: the spec's
answer is unchanged if they are removed from the history. -/
theorem C17_old_irrelevant (now : Int) (F : List Int) (failed : Bool) :
    (specAttempt now F failed).2 = (specAttempt now (F.filter (inAge now)) failed).2 := by
  have hw : windowCount now (F.filter (inAge now)) = windowCount now F := by
    unfold windowCount
    rw [List.filter_filter]
    congr 1
    apply List.filter_congr
    intro t _
    have : (stmtWindow : Int) ≤ (stmtAge : Int) := by decide
    simp only [inWindow, inAge]
    by_cases h : now - t ≤ (stmtWindow : Int)
    · simp [h]; omega
    · simp [h]
  have ha : ageCount now (F.filter (inAge now)) = ageCount now F := by
    unfold ageCount; rw [List.filter_filter]; simp
  unfold specAttempt specRefused
  rw [hw, ha]
  split
  · rfl
  · split <;> rfl

/-! ## 5. Non-vacuity and concrete instances -/

private def s (n : Int) : Int := n * 1000000000
private def addrA : Addr := .raw "192.0.2.1"
private def tenFailures : List Op := (List.range 10).map fun i => .attempt (s (Int.ofNat i)) addrA "HelloResume" true

/-- The hypotheses of `C17_block_iff_window` are met by a real blocking history:
ten failures one second apart, then an attempt that is refused, then one
31 minutes later that is let through again. -/
example : Monotone 0 (tenFailures ++ [.attempt (s 10) addrA "HelloResume" true,
                                     .attempt (s 1870) addrA "HelloResume" false]) := by
  decide

example : (run State.empty (tenFailures ++ [.attempt (s 10) addrA "HelloResume" true,
                                            .attempt (s 1870) addrA "HelloResume" false])).2.drop 9
    = [.delayed 25000000000, .refused, .passed] := by decide +kernel

/-! ## 6. Concurrency

The model is sequential: each op is one step.  What ties this to code that is called from many
goroutines is regenerated on every run (`Generated/Throttle.lean`, `*Paths`): for every control-flow
path of a method, the critical sections of the throttler's mutex it goes through, and which kinds of
access to the failure table happen inside each.

* `addEntry` (hence `throttle`) reads the entry list and writes the extended list inside ONE
  write-locked section on every path.  `C17_concurrent_failures_all_recorded` turns that into a
  statement about all interleavings, `C17_concurrent_equals_sequential` into the step the model takes
  (`throttle`, `par`), so the refinement theorems of section 2 (`C17_block_iff_window`, which covers
  `par`) speak about concurrent failures as long as `C17_atomicity_facts` holds.
* `cleanup`, `setEntries`, `getEntries`: one section each; no access to the table outside the mutex; no
  write under the read lock; no other function touches the table.
* `CheckBruteforce` is NOT one section: it reads the list under the read lock and, on some paths, writes
  the pruned list back in a later write-locked section.  A failure recorded in between is lost exactly
  when that write-back happens — and it happens only when pruning removed something, i.e. when the
  list read began with a record older than twelve hours (`C17_stale_writeback_harmless`, relying on the
  regenerated guard `writeBackOnlyIfPruned`); `C17_concurrent_lost_update` is the remaining witness
  (property part "including concurrent attempts" stays partial for that one window). -/

/-- **The locking facts the sequential model relies on**, recomputed from the source on every run. -/
theorem C17_atomicity_facts :
    tableAccessors = ["addEntry", "cleanup", "getEntries", "setEntries"] ∧
    (wellLocked getEntriesPaths ∧ wellLocked setEntriesPaths ∧ wellLocked addEntryPaths ∧
      wellLocked cleanupPaths ∧ wellLocked throttlePaths ∧ wellLocked checkBruteforcePaths) = true ∧
    -- recording a failure: the list is read and the extended list written in one write-locked section
    addEntryPaths = [[("W", ["read", "write"])]] ∧ throttlePaths = addEntryPaths ∧
    (getEntriesPaths.all (·.length = 1) ∧ setEntriesPaths.all (·.length = 1) ∧
      cleanupPaths.all (·.length = 1)) = true ∧
    -- CheckBruteforce: a read-locked read first, then at most one separate write-locked section …
    checkBruteforcePaths.all (fun p => p.head? = some ("R", ["read"]) ∧ p.length ≤ 2) = true ∧
    -- … which is entered only when pruning changed the list
    writeBackOnlyIfPruned = true := by decide

/-- `CheckBruteforce` really is split (so the caveat below is about the code as it is). -/
example : checkBruteforcePaths.any (fun p => p.length = 2 ∧ (p.getLast?.map (·.1)) = some "W") = true := by decide

/-- **Every interleaving records every failure.**  `n` goroutines are inside `addEntry` for the same
key/kind, each following one of the regenerated paths; the scheduler runs their critical sections in any
order (`schedule`, arbitrary, may name finished or non-existent threads).  Once all have finished, the
entry list is the initial one followed by `n` new records: none is lost, none is duplicated. -/
theorem C17_concurrent_failures_all_recorded (init : List Int) (now : Int) (progs : List Prog)
    (hp : ∀ p ∈ progs, p ∈ addEntryProgs) (schedule : List Nat)
    (hdone : ((Conc.start init now progs).run schedule).pending = 0) :
    ((Conc.start init now progs).run schedule).shared = init ++ List.replicate progs.length now := by
  have h := (ConcInv.start C17_atomicity_facts.2.2.1 init now progs hp).run schedule
  obtain ⟨_, _, hsh⟩ := h
  rw [hsh, hdone]; simp

/-- … which is what the sequential model does for `n` `throttle` calls one after the other (and for its
`par` step): every interleaving is equivalent to a sequential order. -/
theorem C17_concurrent_equals_sequential (st : State) (now : Int) (k : Key) (a : Action)
    (progs : List Prog) (hp : ∀ p ∈ progs, p ∈ addEntryProgs) (schedule : List Nat)
    (hdone : ((Conc.start (st k a) now progs).run schedule).pending = 0) :
    ((Conc.start (st k a) now progs).run schedule).shared = throttleN st now k a progs.length k a := by
  rw [C17_concurrent_failures_all_recorded (st k a) now progs hp schedule hdone, throttleN_at]

/-- Non-vacuity: three threads, a schedule under which all finish. -/
example : ((Conc.start [1, 2] 7 (List.replicate 3 [[Acc.read, Acc.write]])).run [2, 0, 2, 1]).pending = 0 ∧
    ((Conc.start [1, 2] 7 (List.replicate 3 [[Acc.read, Acc.write]])).run [2, 0, 2, 1]).shared = [1, 2, 7, 7, 7] := by
  decide

/-- The theorem is about the sections, not about the accesses: the same accesses in two sections
(read under one lock, write under the next) lose a record under the schedule read/read/write/write. -/
example : ((Conc.start [1, 2] 7 (List.replicate 2 [[Acc.read], [Acc.write]])).run [0, 1, 0, 1]).pending = 0 ∧
    ((Conc.start [1, 2] 7 (List.replicate 2 [[Acc.read], [Acc.write]])).run [0, 1, 0, 1]).shared = [1, 2, 7] := by
  decide

/-- `CheckBruteforce` without interference is its two sections one after the other. -/
theorem C17_check_is_read_then_writeBack (st : State) (now : Int) (k : Key) (a : Action) :
    (check st now k a).1 = writeBack st now k a (st k a) := by
  have hg : writeBackOnlyIfPruned = true := C17_atomicity_facts.2.2.2.2.2.2
  unfold check writeBack
  by_cases h0 : st k a = []
  · simp [h0]
  · by_cases hb : blocked now (st k a) = true
    · simp [h0, hb]
    · simp only [h0, hb, hg, Bool.true_and, false_or, if_false, Bool.false_eq_true]
      by_cases hl : (filterEntries now (st k a)).length = (st k a).length
      · obtain ⟨m, h1, h2, _, _⟩ := filterEntries_eq_drop now (st k a)
        have hm : m = 0 := by
          have : (filterEntries now (st k a)).length = (st k a).length - m := by rw [h1]; simp
          have hpos : 0 < (st k a).length := List.length_pos_iff.mpr h0
          omega
        have heq : filterEntries now (st k a) = st k a := by rw [h1, hm]; simp
        simp only [hl, beq_self_eq_true, if_true]
        funext k' a'
        simp only [State.set, heq]
        split
        · rename_i h; rw [h.1, h.2]
        · rfl
      · simp [hl]

/-- **A stale write-back needs a record older than twelve hours.**  Whatever happened to the table
between the read and the write-back section of `CheckBruteforce` (`st` is arbitrary — e.g. concurrent
failures were appended), the write-back leaves it untouched unless pruning shortened the list that was
read.  Relies on the regenerated guard `writeBackOnlyIfPruned`. -/
theorem C17_stale_writeback_harmless (st : State) (now : Int) (k : Key) (a : Action) (readEarlier : List Int)
    (hyoung : filterEntries now readEarlier = readEarlier) :
    writeBack st now k a readEarlier = st := by
  have hg : writeBackOnlyIfPruned = true := C17_atomicity_facts.2.2.2.2.2.2
  unfold writeBack
  simp [hg, hyoung]

/-- In particular, after one connection's check has passed at `now` (which prunes), further checks of
the same key/kind at that time change nothing, however many of the concurrent failures they happen to
see: this is why the `par` step of the model ignores the checks that run alongside the failures. -/
theorem C17_concurrent_checks_harmless (st : State) (now : Int) (k : Key) (a : Action) (es : List Int) (j : Nat) :
    writeBack st now k a (filterEntries now es ++ List.replicate j now) = st :=
  C17_stale_writeback_harmless st now k a _ (filterEntries_after_check now es j)

/-- Witness of what remains: entry list `[old]` (older than 12 h); thread A reads it, thread B
records a failure, A writes back the pruned (empty) list: B's failure is gone. -/
theorem C17_concurrent_lost_update :
    let k := throttleKey addrA
    let old : Int := 0
    let now : Int := 13 * 3600 * 1000000000
    let st0 : State := State.empty.set k "X" [old]
    let readA := st0 k "X"
    let st1 := (throttle st0 now k "X").1          -- B: check passed earlier, now throttles
    let st2 := writeBack st1 now k "X" readA        -- A: stale write-back
    st1 k "X" = [old, now] ∧ st2 k "X" = [] := by
  decide +kernel

/-- Non-vacuity of the `par` step inside `C17_block_iff_window`: seven failures, then five at once —
all twelve are recorded, the address is blocked, the delays keep growing. -/
example : Monotone 0 ((tenFailures.take 7) ++ [.par (s 7) addrA "HelloResume" 5, .attempt (s 8) addrA "HelloResume" true]) ∧
    (run State.empty ((tenFailures.take 7) ++ [.par (s 7) addrA "HelloResume" 5,
        .attempt (s 8) addrA "HelloResume" true])).2.drop 7
      = [.rest 5 12 true [12800000000, 25000000000, 25000000000, 25000000000, 25000000000], .refused] := by
  decide +kernel

end SigModel.Throttle
