/-
C17 — Repeated failures from one address are throttled and then blocked.

Property theorems about the model of `throttle.go` (`Model/Throttle.lean`) over
the constants regenerated from the source (`Generated/Throttle.lean`), stated
against the counting spec of `Spec/Throttle.lean`.
-/
import SigModel.Lemmas.Throttle

namespace SigModel.Throttle
open SigModel.Generated.Throttle

/-! ## 1. The delay never decreases with the failure count and never exceeds 25 s -/

/-- 25 seconds in nanoseconds, as written in the property statement. -/
def twentyFiveSeconds : Nat := 25 * 1000000000

theorem C17_delay_monotone_bounded (c₁ c₂ : Nat) (h : c₁ ≤ c₂) :
    getDelay c₁ ≤ getDelay c₂ ∧ getDelay c₂ ≤ twentyFiveSeconds := by
  refine ⟨getDelay_mono h, Nat.le_trans (getDelay_le_max c₂) ?_⟩
  decide

/-- The machine computation (64-bit wrap-around `int`/`time.Duration`, signed
comparison) yields the same, non-negative, value for *every* count: the
overflow guard in `getDelay` is sufficient. -/
theorem C17_delay_no_overflow (c : Nat) :
    (getDelay64 c).toNat = getDelay c ∧ (getDelay64 c).msb = false := by
  by_cases h : c > overflowGuard
  · have h1 : getDelay64 c = BitVec.ofNat 64 maxThrottleDelay := by unfold getDelay64; simp [h]
    have h2 : getDelay c = maxThrottleDelay := by unfold getDelay; simp [h]
    rw [h1, h2]; decide
  · have hall : ∀ k, k ≤ overflowGuard →
        (getDelay64 k).toNat = getDelay k ∧ (getDelay64 k).msb = false := by decide +kernel
    exact hall c (by omega)

/-- Without the guard the claim would be false: the unguarded formula wraps. -/
example : ((BitVec.ofNat 64 delayFactor * intPow64 (BitVec.ofNat 64 powBase) 60)
    * BitVec.ofNat 64 delayUnit).toNat ≠ delayFactor * powBase ^ 60 * delayUnit := by decide +kernel

/-! ## 2. Refused ⇔ ten failures within thirty minutes; delays follow the failure count

For every history of whole attempts and cleanups under a monotone clock, the
code's outcomes (refused / passed / delayed d) are exactly those of the counting
spec, which never forgets anything. -/

theorem C17_block_iff_window (t0 : Int) (ops : List Op) (hm : Monotone t0 ops) :
    (run State.empty ops).2 = (specRun Hist.empty ops).2 :=
  run_refines ops (Rel.empty t0) hm

/-- The numbers in the code are the numbers in the statement
(10 attempts, 30 min = 1 800 000 000 000 ns, 12 h = 43 200 000 000 000 ns, ≤ 25 s, /64). -/
theorem C17_constants :
    maxBruteforceAttempts = 10 ∧
    maxBruteforceDurationThreshold = 1800000000000 ∧
    maxBruteforceAge = 43200000000000 ∧
    maxThrottleDelay ≤ twentyFiveSeconds ∧
    subnetBits = 64 := by decide

/-- Spelled out on the spec: an attempt is refused iff at least ten recorded
failures of that key/action lie within thirty minutes — so refused attempts
(which record nothing) cannot prolong a block, and it ends once fewer than ten
failures are within the last thirty minutes. -/
theorem C17_spec_refused_iff (now : Int) (F : List Int) (failed : Bool) :
    (specAttempt now F failed).2 = .refused ↔
      10 ≤ (F.filter (fun t => decide (now - t ≤ 1800000000000))).length := by
  unfold specAttempt specRefused windowCount
  have : inWindow now = fun t => decide (now - t ≤ 1800000000000) := by
    funext t; simp only [inWindow, stmtWindow]; rfl
  rw [this]
  simp only [stmtAttempts]
  by_cases h : 10 ≤ (F.filter (fun t => decide (now - t ≤ 1800000000000))).length
  · simp [h]
  · cases failed <;> simp [h]

theorem C17_refused_records_nothing (now : Int) (F : List Int) (failed : Bool)
    (h : (specAttempt now F failed).2 = .refused) : (specAttempt now F failed).1 = F := by
  unfold specAttempt at *
  split <;> simp_all
  split at h <;> simp_all

/-- The delay of a failed attempt is `getDelay` of the number of failures of the
last twelve hours — monotone in that number by `C17_delay_monotone_bounded`. -/
theorem C17_spec_delay (now : Int) (F : List Int) (d : Nat)
    (h : (specAttempt now F true).2 = .delayed d) : d = getDelay (ageCount now F) := by
  unfold specAttempt at h
  split at h <;> simp_all

/-! ## 3. Independence of addresses (IPv6: /64s) and actions

No assumption on the clock or on atomicity: holds for every op sequence,
including the two-phase ops. -/

def Op.touches (k : Key) (a : Action) : Op → Bool
  | .attempt _ addr a' _ => decide (throttleKey addr = k ∧ a' = a)
  | .cleanup _ => true
  | .checkOnly _ addr a' => decide (throttleKey addr = k ∧ a' = a)
  | .throttleOnly _ addr a' => decide (throttleKey addr = k ∧ a' = a)
  | .par _ addr a' _ _ => decide (throttleKey addr = k ∧ a' = a)

/-- Outcomes of the ops that concern key/action `(k, a)`, in order. -/
def outsFor (k : Key) (a : Action) (st : State) : List Op → List Out
  | [] => []
  | op :: ops =>
    let r := step st op
    if op.touches k a then r.2 :: outsFor k a r.1 ops else outsFor k a r.1 ops

theorem step_frame (st : State) (op : Op) (k : Key) (a : Action) (h : op.touches k a = false) :
    (step st op).1 k a = st k a := by
  cases op with
  | attempt now addr a' failed =>
    apply step_attempt_frame
    simp [Op.touches] at h
    intro ⟨h1, h2⟩; exact h h1.symm h2.symm
  | cleanup now => simp [Op.touches] at h
  | checkOnly now addr a' =>
    simp [Op.touches] at h
    unfold step check
    simp only []
    split
    · rfl
    · split
      · rfl
      · simp only [State.set]
        rw [if_neg]; intro ⟨h1, h2⟩; exact h h1.symm h2.symm
  | throttleOnly now addr a' =>
    simp [Op.touches] at h
    unfold step throttle
    simp only [State.set]
    rw [if_neg]; intro ⟨h1, h2⟩; exact h h1.symm h2.symm
  | par now addr a' n dt =>
    apply step_par_frame
    simp [Op.touches] at h
    intro ⟨h1, h2⟩; exact h h1.symm h2.symm

/-- What a touching op does at `(k,a)` and what it answers depend only on the
entry list of `(k,a)`. -/
theorem step_local (st st' : State) (op : Op) (k : Key) (a : Action)
    (h : op.touches k a = true) (heq : st k a = st' k a) :
    (step st op).1 k a = (step st' op).1 k a ∧ (step st op).2 = (step st' op).2 := by
  cases op with
  | attempt now addr a' failed =>
    simp [Op.touches] at h
    obtain ⟨rfl, rfl⟩ := h
    obtain ⟨h1, h2⟩ := step_attempt_at st now addr a' failed
    obtain ⟨h1', h2'⟩ := step_attempt_at st' now addr a' failed
    rw [h1, h2, h1', h2', heq]; exact ⟨rfl, rfl⟩
  | cleanup now => simp [step, cleanup, heq]
  | checkOnly now addr a' =>
    simp [Op.touches] at h
    obtain ⟨rfl, rfl⟩ := h
    unfold step check
    simp only [← heq]
    split
    · simp [*]
    · split <;> simp [State.set, *]
  | throttleOnly now addr a' =>
    simp [Op.touches] at h
    obtain ⟨rfl, rfl⟩ := h
    unfold step throttle
    simp [State.set, heq]
  | par now addr a' n dt =>
    simp [Op.touches] at h
    obtain ⟨rfl, rfl⟩ := h
    obtain ⟨h1, h2⟩ := step_par_at st now addr a' n dt
    obtain ⟨h1', h2'⟩ := step_par_at st' now addr a' n dt
    rw [h1, h2, h1', h2', heq]; exact ⟨rfl, rfl⟩

/-- **Independence.** The outcomes seen by one address-key/action are the same
whether or not any other address or action is active in between, and whatever
those did before: they are determined by the sub-history of ops touching it. -/
theorem C17_independent (k : Key) (a : Action) :
    ∀ (ops : List Op) (st st' : State), st k a = st' k a →
      outsFor k a st ops = outsFor k a st' (ops.filter (Op.touches k a)) := by
  intro ops
  induction ops with
  | nil => intros; rfl
  | cons op ops ih =>
    intro st st' heq
    by_cases ht : op.touches k a = true
    · obtain ⟨h1, h2⟩ := step_local st st' op k a ht heq
      simp only [outsFor, List.filter, ht, if_true]
      rw [h2, ih _ _ h1]
    · have ht' : op.touches k a = false := by simpa using ht
      simp only [outsFor, List.filter, ht']
      simp only [Bool.false_eq_true, if_false]
      exact ih _ _ (by rw [step_frame st op k a ht', heq])

/-- Two IPv6 addresses share a throttle record iff they lie in the same /64;
every other kind of address string is its own key. -/
theorem C17_key_v6 (b₁ b₂ : List Nat) :
    throttleKey (.v6 b₁) = throttleKey (.v6 b₂) ↔ b₁.take 8 = b₂.take 8 := by
  simp [throttleKey, subnetBits]

theorem C17_key_raw (s₁ s₂ : String) :
    throttleKey (.raw s₁) = throttleKey (.raw s₂) ↔ s₁ = s₂ := by
  simp [throttleKey]

theorem C17_key_kinds (s : String) (b : List Nat) : throttleKey (.raw s) ≠ throttleKey (.v6 b) := by
  simp [throttleKey]

/-! ## 4. Records older than twelve hours are forgotten -/

/-- After a cleanup (and after every non-refused check) nothing older than
`maxBruteforceAge` remains in a time-ordered entry list. -/
theorem C17_forgets (now : Int) (es : List Int) (hs : Sorted es) :
    ∀ t ∈ filterEntries now es, now - t ≤ (43200000000000 : Int) := by
  obtain ⟨m, h1, _, _, h4⟩ := filterEntries_eq_drop now es
  rw [h1]
  have := sorted_all_young (hs.drop m) _ h4
  have hc := C17_constants
  intro t ht
  have := this t ht
  rw [hc.2.2.1] at this
  simpa using this

/-- …and entries older than twelve hours never influence an outcome: the spec's
answer is unchanged if they are removed from the history. -/
theorem C17_old_irrelevant (now : Int) (F : List Int) (failed : Bool) :
    (specAttempt now F failed).2 = (specAttempt now (F.filter (inAge now)) failed).2 := by
  have hw : windowCount now (F.filter (inAge now)) = windowCount now F := by
    unfold windowCount
    rw [List.filter_filter]
    congr 1
    apply List.filter_congr
    intro t _
    have : (stmtWindow : Int) ≤ (stmtAge : Int) := by decide
    simp only [inWindow, inAge]
    by_cases h : now - t ≤ (stmtWindow : Int)
    · simp [h]; omega
    · simp [h]
  have ha : ageCount now (F.filter (inAge now)) = ageCount now F := by
    unfold ageCount; rw [List.filter_filter]; simp
  unfold specAttempt specRefused
  rw [hw, ha]
  split
  · rfl
  · split <;> rfl

/-! ## 5. Non-vacuity and concrete instances -/

private def s (n : Int) : Int := n * 1000000000
private def addrA : Addr := .raw "192.0.2.1"
private def tenFailures : List Op := (List.range 10).map fun i => .attempt (s (Int.ofNat i)) addrA "HelloResume" true

/-- The hypotheses of `C17_block_iff_window` are met by a real blocking history:
ten failures one second apart, then an attempt that is refused, then one
31 minutes later that is let through again. -/
example : Monotone 0 (tenFailures ++ [.attempt (s 10) addrA "HelloResume" true,
                                     .attempt (s 1870) addrA "HelloResume" false]) := by
  decide

example : (run State.empty (tenFailures ++ [.attempt (s 10) addrA "HelloResume" true,
                                            .attempt (s 1870) addrA "HelloResume" false])).2.drop 9
    = [.delayed 25000000000, .refused, .passed] := by decide +kernel

/-! ## 6. Concurrency

The model is sequential: each op is one step.  What ties this to code that is called from many
goroutines is regenerated on every run (`Generated/Throttle.lean`): for every control-flow path of a
method, the critical sections of the throttler's mutex it goes through, and which kinds of access to the
failure table happen inside each.

* Every function that touches the table does so inside ONE critical section per path (`accessorPaths`:
  `addEntry`, `cleanup`, `getEntries`, `pruneEntries`), never outside the mutex, never writing under the
  read lock, and none of them is handed an entry list computed elsewhere
  (`tableAccessorsWithListParam = []`): what a section writes comes from what it read itself.
* `addEntry` (hence `throttle`) reads the entry list and writes the extended list in one write-locked
  section.
* `CheckBruteforce` reads the list under the read lock (detection) and, on some paths, later enters one
  write-locked section that reads the list again, filters it and stores it (`pruneEntries`) — the
  read–filter–write is a single section.  (Before the repair /repo ab87e57 the list read in the first
  section was written back in the second; see the last `example` of this section.)

`C17_concurrent_no_record_lost` turns this into a statement about every interleaving of any number of
concurrent failures and checks; `C17_block_iff_window` (section 2, which covers the `par` step) therefore
speaks about concurrent attempts as long as `C17_atomicity_facts` holds. -/

/-- **The locking facts the sequential model relies on**, recomputed from the source on every run. -/
theorem C17_atomicity_facts :
    AddEntryAtomic ∧ CheckSelfContained ∧
    -- every function touching the table: under the mutex, writes under the write lock, one section per path
    (accessorPaths.map (·.1) = tableAccessors ∧
      accessorPaths.all (fun ap => wellLocked ap.2 && ap.2.all (·.length = 1)) = true) ∧
    (wellLocked addEntryPaths ∧ wellLocked cleanupPaths ∧ wellLocked throttlePaths ∧
      wellLocked checkBruteforcePaths) = true ∧
    throttlePaths = addEntryPaths ∧ cleanupPaths.all (·.length = 1) = true ∧
    -- CheckBruteforce: a read-locked read first, then at most one further (write-locked) section
    checkBruteforcePaths.all (fun p => p.head? = some ("R", ["read"]) ∧ p.length ≤ 2) = true := by
  unfold AddEntryAtomic CheckSelfContained
  decide

/-- **No interleaving loses a record.**  Any number of goroutines are inside `addEntry` (job
`record e`) or `CheckBruteforce` (job `prune now`) for the same key/kind, each following one of the
regenerated paths of its method; the scheduler runs their critical sections in any order (`schedule` is
arbitrary).  At every moment the entry list is the full history — the initial list followed by every
failure recorded so far, in recording order (`log`) — minus a prefix of entries that some checking
goroutine found older than twelve hours; and every recording goroutine that has finished is in the log. -/
theorem C17_concurrent_no_record_lost (init : List Int) (ts : List (Job × Prog)) (hw : WellFormed ts)
    (schedule : List Nat) :
    (∃ d, d ≤ (init ++ (Conc.after init ts schedule).log).length ∧
      (Conc.after init ts schedule).shared = (init ++ (Conc.after init ts schedule).log).drop d ∧
      ∀ x ∈ (init ++ (Conc.after init ts schedule).log).take d,
        ∃ now, Job.prune now ∈ ts.map (·.1) ∧ now - x > 43200000000000) ∧
    (Conc.after init ts schedule).log.length + (Conc.after init ts schedule).pendingRec
      = ts.countP (·.1.isRecord) ∧
    ∀ x ∈ (Conc.after init ts schedule).log, Job.record x ∈ ts.map (·.1) := by
  have h : ConcInv init _ _ (Conc.after init ts schedule) :=
    (ConcInv.start C17_atomicity_facts.1 C17_atomicity_facts.2.1 init ts hw).run schedule
  have hage : (maxBruteforceAge : Int) = 43200000000000 := by decide
  refine ⟨?_, h.cnt, h.logmem⟩
  obtain ⟨d, h1, h2, h3⟩ := h.sh
  exact ⟨d, h1, h2, fun x hx => by obtain ⟨now, hn, ho⟩ := h3 x hx; exact ⟨now, hn, by rw [← hage]; exact ho⟩⟩

theorem Conc.pendingRec_le_pending (c : Conc) : c.pendingRec ≤ c.pending := by
  unfold Conc.pendingRec Conc.pending
  apply List.countP_mono_left
  intro t _ h
  simp only [Bool.and_eq_true] at h
  exact h.2

/-- **Concurrent failures all count.**  When all goroutines have finished, and none of the failures was
already older than twelve hours for one of the checks running alongside, the entry list ends with all of
them: as many new records as failures, after what is left of the initial list. -/
theorem C17_concurrent_failures_all_recorded (init : List Int) (ts : List (Job × Prog)) (hw : WellFormed ts)
    (schedule : List Nat)
    (hyoung : ∀ e now, Job.record e ∈ ts.map (·.1) → Job.prune now ∈ ts.map (·.1) → now - e ≤ 43200000000000)
    (hdone : (Conc.after init ts schedule).pending = 0) :
    (Conc.after init ts schedule).log.length = ts.countP (·.1.isRecord) ∧
    ∃ d, d ≤ init.length ∧
      (Conc.after init ts schedule).shared = init.drop d ++ (Conc.after init ts schedule).log := by
  generalize hc : Conc.after init ts schedule = c at hdone ⊢
  obtain ⟨⟨d, h1, h2, h3⟩, hcnt, hlog⟩ := C17_concurrent_no_record_lost init ts hw schedule
  rw [hc] at h1 h2 h3 hcnt hlog
  have hp : c.pendingRec = 0 := by
    have := Conc.pendingRec_le_pending c
    omega
  refine ⟨by omega, d, ?_, ?_⟩
  · -- a dropped entry is older than twelve hours for a checker; a recorded one is not
    apply Classical.byContradiction
    intro hd
    have hd' : init.length < d := by omega
    have hlen : 0 < c.log.length := by simp only [List.length_append] at h1; omega
    obtain ⟨x, rest, hx⟩ : ∃ x rest, c.log = x :: rest := by
      cases hl : c.log with
      | nil => rw [hl] at hlen; simp at hlen
      | cons x rest => exact ⟨x, rest, rfl⟩
    have hmem : x ∈ (init ++ c.log).take d := by
      rw [List.take_append, hx]
      apply List.mem_append_right
      have : d - init.length = (d - init.length - 1) + 1 := by omega
      rw [this, List.take_succ_cons]
      exact List.mem_cons_self
    obtain ⟨now, hn, ho⟩ := h3 x hmem
    have := hyoung x now (hlog x (by rw [hx]; exact List.mem_cons_self)) hn
    omega
  · rw [h2]
    by_cases hd : d ≤ init.length
    · exact List.drop_append_of_le_length hd
    · exfalso
      apply hd
      apply Classical.byContradiction
      intro hd2
      have hd' : init.length < d := by omega
      have hlen : 0 < c.log.length := by simp only [List.length_append] at h1; omega
      obtain ⟨x, rest, hx⟩ : ∃ x rest, c.log = x :: rest := by
        cases hl : c.log with
        | nil => rw [hl] at hlen; simp at hlen
        | cons x rest => exact ⟨x, rest, rfl⟩
      have hmem : x ∈ (init ++ c.log).take d := by
        rw [List.take_append, hx]
        apply List.mem_append_right
        have : d - init.length = (d - init.length - 1) + 1 := by omega
        rw [this, List.take_succ_cons]
        exact List.mem_cons_self
      obtain ⟨now, hn, ho⟩ := h3 x hmem
      have := hyoung x now (hlog x (by rw [hx]; exact List.mem_cons_self)) hn
      omega

/-- Failures only, all with the captured time `now`: every interleaving ends in the state the
sequential model reaches by `n` `throttle` steps (and by its `par` step). -/
theorem C17_concurrent_equals_sequential (st : State) (now : Int) (k : Key) (a : Action)
    (ts : List (Job × Prog)) (hw : WellFormed ts) (hrec : ∀ jp ∈ ts, jp.1 = Job.record now)
    (schedule : List Nat) (hdone : (Conc.after (st k a) ts schedule).pending = 0) :
    (Conc.after (st k a) ts schedule).shared = throttleN st now k a ts.length k a := by
  have hnoprune : ∀ t, Job.prune t ∉ ts.map (·.1) := by
    intro t ht
    obtain ⟨jp, hjp, he⟩ := List.mem_map.mp ht
    rw [hrec jp hjp] at he; cases he
  obtain ⟨hlen, d, hd, hsh⟩ := C17_concurrent_failures_all_recorded (st k a) ts hw schedule
    (fun e t _ hp => absurd hp (hnoprune t)) hdone
  obtain ⟨⟨d', h1, h2, h3⟩, _, hlog⟩ := C17_concurrent_no_record_lost (st k a) ts hw schedule
  -- nothing can have been dropped: there is no checker
  have hd0 : (st k a ++ (Conc.after (st k a) ts schedule).log).take d' = [] := by
    apply List.eq_nil_iff_forall_not_mem.mpr
    intro x hx
    obtain ⟨t, ht, _⟩ := h3 x hx
    exact hnoprune t ht
  have hall : (Conc.after (st k a) ts schedule).shared
      = st k a ++ (Conc.after (st k a) ts schedule).log := by
    rw [h2]
    have := List.take_append_drop d' (st k a ++ (Conc.after (st k a) ts schedule).log)
    rw [hd0] at this
    simpa using this
  have hcount : ts.countP (·.1.isRecord) = ts.length := by
    apply List.countP_eq_length.mpr
    intro jp hjp; rw [hrec jp hjp]; rfl
  have hrep : (Conc.after (st k a) ts schedule).log = List.replicate ts.length now := by
    apply List.eq_replicate_iff.mpr
    refine ⟨by rw [hlen, hcount], ?_⟩
    intro x hx
    obtain ⟨jp, hjp, he⟩ := List.mem_map.mp (hlog x hx)
    rw [hrec jp hjp] at he
    cases he; rfl
  rw [hall, hrep, throttleN_at]

private def T0 : Int := 43140000000000     -- 11 h 59 min
private def T1 : Int := 43260000000000     -- 12 h 01 min

/-- Non-vacuity, on the programs the source has now: the list holds one record of time 0; a connection was
checked at `T0` and fails (records `T0`) while another one is checked at `T1`, for which the old record
has expired.  Under the schedule *check reads — failure recorded — check prunes* the failure survives. -/
example : WellFormed [(Job.prune T1, [[Acc.read], [Acc.read, Acc.write]]), (Job.record T0, [[Acc.read, Acc.write]])] ∧
    ((Conc.start [0] [(Job.prune T1, [[Acc.read], [Acc.read, Acc.write]]),
        (Job.record T0, [[Acc.read, Acc.write]])]).run [0, 1, 0]).shared = [T0] := by
  decide

/-- The same goroutines with the *split* program the source had before /repo ab87e57 (the second section
writes what the first one read): the failure is lost.  The theorems above are about the sections. -/
example : ((Conc.start [0] [(Job.prune T1, [[Acc.read], [Acc.write]]),
        (Job.record T0, [[Acc.read, Acc.write]])]).run [0, 1, 0]).shared = [] ∧
    ((Conc.start [0] [(Job.prune T1, [[Acc.read], [Acc.write]]),
        (Job.record T0, [[Acc.read, Acc.write]])]).run [0, 1, 0]).log = [T0] := by
  decide

/-- … and recording in two sections (read under one lock, write under the next) loses a record under the
schedule read/read/write/write. -/
example : ((Conc.start [1, 2] (List.replicate 2 (Job.record 7, [[Acc.read], [Acc.write]]))).run [0, 1, 0, 1]).pending = 0 ∧
    ((Conc.start [1, 2] (List.replicate 2 (Job.record 7, [[Acc.read], [Acc.write]]))).run [0, 1, 0, 1]).shared = [1, 2, 7] := by
  decide

/-- Non-vacuity of the `par` step inside `C17_block_iff_window`: seven failures, then five at once —
all twelve are recorded, the address is blocked, the delays keep growing. -/
example : Monotone 0 ((tenFailures.take 7) ++ [.par (s 7) addrA "HelloResume" 5 0, .attempt (s 8) addrA "HelloResume" true]) ∧
    (run State.empty ((tenFailures.take 7) ++ [.par (s 7) addrA "HelloResume" 5 0,
        .attempt (s 8) addrA "HelloResume" true])).2.drop 7
      = [.rest 5 12 true [12800000000, 25000000000, 25000000000, 25000000000, 25000000000], .refused] := by
  decide +kernel

/-- … and with the window the repair is about: one record at time 0, three connections checked at
11 h 59 min fail while checks of 12 h 01 min run alongside: at rest the old record is gone, the three new
ones are there. -/
example : (run State.empty [.attempt 0 addrA "X" true, .par T0 addrA "X" 3 120000000000]).2
      = [.delayed 100000000, .rest 3 3 false [200000000, 400000000, 800000000]] := by
  decide +kernel

/-! ## 7. The call sites

Sections 1–6 are about the throttler.  Whether an attempt is throttled at all is decided where the
throttler is *called*: a handler that looks at the credential first and consults the throttler only when it
is bad keeps recording, delaying and refusing bad attempts — and lets a blocked address in on its first good
guess.  The paths of the three handlers are regenerated from the source (`Generated/ThrottleSites.lean`). -/

/-- **The facts about the call sites**, recomputed from the source on every run: each of the three handlers
(room API checksum, internal token, resume id) consults the throttler, for its own kind of attempt, before
anything that looks at the credential; on `ErrBruteforceDetected` it answers 429 / `too_many_requests` and
does nothing else; it calls the returned function once, before answering, on exactly the paths that reject
the credential.  And nothing else in hub.go / backend_server.go consults the throttler (no function outside
the three handlers and the helpers whose paths are part of theirs). -/
theorem C17_site_facts :
    sites.map (fun sp => siteCfg sp.1 sp.2) = [SiteCfg.guarded, SiteCfg.guarded, SiteCfg.guarded] ∧
    sites.map (fun sp => refusalOf sp.2) = ["http:429", "error:too_many_requests", "error:too_many_requests"] ∧
    SigModel.Generated.ThrottleSites.strayCheckCallers = [] := by
  decide

theorem C17_site_cfg (a : Action) (sp : SiteSpec × List SitePath) (h : siteOf a = some sp) :
    siteCfg sp.1 sp.2 = SiteCfg.guarded := by
  have hf := C17_site_facts.1
  unfold siteOf at h
  have hm := List.mem_of_find?_eq_some h
  have : siteCfg sp.1 sp.2 ∈ sites.map (fun sp => siteCfg sp.1 sp.2) := List.mem_map.mpr ⟨sp, hm, rfl⟩
  rw [hf] at this
  simpa using this

/-- With the three facts, an attempt handled by a call site is a whole attempt of sections 2–4:
consultation first, refusal if blocked, failure recorded iff the credential is rejected. -/
theorem C17_site_is_attempt (st : State) (now : Int) (addr : Addr) (a : Action) (failed : Bool) :
    siteAttempt SiteCfg.guarded st now addr a failed = step st (.attempt now addr a failed) := by
  unfold siteAttempt step SiteCfg.guarded
  simp only [Bool.true_or, Bool.and_true, if_true]

theorem siteRun_guarded (as : List (Int × Addr × Action × Bool)) (st : State) :
    siteRun SiteCfg.guarded st as = run st (as.map fun x => .attempt x.1 x.2.1 x.2.2.1 x.2.2.2) := by
  induction as generalizing st with
  | nil => rfl
  | cons x rest ih =>
    obtain ⟨now, addr, a, failed⟩ := x
    simp only [siteRun, run, List.map, C17_site_is_attempt, ih]

/-- **Blocked ⇒ refused, whatever the credential.**  If the code's refusal test holds for the address and
kind, the handler refuses the attempt — good credential or bad — and records nothing. -/
theorem C17_site_blocked_refused (st : State) (now : Int) (addr : Addr) (a : Action) (failed : Bool)
    (hb : blocked now (st (throttleKey addr) a) = true) :
    siteAttempt SiteCfg.guarded st now addr a failed = (st, .refused) := by
  have hne : st (throttleKey addr) a ≠ [] := by
    intro h; rw [h] at hb
    have : blocked now [] = false := by
      unfold blocked; simp [attemptsCmp_ge]
    rw [this] at hb; cases hb
  rw [C17_site_is_attempt]
  unfold step check
  simp [hne, hb]

/-- **Histories of handled attempts.**  For every sequence of attempts arriving at the three handlers
(address, kind, credential good or bad) under a monotone clock, the outcomes are those of the counting
spec: refused iff ten failures of that kind from that address (/64) lie within thirty minutes —
independently of what the refused attempt presents. -/
theorem C17_site_block_iff_window (t0 : Int) (as : List (Int × Addr × Action × Bool))
    (hm : Monotone t0 (as.map fun x => .attempt x.1 x.2.1 x.2.2.1 x.2.2.2)) :
    (siteRun SiteCfg.guarded State.empty as).2
      = (specRun Hist.empty (as.map fun x => .attempt x.1 x.2.1 x.2.2.1 x.2.2.2)).2 := by
  rw [siteRun_guarded]
  exact C17_block_iff_window t0 _ hm

private def tenBad : List (Int × Addr × Action × Bool) :=
  (List.range 10).map fun i => (s (Int.ofNat i), addrA, "BackendRoomAuth", true)

/-- Non-vacuity: ten bad checksums, then a good one and a bad one from the blocked address: both refused;
31 minutes later a good one is served. -/
example : Monotone 0 ((tenBad ++ [(s 10, addrA, "BackendRoomAuth", false), (s 11, addrA, "BackendRoomAuth", true),
      (s 1871, addrA, "BackendRoomAuth", false)]).map fun x => Op.attempt x.1 x.2.1 x.2.2.1 x.2.2.2) ∧
    (siteRun SiteCfg.guarded State.empty (tenBad ++ [(s 10, addrA, "BackendRoomAuth", false),
      (s 11, addrA, "BackendRoomAuth", true), (s 1871, addrA, "BackendRoomAuth", false)])).2.drop 10
      = [.refused, .refused, .passed] := by
  decide +kernel

/-- The facts matter: a handler that consults the throttler only once the credential has been found bad
(everything else as before: bad attempts recorded, delayed, the eleventh refused) serves the blocked address
as soon as it presents a good credential. -/
example : (siteRun ⟨false, true, true⟩ State.empty (tenBad ++ [(s 10, addrA, "BackendRoomAuth", true),
      (s 11, addrA, "BackendRoomAuth", false)])).2.drop 9 = [.delayed 25000000000, .refused, .passed] ∧
    (specRun Hist.empty ((tenBad ++ [(s 10, addrA, "BackendRoomAuth", true),
      (s 11, addrA, "BackendRoomAuth", false)]).map fun x => Op.attempt x.1 x.2.1 x.2.2.1 x.2.2.2)).2.drop 9
      = [.delayed 25000000000, .refused, .refused] := by
  decide +kernel

/-- … and the path predicates do tell such a handler from the present one: the check moved into a helper
that runs on the rejection paths only. -/
example : siteCfg roomSpec
    [[("call", "mux.Vars"), ("call", "ValidateBackendChecksum"), ("reply", "http:(responseStatus)"), ("return", "")],
     [("call", "mux.Vars"), ("call", "ValidateBackendChecksum"), ("call", "r.Context"), ("call", "b.hub.getRealUserIP"),
      ("check", "BackendRoomAuth"), ("blocked", "+"), ("reply", "http:429"), ("return", "")],
     [("call", "mux.Vars"), ("call", "ValidateBackendChecksum"), ("call", "r.Context"), ("call", "b.hub.getRealUserIP"),
      ("check", "BackendRoomAuth"), ("blocked", "-"), ("err", "-"), ("throttle", ""), ("reply", "http:403"), ("return", "")]]
    = ⟨false, true, false⟩ := by decide

end SigModel.Throttle
