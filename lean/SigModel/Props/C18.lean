/-
C18 — The media proxy serves only token holders and cleans up after them.
-/
import SigModel.Spec.Proxy

namespace SigModel.Proxy
open SigModel.Generated.Proxy

/-- The numbers and the list in the code are those of the statement. -/
theorem C18_constants :
    validMethods = stmtAlgs ∧ (maxTokenAge : Int) = stmtMaxAge ∧ (tokenLeeway : Int) = stmtLeeway := by decide

end SigModel.Proxy
