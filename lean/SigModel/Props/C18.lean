/-
C18 — The media proxy serves only token holders and cleans up after them.

Property theorems about the model of `proxy/proxy_server.go` / `proxy_session.go`
(`Model/Proxy.lean`), defined over the facts regenerated from the source
(`Generated/Proxy.lean`), against the statement's own notions (`Spec/Proxy.lean`).
Signatures are an oracle (`Tok.verifies`), not an axiom: every theorem holds
for every oracle.
-/
import SigModel.Lemmas.Proxy

namespace SigModel.Proxy
open SigModel.Generated.Proxy

/-! ## 0. The code's constants are the statement's -/

/-- The numbers and the list in the code are those of the statement. -/
theorem C18_constants :
    validMethods = stmtAlgs ∧ (maxTokenAge : Int) = stmtMaxAge ∧ (tokenLeeway : Int) = stmtLeeway ∧
    algsOfMethodType keyfuncMethodType = stmtAlgs := by decide

/-! ## 1. A session is created only for a valid token -/

/-- The token decision: whatever `parseToken` accepts is RS256/384/512, verifies
under the key configured for its issuer, and carries an `iat` inside the window
`[now − (5 min + 1 min), now + 1 min]` — for every token, clock and oracle. -/
theorem C18_accept_needs_valid_token (cfg : Cfg) (now : Int) (t : Tok)
    (h : parseToken cfg now t = none) : ValidToken cfg now t :=
  parseToken_ok_valid cfg now t h

/-- Conversely (the model does not hold vacuously by refusing everything): a
well-formed valid token whose `exp` / `nbf`, if present, are in order is accepted. -/
theorem C18_valid_token_accepted (cfg : Cfg) (now : Int) (t : Tok) (hw : t.wellformed = true)
    (hv : ValidToken cfg now t) (he : expOK now t = true) (hn : nbfOK now t = true) :
    parseToken cfg now t = none := by
  rw [parseToken_none_iff]
  obtain ⟨halg, ⟨k, hk, hkv⟩, i, hi, hlo, hhi⟩ := hv
  have h1 : validMethods = stmtAlgs := by decide
  have h2 : algsOfMethodType keyfuncMethodType = stmtAlgs := by decide
  have hcmp : ∀ a b, iatTooOld a b = decide (a < b) := by
    intro a b; simp [iatTooOld, iatTooOldCmp]
  simp only [checks, List.mem_cons, List.not_mem_nil, or_false, forall_eq_or_imp, forall_eq]
  refine ⟨hw, by rw [h1]; simpa using halg, by rw [h2]; simpa using halg, ?_, ?_, he, ?_⟩
  · have hki : keyByIssuer = true := by decide
    simp [keyOK, hk, hki, hkv]
  · have hwi : withIssuedAt = true := by decide
    simp only [hn, Bool.true_and, iatNotFuture, hwi, Bool.not_true, Bool.false_or, hi, leeway_eq]
    simp only [stmtLeeway] at hhi
    simp; omega
  · simp only [iatRecent, hi, hcmp, maxAgeWindow_eq]
    simp only [stmtMaxAge, stmtLeeway] at hlo
    simp; omega

example : ValidToken { keys := [("foo", "k0")] } 1000000000000
    { alg := "RS384", issuer := "foo", verifies := ["k0"], iat := some 700000000000 } :=
  (validTokenB_iff _ _ _).mp (by decide)

/-- One step: a session id appears only through a hello whose token is valid. -/
theorem C18_step_session_needs_token (cfg : Cfg) (st : State) (op : Op) (sid : Nat)
    (hnew : sid ∈ sids (step cfg st op).1) (hold : sid ∉ sids st) :
    sid = st.nextSid ∧ ∃ c t, op = .msg c (.hello (.token t)) ∧ ValidToken cfg st.now t := by
  rcases step_sids cfg st op with h | ⟨c, t, rfl, hp, hs, _⟩
  · exact absurd (h.1 sid hnew) hold
  · rw [hs] at hnew
    rcases List.mem_append.mp hnew with h | h
    · exact absurd h hold
    · exact ⟨by simpa using h, c, t, rfl, parseToken_ok_valid cfg _ t hp⟩

theorem run_append (cfg : Cfg) (st : State) (a b : List Op) :
    run cfg st (a ++ b) = run cfg (run cfg st a) b := by
  induction a generalizing st with
  | nil => rfl
  | cons x xs ih => exact ih _

theorem step_msg_busy (cfg : Cfg) (st : State) (c : Nat) (m : Msg) (hb : isBusy st c = true) :
    step cfg st (.msg c m) = (st, []) := by simp [step, hb]

theorem step_msg_not_busy (cfg : Cfg) (st : State) (c : Nat) (m : Msg) (hb : ¬ isBusy st c = true) :
    step cfg st (.msg c m) = doMsg cfg st c m := by simp [step, hb]

theorem run_session_origin (cfg : Cfg) (ops : List Op) (st : State) (sid : Nat)
    (h : sid ∈ sids (run cfg st ops)) :
    sid ∈ sids st ∨ ∃ pre c t post, ops = pre ++ Op.msg c (.hello (.token t)) :: post ∧
      ValidToken cfg (run cfg st pre).now t ∧ sid = (run cfg st pre).nextSid := by
  induction ops generalizing st with
  | nil => exact Or.inl h
  | cons op ops ih =>
    rcases ih (step cfg st op).1 h with h1 | ⟨pre, c, t, post, rfl, hv, hs⟩
    · by_cases hold : sid ∈ sids st
      · exact Or.inl hold
      · obtain ⟨h2, c, t, rfl, hv⟩ := C18_step_session_needs_token cfg st op sid h1 hold
        exact Or.inr ⟨[], c, t, ops, rfl, hv, h2⟩
    · exact Or.inr ⟨op :: pre, c, t, post, rfl, hv, hs⟩

/-- **Every history**: each session in the table after any sequence of
connects, messages, closes, sleeps, expiries and media-server events was created
by a hello in that history whose token was valid at that moment. -/
theorem C18_session_needs_token (cfg : Cfg) (ops : List Op) (sid : Nat)
    (h : sid ∈ sids (run cfg {} ops)) :
    ∃ pre c t post, ops = pre ++ Op.msg c (.hello (.token t)) :: post ∧
      ValidToken cfg (run cfg {} pre).now t ∧ sid = (run cfg {} pre).nextSid := by
  rcases run_session_origin cfg ops {} sid h with h0 | h1
  · simp [sids] at h0
  · exact h1

/-- Non-vacuity: a valid hello does create a session. -/
example : sids (run { keys := [("foo", "k0")] } {}
    [.connect 0, .msg 0 (.hello (.token { alg := "RS256", issuer := "foo", verifies := ["k0"], iat := some 0 }))])
    = [1] := by decide

/-- A connection is attached to an existing session (resume) only by presenting
an id string-equal to the public id of a session that is live. -/
theorem C18_resume_needs_live_id (cfg : Cfg) (st : State) (c : Nat) (target : Option Nat)
    (h : ∀ sid, target = some sid → sid ∉ sids st) :
    doHello cfg st c (.resume target) = (st, errOut c "no_such_session") := by
  simp only [doHello]
  cases target with
  | none => rfl
  | some sid =>
    have : findSess st sid = none := by
      unfold findSess
      rw [List.find?_eq_none]
      intro s hs heq
      exact h sid rfl (List.mem_map.mpr ⟨s, hs, by simpa using heq⟩)
    simp [this]

/-! ## 2. Nothing before hello -/

/-- The connection has no session. -/
def Unauth (st : State) (c : Nat) : Prop := ∀ x, findConn st c = some x → x.sess = none

/-- Every message other than hello on a connection without session — any
command, payload, bye, unknown type, malformed document — is answered with an
error to that connection only, and the server state does not change at all. -/
theorem C18_nothing_before_hello (cfg : Cfg) (st : State) (c : Nat) (m : Msg)
    (hc : Unauth st c) (hm : m.isHello = false) :
    (step cfg st (.msg c m)).1 = st ∧
    ∀ p ∈ (step cfg st (.msg c m)).2, p.1 = c ∧ p.2.isErr = true := by
  by_cases hb : isBusy st c = true
  · rw [step_msg_busy cfg st c m hb]; simp
  rw [step_msg_not_busy cfg st c m hb]
  unfold doMsg
  cases hf : findConn st c with
  | none => simp
  | some x =>
    have hx := hc x hf
    simp only [hx, Option.bind_none]
    split
    · simp
    · split
      · simp [errOut, SMsg.isErr]
      · cases m <;> simp_all [Msg.isHello, errOut, SMsg.isErr]

/-- A refused hello (token not accepted, or unknown resume id) has no effect either. -/
theorem C18_refused_hello_no_effect (cfg : Cfg) (st : State) (c : Nat) (t : Tok)
    (hc : Unauth st c) (e : TokErr) (hp : parseToken cfg st.now t = some e) :
    (step cfg st (.msg c (.hello (.token t)))).1 = st ∧
    ∀ p ∈ (step cfg st (.msg c (.hello (.token t)))).2, p.1 = c ∧ p.2.isErr = true := by
  by_cases hb : isBusy st c = true
  · rw [step_msg_busy cfg st c _ hb]; simp
  rw [step_msg_not_busy cfg st c _ hb]
  unfold doMsg
  cases hf : findConn st c with
  | none => simp
  | some x =>
    have hx := hc x hf
    simp only [hx, Option.bind_none]
    split
    · simp
    · simp [Msg.isInvalid, preHelloOnlyType_eq, doHello, newSessionNeedsToken_eq, hp, errOut, SMsg.isErr]

/-- Sequences: any number of such messages from any number of connections
without session leave the server exactly as it was. -/
theorem C18_nothing_before_hello_seq (cfg : Cfg) (st : State) (ms : List (Nat × Msg))
    (h : ∀ p ∈ ms, Unauth st p.1 ∧ p.2.isHello = false) :
    run cfg st (ms.map fun p => Op.msg p.1 p.2) = st := by
  induction ms with
  | nil => rfl
  | cons p ps ih =>
    simp only [List.map_cons, run]
    have hp := h p (List.mem_cons_self ..)
    rw [(C18_nothing_before_hello cfg st p.1 p.2 hp.1 hp.2).1]
    exact ih (fun q hq => h q (List.mem_cons_of_mem _ hq))

example : Unauth (run {} {} [.connect 3]) 3 := by
  intro x hx
  have : findConn (run {} {} [.connect 3]) 3 = some { id := 3 } := by decide
  rw [this] at hx; cases hx; rfl
example : (step {} (run {} {} [.connect 3]) (.msg 3 (.createPub .ok))).2 = [(3, .err "hello_expected")] := by decide

/-! ## 3. Cleanup -/

/-- **Every history**: whatever resolves in the global client table, or is open
at the media server, belongs to a session that is live.  Hence as soon as a
session has ended — bye, expiry, or any other way — every publisher and
subscriber it created is closed and its client ids resolve to nothing. -/
theorem C18_cleanup (cfg : Cfg) (ops : List Op) (o : Obj)
    (h : o ∈ (run cfg {} ops).clients ∨ o ∈ (run cfg {} ops).mcuOpen) :
    o.owner ∈ sids (run cfg {} ops) := by
  have inv := Inv_run (cfg := cfg) ops Inv_init
  have ho : o ∈ (run cfg {} ops).clients := by
    rcases h with h | h
    · exact h
    · exact inv.openRes o h
  obtain ⟨s, hs, h1, _⟩ := inv.owned o ho
  exact List.mem_map.mpr ⟨s, hs, h1⟩

theorem nextSid_mono (cfg : Cfg) (st : State) (op : Op) : st.nextSid ≤ (step cfg st op).1.nextSid := by
  rcases step_sids cfg st op with h | ⟨_, _, _, _, _, h⟩
  · rw [h.2]; exact Nat.le_refl _
  · omega

/-- A session id that has been used and is gone never comes back. -/
theorem C18_ended_stays_ended (cfg : Cfg) (ops : List Op) (st : State) (sid : Nat)
    (hused : sid < st.nextSid) (hgone : sid ∉ sids st) : sid ∉ sids (run cfg st ops) := by
  induction ops generalizing st with
  | nil => exact hgone
  | cons op ops ih =>
    apply ih (step cfg st op).1 (Nat.lt_of_lt_of_le hused (nextSid_mono cfg st op))
    intro hin
    rcases step_sids cfg st op with h | ⟨_, _, _, _, hs, _⟩
    · exact hgone (h.1 sid hin)
    · rw [hs] at hin
      rcases List.mem_append.mp hin with h | h
      · exact hgone h
      · simp at h; omega

theorem sids_lt_nextSid (cfg : Cfg) (ops : List Op) (sid : Nat) (h : sid ∈ sids (run cfg {} ops)) :
    sid < (run cfg {} ops).nextSid := by
  obtain ⟨s, hs, rfl⟩ := List.mem_map.mp h
  exact (Inv_run (cfg := cfg) ops Inv_init).sidsLt s hs

/-- The cleanup clause in the words of the statement: if session `sid` existed
after `pre` and is gone after `pre ++ mid`, then after every continuation
`pre ++ mid ++ post` no object created by it resolves or is open. -/
theorem C18_cleanup_after_end (cfg : Cfg) (pre mid post : List Op) (sid : Nat)
    (hlive : sid ∈ sids (run cfg {} pre)) (hgone : sid ∉ sids (run cfg {} (pre ++ mid))) (o : Obj)
    (ho : o ∈ (run cfg {} (pre ++ mid ++ post)).clients ∨ o ∈ (run cfg {} (pre ++ mid ++ post)).mcuOpen) :
    o.owner ≠ sid := by
  intro heq
  have h1 := C18_cleanup cfg (pre ++ mid ++ post) o ho
  rw [heq, run_append cfg {} (pre ++ mid) post] at h1
  refine C18_ended_stays_ended cfg post _ sid ?_ hgone h1
  have := sids_lt_nextSid cfg pre sid hlive
  rw [run_append]
  have mono : ∀ (l : List Op) (st : State), st.nextSid ≤ (run cfg st l).nextSid := by
    intro l
    induction l with
    | nil => intro st; exact Nat.le_refl _
    | cons op l ih => intro st; exact Nat.le_trans (nextSid_mono cfg st op) (ih _)
  exact Nat.lt_of_lt_of_le this (mono mid _)

/-- Sessions do end: bye removes the session of the connection … -/
theorem C18_bye_ends_session (cfg : Cfg) (st : State) (c : Nat) (x : Conn) (s : Sess)
    (hx : findConn st c = some x) (ho : x.isOpen = true) (hs : x.sess = some s.sid)
    (hf : findSess st s.sid = some s) (hb : isBusy st c = false) :
    s.sid ∉ sids (step cfg st (.msg c .bye)).1 := by
  rw [step_msg_not_busy cfg st c _ (by simp [hb])]
  unfold doMsg
  simp only [hx, ho, Bool.not_true, Bool.false_eq_true, if_false, Msg.isInvalid, Bool.and_false, hs,
    Option.bind_some, hf, doSessionMsg]
  exact closeSession_not_mem _ _

/-- … and the expiry routine removes every session unused for longer than
`sessionExpirationTime`. -/
theorem C18_expire_ends_sessions (cfg : Cfg) (st : State) (s : Sess) (hs : s ∈ st.sessions)
    (he : isExpired st s = true) : s.sid ∉ sids (step cfg st .expire).1 := by
  simp only [step]
  apply closeAll_not_mem
  exact List.mem_map.mpr ⟨s, List.mem_filter.mpr ⟨hs, he⟩, rfl⟩

/-- Non-vacuity for the cleanup theorems: a session with a publisher and a
subscriber; after bye both are gone from the table and closed. -/
def demoCfg : Cfg := { keys := [("foo", "k0")] }
def demoTok : Tok := { alg := "RS256", issuer := "foo", verifies := ["k0"], iat := some 0 }
def demoOps : List Op :=
  [.connect 0, .msg 0 (.hello (.token demoTok)), .msg 0 (.createPub .ok), .msg 0 (.createSub .ok)]

example : (run demoCfg {} demoOps).clients = [⟨1, true, 1⟩, ⟨2, false, 1⟩] ∧
    (run demoCfg {} demoOps).mcuOpen.length = 2 ∧
    (run demoCfg {} (demoOps ++ [.msg 0 .bye])).clients = [] ∧
    (run demoCfg {} (demoOps ++ [.msg 0 .bye])).mcuOpen = [] ∧
    sids (run demoCfg {} (demoOps ++ [.msg 0 .bye])) = [] := by decide

example : (run demoCfg {} (demoOps ++ [.close 0, .sleep 60000000001, .expire])).clients = [] ∧
    sids (run demoCfg {} (demoOps ++ [.close 0, .sleep 60000000001, .expire])) = [] ∧
    sids (run demoCfg {} (demoOps ++ [.close 0, .sleep 60000000000, .expire])) = [1] := by decide

/-! ### Loss of the media server -/

def EmptyFor (st : State) (sid : Nat) : Prop := ∀ s ∈ st.sessions, s.sid = sid → s.pubs = [] ∧ s.subs = []

theorem clearSess_keeps_empty (st : State) (sid sid' : Nat) (h : EmptyFor st sid') :
    EmptyFor (clearSess sid true true st) sid' := by
  unfold clearSess
  cases findSess st sid with
  | none => exact h
  | some s0 =>
    intro s hs heq
    obtain ⟨s2, hs2, rfl⟩ := mem_updSess.mp hs
    by_cases h2 : s2.sid = sid
    · simp [h2]
    · have hne : (s2.sid == sid) = false := by simpa using h2
      simp only [hne] at heq ⊢
      exact h s2 hs2 heq

theorem mcuDownAll_empty (l : List Nat) (st : State) :
    (∀ sid ∈ l, EmptyFor (mcuDownAll l st).1 sid) ∧
    (∀ sid, EmptyFor st sid → EmptyFor (mcuDownAll l st).1 sid) := by
  induction l generalizing st with
  | nil => exact ⟨fun _ h => (by cases h), fun _ h => h⟩
  | cons a rest ih =>
    simp only [mcuDownAll, downClearsPubs_eq, downClearsSubs_eq]
    obtain ⟨ih1, ih2⟩ := ih (clearSess a true true st)
    refine ⟨?_, fun sid h => ih2 sid (clearSess_keeps_empty st a sid h)⟩
    intro sid hs
    rcases List.mem_cons.mp hs with rfl | hr
    · exact ih2 _ (clearSess_empties _)
    · exact ih1 sid hr

/-- When the connection to the media server is lost, nothing resolves any more
and nothing stays open — for every reachable state; the sessions themselves stay. -/
theorem C18_mcu_loss (cfg : Cfg) (st : State) (hinv : Inv st) :
    (step cfg st .mcuDown).1.clients = [] ∧ (step cfg st .mcuDown).1.mcuOpen = [] := by
  simp only [step]
  have inv' := Inv_mcuDownAll (st.sessions.map (·.sid)) hinv
  have hsub := SidsSub_mcuDownAll st (st.sessions.map (·.sid))
  have hempty := (mcuDownAll_empty (st.sessions.map (·.sid)) st).1
  have hc : (mcuDownAll (st.sessions.map (·.sid)) st).1.clients = [] := by
    apply List.eq_nil_iff_forall_not_mem.mpr
    intro o ho
    obtain ⟨s, hs, h1, h2⟩ := inv'.owned o ho
    have hin : s.sid ∈ st.sessions.map (·.sid) := hsub.1 _ (List.mem_map.mpr ⟨s, hs, rfl⟩)
    obtain ⟨hp, hq⟩ := hempty s.sid hin s hs rfl
    cases hb : o.isPub <;> simp [listed, hb, hp, hq] at h2
  refine ⟨hc, ?_⟩
  apply List.eq_nil_iff_forall_not_mem.mpr
  intro o ho
  have := inv'.openRes o ho
  rw [hc] at this
  cases this

theorem C18_mcu_loss_run (cfg : Cfg) (ops : List Op) :
    (run cfg {} (ops ++ [.mcuDown])).clients = [] ∧ (run cfg {} (ops ++ [.mcuDown])).mcuOpen = [] := by
  rw [run_append]
  exact C18_mcu_loss cfg _ (Inv_run ops Inv_init)

example : (run demoCfg {} (demoOps ++ [.mcuDown])).clients = [] ∧
    sids (run demoCfg {} (demoOps ++ [.mcuDown])) = [1] ∧
    (step demoCfg (run demoCfg {} demoOps) .mcuDown).2 = [(0, .ev "backend-disconnected")] := by decide

/-! ## 4. Deleting works only for the owner -/

theorem findObj_of_mem {os : List Obj} (hn : (os.map (·.id)).Nodup) {o : Obj} (h : o ∈ os) :
    findObj os o.id = some o := by
  unfold findObj
  cases hf : os.find? (·.id == o.id) with
  | none =>
    have := List.find?_eq_none.mp hf o h
    simp at this
  | some o' =>
    have h1 := List.mem_of_find?_eq_some hf
    have h2 : o'.id = o.id := by simpa using List.find?_some hf
    rw [obj_unique hn h1 h h2]

/-- The delete command for an object of kind `isPub`. -/
def delMsg (isPub : Bool) (id : Nat) : Msg := if isPub then .deletePub id else .deleteSub id

/-- `delete-publisher` / `delete-subscriber` naming object `o` (of any kind, owned
by anybody), sent on connection `c`, in any reachable state:
* it succeeds only if `c` is attached to the session that created `o`;
* on any other connection it is refused with an error, `o` keeps resolving and
  stays open at the media server. -/
theorem C18_delete_owner_only (cfg : Cfg) (st : State) (hinv : Inv st) (c : Nat) (isPub : Bool)
    (o : Obj) (ho : o ∈ st.clients) :
    ((c, SMsg.deleted o.id) ∈ (step cfg st (.msg c (delMsg isPub o.id))).2 →
        ∃ x, findConn st c = some x ∧ x.sess = some o.owner) ∧
    ((∀ x, findConn st c = some x → x.sess ≠ some o.owner) →
        o ∈ (step cfg st (.msg c (delMsg isPub o.id))).1.clients ∧
        (o ∈ st.mcuOpen → o ∈ (step cfg st (.msg c (delMsg isPub o.id))).1.mcuOpen) ∧
        ∀ p ∈ (step cfg st (.msg c (delMsg isPub o.id))).2, p.2.isErr = true) := by
  by_cases hb : isBusy st c = true
  · rw [step_msg_busy cfg st c _ hb]; simp [ho]
  rw [step_msg_not_busy cfg st c _ hb]
  cases isPub <;>
  ( simp only [delMsg, Bool.false_eq_true, if_false, if_true]
    unfold doMsg
    cases hf : findConn st c with
    | none => simp [ho]
    | some x =>
      simp only
      split
      · simp [ho]
      · simp only [Msg.isInvalid, Bool.and_false, Bool.false_eq_true, if_false]
        cases hs : x.sess.bind (findSess st) with
        | none => simp [errOut, SMsg.isErr, ho]
        | some s =>
          have hxs : x.sess = some s.sid ∧ s ∈ st.sessions := by
            cases hx : x.sess with
            | none => simp [hx] at hs
            | some sid =>
              simp [hx] at hs
              obtain ⟨h1, h2⟩ := findSess_mem hs
              exact ⟨by rw [h2], h1⟩
          simp only [doSessionMsg]
          unfold deleteObj
          have hfo : findObj (markUsed s.sid st.now st).clients o.id = some o :=
            findObj_of_mem hinv.idsNodup ho
          simp only [hfo, ownerCheck_eq, Bool.true_and]
          split
          · simp [errOut, SMsg.isErr, markUsed, ho]
          · split
            · simp [errOut, SMsg.isErr, markUsed, ho]
            · rename_i hk hl
              have hl' : listed s o.isPub o.id = true := by
                have hk' := hk
                simp at hk'
                rw [hk']
                simpa [listed] using hl
              obtain ⟨o', ho', h1, _, h3⟩ := hinv.listedIn s hxs.2 _ o.id hl'
              have := obj_unique hinv.idsNodup ho' ho h1
              subst this
              constructor
              · intro _
                exact ⟨x, rfl, by rw [hxs.1, h3]⟩
              · intro hno
                exact absurd (by rw [hxs.1, h3]) (hno x rfl) )

/-- Non-vacuity: session 2 cannot delete session 1's publisher, session 1 can. -/
def demoOps2 : List Op :=
  demoOps ++ [.connect 1, .msg 1 (.hello (.token demoTok))]

example : (step demoCfg (run demoCfg {} demoOps2) (.msg 1 (delMsg true 1))).2 = [(1, .err "unknown_client")] ∧
    (step demoCfg (run demoCfg {} demoOps2) (.msg 1 (.deletePub 1))).1.clients = (run demoCfg {} demoOps2).clients ∧
    (step demoCfg (run demoCfg {} demoOps2) (.msg 0 (.deletePub 1))).2 = [(0, .deleted 1)] ∧
    (step demoCfg (run demoCfg {} demoOps2) (.msg 0 (.deletePub 1))).1.clients = [⟨2, false, 1⟩] := by decide

/-- For every reachable state (any history). -/
theorem C18_delete_owner_only_run (cfg : Cfg) (ops : List Op) (c : Nat) (isPub : Bool) (o : Obj)
    (ho : o ∈ (run cfg {} ops).clients) :
    ((c, SMsg.deleted o.id) ∈ (step cfg (run cfg {} ops) (.msg c (delMsg isPub o.id))).2 →
        ∃ x, findConn (run cfg {} ops) c = some x ∧ x.sess = some o.owner) ∧
    ((∀ x, findConn (run cfg {} ops) c = some x → x.sess ≠ some o.owner) →
        o ∈ (step cfg (run cfg {} ops) (.msg c (delMsg isPub o.id))).1.clients ∧
        (o ∈ (run cfg {} ops).mcuOpen → o ∈ (step cfg (run cfg {} ops) (.msg c (delMsg isPub o.id))).1.mcuOpen) ∧
        ∀ p ∈ (step cfg (run cfg {} ops) (.msg c (delMsg isPub o.id))).2, p.2.isErr = true) :=
  C18_delete_owner_only cfg _ (Inv_run ops Inv_init) c isPub o ho

/-- What "the session that created it" means in the theorems above: a `created`
reply goes to the connection that asked, that connection has a session, and the
new object — resolvable and open — carries that session as its owner. -/
theorem C18_created_owned (cfg : Cfg) (st : State) (c : Nat) (m : Msg) (c' id : Nat)
    (h : (c', SMsg.created id) ∈ (step cfg st (.msg c m)).2) :
    c' = c ∧ ∃ x sid b, findConn st c = some x ∧ x.sess = some sid ∧
      (⟨id, b, sid⟩ : Obj) ∈ (step cfg st (.msg c m)).1.clients ∧
      (⟨id, b, sid⟩ : Obj) ∈ (step cfg st (.msg c m)).1.mcuOpen :=
  created_owned cfg st c m c' id h

/-! ## 5. The media server answers late

A `create-publisher` / `create-subscriber` is blocked in the media server while
other connections go on; the session may be taken over (resume) and ended
before the answer arrives.  `C18_cleanup`, `C18_mcu_loss` and
`C18_delete_owner_only` above already quantify over such histories (`release`
is an ordinary op).  Spelled out: -/

/-- The answer for a session that has ended leaves no trace: nothing new
resolves, nothing new is open. -/
theorem C18_late_answer_after_end (st : State) (c : Nat) (o : Outcome) (p : Pend)
    (hp : st.pending.find? (·.conn == c) = some p) (hdead : p.sid ∉ sids st) :
    (doRelease st c o).1.clients = st.clients ∧ (doRelease st c o).1.mcuOpen = st.mcuOpen := by
  have hf : findSess st p.sid = none := by
    unfold findSess
    rw [List.find?_eq_none]
    intro s hs heq
    exact hdead (List.mem_map.mpr ⟨s, hs, by simpa using heq⟩)
  have hf' : findSess { st with pending := st.pending.filter (fun q => !(q.conn == c)) } p.sid = none := hf
  unfold doRelease finishLate
  rw [hp]
  simp only [lateStoreGuard_eq]
  cases o <;> simp [finishLateWith, hf']

/-- The history found on the code before the repair (session 1 creates a
publisher, the media server is slow, connection 1 resumes the session and says
bye, then the media server answers): with the guard nothing is left … -/
def lateOps : List Op :=
  [.connect 0, .msg 0 (.hello (.token demoTok)), .msg 0 (.createPub .late),
   .connect 1, .msg 1 (.hello (.resume (some 1))), .msg 1 .bye, .release 0 .ok]

example : sids (run demoCfg {} lateOps) = [] ∧ (run demoCfg {} lateOps).clients = [] ∧
    (run demoCfg {} lateOps).mcuOpen = [] ∧ (run demoCfg {} lateOps).nextObj = 2 := by decide

/-- … and without it (`finishLateWith false`, the code as it was) the publisher of
the ended session 1 resolves and stays open: the statement was violated. -/
theorem C18_unguarded_late_create_orphans :
    let st := run demoCfg {} (lateOps.take 6)
    sids st = [] ∧
    (finishLateWith false { st with pending := [] } ⟨0, 1, true⟩ .ok).1.clients = [⟨1, true, 1⟩] ∧
    (finishLateWith false { st with pending := [] } ⟨0, 1, true⟩ .ok).1.mcuOpen = [⟨1, true, 1⟩] := by decide

/-- While the session lives, a late answer is an ordinary creation. -/
example : (run demoCfg {} [.connect 0, .msg 0 (.hello (.token demoTok)), .msg 0 (.createSub .late),
      .msg 0 .bye, .sleep 5000000000, .release 0 .ok]).clients = [⟨1, false, 1⟩] := by decide

end SigModel.Proxy
