/-
C04 — Room membership is consistent for the server and for every observer.

Theorems over the hub model (`Model/Hub.lean`), for **every** finite sequence of
operations (`run {} ops`): connect, hello, join / re-join / switch room / leave,
disconnect, resume, bye, housekeeping (expiry), room deletion, disinvite,
same-room-session reconnect, virtual sessions, room API calls.
They are corollaries of `reachable_inv` (Lemmas/HubOps.lean): the structural
invariant holds in every reachable state.
-/
import SigModel.Lemmas.HubOps
import SigModel.Lemmas.HubView

namespace SigModel.Hub

/-- The set of members the server holds for room `(b, r)` ( `[]` if there is no such room). -/
def membersOf (h : Hub) (b : Nat) (r : String) : List Nat :=
  match h.rooms b r with
  | some rm => rm.members
  | none => []

/-- **Server side, part 1.** In every reachable state a session is a member of room `(b, r)`
exactly if its own record says so — hence it is in at most one room. -/
theorem C04_membership_agrees (ops : List Op) (b : Nat) (r : String) (s : Nat) :
    s ∈ membersOf (run {} ops).1 b r ↔
      ∃ x, (run {} ops).1.sess s = some x ∧ x.backend = b ∧ x.room = some r := by
  have hi := reachable_inv ops
  generalize (run {} ops).1 = h at hi
  unfold membersOf
  constructor
  · intro hm
    cases hrm : h.rooms b r with
    | none => simp [hrm] at hm
    | some rm => simp only [hrm] at hm; exact hi.mem_room b r rm s hrm hm
  · rintro ⟨x, hx, hb, hr⟩
    obtain ⟨rm, hrm, hm⟩ := hi.room_mem' s x r hx hr
    rw [hb] at hrm; simp only [hrm]; exact hm

theorem C04_at_most_one_room (ops : List Op) (s : Nat) (b₁ b₂ : Nat) (r₁ r₂ : String)
    (h₁ : s ∈ membersOf (run {} ops).1 b₁ r₁) (h₂ : s ∈ membersOf (run {} ops).1 b₂ r₂) :
    b₁ = b₂ ∧ r₁ = r₂ := by
  obtain ⟨x, hx, hb, hr⟩ := (C04_membership_agrees ops b₁ r₁ s).mp h₁
  obtain ⟨y, hy, hb', hr'⟩ := (C04_membership_agrees ops b₂ r₂ s).mp h₂
  rw [hx] at hy; cases hy
  rw [hr] at hr'; cases hr'
  exact ⟨hb.symm.trans hb', rfl⟩

/-- **Server side, part 2.** A room with no members no longer exists, members are listed once. -/
theorem C04_no_empty_rooms (ops : List Op) (b : Nat) (r : String) (rm : Room)
    (h : (run {} ops).1.rooms b r = some rm) : rm.members ≠ [] ∧ rm.members.Nodup :=
  ⟨(reachable_inv ops).nonempty b r rm h, (reachable_inv ops).nodup b r rm h⟩

/-- **Server side, part 3.** The bus listeners of a room are exactly its non-virtual members
(so room events reach the members and nobody else). -/
theorem C04_room_listeners (ops : List Op) (b : Nat) (r : String) (s : Nat) :
    s ∈ (run {} ops).1.roomL b r ↔
      s ∈ membersOf (run {} ops).1 b r ∧ ∃ x, (run {} ops).1.sess s = some x ∧ x.kind ≠ .virtual := by
  have hi := reachable_inv ops
  rw [C04_membership_agrees]
  generalize (run {} ops).1 = h at hi
  rw [hi.roomL_iff]
  constructor
  · rintro ⟨x, hx, hb, hr, hk⟩; exact ⟨⟨x, hx, hb, hr⟩, x, hx, hk⟩
  · rintro ⟨⟨x, hx, hb, hr⟩, y, hy, hk⟩; rw [hx] at hy; cases hy; exact ⟨x, hx, hb, hr, hk⟩

/-- Rooms with the same id on different backends are different table entries with disjoint members. -/
theorem C04_rooms_per_backend (ops : List Op) (b₁ b₂ : Nat) (r : String) (s : Nat) (hne : b₁ ≠ b₂)
    (h₁ : s ∈ membersOf (run {} ops).1 b₁ r) : s ∉ membersOf (run {} ops).1 b₂ r :=
  fun h₂ => hne (C04_at_most_one_room ops s b₁ b₂ r r h₁ h₂).1

/-! ### Observer side

`Sess.seenJoin` models `ClientSession.seenJoinedEvents`.  The observer clause of the statement ("every member that
replays the join and leave events it received obtains exactly that member set") is, in the model,
`viewBad h = []` (Model/HubView.lean).  Proved here, for **every** reachable state:
the replay of what is written to a session *is* its `seenJoin` list (`C04_view_is_replay`), and a join / leave
event published to a room changes the view of exactly the room's non-virtual members by exactly that event and
touches no other session, room or listener list (`C04_observer_publication_partial`).  Not proved: the lifting of this
one-publication statement through the intermediate states of the compound operations to `viewBad = []` in every reachable
state -- that is evaluated by the driver after every step of every case (a test of the model, not a theorem) and judged on
the implementation's own deliveries (`judgeViews`). -/

/-- The view an observer obtains by replaying what was written to it is the session's `seenJoin` list. -/
theorem C04_view_is_replay (x : Sess) (m : Msg) :
    (filterMessage x m).1.seenJoin = replay x.seenJoin (filterMessage x m).2 := replay_filter x m

/-- A join event is passed on exactly as far as it is news; leave events always pass. -/
theorem C04_join_filter_exact (x : Sess) (ss : List Nat) (t : Nat) :
    (t ∈ (filterMessage x (.join ss)).1.seenJoin ↔ t ∈ x.seenJoin ∨ t ∈ ss) ∧
    (∀ fresh, (filterMessage x (.join ss)).2 = some (.join fresh) → ∀ u, u ∈ fresh → u ∉ x.seenJoin ∧ u ∈ ss) :=
  ⟨seen_after_join x ss t, fun fresh h => join_passes_fresh x ss fresh h⟩

/-- **Observer side, one publication (partial: see the section comment).**  In every reachable state, publishing
a join or leave event to room `(b, r)` updates the view of every non-virtual member of the room by exactly
that event, and changes nothing of any session that is not such a member, of the rooms or of the listener lists. -/
theorem C04_observer_publication_partial (ops : List Op) (outs : List Out) (closes : List Nat) (b : Nat) (r : String) (m : Msg)
    (hm : (∃ ss, m = .join ss) ∨ (∃ ss, m = .leave ss)) :
    let h := (run {} ops).1
    let a' := pubRoom ⟨h, outs, closes⟩ b r (.msg m)
    (∀ l, l ∈ membersOf h b r → (∃ x, h.sess l = some x ∧ x.kind ≠ .virtual) →
        ∀ t, t ∈ seenOf a'.h l ↔ viewAfter m (seenOf h l) t) ∧
    (∀ l, ¬ (l ∈ membersOf h b r ∧ ∃ x, h.sess l = some x ∧ x.kind ≠ .virtual) → a'.h.sess l = h.sess l) ∧
    a'.h.rooms = h.rooms ∧ a'.h.roomL = h.roomL := by
  intro h a'
  have hi := reachable_inv ops
  have hL := C04_room_listeners ops b r
  have hl : ∀ l ∈ h.roomL b r, Listens h l := by
    intro l hl
    obtain ⟨x, hx, _, hr, hk⟩ := (hi.roomL_iff b r l).mp hl
    exact ⟨x, hx, hk, by simp [hr]⟩
  obtain ⟨p1, p2, p3, p4, -⟩ := pubRoom_event ⟨h, outs, closes⟩ b r m hm (hi.roomL_nodup b r) hl
  refine ⟨?_, ?_, p3, p4⟩
  · intro l h1 h2; exact p1 l ((hL l).mpr ⟨h1, h2⟩)
  · intro l hn; exact p2 l (fun hl' => hn ((hL l).mp hl'))

theorem rsDelete_frame (h : Hub) (s : Nat) :
    (rsDelete h s).sess = h.sess ∧ (rsDelete h s).rooms = h.rooms ∧ (rsDelete h s).roomL = h.roomL := by
  unfold rsDelete; split <;> simp

/-- **Observer side, a member leaves.**  In every reachable state in which the other members of a room hold the
room's member set, they hold the new member set after an ordinary session `s` has left the room (`leaveRoom`:
listener list, room-session id, the session's own record, `Room.RemoveSession` with its `leave` event). -/
theorem C04_leave_keeps_observers_right (ops : List Op) (outs : List Out) (closes : List Nat) (s : Nat) (x : Sess)
    (r : String) (rm : Room)
    (hx : (run {} ops).1.sess s = some x) (hk : x.kind = .client) (hr : x.room = some r)
    (hrm : (run {} ops).1.rooms x.backend r = some rm)
    (hv : ∀ l ∈ (run {} ops).1.roomL x.backend r, l ≠ s → ∀ t, t ∈ seenOf (run {} ops).1 l ↔ t ∈ rm.members) :
    let a' := (leaveRoom ⟨(run {} ops).1, outs, closes⟩ s).1
    ∀ l ∈ (run {} ops).1.roomL x.backend r, l ≠ s → ∀ t, t ∈ seenOf a'.h l ↔ t ∈ removeL rm.members s := by
  have hi := reachable_inv ops
  generalize (run {} ops).1 = h at *
  intro a' l hl hne t
  obtain ⟨rm', hrm', hs⟩ := hi.room_mem' s x r hx hr
  rw [hrm] at hrm'; cases hrm'
  -- the state `Room.RemoveSession` starts from
  let h3 := setSess (rsDelete (setRoomL h x.backend r (removeL (h.roomL x.backend r) s)) s) s
    (some { x with kind := .client, room := none, roomSess := "", seenJoin := [] })
  have e : a' = roomRemoveSession ⟨h3, outs, closes⟩ x.backend r s .client := by
    simp only [a', leaveRoom, hx, hr, hk, reduceCtorEq, ↓reduceIte]
    rfl
  obtain ⟨f1, f2, f3⟩ := rsDelete_frame (setRoomL h x.backend r (removeL (h.roomL x.backend r) s)) s
  have hsess : ∀ k, k ≠ s → h3.sess k = h.sess k := by
    intro k hk'
    show (if k = s then _ else (rsDelete _ s).sess k) = _
    rw [if_neg hk', f1]; rfl
  have hrooms : h3.rooms = h.rooms := by
    show (rsDelete _ s).rooms = _
    rw [f2]; rfl
  have hroomL : h3.roomL x.backend r = removeL (h.roomL x.backend r) s := by
    show (rsDelete _ s).roomL x.backend r = _
    rw [f3]; simp [setRoomL]
  have hmem : ∀ k, k ∈ h3.roomL x.backend r ↔ k ∈ h.roomL x.backend r ∧ k ≠ s := by
    intro k; rw [hroomL, mem_removeL]
  rw [e]
  apply roomRemoveSession_views ⟨h3, outs, closes⟩ x.backend r s rm (by rw [hrooms]; exact hrm) hs
  · rw [hroomL]; exact (hi.roomL_nodup x.backend r).filter _
  · intro k hk'
    obtain ⟨h1, h2⟩ := (hmem k).mp hk'
    obtain ⟨y, hy, _, hyr, hyk⟩ := (hi.roomL_iff x.backend r k).mp h1
    exact ⟨y, (hsess k h2).trans hy, hyk, by simp [hyr]⟩
  · intro k hk' t'
    obtain ⟨h1, h2⟩ := (hmem k).mp hk'
    have := hv k h1 h2 t'
    simp only [seenOf, hsess k h2] at this ⊢
    exact this
  · exact (hmem l).mpr ⟨hl, hne⟩

/-- **Observer side, a session joins.**  In every reachable state in which the members of a room hold the room's
member set, they and the joiner hold the new member set after an ordinary session that is in no room has joined it
(`Hub.processJoinRoom` after a positive backend answer: listener list, room-session id, the `room` reply, `Room.AddSession`
with its `join` event and the member list for the joiner). -/
theorem C04_join_keeps_observers_right (ops : List Op) (outs : List Out) (closes : List Nat) (s : Nat) (x : Sess)
    (r rsid : String) (perms : Option (List String)) (su : String)
    (hx : (run {} ops).1.sess s = some x) (hk : x.kind = .client) (hr : x.room = none)
    (hv : ∀ l ∈ (run {} ops).1.roomL x.backend r, ∀ t, t ∈ seenOf (run {} ops).1 l ↔ t ∈ membersOf (run {} ops).1 x.backend r) :
    let a' := doJoin ⟨(run {} ops).1, outs, closes⟩ s r rsid perms su
    ∀ l, (l ∈ (run {} ops).1.roomL x.backend r ∨ l = s) → ∀ t, t ∈ seenOf a'.h l ↔
      t ∈ membersOf (run {} ops).1 x.backend r ∨ t = s := by
  have hi := reachable_inv ops
  generalize (run {} ops).1 = h at *
  have hmo : membersOf h x.backend r = ((h.rooms x.backend r).getD {}).members := by
    unfold membersOf; cases h.rooms x.backend r <;> rfl
  rw [hmo] at hv ⊢
  intro a'
  apply doJoin_views ⟨h, outs, closes⟩ s x r rsid perms su hx hk hr
  · -- `s` is in no room, so it is no member of this one
    intro hm
    cases hrm : h.rooms x.backend r with
    | none => simp [hrm] at hm
    | some rm =>
      simp only [hrm, Option.getD_some] at hm
      obtain ⟨y, hy, _, hyr⟩ := hi.mem_room x.backend r rm s hrm hm
      rw [hx] at hy; cases hy
      rw [hr] at hyr; cases hyr
  · exact hi.roomL_nodup x.backend r
  · intro l hl
    obtain ⟨y, hy, _, hyr, hyk⟩ := (hi.roomL_iff x.backend r l).mp hl
    exact ⟨y, hy, hyk, by simp [hyr]⟩
  · exact (hi.sessL_iff s).mpr (by simp [hx])
  · intro l hl _ t; exact hv l hl t

/-- **Observer side, a session switches rooms.**  The same when the joiner comes out of another room `r0` (one step:
leave `r0`, join `r`): the members of the target room and the joiner end with the target room's new member set.
(What the members of `r0` hold afterwards is `C04_leave_keeps_observers_right`.) -/
theorem C04_switch_keeps_observers_right (ops : List Op) (outs : List Out) (closes : List Nat) (s : Nat) (x : Sess)
    (r0 r rsid : String) (perms : Option (List String)) (su : String)
    (hx : (run {} ops).1.sess s = some x) (hk : x.kind = .client) (hr : x.room = some r0) (hne : r ≠ r0)
    (hv : ∀ l ∈ (run {} ops).1.roomL x.backend r, ∀ t, t ∈ seenOf (run {} ops).1 l ↔ t ∈ membersOf (run {} ops).1 x.backend r) :
    let a' := doJoin ⟨(run {} ops).1, outs, closes⟩ s r rsid perms su
    ∀ l, (l ∈ (run {} ops).1.roomL x.backend r ∨ l = s) → ∀ t, t ∈ seenOf a'.h l ↔
      t ∈ membersOf (run {} ops).1 x.backend r ∨ t = s := by
  have hi := reachable_inv ops
  generalize (run {} ops).1 = h at *
  have hmo : membersOf h x.backend r = ((h.rooms x.backend r).getD {}).members := by
    unfold membersOf; cases h.rooms x.backend r <;> rfl
  rw [hmo] at hv ⊢
  intro a'
  obtain ⟨rm0, hrm0, hs0⟩ := hi.room_mem' s x r0 hx hr
  have hl0 : ∀ l ∈ h.roomL x.backend r0, Listens h l := by
    intro l hl
    obtain ⟨y, hy, _, hyr, hyk⟩ := (hi.roomL_iff x.backend r0 l).mp hl
    exact ⟨y, hy, hyk, by simp [hyr]⟩
  obtain ⟨⟨y, hy, hyk, hyr, hyb, -⟩, f2, f3, f4⟩ :=
    leaveRoom_frame ⟨h, outs, closes⟩ s x r0 rm0 hx hk hr hrm0 hs0 (hi.roomL_nodup x.backend r0) hl0
  have hne' : ¬ (x.backend = x.backend ∧ r = r0) := fun c => hne c.2
  obtain ⟨g1, g2⟩ := f3 x.backend r hne'
  -- the join proper starts from the state after the leave
  have e : a' = doJoin (leaveRoom ⟨h, outs, closes⟩ s).1 s r rsid perms su :=
    doJoin_after_leave ⟨h, outs, closes⟩ s r rsid perms su y hy hyr
  -- listeners of the target room are neither `s` nor listeners of `r0`
  have hother : ∀ l ∈ h.roomL x.backend r, l ≠ s ∧ l ∉ h.roomL x.backend r0 := by
    intro l hl
    obtain ⟨w, hw, _, hwr, _⟩ := (hi.roomL_iff x.backend r l).mp hl
    refine ⟨?_, ?_⟩
    · intro c; subst c; rw [hx] at hw; cases hw; rw [hr] at hwr; cases hwr; exact hne rfl
    · intro c
      obtain ⟨w', hw', _, hwr', _⟩ := (hi.roomL_iff x.backend r0 l).mp c
      rw [hw] at hw'; cases hw'; rw [hwr] at hwr'; cases hwr'; exact hne rfl
  rw [e]
  have := doJoin_views (leaveRoom ⟨h, outs, closes⟩ s).1 s y r rsid perms su hy hyk hyr
    (by
      rw [hyb, g1]
      intro hm
      cases hrm : h.rooms x.backend r with
      | none => simp [hrm] at hm
      | some rm =>
        simp only [hrm, Option.getD_some] at hm
        obtain ⟨w, hw, _, hwr⟩ := hi.mem_room x.backend r rm s hrm hm
        rw [hx] at hw; cases hw
        rw [hr] at hwr; cases hwr; exact hne rfl)
    (by rw [hyb, g2]; exact hi.roomL_nodup x.backend r)
    (by
      rw [hyb, g2]
      intro l hl
      obtain ⟨h1, h2⟩ := hother l hl
      obtain ⟨w, hw, _, hwr, hwk⟩ := (hi.roomL_iff x.backend r l).mp hl
      exact ⟨w, (f2 l h1 h2).trans hw, hwk, by simp [hwr]⟩)
    (by rw [f4]; exact (hi.sessL_iff s).mpr (by simp [hx]))
    (by
      rw [hyb, g1, g2]
      intro l hl _ t
      obtain ⟨h1, h2⟩ := hother l hl
      have := hv l hl t
      simp only [seenOf, f2 l h1 h2] at this ⊢
      exact this)
  rw [hyb, g1, g2] at this
  exact this

/-- **Observer side, a session ends** (bye, expiry, kick: `ClientSession.closeAndWait`).  The other members of its room hold
the new member set afterwards: the end of an ordinary session is its leave followed by table updates that touch
no other session. -/
theorem C04_end_keeps_observers_right (ops : List Op) (outs : List Out) (closes : List Nat) (s : Nat) (x : Sess)
    (r : String) (rm : Room)
    (hx : (run {} ops).1.sess s = some x) (hk : x.kind = .client) (hch : x.children = []) (hr : x.room = some r)
    (hrm : (run {} ops).1.rooms x.backend r = some rm)
    (hv : ∀ l ∈ (run {} ops).1.roomL x.backend r, l ≠ s → ∀ t, t ∈ seenOf (run {} ops).1 l ↔ t ∈ rm.members) :
    let a' := closeSession ⟨(run {} ops).1, outs, closes⟩ s
    a'.h.sess s = none ∧
    ∀ l ∈ (run {} ops).1.roomL x.backend r, l ≠ s → ∀ t, t ∈ seenOf a'.h l ↔ t ∈ removeL rm.members s := by
  have hleave := C04_leave_keeps_observers_right ops outs closes s x r rm hx hk hr hrm hv
  have hi := reachable_inv ops
  generalize (run {} ops).1 = h at *
  intro a'
  obtain ⟨rm', hrm', hs⟩ := hi.room_mem' s x r hx hr
  rw [hrm] at hrm'; cases hrm'
  have hl0 : ∀ l ∈ h.roomL x.backend r, Listens h l := by
    intro l hl
    obtain ⟨y, hy, _, hyr, hyk⟩ := (hi.roomL_iff x.backend r l).mp hl
    exact ⟨y, hy, hyk, by simp [hyr]⟩
  obtain ⟨⟨y, hy, _, _, _, hyc⟩, -⟩ :=
    leaveRoom_frame ⟨h, outs, closes⟩ s x r rm hx hk hr hrm hs (hi.roomL_nodup x.backend r) hl0
  have e : a' = { (leaveRoom ⟨h, outs, closes⟩ s).1 with h := dropClient (leaveRoom ⟨h, outs, closes⟩ s).1.h s y } := by
    simp only [a', closeSession, hx, hk, reduceCtorEq, ↓reduceIte, closeClient, hy, hyc, hch, List.foldl_nil]
  rw [e]
  refine ⟨dropClient_sess_self _ s y, ?_⟩
  intro l hl hne t
  have := hleave l hl hne t
  simp only [seenOf, dropClient_sess _ s y l hne] at this ⊢
  exact this

/-- **Views change through join / leave events only.**  Whatever else is written to a session or published to a room
(messages, participant lists, room notices, permissions, errors, bye) leaves every session's view as it is. -/
theorem C04_views_change_by_events_only (a : Acc) (k : Nat) :
    (∀ l m, (∀ ss, m ≠ .join ss) → (∀ ss, m ≠ .leave ss) → seenOf (sendTo a l m).h k = seenOf a.h k) ∧
    (∀ b r am, (∀ ss, am ≠ .msg (.join ss)) → (∀ ss, am ≠ .msg (.leave ss)) →
      seenOf (pubRoom a b r am).h k = seenOf a.h k) :=
  ⟨fun l m hj hl => sendTo_seenOf_other a l m hj hl k, fun b r am hj hl => pubRoom_seenOf_other a b r am hj hl k⟩

/-- The model empties `seenJoin` whenever a session's room is set or cleared (`joinTables`, `leaveRoom`).  The source does
the same as long as `ClientSession.SetRoom` calls `onRoomSet` and `onRoomSet` assigns nil to `seenJoinedEvents`,
both as unconditional top-level statements -- regenerated on every run. -/
theorem C04_view_reset_on_room_change : Generated.Hub.viewResetOnRoomChange = true := by decide

/-- **`Room.RemoveSession`, any kind of member** (ordinary, internal, virtual).  From every reachable state in which the
listeners of a room hold its member set, removing a member — table update, `leave` event, and the participants
list that follows the leave of an internal client — leaves all of them with the new member set. -/
theorem C04_room_remove_keeps_observers_right (ops : List Op) (outs : List Out) (closes : List Nat) (b : Nat) (r : String)
    (s : Nat) (kind : Kind) (rm : Room)
    (hrm : (run {} ops).1.rooms b r = some rm) (hs : s ∈ rm.members)
    (hv : ∀ l ∈ (run {} ops).1.roomL b r, ∀ t, t ∈ seenOf (run {} ops).1 l ↔ t ∈ rm.members) :
    ∀ l ∈ (run {} ops).1.roomL b r, ∀ t,
      t ∈ seenOf (roomRemoveSession ⟨(run {} ops).1, outs, closes⟩ b r s kind).h l ↔ t ∈ removeL rm.members s := by
  have hi := reachable_inv ops
  generalize (run {} ops).1 = h at *
  apply roomRemoveSession_views_any ⟨h, outs, closes⟩ b r s kind rm hrm hs (hi.roomL_nodup b r) _ hv
  intro l hl
  obtain ⟨y, hy, _, hyr, hyk⟩ := (hi.roomL_iff b r l).mp hl
  exact ⟨y, hy, hyk, by simp [hyr]⟩

/-- Non-vacuity / witness: in the demo history below every observer's view is its room's member set, and the
publication theorem's premises are met by two sessions. -/
example : viewBad (run {} [.connect 1, .connect 2, .hello 1 0 .client "alice" false false,
    .hello 2 0 .client "bob" false false, .join 1 "roomA" "nc1" (.ok none ""), .join 2 "roomA" "nc2" (.ok none "")]).1 = []
    ∧ membersOf (run {} [.connect 1, .connect 2, .hello 1 0 .client "alice" false false,
    .hello 2 0 .client "bob" false false, .join 1 "roomA" "nc1" (.ok none ""), .join 2 "roomA" "nc2" (.ok none "")]).1 0 "roomA" = [1, 2] := by
  decide +kernel

/-- Non-vacuity of the premises of `C04_join_keeps_observers_right` / `C04_leave_keeps_observers_right`: a reachable
state with two members that both hold the member set, a third ordinary session in no room, and the outcome of
its join and of a member's leave as the theorems say. -/
private def demo3 : List Op :=
  [.connect 1, .connect 2, .connect 3, .hello 1 0 .client "alice" false false, .hello 2 0 .client "bob" false false,
   .hello 3 0 .client "carol" false false, .join 1 "roomA" "nc1" (.ok none ""), .join 2 "roomA" "nc2" (.ok none "")]

example : (run {} demo3).1.roomL 0 "roomA" = [1, 2] ∧ seenOf (run {} demo3).1 1 = [1, 2] ∧ seenOf (run {} demo3).1 2 = [2, 1] ∧
    ((run {} demo3).1.sess 3).map (fun x => (x.kind, x.room)) = some (.client, none) ∧
    seenOf (doJoin ⟨(run {} demo3).1, [], []⟩ 3 "roomA" "nc3" none "").h 3 = [3, 1, 2] ∧
    seenOf (doJoin ⟨(run {} demo3).1, [], []⟩ 3 "roomA" "nc3" none "").h 1 = [1, 2, 3] ∧
    seenOf (leaveRoom ⟨(run {} demo3).1, [], []⟩ 1).1.h 2 = [2] := by
  decide +kernel

/-! Non-vacuity: a concrete history in which the statements are about something. -/

/-- The model joins a room in one step: the room is looked up and, if absent, created without anything in
between, so two first joiners end up in the same room object.  The source does the same only while
`processJoinRoom` holds `Hub.ru` from the lookup to the creation — regenerated on every run
(`roomCreateAtomic`); the membership theorems speak about the code only as long as it holds. -/
theorem C04_room_creation_atomic : Generated.Hub.roomCreateAtomic = true := by decide

/-- The model applies the backend's room requests in the order they are issued.  The source drops a request as
outdated only against the newest request of the *same* type (its timestamp table is indexed by the request
type), so a `delete` is never discarded because a newer `update` or `incall` request overtook it — regenerated
on every run. -/
theorem C04_backend_requests_ordered_per_type : Generated.Hub.roomRequestOrderPerType = true := by decide

private def demo : List Op :=
  [.connect 1, .connect 2, .hello 1 0 .client "alice" false false, .hello 2 0 .client "bob" false false,
   .join 1 "roomA" "nc1" (.ok none ""), .join 2 "roomA" "nc2" (.ok none ""), .join 1 "roomB" "nc3" (.ok none "")]

example : membersOf (run {} demo).1 0 "roomA" = [2] ∧ membersOf (run {} demo).1 0 "roomB" = [1] := by
  decide +kernel

end SigModel.Hub
