/-
C07 — Closed sessions leave nothing behind and session limits are exact.

Corollaries of `reachable_inv`: in every reachable state of the hub model every
table, set, map and listener list only mentions sessions that exist.
-/
import SigModel.Lemmas.HubOps

namespace SigModel.Hub

/-- Every place of the hub state that can mention a session id. -/
def mentioned (h : Hub) (s : Nat) : Prop :=
  (∃ b r rm, h.rooms b r = some rm ∧ (s ∈ rm.members ∨ s ∈ rm.inCall)) ∨
  (∃ b r, s ∈ h.roomL b r) ∨ (∃ b u, s ∈ h.userL b u) ∨ h.sessL s = true ∨
  (∃ rs, h.rs2sid rs = some s) ∨ (∃ rs, h.sid2rs s = some rs) ∨
  (∃ p k, h.vtable p k = some s) ∨ (∃ k v, h.vtable s k = some v) ∨
  s ∈ h.expired ∨ s ∈ h.anon ∨ s ∈ h.dialout ∨ (∃ b, s ∈ h.count b) ∨
  (∃ c, h.connSess c = some s) ∨ (∃ p x, h.sess p = some x ∧ (s ∈ x.children ∨ (x.kind = .virtual ∧ x.parent = s)))

/-- **No residue.** In every reachable state, a session id that is mentioned anywhere — room
member or in-call lists, room/user/session bus listeners, the room-session maps, the virtual
session table (as value or as owner), the expiry / anonymous / dial-out waiting lists, a
per-backend count, a connection, a parent's child list or a virtual session's parent field —
belongs to a session that exists.  Contrapositive: once a session has ended (bye, expiry,
kick, …: its entry in `sess` is gone) the server holds no reference to it. -/
theorem C07_no_residue (ops : List Op) (s : Nat) (hm : mentioned (run {} ops).1 s) :
    ((run {} ops).1.sess s).isSome = true := by
  have hi := reachable_inv ops
  generalize (run {} ops).1 = h at hi hm
  obtain ⟨f1, f2, f3, f4, f5, f6, f7, f8, f9, f10, f11, f12, f13, f14, f15, f16, f17, f18, f19, f20, f21, f22, f23, f24, f25⟩ := hi
  unfold mentioned at hm
  rcases hm with ⟨b, r, rm, hrm, h1 | h1⟩ | ⟨b, r, h1⟩ | ⟨b, u, h1⟩ | h1 | ⟨rs, h1⟩ | ⟨rs, h1⟩ | ⟨p, k, h1⟩ |
      ⟨k, v, h1⟩ | h1 | h1 | h1 | ⟨b, h1⟩ | ⟨c, h1⟩ | ⟨p, x, hp, h1 | ⟨hk, h1⟩⟩
  · obtain ⟨x, hx, _⟩ := f2 b r rm s hrm h1; simp [hx]
  · obtain ⟨x, hx, _⟩ := f2 b r rm s hrm (f24 b r rm s hrm h1); simp [hx]
  · obtain ⟨x, hx, _⟩ := (f6 b r s).mp h1; simp [hx]
  · obtain ⟨x, hx, _⟩ := (f8 b u s).mp h1; simp [hx]
  · exact (f10 s).mp h1
  · obtain ⟨x, hx, _⟩ := f12 s rs (f11 rs s h1); simp [hx]
  · obtain ⟨x, hx, _⟩ := f12 s rs h1; simp [hx]
  · obtain ⟨x, hx, _⟩ := f15 p k s h1; simp [hx]
  · obtain ⟨vx, hv, hkv, hpar, _⟩ := f15 s k v h1
    obtain ⟨_, _, _, h4⟩ := f13 v vx hv hkv
    rcases h4 with h4 | ⟨p, hp, _⟩
    · cases h4
    · rw [hpar] at hp; simp [hp]
  · exact f19 s h1
  · exact f20 s h1
  · exact f21 s h1
  · obtain ⟨x, hx, _⟩ := f22 b s h1; simp [hx]
  · obtain ⟨x, hx, _⟩ := (f16 c s).mp h1; simp [hx]
  · obtain ⟨vx, hv, _⟩ := f14 p x s hp h1; simp [hv]
  · obtain ⟨_, _, _, h4⟩ := f13 p x hp hk
    rcases h4 with h4 | ⟨q, hq, _⟩
    · cases h4
    · rw [h1] at hq; simp [hq]

/-- A session that has ended is in no room — and a room it emptied is gone (`C04_no_empty_rooms`). -/
theorem C07_ended_in_no_room (ops : List Op) (s : Nat) (hs : (run {} ops).1.sess s = none)
    (b : Nat) (r : String) (rm : Room) (hrm : (run {} ops).1.rooms b r = some rm) : s ∉ rm.members := by
  intro hm
  have := C07_no_residue ops s (Or.inl ⟨b, r, rm, hrm, Or.inl hm⟩)
  rw [hs] at this; cases this

/-- Connections and sessions point at each other, and a connection waiting for hello has no session. -/
theorem C07_connections (ops : List Op) (c s : Nat) :
    ((run {} ops).1.connSess c = some s ↔ ∃ x, (run {} ops).1.sess s = some x ∧ x.conn = some c) ∧
    (c ∈ (run {} ops).1.expectHello → (run {} ops).1.connSess c = none) :=
  ⟨(reachable_inv ops).conn_iff c s, (reachable_inv ops).eh c⟩

/-- The facts of the source the residue theorems depend on (regenerated on every run): the virtual
session table is cleaned when a virtual session ends by any path, and only members of a room are
marked as being in its call. -/
theorem C07_facts : Generated.Hub.vtableClearedOnClose = true ∧ Generated.Hub.inCallMembersOnly = true := by decide

/-- The model registers a session in one step: the limit is compared and the session recorded without
anything in between.  The source does the same only while `Backend.AddSession` compares and records inside
one critical section — a fact regenerated on every run (`limitCheckAtomic`); `C07_limit_respected` speaks
about the code only as long as it holds. -/
theorem C07_limit_check_atomic : Generated.Hub.limitCheckAtomic = true := by decide

/-- The list of federated sessions (`Hub.federatedSessions`) is not one of the model's tables (federation is
outside the hub model); that an ended session is taken off it is a fact of `Hub.removeSession` regenerated on
every run, and the check's judge looks at the real list after every step (`residue:federated`). -/
theorem C07_federated_cleared : Generated.Hub.federatedClearedOnRemove = true := by decide

/-- The model's per-backend count *is* the set of registered sessions (`Hub.count`).  The source reports
`len(b.sessions)` under the set's lock — to its own limit check and to the other servers of a cluster — and keeps
no separate counter that could drift from the set (regenerated on every run). -/
theorem C07_count_is_set_size : Generated.Hub.sessionCountIsSetSize = true := by decide

private def demo : List Op :=
  [.connect 1, .connect 2, .hello 1 0 .internal "" true false, .hello 2 0 .client "bob" false false,
   .join 2 "roomA" "nc2" (.ok none ""), .addVirtual 1 "roomA" "v1" "carol" none true, .bye 1]

/-- Non-vacuity: an internal client with a virtual session in a room says bye; both sessions are gone
and the room keeps only the remaining client. -/
example : ((run {} demo).1.sess 1).isNone ∧ ((run {} demo).1.sess 3).isNone ∧
    ((run {} demo).1.rooms 0 "roomA").map (·.members) = some [2] := by
  decide +kernel

end SigModel.Hub

namespace SigModel.Hub

/-- **Limits are exact.** In every reachable state the number of sessions registered against a
backend's limit does not exceed the limit, and the entries counted are live client (non-internal,
non-virtual) sessions of that backend — so capacity freed by ended sessions is available again
(`C07_no_residue`: an ended session is in no count). -/
theorem C07_limit_respected (ops : List Op) (b : Nat) (hl : (run {} ops).1.limit b ≠ 0) :
    ((run {} ops).1.count b).length ≤ (run {} ops).1.limit b ∧
    ∀ s, s ∈ (run {} ops).1.count b → ∃ x, (run {} ops).1.sess s = some x ∧ x.backend = b ∧ x.kind = .client :=
  ⟨(reachable_inv ops).count_le b hl, fun s hs => (reachable_inv ops).count b s hs⟩

/-- A hello is refused for the limit exactly when the limit is reached: with a free slot a valid hello
on an open, unauthenticated connection yields a session. -/
theorem C07_free_slot_usable (h : Hub) (c b : Nat) (user : String)
    (hopen : h.connOpen c = true) (hfree : h.connSess c = none)
    (hslot : h.limit b = 0 ∨ (h.count b).length < h.limit b) :
    (step h (.hello c b .client user false false)).2.map (·.msg) = [Msg.hello h.nextSid user] := by
  have hl : limitReached h b .client = false := by
    unfold limitReached
    rcases hslot with h0 | h0
    · simp [h0]
    · simp; intro _; omega
  simp [step, stepAcc, processHello, hopen, hfree, hl, flushCloses]

end SigModel.Hub
