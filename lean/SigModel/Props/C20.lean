import SigModel.Model.Bus
import SigModel.Spec.Bus

namespace SigModel.Bus
open SigModel.Generated.Bus

/-- The facts the model is defined over, as the current source has them. -/
theorem C20_facts :
    snapshotIteration = true ∧ closeOnLast = true ∧ sendNonBlocking = true ∧ 0 < chanCap ∧
    publishNeverWaits = true ∧ dispatchPopsFront = true ∧ runUnsubscribesOnClose = true ∧
    subscribeUnderClientLock = true ∧ dispatchProgram = "C?(r)MI(A)UdI(Z)" ∧
    (registerAtomicBackendRoom && registerAtomicRoom && registerAtomicUser && registerAtomicSession) = true ∧
    (addUnderLockBackendRoom && addUnderLockRoom && addUnderLockUser && addUnderLockSession) = true := by
  decide

end SigModel.Bus
